(* Proofs about CO/COModel.v: one ownership invariant of the waiter list / deposit box / coroutine states, preserved by
   every step of the repaired code (cfg_fixed = what the translator regenerates, see gen_cfg_fixed), and its
   consequences. *)
From Coq Require Import ZArith List Bool Arith Lia.
Require Import Verif.Conc.Machine Verif.Gen.Gen_coroutine Verif.CO.COModel.
Import ListNotations.
Local Open Scope Z_scope.

(* the regenerated code paths are the repaired ones; an edit of the loops / branches re-opens this *)
Lemma gen_cfg_fixed : gen_cfg = cfg_fixed.
Proof. reflexivity. Qed.

(* ------------------------------------------------------------------ lists *)
Lemma nth_error_set_nth_eq : forall A (l : list A) n x, (n < length l)%nat -> nth_error (set_nth n x l) n = Some x.
Proof. induction l as [|y l IH]; intros [|n] x H; cbn in *; try lia; auto. apply IH. lia. Qed.
Lemma nth_error_set_nth_ne : forall A (l : list A) n m x, n <> m -> nth_error (set_nth n x l) m = nth_error l m.
Proof. induction l as [|y l IH]; intros [|n] [|m] x H; cbn; auto; try congruence. Qed.
Lemma length_set_nth : forall A (l : list A) n x, length (set_nth n x l) = length l.
Proof. induction l as [|y l IH]; intros [|n] x; cbn; auto. Qed.
Lemma nth_set_nth_eq : forall A (l : list A) n x d, (n < length l)%nat -> nth n (set_nth n x l) d = x.
Proof. induction l as [|y l IH]; intros [|n] x d H; cbn in *; try lia; auto. apply IH. lia. Qed.
Lemma nth_set_nth_ne : forall A (l : list A) n m x d, n <> m -> nth m (set_nth n x l) d = nth m l d.
Proof. induction l as [|y l IH]; intros [|n] [|m] x d H; cbn; auto; try congruence. Qed.
Lemma remove_nat_not_in : forall n l, ~ In n (remove_nat n l).
Proof. induction l as [|x l IH]; cbn; auto. destruct (Nat.eqb x n) eqn:E; auto. cbn. intros [H|H]; auto. subst. rewrite Nat.eqb_refl in E. discriminate. Qed.
Lemma remove_nat_in : forall n m l, In m (remove_nat n l) -> In m l.
Proof. induction l as [|x l IH]; cbn; auto. destruct (Nat.eqb x n); cbn; intuition. Qed.
Lemma remove_nat_keep : forall n m l, In m l -> m <> n -> In m (remove_nat n l).
Proof. induction l as [|x l IH]; cbn; auto. intros [H|H] Hn; destruct (Nat.eqb x n) eqn:E; cbn; auto.
  subst. apply Nat.eqb_eq in E. congruence. Qed.
Lemma remove_nat_nodup : forall n l, NoDup l -> NoDup (remove_nat n l).
Proof. induction 1; cbn; [constructor|]. destruct (Nat.eqb x n); auto. constructor; auto. intro. apply H. eapply remove_nat_in; eauto. Qed.

(* ------------------------------------------------------------------ views of the state *)
Definition cst (s : st) (t : nat) : cpc := match nth_error (clients s) t with Some c => cpcv c | None => CIdle end.
Definition kstat (s : st) (i : nat) : kst := match nth_error (coros s) i with Some k => kstv k | None => KDone end.
Definition kex (s : st) (i : nat) : nat := match nth_error (coros s) i with Some k => kexec k | None => 0%nat end.
Definition nslots (s : st) : nat := length (slots s).

Definition chain_pc (p : cpc) : list nat := match p with W1Take n => [n] | WATake pend _ => pend | _ => [] end.
Definition held_pc (p : cpc) : list nat :=
  match p with
  | W1Resume n | CKResume n => [n]
  | WATake _ taken => taken
  | WAResume cur todo _ => cur :: todo
  | WAFinish _ todo _ | WANext _ todo _ => todo
  | _ => []
  end.
Definition fin_pc (p : cpc) : list nat :=
  match p with W1Finish n | CKFinish n => [n] | WAFinish cur _ _ => [cur] | _ => [] end.
Definition can_pc (p : cpc) : list nat := match p with CKLock n => [n] | _ => [] end.
Definition vis (s : st) : list nat := lst s ++ match mtx s with Some t => chain_pc (cst s t) | None => [] end.

Definition passed (k : kst) (j : nat) : Prop :=
  match k with
  | KReady j' | KLock j' _ | KEnq j' _ | KSusp j' _ => (j < j')%nat
  | KResumed j' => (j <= j')%nat
  | KDone => True
  end.

Definition slot_ok (s : st) (n : nat) : Prop :=
  let sl := slot_at s n in
  nidv sl + 1 < nver s /\ nex sl = kex s (nco sl) /\
  match sst sl with
  | SFree => In n (freel s) /\ ver sl = nidv sl + 1
  | SEmp => kstat s (nco sl) = KLock (nwi sl) n /\ ver sl = nidv sl
  | SQueued => kstat s (nco sl) = KSusp (nwi sl) n /\ ver sl = nidv sl /\ In n (vis s)
  | SCan t => cst s t = CKLock n /\ kstat s (nco sl) = KSusp (nwi sl) n /\ ver sl = nidv sl + 1
  | SHeld t => In n (held_pc (cst s t)) /\ kstat s (nco sl) = KSusp (nwi sl) n /\ ver sl = nidv sl + 1
  | SFin t => In n (fin_pc (cst s t)) /\ ver sl = nidv sl + 1
  end.

Definition thread_ok (s : st) (t : nat) : Prop :=
  let p := cst s t in
  NoDup (held_pc p) /\
  (forall n, In n (held_pc p) -> (n < nslots s)%nat /\ sst (slot_at s n) = SHeld t) /\
  (forall n, In n (fin_pc p) -> (n < nslots s)%nat /\ sst (slot_at s n) = SFin t) /\
  (forall n, In n (can_pc p) -> (n < nslots s)%nat /\ sst (slot_at s n) = SCan t) /\
  (chain_pc p <> [] -> mtx s = Some t).

Definition coro_ok (s : st) (i : nat) : Prop :=
  match kstat s i with
  | KLock j n => (n < nslots s)%nat /\ sst (slot_at s n) = SEmp /\ nco (slot_at s n) = i /\ nwi (slot_at s n) = j
  | KSusp j n => (n < nslots s)%nat /\ nco (slot_at s n) = i /\ nwi (slot_at s n) = j /\
                 (sst (slot_at s n) = SQueued \/ exists t, sst (slot_at s n) = SCan t \/ sst (slot_at s n) = SHeld t)
  | KEnq _ _ => False      (* only the code that compares outside the mutex gets there *)
  | _ => True
  end.

Definition tok_ok (s : st) (x : (nat * nat) * (nat * Z)) : Prop :=
  let n := fst (snd x) in let v := snd (snd x) in
  (n < nslots s)%nat /\ v <= ver (slot_at s n) /\ (v = ver (slot_at s n) -> sst (slot_at s n) = SQueued).

Definition log_ok (s : st) (x : nat * nat * nat) : Prop :=
  snd x = kex s (fst (fst x)) /\ passed (kstat s (fst (fst x))) (snd (fst x)).

Record Inv (s : st) : Prop := {
  i_slot : forall n, (n < nslots s)%nat -> slot_ok s n;
  i_thread : forall t, thread_ok s t;
  i_coro : forall i, coro_ok s i;
  i_vis_nodup : NoDup (vis s);
  i_vis : forall n, In n (vis s) -> (n < nslots s)%nat /\
            (sst (slot_at s n) = SQueued \/ exists t, sst (slot_at s n) = SCan t);
  i_free_nodup : NoDup (freel s);
  i_free : forall n, In n (freel s) -> (n < nslots s)%nat /\ sst (slot_at s n) = SFree;
  i_linked : forall n, In n (lst s) -> linked (slot_at s n) = true;
  i_tok : forall x, In x (tokens s) -> tok_ok s x;
  i_bad : bad s = 0%nat;
  i_log : forall x, In x (rlog s) -> log_ok s x;
  i_log_nodup : NoDup (map fst (rlog s))
}.

(* ------------------------------------------------------------------ getters after an update *)
Lemma slot_at_put_eq : forall s n sl, (n < nslots s)%nat -> slot_at (put_slot s n sl) n = sl.
Proof. intros. unfold slot_at, put_slot. cbn. apply nth_set_nth_eq. exact H. Qed.
Lemma slot_at_put_ne : forall s n m sl, n <> m -> slot_at (put_slot s n sl) m = slot_at s m.
Proof. intros. unfold slot_at, put_slot. cbn. apply nth_set_nth_ne. exact H. Qed.
Lemma slot_at_frame : forall s s' n, slots s' = slots s -> slot_at s' n = slot_at s n.
Proof. intros. unfold slot_at. now rewrite H. Qed.
Lemma nslots_put : forall s n sl, nslots (put_slot s n sl) = nslots s.
Proof. intros. unfold nslots, put_slot. cbn. apply length_set_nth. Qed.
Lemma cst_set_eq : forall s t c cl, nth_error (clients s) t = Some cl -> cst (set_client s t c) t = cpcv c.
Proof. intros. unfold cst, set_client. cbn. rewrite nth_error_set_nth_eq; auto. apply nth_error_Some. congruence. Qed.
Lemma cst_set_ne : forall s t t' c, t <> t' -> cst (set_client s t c) t' = cst s t'.
Proof. intros. unfold cst, set_client. cbn. now rewrite nth_error_set_nth_ne. Qed.
Lemma cst_frame : forall s s' t, clients s' = clients s -> cst s' t = cst s t.
Proof. intros. unfold cst. now rewrite H. Qed.
Lemma kstat_set_eq : forall s i k x, nth_error (coros s) i = Some k -> kstat (set_coro s i (set_kst k x)) i = x.
Proof. intros. unfold kstat, set_coro. cbn. rewrite nth_error_set_nth_eq; auto. apply nth_error_Some. congruence. Qed.
Lemma kstat_set_ne : forall s i i' k, i <> i' -> kstat (set_coro s i k) i' = kstat s i'.
Proof. intros. unfold kstat, set_coro. cbn. now rewrite nth_error_set_nth_ne. Qed.
Lemma kstat_frame : forall s s' i, coros s' = coros s -> kstat s' i = kstat s i.
Proof. intros. unfold kstat. now rewrite H. Qed.
Lemma kex_set : forall s i i' k x, nth_error (coros s) i = Some k -> kex (set_coro s i (set_kst k x)) i' = kex s i'.
Proof.
  intros. unfold kex, set_coro. cbn. destruct (Nat.eq_dec i i') as [->|Hn].
  - rewrite nth_error_set_nth_eq, H; auto. apply nth_error_Some. congruence.
  - now rewrite nth_error_set_nth_ne.
Qed.
Lemma kex_frame : forall s s' i, coros s' = coros s -> kex s' i = kex s i.
Proof. intros. unfold kex. now rewrite H. Qed.
Lemma dec_enc : forall o, dec (enc o) = o.
Proof. intros [n|]; unfold dec, enc; auto. destruct (Z.leb_spec (Z.of_nat n + 1) 0); [lia|]. f_equal. lia. Qed.

(* ------------------------------------------------------------------ frame: a step that changes no ownership *)
Definition same_core (a b : slot) : Prop :=
  ver a = ver b /\ nidv a = nidv b /\ nco a = nco b /\ nwi a = nwi b /\ nex a = nex b /\ sst a = sst b.

Lemma Inv_move : forall s s' t p',
  Inv s ->
  (forall m, same_core (slot_at s' m) (slot_at s m)) -> nslots s' = nslots s ->
  coros s' = coros s -> freel s' = freel s -> nver s' = nver s -> tokens s' = tokens s -> bad s' = bad s ->
  rlog s' = rlog s ->
  (forall t', t' <> t -> cst s' t' = cst s t') -> cst s' t = p' ->
  held_pc p' = held_pc (cst s t) -> fin_pc p' = fin_pc (cst s t) -> can_pc p' = can_pc (cst s t) ->
  (chain_pc p' <> [] -> mtx s' = Some t) ->
  (mtx s' = mtx s \/ (mtx s = None /\ mtx s' = Some t) \/ (mtx s = Some t /\ mtx s' = None)) ->
  NoDup (vis s') -> (forall m, In m (vis s') -> In m (vis s)) ->
  (forall m, In m (vis s) -> ~ In m (vis s') -> exists t', sst (slot_at s m) = SCan t') ->
  (forall m, In m (lst s') -> linked (slot_at s' m) = true) ->
  Inv s'.
Proof.
  intros s s' t p' I Hsl Hns Hco Hfr Hnv Htk Hbad Hlog Hcne Hct Hh Hf Hc Hch Hm Hnd Hvin Hvdrop Hlk.
  assert (Hk : forall i, kstat s' i = kstat s i) by (intro; apply kstat_frame; auto).
  assert (Hx : forall i, kex s' i = kex s i) by (intro; apply kex_frame; auto).
  assert (Hheld : forall t', held_pc (cst s' t') = held_pc (cst s t')).
  { intro t'. destruct (Nat.eq_dec t' t) as [->|Hn]; [rewrite Hct; auto | rewrite Hcne; auto]. }
  assert (Hfin : forall t', fin_pc (cst s' t') = fin_pc (cst s t')).
  { intro t'. destruct (Nat.eq_dec t' t) as [->|Hn]; [rewrite Hct; auto | rewrite Hcne; auto]. }
  assert (Hcan : forall t', can_pc (cst s' t') = can_pc (cst s t')).
  { intro t'. destruct (Nat.eq_dec t' t) as [->|Hn]; [rewrite Hct; auto | rewrite Hcne; auto]. }
  destruct I as [Is It Ic Ivn Iv Ifn If Il Itok Ib Ilog Iln].
  constructor.
  - intros n Hn. rewrite Hns in Hn. specialize (Is n Hn). unfold slot_ok in *.
    destruct (Hsl n) as (e1 & e2 & e3 & e4 & e5 & e6). rewrite e1, e2, e3, e4, e5, e6, Hnv, Hx, Hk, Hfr.
    destruct Is as (A & B & C). split; [exact A|]. split; [exact B|].
    destruct (sst (slot_at s n)) as [| | |t0|t0|t0] eqn:E; auto.
    + destruct C as (C1 & C2 & C3). repeat split; auto.
      destruct (in_dec Nat.eq_dec n (vis s')) as [|Hni]; auto.
      destruct (Hvdrop n C3 Hni) as [t' Ht']. congruence.
    + destruct C as (C1 & C2 & C3). repeat split; auto.
      assert (Hcc : In n (can_pc (cst s t0))) by (rewrite C1; cbn; auto).
      rewrite <- Hcan in Hcc. destruct (cst s' t0); cbn in Hcc; try contradiction. destruct Hcc as [->|[]]. reflexivity.
    + destruct C as (C1 & C2 & C3). repeat split; auto. rewrite Hheld. exact C1.
    + destruct C as (C1 & C2). split; auto. rewrite Hfin. exact C1.
  - intro t'. specialize (It t'). unfold thread_ok in *. rewrite Hheld, Hfin, Hcan, Hns.
    destruct It as (A & B & C & D & E). repeat split; auto.
    + apply B; auto. + destruct (Hsl n) as (_ & _ & _ & _ & _ & e6). rewrite e6. apply B; auto.
    + apply C; auto. + destruct (Hsl n) as (_ & _ & _ & _ & _ & e6). rewrite e6. apply C; auto.
    + apply D; auto. + destruct (Hsl n) as (_ & _ & _ & _ & _ & e6). rewrite e6. apply D; auto.
    + destruct (Nat.eq_dec t' t) as [->|Hn]; [rewrite Hct; auto|]. rewrite Hcne by auto. intro Hne. specialize (E Hne).
      destruct Hm as [Hm|[[Hm _]|[Hm _]]]; congruence.
  - intro i. specialize (Ic i). unfold coro_ok in *. rewrite Hk, Hns.
    destruct (kstat s i); auto.
    + destruct (Hsl n) as (_ & _ & e3 & e4 & _ & e6). rewrite e3, e4, e6. exact Ic.
    + destruct (Hsl n) as (_ & _ & e3 & e4 & _ & e6). rewrite e3, e4, e6. exact Ic.
  - exact Hnd.
  - intros n Hn. rewrite Hns. destruct (Hsl n) as (_ & _ & _ & _ & _ & e6). rewrite e6. apply Iv. auto.
  - rewrite Hfr. exact Ifn.
  - intros n Hn. rewrite Hfr in Hn. rewrite Hns. destruct (Hsl n) as (_ & _ & _ & _ & _ & e6). rewrite e6. apply If. auto.
  - exact Hlk.
  - intros x Hxin. rewrite Htk in Hxin. specialize (Itok x Hxin). unfold tok_ok in *. rewrite Hns.
    destruct (Hsl (fst (snd x))) as (e1 & _ & _ & _ & _ & e6). rewrite e1, e6. exact Itok.
  - congruence.
  - intros x Hxin. rewrite Hlog in Hxin. specialize (Ilog x Hxin). unfold log_ok in *. rewrite Hx, Hk. exact Ilog.
  - rewrite Hlog. exact Iln.
Qed.

Lemma NoDup_app_single : forall A (l : list A) x, ~ In x l -> NoDup l -> NoDup (l ++ [x]).
Proof.
  induction l as [|y l IH]; intros x Hx Hn; cbn; [constructor; auto; constructor|].
  inversion Hn; subst. constructor.
  - rewrite in_app_iff. cbn. intros [H|[H|[]]]; auto. subst. apply Hx. cbn. auto.
  - apply IH; auto. intro. apply Hx. cbn. auto.
Qed.

Lemma can_pc_in : forall p m, In m (can_pc p) -> p = CKLock m.
Proof. intros p m H. destruct p; cbn in H; try contradiction. destruct H as [->|[]]. reflexivity. Qed.

(* ------------------------------------------------------------------ a client changes the ownership of node n *)
Lemma Inv_trans : forall s s' t p' n sl',
  Inv s -> (n < nslots s)%nat ->
  let sl := slot_at s n in
  (sst sl = SQueued \/ sst sl = SCan t \/ sst sl = SFin t \/ sst sl = SHeld t) ->
  (sst sl' = SCan t \/ sst sl' = SHeld t \/ sst sl' = SFree \/ sst sl' = SFin t) ->
  nidv sl' = nidv sl -> nco sl' = nco sl -> nwi sl' = nwi sl -> nex sl' = nex sl ->
  ver sl <= ver sl' -> (ver sl' = ver sl -> sst sl <> SQueued) ->
  slot_at s' n = sl' -> (forall m, m <> n -> same_core (slot_at s' m) (slot_at s m)) -> nslots s' = nslots s ->
  coros s' = coros s -> nver s' = nver s -> tokens s' = tokens s -> bad s' = bad s -> rlog s' = rlog s ->
  (forall t', t' <> t -> cst s' t' = cst s t') -> cst s' t = p' ->
  NoDup (held_pc p') ->
  (forall m, m <> n -> (In m (held_pc p') <-> In m (held_pc (cst s t)))) -> (In n (held_pc p') <-> sst sl' = SHeld t) ->
  (forall m, m <> n -> (In m (fin_pc p') <-> In m (fin_pc (cst s t)))) -> (In n (fin_pc p') <-> sst sl' = SFin t) ->
  (forall m, m <> n -> (In m (can_pc p') <-> In m (can_pc (cst s t)))) -> (In n (can_pc p') <-> sst sl' = SCan t) ->
  (chain_pc p' <> [] -> mtx s' = Some t) ->
  (mtx s' = mtx s \/ (mtx s = None /\ mtx s' = Some t) \/ (mtx s = Some t /\ mtx s' = None)) ->
  slot_ok s' n ->
  (forall i j, kstat s i = KSusp j n -> sst sl' <> SFree /\ sst sl' <> SFin t) ->
  NoDup (vis s') -> (forall m, In m (vis s') -> In m (vis s)) ->
  (forall m, In m (vis s) -> ~ In m (vis s') -> m = n \/ exists t', sst (slot_at s m) = SCan t') ->
  (In n (vis s') -> exists t', sst sl' = SCan t') ->
  NoDup (freel s') -> (forall m, In m (freel s') -> In m (freel s) \/ (m = n /\ sst sl' = SFree)) ->
  (forall m, In m (freel s) -> In m (freel s')) ->
  (forall m, In m (lst s') -> linked (slot_at s' m) = true) ->
  Inv s'.
Proof.
  intros s s' t p' n sl' I Hn sl Hg Hg' En Ec Ew Ee Hv Hv2 Hsn Hsl Hns Hco Hnv Htk Hbad Hlog Hcne Hct Hhnd
         Hh Hhn Hf Hfn Hc Hcn Hch Hm Hnok Hks Hnd Hvin Hvdrop Hvn Hfnd Hfin Hfkeep Hlk.
  assert (Hk : forall i, kstat s' i = kstat s i) by (intro; apply kstat_frame; auto).
  assert (Hx : forall i, kex s' i = kex s i) by (intro; apply kex_frame; auto).
  destruct I as [Is It Ic Ivn Iv Ifn If Il Itok Ib Ilog Iln].
  assert (Hown : forall t0 m, t0 <> t ->
            (sst (slot_at s m) = SHeld t0 \/ sst (slot_at s m) = SFin t0 \/ sst (slot_at s m) = SCan t0) -> m <> n).
  { intros t0 m Ht0 Hs Hmn. subst m. fold sl in Hs. destruct Hg as [G|[G|[G|G]]]; rewrite G in Hs;
      destruct Hs as [Hs|[Hs|Hs]]; congruence. }
  constructor.
  - intros m Hmlt. destruct (Nat.eq_dec m n) as [->|Hmn]; [exact Hnok|].
    rewrite Hns in Hmlt. specialize (Is m Hmlt). unfold slot_ok in *.
    destruct (Hsl m Hmn) as (e1 & e2 & e3 & e4 & e5 & e6). rewrite e1, e2, e3, e4, e5, e6, Hnv, Hx, Hk.
    destruct Is as (A & B & C). split; [exact A|]. split; [exact B|].
    destruct (sst (slot_at s m)) as [| | |t0|t0|t0] eqn:E; auto.
    + destruct C as (C1 & C2). split; auto.
    + destruct C as (C1 & C2 & C3). repeat split; auto.
      destruct (in_dec Nat.eq_dec m (vis s')) as [|Hni]; auto.
      destruct (Hvdrop m C3 Hni) as [|[t' Ht']]; congruence.
    + destruct C as (C1 & C2 & C3). repeat split; auto.
      destruct (Nat.eq_dec t0 t) as [->|Ht0]; [|rewrite Hcne; auto].
      rewrite Hct. apply can_pc_in. apply Hc; auto. rewrite C1. cbn. auto.
    + destruct C as (C1 & C2 & C3). repeat split; auto.
      destruct (Nat.eq_dec t0 t) as [->|Ht0]; [|rewrite Hcne; auto]. rewrite Hct. apply Hh; auto.
    + destruct C as (C1 & C2). split; auto.
      destruct (Nat.eq_dec t0 t) as [->|Ht0]; [|rewrite Hcne; auto]. rewrite Hct. apply Hf; auto.
  - intro t'. unfold thread_ok. rewrite Hns. destruct (Nat.eq_dec t' t) as [->|Ht'].
    + rewrite Hct. specialize (It t). unfold thread_ok in It. destruct It as (A & B & C & D & E).
      split; [exact Hhnd|]. split; [|split; [|split]].
      * intros m Hm'. destruct (Nat.eq_dec m n) as [->|Hmn].
        -- split; auto. rewrite Hsn. apply Hhn. exact Hm'.
        -- destruct (Hsl m Hmn) as (_ & _ & _ & _ & _ & e6). rewrite e6. apply B. apply Hh; auto.
      * intros m Hm'. destruct (Nat.eq_dec m n) as [->|Hmn].
        -- split; auto. rewrite Hsn. apply Hfn. exact Hm'.
        -- destruct (Hsl m Hmn) as (_ & _ & _ & _ & _ & e6). rewrite e6. apply C. apply Hf; auto.
      * intros m Hm'. destruct (Nat.eq_dec m n) as [->|Hmn].
        -- split; auto. rewrite Hsn. apply Hcn. exact Hm'.
        -- destruct (Hsl m Hmn) as (_ & _ & _ & _ & _ & e6). rewrite e6. apply D. apply Hc; auto.
      * exact Hch.
    + rewrite Hcne by auto. specialize (It t'). unfold thread_ok in It. destruct It as (A & B & C & D & E).
      split; [exact A|]. split; [|split; [|split]].
      * intros m Hm'. destruct (B m Hm') as [B1 B2]. assert (m <> n) by (eapply Hown; eauto).
        destruct (Hsl m H) as (_ & _ & _ & _ & _ & e6). rewrite e6. auto.
      * intros m Hm'. destruct (C m Hm') as [B1 B2]. assert (m <> n) by (eapply Hown; eauto).
        destruct (Hsl m H) as (_ & _ & _ & _ & _ & e6). rewrite e6. auto.
      * intros m Hm'. destruct (D m Hm') as [B1 B2]. assert (m <> n) by (eapply Hown; eauto).
        destruct (Hsl m H) as (_ & _ & _ & _ & _ & e6). rewrite e6. auto.
      * intro Hne. specialize (E Hne). destruct Hm as [Hm|[[Hm _]|[Hm _]]]; congruence.
  - intro i. specialize (Ic i). unfold coro_ok in *. rewrite Hk, Hns.
    destruct (kstat s i) eqn:Ek; auto.
    + destruct Ic as (A & B & C & D). assert (n0 <> n).
      { intro; subst n0. fold sl in B. destruct Hg as [G|[G|[G|G]]]; congruence. }
      destruct (Hsl n0 H) as (_ & _ & e3 & e4 & _ & e6). rewrite e3, e4, e6. auto.
    + destruct Ic as (A & B & C & D). destruct (Nat.eq_dec n0 n) as [->|Hmn].
      * rewrite Hsn, Ec, Ew. repeat split; auto. destruct (Hks _ _ Ek) as [K1 K2].
        destruct Hg' as [G|[G|[G|G]]]; try congruence; right; exists t; auto.
      * destruct (Hsl n0 Hmn) as (_ & _ & e3 & e4 & _ & e6). rewrite e3, e4, e6. auto.
  - exact Hnd.
  - intros m Hm'. rewrite Hns. destruct (Nat.eq_dec m n) as [->|Hmn].
    + split; auto. rewrite Hsn. right. apply Hvn. exact Hm'.
    + destruct (Hsl m Hmn) as (_ & _ & _ & _ & _ & e6). rewrite e6. apply Iv. auto.
  - exact Hfnd.
  - intros m Hm'. rewrite Hns. destruct (Hfin m Hm') as [Hold|[-> Hfree]].
    + destruct (If m Hold) as [F1 F2]. assert (m <> n).
      { intro; subst m. fold sl in F2. destruct Hg as [G|[G|[G|G]]]; congruence. }
      destruct (Hsl m H) as (_ & _ & _ & _ & _ & e6). rewrite e6. auto.
    + rewrite Hsn. auto.
  - exact Hlk.
  - intros x Hxin. rewrite Htk in Hxin. specialize (Itok x Hxin). unfold tok_ok in *. rewrite Hns.
    destruct (Nat.eq_dec (fst (snd x)) n) as [Hxn|Hxn].
    + rewrite Hxn in *. rewrite Hsn. fold sl in Itok. destruct Itok as (T1 & T2 & T3). split; auto. split; [lia|].
      intro Heq. exfalso. assert (ver sl' = ver sl) by lia. apply (Hv2 H). apply T3. lia.
    + destruct (Hsl _ Hxn) as (e1 & _ & _ & _ & _ & e6). rewrite e1, e6. exact Itok.
  - congruence.
  - intros x Hxin. rewrite Hlog in Hxin. specialize (Ilog x Hxin). unfold log_ok in *. rewrite Hx, Hk. exact Ilog.
  - rewrite Hlog. exact Iln.
Qed.

(* ------------------------------------------------------------------ the owner of node n resumes its coroutine *)
Lemma Inv_resume : forall s s' t p' n sl',
  Inv s -> (n < nslots s)%nat ->
  let sl := slot_at s n in
  sst sl = SHeld t -> sst sl' = SFin t ->
  ver sl' = ver sl -> nidv sl' = nidv sl -> nco sl' = nco sl -> nwi sl' = nwi sl -> nex sl' = nex sl ->
  slot_at s' n = sl' -> (forall m, m <> n -> same_core (slot_at s' m) (slot_at s m)) -> nslots s' = nslots s ->
  kstat s' (nco sl) = KResumed (nwi sl) -> (forall i', i' <> nco sl -> kstat s' i' = kstat s i') ->
  (forall i', kex s' i' = kex s i') ->
  nver s' = nver s -> tokens s' = tokens s -> bad s' = bad s -> rlog s' = rlog s ++ [(nco sl, nwi sl, nex sl)] ->
  freel s' = freel s -> lst s' = lst s -> mtx s' = mtx s ->
  (forall t', t' <> t -> cst s' t' = cst s t') -> cst s' t = p' ->
  chain_pc p' = chain_pc (cst s t) ->
  NoDup (held_pc p') ->
  (forall m, m <> n -> (In m (held_pc p') <-> In m (held_pc (cst s t)))) -> ~ In n (held_pc p') ->
  (forall m, m <> n -> (In m (fin_pc p') <-> In m (fin_pc (cst s t)))) -> In n (fin_pc p') ->
  can_pc p' = can_pc (cst s t) ->
  (forall m, In m (lst s') -> linked (slot_at s' m) = true) ->
  Inv s'.
Proof.
  intros s s' t p' n sl' I Hn sl Hg Hg' Ev En Ec Ew Ee Hsn Hsl Hns Hki Hkne Hx Hnv Htk Hbad Hlog Hfr Hlst Hmtx
         Hcne Hct Hchain Hhnd Hh Hhn Hf Hfn Hc Hlk.
  destruct I as [Is It Ic Ivn Iv Ifn If Il Itok Ib Ilog Iln].
  pose proof (Is n Hn) as Isn. unfold slot_ok in Isn. fold sl in Isn. rewrite Hg in Isn.
  destruct Isn as (N1 & N2 & N3 & N4 & N5).
  assert (Hvis : vis s' = vis s).
  { unfold vis. rewrite Hlst, Hmtx. destruct (mtx s) as [t0|]; auto. f_equal.
    destruct (Nat.eq_dec t0 t) as [->|Ht0]; [rewrite Hct; auto | rewrite Hcne; auto]. }
  assert (Hown : forall t0 m, t0 <> t ->
            (sst (slot_at s m) = SHeld t0 \/ sst (slot_at s m) = SFin t0 \/ sst (slot_at s m) = SCan t0) -> m <> n).
  { intros t0 m Ht0 Hs Hmn. subst m. fold sl in Hs. rewrite Hg in Hs. destruct Hs as [Hs|[Hs|Hs]]; congruence. }
  (* a slot other than n whose state depends on the status of coroutine (nco sl) would be n *)
  assert (Hkk : forall m, m <> n -> forall K, (K = KLock (nwi (slot_at s m)) m \/ K = KSusp (nwi (slot_at s m)) m) ->
            kstat s (nco (slot_at s m)) = K -> kstat s' (nco (slot_at s m)) = K).
  { intros m Hmn K HK HKs. destruct (Nat.eq_dec (nco (slot_at s m)) (nco sl)) as [e|e]; [|rewrite Hkne; auto].
    exfalso. rewrite e in HKs. rewrite N4 in HKs. destruct HK as [->| ->]; congruence. }
  constructor.
  - intros m Hmlt. rewrite Hns in Hmlt. destruct (Nat.eq_dec m n) as [->|Hmn].
    + unfold slot_ok. rewrite Hsn, Hg', Ev, En, Ec, Ee, Hnv, Hx, Hct. repeat split; auto.
    + specialize (Is m Hmlt). unfold slot_ok in *.
      destruct (Hsl m Hmn) as (e1 & e2 & e3 & e4 & e5 & e6). rewrite e1, e2, e3, e4, e5, e6, Hnv, Hx, Hfr, Hvis.
      destruct Is as (A & B & C). split; [exact A|]. split; [exact B|].
      destruct (sst (slot_at s m)) as [| | |t0|t0|t0] eqn:E; auto.
      * destruct C as (C1 & C2). split; auto.
      * destruct C as (C1 & C2 & C3). repeat split; auto.
      * destruct C as (C1 & C2 & C3). repeat split; auto.
        destruct (Nat.eq_dec t0 t) as [->|Ht0]; [|rewrite Hcne; auto].
        rewrite Hct. apply can_pc_in. rewrite Hc, C1. cbn. auto.
      * destruct C as (C1 & C2 & C3). repeat split; auto.
        destruct (Nat.eq_dec t0 t) as [->|Ht0]; [|rewrite Hcne; auto]. rewrite Hct. apply Hh; auto.
      * destruct C as (C1 & C2). split; auto.
        destruct (Nat.eq_dec t0 t) as [->|Ht0]; [|rewrite Hcne; auto]. rewrite Hct. apply Hf; auto.
  - intro t'. unfold thread_ok. rewrite Hns. destruct (Nat.eq_dec t' t) as [->|Ht'].
    + rewrite Hct. specialize (It t). unfold thread_ok in It. destruct It as (A & B & C & D & E).
      split; [exact Hhnd|]. split; [|split; [|split]].
      * intros m Hm'. destruct (Nat.eq_dec m n) as [->|Hmn]; [contradiction|].
        destruct (Hsl m Hmn) as (_ & _ & _ & _ & _ & e6). rewrite e6. apply B. apply Hh; auto.
      * intros m Hm'. destruct (Nat.eq_dec m n) as [->|Hmn].
        -- split; auto. rewrite Hsn. exact Hg'.
        -- destruct (Hsl m Hmn) as (_ & _ & _ & _ & _ & e6). rewrite e6. apply C. apply Hf; auto.
      * intros m Hm'. rewrite Hc in Hm'. destruct (D m Hm') as [D1 D2]. assert (m <> n).
        { intro; subst m. fold sl in D2. congruence. }
        destruct (Hsl m H) as (_ & _ & _ & _ & _ & e6). rewrite e6. auto.
      * rewrite Hchain, Hmtx. exact E.
    + rewrite Hcne by auto. specialize (It t'). unfold thread_ok in It. destruct It as (A & B & C & D & E).
      split; [exact A|]. split; [|split; [|split]].
      * intros m Hm'. destruct (B m Hm') as [B1 B2]. assert (m <> n) by (eapply Hown; eauto).
        destruct (Hsl m H) as (_ & _ & _ & _ & _ & e6). rewrite e6. auto.
      * intros m Hm'. destruct (C m Hm') as [B1 B2]. assert (m <> n) by (eapply Hown; eauto).
        destruct (Hsl m H) as (_ & _ & _ & _ & _ & e6). rewrite e6. auto.
      * intros m Hm'. destruct (D m Hm') as [B1 B2]. assert (m <> n) by (eapply Hown; eauto).
        destruct (Hsl m H) as (_ & _ & _ & _ & _ & e6). rewrite e6. auto.
      * rewrite Hmtx. exact E.
  - intro i. unfold coro_ok. rewrite Hns. destruct (Nat.eq_dec i (nco sl)) as [->|Hi]; [rewrite Hki; exact I|].
    rewrite Hkne by auto. specialize (Ic i). unfold coro_ok in Ic.
    destruct (kstat s i) eqn:Ek; auto.
    + destruct Ic as (A & B & C & D). assert (n0 <> n) by (intro; subst n0; fold sl in B; congruence).
      destruct (Hsl n0 H) as (_ & _ & e3 & e4 & _ & e6). rewrite e3, e4, e6. auto.
    + destruct Ic as (A & B & C & D). assert (n0 <> n) by (intro; subst n0; fold sl in B; congruence).
      destruct (Hsl n0 H) as (_ & _ & e3 & e4 & _ & e6). rewrite e3, e4, e6. auto.
  - rewrite Hvis. exact Ivn.
  - intros m Hm'. rewrite Hvis in Hm'. rewrite Hns. destruct (Iv m Hm') as [V1 V2]. assert (m <> n).
    { intro; subst m. fold sl in V2. rewrite Hg in V2. destruct V2 as [V2|[t' V2]]; congruence. }
    destruct (Hsl m H) as (_ & _ & _ & _ & _ & e6). rewrite e6. auto.
  - rewrite Hfr. exact Ifn.
  - intros m Hm'. rewrite Hfr in Hm'. rewrite Hns. destruct (If m Hm') as [F1 F2]. assert (m <> n).
    { intro; subst m. fold sl in F2. congruence. }
    destruct (Hsl m H) as (_ & _ & _ & _ & _ & e6). rewrite e6. auto.
  - exact Hlk.
  - intros x Hxin. rewrite Htk in Hxin. specialize (Itok x Hxin). unfold tok_ok in *. rewrite Hns.
    destruct (Nat.eq_dec (fst (snd x)) n) as [Hxn|Hxn].
    + rewrite Hxn in *. rewrite Hsn, Ev, Hg'. fold sl in Itok. rewrite Hg in Itok. destruct Itok as (T1 & T2 & T3).
      split; auto. split; auto. intro Heq. specialize (T3 Heq). discriminate.
    + destruct (Hsl _ Hxn) as (e1 & _ & _ & _ & _ & e6). rewrite e1, e6. exact Itok.
  - congruence.
  - intros x Hxin. rewrite Hlog in Hxin. apply in_app_or in Hxin. destruct Hxin as [Hxin|[<-|[]]].
    + specialize (Ilog x Hxin). unfold log_ok in *. rewrite Hx. destruct Ilog as [L1 L2]. split; auto.
      destruct (Nat.eq_dec (fst (fst x)) (nco sl)) as [e|e]; [|rewrite Hkne; auto].
      rewrite e in *. rewrite Hki. rewrite N4 in L2. cbn in *. lia.
    + unfold log_ok. cbn. rewrite Hx, Hki. split; auto. cbn. lia.
  - rewrite Hlog, map_app. cbn. apply NoDup_app_single. 2: exact Iln.
    intro Hin. apply in_map_iff in Hin. destruct Hin as (x & Hx1 & Hx2). specialize (Ilog x Hx2). unfold log_ok in Ilog.
    destruct Ilog as [_ L2]. destruct x as [[a b] e]. cbn in *. inversion Hx1; subst. rewrite N4 in L2. cbn in L2. lia.
Qed.

(* ------------------------------------------------------------------ a coroutine step that touches no node *)
Lemma Inv_kmove : forall s s' i K',
  Inv s ->
  (forall j n, kstat s i <> KLock j n) -> (forall j n, kstat s i <> KSusp j n) ->
  (forall j n, K' <> KLock j n) -> (forall j n, K' <> KSusp j n) -> (forall j n, K' <> KEnq j n) ->
  (forall j, passed (kstat s i) j -> passed K' j) ->
  slots s' = slots s -> clients s' = clients s -> lst s' = lst s -> mtx s' = mtx s -> freel s' = freel s ->
  nver s' = nver s -> tokens s' = tokens s -> bad s' = bad s -> rlog s' = rlog s ->
  kstat s' i = K' -> (forall i', i' <> i -> kstat s' i' = kstat s i') -> (forall i', kex s' i' = kex s i') ->
  Inv s'.
Proof.
  intros s s' i K' I N1 N2 N3 N4 N5 Hp Hsl Hcl Hlst Hmtx Hfr Hnv Htk Hbad Hlog Hki Hkne Hx.
  assert (Hs : forall m, slot_at s' m = slot_at s m) by (intro; apply slot_at_frame; auto).
  assert (Hc : forall t, cst s' t = cst s t) by (intro; apply cst_frame; auto).
  assert (Hns : nslots s' = nslots s) by (unfold nslots; now rewrite Hsl).
  assert (Hvis : vis s' = vis s) by (unfold vis; rewrite Hlst, Hmtx; destruct (mtx s); auto; now rewrite Hc).
  destruct I as [Is It Ic Ivn Iv Ifn If Il Itok Ib Ilog Iln].
  assert (Hkk : forall i' K, kstat s i' = K -> (exists j n, K = KLock j n \/ K = KSusp j n) -> kstat s' i' = K).
  { intros i' K HK (j & n & HJ). destruct (Nat.eq_dec i' i) as [->|Hn]; [|rewrite Hkne; auto].
    exfalso. destruct HJ as [->| ->]; [eapply N1|eapply N2]; eauto. }
  constructor.
  - intros m Hm. rewrite Hns in Hm. specialize (Is m Hm). unfold slot_ok in *. rewrite Hs, Hnv, Hx, Hfr, Hvis.
    destruct Is as (A & B & C). split; [exact A|]. split; [exact B|].
    destruct (sst (slot_at s m)) as [| | |t0|t0|t0]; rewrite ?Hc.
    + exact C.
    + destruct C as (C1 & C2). split; auto. apply Hkk; eauto.
    + destruct C as (C1 & C2 & C3). repeat split; auto. apply Hkk; eauto.
    + destruct C as (C1 & C2 & C3). repeat split; auto. apply Hkk; eauto.
    + destruct C as (C1 & C2 & C3). repeat split; auto. apply Hkk; eauto.
    + exact C.
  - intro t. specialize (It t). unfold thread_ok in *. rewrite Hc, Hns, Hmtx.
    destruct It as (A & B & C & D & E). split; [exact A|]. split; [|split; [|split]]; auto.
    + intros q Hq. rewrite Hs. apply B; auto.
    + intros q Hq. rewrite Hs. apply C; auto.
    + intros q Hq. rewrite Hs. apply D; auto.
  - intro i'. unfold coro_ok. rewrite Hns. destruct (Nat.eq_dec i' i) as [->|Hn].
    + rewrite Hki. destruct K'; auto; exfalso; [eapply N3|eapply N5|eapply N4]; eauto.
    + rewrite Hkne by auto. specialize (Ic i'). unfold coro_ok in Ic. destruct (kstat s i'); auto; rewrite Hs; auto.
  - rewrite Hvis; auto.
  - intros n Hn. rewrite Hvis in Hn. rewrite Hns, Hs. auto.
  - rewrite Hfr; auto.
  - intros n Hn. rewrite Hfr in Hn. rewrite Hns, Hs. auto.
  - intros n Hn. rewrite Hlst in Hn. rewrite Hs. auto.
  - intros x Hxin. rewrite Htk in Hxin. specialize (Itok x Hxin). unfold tok_ok in *. rewrite Hns, Hs. auto.
  - congruence.
  - intros x Hxin. rewrite Hlog in Hxin. specialize (Ilog x Hxin). unfold log_ok in *. rewrite Hx. destruct Ilog as [L1 L2].
    split; auto. destruct (Nat.eq_dec (fst (fst x)) i) as [e|e]; [|rewrite Hkne; auto]. rewrite e in *. rewrite Hki. auto.
  - rewrite Hlog; auto.
Qed.

(* ------------------------------------------------------------------ a coroutine step on its own node n
   (emplace: free / new slot -> SEmp; add_awaiter: SEmp -> SQueued; non-matching wait: SEmp -> SFree) *)
Lemma Inv_ktrans : forall s s' i n sl' K',
  Inv s ->
  let sl := slot_at s n in
  (((n < nslots s)%nat /\ (sst sl = SFree \/ (sst sl = SEmp /\ nco sl = i))) \/ n = nslots s) ->
  (sst sl' = SEmp \/ sst sl' = SQueued \/ sst sl' = SFree) ->
  ((exists j, kstat s i = KReady j) \/ (exists j, kstat s i = KLock j n)) ->
  ((n < nslots s)%nat -> ver sl < ver sl' \/ (ver sl' = ver sl /\ sst sl' = SQueued)) ->
  (forall j, passed (kstat s i) j -> passed K' j) ->
  slot_at s' n = sl' -> (n < nslots s')%nat -> (nslots s <= nslots s')%nat ->
  (forall m, (m < nslots s')%nat -> m = n \/ (m < nslots s)%nat) ->
  (forall m, m <> n -> (m < nslots s)%nat -> same_core (slot_at s' m) (slot_at s m)) ->
  clients s' = clients s -> mtx s' = mtx s -> nver s <= nver s' -> bad s' = bad s -> rlog s' = rlog s ->
  kstat s' i = K' -> (forall i', i' <> i -> kstat s' i' = kstat s i') -> (forall i', kex s' i' = kex s i') ->
  slot_ok s' n -> coro_ok s' i ->
  NoDup (vis s') -> (forall m, In m (vis s') -> m = n \/ In m (vis s)) -> (forall m, In m (vis s) -> In m (vis s')) ->
  (In n (vis s') -> sst sl' = SQueued) ->
  NoDup (freel s') -> (forall m, In m (freel s') -> (In m (freel s) /\ m <> n) \/ (m = n /\ sst sl' = SFree)) ->
  (forall m, In m (freel s) -> m <> n -> In m (freel s')) ->
  (forall m, In m (lst s') -> linked (slot_at s' m) = true) ->
  (forall x, In x (tokens s') -> In x (tokens s) \/ tok_ok s' x) ->
  Inv s'.
Proof.
  intros s s' i n sl' K' I sl Hold Hg' HK Hver Hp Hsn Hnlt Hnsle Hnsm Hsl Hcl Hmtx Hnv Hbad Hlog Hki Hkne Hx
         Hnok Hiok Hvnd Hvin Hvkeep Hvn Hfnd Hfin Hfkeep Hlk Htk.
  assert (Hc : forall t, cst s' t = cst s t) by (intro; apply cst_frame; auto).
  destruct I as [Is It Ic Ivn Iv Ifn If Il Itok Ib Ilog Iln].
  (* nodes owned by clients, queued, or of another coroutine are not n *)
  assert (Hne : forall m, (m < nslots s)%nat ->
            (sst (slot_at s m) = SQueued \/ (exists t, sst (slot_at s m) = SCan t \/ sst (slot_at s m) = SHeld t \/
             sst (slot_at s m) = SFin t) \/ (sst (slot_at s m) = SEmp /\ nco (slot_at s m) <> i)) -> m <> n).
  { intros m Hm Hs Hmn. subst m. fold sl in Hs. destruct Hold as [[_ [G|[G G2]]]|G]; [| |lia];
      destruct Hs as [Hs|[[t [Hs|[Hs|Hs]]]|[Hs Hs2]]]; congruence. }
  assert (Hkk : forall m, (m < nslots s)%nat -> m <> n -> forall K,
            (K = KLock (nwi (slot_at s m)) m \/ K = KSusp (nwi (slot_at s m)) m) ->
            kstat s (nco (slot_at s m)) = K -> kstat s' (nco (slot_at s m)) = K).
  { intros m Hm Hmn K HKK HKs. destruct (Nat.eq_dec (nco (slot_at s m)) i) as [e|e]; [|rewrite Hkne; auto].
    exfalso. rewrite e in HKs. destruct HK as [[j HK]|[j HK]]; rewrite HK in HKs; destruct HKK as [->| ->]; congruence. }
  constructor.
  - intros m Hmlt. destruct (Nat.eq_dec m n) as [->|Hmn]; [exact Hnok|].
    destruct (Hnsm m Hmlt) as [|Hm]; [contradiction|]. specialize (Is m Hm). unfold slot_ok in *.
    destruct (Hsl m Hmn Hm) as (e1 & e2 & e3 & e4 & e5 & e6). rewrite e1, e2, e3, e4, e5, e6, Hx.
    destruct Is as (A & B & C). split; [lia|]. split; [exact B|].
    destruct (sst (slot_at s m)) as [| | |t0|t0|t0] eqn:E; rewrite ?Hc.
    + destruct C as (C1 & C2). split; auto.
    + destruct C as (C1 & C2). split; auto; try (apply Hkk; auto).
    + destruct C as (C1 & C2 & C3). repeat split; auto; try (apply Hkk; auto).
    + destruct C as (C1 & C2 & C3). repeat split; auto; try (apply Hkk; auto).
    + destruct C as (C1 & C2 & C3). repeat split; auto; try (apply Hkk; auto).
    + exact C.
  - intro t. specialize (It t). unfold thread_ok in *. rewrite Hc, Hmtx.
    destruct It as (A & B & C & D & E). split; [exact A|]. split; [|split; [|split]]; auto.
    + intros q Hq. destruct (B q Hq) as [B1 B2]. assert (q <> n) by (apply Hne; eauto 6).
      destruct (Hsl q H B1) as (_ & _ & _ & _ & _ & e6). rewrite e6. split; auto; lia.
    + intros q Hq. destruct (C q Hq) as [B1 B2]. assert (q <> n) by (apply Hne; eauto 6).
      destruct (Hsl q H B1) as (_ & _ & _ & _ & _ & e6). rewrite e6. split; auto; lia.
    + intros q Hq. destruct (D q Hq) as [B1 B2]. assert (q <> n) by (apply Hne; eauto 6).
      destruct (Hsl q H B1) as (_ & _ & _ & _ & _ & e6). rewrite e6. split; auto; lia.
  - intro i'. destruct (Nat.eq_dec i' i) as [->|Hi]; [exact Hiok|].
    unfold coro_ok. rewrite Hkne by auto. specialize (Ic i'). unfold coro_ok in Ic.
    destruct (kstat s i') eqn:Ek; auto.
    + destruct Ic as (A & B & C & D). assert (n0 <> n) by (apply Hne; auto; right; right; split; congruence).
      destruct (Hsl n0 H A) as (_ & _ & e3 & e4 & _ & e6). rewrite e3, e4, e6. repeat split; auto; lia.
    + destruct Ic as (A & B & C & D). assert (n0 <> n).
      { apply Hne; auto. destruct D as [D|[t [D|D]]]; eauto 6. }
      destruct (Hsl n0 H A) as (_ & _ & e3 & e4 & _ & e6). rewrite e3, e4, e6. repeat split; auto; lia.
  - exact Hvnd.
  - intros m Hm'. destruct (Hvin m Hm') as [->|Hm].
    + split; auto. rewrite Hsn. left. apply Hvn. exact Hm'.
    + destruct (Iv m Hm) as [V1 V2]. assert (m <> n).
      { apply Hne; auto. destruct V2 as [V2|[t V2]]; eauto 6. }
      destruct (Hsl m H V1) as (_ & _ & _ & _ & _ & e6). rewrite e6. split; auto; lia.
  - exact Hfnd.
  - intros m Hm'. destruct (Hfin m Hm') as [[Hm Hmn]|[-> Hf]].
    + destruct (If m Hm) as [F1 F2]. destruct (Hsl m Hmn F1) as (_ & _ & _ & _ & _ & e6). rewrite e6. split; auto; lia.
    + split; auto. rewrite Hsn. exact Hf.
  - exact Hlk.
  - intros x Hxin. destruct (Htk x Hxin) as [Hxold|]; auto. specialize (Itok x Hxold). unfold tok_ok in *.
    destruct Itok as (T1 & T2 & T3). destruct (Nat.eq_dec (fst (snd x)) n) as [Hxn|Hxn].
    + rewrite Hxn in *. rewrite Hsn. fold sl in T2, T3. split; auto. destruct (Hver T1) as [Hlt|[Heq Hq]].
      * split; [lia|]. intro; lia.
      * split; [lia|]. auto.
    + destruct (Hsl _ Hxn T1) as (e1 & _ & _ & _ & _ & e6). rewrite e1, e6. split; [lia|]. auto.
  - congruence.
  - intros x Hxin. rewrite Hlog in Hxin. specialize (Ilog x Hxin). unfold log_ok in *. rewrite Hx. destruct Ilog as [L1 L2].
    split; auto. destruct (Nat.eq_dec (fst (fst x)) i) as [e|e]; [|rewrite Hkne; auto]. rewrite e in *. rewrite Hki. auto.
  - rewrite Hlog; auto.
Qed.

Ltac sc := intro; unfold same_core; repeat split; reflexivity.

Lemma Inv_move_simple : forall s s' t p',
  Inv s -> slots s' = slots s -> coros s' = coros s -> lst s' = lst s -> freel s' = freel s -> nver s' = nver s ->
  tokens s' = tokens s -> bad s' = bad s -> rlog s' = rlog s -> mtx s' = mtx s ->
  (forall t', t' <> t -> cst s' t' = cst s t') -> cst s' t = p' ->
  held_pc p' = held_pc (cst s t) -> fin_pc p' = fin_pc (cst s t) -> can_pc p' = can_pc (cst s t) ->
  chain_pc p' = [] -> chain_pc (cst s t) = [] ->
  Inv s'.
Proof.
  intros s s' t p' I Hsl Hco Hlst Hfr Hnv Htk Hbad Hlog Hmtx Hcne Hct Hh Hf Hc Hch1 Hch2.
  assert (Hs : forall m, slot_at s' m = slot_at s m) by (intro; apply slot_at_frame; auto).
  assert (Hvis : vis s' = vis s).
  { unfold vis. rewrite Hlst, Hmtx. destruct (mtx s) as [t0|]; auto. f_equal.
    destruct (Nat.eq_dec t0 t) as [->|Ht0]; [rewrite Hct; congruence | rewrite Hcne; auto]. }
  eapply Inv_move with (t := t) (p' := p'); eauto.
  - intro m. rewrite Hs. unfold same_core. auto 10.
  - unfold nslots. now rewrite Hsl.
  - intro H. congruence.
  - rewrite Hvis. apply (i_vis_nodup _ I).
  - intros m Hm. now rewrite <- Hvis.
  - intros m Hm Hn. rewrite Hvis in Hn. contradiction.
  - intros m Hm. rewrite Hs. rewrite Hlst in Hm. apply (i_linked _ I). auto.
Qed.

Lemma cst_of : forall s t cl, nth_error (clients s) t = Some cl -> cst s t = cpcv cl.
Proof. intros. unfold cst. now rewrite H. Qed.
Lemma kstat_of : forall s i k, nth_error (coros s) i = Some k -> kstat s i = kstv k.
Proof. intros. unfold kstat. now rewrite H. Qed.
Lemma kex_of : forall s i k, nth_error (coros s) i = Some k -> kex s i = kexec k.
Proof. intros. unfold kex. now rewrite H. Qed.

(* ------------------------------------------------------------------ primitive updates *)
Lemma set_nth_oob : forall A (l : list A) n x, (length l <= n)%nat -> set_nth n x l = l.
Proof. induction l as [|y l IH]; intros [|n] x H; cbn in *; auto; try lia. f_equal. apply IH. lia. Qed.
Lemma slot_at_put : forall s n sl m,
  slot_at (put_slot s n sl) m = if (Nat.eqb m n && (n <? nslots s)%nat)%bool then sl else slot_at s m.
Proof.
  intros. destruct (Nat.eqb_spec m n) as [->|Hn]; cbn [andb].
  - destruct (Nat.ltb_spec n (nslots s)); [apply slot_at_put_eq; auto|].
    unfold slot_at, put_slot. cbn. rewrite set_nth_oob; auto.
  - apply slot_at_put_ne. auto.
Qed.
Lemma unlink_mark_core : forall s n m, same_core (slot_at (unlink_mark s n) m) (slot_at s m).
Proof.
  intros. unfold unlink_mark. rewrite slot_at_put. destruct (Nat.eqb_spec m n) as [->|]; cbn [andb];
    [destruct (n <? nslots s)%nat|]; unfold same_core; cbn; auto 10.
Qed.
Lemma unlink_mark_linked : forall s n m, m <> n -> linked (slot_at (unlink_mark s n) m) = linked (slot_at s m).
Proof. intros. unfold unlink_mark. rewrite slot_at_put. destruct (Nat.eqb_spec m n); [contradiction|]. reflexivity. Qed.
Lemma vis_eq : forall s l m, lst s = l -> mtx s = m ->
  vis s = l ++ match m with Some t => chain_pc (cst s t) | None => [] end.
Proof. intros. unfold vis. now rewrite H, H0. Qed.
Lemma NoDup_rot : forall (n : nat) r, NoDup (n :: r) -> NoDup (r ++ [n]).
Proof. intros n r H. inversion H; subst. apply NoDup_app_single; auto. Qed.

Ltac cne := intros; etransitivity; [apply cst_set_ne; auto | reflexivity].
Ltac ceq H := erewrite cst_set_eq; [reflexivity | exact H].
Lemma NoDup_app_l : forall A (a b : list A), NoDup (a ++ b) -> NoDup a.
Proof. induction a as [|x a IH]; intros b H; [constructor|]. inversion H; subst. constructor; [|eapply IH; eauto].
  intro. apply H2. apply in_app_iff. auto. Qed.
Lemma NoDup_app_r : forall A (a b : list A), NoDup (a ++ b) -> NoDup b.
Proof. induction a as [|x a IH]; intros b H; auto. inversion H; subst. eauto. Qed.
Lemma NoDup_app_disj : forall A (a b : list A) x, NoDup (a ++ b) -> In x a -> In x b -> False.
Proof. induction a as [|y a IH]; intros b x H Ha Hb; [destruct Ha|]. inversion H; subst. destruct Ha as [->|Ha].
  - apply H2. apply in_app_iff. auto. - eapply IH; eauto. Qed.
Lemma slot_at_upd_other : forall s n sl m, m <> n -> same_core (slot_at (put_slot s n sl) m) (slot_at s m).
Proof. intros. rewrite slot_at_put_ne by auto. unfold same_core; auto 10. Qed.

(* resume_node on a held node *)
Lemma L_resume : forall s t cl n c',
  Inv s -> nth_error (clients s) t = Some cl ->
  In n (held_pc (cst s t)) ->
  chain_pc (cpcv c') = chain_pc (cst s t) -> NoDup (held_pc (cpcv c')) ->
  (forall m, m <> n -> (In m (held_pc (cpcv c')) <-> In m (held_pc (cst s t)))) -> ~ In n (held_pc (cpcv c')) ->
  (forall m, m <> n -> (In m (fin_pc (cpcv c')) <-> In m (fin_pc (cst s t)))) -> In n (fin_pc (cpcv c')) ->
  can_pc (cpcv c') = can_pc (cst s t) ->
  Inv (set_client (mark (resume_node s n) n (SFin t)) t c').
Proof.
  intros s t cl n c' I Hcl Hin Hch Hnd Hh Hhn Hf Hfn Hc.
  destruct (i_thread _ I t) as (_ & B & _). destruct (B n Hin) as [Hn Hg].
  pose proof (i_slot _ I n Hn) as Sn. unfold slot_ok in Sn. rewrite Hg in Sn. destruct Sn as (S1 & S2 & S3 & S4 & S5).
  unfold resume_node. unfold kstat in S4. destruct (nth_error (coros s) (nco (slot_at s n))) as [k|] eqn:Ek; [|discriminate].
  rewrite S4.
  set (s1 := set_ghost _ _ _). set (s' := set_client _ t c').
  assert (Hs1 : slot_at s1 n = slot_at s n) by reflexivity.
  assert (Hn1 : (n < nslots s1)%nat) by exact Hn.
  eapply (Inv_resume s s' t (cpcv c') n) with (sl' := upd_slot (slot_at s n) (ver (slot_at s n)) (linked (slot_at s n)) (SFin t));
    try reflexivity; auto.
  - unfold s', mark. change (slot_at (set_client ?x t c') n) with (slot_at x n). rewrite Hs1. apply slot_at_put_eq. exact Hn1.
  - intros m Hm. unfold s', mark. change (slot_at (set_client ?x t c') m) with (slot_at x m).
    rewrite slot_at_put_ne by auto. unfold same_core; auto 10.
  - unfold s', mark. exact (nslots_put s1 n _).
  - change (kstat s' (nco (slot_at s n))) with (kstat (set_coro s (nco (slot_at s n)) (set_kst k (KResumed (nwi (slot_at s n))))) (nco (slot_at s n))).
    apply kstat_set_eq. exact Ek.
  - intros i' Hi'. change (kstat s' i') with (kstat (set_coro s (nco (slot_at s n)) (set_kst k (KResumed (nwi (slot_at s n))))) i').
    apply kstat_set_ne. auto.
  - intros i'. change (kex s' i') with (kex (set_coro s (nco (slot_at s n)) (set_kst k (KResumed (nwi (slot_at s n))))) i').
    eapply kex_set. exact Ek.
  - unfold s'. cne.
  - unfold s'. ceq Hcl.
  - intros m Hm. unfold s', mark. change (slot_at (set_client ?x t c') m) with (slot_at x m). rewrite slot_at_put.
    destruct (Nat.eqb m n && (n <? nslots s1)%nat)%bool eqn:E.
    + apply andb_prop in E. destruct E as [E _]. apply Nat.eqb_eq in E. subst m. change (linked (slot_at s n) = true). apply (i_linked _ I). exact Hm.
    + apply (i_linked _ I). exact Hm.
Qed.

Lemma vis_same : forall s s' t, lst s' = lst s -> mtx s' = mtx s -> (forall t', t' <> t -> cst s' t' = cst s t') ->
  chain_pc (cst s' t) = chain_pc (cst s t) -> vis s' = vis s.
Proof.
  intros s s' t Hl Hm Hc Ht. unfold vis. rewrite Hl, Hm. destruct (mtx s) as [t0|]; auto. f_equal.
  destruct (Nat.eq_dec t0 t) as [->|Hn]; auto. rewrite Hc; auto.
Qed.

Lemma put_linked : forall s n v g m,
  linked (slot_at (put_slot s n (upd_slot (slot_at s n) v (linked (slot_at s n)) g)) m) = linked (slot_at s m).
Proof.
  intros. rewrite slot_at_put. destruct (Nat.eqb_spec m n) as [->|]; cbn [andb]; auto. destruct (n <? nslots s)%nat; auto.
Qed.

Lemma L_release : forall s t cl n c',
  Inv s -> nth_error (clients s) t = Some cl ->
  In n (fin_pc (cst s t)) ->
  chain_pc (cpcv c') = [] -> chain_pc (cst s t) = [] ->
  held_pc (cpcv c') = held_pc (cst s t) -> can_pc (cpcv c') = can_pc (cst s t) ->
  (forall m, m <> n -> (In m (fin_pc (cpcv c')) <-> In m (fin_pc (cst s t)))) -> ~ In n (fin_pc (cpcv c')) ->
  Inv (set_client (release s n) t c').
Proof.
  intros s t cl n c' I Hcl Hin Hch1 Hch2 Hh Hc Hf Hfn.
  destruct (i_thread _ I t) as (A & B & C & D & _). destruct (C n Hin) as [Hn Hg].
  pose proof (i_slot _ I n Hn) as Sn. unfold slot_ok in Sn. rewrite Hg in Sn. destruct Sn as (S1 & S2 & S3 & S4).
  set (s' := set_client _ t c').
  assert (Hcst : cst s' t = cpcv c') by (unfold s'; ceq Hcl).
  assert (Hcne : forall t', t' <> t -> cst s' t' = cst s t') by (unfold s'; cne).
  assert (Hvis : vis s' = vis s) by (apply (vis_same s s' t); auto; rewrite Hcst; congruence).
  eapply (Inv_trans s s' t (cpcv c') n (upd_slot (slot_at s n) (ver (slot_at s n)) (linked (slot_at s n)) SFree) I Hn);
    try reflexivity; auto.
  - intros _. rewrite Hg. discriminate.
  - unfold s', release. change (slot_at (set_client ?x t c') n) with (slot_at x n).
    change (slot_at (set_freel ?x ?l) n) with (slot_at x n). apply slot_at_put_eq. exact Hn.
  - intros m Hm. unfold s', release. change (slot_at (set_client ?x t c') m) with (slot_at x m).
    change (slot_at (set_freel ?x ?l) m) with (slot_at x m). apply slot_at_upd_other. auto.
  - unfold s', release. exact (nslots_put s n _).
  - rewrite Hh. exact A.
  - intros. rewrite Hh. tauto.
  - cbn. split; [|discriminate]. intro Hx. rewrite Hh in Hx. destruct (B n Hx). congruence.
  - cbn. split; [|discriminate]. intro Hx. contradiction.
  - intros. rewrite Hc. tauto.
  - cbn. split; [|discriminate]. intro Hx. rewrite Hc in Hx. destruct (D n Hx). congruence.
  - intro Hx. congruence.
  - unfold slot_ok. replace (slot_at s' n) with (upd_slot (slot_at s n) (ver (slot_at s n)) (linked (slot_at s n)) SFree).
    2:{ symmetry. unfold s', release. change (slot_at (set_client ?x t c') n) with (slot_at x n).
        change (slot_at (set_freel ?x ?l) n) with (slot_at x n). apply slot_at_put_eq. exact Hn. }
    cbn. repeat split; auto.
  - intros i j Hk. exfalso. pose proof (i_coro _ I i) as Ci. unfold coro_ok in Ci. rewrite Hk in Ci.
    destruct Ci as (_ & _ & _ & [Ci|[t0 [Ci|Ci]]]); congruence.
  - rewrite Hvis. apply (i_vis_nodup _ I).
  - intros m Hm. now rewrite <- Hvis.
  - intros m Hm Hm2. rewrite Hvis in Hm2. contradiction.
  - intro Hx. rewrite Hvis in Hx. exfalso. destruct (i_vis _ I n Hx) as [_ [V|[t0 V]]]; congruence.
  - change (freel s') with (n :: freel s). constructor; [|apply (i_free_nodup _ I)].
    intro Hx. destruct (i_free _ I n Hx). congruence.
  - change (freel s') with (n :: freel s). intros m [<-|Hm]; auto.
  - change (freel s') with (n :: freel s). intros m Hm. cbn. auto.
  - intros m Hm. unfold s', release. change (slot_at (set_client ?x t c') m) with (slot_at x m).
    change (slot_at (set_freel ?x ?l) m) with (slot_at x m). rewrite put_linked. apply (i_linked _ I). exact Hm.
Qed.

Lemma slot_at_slots : forall s s' n sl m, slots s' = set_nth n sl (slots s) ->
  slot_at s' m = slot_at (put_slot s n sl) m.
Proof. intros. unfold slot_at, put_slot. cbn. now rewrite H. Qed.

Lemma L_take : forall s s' t n g' lk p',
  Inv s -> (n < nslots s)%nat -> sst (slot_at s n) = SQueued -> (g' = SCan t \/ g' = SHeld t) ->
  slots s' = set_nth n (upd_slot (slot_at s n) (ver (slot_at s n) + 1) lk g') (slots s) ->
  coros s' = coros s -> nver s' = nver s -> tokens s' = tokens s -> bad s' = bad s -> rlog s' = rlog s ->
  freel s' = freel s ->
  (forall t', t' <> t -> cst s' t' = cst s t') -> cst s' t = p' ->
  NoDup (held_pc p') ->
  (forall m, m <> n -> (In m (held_pc p') <-> In m (held_pc (cst s t)))) -> (In n (held_pc p') <-> g' = SHeld t) ->
  (forall m, m <> n -> (In m (fin_pc p') <-> In m (fin_pc (cst s t)))) -> ~ In n (fin_pc p') ->
  (forall m, m <> n -> (In m (can_pc p') <-> In m (can_pc (cst s t)))) -> (In n (can_pc p') <-> g' = SCan t) ->
  (chain_pc p' <> [] -> mtx s' = Some t) ->
  (mtx s' = mtx s \/ (mtx s = None /\ mtx s' = Some t) \/ (mtx s = Some t /\ mtx s' = None)) ->
  NoDup (vis s') -> (forall m, In m (vis s') -> In m (vis s)) ->
  (forall m, In m (vis s) -> ~ In m (vis s') -> m = n \/ exists t', sst (slot_at s m) = SCan t') ->
  (In n (vis s') -> g' = SCan t) ->
  (forall m, In m (lst s') -> m <> n /\ In m (lst s) \/ (m = n /\ lk = true)) ->
  Inv s'.
Proof.
  intros s s' t n g' lk p' I Hn Hg Hg' Hsl Hco Hnv Htk Hbad Hlog Hfr Hcne Hct Hhnd Hh Hhn Hf Hfn Hc Hcn Hch Hm
         Hvnd Hvin Hvdrop Hvn Hlk.
  pose proof (i_slot _ I n Hn) as Sn. unfold slot_ok in Sn. rewrite Hg in Sn. destruct Sn as (S1 & S2 & S3 & S4 & S5).
  set (sl' := upd_slot (slot_at s n) (ver (slot_at s n) + 1) lk g').
  assert (Hsn : slot_at s' n = sl').
  { rewrite (slot_at_slots s s' n sl' n Hsl). apply slot_at_put_eq. exact Hn. }
  assert (Hso : forall m, m <> n -> slot_at s' m = slot_at s m).
  { intros m Hmn. rewrite (slot_at_slots s s' n sl' m Hsl). apply slot_at_put_ne. auto. }
  assert (Hk : forall i, kstat s' i = kstat s i) by (intro; apply kstat_frame; auto).
  assert (Hx : forall i, kex s' i = kex s i) by (intro; apply kex_frame; auto).
  eapply (Inv_trans s s' t p' n sl' I Hn); try reflexivity; auto.
  - unfold sl'; cbn. destruct Hg' as [->| ->]; auto.
  - cbn. lia.
  - cbn. lia.
  - intros m Hmn. rewrite Hso by auto. unfold same_core; auto 10.
  - unfold nslots. rewrite Hsl. apply length_set_nth.
  - unfold sl'; cbn. split; intro Hx'; [|destruct Hg' as [->| ->]; congruence]. contradiction.
  - unfold slot_ok. rewrite Hsn. unfold sl'; cbn. rewrite Hnv, Hx, Hk. split; auto. split; auto.
    destruct Hg' as [->| ->].
    + repeat split; auto; try lia. rewrite Hct. apply can_pc_in. apply Hcn. reflexivity.
    + repeat split; auto; try lia. rewrite Hct. apply Hhn. reflexivity.
  - intros i j _. unfold sl'; cbn. destruct Hg' as [->| ->]; split; discriminate.
  - intro Hx'. unfold sl'; cbn. exists t. symmetry. rewrite (Hvn Hx'). reflexivity.
  - rewrite Hfr. apply (i_free_nodup _ I).
  - intros m Hm'. rewrite Hfr in Hm'. auto.
  - intros m Hm'. rewrite Hfr. auto.
  - intros m Hm'. destruct (Hlk m Hm') as [[Hmn Hin]|[-> ->]].
    + rewrite Hso by auto. apply (i_linked _ I). exact Hin.
    + rewrite Hsn. reflexivity.
Qed.
Ltac simple_move s t p I Hp Hcl :=
  apply (Inv_move_simple s _ t p I); try reflexivity; try (rewrite Hp; reflexivity);
  first [ solve [cne] | solve [ceq Hcl] | (cbn; congruence) ].

Lemma w1_pop_inv : forall s t cl n r p,
  Inv s -> nth_error (clients s) t = Some cl -> cst s t = p -> held_pc p = [] -> fin_pc p = [] -> can_pc p = [] ->
  lst s = n :: r ->
  (mtx s = None /\ chain_pc p = []) \/ (mtx s = Some t /\ exists q, chain_pc p = [q] /\ exists t', sst (slot_at s q) = SCan t') ->
  Inv (set_client (set_mtx (set_nnext (unlink_mark (set_lst s r) n) n 0) (Some t)) t (goto cl (W1Take n))).
Proof.
  intros s t cl n r p I Hcl Hp Hh Hf Hc El Hm.
  set (s' := set_client _ t _).
  assert (Hv' : vis s' = r ++ [n]).
  { rewrite (vis_eq s' r (Some t)) by reflexivity. unfold s'. erewrite cst_set_eq by exact Hcl. reflexivity. }
  assert (Hv : exists c, vis s = (n :: r) ++ c /\ (c = [] \/ exists q t', c = [q] /\ sst (slot_at s q) = SCan t')).
  { destruct Hm as [[Em Ec]|[Em (q & Ec & t' & Eq)]].
    - exists []. split; auto. rewrite (vis_eq s (n :: r) None); auto.
    - exists [q]. split; eauto. rewrite (vis_eq s (n :: r) (Some t)); auto. rewrite Hp, Ec. reflexivity. }
  destruct Hv as (c & Hv & Hc').
  pose proof (i_vis_nodup _ I) as Hnd. rewrite Hv in Hnd.
  apply (Inv_move s s' t (W1Take n) I); try reflexivity; try (rewrite Hp; cbn; congruence).
  - intro m. exact (unlink_mark_core (set_lst s r) n m).
  - exact (nslots_put (set_lst s r) n _).
  - unfold s'; cne.
  - unfold s'; ceq Hcl.
  - destruct Hm as [[Em _]|[Em _]]; [right; left; split; auto | left; cbn; congruence].
  - rewrite Hv'. apply NoDup_rot. apply NoDup_app_l in Hnd. exact Hnd.
  - intros m Hm'. rewrite Hv' in Hm'. rewrite Hv. apply in_app_iff in Hm'. apply in_app_iff. left. cbn in *. intuition.
  - intros m Hm1 Hm2. rewrite Hv in Hm1. rewrite Hv' in Hm2. apply in_app_iff in Hm1. destruct Hm1 as [Hm1|Hm1].
    + exfalso. apply Hm2. apply in_app_iff. cbn in *. intuition.
    + destruct Hc' as [->|(q & t' & -> & Hq)]; [destruct Hm1|]. destruct Hm1 as [<-|[]]. eauto.
  - intros m Hm'. change (lst s') with r in Hm'.
    assert (m <> n). { intro; subst m. apply NoDup_app_l in Hnd. inversion Hnd; auto. }
    change (slot_at s' m) with (slot_at (unlink_mark (set_lst s r) n) m). rewrite unlink_mark_linked by auto.
    change (slot_at (set_lst s r) m) with (slot_at s m). apply (i_linked _ I). rewrite El. cbn. auto.
Qed.
Lemma set_nth_set_nth : forall A (l : list A) n x y, set_nth n x (set_nth n y l) = set_nth n x l.
Proof. induction l as [|z l IH]; intros [|n] x y; cbn; auto. f_equal. apply IH. Qed.

Lemma chain_next_same : forall l s,
  slots (chain_next s l) = slots s /\ coros (chain_next s l) = coros s /\ clients (chain_next s l) = clients s /\
  lst (chain_next s l) = lst s /\ mtx (chain_next s l) = mtx s /\ freel (chain_next s l) = freel s /\
  nver (chain_next s l) = nver s /\ tokens (chain_next s l) = tokens s /\ bad (chain_next s l) = bad s /\
  rlog (chain_next s l) = rlog s.
Proof.
  induction l as [|a l IH]; intro s; cbn [chain_next]; [repeat split; reflexivity|].
  destruct (IH (set_nnext s a (enc (hd_error l)))) as (A1 & A2 & A3 & A4 & A5 & A6 & A7 & A8 & A9 & A10).
  rewrite A1, A2, A3, A4, A5, A6, A7, A8, A9, A10. repeat split; reflexivity.
Qed.

Lemma find_token_in : forall l i j id, find_token l i j = Some id -> In ((i, j), id) l.
Proof.
  induction l as [|[[a b] id'] l IH]; intros i j id H; cbn in H; [discriminate|].
  destruct (Nat.eqb a i && Nat.eqb b j)%bool eqn:E.
  - apply andb_prop in E. destruct E as [E1 E2]. apply Nat.eqb_eq in E1, E2. subst. inversion H; subst. cbn; auto.
  - cbn. right. eauto.
Qed.

Lemma take_ok_spec : forall s n v, take_ok s n v = true <-> (n < nslots s)%nat /\ ver (slot_at s n) = v.
Proof.
  intros. unfold take_ok, nslots. rewrite andb_true_iff, Nat.ltb_lt, Z.eqb_eq. tauto.
Qed.

(* one iteration of the detach loop of wake_all *)
Lemma watake_inv : forall s t cl n r taken p' s',
  Inv s -> nth_error (clients s) t = Some cl -> cst s t = WATake (n :: r) taken ->
  let s0 := unlink_mark s n in
  let ok := take_ok s0 n (nidv (slot_at s0 n)) in
  let s1 := if ok then take s0 n (SHeld t) else s0 in
  let taken' := if ok then taken ++ [n] else taken in
  held_pc p' = taken' -> chain_pc p' = r -> fin_pc p' = [] -> can_pc p' = [] ->
  slots s' = slots s1 -> coros s' = coros s -> nver s' = nver s -> tokens s' = tokens s -> bad s' = bad s ->
  rlog s' = rlog s -> freel s' = freel s -> lst s' = lst s ->
  mtx s' = match r with [] => None | _ => Some t end ->
  (forall t', t' <> t -> cst s' t' = cst s t') -> cst s' t = p' ->
  Inv s'.
Proof.
  intros s t cl n r taken p' s' I Hcl Hp s0 ok s1 taken' Hh Hch Hf Hc Hsl Hco Hnv Htk Hbad Hlog Hfr Hlst Hmtx Hcne Hct.
  destruct (i_thread _ I t) as (A & B & _ & _ & E). rewrite Hp in A, B, E. cbn [held_pc chain_pc] in A, B, E.
  assert (Em : mtx s = Some t) by (apply E; discriminate).
  assert (Hv : vis s = lst s ++ n :: r) by (rewrite (vis_eq s (lst s) (Some t)); auto; now rewrite Hp).
  assert (Hv' : vis s' = lst s ++ r).
  { rewrite (vis_eq s' (lst s) (mtx s')); auto. rewrite Hmtx. destruct r; [now rewrite app_nil_r|]. rewrite Hct, Hch. reflexivity. }
  pose proof (i_vis_nodup _ I) as Hnd. rewrite Hv in Hnd.
  assert (Hnin : In n (vis s)) by (rewrite Hv; apply in_app_iff; cbn; auto).
  destruct (i_vis _ I n Hnin) as [Hn Hst].
  assert (Hnd' : NoDup (lst s ++ r)) by (apply NoDup_remove_1 in Hnd; exact Hnd).
  assert (Hnn : ~ In n (lst s ++ r)) by (apply NoDup_remove_2 in Hnd; exact Hnd).
  assert (Hcore : forall m, same_core (slot_at s0 m) (slot_at s m)) by (intro; apply unlink_mark_core).
  assert (Hs0n : slot_at s0 n = upd_slot (slot_at s n) (ver (slot_at s n)) false (sst (slot_at s n))).
  { unfold s0, unlink_mark. apply slot_at_put_eq. exact Hn. }
  assert (Hvin : forall m, In m (vis s') -> In m (vis s)).
  { intros m Hm. rewrite Hv' in Hm. rewrite Hv. apply in_app_iff in Hm. apply in_app_iff. cbn. tauto. }
  assert (Hmt : mtx s' = mtx s \/ mtx s = None /\ mtx s' = Some t \/ mtx s = Some t /\ mtx s' = None).
  { rewrite Hmtx, Em. destruct r; auto. }
  assert (Hcm : chain_pc p' <> [] -> mtx s' = Some t).
  { rewrite Hch, Hmtx. destruct r; auto. intro H; contradiction. }
  assert (Hlk : forall m, In m (lst s') -> m <> n /\ In m (lst s)).
  { intros m Hm. rewrite Hlst in Hm. split; auto. intro; subst m. apply Hnn. apply in_app_iff. auto. }
  destruct ok eqn:Eok; unfold ok in Eok.
  - (* taken *)
    apply take_ok_spec in Eok. destruct Eok as [_ Ever]. rewrite Hs0n in Ever. cbn in Ever.
    assert (Hq : sst (slot_at s n) = SQueued).
    { destruct Hst as [|[t' Hst]]; auto. exfalso. pose proof (i_slot _ I n Hn) as Sn. unfold slot_ok in Sn. rewrite Hst in Sn.
      destruct Sn as (_ & _ & _ & _ & Sv). lia. }
    apply (L_take s s' t n (SHeld t) false p' I Hn Hq); auto.
    + assert (Hs0 : slots s0 = set_nth n (upd_slot (slot_at s n) (ver (slot_at s n)) false (sst (slot_at s n))) (slots s))
        by reflexivity.
      rewrite Hsl.
      change (slots s1) with (set_nth n (upd_slot (slot_at s0 n) (ver (slot_at s0 n) + 1) (linked (slot_at s0 n)) (SHeld t)) (slots s0)).
      rewrite Hs0n, Hs0, set_nth_set_nth. reflexivity.
    + rewrite Hh. unfold taken'. apply NoDup_app_single; auto. intro Hx. destruct (B n Hx). congruence.
    + intros m Hm. rewrite Hh, Hp. unfold taken'. cbn [held_pc]. rewrite in_app_iff. cbn. intuition congruence.
    + rewrite Hh. unfold taken'. rewrite in_app_iff. cbn. intuition.
    + intros m Hm. rewrite Hf, Hp. cbn. tauto.
    + rewrite Hf. auto.
    + intros m Hm. rewrite Hc, Hp. cbn. tauto.
    + rewrite Hc. cbn. split; [intros []|discriminate].
    + rewrite Hv'. exact Hnd'.
    + intros m Hm Hm'. rewrite Hv in Hm. rewrite Hv' in Hm'. left. apply in_app_iff in Hm. destruct Hm as [Hm|[Hm|Hm]]; auto;
        exfalso; apply Hm'; apply in_app_iff; auto.
    + intro Hx. rewrite Hv' in Hx. contradiction.
  - (* not taken: owned by a canceller *)
    assert (Hcan : exists t', sst (slot_at s n) = SCan t').
    { destruct Hst as [Hq|]; auto. exfalso. pose proof (i_slot _ I n Hn) as Sn. unfold slot_ok in Sn. rewrite Hq in Sn.
      destruct Sn as (_ & _ & _ & Sv & _). assert (take_ok s0 n (nidv (slot_at s0 n)) = true); [|congruence].
      apply take_ok_spec. split; [unfold s0, unlink_mark; rewrite nslots_put; exact Hn|]. rewrite Hs0n. cbn. exact Sv. }
    apply (Inv_move s s' t p' I); auto.
    + intro m. unfold slot_at. rewrite Hsl. exact (Hcore m).
    + unfold nslots. rewrite Hsl. unfold s1, s0, unlink_mark. exact (nslots_put s n _).
    + rewrite Hh, Hp. reflexivity.
    + rewrite Hf, Hp. reflexivity.
    + rewrite Hc, Hp. reflexivity.
    + rewrite Hv'. exact Hnd'.
    + intros m Hm Hm'. rewrite Hv in Hm. rewrite Hv' in Hm'. apply in_app_iff in Hm. destruct Hm as [Hm|[Hm|Hm]].
      * exfalso; apply Hm'; apply in_app_iff; auto.
      * subst m. exact Hcan.
      * exfalso; apply Hm'; apply in_app_iff; auto.
    + intros m Hm. destruct (Hlk m Hm) as [Hmn Hin]. unfold slot_at. rewrite Hsl.
      change (linked (slot_at (unlink_mark s n) m) = true). rewrite unlink_mark_linked by auto. apply (i_linked _ I). exact Hin.
Qed.
Lemma L_cklock : forall s t cl n s1,
  Inv s -> nth_error (clients s) t = Some cl -> cst s t = CKLock n -> mtx s = None ->
  slots s1 = slots s -> clients s1 = clients s -> coros s1 = coros s -> freel s1 = freel s -> nver s1 = nver s ->
  tokens s1 = tokens s -> bad s1 = bad s -> rlog s1 = rlog s -> mtx s1 = mtx s ->
  lst s1 = (if linked (slot_at s n) then remove_nat n (lst s) else lst s) ->
  Inv (set_client (mark s1 n (SHeld t)) t (goto cl (CKResume n))).
Proof.
  intros s t cl n s1 I Hcl Hp Em Hs1 Q1 Q2 Q3 Q4 Q5 Q6 Q7 Q8 Q9.
  destruct (i_thread _ I t) as (_ & _ & _ & TD & _). rewrite Hp in TD. destruct (TD n) as [Hn Hg]; [cbn; auto|].
  pose proof (i_slot _ I n Hn) as Sn. unfold slot_ok in Sn. rewrite Hg in Sn. destruct Sn as (S1 & S2 & S3 & S4 & S5).
  set (L' := if linked (slot_at s n) then remove_nat n (lst s) else lst s).
  set (s' := set_client _ t _).
  assert (Hl' : lst s' = L') by exact Q9.
  assert (Hs1n : slot_at s1 n = slot_at s n) by (apply slot_at_frame; auto).
  assert (Hrest : coros s' = coros s /\ nver s' = nver s /\ tokens s' = tokens s /\ bad s' = bad s /\ rlog s' = rlog s /\
                  freel s' = freel s /\ mtx s' = mtx s).
  { repeat split; [exact Q2 | exact Q4 | exact Q5 | exact Q6 | exact Q7 | exact Q3 | exact Q8]. }
  destruct Hrest as (R1 & R2 & R3 & R4 & R5 & R6 & R7).
  assert (Hv : vis s = lst s) by (rewrite (vis_eq s (lst s) None); auto; apply app_nil_r).
  assert (Hv' : vis s' = L') by (rewrite (vis_eq s' L' None); auto; [apply app_nil_r | congruence]).
  pose proof (i_vis_nodup _ I) as Hnd. rewrite Hv in Hnd.
  assert (HnL : ~ In n L').
  { unfold L'. destruct (linked (slot_at s n)) eqn:El; [apply remove_nat_not_in|]. intro Hx. pose proof (i_linked _ I n Hx). congruence. }
  assert (HLin : forall m, In m L' -> In m (lst s)).
  { unfold L'. destruct (linked (slot_at s n)); auto. intros m. apply remove_nat_in. }
  assert (HLkeep : forall m, In m (lst s) -> m <> n -> In m L').
  { unfold L'. destruct (linked (slot_at s n)); auto. intros m. apply remove_nat_keep. }
  assert (HLnd : NoDup L').
  { unfold L'. destruct (linked (slot_at s n)); auto. apply remove_nat_nodup. auto. }
  assert (Hc1 : cst s' t = CKResume n).
  { unfold s'. erewrite cst_set_eq; [reflexivity|]. transitivity (nth_error (clients s) t); [f_equal; exact Q1 | exact Hcl]. }
  assert (Hc2 : forall t', t' <> t -> cst s' t' = cst s t').
  { intros t' Ht'. unfold s'. etransitivity; [apply cst_set_ne; auto|]. apply cst_frame. exact Q1. }
  assert (Hsn : slot_at s' n = upd_slot (slot_at s n) (ver (slot_at s n)) (linked (slot_at s n)) (SHeld t)).
  { unfold s', mark. change (slot_at (set_client ?x t ?c) n) with (slot_at x n). rewrite Hs1n.
    apply slot_at_put_eq. unfold nslots. rewrite Hs1. exact Hn. }
  assert (Hso : forall m, m <> n -> slot_at s' m = slot_at s m).
  { intros m Hm. unfold s', mark. change (slot_at (set_client ?x t ?c) m) with (slot_at x m). rewrite slot_at_put_ne by auto.
    apply slot_at_frame. exact Hs1. }
  eapply (Inv_trans s s' t (CKResume n) n (upd_slot (slot_at s n) (ver (slot_at s n)) (linked (slot_at s n)) (SHeld t)) I Hn); try reflexivity; eauto.
  - cbn. rewrite Hg. intros _. discriminate.
  - intros m Hm. rewrite Hso by auto. unfold same_core; auto 10.
  - unfold s', mark. etransitivity; [exact (nslots_put s1 n _)|]. unfold nslots. now rewrite Hs1.
  - repeat constructor. intros [].
  - intros m Hm. rewrite Hp. cbn. intuition congruence.
  - cbn. intuition.
  - intros m Hm. rewrite Hp. cbn. tauto.
  - cbn. split; [intros []|discriminate].
  - intros m Hm. rewrite Hp. cbn. intuition congruence.
  - cbn. split; [intros []|discriminate].
  - cbn. intro H; contradiction.
  - unfold slot_ok. rewrite Hsn. cbn [ver nidv nco nwi nex sst upd_slot]. rewrite R2, Hc1.
    rewrite (kex_frame s s') by exact R1. rewrite (kstat_frame s s') by exact R1.
    repeat split; auto. cbn; auto.
  - intros i j _. cbn. split; discriminate.
  - rewrite Hv'. exact HLnd.
  - intros m Hm. rewrite Hv' in Hm. rewrite Hv. auto.
  - intros m Hm Hm'. rewrite Hv in Hm. rewrite Hv' in Hm'. left. destruct (Nat.eq_dec m n); auto. exfalso. auto.
  - intro Hx. rewrite Hv' in Hx. contradiction.
  - rewrite R6. apply (i_free_nodup _ I).
  - intros m Hm. rewrite R6 in Hm. auto.
  - intros m Hm. rewrite R6. auto.
  - intros m Hm. rewrite Hl' in Hm. assert (m <> n) by (intro; subst; contradiction). rewrite Hso by auto.
    apply (i_linked _ I). auto.
Qed.

(* ------------------------------------------------------------------ link fields: the list is what the pointers say *)
Definition succs (l : list nat) : list (option nat) :=
  match l with [] => [] | _ :: r => map Some r ++ [None] end.

(* node->next of every member of the list is its successor (nullptr for the last); a node a canceller took and that
   still has prev set is still in the list; the node wake_one detached has prev cleared *)
Record WF (s : st) : Prop := {
  w_len : length (nxt s) = nslots s;
  w_next : map (nnext s) (lst s) = map enc (succs (lst s));
  w_lk : forall n t, (n < nslots s)%nat -> sst (slot_at s n) = SCan t -> linked (slot_at s n) = true -> In n (vis s);
  w_w1 : forall t n, mtx s = Some t -> cst s t = W1Take n -> linked (slot_at s n) = false
}.

Lemma succs_cons2 : forall a b r, succs (a :: b :: r) = Some b :: succs (b :: r).
Proof. reflexivity. Qed.
Lemma next_in : forall (f : nat -> Z) l n, map f l = map enc (succs l) -> In n l -> f n <> 0 ->
  exists m, dec (f n) = Some m /\ In m l.
Proof.
  induction l as [|a r IH]; intros n H Hin Hnz; [destruct Hin|].
  destruct r as [|b r'].
  - cbn in H. inversion H. destruct Hin as [<-|[]]. congruence.
  - rewrite succs_cons2 in H. cbn [map] in H. inversion H as [[H1 H2]]. destruct Hin as [<-|Hin].
    + exists b. split; [rewrite H1; exact (dec_enc (Some b)) | cbn; auto].
    + destruct (IH n H2 Hin Hnz) as (m & Hm & Hi). exists m. split; auto. cbn. auto.
Qed.
Lemma upd_slot_same : forall sl lk, linked sl = lk -> upd_slot sl (ver sl) lk (sst sl) = sl.
Proof. intros [a b c d e f g] lk H. cbn in *. subst. reflexivity. Qed.
Lemma set_nth_same : forall A (l : list A) n d, (n < length l)%nat -> set_nth n (nth n l d) l = l.
Proof. induction l as [|y l IH]; intros [|n] d H; cbn in *; try lia; auto. f_equal. apply IH. lia. Qed.
Lemma memb_in : forall m l, In m l -> memb m l = true.
Proof. intros. unfold memb. apply existsb_exists. exists m. split; auto. apply Nat.eqb_refl. Qed.
Lemma fix_pred_fields : forall s l n nx,
  slots (fix_pred s l n nx) = slots s /\ clients (fix_pred s l n nx) = clients s /\ coros (fix_pred s l n nx) = coros s /\
  freel (fix_pred s l n nx) = freel s /\ nver (fix_pred s l n nx) = nver s /\ tokens (fix_pred s l n nx) = tokens s /\
  bad (fix_pred s l n nx) = bad s /\ rlog (fix_pred s l n nx) = rlog s /\ mtx (fix_pred s l n nx) = mtx s /\
  lst (fix_pred s l n nx) = lst s.
Proof. intros. unfold fix_pred. destruct (pred_of l n); repeat split; reflexivity. Qed.

Lemma enc_some_nz : forall m, (enc (Some m) =? 0) = false.
Proof. intro. unfold enc. apply Z.eqb_neq. lia. Qed.

Lemma step_client_inv : forall s t cl s',
  Inv s -> WF s -> nth_error (clients s) t = Some cl -> step_client cfg_fixed s t cl = Some s' -> Inv s'.
Proof.
  intros s t cl s' I W Hcl Hst.
  pose proof (cst_of _ _ _ Hcl) as Hp.
  destruct (i_thread _ I t) as (TA & TB & TC & TD & TE).
  unfold step_client in Hst. destruct (cpcv cl) eqn:Epc; rewrite Hp in TA, TB, TC, TD, TE; cbn [held_pc fin_pc can_pc chain_pc] in *.
  - (* CIdle *)
    destruct (nth_error (cprog cl) (copi cl)) as [o|]; [|discriminate]. destruct o.
    + (* OWake1 *)
      destruct (mtx s) eqn:Em; [discriminate|]. inversion Hst; subst s'; clear Hst.
      unfold w1_pop. destruct (lst s) as [|n r] eqn:El.
      * simple_move s t CIdle I Hp Hcl.
      * cbn [negb]. eapply w1_pop_inv; eauto.
    + (* OWakeAll *)
      destruct (mtx s) eqn:Em; [discriminate|]. destruct (lst s) as [|n r] eqn:El; inversion Hst; subst s'; clear Hst.
      * simple_move s t CIdle I Hp Hcl.
      * set (s' := set_client _ t _).
        assert (Hv : vis s = n :: r) by (rewrite (vis_eq s (n :: r) None); auto; apply app_nil_r).
        assert (Hv' : vis s' = n :: r).
        { rewrite (vis_eq s' [] (Some t)) by reflexivity. unfold s'. erewrite cst_set_eq by exact Hcl. reflexivity. }
        apply (Inv_move s s' t (WATake (n :: r) []) I); try reflexivity; try (rewrite Hp; reflexivity).
        -- sc.
        -- unfold s'; cne.
        -- unfold s'; ceq Hcl.
        -- right; left; auto.
        -- rewrite Hv', <- Hv. apply (i_vis_nodup _ I).
        -- intros m Hm. congruence.
        -- intros m Hm Hm'. exfalso. apply Hm'. congruence.
        -- intros m [].
    + (* OCancel *)
      destruct (find_token (tokens s) i j) as [[n v]|] eqn:Ef.
      * destruct (take_ok s n v) eqn:Et; inversion Hst; subst s'; clear Hst.
        -- apply take_ok_spec in Et. destruct Et as [Hn Hv].
           apply find_token_in in Ef. pose proof (i_tok _ I _ Ef) as Tk. unfold tok_ok in Tk. cbn in Tk.
           destruct Tk as (_ & _ & Tq). specialize (Tq (eq_sym Hv)).
           set (s' := set_client _ t _).
           assert (Hc1 : cst s' t = CKLock n) by (unfold s'; ceq Hcl).
           assert (Hc2 : forall t', t' <> t -> cst s' t' = cst s t') by (unfold s'; cne).
           assert (Hvis : vis s' = vis s) by (apply (vis_same s s' t); auto; rewrite Hc1, Hp; reflexivity).
           apply (L_take s s' t n (SCan t) (linked (slot_at s n)) (CKLock n) I Hn Tq); auto; try reflexivity.
           ++ intros m Hm. rewrite Hp. cbn. tauto.
           ++ cbn. split; [intros []|discriminate].
           ++ intros m Hm. rewrite Hp. cbn. tauto.
           ++ intros m Hm. rewrite Hp. cbn. intuition congruence.
           ++ cbn. intuition.
           ++ rewrite Hvis. apply (i_vis_nodup _ I).
           ++ intros m Hm. congruence.
           ++ intros m Hm Hm'. exfalso. apply Hm'. congruence.
           ++ intros m Hm. change (lst s') with (lst s) in Hm. destruct (Nat.eq_dec m n) as [->|Hmn]; auto.
              right. split; auto. apply (i_linked _ I). exact Hm.
        -- simple_move s t CIdle I Hp Hcl.
      * inversion Hst; subst s'; clear Hst. simple_move s t CIdle I Hp Hcl.
    + inversion Hst; subst s'; clear Hst. simple_move s t CIdle I Hp Hcl.
    + destruct (n <=? length (tokens s))%nat; inversion Hst; subst s'; clear Hst. simple_move s t CIdle I Hp Hcl.
  - (* W1Take n *)
    assert (Em : mtx s = Some t) by (apply TE; discriminate).
    assert (Hv : vis s = lst s ++ [n]) by (rewrite (vis_eq s (lst s) (Some t)); auto; now rewrite Hp).
    pose proof (i_vis_nodup _ I) as Hnd. rewrite Hv in Hnd.
    assert (Hnin : In n (vis s)) by (rewrite Hv; apply in_app_iff; cbn; auto).
    destruct (i_vis _ I n Hnin) as [Hn Hstn].
    pose proof (i_slot _ I n Hn) as Sn. unfold slot_ok in Sn.
    destruct (take_ok s n (nidv (slot_at s n))) eqn:Et; cbn [cfg_fixed w1_stop_ok w1_stop_fail w1_adv] in Hst.
    + inversion Hst; subst s'; clear Hst.
      apply take_ok_spec in Et. destruct Et as [_ Ever].
      assert (Hq : sst (slot_at s n) = SQueued).
      { destruct Hstn as [|[t' Hx]]; auto. rewrite Hx in Sn. destruct Sn as (_ & _ & _ & _ & Sv). lia. }
      set (s' := set_client _ t _).
      assert (Hv' : vis s' = lst s ++ []) by (rewrite (vis_eq s' (lst s) None); reflexivity).
      assert (Hc1 : cst s' t = W1Resume n) by (unfold s'; ceq Hcl).
      assert (Hc2 : forall t', t' <> t -> cst s' t' = cst s t') by (unfold s'; cne).
      apply (L_take s s' t n (SHeld t) (linked (slot_at s n)) (W1Resume n) I Hn Hq); auto; try reflexivity.
      * repeat constructor. intros [].
      * intros m Hm. rewrite Hp. cbn. intuition congruence.
      * cbn. intuition.
      * intros m Hm. rewrite Hp. cbn. tauto.
      * intros m Hm. rewrite Hp. cbn. tauto.
      * cbn. split; [intros []|discriminate].
      * cbn. intro H; contradiction.
      * rewrite Hv', app_nil_r. eapply NoDup_app_l; eauto.
      * intros m Hm. rewrite Hv' in Hm. rewrite app_nil_r in Hm. rewrite Hv. apply in_app_iff. auto.
      * intros m Hm Hm'. rewrite Hv in Hm. rewrite Hv', app_nil_r in Hm'. apply in_app_iff in Hm. destruct Hm as [Hm|[Hm|[]]]; auto.
        contradiction.
      * intro Hx. rewrite Hv', app_nil_r in Hx. exfalso. eapply NoDup_app_disj; eauto. cbn; auto.
      * intros m Hm. change (lst s') with (lst s) in Hm. left. split; auto. intro; subst m.
        eapply NoDup_app_disj; eauto. cbn; auto.
    + assert (Hcan : exists t', sst (slot_at s n) = SCan t').
      { destruct Hstn as [Hq|]; auto. exfalso. rewrite Hq in Sn. destruct Sn as (_ & _ & _ & Sv & _).
        assert (take_ok s n (nidv (slot_at s n)) = true); [|congruence]. apply take_ok_spec. auto. }
      unfold w1_pop in Hst. destruct (lst s) as [|m r] eqn:El.
      * assert (s' = set_client (set_mtx s None) t (finish_op cl (RW1 0))).
        { destruct (negb (enc (hd_error []) =? 0)); inversion Hst; reflexivity. }
        subst s'. clear Hst. set (s' := set_client _ t _).
        assert (Hv' : vis s' = []) by (rewrite (vis_eq s' (lst s) None); try reflexivity; rewrite El; reflexivity).
        apply (Inv_move s s' t CIdle I); try reflexivity; try (rewrite Hp; reflexivity).
        -- sc.
        -- unfold s'; cne.
        -- unfold s'; ceq Hcl.
        -- cbn. intro H; contradiction.
        -- right; right; auto.
        -- rewrite Hv'. constructor.
        -- intros q Hq. rewrite Hv' in Hq. destruct Hq.
        -- intros q Hq _. rewrite Hv in Hq. cbn in Hq. destruct Hq as [<-|[]]. exact Hcan.
        -- intros q Hq. change (lst s') with (lst s) in Hq. rewrite El in Hq. destruct Hq.
      * cbn [hd_error] in Hst. rewrite enc_some_nz in Hst. cbn [negb] in Hst. inversion Hst; subst s'; clear Hst.
        eapply (w1_pop_inv s t cl m r (W1Take n)); eauto.
        right. split; auto. exists n. split; auto.
  - (* W1Resume n *)
    inversion Hst; subst s'; clear Hst.
    apply (L_resume s t cl n (goto cl (W1Finish n)) I Hcl); rewrite ?Hp; cbn; auto; try tauto.
    + constructor.
    + intros m Hm. intuition congruence.
    + intros m Hm. intuition congruence.
  - (* W1Finish n *)
    inversion Hst; subst s'; clear Hst.
    apply (L_release s t cl n (finish_op cl (RW1 1)) I Hcl); rewrite ?Hp; cbn; auto; try tauto.
    intros m Hm. intuition congruence.
  - (* WATake *)
    destruct pend as [|n r]; [discriminate|].
    destruct r as [|n' r'].
    + (* last node: unlock *)
      set (s0 := unlink_mark s n) in *. set (ok := take_ok s0 n (nidv (slot_at s0 n))) in *.
      set (s1 := if ok then take s0 n (SHeld t) else s0) in *. set (taken' := if ok then taken ++ [n] else taken) in *.
      destruct (chain_next_same taken' s1) as (C1 & C2 & C3 & C4 & C5 & C6 & C7 & C8 & C9 & C10).
      assert (Hs1 : coros s1 = coros s /\ nver s1 = nver s /\ tokens s1 = tokens s /\ bad s1 = bad s /\ rlog s1 = rlog s /\
                    freel s1 = freel s /\ lst s1 = lst s /\ clients s1 = clients s).
      { unfold s1. destruct ok; repeat split; reflexivity. }
      destruct Hs1 as (D2 & D7 & D8 & D9 & D10 & D6 & D4 & D3).
      destruct taken' as [|a todo] eqn:Etk; inversion Hst; subst s'; clear Hst.
      * apply (watake_inv s t cl n [] taken CIdle _ I Hcl Hp); fold s0; fold ok; fold s1; try reflexivity;
          [ symmetry; exact Etk | exact D2 | exact D7 | exact D8 | exact D9 | exact D10 | exact D6 | exact D4 | | ].
        -- intros t' Ht'. etransitivity; [apply cst_set_ne; auto|]. apply cst_frame. exact D3.
        -- erewrite cst_set_eq; [reflexivity|]. cbn. rewrite D3. exact Hcl.
      * apply (watake_inv s t cl n [] taken (WAResume a todo 0) _ I Hcl Hp); fold s0; fold ok; fold s1; try reflexivity;
          [ symmetry; exact Etk | exact C1 | exact (eq_trans C2 D2) | exact (eq_trans C7 D7) | exact (eq_trans C8 D8)
          | exact (eq_trans C9 D9) | exact (eq_trans C10 D10) | exact (eq_trans C6 D6) | exact (eq_trans C4 D4) | | ].
        -- intros t' Ht'. etransitivity; [apply cst_set_ne; auto|]. apply cst_frame. exact (eq_trans C3 D3).
        -- erewrite cst_set_eq; [reflexivity|]. transitivity (nth_error (clients s) t); [f_equal; exact (eq_trans C3 D3) | exact Hcl].
    + inversion Hst; subst s'; clear Hst.
      set (s0 := unlink_mark s n). set (ok := take_ok s0 n (nidv (slot_at s0 n))).
      apply (watake_inv s t cl n (n' :: r') taken (WATake (n' :: r') (if ok then taken ++ [n] else taken)) _ I Hcl Hp);
        fold s0; fold ok; try reflexivity; try (destruct ok; reflexivity).
      -- assert (Em : mtx s = Some t) by (apply TE; discriminate). destruct ok; exact Em.
      -- intros t' Ht'. etransitivity; [apply cst_set_ne; auto|]. apply cst_frame. destruct ok; reflexivity.
      -- erewrite cst_set_eq; [reflexivity|]. destruct ok; exact Hcl.
  - (* WAResume *)
    inversion Hst; subst s'; clear Hst. inversion TA; subst.
    apply (L_resume s t cl cur (goto cl (WAFinish cur todo cnt)) I Hcl); rewrite ?Hp; cbn; auto; try tauto.
    + intros m Hm. intuition congruence.
    + intros m Hm. intuition congruence.
  - (* WAFinish *)
    inversion Hst; subst s'; clear Hst.
    apply (L_release s t cl cur (goto cl (WANext cur todo cnt)) I Hcl); rewrite ?Hp; cbn; auto; try tauto.
    intros m Hm. intuition congruence.
  - (* WANext *)
    cbn [cfg_fixed wa_adv wa_saved] in Hst. rewrite dec_enc in Hst.
    destruct todo as [|a r]; cbn [hd_error tl] in Hst; inversion Hst; subst s'; clear Hst.
    + simple_move s t CIdle I Hp Hcl.
    + simple_move s t (WAResume a r (cnt + 1)) I Hp Hcl.
  - (* CKLock *)
    destruct (mtx s) eqn:Em; [discriminate|].
    cbn [cfg_fixed unlink_linked unlink_unlinked fix2_nested fix2_nonnull fix2_null] in Hst.
    assert (Hv : vis s = lst s) by (rewrite (vis_eq s (lst s) None); auto; apply app_nil_r).
    destruct (TD n) as [Hn Hg]; [cbn; auto|].
    destruct (linked (slot_at s n)) eqn:El.
    + (* still linked: both fix-ups; the successor is a member of the list *)
      assert (Hin : In n (lst s)) by (rewrite <- Hv; eapply (w_lk _ W); eauto).
      destruct (fix_pred_fields (set_lst s (remove_nat n (lst s))) (lst s) n (nnext s n))
        as (F1 & F2 & F3 & F4 & F5 & F6 & F7 & F8 & F9 & F10).
      destruct (nnext s n =? 0) eqn:Enx; cbn [andb] in Hst.
      * inversion Hst; subst s'; clear Hst. apply (L_cklock s t cl n _ I Hcl Hp Em); auto. rewrite El. exact F10.
      * apply Z.eqb_neq in Enx. destruct (next_in (nnext s) (lst s) n (w_next _ W) Hin Enx) as (m & Hm & Hmin).
        rewrite Hm in Hst. rewrite (memb_in _ _ Hmin) in Hst. inversion Hst; subst s'; clear Hst.
        assert (Hml : (m < nslots s)%nat) by (apply (i_vis _ I); rewrite Hv; exact Hmin).
        assert (Hs2 : slots (fix_next (fix_pred (set_lst s (remove_nat n (lst s))) (lst s) n (nnext s n)) m true true) = slots s).
        { unfold fix_next, put_slot. cbn [slots set_slots]. rewrite F1. unfold slot_at. rewrite F1.
          rewrite upd_slot_same by (apply (i_linked _ I); exact Hmin). apply set_nth_same. exact Hml. }
        apply (L_cklock s t cl n _ I Hcl Hp Em); auto. rewrite El. exact F10.
    + (* already unlinked by a waker: nothing is touched *)
      cbn [andb] in Hst. inversion Hst; subst s'; clear Hst. apply (L_cklock s t cl n s I Hcl Hp Em); auto. rewrite El. reflexivity.
  - (* CKResume *)
    inversion Hst; subst s'; clear Hst.
    apply (L_resume s t cl n (goto cl (CKFinish n)) I Hcl); rewrite ?Hp; cbn; auto; try tauto.
    + constructor.
    + intros m Hm. intuition congruence.
    + intros m Hm. intuition congruence.
  - (* CKFinish *)
    inversion Hst; subst s'; clear Hst.
    apply (L_release s t cl n (finish_op cl (RK (Some true))) I Hcl); rewrite ?Hp; cbn; auto; try tauto.
    intros m Hm. intuition congruence.
Qed.
Ltac kxe H := intro; etransitivity; [eapply kex_set; exact H | reflexivity].
Ltac kne := intros; etransitivity; [apply kstat_set_ne; auto | reflexivity].

Lemma vis_frame : forall s s', lst s' = lst s -> mtx s' = mtx s -> clients s' = clients s -> vis s' = vis s.
Proof. intros s s' Hl Hm Hc. unfold vis. rewrite Hl, Hm. destruct (mtx s); auto. f_equal. f_equal. apply cst_frame. auto. Qed.

Lemma vis_not_state : forall s n, Inv s -> (n < nslots s)%nat ->
  (sst (slot_at s n) = SFree \/ sst (slot_at s n) = SEmp) -> ~ In n (vis s).
Proof. intros s n I Hn Hs Hin. destruct (i_vis _ I n Hin) as [_ [V|[t V]]]; destruct Hs; congruence. Qed.

Lemma finish_add_fixed_ok : forall s i k j n x tok, (x =? fv s) = true ->
  finish_add cfg_fixed s i k j n x tok true =
  set_coro (if tok then set_tokens (set_nnext (put_slot (set_lst s (n :: lst s)) n
                                      (upd_slot (slot_at s n) (ver (slot_at s n)) true SQueued)) n (enc (hd_error (lst s))))
                      (tokens s ++ [((i, j), (n, nidv (slot_at s n)))])
            else set_nnext (put_slot (set_lst s (n :: lst s)) n
                                      (upd_slot (slot_at s n) (ver (slot_at s n)) true SQueued)) n (enc (hd_error (lst s))))
           i (set_kst k (KSusp j n)).
Proof. intros. unfold finish_add. cbn [cfg_fixed rel_succ rel_fail cb_tok cb_notok]. rewrite H. destruct tok; reflexivity. Qed.
Lemma finish_add_fixed_fail : forall s i k j n x tok,
  finish_add cfg_fixed s i k j n x tok false = set_coro (release (take s n SFree) n) i (set_kst k (KReady (S j))).
Proof. intros. unfold finish_add. cbn [cfg_fixed rel_succ rel_fail cb_tok cb_notok]. reflexivity. Qed.

Lemma step_coro_inv : forall s i k s',
  Inv s -> nth_error (coros s) i = Some k -> step_coro cfg_fixed s i k = Some s' -> Inv s'.
Proof.
  intros s i k s' I Hk Hst.
  pose proof (kstat_of _ _ _ Hk) as Hks. pose proof (kex_of _ _ _ Hk) as Hkx.
  pose proof (i_coro _ I i) as Ci. unfold coro_ok in Ci. rewrite Hks in Ci.
  unfold step_coro in Hst. destruct (kstv k) eqn:Ek.
  - (* KReady j *)
    destruct (nth_error (kprog k) j) as [w|] eqn:Ew.
    + (* emplace *)
      unfold emplace in Hst. destruct (freel s) as [|n r] eqn:Ef; inversion Hst; subst s'; clear Hst.
      * (* new slot *)
        set (fresh := {| ver := nver s; nidv := nver s; nco := i; nwi := j; nex := kexec k; linked := false; sst := SEmp |}).
        set (s' := set_coro _ i _).
        assert (Hn' : nslots s' = S (nslots s)) by (unfold nslots, s'; cbn; rewrite app_length; cbn; lia).
        assert (Hsn : slot_at s' (nslots s) = fresh).
        { unfold slot_at, s', nslots. cbn. rewrite app_nth2 by lia. now rewrite Nat.sub_diag. }
        assert (Hso : forall m, (m < nslots s)%nat -> slot_at s' m = slot_at s m).
        { intros m Hm. unfold slot_at, s'. cbn. apply app_nth1. exact Hm. }
        assert (Hv : vis s' = vis s) by (apply vis_frame; reflexivity).
        assert (Hki : kstat s' i = KLock j (nslots s)) by (unfold s'; apply kstat_set_eq; exact Hk).
        assert (Hkxx : forall i', kex s' i' = kex s i') by (unfold s'; kxe Hk).
        apply (Inv_ktrans s s' i (nslots s) fresh (KLock j (nslots s)) I); auto; try reflexivity.
        -- left. rewrite Hks. eauto.
        -- intro; lia.
        -- rewrite Hks. cbn. auto.
        -- lia.
        -- lia.
        -- intros m Hm. lia.
        -- intros m Hm1 Hm2. rewrite Hso by auto. unfold same_core; auto 10.
        -- cbn. lia.
        -- unfold s'; kne.
        -- unfold slot_ok. rewrite Hsn. unfold fresh. cbn [ver nidv nco nwi nex sst]. rewrite Hkxx, Hkx, Hki.
           repeat split; auto. cbn. lia.
        -- unfold coro_ok. rewrite Hki, Hsn. unfold fresh. cbn [sst nco nwi]. repeat split; auto. lia.
        -- rewrite Hv. apply (i_vis_nodup _ I).
        -- intro Hx. rewrite Hv in Hx. destruct (i_vis _ I _ Hx). lia.
        -- change (freel s') with (freel s). rewrite Ef. constructor.
        -- change (freel s') with (freel s). rewrite Ef. intros m [].
        -- intros m Hm. change (lst s') with (lst s) in Hm.
           assert (In m (vis s)) by (unfold vis; apply in_app_iff; auto). destruct (i_vis _ I m H) as [Hlt _].
           rewrite Hso by auto. apply (i_linked _ I). auto.
      * (* reused slot *)
        set (fresh := {| ver := nver s; nidv := nver s; nco := i; nwi := j; nex := kexec k; linked := false; sst := SEmp |}).
        set (s' := set_coro _ i _).
        assert (Hnf : In n (freel s)) by (rewrite Ef; cbn; auto).
        destruct (i_free _ I n Hnf) as [Hn Hgn].
        pose proof (i_slot _ I n Hn) as Sn. unfold slot_ok in Sn. rewrite Hgn in Sn. destruct Sn as (S1 & S2 & S3 & S4).
        pose proof (i_free_nodup _ I) as Fnd. rewrite Ef in Fnd. inversion Fnd as [|? ? Fn1 Fn2]; subst.
        assert (Hn' : nslots s' = nslots s) by (unfold s'; exact (nslots_put s n fresh)).
        assert (Hsn : slot_at s' n = fresh).
        { unfold s'. change (slot_at (set_coro ?x i ?c) n) with (slot_at (put_slot s n fresh) n). apply slot_at_put_eq. exact Hn. }
        assert (Hso : forall m, m <> n -> slot_at s' m = slot_at s m).
        { intros m Hm. unfold s'. change (slot_at (set_coro ?x i ?c) m) with (slot_at (put_slot s n fresh) m). apply slot_at_put_ne. auto. }
        assert (Hv : vis s' = vis s) by (apply vis_frame; reflexivity).
        assert (Hki : kstat s' i = KLock j n) by (unfold s'; apply kstat_set_eq; exact Hk).
        assert (Hkxx : forall i', kex s' i' = kex s i') by (unfold s'; kxe Hk).
        assert (Hnv : ~ In n (vis s)) by (apply vis_not_state; auto).
        apply (Inv_ktrans s s' i n fresh (KLock j n) I); auto; try reflexivity.
        -- left. rewrite Hks. eauto.
        -- cbv zeta. intros _. left. unfold fresh. cbn. lia.
        -- rewrite Hks. cbn. auto.
        -- lia.
        -- lia.
        -- intros m Hm. right. lia.
        -- intros m Hm1 Hm2. rewrite Hso by auto. unfold same_core; auto 10.
        -- cbn. lia.
        -- unfold s'; kne.
        -- unfold slot_ok. rewrite Hsn. unfold fresh. cbn [ver nidv nco nwi nex sst]. rewrite Hkxx, Hkx, Hki.
           repeat split; auto. cbn. lia.
        -- unfold coro_ok. rewrite Hki, Hsn. unfold fresh. cbn [sst nco nwi]. repeat split; auto. lia.
        -- rewrite Hv. apply (i_vis_nodup _ I).
        -- intro Hx. rewrite Hv in Hx. contradiction.
        -- change (freel s') with r. intros m Hm. left. rewrite Ef. split; [cbn; auto|]. intro; subst. contradiction.
        -- change (freel s') with r. rewrite Ef. intros m [Hm|Hm] Hmn; auto. congruence.
        -- intros m Hm. change (lst s') with (lst s) in Hm.
           assert (m <> n). { intro; subst m. apply Hnv. unfold vis. apply in_app_iff. auto. }
           rewrite Hso by auto. apply (i_linked _ I). auto.
    + (* program finished *)
      inversion Hst; subst s'; clear Hst.
      apply (Inv_kmove s _ i KDone I); try reflexivity; try (rewrite Hks; discriminate); try discriminate.
      * apply kstat_set_eq. exact Hk.
      * kne.
      * kxe Hk.
  - (* KLock j n *)
    destruct Ci as (Hn & Hgn & Hco & Hwi).
    cbn [cfg_fixed cmp_locked] in Hst.
    destruct (mtx s) eqn:Em; [discriminate|]. destruct (nth_error (kprog k) j) as [[x tok]|] eqn:Ew; [|discriminate].
    unfold enq_ok in Hst. cbn [cfg_fixed add_when add_rejects] in Hst.
    pose proof (i_slot _ I n Hn) as Sn. unfold slot_ok in Sn. rewrite Hgn in Sn. destruct Sn as (S1 & S2 & S3 & S4).
    assert (Hnv : ~ In n (vis s)) by (apply vis_not_state; auto).
    assert (Hvs : vis s = lst s) by (rewrite (vis_eq s (lst s) None); auto; apply app_nil_r).
    destruct (x =? fv s) eqn:Ex; [rewrite (finish_add_fixed_ok _ _ _ _ _ _ _ Ex) in Hst | rewrite finish_add_fixed_fail in Hst].
    + (* queued *)
      set (sl' := upd_slot (slot_at s n) (ver (slot_at s n)) true SQueued).
      set (s1 := set_nnext (put_slot (set_lst s (n :: lst s)) n sl') n (enc (hd_error (lst s)))) in *.
      set (s2 := if tok then set_tokens s1 (tokens s1 ++ [((i, j), (n, nidv (slot_at s n)))]) else s1) in *.
      assert (Hst' : s' = set_coro s2 i (set_kst k (KSusp j n))).
      { unfold s2. destruct tok; inversion Hst; reflexivity. }
      subst s'. clear Hst. set (s' := set_coro s2 i _).
      assert (Hsl2 : slots s2 = set_nth n sl' (slots s)) by (unfold s2; destruct tok; reflexivity).
      assert (Hsn : slot_at s' n = sl').
      { change (slot_at s' n) with (slot_at s2 n). rewrite (slot_at_slots s s2 n sl' n Hsl2). apply slot_at_put_eq. exact Hn. }
      assert (Hso : forall m, m <> n -> slot_at s' m = slot_at s m).
      { intros m Hm. change (slot_at s' m) with (slot_at s2 m). rewrite (slot_at_slots s s2 n sl' m Hsl2). apply slot_at_put_ne. auto. }
      assert (Hn' : nslots s' = nslots s).
      { change (nslots s') with (length (slots s2)). rewrite Hsl2. apply length_set_nth. }
      assert (Hrest : clients s2 = clients s /\ mtx s2 = mtx s /\ nver s2 = nver s /\ bad s2 = bad s /\ rlog s2 = rlog s /\
                      freel s2 = freel s /\ lst s2 = n :: lst s /\ coros s2 = coros s).
      { unfold s2. destruct tok; repeat split; reflexivity. }
      destruct Hrest as (R1 & R2 & R3 & R4 & R5 & R6 & R7 & R8).
      assert (Hk2 : nth_error (coros s2) i = Some k) by (rewrite R8; exact Hk).
      assert (Hki : kstat s' i = KSusp j n) by (unfold s'; apply kstat_set_eq; exact Hk2).
      assert (Hkne : forall i', i' <> i -> kstat s' i' = kstat s i').
      { intros i' Hi'. unfold s'. etransitivity; [apply kstat_set_ne; auto|]. apply kstat_frame. exact R8. }
      assert (Hkxx : forall i', kex s' i' = kex s i').
      { intro i'. unfold s'. etransitivity; [eapply kex_set; exact Hk2|]. apply kex_frame. exact R8. }
      assert (Hv' : vis s' = n :: lst s).
      { rewrite (vis_eq s' (n :: lst s) None); [apply app_nil_r| exact R7 | ]. change (mtx s') with (mtx s2). congruence. }
      apply (Inv_ktrans s s' i n sl' (KSusp j n) I); auto; try reflexivity.
      * right. rewrite Hks. eauto.
      * rewrite Hks. cbn. auto.
      * lia.
      * lia.
      * intros m Hm. right. lia.
      * intros m Hm1 Hm2. rewrite Hso by auto. unfold same_core; auto 10.
      * change (nver s') with (nver s2). lia.
      * unfold slot_ok. rewrite Hsn. unfold sl'. cbn [ver nidv nco nwi nex sst upd_slot]. rewrite Hkxx, Hco, Hwi, Hki.
        change (nver s') with (nver s2). rewrite R3. repeat split; auto; try (rewrite Hv'; cbn; auto); try lia; try (rewrite S2; f_equal; exact Hco).
      * unfold coro_ok. rewrite Hki, Hsn. unfold sl'. cbn [sst nco nwi upd_slot]. repeat split; auto. lia.
      * rewrite Hv'. constructor; [congruence|]. rewrite <- Hvs. apply (i_vis_nodup _ I).
      * intros m Hm. rewrite Hv' in Hm. rewrite Hvs. destruct Hm; auto.
      * intros m Hm. rewrite Hv'. rewrite Hvs in Hm. cbn; auto.
      * change (freel s') with (freel s2). rewrite R6. apply (i_free_nodup _ I).
      * change (freel s') with (freel s2). rewrite R6. intros m Hm. left. split; auto. intro; subst m.
        destruct (i_free _ I n Hm). congruence.
      * change (freel s') with (freel s2). rewrite R6. auto.
      * intros m Hm. change (lst s') with (lst s2) in Hm. rewrite R7 in Hm. destruct Hm as [<-|Hm].
        -- rewrite Hsn. reflexivity.
        -- assert (m <> n) by (intro; subst m; apply Hnv; rewrite Hvs; exact Hm). rewrite Hso by auto. apply (i_linked _ I). auto.
      * intros y Hy. change (tokens s') with (tokens s2) in Hy. unfold s2 in Hy. destruct tok; [|left; exact Hy].
        change (tokens (set_tokens s1 ?l)) with l in Hy. change (tokens s1) with (tokens s) in Hy.
        apply in_app_or in Hy. destruct Hy as [Hy|[<-|[]]]; [left; exact Hy|]. right.
        unfold tok_ok. cbn [fst snd]. rewrite Hsn. unfold sl'. cbn [ver sst upd_slot]. repeat split; auto; lia.
    + (* value does not match: the slot goes back *)
      inversion Hst; subst s'; clear Hst.
      set (sl' := upd_slot (slot_at s n) (ver (slot_at s n) + 1) (linked (slot_at s n)) SFree).
      set (s' := set_coro _ i _).
      assert (Hsl2 : slots s' = set_nth n sl' (slots s)).
      { unfold s', release, take, put_slot. cbn [slots set_coro set_coros set_freel set_slots].
        rewrite set_nth_set_nth. f_equal.
        change (slot_at (set_slots s ?l) n) with (nth n l dummy_slot). rewrite nth_set_nth_eq by exact Hn. reflexivity. }
      assert (Hsn : slot_at s' n = sl') by (rewrite (slot_at_slots s s' n sl' n Hsl2); apply slot_at_put_eq; exact Hn).
      assert (Hso : forall m, m <> n -> slot_at s' m = slot_at s m).
      { intros m Hm. rewrite (slot_at_slots s s' n sl' m Hsl2). apply slot_at_put_ne. auto. }
      assert (Hn' : nslots s' = nslots s) by (unfold nslots; rewrite Hsl2; apply length_set_nth).
      assert (Hv : vis s' = vis s) by (apply vis_frame; reflexivity).
      assert (Hki : kstat s' i = KReady (S j)) by (unfold s'; apply kstat_set_eq; exact Hk).
      assert (Hkxx : forall i', kex s' i' = kex s i') by (unfold s'; kxe Hk).
      assert (Hnf : ~ In n (freel s)) by (intro Hx; destruct (i_free _ I n Hx); congruence).
      apply (Inv_ktrans s s' i n sl' (KReady (S j)) I); auto; try reflexivity.
      * right. rewrite Hks. eauto.
      * cbv zeta. intros _. left. unfold sl'. cbn. lia.
      * rewrite Hks. cbn. intros; lia.
      * lia.
      * lia.
      * intros m Hm. right. lia.
      * intros m Hm1 Hm2. rewrite Hso by auto. unfold same_core; auto 10.
      * unfold s'; kne.
      * unfold slot_ok. rewrite Hsn. unfold sl'. cbn [ver nidv nco nwi nex sst upd_slot]. rewrite Hkxx.
        change (nver s') with (nver s). repeat split; auto; try lia. cbn. auto.
      * unfold coro_ok. rewrite Hki. exact Logic.I.
      * rewrite Hv. apply (i_vis_nodup _ I).
      * intro Hx. rewrite Hv in Hx. contradiction.
      * change (freel s') with (n :: freel s). constructor; auto. apply (i_free_nodup _ I).
      * change (freel s') with (n :: freel s). intros m [<-|Hm]; [right; split; reflexivity|]. left. split; auto. congruence.
      * change (freel s') with (n :: freel s). intros m Hm _. cbn; auto.
      * intros m Hm. change (lst s') with (lst s) in Hm.
        assert (m <> n) by (intro; subst m; apply Hnv; unfold vis; apply in_app_iff; auto).
        rewrite Hso by auto. apply (i_linked _ I). auto.
  - (* KEnq: not a state of the code that compares under the mutex *)
    destruct Ci.
  - discriminate.
  - (* KResumed j *)
    inversion Hst; subst s'; clear Hst.
    apply (Inv_kmove s _ i (KReady (S j)) I); try reflexivity; try (rewrite Hks; discriminate); try discriminate.
    * rewrite Hks. cbn. intros; lia.
    * apply kstat_set_eq. exact Hk.
    * kne.
    * kxe Hk.
  - discriminate.
Qed.
Lemma nth_error_map_some : forall A B (f : A -> B) l n y, nth_error (map f l) n = Some y -> exists x, nth_error l n = Some x /\ y = f x.
Proof. induction l as [|a l IH]; intros [|n] y H; cbn in H; try discriminate. - inversion H; subst. exists a; auto. - eauto. Qed.

Lemma Inv_init : forall v0 cps kps, Inv (init v0 cps kps).
Proof.
  intros. 
  assert (Hc : forall t, cst (init v0 cps kps) t = CIdle).
  { intro t. unfold cst, init. cbn. destruct (nth_error (map mk_client cps) t) eqn:E; auto.
    apply nth_error_map_some in E. destruct E as (x & _ & ->). reflexivity. }
  constructor; cbn.
  - intros n Hn. unfold nslots in Hn. cbn in Hn. lia.
  - intro t. unfold thread_ok. rewrite Hc. cbn. split; [constructor|]. split; [intros n []|]. split; [intros n []|]. split; [intros n []|]. intro H; contradiction.
  - intro i. unfold coro_ok, kstat. cbn. destruct (nth_error (map mk_coro kps) i) eqn:E; auto.
    apply nth_error_map_some in E. destruct E as (x & _ & ->). cbn. auto.
  - constructor.
  - intros n [].
  - constructor.
  - intros n [].
  - intros n [].
  - intros x [].
  - reflexivity.
  - intros x [].
  - constructor.
Qed.

Theorem step_inv : forall s t s', Inv s -> WF s -> step cfg_fixed s t = Some s' -> Inv s'.
Proof.
  intros s t s' I W H. unfold step in H. destruct (t <? length (clients s))%nat.
  - destruct (nth_error (clients s) t) eqn:E; [|discriminate]. eapply step_client_inv; eauto.
  - destruct (nth_error (coros s) (t - length (clients s))) eqn:E; [|discriminate]. eapply step_coro_inv; eauto.
Qed.


(* ------------------------------------------------------------------ preservation of WF *)
Lemma slot_at_oob : forall s x, (nslots s <= x)%nat -> slot_at s x = dummy_slot.
Proof. intros. unfold slot_at. apply nth_overflow. exact H. Qed.

(* generic preservation: link flags only get cleared, nobody becomes "being cancelled" out of nowhere, a node leaves the
   visible list only with its prev cleared *)
Lemma WF_mono : forall s s',
  Inv s -> WF s -> Inv s' ->
  length (nxt s') = nslots s' ->
  map (nnext s') (lst s') = map enc (succs (lst s')) ->
  (forall x t, sst (slot_at s' x) = SCan t -> linked (slot_at s' x) = true -> linked (slot_at s x) = true) ->
  (forall x t, sst (slot_at s' x) = SCan t -> (exists t0, sst (slot_at s x) = SCan t0) \/ sst (slot_at s x) = SQueued) ->
  (forall x t, sst (slot_at s' x) = SCan t -> In x (vis s) -> In x (vis s') \/ linked (slot_at s' x) = false) ->
  (forall t n, mtx s' = Some t -> cst s' t = W1Take n ->
     (mtx s = Some t /\ cst s t = W1Take n /\ (linked (slot_at s' n) = true -> linked (slot_at s n) = true)) \/
     linked (slot_at s' n) = false) ->
  WF s'.
Proof.
  intros s s' I W I' Hlen Hnext Hlk Hsc Hvis Hw1. constructor; auto.
  - intros n t Hn Hg Hl. pose proof (Hlk n t Hg Hl) as Hl0.
    assert (Hn0 : (n < nslots s)%nat).
    { destruct (Nat.lt_ge_cases n (nslots s)); auto. rewrite slot_at_oob in Hl0 by auto. discriminate. }
    assert (Hin : In n (vis s)).
    { destruct (Hsc n t Hg) as [[t0 Ht0]|Hq]; [eapply (w_lk _ W); eauto|].
      pose proof (i_slot _ I n Hn0) as S. unfold slot_ok in S. rewrite Hq in S. tauto. }
    destruct (Hvis n t Hg Hin) as [|Hf]; auto. congruence.
  - intros t n Hm Hp. destruct (Hw1 t n Hm Hp) as [(A & B & C)|]; auto.
    destruct (linked (slot_at s' n)) eqn:E; auto. rewrite (w_w1 _ W t n A B) in C. symmetry. apply C. reflexivity.
Qed.

(* steps that leave slots, list, link fields and the mutex holder's program counter alone *)
Lemma WF_simple : forall s s' t,
  Inv s -> WF s -> Inv s' -> slots s' = slots s -> nxt s' = nxt s -> lst s' = lst s -> mtx s' = mtx s ->
  (forall t', t' <> t -> cst s' t' = cst s t') -> chain_pc (cst s' t) = chain_pc (cst s t) ->
  (forall n, cst s' t = W1Take n -> cst s t = W1Take n) ->
  WF s'.
Proof.
  intros s s' t I W I' Hsl Hnx Hlst Hmtx Hcne Hch Hw.
  assert (Hs : forall m, slot_at s' m = slot_at s m) by (intro; apply slot_at_frame; auto).
  assert (Hv : vis s' = vis s) by (apply (vis_same s s' t); auto).
  apply (WF_mono s s' I W I').
  - unfold nslots. rewrite Hnx, Hsl. apply (w_len _ W).
  - unfold nnext. rewrite Hnx, Hlst. apply (w_next _ W).
  - intros x t0 _. now rewrite Hs.
  - intros x t0 H. rewrite Hs in H. eauto.
  - intros x t0 _ H. left. now rewrite Hv.
  - intros t0 n Hm Hp. left. rewrite Hmtx in Hm. split; auto. rewrite Hs. split; auto.
    destruct (Nat.eq_dec t0 t) as [->|Hn]; [apply Hw; auto | rewrite <- Hcne; auto].
Qed.

Lemma resume_node_fields : forall s n,
  slots (resume_node s n) = slots s /\ nxt (resume_node s n) = nxt s /\ lst (resume_node s n) = lst s /\
  mtx (resume_node s n) = mtx s /\ clients (resume_node s n) = clients s.
Proof.
  intros. unfold resume_node. destruct (nth_error (coros s) (nco (slot_at s n))) as [k|]; [destruct (kstv k)|];
    repeat split; reflexivity.
Qed.

(* one slot rewritten (its prev flag kept or cleared), link array untouched *)
Lemma WF_put : forall s s' n sl',
  Inv s -> WF s -> Inv s' -> slots s' = set_nth n sl' (slots s) -> nxt s' = nxt s ->
  (linked sl' = true -> linked (slot_at s n) = true) ->
  (forall t, sst sl' = SCan t -> (exists t0, sst (slot_at s n) = SCan t0) \/ sst (slot_at s n) = SQueued) ->
  map (nnext s) (lst s') = map enc (succs (lst s')) ->
  (forall x t, sst (slot_at s' x) = SCan t -> In x (vis s) -> In x (vis s') \/ linked (slot_at s' x) = false) ->
  (forall t m, mtx s' = Some t -> cst s' t = W1Take m ->
     (mtx s = Some t /\ cst s t = W1Take m) \/ linked (slot_at s' m) = false) ->
  WF s'.
Proof.
  intros s s' n sl' I W I' Hsl Hnx Hl Hg Hnext Hvis Hw1.
  assert (Hs : forall x, slot_at s' x = if (Nat.eqb x n && (n <? nslots s)%nat)%bool then sl' else slot_at s x).
  { intro x. rewrite (slot_at_slots s s' n sl' x Hsl). apply slot_at_put. }
  apply (WF_mono s s' I W I'); auto.
  - unfold nslots. rewrite Hnx, Hsl, length_set_nth. apply (w_len _ W).
  - unfold nnext in *. rewrite Hnx. exact Hnext.
  - intros x t Hx Hlk. rewrite Hs in Hx, Hlk. destruct (Nat.eqb x n && (n <? nslots s)%nat)%bool eqn:E; auto.
    apply andb_prop in E. destruct E as [E _]. apply Nat.eqb_eq in E. subst x. auto.
  - intros x t Hx. rewrite Hs in Hx. destruct (Nat.eqb x n && (n <? nslots s)%nat)%bool eqn:E; eauto.
    apply andb_prop in E. destruct E as [E _]. apply Nat.eqb_eq in E. subst x. eauto.
  - intros t m Hm Hp. destruct (Hw1 t m Hm Hp) as [[A B]|]; auto. left. split; auto. split; auto.
    rewrite Hs. destruct (Nat.eqb m n && (n <? nslots s)%nat)%bool eqn:E; auto.
    apply andb_prop in E. destruct E as [E _]. apply Nat.eqb_eq in E. subst m. auto.
Qed.

Lemma w_next_tail : forall (f : nat -> Z) a r, map f (a :: r) = map enc (succs (a :: r)) -> map f r = map enc (succs r).
Proof. intros f a [|b r'] H; [reflexivity|]. rewrite succs_cons2 in H. cbn [map] in H. inversion H. assumption. Qed.
Lemma unlink_mark_mono : forall s n x, linked (slot_at (unlink_mark s n) x) = true -> linked (slot_at s x) = true.
Proof.
  intros s n x. unfold unlink_mark. rewrite slot_at_put. destruct (Nat.eqb x n && (n <? nslots s)%nat)%bool; auto. cbn. discriminate.
Qed.
Lemma nnext_set_eq : forall s n z, (n < length (nxt s))%nat -> nnext (set_nnext s n z) n = z.
Proof. intros. unfold nnext, set_nnext. cbn. apply nth_set_nth_eq. exact H. Qed.
Lemma nnext_set_ne : forall s n z x, x <> n -> nnext (set_nnext s n z) x = nnext s x.
Proof. intros. unfold nnext, set_nnext. cbn. apply nth_set_nth_ne. auto. Qed.
Lemma chain_next_len : forall l s, length (nxt (chain_next s l)) = length (nxt s).
Proof. induction l as [|a l IH]; intro s; cbn [chain_next]; auto. rewrite IH. unfold set_nnext. cbn. apply length_set_nth. Qed.
Lemma chain_next_nnext : forall l s x, ~ In x l -> nnext (chain_next s l) x = nnext s x.
Proof.
  induction l as [|a l IH]; intros s x H; cbn [chain_next]; auto. rewrite IH by (intro; apply H; cbn; auto).
  apply nnext_set_ne. intro; subst. apply H. cbn; auto.
Qed.
Lemma map_nnext_ext : forall s s' l, (forall x, In x l -> nnext s' x = nnext s x) -> map (nnext s') l = map (nnext s) l.
Proof. intros. apply map_ext_in. auto. Qed.

Lemma pred_of_notin : forall l n, ~ In n l -> pred_of l n = None.
Proof.
  induction l as [|a r IH]; intros n H; cbn; auto. destruct r as [|b r']; auto.
  destruct (Nat.eqb_spec b n) as [->|]; [exfalso; apply H; cbn; auto|]. apply IH. intro; apply H; cbn; auto.
Qed.
Lemma pred_of_hd : forall a r n, ~ In n r -> pred_of (a :: r) n = None.
Proof.
  intros a [|b r'] n H; [reflexivity|]. change (pred_of (a :: b :: r') n) with (if Nat.eqb b n then Some a else pred_of (b :: r') n).
  destruct (Nat.eqb_spec b n) as [->|]; [exfalso; apply H; cbn; auto|]. apply pred_of_notin. exact H.
Qed.
Lemma pred_of_in : forall l n p, pred_of l n = Some p -> In p l.
Proof.
  induction l as [|a r IH]; intros n p H; cbn in H; [discriminate|]. destruct r as [|b r']; [discriminate|].
  destruct (Nat.eqb b n); [inversion H; cbn; auto|]. right. eapply IH; eauto.
Qed.
Lemma remove_nat_notin : forall n l, ~ In n l -> remove_nat n l = l.
Proof. induction l as [|a r IH]; intro H; cbn; auto. destruct (Nat.eqb_spec a n) as [->|]; [exfalso; apply H; cbn; auto|].
  f_equal. apply IH. intro; apply H; cbn; auto. Qed.

(* unlinking n: its predecessor inherits its next pointer *)
Lemma next_remove : forall (f : nat -> Z) l n, NoDup l -> map f l = map enc (succs l) -> In n l ->
  map (fun x => if match pred_of l n with Some p => Nat.eqb x p | None => false end then f n else f x) (remove_nat n l) =
  map enc (succs (remove_nat n l)).
Proof.
  induction l as [|a r IH]; intros n Hnd H Hin; [destruct Hin|].
  inversion Hnd as [|? ? Ha Hr]; subst.
  destruct (Nat.eq_dec a n) as [->|Han].
  - cbn [remove_nat]. rewrite Nat.eqb_refl. rewrite (remove_nat_notin n r Ha). rewrite (pred_of_hd n r n Ha).
    apply w_next_tail in H. exact H.
  - destruct Hin as [|Hin]; [contradiction|]. cbn [remove_nat]. destruct (Nat.eqb_spec a n) as [|_]; [contradiction|].
    destruct r as [|b r']; [destruct Hin|].
    pose proof (w_next_tail _ _ _ H) as Ht. rewrite succs_cons2 in H. cbn [map] in H. injection H as Hfa Hrest.
    inversion Hr as [|? ? Hb Hr']; subst.
    destruct (Nat.eq_dec b n) as [->|Hbn].
    + (* a is the predecessor *)
      assert (Hp : pred_of (a :: n :: r') n = Some a) by (cbn; rewrite Nat.eqb_refl; reflexivity). rewrite Hp.
      cbn [remove_nat]. rewrite Nat.eqb_refl. rewrite (remove_nat_notin n r' Hb).
      cbn [map]. rewrite Nat.eqb_refl.
      assert (Hext : map (fun x => if Nat.eqb x a then f n else f x) r' = map f r').
      { apply map_ext_in. intros x Hx. destruct (Nat.eqb_spec x a) as [->|]; auto. exfalso. apply Ha. cbn; auto. }
      rewrite Hext. destruct r' as [|c r''].
      * cbn in *. exact Ht.
      * rewrite succs_cons2 in *. cbn [map] in *. exact Ht.
    + assert (Hp : pred_of (a :: b :: r') n = pred_of (b :: r') n).
      { cbn [pred_of]. destruct (Nat.eqb_spec b n); [contradiction|]. reflexivity. }
      rewrite Hp. specialize (IH n Hr Ht Hin).
      cbn [remove_nat] in *. destruct (Nat.eqb_spec b n) as [|_]; [contradiction|]. rewrite succs_cons2. cbn [map].
      assert (Hna : match pred_of (b :: r') n with Some p => Nat.eqb a p | None => false end = false).
      { destruct (pred_of (b :: r') n) eqn:E; auto. apply Nat.eqb_neq. intro; subst. apply Ha. eapply pred_of_in; eauto. }
      rewrite Hna, Hfa. f_equal. exact IH.
Qed.

(* thread t rewrites a node it owns (prev flag kept, not "being cancelled" afterwards); list, links, mutex untouched *)
Lemma WF_own : forall s s' t n sl',
  Inv s -> WF s -> Inv s' -> slots s' = set_nth n sl' (slots s) -> nxt s' = nxt s -> lst s' = lst s -> mtx s' = mtx s ->
  linked sl' = linked (slot_at s n) -> (forall t0, sst sl' <> SCan t0) ->
  (forall t', t' <> t -> cst s' t' = cst s t') -> chain_pc (cst s' t) = chain_pc (cst s t) ->
  (forall m, cst s' t <> W1Take m) ->
  WF s'.
Proof.
  intros s s' t n sl' I W I' Hsl Hnx Hlst Hmtx Hlk Hg Hcne Hch Hw.
  assert (Hv : vis s' = vis s) by (apply (vis_same s s' t); auto).
  apply (WF_put s s' n sl' I W I'); auto.
  - intro H. congruence.
  - intros t0 H. exfalso. eapply Hg; eauto.
  - rewrite Hlst. apply (w_next _ W).
  - intros x t0 _ H. left. now rewrite Hv.
  - intros t0 m Hm Hp. left. rewrite Hmtx in Hm. split; auto.
    destruct (Nat.eq_dec t0 t) as [->|Hn]; [exfalso; eapply Hw; eauto | rewrite <- Hcne; auto].
Qed.

Lemma w1_pop_wf : forall s t cl m r p,
  Inv s -> WF s -> nth_error (clients s) t = Some cl -> cst s t = p -> lst s = m :: r ->
  (mtx s = None /\ chain_pc p = []) \/ (mtx s = Some t /\ exists q, p = W1Take q) ->
  Inv (set_client (set_mtx (set_nnext (unlink_mark (set_lst s r) m) m 0) (Some t)) t (goto cl (W1Take m))) ->
  WF (set_client (set_mtx (set_nnext (unlink_mark (set_lst s r) m) m 0) (Some t)) t (goto cl (W1Take m))).
Proof.
  intros s t cl m r p I W Hcl Hp El Hm I'. set (s' := set_client _ t _) in *.
  assert (Hs : forall x, slot_at s' x = slot_at (unlink_mark (set_lst s r) m) x) by reflexivity.
  assert (Hc1 : cst s' t = W1Take m) by (unfold s'; ceq Hcl).
  assert (Hv' : vis s' = r ++ [m]).
  { rewrite (vis_eq s' r (Some t)) by reflexivity. rewrite Hc1. reflexivity. }
  pose proof (i_vis_nodup _ I) as Hnd.
  assert (Hvs : exists c, vis s = (m :: r) ++ c /\ (forall q, In q c -> linked (slot_at s q) = false)).
  { destruct Hm as [[Em Ec]|[Em (q & Eq)]].
    - exists []. split; [|intros q []]. rewrite (vis_eq s (m :: r) None); auto.
    - exists [q]. split. + rewrite (vis_eq s (m :: r) (Some t)); auto. rewrite Hp, Eq. reflexivity.
      + intros q' [<-|[]]. apply (w_w1 _ W t q Em). congruence. }
  destruct Hvs as (c & Hvs & Hc). rewrite Hvs in Hnd.
  assert (Hmr : ~ In m r). { apply NoDup_app_l in Hnd. inversion Hnd; auto. }
  assert (Hmlt : (m < nslots s)%nat). { apply (i_vis _ I). rewrite Hvs. cbn. auto. }
  apply (WF_mono s s' I W I').
  - unfold s', nslots, unlink_mark, set_nnext, put_slot. cbn. rewrite !length_set_nth. apply (w_len _ W).
  - change (lst s') with r. pose proof (w_next _ W) as Hn. rewrite El in Hn. apply w_next_tail in Hn. rewrite <- Hn.
    apply map_ext_in. intros x Hx. change (nnext s' x) with (nnext (set_nnext (unlink_mark (set_lst s r) m) m 0) x).
    rewrite nnext_set_ne by (intro; subst; contradiction). reflexivity.
  - intros x t0 _ H. rewrite Hs in H. apply unlink_mark_mono in H. exact H.
  - intros x t0 H. rewrite Hs in H. destruct (unlink_mark_core (set_lst s r) m x) as (_ & _ & _ & _ & _ & e6). rewrite e6 in H. eauto.
  - intros x t0 _ Hx. rewrite Hvs in Hx. rewrite Hv'. apply in_app_iff in Hx. destruct Hx as [[<-|Hx]|Hx].
    + left. apply in_app_iff. cbn. auto.
    + left. apply in_app_iff. auto.
    + right. destruct (linked (slot_at s' x)) eqn:E; auto. rewrite Hs in E. apply unlink_mark_mono in E.
      change (slot_at (set_lst s r) x) with (slot_at s x) in E. rewrite (Hc x Hx) in E. discriminate.
  - intros t0 n0 Hm0 Hp0. right. change (mtx s') with (Some t) in Hm0. inversion Hm0; subst t0. rewrite Hc1 in Hp0. inversion Hp0; subst n0.
    rewrite Hs. unfold unlink_mark. rewrite slot_at_put_eq by exact Hmlt. reflexivity.
Qed.

Lemma watake_wf : forall s t cl n r taken p' s',
  Inv s -> WF s -> Inv s' -> nth_error (clients s) t = Some cl -> cst s t = WATake (n :: r) taken ->
  let s0 := unlink_mark s n in
  let ok := take_ok s0 n (nidv (slot_at s0 n)) in
  let s1 := if ok then take s0 n (SHeld t) else s0 in
  let taken' := if ok then taken ++ [n] else taken in
  chain_pc p' = r -> (forall m, p' <> W1Take m) ->
  slots s' = slots s1 -> length (nxt s') = length (nxt s) -> (forall x, ~ In x taken' -> nnext s' x = nnext s x) ->
  lst s' = lst s -> mtx s' = match r with [] => None | _ => Some t end ->
  (forall t', t' <> t -> cst s' t' = cst s t') -> cst s' t = p' ->
  WF s'.
Proof.
  intros s t cl n r taken p' s' I W I' Hcl Hp s0 ok s1 taken' Hch Hnw Hsl Hlen Hnx Hlst Hmtx Hcne Hct.
  destruct (i_thread _ I t) as (A & B & _ & _ & E). rewrite Hp in A, B, E. cbn [held_pc chain_pc] in A, B, E.
  assert (Em : mtx s = Some t) by (apply E; discriminate).
  assert (Hv : vis s = lst s ++ n :: r) by (rewrite (vis_eq s (lst s) (Some t)); auto; now rewrite Hp).
  assert (Hv' : vis s' = lst s ++ r).
  { rewrite (vis_eq s' (lst s) (mtx s')); auto. rewrite Hmtx. destruct r; [now rewrite app_nil_r|]. rewrite Hct, Hch. reflexivity. }
  pose proof (i_vis_nodup _ I) as Hnd. rewrite Hv in Hnd.
  assert (Hnin : In n (vis s)) by (rewrite Hv; apply in_app_iff; cbn; auto).
  destruct (i_vis _ I n Hnin) as [Hn Hst].
  assert (Hs1 : forall x, slot_at s' x = slot_at s1 x) by (intro; apply slot_at_frame; auto).
  assert (Hmono : forall x, linked (slot_at s1 x) = true -> linked (slot_at s x) = true).
  { intros x H. unfold s1 in H. destruct ok.
    - unfold take in H. rewrite put_linked in H. apply unlink_mark_mono in H. exact H.
    - apply unlink_mark_mono in H. exact H. }
  assert (Hnf : linked (slot_at s1 n) = false).
  { assert (linked (slot_at s0 n) = false) by (unfold s0, unlink_mark; rewrite slot_at_put_eq by exact Hn; reflexivity).
    unfold s1. destruct ok; auto. unfold take. rewrite put_linked. exact H. }
  assert (Hsst : forall x, x <> n -> sst (slot_at s1 x) = sst (slot_at s x)).
  { intros x Hx. unfold s1. destruct ok.
    - unfold take. rewrite slot_at_put_ne by auto. destruct (unlink_mark_core s n x) as (_ & _ & _ & _ & _ & e6). exact e6.
    - destruct (unlink_mark_core s n x) as (_ & _ & _ & _ & _ & e6). exact e6. }
  assert (Hnsc : forall t0, sst (slot_at s1 n) = SCan t0 -> exists t1, sst (slot_at s n) = SCan t1).
  { intros t0 H. unfold s1 in H. destruct ok.
    - unfold take in H. rewrite slot_at_put_eq in H by (unfold s0, unlink_mark; rewrite nslots_put; exact Hn). cbn in H. discriminate.
    - destruct (unlink_mark_core s n n) as (_ & _ & _ & _ & _ & e6). fold s0 in e6. rewrite e6 in H. eauto. }
  apply (WF_mono s s' I W I').
  - unfold nslots. rewrite Hlen, Hsl. rewrite (w_len _ W). unfold s1, s0, take, unlink_mark, put_slot. destruct ok; cbn; rewrite ?length_set_nth; reflexivity.
  - rewrite Hlst. rewrite <- (w_next _ W). apply map_ext_in. intros x Hx. apply Hnx.
    assert (Hxv : In x (vis s)) by (rewrite Hv; apply in_app_iff; auto).
    intro Ht. assert (Hxn : x <> n). { intro; subst x. eapply NoDup_app_disj; eauto. cbn; auto. }
    destruct (i_vis _ I x Hxv) as [_ Hq].
    assert (In x taken). { unfold taken' in Ht. destruct ok; auto. apply in_app_iff in Ht. destruct Ht as [|[|[]]]; auto. congruence. }
    destruct (B x H) as [_ Hh]. destruct Hq as [Hq|[t0 Hq]]; congruence.
  - intros x t0 _ H. rewrite Hs1 in H. auto.
  - intros x t0 H. rewrite Hs1 in H. destruct (Nat.eq_dec x n) as [->|Hx]; [left; eapply Hnsc; eauto|].
    rewrite Hsst in H by auto. eauto.
  - intros x t0 _ Hx. rewrite Hv in Hx. rewrite Hv'. apply in_app_iff in Hx. destruct Hx as [Hx|[<-|Hx]].
    + left. apply in_app_iff. auto.
    + right. rewrite Hs1. exact Hnf.
    + left. apply in_app_iff. auto.
  - intros t0 m Hm Hp0. exfalso. rewrite Hmtx in Hm. destruct r; [discriminate|]. inversion Hm; subst t0. rewrite Hct in Hp0. eapply Hnw; eauto.
Qed.

Lemma cklock_wf : forall s t cl n s1,
  Inv s -> WF s -> nth_error (clients s) t = Some cl -> cst s t = CKLock n -> mtx s = None ->
  slots s1 = slots s -> clients s1 = clients s -> mtx s1 = mtx s ->
  length (nxt s1) = length (nxt s) ->
  (if linked (slot_at s n)
   then lst s1 = remove_nat n (lst s) /\
        forall x, nnext s1 x = if match pred_of (lst s) n with Some p => Nat.eqb x p | None => false end then nnext s n else nnext s x
   else lst s1 = lst s /\ nxt s1 = nxt s) ->
  Inv (set_client (mark s1 n (SHeld t)) t (goto cl (CKResume n))) ->
  WF (set_client (mark s1 n (SHeld t)) t (goto cl (CKResume n))).
Proof.
  intros s t cl n s1 I W Hcl Hp Em Hsl Hcl1 Hm1 Hlen Hshape I'. set (s' := set_client _ t _) in *.
  destruct (i_thread _ I t) as (_ & _ & _ & TD & _). rewrite Hp in TD. destruct (TD n) as [Hn Hg]; [cbn; auto|].
  assert (Hv : vis s = lst s) by (rewrite (vis_eq s (lst s) None); auto; apply app_nil_r).
  assert (Hv' : vis s' = lst s1).
  { rewrite (vis_eq s' (lst s1) None); [apply app_nil_r | reflexivity | ]. change (mtx s') with (mtx s1). congruence. }
  assert (Hsn : forall x, slot_at s' x = if (Nat.eqb x n && (n <? nslots s)%nat)%bool
                                         then upd_slot (slot_at s n) (ver (slot_at s n)) (linked (slot_at s n)) (SHeld t) else slot_at s x).
  { intro x. unfold s', mark. change (slot_at (set_client ?a t ?c) x) with (slot_at a x). rewrite slot_at_put.
    unfold nslots. rewrite Hsl. rewrite (slot_at_frame s s1) by exact Hsl. destruct (Nat.eqb x n && _)%bool; auto.
    apply slot_at_frame. exact Hsl. }
  apply (WF_mono s s' I W I').
  - change (nxt s') with (nxt s1). rewrite Hlen. transitivity (nslots s1); [|exact (eq_sym (nslots_put s1 n _))]. unfold nslots. rewrite Hsl. apply (w_len _ W).
  - change (lst s') with (lst s1). destruct (linked (slot_at s n)) eqn:El.
    + destruct Hshape as [Hl Hnx]. rewrite Hl.
      assert (Hin : In n (lst s)) by (rewrite <- Hv; eapply (w_lk _ W); eauto).
      pose proof (i_vis_nodup _ I) as Hnd. rewrite Hv in Hnd.
      rewrite <- (next_remove (nnext s) (lst s) n Hnd (w_next _ W) Hin). apply map_ext. intro x.
      change (nnext s' x) with (nnext s1 x). apply Hnx.
    + destruct Hshape as [Hl Hnx]. rewrite Hl. unfold nnext. change (nxt s') with (nxt s1). rewrite Hnx. apply (w_next _ W).
  - intros x t0 _ H. rewrite Hsn in H. destruct (Nat.eqb x n && (n <? nslots s)%nat)%bool eqn:E; auto.
    apply andb_prop in E. destruct E as [E _]. apply Nat.eqb_eq in E. subst x. exact H.
  - intros x t0 H. rewrite Hsn in H. destruct (Nat.eqb x n && (n <? nslots s)%nat)%bool eqn:E; eauto. cbn in H. discriminate.
  - intros x t0 Hx Hin. rewrite Hv in Hin. rewrite Hv'. left.
    assert (x <> n).
    { intro; subst x. rewrite Hsn in Hx. rewrite Nat.eqb_refl in Hx. destruct (Nat.ltb_spec n (nslots s)); [|lia]. cbn in Hx. discriminate. }
    destruct (linked (slot_at s n)); destruct Hshape as [Hl _]; rewrite Hl; auto. apply remove_nat_keep; auto.
  - intros t0 m Hm0. change (mtx s') with (mtx s1) in Hm0. rewrite Hm1, Em in Hm0. discriminate.
Qed.

Ltac wf_simple s t I W I' Hcl Hp :=
  apply (WF_simple s _ t I W I'); try reflexivity;
  first [ solve [cne] | solve [cbn; congruence]
        | solve [erewrite cst_set_eq by exact Hcl; rewrite Hp; reflexivity]
        | solve [intros ? H; erewrite cst_set_eq in H by exact Hcl; cbn in H; first [discriminate | rewrite Hp; exact H]] ].

Lemma nnext_fix_pred : forall s0 s l n nx x, nxt s0 = nxt s -> (forall p, In p l -> (p < length (nxt s))%nat) ->
  nnext (fix_pred s0 l n nx) x = if match pred_of l n with Some p => Nat.eqb x p | None => false end then nx else nnext s x.
Proof.
  intros s0 s l n nx x H Hl. unfold fix_pred. destruct (pred_of l n) as [p|] eqn:E.
  - destruct (Nat.eqb_spec x p) as [->|Hn].
    + unfold nnext, set_nnext. cbn. rewrite H. apply nth_set_nth_eq. apply Hl. eapply pred_of_in; eauto.
    + rewrite nnext_set_ne by auto. unfold nnext. now rewrite H.
  - unfold nnext. now rewrite H.
Qed.

Lemma step_client_wf : forall s t cl s',
  Inv s -> WF s -> nth_error (clients s) t = Some cl -> step_client cfg_fixed s t cl = Some s' -> WF s'.
Proof.
  intros s t cl s' I W Hcl Hst.
  pose proof (step_client_inv s t cl s' I W Hcl Hst) as I'.
  pose proof (cst_of _ _ _ Hcl) as Hp.
  destruct (i_thread _ I t) as (TA & TB & TC & TD & TE).
  unfold step_client in Hst. destruct (cpcv cl) eqn:Epc; rewrite Hp in TA, TB, TC, TD, TE; cbn [held_pc fin_pc can_pc chain_pc] in *.
  - (* CIdle *)
    destruct (nth_error (cprog cl) (copi cl)) as [o|]; [|discriminate]. destruct o.
    + destruct (mtx s) eqn:Em; [discriminate|]. inversion Hst; subst s'; clear Hst.
      unfold w1_pop in *. destruct (lst s) as [|n r] eqn:El.
      * wf_simple s t I W I' Hcl Hp.
      * cbn [negb] in *. eapply (w1_pop_wf s t cl n r CIdle); eauto.
    + destruct (mtx s) eqn:Em; [discriminate|]. destruct (lst s) as [|n r] eqn:El; inversion Hst; subst s'; clear Hst.
      * wf_simple s t I W I' Hcl Hp.
      * set (s' := set_client _ t _) in *.
        assert (Hc1 : cst s' t = WATake (n :: r) []) by (unfold s'; ceq Hcl).
        apply (WF_mono s s' I W I').
        -- apply (w_len _ W).
        -- reflexivity.
        -- intros x t0 _ H. exact H.
        -- intros x t0 H. eauto.
        -- intros x t0 _ H. left. rewrite (vis_eq s (n :: r) None) in H by auto. rewrite app_nil_r in H.
           rewrite (vis_eq s' [] (Some t)) by reflexivity. rewrite Hc1. exact H.
        -- intros t0 m Hm Hp0. exfalso. change (mtx s') with (Some t) in Hm. inversion Hm; subst t0. rewrite Hc1 in Hp0. discriminate.
    + destruct (find_token (tokens s) i j) as [[n v]|] eqn:Ef.
      * destruct (take_ok s n v) eqn:Et; inversion Hst; subst s'; clear Hst.
        -- apply take_ok_spec in Et. destruct Et as [Hn Hv].
           apply find_token_in in Ef. pose proof (i_tok _ I _ Ef) as Tk. unfold tok_ok in Tk. cbn in Tk.
           destruct Tk as (_ & _ & Tq). specialize (Tq (eq_sym Hv)).
           set (s' := set_client _ t _) in *.
           assert (Hc1 : cst s' t = CKLock n) by (unfold s'; ceq Hcl).
           assert (Hc2 : forall t', t' <> t -> cst s' t' = cst s t') by (unfold s'; cne).
           assert (Hvis : vis s' = vis s) by (apply (vis_same s s' t); auto; rewrite Hc1, Hp; reflexivity).
           apply (WF_put s s' n (upd_slot (slot_at s n) (ver (slot_at s n) + 1) (linked (slot_at s n)) (SCan t)) I W I'); try reflexivity; auto.
           ++ apply (w_next _ W).
           ++ intros x t0 _ H. left. now rewrite Hvis.
           ++ intros t0 m Hm Hp0. left. split; auto. destruct (Nat.eq_dec t0 t) as [->|Hne]; [rewrite Hc1 in Hp0; discriminate|].
              rewrite <- Hc2; auto.
        -- wf_simple s t I W I' Hcl Hp.
      * inversion Hst; subst s'; clear Hst. wf_simple s t I W I' Hcl Hp.
    + inversion Hst; subst s'; clear Hst. wf_simple s t I W I' Hcl Hp.
    + destruct (n <=? length (tokens s))%nat; inversion Hst; subst s'; clear Hst. wf_simple s t I W I' Hcl Hp.
  - (* W1Take n *)
    assert (Em : mtx s = Some t) by (apply TE; discriminate).
    assert (Hv : vis s = lst s ++ [n]) by (rewrite (vis_eq s (lst s) (Some t)); auto; now rewrite Hp).
    pose proof (w_w1 _ W t n Em Hp) as Hlf.
    destruct (take_ok s n (nidv (slot_at s n))) eqn:Et; cbn [cfg_fixed w1_stop_ok w1_stop_fail w1_adv] in Hst.
    + inversion Hst; subst s'; clear Hst. set (s' := set_client _ t _) in *.
      assert (Hn : (n < nslots s)%nat) by (apply take_ok_spec in Et; tauto).
      apply (WF_put s s' n (upd_slot (slot_at s n) (ver (slot_at s n) + 1) (linked (slot_at s n)) (SHeld t)) I W I'); try reflexivity; auto.
      * intros t0 H. cbn in H. discriminate.
      * apply (w_next _ W).
      * intros x t0 _ Hx. rewrite Hv in Hx. apply in_app_iff in Hx. destruct Hx as [Hx|[<-|[]]].
        -- left. rewrite (vis_eq s' (lst s) None) by reflexivity. apply in_app_iff. auto.
        -- right. unfold s', take. change (slot_at (set_client ?a t ?c) n) with (slot_at a n).
           change (slot_at (set_mtx ?a None) n) with (slot_at a n). rewrite put_linked. exact Hlf.
      * intros t0 m Hm. discriminate.
    + unfold w1_pop in Hst. destruct (lst s) as [|m r] eqn:El.
      * assert (s' = set_client (set_mtx s None) t (finish_op cl (RW1 0))).
        { destruct (negb (enc (hd_error []) =? 0)); inversion Hst; reflexivity. }
        subst s'. clear Hst. set (s' := set_client _ t _) in *.
        apply (WF_mono s s' I W I').
        -- apply (w_len _ W).
        -- change (lst s') with (lst s). change (nnext s') with (nnext s). apply (w_next _ W).
        -- intros x t0 _ H. exact H.
        -- intros x t0 H. eauto.
        -- intros x t0 _ Hx. rewrite Hv in Hx. cbn in Hx. destruct Hx as [<-|[]]. right. exact Hlf.
        -- intros t0 m0 Hm. discriminate.
      * cbn [hd_error] in Hst. rewrite enc_some_nz in Hst. cbn [negb] in Hst. inversion Hst; subst s'; clear Hst.
        eapply (w1_pop_wf s t cl m r (W1Take n)); eauto.
  - (* W1Resume n *)
    inversion Hst; subst s'; clear Hst. destruct (resume_node_fields s n) as (R1 & R2 & R3 & R4 & R5).
    apply (WF_own s _ t n (upd_slot (slot_at s n) (ver (slot_at s n)) (linked (slot_at s n)) (SFin t)) I W I'); try reflexivity; auto.
    + unfold mark, put_slot. cbn [slots set_client set_clients set_slots]. rewrite R1. unfold slot_at. rewrite R1. reflexivity.
    + intros t0 H. cbn in H. discriminate.
    + intros. etransitivity; [apply cst_set_ne; auto|]. apply cst_frame. exact R5.
    + erewrite cst_set_eq; [rewrite Hp; reflexivity|]. transitivity (nth_error (clients s) t); [f_equal; exact R5|exact Hcl].
    + intros m H. erewrite cst_set_eq in H; [discriminate|]. transitivity (nth_error (clients s) t); [f_equal; exact R5|exact Hcl].
  - (* W1Finish n *)
    inversion Hst; subst s'; clear Hst.
    apply (WF_own s _ t n (upd_slot (slot_at s n) (ver (slot_at s n)) (linked (slot_at s n)) SFree) I W I'); try reflexivity; auto.
    + intros t0 H. cbn in H. discriminate.
    + cne.
    + erewrite cst_set_eq by exact Hcl. rewrite Hp. reflexivity.
    + intros m H. erewrite cst_set_eq in H by exact Hcl. discriminate.
  - (* WATake *)
    destruct pend as [|n r]; [discriminate|].
    destruct r as [|n' r'].
    + set (s0 := unlink_mark s n) in *. set (ok := take_ok s0 n (nidv (slot_at s0 n))) in *.
      set (s1 := if ok then take s0 n (SHeld t) else s0) in *. set (taken' := if ok then taken ++ [n] else taken) in *.
      destruct (chain_next_same taken' s1) as (C1 & C2 & C3 & C4 & C5 & C6 & C7 & C8 & C9 & C10).
      assert (Hs1 : lst s1 = lst s /\ clients s1 = clients s /\ nxt s1 = nxt s).
      { unfold s1. destruct ok; repeat split; reflexivity. }
      destruct Hs1 as (D4 & D3 & D5).
      assert (Hlen : length (nxt (chain_next s1 taken')) = length (nxt s)) by (rewrite chain_next_len; now rewrite D5).
      assert (Hnx : forall x, ~ In x taken' -> nnext (chain_next s1 taken') x = nnext s x).
      { intros x Hx. rewrite chain_next_nnext by exact Hx. unfold nnext. now rewrite D5. }
      destruct taken' as [|a todo] eqn:Etk; inversion Hst; subst s'; clear Hst.
      * apply (watake_wf s t cl n [] taken CIdle _ I W I' Hcl Hp); fold s0; fold ok; fold s1; try reflexivity; try discriminate.
        -- exact (f_equal (@length Z) D5).
        -- intros x _. unfold nnext. change (nxt (set_client ?a t ?c)) with (nxt a). change (nxt (set_mtx ?a None)) with (nxt a). now rewrite D5.
        -- exact D4.
        -- intros t' Ht'. etransitivity; [apply cst_set_ne; auto|]. apply cst_frame. exact D3.
        -- erewrite cst_set_eq; [reflexivity|]. cbn. rewrite D3. exact Hcl.
      * apply (watake_wf s t cl n [] taken (WAResume a todo 0) _ I W I' Hcl Hp); fold s0; fold ok; fold s1; try reflexivity; try discriminate.
        -- exact C1.
        -- exact Hlen.
        -- intros x Hx. apply Hnx. unfold taken' in Etk. rewrite Etk in Hx. exact Hx.
        -- exact (eq_trans C4 D4).
        -- intros t' Ht'. etransitivity; [apply cst_set_ne; auto|]. apply cst_frame. exact (eq_trans C3 D3).
        -- erewrite cst_set_eq; [reflexivity|]. transitivity (nth_error (clients s) t); [f_equal; exact (eq_trans C3 D3) | exact Hcl].
    + inversion Hst; subst s'; clear Hst.
      set (s0 := unlink_mark s n) in *. set (ok := take_ok s0 n (nidv (slot_at s0 n))) in *.
      assert (Em : mtx s = Some t) by (apply TE; discriminate).
      apply (watake_wf s t cl n (n' :: r') taken (WATake (n' :: r') (if ok then taken ++ [n] else taken)) _ I W I' Hcl Hp);
        fold s0; fold ok; try reflexivity; try discriminate; try (destruct ok; reflexivity).
      * destruct ok; exact Em.
      * intros t' Ht'. etransitivity; [apply cst_set_ne; auto|]. apply cst_frame. destruct ok; reflexivity.
      * erewrite cst_set_eq; [reflexivity|]. destruct ok; exact Hcl.
  - (* WAResume *)
    inversion Hst; subst s'; clear Hst. destruct (resume_node_fields s cur) as (R1 & R2 & R3 & R4 & R5).
    apply (WF_own s _ t cur (upd_slot (slot_at s cur) (ver (slot_at s cur)) (linked (slot_at s cur)) (SFin t)) I W I'); try reflexivity; auto.
    + unfold mark, put_slot. cbn [slots set_client set_clients set_slots]. rewrite R1. unfold slot_at. rewrite R1. reflexivity.
    + intros t0 H. cbn in H. discriminate.
    + intros. etransitivity; [apply cst_set_ne; auto|]. apply cst_frame. exact R5.
    + erewrite cst_set_eq; [rewrite Hp; reflexivity|]. transitivity (nth_error (clients s) t); [f_equal; exact R5|exact Hcl].
    + intros m H. erewrite cst_set_eq in H; [discriminate|]. transitivity (nth_error (clients s) t); [f_equal; exact R5|exact Hcl].
  - (* WAFinish *)
    inversion Hst; subst s'; clear Hst.
    apply (WF_own s _ t cur (upd_slot (slot_at s cur) (ver (slot_at s cur)) (linked (slot_at s cur)) SFree) I W I'); try reflexivity; auto.
    + intros t0 H. cbn in H. discriminate.
    + cne.
    + erewrite cst_set_eq by exact Hcl. rewrite Hp. reflexivity.
    + intros m H. erewrite cst_set_eq in H by exact Hcl. discriminate.
  - (* WANext *)
    cbn [cfg_fixed wa_adv wa_saved] in Hst. rewrite dec_enc in Hst.
    destruct todo as [|a r]; cbn [hd_error tl] in Hst; inversion Hst; subst s'; clear Hst; wf_simple s t I W I' Hcl Hp.
  - (* CKLock *)
    destruct (mtx s) eqn:Em; [discriminate|].
    cbn [cfg_fixed unlink_linked unlink_unlinked fix2_nested fix2_nonnull fix2_null] in Hst.
    assert (Hv : vis s = lst s) by (rewrite (vis_eq s (lst s) None); auto; apply app_nil_r).
    destruct (TD n) as [Hn Hg]; [cbn; auto|].
    assert (Hpl : forall p, In p (lst s) -> (p < length (nxt s))%nat).
    { intros p Hpin. rewrite (w_len _ W). apply (i_vis _ I). rewrite Hv. exact Hpin. }
    destruct (linked (slot_at s n)) eqn:El.
    + assert (Hin : In n (lst s)) by (rewrite <- Hv; eapply (w_lk _ W); eauto).
      destruct (fix_pred_fields (set_lst s (remove_nat n (lst s))) (lst s) n (nnext s n))
        as (F1 & F2 & F3 & F4 & F5 & F6 & F7 & F8 & F9 & F10).
      assert (Hfl : length (nxt (fix_pred (set_lst s (remove_nat n (lst s))) (lst s) n (nnext s n))) = length (nxt s)).
      { unfold fix_pred. destruct (pred_of (lst s) n); [|reflexivity]. unfold set_nnext. cbn. apply length_set_nth. }
      destruct (nnext s n =? 0) eqn:Enx; cbn [andb] in Hst.
      * inversion Hst; subst s'; clear Hst.
        apply (cklock_wf s t cl n _ I W Hcl Hp Em); auto. rewrite El. split; [exact F10|].
        intro x. apply nnext_fix_pred; auto.
      * apply Z.eqb_neq in Enx. destruct (next_in (nnext s) (lst s) n (w_next _ W) Hin Enx) as (m & Hm & Hmin).
        rewrite Hm in Hst. rewrite (memb_in _ _ Hmin) in Hst. inversion Hst; subst s'; clear Hst.
        assert (Hml : (m < nslots s)%nat) by (apply (i_vis _ I); rewrite Hv; exact Hmin).
        assert (Hs2 : slots (fix_next (fix_pred (set_lst s (remove_nat n (lst s))) (lst s) n (nnext s n)) m true true) = slots s).
        { unfold fix_next, put_slot. cbn [slots set_slots]. rewrite F1. unfold slot_at. rewrite F1.
          rewrite upd_slot_same by (apply (i_linked _ I); exact Hmin). apply set_nth_same. exact Hml. }
        apply (cklock_wf s t cl n _ I W Hcl Hp Em); auto. rewrite El. split; [exact F10|].
        intro x. change (nnext (fix_next ?a m true true) x) with (nnext a x). apply nnext_fix_pred; auto.
    + cbn [andb] in Hst. inversion Hst; subst s'; clear Hst.
      apply (cklock_wf s t cl n s I W Hcl Hp Em); auto. rewrite El. auto.
  - (* CKResume *)
    inversion Hst; subst s'; clear Hst. destruct (resume_node_fields s n) as (R1 & R2 & R3 & R4 & R5).
    apply (WF_own s _ t n (upd_slot (slot_at s n) (ver (slot_at s n)) (linked (slot_at s n)) (SFin t)) I W I'); try reflexivity; auto.
    + unfold mark, put_slot. cbn [slots set_client set_clients set_slots]. rewrite R1. unfold slot_at. rewrite R1. reflexivity.
    + intros t0 H. cbn in H. discriminate.
    + intros. etransitivity; [apply cst_set_ne; auto|]. apply cst_frame. exact R5.
    + erewrite cst_set_eq; [rewrite Hp; reflexivity|]. transitivity (nth_error (clients s) t); [f_equal; exact R5|exact Hcl].
    + intros m H. erewrite cst_set_eq in H; [discriminate|]. transitivity (nth_error (clients s) t); [f_equal; exact R5|exact Hcl].
  - (* CKFinish *)
    inversion Hst; subst s'; clear Hst.
    apply (WF_own s _ t n (upd_slot (slot_at s n) (ver (slot_at s n)) (linked (slot_at s n)) SFree) I W I'); try reflexivity; auto.
    + intros t0 H. cbn in H. discriminate.
    + cne.
    + erewrite cst_set_eq by exact Hcl. rewrite Hp. reflexivity.
    + intros m H. erewrite cst_set_eq in H by exact Hcl. discriminate.
Qed.

Lemma succs_cons_enc : forall n l, map enc (succs (n :: l)) = enc (hd_error l) :: map enc (succs l).
Proof. intros n [|b r]; [reflexivity|]. rewrite succs_cons2. reflexivity. Qed.

Lemma step_coro_wf : forall s i k s',
  Inv s -> WF s -> nth_error (coros s) i = Some k -> step_coro cfg_fixed s i k = Some s' -> WF s'.
Proof.
  intros s i k s' I W Hk Hst.
  pose proof (step_coro_inv s i k s' I Hk Hst) as I'.
  pose proof (kstat_of _ _ _ Hk) as Hks.
  pose proof (i_coro _ I i) as Ci. unfold coro_ok in Ci. rewrite Hks in Ci.
  unfold step_coro in Hst. destruct (kstv k) eqn:Ek.
  - destruct (nth_error (kprog k) j) as [w|] eqn:Ew.
    + unfold emplace in Hst. destruct (freel s) as [|n r] eqn:Ef; inversion Hst; subst s'; clear Hst.
      * (* new slot *)
        set (fresh := {| ver := nver s; nidv := nver s; nco := i; nwi := j; nex := kexec k; linked := false; sst := SEmp |}) in *.
        set (s' := set_coro _ i _) in *.
        assert (Hso : forall m, (m < nslots s)%nat -> slot_at s' m = slot_at s m).
        { intros m Hm. unfold slot_at, s'. cbn. apply app_nth1. exact Hm. }
        assert (Hsx : forall m, slot_at s' m = slot_at s m \/ slot_at s' m = fresh \/ slot_at s' m = dummy_slot).
        { intro m. destruct (Nat.lt_ge_cases m (nslots s)); [left; auto|]. destruct (Nat.eq_dec m (nslots s)) as [->|].
          - right; left. unfold slot_at, s', nslots. cbn. rewrite app_nth2 by lia. now rewrite Nat.sub_diag.
          - right; right. apply slot_at_oob. unfold nslots, s'. cbn. rewrite app_length. cbn. unfold nslots in *. lia. }
        assert (Hnn : forall x, nnext s' x = nnext s x).
        { intro x. unfold nnext, s'. cbn. destruct (Nat.lt_ge_cases x (length (nxt s))).
          - apply app_nth1. auto.
          - rewrite (nth_overflow (nxt s)) by auto. destruct (Nat.eq_dec x (length (nxt s))) as [->|].
            + rewrite app_nth2 by lia. now rewrite Nat.sub_diag.
            + apply nth_overflow. rewrite app_length. cbn. lia. }
        assert (Hv : vis s' = vis s) by (apply vis_frame; reflexivity).
        apply (WF_mono s s' I W I').
        -- unfold nslots, s'. cbn. rewrite !app_length. cbn. pose proof (w_len _ W). unfold nslots in *. lia.
        -- change (lst s') with (lst s). rewrite <- (w_next _ W). apply map_ext. exact Hnn.
        -- intros x t0 Hx Hl. destruct (Hsx x) as [e|[e|e]]; rewrite e in *; auto; discriminate.
        -- intros x t0 Hx. destruct (Hsx x) as [e|[e|e]]; rewrite e in *; eauto; discriminate.
        -- intros x t0 _ H. left. now rewrite Hv.
        -- intros t0 m Hm Hp0. left. split; [exact Hm|]. split; [exact Hp0|].
           intro Hl. destruct (Hsx m) as [e|[e|e]]; rewrite e in *; auto; discriminate.
      * (* reused slot *)
        set (fresh := {| ver := nver s; nidv := nver s; nco := i; nwi := j; nex := kexec k; linked := false; sst := SEmp |}) in *.
        set (s' := set_coro _ i _) in *.
        assert (Hnf : In n (freel s)) by (rewrite Ef; cbn; auto).
        destruct (i_free _ I n Hnf) as [Hn Hgn].
        assert (Hsx : forall m, slot_at s' m = if (Nat.eqb m n && (n <? nslots s)%nat)%bool then fresh else slot_at s m).
        { intro m. change (slot_at s' m) with (slot_at (put_slot s n fresh) m). apply slot_at_put. }
        assert (Hv : vis s' = vis s) by (apply vis_frame; reflexivity).
        assert (Hnl : ~ In n (lst s)).
        { intro Hx. assert (In n (vis s)) by (unfold vis; apply in_app_iff; auto). destruct (i_vis _ I n H) as [_ [V|[t0 V]]]; congruence. }
        apply (WF_mono s s' I W I').
        -- unfold nslots, s', set_nnext, put_slot. cbn. rewrite !length_set_nth. apply (w_len _ W).
        -- change (lst s') with (lst s). rewrite <- (w_next _ W). apply map_ext_in. intros x Hx.
           change (nnext s' x) with (nnext (set_nnext (put_slot s n fresh) n 0) x). rewrite nnext_set_ne by (intro; subst; contradiction). reflexivity.
        -- intros x t0 Hx Hl. rewrite Hsx in Hx, Hl. destruct (Nat.eqb x n && (n <? nslots s)%nat)%bool; auto. discriminate.
        -- intros x t0 Hx. rewrite Hsx in Hx. destruct (Nat.eqb x n && (n <? nslots s)%nat)%bool; eauto. discriminate.
        -- intros x t0 _ H. left. now rewrite Hv.
        -- intros t0 m Hm Hp0. left. split; [exact Hm|]. split; [exact Hp0|].
           intro Hl. rewrite Hsx in Hl. destruct (Nat.eqb m n && (n <? nslots s)%nat)%bool; auto. discriminate.
    + inversion Hst; subst s'; clear Hst.
      apply (WF_simple s _ 0%nat I W I'); try reflexivity; auto.
  - (* KLock j n *)
    destruct Ci as (Hn & Hgn & Hco & Hwi).
    cbn [cfg_fixed cmp_locked] in Hst.
    destruct (mtx s) eqn:Em; [discriminate|]. destruct (nth_error (kprog k) j) as [[x tok]|] eqn:Ew; [|discriminate].
    unfold enq_ok in Hst. cbn [cfg_fixed add_when add_rejects] in Hst.
    assert (Hvs : vis s = lst s) by (rewrite (vis_eq s (lst s) None); auto; apply app_nil_r).
    assert (Hnl : ~ In n (lst s)).
    { intro Hx. rewrite <- Hvs in Hx. destruct (i_vis _ I n Hx) as [_ [V|[t0 V]]]; congruence. }
    destruct (x =? fv s) eqn:Ex; [rewrite (finish_add_fixed_ok _ _ _ _ _ _ _ Ex) in Hst | rewrite finish_add_fixed_fail in Hst];
      inversion Hst; subst s'; clear Hst.
    + set (sl' := upd_slot (slot_at s n) (ver (slot_at s n)) true SQueued) in *.
      set (s' := set_coro _ i _) in *.
      assert (Hsx : forall m, slot_at s' m = if (Nat.eqb m n && (n <? nslots s)%nat)%bool then sl' else slot_at s m).
      { intro m. unfold s'. destruct tok; change (slot_at (set_coro ?a i ?c) m) with (slot_at (put_slot s n sl') m); apply slot_at_put. }
      assert (Hl' : lst s' = n :: lst s) by (unfold s'; destruct tok; reflexivity).
      assert (Hm' : mtx s' = None) by (unfold s'; destruct tok; exact Em).
      assert (Hnx' : nxt s' = set_nth n (enc (hd_error (lst s))) (nxt s)) by (unfold s'; destruct tok; reflexivity).
      assert (Hcl' : clients s' = clients s) by (unfold s'; destruct tok; reflexivity).
      apply (WF_mono s s' I W I').
      * rewrite Hnx', length_set_nth. unfold nslots, s'. destruct tok; cbn; rewrite length_set_nth; apply (w_len _ W).
      * rewrite Hl'. rewrite succs_cons_enc. cbn [map]. f_equal.
        -- unfold nnext. rewrite Hnx'. apply nth_set_nth_eq. rewrite (w_len _ W). exact Hn.
        -- rewrite <- (w_next _ W). apply map_ext_in. intros y Hy. unfold nnext. rewrite Hnx'. apply nth_set_nth_ne.
           intro; subst; contradiction.
      * intros y t0 Hy Hl. rewrite Hsx in Hy, Hl. destruct (Nat.eqb y n && (n <? nslots s)%nat)%bool; auto. discriminate.
      * intros y t0 Hy. rewrite Hsx in Hy. destruct (Nat.eqb y n && (n <? nslots s)%nat)%bool; eauto. discriminate.
      * intros y t0 _ H. left. rewrite (vis_eq s' (n :: lst s) None); auto. rewrite app_nil_r. rewrite Hvs in H. cbn; auto.
      * intros t0 m Hm. congruence.
    + set (s' := set_coro _ i _) in *.
      set (sl' := upd_slot (slot_at s n) (ver (slot_at s n) + 1) (linked (slot_at s n)) SFree).
      assert (Hsl2 : slots s' = set_nth n sl' (slots s)).
      { unfold s', release, take, put_slot. cbn [slots set_coro set_coros set_freel set_slots].
        rewrite set_nth_set_nth. f_equal.
        change (slot_at (set_slots s ?l) n) with (nth n l dummy_slot). rewrite nth_set_nth_eq by exact Hn. reflexivity. }
      assert (Hv : vis s' = vis s) by (apply vis_frame; reflexivity).
      apply (WF_put s s' n sl' I W I'); try reflexivity; auto.
      * intros t0 H. cbn in H. discriminate.
      * change (lst s') with (lst s). apply (w_next _ W).
  - destruct Ci.
  - discriminate.
  - inversion Hst; subst s'; clear Hst.
    apply (WF_simple s _ 0%nat I W I'); try reflexivity; auto.
  - discriminate.
Qed.

Lemma WF_init : forall v0 cps kps, WF (init v0 cps kps).
Proof.
  intros. constructor; cbn.
  - reflexivity.
  - reflexivity.
  - intros n t Hn. unfold nslots in Hn. cbn in Hn. lia.
  - intros t n H. discriminate.
Qed.

Theorem step_inv2 : forall s t s', Inv s /\ WF s -> step cfg_fixed s t = Some s' -> Inv s' /\ WF s'.
Proof.
  intros s t s' [I W] H. split; [eapply step_inv; eauto|]. unfold step in H. destruct (t <? length (clients s))%nat.
  - destruct (nth_error (clients s) t) eqn:E; [|discriminate]. eapply step_client_wf; eauto.
  - destruct (nth_error (coros s) (t - length (clients s))) eqn:E; [|discriminate]. eapply step_coro_wf; eauto.
Qed.

Theorem reachable_inv2 : forall v0 cps kps s, reachable st (step cfg_fixed) (init v0 cps kps) s -> Inv s /\ WF s.
Proof.
  intros v0 cps kps s H. eapply (inv_reachable st (step cfg_fixed) (fun s => Inv s /\ WF s)); eauto.
  - split; [apply Inv_init | apply WF_init].
  - intros. eapply step_inv2; eauto.
Qed.
Theorem reachable_inv : forall v0 cps kps s, reachable st (step cfg_fixed) (init v0 cps kps) s -> Inv s.
Proof. intros. eapply reachable_inv2; eauto. Qed.
(* ------------------------------------------------------------------ consequences of the invariant *)
Definition owned_pc (p : cpc) : list nat := held_pc p ++ fin_pc p ++ can_pc p.

Lemma inv_one_owner : forall s t1 t2 n, Inv s -> In n (owned_pc (cst s t1)) -> In n (owned_pc (cst s t2)) -> t1 = t2.
Proof.
  intros s t1 t2 n I H1 H2. unfold owned_pc in *.
  destruct (i_thread _ I t1) as (_ & B1 & C1 & D1 & _). destruct (i_thread _ I t2) as (_ & B2 & C2 & D2 & _).
  rewrite !in_app_iff in H1, H2.
  destruct H1 as [H1|[H1|H1]]; [destruct (B1 n H1) as [_ E1] | destruct (C1 n H1) as [_ E1] | destruct (D1 n H1) as [_ E1]];
  (destruct H2 as [H2|[H2|H2]]; [destruct (B2 n H2) as [_ E2] | destruct (C2 n H2) as [_ E2] | destruct (D2 n H2) as [_ E2]]);
  congruence.
Qed.

Lemma inv_held_suspended : forall s t n, Inv s -> In n (held_pc (cst s t)) ->
  kstat s (nco (slot_at s n)) = KSusp (nwi (slot_at s n)) n /\ nex (slot_at s n) = kex s (nco (slot_at s n)).
Proof.
  intros s t n I H. destruct (i_thread _ I t) as (_ & B & _). destruct (B n H) as [Hn Hg].
  pose proof (i_slot _ I n Hn) as S. unfold slot_ok in S. rewrite Hg in S. tauto.
Qed.

Lemma forallb_nth : forall A (f : A -> bool) l n x, forallb f l = true -> nth_error l n = Some x -> f x = true.
Proof. intros A f l n x H E. rewrite forallb_forall in H. apply H. eapply nth_error_In; eauto. Qed.

Lemma quiescent_spec : forall s, quiescent s = true ->
  (forall t, cst s t = CIdle) /\ (forall i, (exists j n, kstat s i = KSusp j n) \/ kstat s i = KDone) /\ mtx s = None.
Proof.
  intros s H. unfold quiescent in H. apply andb_prop in H. destruct H as [H H3]. apply andb_prop in H. destruct H as [H1 H2].
  split; [|split].
  - intro t. unfold cst. destruct (nth_error (clients s) t) eqn:E; auto.
    pose proof (forallb_nth _ _ _ _ _ H1 E) as F. unfold client_idle in F. destruct (cpcv c); auto; discriminate.
  - intro i. unfold kstat. destruct (nth_error (coros s) i) eqn:E; auto.
    pose proof (forallb_nth _ _ _ _ _ H2 E) as F. unfold coro_quiet in F. destruct (kstv c); try discriminate; eauto.
  - destruct (mtx s); auto; discriminate.
Qed.

(* nothing in flight: every slot is free or is the node of a queued, untaken waiter whose coroutine is suspended on
   it; every suspended coroutine has such a node in the list (so the next wake reaches it) *)
Lemma inv_quiescent : forall s, Inv s -> quiescent s = true ->
  (forall n, (n < nslots s)%nat ->
     In n (freel s) \/
     (In n (lst s) /\ take_ok s n (nidv (slot_at s n)) = true /\
      kstat s (nco (slot_at s n)) = KSusp (nwi (slot_at s n)) n)) /\
  (forall i j n, kstat s i = KSusp j n ->
     In n (lst s) /\ take_ok s n (nidv (slot_at s n)) = true /\ nco (slot_at s n) = i /\ nwi (slot_at s n) = j).
Proof.
  intros s I Q. destruct (quiescent_spec s Q) as (Qc & Qk & Qm).
  assert (Hv : vis s = lst s) by (rewrite (vis_eq s (lst s) None); auto; apply app_nil_r).
  assert (Hslot : forall n, (n < nslots s)%nat -> sst (slot_at s n) = SFree \/ sst (slot_at s n) = SQueued).
  { intros n Hn. pose proof (i_slot _ I n Hn) as S. unfold slot_ok in S. destruct S as (_ & _ & S).
    destruct (sst (slot_at s n)) as [| | |t|t|t] eqn:E; auto; exfalso.
    - destruct S as [S _]. destruct (Qk (nco (slot_at s n))) as [(j & m & K)|K]; congruence.
    - destruct S as [S _]. rewrite Qc in S. discriminate.
    - destruct S as [S _]. rewrite Qc in S. destruct S.
    - destruct S as [S _]. rewrite Qc in S. destruct S. }
  assert (Hq : forall n, (n < nslots s)%nat -> sst (slot_at s n) = SQueued ->
            In n (lst s) /\ take_ok s n (nidv (slot_at s n)) = true /\
            kstat s (nco (slot_at s n)) = KSusp (nwi (slot_at s n)) n).
  { intros n Hn E. pose proof (i_slot _ I n Hn) as S. unfold slot_ok in S. rewrite E in S.
    destruct S as (_ & _ & S1 & S2 & S3). rewrite Hv in S3. repeat split; auto. apply take_ok_spec. auto. }
  split.
  - intros n Hn. destruct (Hslot n Hn) as [E|E].
    + left. pose proof (i_slot _ I n Hn) as S. unfold slot_ok in S. rewrite E in S. tauto.
    + right. auto.
  - intros i j n K. pose proof (i_coro _ I i) as C. unfold coro_ok in C. rewrite K in C. destruct C as (Hn & C1 & C2 & C3).
    destruct (Hslot n Hn) as [E|E].
    + exfalso. destruct C3 as [C3|[t [C3|C3]]]; congruence.
    + destruct (Hq n Hn E) as (A & B & _). auto.
Qed.

(* a node a waker fails to take is owned by a canceller that has not unlinked it yet *)
Lemma inv_failed_take : forall s t n, Inv s ->
  (cst s t = W1Take n \/ exists r taken, cst s t = WATake (n :: r) taken) ->
  take_ok s n (nidv (slot_at s n)) = false -> exists t', cst s t' = CKLock n.
Proof.
  intros s t n I Hp Ht.
  assert (Hin : In n (vis s)).
  { destruct (i_thread _ I t) as (_ & _ & _ & _ & E). unfold vis.
    destruct Hp as [Hp|(r & tk & Hp)]; rewrite Hp in E; rewrite E by discriminate; rewrite Hp; apply in_app_iff; cbn; auto. }
  destruct (i_vis _ I n Hin) as [Hn [Hq|[t' Hc]]].
  - exfalso. pose proof (i_slot _ I n Hn) as S. unfold slot_ok in S. rewrite Hq in S. destruct S as (_ & _ & _ & S & _).
    assert (take_ok s n (nidv (slot_at s n)) = true) by (apply take_ok_spec; auto). congruence.
  - exists t'. pose proof (i_slot _ I n Hn) as S. unfold slot_ok in S. rewrite Hc in S. tauto.
Qed.

(* ------------------------------------------------------------------ step-level facts of the repaired code *)
(* a step of wake_one that ends the call with result 0 leaves an empty waiter list *)
Lemma wake_one_zero_list_empty : forall s t cl s' cl',
  nth_error (clients s) t = Some cl -> step_client cfg_fixed s t cl = Some s' ->
  ((cpcv cl = CIdle /\ nth_error (cprog cl) (copi cl) = Some OWake1) \/ exists n, cpcv cl = W1Take n) ->
  nth_error (clients s') t = Some cl' -> cres cl' = cres cl ++ [RW1 0] -> lst s' = [].
Proof.
  intros s t cl s' cl' Hcl Hst Hpc Hcl' Hres.
  assert (Hlen : (t < length (clients s))%nat) by (apply nth_error_Some; congruence).
  assert (Hget : forall X c, clients X = clients s -> nth_error (clients (set_client X t c)) t = Some c).
  { intros X c HX. unfold set_client. cbn. rewrite HX. apply nth_error_set_nth_eq. exact Hlen. }
  assert (Hnil : forall (a : list res) x, a = a ++ [x] -> False).
  { intros a x H. apply (f_equal (@length res)) in H. rewrite app_length in H. cbn in H. lia. }
  unfold step_client in Hst. destruct Hpc as [[Epc Eop]|[n Epc]]; rewrite Epc in Hst.
  - rewrite Eop in Hst. destruct (mtx s); [discriminate|]. inversion Hst; subst s'; clear Hst. unfold w1_pop in *.
    destruct (lst s) as [|n r] eqn:El.
    + cbn. exact El.
    + exfalso. rewrite Hget in Hcl' by reflexivity. inversion Hcl'; subst cl'. cbn in Hres. eauto.
  - destruct (take_ok s n (nidv (slot_at s n))); cbn [cfg_fixed w1_stop_ok w1_stop_fail w1_adv] in Hst.
    + exfalso. inversion Hst; subst s'; clear Hst. rewrite Hget in Hcl' by reflexivity. inversion Hcl'; subst cl'. cbn in Hres. eauto.
    + unfold w1_pop in Hst. destruct (lst s) as [|m r] eqn:El.
      * assert (lst s' = lst s); [|congruence]. destruct (negb (enc (hd_error []) =? 0)); inversion Hst; reflexivity.
      * exfalso. cbn [hd_error] in Hst. rewrite enc_some_nz in Hst. cbn [negb] in Hst. inversion Hst; subst s'; clear Hst.
        rewrite Hget in Hcl' by reflexivity. inversion Hcl'; subst cl'. cbn in Hres. eauto.
Qed.

(* wake_all detaches the whole list under the mutex *)
Lemma wake_all_detaches : forall s t cl s',
  step_client cfg_fixed s t cl = Some s' -> cpcv cl = CIdle -> nth_error (cprog cl) (copi cl) = Some OWakeAll -> lst s' = [].
Proof.
  intros s t cl s' Hst Epc Eop. unfold step_client in Hst. rewrite Epc, Eop in Hst. destruct (mtx s); [discriminate|].
  destruct (lst s) eqn:El; inversion Hst; subst s'; cbn; auto.
Qed.

(* a wait whose value does not match neither suspends nor keeps its slot *)
Lemma nonmatching_wait : forall s i k j n x tok s',
  kstv k = KLock j n -> nth_error (kprog k) j = Some (x, tok) -> x <> fv s -> (n < nslots s)%nat ->
  step_coro cfg_fixed s i k = Some s' ->
  s' = set_coro (release (take s n SFree) n) i (set_kst k (KReady (S j))) /\ In n (freel s') /\
  lst s' = lst s /\ tokens s' = tokens s.
Proof.
  intros s i k j n x tok s' Ek Ew Hx Hn Hst. unfold step_coro in Hst. rewrite Ek in Hst.
  cbn [cfg_fixed cmp_locked] in Hst.
  destruct (mtx s); [discriminate|]. rewrite Ew in Hst. unfold enq_ok in Hst. cbn [cfg_fixed add_when add_rejects] in Hst.
  destruct (Z.eqb_spec x (fv s)); [contradiction|]. rewrite finish_add_fixed_fail in Hst.
  inversion Hst; subst s'. split; auto. cbn. auto.
Qed.


(* the value check and the enqueue are one step (FUTEX(2)-like atomicity): a coroutine that reaches add_awaiter either is
   queued and suspended in that very step with the word equal to its expected value, or goes on without suspending *)
Lemma suspend_atomic : forall s i k j n x tok s',
  nth_error (coros s) i = Some k -> kstv k = KLock j n -> nth_error (kprog k) j = Some (x, tok) ->
  step_coro cfg_fixed s i k = Some s' ->
  (x = fv s /\ lst s' = n :: lst s /\ kstat s' i = KSusp j n) \/
  (x <> fv s /\ lst s' = lst s /\ kstat s' i = KReady (S j)).
Proof.
  intros s i k j n x tok s' Hk Ek Ew Hst. unfold step_coro in Hst. rewrite Ek in Hst. cbn [cfg_fixed cmp_locked] in Hst.
  destruct (mtx s); [discriminate|]. rewrite Ew in Hst. unfold enq_ok in Hst. cbn [cfg_fixed add_when add_rejects] in Hst.
  destruct (Z.eqb_spec x (fv s)) as [e|e].
  - rewrite finish_add_fixed_ok in Hst by (apply Z.eqb_eq; exact e). inversion Hst; subst s'. left. split; auto. split.
    + destruct tok; reflexivity.
    + apply kstat_set_eq. destruct tok; exact Hk.
  - rewrite finish_add_fixed_fail in Hst. inversion Hst; subst s'. right. split; auto. split; [reflexivity|].
    apply kstat_set_eq. exact Hk.
Qed.

(* ------------------------------------------------------------------ BasicCancellable: resume(id) vs cancel(id) *)
Lemma ccall_stale : forall idv b w, cver b <> idv -> ccall idv b w = b.
Proof. intros. unfold ccall. destruct (Z.eqb_spec (cver b) idv); congruence. Qed.
Lemma crun_cons : forall idv w calls,
  crun idv (w :: calls) =
  {| cver := idv + 1; ccanceled := match w with CCancel => true | CResume => false end; cresumed := 1; cwins := [w] |}.
Proof.
  intros. unfold crun. cbn [fold_left]. unfold ccall at 2. cbn. rewrite Z.eqb_refl.
  set (b := {| cver := idv + 1; ccanceled := _; cresumed := 1; cwins := [w] |}).
  assert (forall l, fold_left (ccall idv) l b = b).
  { induction l as [|a l IH]; cbn; auto. rewrite ccall_stale; auto. cbn. lia. }
  rewrite H. unfold b. destruct w; reflexivity.
Qed.
(* whatever the number and order of cancel / resume calls on one id: the awaiter is resumed exactly once (by the
   first caller), and its result is the empty optional iff that first caller was a cancel *)
Lemma cancellable_race : forall idv w calls,
  cresumed (crun idv (w :: calls)) = 1%nat /\ cwins (crun idv (w :: calls)) = [w] /\
  (cresult_empty (crun idv (w :: calls)) = true <-> w = CCancel).
Proof.
  intros. rewrite crun_cons. cbn. repeat split; auto; destruct w; auto; discriminate.
Qed.
Lemma cancellable_no_call : forall idv, cresumed (crun idv []) = 0%nat.
Proof. reflexivity. Qed.

(* ------------------------------------------------------------------ final statements (code as regenerated) *)
Definition Reach (v0 : Z) (cps : list (list op)) (kps : list (nat * list (Z * bool))) (s : st) : Prop :=
  reachable st (step gen_cfg) (init v0 cps kps) s.

Lemma reach_inv : forall v0 cps kps s, Reach v0 cps kps s -> Inv s.
Proof. unfold Reach. rewrite gen_cfg_fixed. apply reachable_inv. Qed.

Lemma inv_watake : forall s t pend taken n, Inv s -> cst s t = WATake pend taken -> In n pend ->
  (n < nslots s)%nat /\ ((sst (slot_at s n) = SQueued /\ take_ok s n (nidv (slot_at s n)) = true) \/ exists t', cst s t' = CKLock n).
Proof.
  intros s t pend taken n I Hp Hin.
  assert (Hv : In n (vis s)).
  { destruct (i_thread _ I t) as (_ & _ & _ & _ & E). rewrite Hp in E. unfold vis. rewrite E; [|destruct pend; [destruct Hin|discriminate]].
    rewrite Hp. apply in_app_iff. auto. }
  destruct (i_vis _ I n Hv) as [Hn [Hq|[t' Hc]]]; split; auto.
  - left. split; auto. pose proof (i_slot _ I n Hn) as S. unfold slot_ok in S. rewrite Hq in S. apply take_ok_spec. tauto.
  - right. exists t'. pose proof (i_slot _ I n Hn) as S. unfold slot_ok in S. rewrite Hc in S. tauto.
Qed.

Theorem t_resume_once : forall v0 cps kps s, Reach v0 cps kps s -> bad s = 0%nat /\ NoDup (map fst (rlog s)).
Proof. intros. pose proof (reach_inv _ _ _ _ H) as I. split; [apply (i_bad _ I) | apply (i_log_nodup _ I)]. Qed.

Theorem t_resumer_owns : forall v0 cps kps s t n, Reach v0 cps kps s -> In n (held_pc (cst s t)) ->
  kstat s (nco (slot_at s n)) = KSusp (nwi (slot_at s n)) n /\ (forall t', In n (owned_pc (cst s t')) -> t' = t).
Proof.
  intros. pose proof (reach_inv _ _ _ _ H) as I. split; [apply (inv_held_suspended s t n I H0)|].
  intros t' H'. eapply inv_one_owner; eauto. unfold owned_pc. apply in_app_iff. auto.
Qed.

Theorem t_on_executor : forall v0 cps kps s i j e, Reach v0 cps kps s -> In (i, j, e) (rlog s) -> e = kex s i.
Proof. intros. pose proof (reach_inv _ _ _ _ H) as I. destruct (i_log _ I _ H0) as [L _]. exact L. Qed.

Theorem t_quiescent : forall v0 cps kps s, Reach v0 cps kps s -> quiescent s = true ->
  (forall n, (n < nslots s)%nat ->
     In n (freel s) \/
     (In n (lst s) /\ take_ok s n (nidv (slot_at s n)) = true /\
      kstat s (nco (slot_at s n)) = KSusp (nwi (slot_at s n)) n)) /\
  (forall i j n, kstat s i = KSusp j n ->
     In n (lst s) /\ take_ok s n (nidv (slot_at s n)) = true /\ nco (slot_at s n) = i /\ nwi (slot_at s n) = j).
Proof. intros. apply inv_quiescent; auto. eapply reach_inv; eauto. Qed.

Theorem t_wake_one_zero : forall s t cl s' cl',
  nth_error (clients s) t = Some cl -> step_client gen_cfg s t cl = Some s' ->
  ((cpcv cl = CIdle /\ nth_error (cprog cl) (copi cl) = Some OWake1) \/ exists n, cpcv cl = W1Take n) ->
  nth_error (clients s') t = Some cl' -> cres cl' = cres cl ++ [RW1 0] -> lst s' = [].
Proof. rewrite gen_cfg_fixed. exact wake_one_zero_list_empty. Qed.

Theorem t_failed_take : forall v0 cps kps s t n, Reach v0 cps kps s ->
  (cst s t = W1Take n \/ exists r taken, cst s t = WATake (n :: r) taken) ->
  take_ok s n (nidv (slot_at s n)) = false -> exists t', cst s t' = CKLock n.
Proof. intros. eapply inv_failed_take; eauto. eapply reach_inv; eauto. Qed.

Theorem t_wake_all : forall v0 cps kps,
  (forall s t cl s', step_client gen_cfg s t cl = Some s' -> cpcv cl = CIdle ->
     nth_error (cprog cl) (copi cl) = Some OWakeAll -> lst s' = []) /\
  (forall s t pend taken n, Reach v0 cps kps s -> cst s t = WATake pend taken ->
     (In n pend -> (n < nslots s)%nat /\
        ((sst (slot_at s n) = SQueued /\ take_ok s n (nidv (slot_at s n)) = true) \/ exists t', cst s t' = CKLock n)) /\
     (In n taken -> kstat s (nco (slot_at s n)) = KSusp (nwi (slot_at s n)) n)).
Proof.
  intros. split.
  - rewrite gen_cfg_fixed. exact wake_all_detaches.
  - intros s t pend taken n R Hp. pose proof (reach_inv _ _ _ _ R) as I. split.
    + intro Hin. eapply inv_watake; eauto.
    + intro Hin. apply (inv_held_suspended s t n I). rewrite Hp. exact Hin.
Qed.

Theorem t_nonmatching : forall s i k j n x tok s',
  kstv k = KLock j n -> nth_error (kprog k) j = Some (x, tok) -> x <> fv s -> (n < nslots s)%nat ->
  step_coro gen_cfg s i k = Some s' ->
  s' = set_coro (release (take s n SFree) n) i (set_kst k (KReady (S j))) /\ In n (freel s') /\
  lst s' = lst s /\ tokens s' = tokens s.
Proof. rewrite gen_cfg_fixed. exact nonmatching_wait. Qed.

Theorem t_suspend_atomic : forall s i k j n x tok s',
  nth_error (coros s) i = Some k -> kstv k = KLock j n -> nth_error (kprog k) j = Some (x, tok) ->
  step_coro gen_cfg s i k = Some s' ->
  (x = fv s /\ lst s' = n :: lst s /\ kstat s' i = KSusp j n) \/
  (x <> fv s /\ lst s' = lst s /\ kstat s' i = KReady (S j)).
Proof. rewrite gen_cfg_fixed. exact suspend_atomic. Qed.

(* a model of add_awaiter that compares the word before taking the mutex (seeded change C13d) loses a wakeup *)
Definition cfg_cmp_unlocked : cfg :=
  {| w1_adv := fun _ hn => hn; w1_stop_ok := true; w1_stop_fail := false; wa_adv := fun _ ns => ns; wa_saved := fun x => x;
     rel_fail := true; rel_succ := false; cb_tok := true; cb_notok := false;
     add_when := fun e v => negb (Z.eqb e v); add_rejects := true; cmp_locked := false;
     unlink_linked := true; unlink_unlinked := false; fix2_nested := true; fix2_nonnull := true; fix2_null := false |}.
Lemma unlocked_compare_lost_wakeup : exists sch,
  let s := run st (step cfg_cmp_unlocked) (init 0 [[OSetV 1; OWakeAll]] [(0%nat, [(0, false)])]) sch in
  quiescent s = true /\ map cres (clients s) = [[RV; RWA 0]] /\ map kstv (coros s) = [KSusp 0 0] /\ fv s = 1 /\ bad s = 1%nat.
Proof. exists [1; 1; 0; 0; 1]%nat. vm_compute. auto. Qed.

Lemma reach_wf : forall v0 cps kps s, Reach v0 cps kps s -> WF s.
Proof. unfold Reach. rewrite gen_cfg_fixed. intros. eapply reachable_inv2; eauto. Qed.

(* the waiter list is a well-formed doubly linked list of waiters of this futex, in every reachable state: no node
   twice (acyclic), every member has prev set and next = its successor (nullptr for the last), is the node of a
   coroutine suspended on it, and is untaken or owned by a canceller that has not unlinked it yet.  In particular
   remove_awaiter only ever writes link fields of members of the list ([bad] = 0, t_resume_once) *)
Theorem t_list_wellformed : forall v0 cps kps s, Reach v0 cps kps s ->
  NoDup (lst s) /\
  map (nnext s) (lst s) = map enc (succs (lst s)) /\
  (forall n, In n (lst s) ->
     (n < nslots s)%nat /\ linked (slot_at s n) = true /\
     kstat s (nco (slot_at s n)) = KSusp (nwi (slot_at s n)) n /\
     (take_ok s n (nidv (slot_at s n)) = true \/ exists t, cst s t = CKLock n)).
Proof.
  intros v0 cps kps s R. pose proof (reach_inv _ _ _ _ R) as I. pose proof (reach_wf _ _ _ _ R) as W.
  split; [|split].
  - pose proof (i_vis_nodup _ I) as H. unfold vis in H. eapply NoDup_app_l; eauto.
  - apply (w_next _ W).
  - intros n Hin. assert (Hv : In n (vis s)) by (unfold vis; apply in_app_iff; auto).
    destruct (i_vis _ I n Hv) as [Hn Hs]. split; auto. split; [apply (i_linked _ I); auto|].
    pose proof (i_slot _ I n Hn) as S. unfold slot_ok in S. destruct Hs as [Hq|[t Hc]].
    + rewrite Hq in S. destruct S as (_ & _ & S1 & S2 & _). split; auto. left. apply take_ok_spec. auto.
    + rewrite Hc in S. destruct S as (_ & _ & S1 & S2 & _). split; auto. right. eauto.
Qed.

(* remove_awaiter with the next->prev fix-up outside the `if (node->prev)` block (seeded change C13e): a canceller whose
   node wake_all detached writes into the node wake_all took and released *)
Definition cfg_fix2_unnested : cfg :=
  {| w1_adv := fun _ hn => hn; w1_stop_ok := true; w1_stop_fail := false; wa_adv := fun _ ns => ns; wa_saved := fun x => x;
     rel_fail := true; rel_succ := false; cb_tok := true; cb_notok := false;
     add_when := Z.eqb; add_rejects := false; cmp_locked := true;
     unlink_linked := true; unlink_unlinked := false; fix2_nested := false; fix2_nonnull := true; fix2_null := false |}.
Lemma unnested_fixup_stray_write : exists sch,
  let s := run st (step cfg_fix2_unnested)
               (init 1 [[OWaitTok 2; OCancel 1 0]; [OWaitTok 2; OWakeAll]] [(0%nat, [(1, true)]); (0%nat, [(1, true)])]) sch in
  bad s = 1%nat /\ lst s = [] /\ map cpcv (clients s) = [CKResume 1; WAResume 0 [] 0].
Proof. exists [2; 2; 3; 3; 0; 0; 1; 1; 1; 1; 0]%nat. vm_compute. auto. Qed.

(* regression witnesses: the code before the three repairs (cfg_asis) *)
Lemma asis_leak : exists sch,
  let s := run st (step cfg_asis) (init 1 [] [(0%nat, [(0, false)])]) sch in
  quiescent s = true /\ map kstv (coros s) = [KDone] /\ in_use s = 1%nat /\ lst s = [].
Proof. exists [0; 0; 0]%nat. vm_compute. auto. Qed.
Lemma asis_wake_one : exists sch,
  let s := run st (step cfg_asis) (init 1 [[OCancel 1 0]; [OWake1]] [(0%nat, [(1, true)]); (0%nat, [(1, true)])]) sch in
  map cres (clients s) = [[]; [RW1 0]] /\ lst s = [0%nat] /\ take_ok s 0 (nidv (slot_at s 0)) = true.
Proof. exists [2; 2; 3; 3; 0; 1; 1]%nat. vm_compute. auto. Qed.
Lemma asis_wake_all : exists sch,
  let s := run st (step cfg_asis) (init 1 [[OWakeAll]] [(0%nat, [(1, false)]); (0%nat, [(1, false); (1, false)])]) sch in
  quiescent s = true /\ map cres (clients s) = [[RWA 1]] /\ map kstv (coros s) = [KSusp 0 0; KSusp 1 1] /\ lst s = [1%nat].
Proof. exists [1; 1; 2; 2; 0; 0; 0; 0; 0; 2; 2; 2; 0]%nat. vm_compute. auto. Qed.
