(* Proofs about CO/COModel.v: one ownership invariant of the waiter list / deposit box / coroutine states, preserved by
   every step of the repaired code (cfg_fixed = what the translator regenerates, see gen_cfg_fixed), and its
   consequences. *)
From Coq Require Import ZArith List Bool Arith Lia.
Require Import Verif.Conc.Machine Verif.Gen.Gen_coroutine Verif.CO.COModel.
Import ListNotations.
Local Open Scope Z_scope.

(* the regenerated code paths are the repaired ones; an edit of the loops / branches re-opens this *)
Lemma gen_cfg_fixed : gen_cfg = cfg_fixed.
Proof. reflexivity. Qed.

(* ------------------------------------------------------------------ lists *)
Lemma nth_error_set_nth_eq : forall A (l : list A) n x, (n < length l)%nat -> nth_error (set_nth n x l) n = Some x.
Proof. induction l as [|y l IH]; intros [|n] x H; cbn in *; try lia; auto. apply IH. lia. Qed.
Lemma nth_error_set_nth_ne : forall A (l : list A) n m x, n <> m -> nth_error (set_nth n x l) m = nth_error l m.
Proof. induction l as [|y l IH]; intros [|n] [|m] x H; cbn; auto; try congruence. Qed.
Lemma length_set_nth : forall A (l : list A) n x, length (set_nth n x l) = length l.
Proof. induction l as [|y l IH]; intros [|n] x; cbn; auto. Qed.
Lemma nth_set_nth_eq : forall A (l : list A) n x d, (n < length l)%nat -> nth n (set_nth n x l) d = x.
Proof. induction l as [|y l IH]; intros [|n] x d H; cbn in *; try lia; auto. apply IH. lia. Qed.
Lemma nth_set_nth_ne : forall A (l : list A) n m x d, n <> m -> nth m (set_nth n x l) d = nth m l d.
Proof. induction l as [|y l IH]; intros [|n] [|m] x d H; cbn; auto; try congruence. Qed.
Lemma remove_nat_not_in : forall n l, ~ In n (remove_nat n l).
Proof. induction l as [|x l IH]; cbn; auto. destruct (Nat.eqb x n) eqn:E; auto. cbn. intros [H|H]; auto. subst. rewrite Nat.eqb_refl in E. discriminate. Qed.
Lemma remove_nat_in : forall n m l, In m (remove_nat n l) -> In m l.
Proof. induction l as [|x l IH]; cbn; auto. destruct (Nat.eqb x n); cbn; intuition. Qed.
Lemma remove_nat_keep : forall n m l, In m l -> m <> n -> In m (remove_nat n l).
Proof. induction l as [|x l IH]; cbn; auto. intros [H|H] Hn; destruct (Nat.eqb x n) eqn:E; cbn; auto.
  subst. apply Nat.eqb_eq in E. congruence. Qed.
Lemma remove_nat_nodup : forall n l, NoDup l -> NoDup (remove_nat n l).
Proof. induction 1; cbn; [constructor|]. destruct (Nat.eqb x n); auto. constructor; auto. intro. apply H. eapply remove_nat_in; eauto. Qed.

(* ------------------------------------------------------------------ views of the state *)
Definition cst (s : st) (t : nat) : cpc := match nth_error (clients s) t with Some c => cpcv c | None => CIdle end.
Definition kstat (s : st) (i : nat) : kst := match nth_error (coros s) i with Some k => kstv k | None => KDone end.
Definition kex (s : st) (i : nat) : nat := match nth_error (coros s) i with Some k => kexec k | None => 0%nat end.
Definition nslots (s : st) : nat := length (slots s).

Definition chain_pc (p : cpc) : list nat := match p with W1Take n => [n] | WATake pend _ => pend | _ => [] end.
Definition held_pc (p : cpc) : list nat :=
  match p with
  | W1Resume n | CKResume n => [n]
  | WATake _ taken => taken
  | WAResume cur todo _ => cur :: todo
  | WAFinish _ todo _ | WANext _ todo _ => todo
  | _ => []
  end.
Definition fin_pc (p : cpc) : list nat :=
  match p with W1Finish n | CKFinish n => [n] | WAFinish cur _ _ => [cur] | _ => [] end.
Definition can_pc (p : cpc) : list nat := match p with CKLock n => [n] | _ => [] end.
Definition vis (s : st) : list nat := lst s ++ match mtx s with Some t => chain_pc (cst s t) | None => [] end.

Definition passed (k : kst) (j : nat) : Prop :=
  match k with
  | KReady j' | KLock j' _ | KSusp j' _ => (j < j')%nat
  | KResumed j' => (j <= j')%nat
  | KDone => True
  end.

Definition slot_ok (s : st) (n : nat) : Prop :=
  let sl := slot_at s n in
  nidv sl + 1 < nver s /\ nex sl = kex s (nco sl) /\
  match sst sl with
  | SFree => In n (freel s) /\ ver sl = nidv sl + 1
  | SEmp => kstat s (nco sl) = KLock (nwi sl) n /\ ver sl = nidv sl
  | SQueued => kstat s (nco sl) = KSusp (nwi sl) n /\ ver sl = nidv sl /\ In n (vis s)
  | SCan t => cst s t = CKLock n /\ kstat s (nco sl) = KSusp (nwi sl) n /\ ver sl = nidv sl + 1
  | SHeld t => In n (held_pc (cst s t)) /\ kstat s (nco sl) = KSusp (nwi sl) n /\ ver sl = nidv sl + 1
  | SFin t => In n (fin_pc (cst s t)) /\ ver sl = nidv sl + 1
  end.

Definition thread_ok (s : st) (t : nat) : Prop :=
  let p := cst s t in
  NoDup (held_pc p) /\
  (forall n, In n (held_pc p) -> (n < nslots s)%nat /\ sst (slot_at s n) = SHeld t) /\
  (forall n, In n (fin_pc p) -> (n < nslots s)%nat /\ sst (slot_at s n) = SFin t) /\
  (forall n, In n (can_pc p) -> (n < nslots s)%nat /\ sst (slot_at s n) = SCan t) /\
  (chain_pc p <> [] -> mtx s = Some t).

Definition coro_ok (s : st) (i : nat) : Prop :=
  match kstat s i with
  | KLock j n => (n < nslots s)%nat /\ sst (slot_at s n) = SEmp /\ nco (slot_at s n) = i /\ nwi (slot_at s n) = j
  | KSusp j n => (n < nslots s)%nat /\ nco (slot_at s n) = i /\ nwi (slot_at s n) = j /\
                 (sst (slot_at s n) = SQueued \/ exists t, sst (slot_at s n) = SCan t \/ sst (slot_at s n) = SHeld t)
  | _ => True
  end.

Definition tok_ok (s : st) (x : (nat * nat) * (nat * Z)) : Prop :=
  let n := fst (snd x) in let v := snd (snd x) in
  (n < nslots s)%nat /\ v <= ver (slot_at s n) /\ (v = ver (slot_at s n) -> sst (slot_at s n) = SQueued).

Definition log_ok (s : st) (x : nat * nat * nat) : Prop :=
  snd x = kex s (fst (fst x)) /\ passed (kstat s (fst (fst x))) (snd (fst x)).

Record Inv (s : st) : Prop := {
  i_slot : forall n, (n < nslots s)%nat -> slot_ok s n;
  i_thread : forall t, thread_ok s t;
  i_coro : forall i, coro_ok s i;
  i_vis_nodup : NoDup (vis s);
  i_vis : forall n, In n (vis s) -> (n < nslots s)%nat /\
            (sst (slot_at s n) = SQueued \/ exists t, sst (slot_at s n) = SCan t);
  i_free_nodup : NoDup (freel s);
  i_free : forall n, In n (freel s) -> (n < nslots s)%nat /\ sst (slot_at s n) = SFree;
  i_linked : forall n, In n (lst s) -> linked (slot_at s n) = true;
  i_tok : forall x, In x (tokens s) -> tok_ok s x;
  i_bad : bad s = 0%nat;
  i_log : forall x, In x (rlog s) -> log_ok s x;
  i_log_nodup : NoDup (map fst (rlog s))
}.

(* ------------------------------------------------------------------ getters after an update *)
Lemma slot_at_put_eq : forall s n sl, (n < nslots s)%nat -> slot_at (put_slot s n sl) n = sl.
Proof. intros. unfold slot_at, put_slot. cbn. apply nth_set_nth_eq. exact H. Qed.
Lemma slot_at_put_ne : forall s n m sl, n <> m -> slot_at (put_slot s n sl) m = slot_at s m.
Proof. intros. unfold slot_at, put_slot. cbn. apply nth_set_nth_ne. exact H. Qed.
Lemma slot_at_frame : forall s s' n, slots s' = slots s -> slot_at s' n = slot_at s n.
Proof. intros. unfold slot_at. now rewrite H. Qed.
Lemma nslots_put : forall s n sl, nslots (put_slot s n sl) = nslots s.
Proof. intros. unfold nslots, put_slot. cbn. apply length_set_nth. Qed.
Lemma cst_set_eq : forall s t c cl, nth_error (clients s) t = Some cl -> cst (set_client s t c) t = cpcv c.
Proof. intros. unfold cst, set_client. cbn. rewrite nth_error_set_nth_eq; auto. apply nth_error_Some. congruence. Qed.
Lemma cst_set_ne : forall s t t' c, t <> t' -> cst (set_client s t c) t' = cst s t'.
Proof. intros. unfold cst, set_client. cbn. now rewrite nth_error_set_nth_ne. Qed.
Lemma cst_frame : forall s s' t, clients s' = clients s -> cst s' t = cst s t.
Proof. intros. unfold cst. now rewrite H. Qed.
Lemma kstat_set_eq : forall s i k x, nth_error (coros s) i = Some k -> kstat (set_coro s i (set_kst k x)) i = x.
Proof. intros. unfold kstat, set_coro. cbn. rewrite nth_error_set_nth_eq; auto. apply nth_error_Some. congruence. Qed.
Lemma kstat_set_ne : forall s i i' k, i <> i' -> kstat (set_coro s i k) i' = kstat s i'.
Proof. intros. unfold kstat, set_coro. cbn. now rewrite nth_error_set_nth_ne. Qed.
Lemma kstat_frame : forall s s' i, coros s' = coros s -> kstat s' i = kstat s i.
Proof. intros. unfold kstat. now rewrite H. Qed.
Lemma kex_set : forall s i i' k x, nth_error (coros s) i = Some k -> kex (set_coro s i (set_kst k x)) i' = kex s i'.
Proof.
  intros. unfold kex, set_coro. cbn. destruct (Nat.eq_dec i i') as [->|Hn].
  - rewrite nth_error_set_nth_eq, H; auto. apply nth_error_Some. congruence.
  - now rewrite nth_error_set_nth_ne.
Qed.
Lemma kex_frame : forall s s' i, coros s' = coros s -> kex s' i = kex s i.
Proof. intros. unfold kex. now rewrite H. Qed.
Lemma dec_enc : forall o, dec (enc o) = o.
Proof. intros [n|]; unfold dec, enc; auto. destruct (Z.leb_spec (Z.of_nat n + 1) 0); [lia|]. f_equal. lia. Qed.

(* ------------------------------------------------------------------ frame: a step that changes no ownership *)
Definition same_core (a b : slot) : Prop :=
  ver a = ver b /\ nidv a = nidv b /\ nco a = nco b /\ nwi a = nwi b /\ nex a = nex b /\ sst a = sst b.

Lemma Inv_move : forall s s' t p',
  Inv s ->
  (forall m, same_core (slot_at s' m) (slot_at s m)) -> nslots s' = nslots s ->
  coros s' = coros s -> freel s' = freel s -> nver s' = nver s -> tokens s' = tokens s -> bad s' = bad s ->
  rlog s' = rlog s ->
  (forall t', t' <> t -> cst s' t' = cst s t') -> cst s' t = p' ->
  held_pc p' = held_pc (cst s t) -> fin_pc p' = fin_pc (cst s t) -> can_pc p' = can_pc (cst s t) ->
  (chain_pc p' <> [] -> mtx s' = Some t) ->
  (mtx s' = mtx s \/ (mtx s = None /\ mtx s' = Some t) \/ (mtx s = Some t /\ mtx s' = None)) ->
  NoDup (vis s') -> (forall m, In m (vis s') -> In m (vis s)) ->
  (forall m, In m (vis s) -> ~ In m (vis s') -> exists t', sst (slot_at s m) = SCan t') ->
  (forall m, In m (lst s') -> linked (slot_at s' m) = true) ->
  Inv s'.
Proof.
  intros s s' t p' I Hsl Hns Hco Hfr Hnv Htk Hbad Hlog Hcne Hct Hh Hf Hc Hch Hm Hnd Hvin Hvdrop Hlk.
  assert (Hk : forall i, kstat s' i = kstat s i) by (intro; apply kstat_frame; auto).
  assert (Hx : forall i, kex s' i = kex s i) by (intro; apply kex_frame; auto).
  assert (Hheld : forall t', held_pc (cst s' t') = held_pc (cst s t')).
  { intro t'. destruct (Nat.eq_dec t' t) as [->|Hn]; [rewrite Hct; auto | rewrite Hcne; auto]. }
  assert (Hfin : forall t', fin_pc (cst s' t') = fin_pc (cst s t')).
  { intro t'. destruct (Nat.eq_dec t' t) as [->|Hn]; [rewrite Hct; auto | rewrite Hcne; auto]. }
  assert (Hcan : forall t', can_pc (cst s' t') = can_pc (cst s t')).
  { intro t'. destruct (Nat.eq_dec t' t) as [->|Hn]; [rewrite Hct; auto | rewrite Hcne; auto]. }
  destruct I as [Is It Ic Ivn Iv Ifn If Il Itok Ib Ilog Iln].
  constructor.
  - intros n Hn. rewrite Hns in Hn. specialize (Is n Hn). unfold slot_ok in *.
    destruct (Hsl n) as (e1 & e2 & e3 & e4 & e5 & e6). rewrite e1, e2, e3, e4, e5, e6, Hnv, Hx, Hk, Hfr.
    destruct Is as (A & B & C). split; [exact A|]. split; [exact B|].
    destruct (sst (slot_at s n)) as [| | |t0|t0|t0] eqn:E; auto.
    + destruct C as (C1 & C2 & C3). repeat split; auto.
      destruct (in_dec Nat.eq_dec n (vis s')) as [|Hni]; auto.
      destruct (Hvdrop n C3 Hni) as [t' Ht']. congruence.
    + destruct C as (C1 & C2 & C3). repeat split; auto.
      assert (Hcc : In n (can_pc (cst s t0))) by (rewrite C1; cbn; auto).
      rewrite <- Hcan in Hcc. destruct (cst s' t0); cbn in Hcc; try contradiction. destruct Hcc as [->|[]]. reflexivity.
    + destruct C as (C1 & C2 & C3). repeat split; auto. rewrite Hheld. exact C1.
    + destruct C as (C1 & C2). split; auto. rewrite Hfin. exact C1.
  - intro t'. specialize (It t'). unfold thread_ok in *. rewrite Hheld, Hfin, Hcan, Hns.
    destruct It as (A & B & C & D & E). repeat split; auto.
    + apply B; auto. + destruct (Hsl n) as (_ & _ & _ & _ & _ & e6). rewrite e6. apply B; auto.
    + apply C; auto. + destruct (Hsl n) as (_ & _ & _ & _ & _ & e6). rewrite e6. apply C; auto.
    + apply D; auto. + destruct (Hsl n) as (_ & _ & _ & _ & _ & e6). rewrite e6. apply D; auto.
    + destruct (Nat.eq_dec t' t) as [->|Hn]; [rewrite Hct; auto|]. rewrite Hcne by auto. intro Hne. specialize (E Hne).
      destruct Hm as [Hm|[[Hm _]|[Hm _]]]; congruence.
  - intro i. specialize (Ic i). unfold coro_ok in *. rewrite Hk, Hns.
    destruct (kstat s i); auto.
    + destruct (Hsl n) as (_ & _ & e3 & e4 & _ & e6). rewrite e3, e4, e6. exact Ic.
    + destruct (Hsl n) as (_ & _ & e3 & e4 & _ & e6). rewrite e3, e4, e6. exact Ic.
  - exact Hnd.
  - intros n Hn. rewrite Hns. destruct (Hsl n) as (_ & _ & _ & _ & _ & e6). rewrite e6. apply Iv. auto.
  - rewrite Hfr. exact Ifn.
  - intros n Hn. rewrite Hfr in Hn. rewrite Hns. destruct (Hsl n) as (_ & _ & _ & _ & _ & e6). rewrite e6. apply If. auto.
  - exact Hlk.
  - intros x Hxin. rewrite Htk in Hxin. specialize (Itok x Hxin). unfold tok_ok in *. rewrite Hns.
    destruct (Hsl (fst (snd x))) as (e1 & _ & _ & _ & _ & e6). rewrite e1, e6. exact Itok.
  - congruence.
  - intros x Hxin. rewrite Hlog in Hxin. specialize (Ilog x Hxin). unfold log_ok in *. rewrite Hx, Hk. exact Ilog.
  - rewrite Hlog. exact Iln.
Qed.

Lemma NoDup_app_single : forall A (l : list A) x, ~ In x l -> NoDup l -> NoDup (l ++ [x]).
Proof.
  induction l as [|y l IH]; intros x Hx Hn; cbn; [constructor; auto; constructor|].
  inversion Hn; subst. constructor.
  - rewrite in_app_iff. cbn. intros [H|[H|[]]]; auto. subst. apply Hx. cbn. auto.
  - apply IH; auto. intro. apply Hx. cbn. auto.
Qed.

Lemma can_pc_in : forall p m, In m (can_pc p) -> p = CKLock m.
Proof. intros p m H. destruct p; cbn in H; try contradiction. destruct H as [->|[]]. reflexivity. Qed.

(* ------------------------------------------------------------------ a client changes the ownership of node n *)
Lemma Inv_trans : forall s s' t p' n sl',
  Inv s -> (n < nslots s)%nat ->
  let sl := slot_at s n in
  (sst sl = SQueued \/ sst sl = SCan t \/ sst sl = SFin t \/ sst sl = SHeld t) ->
  (sst sl' = SCan t \/ sst sl' = SHeld t \/ sst sl' = SFree \/ sst sl' = SFin t) ->
  nidv sl' = nidv sl -> nco sl' = nco sl -> nwi sl' = nwi sl -> nex sl' = nex sl ->
  ver sl <= ver sl' -> (ver sl' = ver sl -> sst sl <> SQueued) ->
  slot_at s' n = sl' -> (forall m, m <> n -> same_core (slot_at s' m) (slot_at s m)) -> nslots s' = nslots s ->
  coros s' = coros s -> nver s' = nver s -> tokens s' = tokens s -> bad s' = bad s -> rlog s' = rlog s ->
  (forall t', t' <> t -> cst s' t' = cst s t') -> cst s' t = p' ->
  NoDup (held_pc p') ->
  (forall m, m <> n -> (In m (held_pc p') <-> In m (held_pc (cst s t)))) -> (In n (held_pc p') <-> sst sl' = SHeld t) ->
  (forall m, m <> n -> (In m (fin_pc p') <-> In m (fin_pc (cst s t)))) -> (In n (fin_pc p') <-> sst sl' = SFin t) ->
  (forall m, m <> n -> (In m (can_pc p') <-> In m (can_pc (cst s t)))) -> (In n (can_pc p') <-> sst sl' = SCan t) ->
  (chain_pc p' <> [] -> mtx s' = Some t) ->
  (mtx s' = mtx s \/ (mtx s = None /\ mtx s' = Some t) \/ (mtx s = Some t /\ mtx s' = None)) ->
  slot_ok s' n ->
  (forall i j, kstat s i = KSusp j n -> sst sl' <> SFree /\ sst sl' <> SFin t) ->
  NoDup (vis s') -> (forall m, In m (vis s') -> In m (vis s)) ->
  (forall m, In m (vis s) -> ~ In m (vis s') -> m = n \/ exists t', sst (slot_at s m) = SCan t') ->
  (In n (vis s') -> exists t', sst sl' = SCan t') ->
  NoDup (freel s') -> (forall m, In m (freel s') -> In m (freel s) \/ (m = n /\ sst sl' = SFree)) ->
  (forall m, In m (freel s) -> In m (freel s')) ->
  (forall m, In m (lst s') -> linked (slot_at s' m) = true) ->
  Inv s'.
Proof.
  intros s s' t p' n sl' I Hn sl Hg Hg' En Ec Ew Ee Hv Hv2 Hsn Hsl Hns Hco Hnv Htk Hbad Hlog Hcne Hct Hhnd
         Hh Hhn Hf Hfn Hc Hcn Hch Hm Hnok Hks Hnd Hvin Hvdrop Hvn Hfnd Hfin Hfkeep Hlk.
  assert (Hk : forall i, kstat s' i = kstat s i) by (intro; apply kstat_frame; auto).
  assert (Hx : forall i, kex s' i = kex s i) by (intro; apply kex_frame; auto).
  destruct I as [Is It Ic Ivn Iv Ifn If Il Itok Ib Ilog Iln].
  assert (Hown : forall t0 m, t0 <> t ->
            (sst (slot_at s m) = SHeld t0 \/ sst (slot_at s m) = SFin t0 \/ sst (slot_at s m) = SCan t0) -> m <> n).
  { intros t0 m Ht0 Hs Hmn. subst m. fold sl in Hs. destruct Hg as [G|[G|[G|G]]]; rewrite G in Hs;
      destruct Hs as [Hs|[Hs|Hs]]; congruence. }
  constructor.
  - intros m Hmlt. destruct (Nat.eq_dec m n) as [->|Hmn]; [exact Hnok|].
    rewrite Hns in Hmlt. specialize (Is m Hmlt). unfold slot_ok in *.
    destruct (Hsl m Hmn) as (e1 & e2 & e3 & e4 & e5 & e6). rewrite e1, e2, e3, e4, e5, e6, Hnv, Hx, Hk.
    destruct Is as (A & B & C). split; [exact A|]. split; [exact B|].
    destruct (sst (slot_at s m)) as [| | |t0|t0|t0] eqn:E; auto.
    + destruct C as (C1 & C2). split; auto.
    + destruct C as (C1 & C2 & C3). repeat split; auto.
      destruct (in_dec Nat.eq_dec m (vis s')) as [|Hni]; auto.
      destruct (Hvdrop m C3 Hni) as [|[t' Ht']]; congruence.
    + destruct C as (C1 & C2 & C3). repeat split; auto.
      destruct (Nat.eq_dec t0 t) as [->|Ht0]; [|rewrite Hcne; auto].
      rewrite Hct. apply can_pc_in. apply Hc; auto. rewrite C1. cbn. auto.
    + destruct C as (C1 & C2 & C3). repeat split; auto.
      destruct (Nat.eq_dec t0 t) as [->|Ht0]; [|rewrite Hcne; auto]. rewrite Hct. apply Hh; auto.
    + destruct C as (C1 & C2). split; auto.
      destruct (Nat.eq_dec t0 t) as [->|Ht0]; [|rewrite Hcne; auto]. rewrite Hct. apply Hf; auto.
  - intro t'. unfold thread_ok. rewrite Hns. destruct (Nat.eq_dec t' t) as [->|Ht'].
    + rewrite Hct. specialize (It t). unfold thread_ok in It. destruct It as (A & B & C & D & E).
      split; [exact Hhnd|]. split; [|split; [|split]].
      * intros m Hm'. destruct (Nat.eq_dec m n) as [->|Hmn].
        -- split; auto. rewrite Hsn. apply Hhn. exact Hm'.
        -- destruct (Hsl m Hmn) as (_ & _ & _ & _ & _ & e6). rewrite e6. apply B. apply Hh; auto.
      * intros m Hm'. destruct (Nat.eq_dec m n) as [->|Hmn].
        -- split; auto. rewrite Hsn. apply Hfn. exact Hm'.
        -- destruct (Hsl m Hmn) as (_ & _ & _ & _ & _ & e6). rewrite e6. apply C. apply Hf; auto.
      * intros m Hm'. destruct (Nat.eq_dec m n) as [->|Hmn].
        -- split; auto. rewrite Hsn. apply Hcn. exact Hm'.
        -- destruct (Hsl m Hmn) as (_ & _ & _ & _ & _ & e6). rewrite e6. apply D. apply Hc; auto.
      * exact Hch.
    + rewrite Hcne by auto. specialize (It t'). unfold thread_ok in It. destruct It as (A & B & C & D & E).
      split; [exact A|]. split; [|split; [|split]].
      * intros m Hm'. destruct (B m Hm') as [B1 B2]. assert (m <> n) by (eapply Hown; eauto).
        destruct (Hsl m H) as (_ & _ & _ & _ & _ & e6). rewrite e6. auto.
      * intros m Hm'. destruct (C m Hm') as [B1 B2]. assert (m <> n) by (eapply Hown; eauto).
        destruct (Hsl m H) as (_ & _ & _ & _ & _ & e6). rewrite e6. auto.
      * intros m Hm'. destruct (D m Hm') as [B1 B2]. assert (m <> n) by (eapply Hown; eauto).
        destruct (Hsl m H) as (_ & _ & _ & _ & _ & e6). rewrite e6. auto.
      * intro Hne. specialize (E Hne). destruct Hm as [Hm|[[Hm _]|[Hm _]]]; congruence.
  - intro i. specialize (Ic i). unfold coro_ok in *. rewrite Hk, Hns.
    destruct (kstat s i) eqn:Ek; auto.
    + destruct Ic as (A & B & C & D). assert (n0 <> n).
      { intro; subst n0. fold sl in B. destruct Hg as [G|[G|[G|G]]]; congruence. }
      destruct (Hsl n0 H) as (_ & _ & e3 & e4 & _ & e6). rewrite e3, e4, e6. auto.
    + destruct Ic as (A & B & C & D). destruct (Nat.eq_dec n0 n) as [->|Hmn].
      * rewrite Hsn, Ec, Ew. repeat split; auto. destruct (Hks _ _ Ek) as [K1 K2].
        destruct Hg' as [G|[G|[G|G]]]; try congruence; right; exists t; auto.
      * destruct (Hsl n0 Hmn) as (_ & _ & e3 & e4 & _ & e6). rewrite e3, e4, e6. auto.
  - exact Hnd.
  - intros m Hm'. rewrite Hns. destruct (Nat.eq_dec m n) as [->|Hmn].
    + split; auto. rewrite Hsn. right. apply Hvn. exact Hm'.
    + destruct (Hsl m Hmn) as (_ & _ & _ & _ & _ & e6). rewrite e6. apply Iv. auto.
  - exact Hfnd.
  - intros m Hm'. rewrite Hns. destruct (Hfin m Hm') as [Hold|[-> Hfree]].
    + destruct (If m Hold) as [F1 F2]. assert (m <> n).
      { intro; subst m. fold sl in F2. destruct Hg as [G|[G|[G|G]]]; congruence. }
      destruct (Hsl m H) as (_ & _ & _ & _ & _ & e6). rewrite e6. auto.
    + rewrite Hsn. auto.
  - exact Hlk.
  - intros x Hxin. rewrite Htk in Hxin. specialize (Itok x Hxin). unfold tok_ok in *. rewrite Hns.
    destruct (Nat.eq_dec (fst (snd x)) n) as [Hxn|Hxn].
    + rewrite Hxn in *. rewrite Hsn. fold sl in Itok. destruct Itok as (T1 & T2 & T3). split; auto. split; [lia|].
      intro Heq. exfalso. assert (ver sl' = ver sl) by lia. apply (Hv2 H). apply T3. lia.
    + destruct (Hsl _ Hxn) as (e1 & _ & _ & _ & _ & e6). rewrite e1, e6. exact Itok.
  - congruence.
  - intros x Hxin. rewrite Hlog in Hxin. specialize (Ilog x Hxin). unfold log_ok in *. rewrite Hx, Hk. exact Ilog.
  - rewrite Hlog. exact Iln.
Qed.

(* ------------------------------------------------------------------ the owner of node n resumes its coroutine *)
Lemma Inv_resume : forall s s' t p' n sl',
  Inv s -> (n < nslots s)%nat ->
  let sl := slot_at s n in
  sst sl = SHeld t -> sst sl' = SFin t ->
  ver sl' = ver sl -> nidv sl' = nidv sl -> nco sl' = nco sl -> nwi sl' = nwi sl -> nex sl' = nex sl ->
  slot_at s' n = sl' -> (forall m, m <> n -> same_core (slot_at s' m) (slot_at s m)) -> nslots s' = nslots s ->
  kstat s' (nco sl) = KResumed (nwi sl) -> (forall i', i' <> nco sl -> kstat s' i' = kstat s i') ->
  (forall i', kex s' i' = kex s i') ->
  nver s' = nver s -> tokens s' = tokens s -> bad s' = bad s -> rlog s' = rlog s ++ [(nco sl, nwi sl, nex sl)] ->
  freel s' = freel s -> lst s' = lst s -> mtx s' = mtx s ->
  (forall t', t' <> t -> cst s' t' = cst s t') -> cst s' t = p' ->
  chain_pc p' = chain_pc (cst s t) ->
  NoDup (held_pc p') ->
  (forall m, m <> n -> (In m (held_pc p') <-> In m (held_pc (cst s t)))) -> ~ In n (held_pc p') ->
  (forall m, m <> n -> (In m (fin_pc p') <-> In m (fin_pc (cst s t)))) -> In n (fin_pc p') ->
  can_pc p' = can_pc (cst s t) ->
  (forall m, In m (lst s') -> linked (slot_at s' m) = true) ->
  Inv s'.
Proof.
  intros s s' t p' n sl' I Hn sl Hg Hg' Ev En Ec Ew Ee Hsn Hsl Hns Hki Hkne Hx Hnv Htk Hbad Hlog Hfr Hlst Hmtx
         Hcne Hct Hchain Hhnd Hh Hhn Hf Hfn Hc Hlk.
  destruct I as [Is It Ic Ivn Iv Ifn If Il Itok Ib Ilog Iln].
  pose proof (Is n Hn) as Isn. unfold slot_ok in Isn. fold sl in Isn. rewrite Hg in Isn.
  destruct Isn as (N1 & N2 & N3 & N4 & N5).
  assert (Hvis : vis s' = vis s).
  { unfold vis. rewrite Hlst, Hmtx. destruct (mtx s) as [t0|]; auto. f_equal.
    destruct (Nat.eq_dec t0 t) as [->|Ht0]; [rewrite Hct; auto | rewrite Hcne; auto]. }
  assert (Hown : forall t0 m, t0 <> t ->
            (sst (slot_at s m) = SHeld t0 \/ sst (slot_at s m) = SFin t0 \/ sst (slot_at s m) = SCan t0) -> m <> n).
  { intros t0 m Ht0 Hs Hmn. subst m. fold sl in Hs. rewrite Hg in Hs. destruct Hs as [Hs|[Hs|Hs]]; congruence. }
  (* a slot other than n whose state depends on the status of coroutine (nco sl) would be n *)
  assert (Hkk : forall m, m <> n -> forall K, (K = KLock (nwi (slot_at s m)) m \/ K = KSusp (nwi (slot_at s m)) m) ->
            kstat s (nco (slot_at s m)) = K -> kstat s' (nco (slot_at s m)) = K).
  { intros m Hmn K HK HKs. destruct (Nat.eq_dec (nco (slot_at s m)) (nco sl)) as [e|e]; [|rewrite Hkne; auto].
    exfalso. rewrite e in HKs. rewrite N4 in HKs. destruct HK as [->| ->]; congruence. }
  constructor.
  - intros m Hmlt. rewrite Hns in Hmlt. destruct (Nat.eq_dec m n) as [->|Hmn].
    + unfold slot_ok. rewrite Hsn, Hg', Ev, En, Ec, Ee, Hnv, Hx, Hct. repeat split; auto.
    + specialize (Is m Hmlt). unfold slot_ok in *.
      destruct (Hsl m Hmn) as (e1 & e2 & e3 & e4 & e5 & e6). rewrite e1, e2, e3, e4, e5, e6, Hnv, Hx, Hfr, Hvis.
      destruct Is as (A & B & C). split; [exact A|]. split; [exact B|].
      destruct (sst (slot_at s m)) as [| | |t0|t0|t0] eqn:E; auto.
      * destruct C as (C1 & C2). split; auto.
      * destruct C as (C1 & C2 & C3). repeat split; auto.
      * destruct C as (C1 & C2 & C3). repeat split; auto.
        destruct (Nat.eq_dec t0 t) as [->|Ht0]; [|rewrite Hcne; auto].
        rewrite Hct. apply can_pc_in. rewrite Hc, C1. cbn. auto.
      * destruct C as (C1 & C2 & C3). repeat split; auto.
        destruct (Nat.eq_dec t0 t) as [->|Ht0]; [|rewrite Hcne; auto]. rewrite Hct. apply Hh; auto.
      * destruct C as (C1 & C2). split; auto.
        destruct (Nat.eq_dec t0 t) as [->|Ht0]; [|rewrite Hcne; auto]. rewrite Hct. apply Hf; auto.
  - intro t'. unfold thread_ok. rewrite Hns. destruct (Nat.eq_dec t' t) as [->|Ht'].
    + rewrite Hct. specialize (It t). unfold thread_ok in It. destruct It as (A & B & C & D & E).
      split; [exact Hhnd|]. split; [|split; [|split]].
      * intros m Hm'. destruct (Nat.eq_dec m n) as [->|Hmn]; [contradiction|].
        destruct (Hsl m Hmn) as (_ & _ & _ & _ & _ & e6). rewrite e6. apply B. apply Hh; auto.
      * intros m Hm'. destruct (Nat.eq_dec m n) as [->|Hmn].
        -- split; auto. rewrite Hsn. exact Hg'.
        -- destruct (Hsl m Hmn) as (_ & _ & _ & _ & _ & e6). rewrite e6. apply C. apply Hf; auto.
      * intros m Hm'. rewrite Hc in Hm'. destruct (D m Hm') as [D1 D2]. assert (m <> n).
        { intro; subst m. fold sl in D2. congruence. }
        destruct (Hsl m H) as (_ & _ & _ & _ & _ & e6). rewrite e6. auto.
      * rewrite Hchain, Hmtx. exact E.
    + rewrite Hcne by auto. specialize (It t'). unfold thread_ok in It. destruct It as (A & B & C & D & E).
      split; [exact A|]. split; [|split; [|split]].
      * intros m Hm'. destruct (B m Hm') as [B1 B2]. assert (m <> n) by (eapply Hown; eauto).
        destruct (Hsl m H) as (_ & _ & _ & _ & _ & e6). rewrite e6. auto.
      * intros m Hm'. destruct (C m Hm') as [B1 B2]. assert (m <> n) by (eapply Hown; eauto).
        destruct (Hsl m H) as (_ & _ & _ & _ & _ & e6). rewrite e6. auto.
      * intros m Hm'. destruct (D m Hm') as [B1 B2]. assert (m <> n) by (eapply Hown; eauto).
        destruct (Hsl m H) as (_ & _ & _ & _ & _ & e6). rewrite e6. auto.
      * rewrite Hmtx. exact E.
  - intro i. unfold coro_ok. rewrite Hns. destruct (Nat.eq_dec i (nco sl)) as [->|Hi]; [rewrite Hki; exact I|].
    rewrite Hkne by auto. specialize (Ic i). unfold coro_ok in Ic.
    destruct (kstat s i) eqn:Ek; auto.
    + destruct Ic as (A & B & C & D). assert (n0 <> n) by (intro; subst n0; fold sl in B; congruence).
      destruct (Hsl n0 H) as (_ & _ & e3 & e4 & _ & e6). rewrite e3, e4, e6. auto.
    + destruct Ic as (A & B & C & D). assert (n0 <> n) by (intro; subst n0; fold sl in B; congruence).
      destruct (Hsl n0 H) as (_ & _ & e3 & e4 & _ & e6). rewrite e3, e4, e6. auto.
  - rewrite Hvis. exact Ivn.
  - intros m Hm'. rewrite Hvis in Hm'. rewrite Hns. destruct (Iv m Hm') as [V1 V2]. assert (m <> n).
    { intro; subst m. fold sl in V2. rewrite Hg in V2. destruct V2 as [V2|[t' V2]]; congruence. }
    destruct (Hsl m H) as (_ & _ & _ & _ & _ & e6). rewrite e6. auto.
  - rewrite Hfr. exact Ifn.
  - intros m Hm'. rewrite Hfr in Hm'. rewrite Hns. destruct (If m Hm') as [F1 F2]. assert (m <> n).
    { intro; subst m. fold sl in F2. congruence. }
    destruct (Hsl m H) as (_ & _ & _ & _ & _ & e6). rewrite e6. auto.
  - exact Hlk.
  - intros x Hxin. rewrite Htk in Hxin. specialize (Itok x Hxin). unfold tok_ok in *. rewrite Hns.
    destruct (Nat.eq_dec (fst (snd x)) n) as [Hxn|Hxn].
    + rewrite Hxn in *. rewrite Hsn, Ev, Hg'. fold sl in Itok. rewrite Hg in Itok. destruct Itok as (T1 & T2 & T3).
      split; auto. split; auto. intro Heq. specialize (T3 Heq). discriminate.
    + destruct (Hsl _ Hxn) as (e1 & _ & _ & _ & _ & e6). rewrite e1, e6. exact Itok.
  - congruence.
  - intros x Hxin. rewrite Hlog in Hxin. apply in_app_or in Hxin. destruct Hxin as [Hxin|[<-|[]]].
    + specialize (Ilog x Hxin). unfold log_ok in *. rewrite Hx. destruct Ilog as [L1 L2]. split; auto.
      destruct (Nat.eq_dec (fst (fst x)) (nco sl)) as [e|e]; [|rewrite Hkne; auto].
      rewrite e in *. rewrite Hki. rewrite N4 in L2. cbn in *. lia.
    + unfold log_ok. cbn. rewrite Hx, Hki. split; auto. cbn. lia.
  - rewrite Hlog, map_app. cbn. apply NoDup_app_single. 2: exact Iln.
    intro Hin. apply in_map_iff in Hin. destruct Hin as (x & Hx1 & Hx2). specialize (Ilog x Hx2). unfold log_ok in Ilog.
    destruct Ilog as [_ L2]. destruct x as [[a b] e]. cbn in *. inversion Hx1; subst. rewrite N4 in L2. cbn in L2. lia.
Qed.

(* ------------------------------------------------------------------ a coroutine step that touches no node *)
Lemma Inv_kmove : forall s s' i K',
  Inv s ->
  (forall j n, kstat s i <> KLock j n) -> (forall j n, kstat s i <> KSusp j n) ->
  (forall j n, K' <> KLock j n) -> (forall j n, K' <> KSusp j n) ->
  (forall j, passed (kstat s i) j -> passed K' j) ->
  slots s' = slots s -> clients s' = clients s -> lst s' = lst s -> mtx s' = mtx s -> freel s' = freel s ->
  nver s' = nver s -> tokens s' = tokens s -> bad s' = bad s -> rlog s' = rlog s ->
  kstat s' i = K' -> (forall i', i' <> i -> kstat s' i' = kstat s i') -> (forall i', kex s' i' = kex s i') ->
  Inv s'.
Proof.
  intros s s' i K' I N1 N2 N3 N4 Hp Hsl Hcl Hlst Hmtx Hfr Hnv Htk Hbad Hlog Hki Hkne Hx.
  assert (Hs : forall m, slot_at s' m = slot_at s m) by (intro; apply slot_at_frame; auto).
  assert (Hc : forall t, cst s' t = cst s t) by (intro; apply cst_frame; auto).
  assert (Hns : nslots s' = nslots s) by (unfold nslots; now rewrite Hsl).
  assert (Hvis : vis s' = vis s) by (unfold vis; rewrite Hlst, Hmtx; destruct (mtx s); auto; now rewrite Hc).
  destruct I as [Is It Ic Ivn Iv Ifn If Il Itok Ib Ilog Iln].
  assert (Hkk : forall i' K, kstat s i' = K -> (exists j n, K = KLock j n \/ K = KSusp j n) -> kstat s' i' = K).
  { intros i' K HK (j & n & HJ). destruct (Nat.eq_dec i' i) as [->|Hn]; [|rewrite Hkne; auto].
    exfalso. destruct HJ as [->| ->]; [eapply N1|eapply N2]; eauto. }
  constructor.
  - intros m Hm. rewrite Hns in Hm. specialize (Is m Hm). unfold slot_ok in *. rewrite Hs, Hnv, Hx, Hfr, Hvis.
    destruct Is as (A & B & C). split; [exact A|]. split; [exact B|].
    destruct (sst (slot_at s m)) as [| | |t0|t0|t0]; rewrite ?Hc.
    + exact C.
    + destruct C as (C1 & C2). split; auto. apply Hkk; eauto.
    + destruct C as (C1 & C2 & C3). repeat split; auto. apply Hkk; eauto.
    + destruct C as (C1 & C2 & C3). repeat split; auto. apply Hkk; eauto.
    + destruct C as (C1 & C2 & C3). repeat split; auto. apply Hkk; eauto.
    + exact C.
  - intro t. specialize (It t). unfold thread_ok in *. rewrite Hc, Hns, Hmtx.
    destruct It as (A & B & C & D & E). split; [exact A|]. split; [|split; [|split]]; auto.
    + intros q Hq. rewrite Hs. apply B; auto.
    + intros q Hq. rewrite Hs. apply C; auto.
    + intros q Hq. rewrite Hs. apply D; auto.
  - intro i'. unfold coro_ok. rewrite Hns. destruct (Nat.eq_dec i' i) as [->|Hn].
    + rewrite Hki. destruct K'; auto; exfalso; [eapply N3|eapply N4]; eauto.
    + rewrite Hkne by auto. specialize (Ic i'). unfold coro_ok in Ic. destruct (kstat s i'); auto; rewrite Hs; auto.
  - rewrite Hvis; auto.
  - intros n Hn. rewrite Hvis in Hn. rewrite Hns, Hs. auto.
  - rewrite Hfr; auto.
  - intros n Hn. rewrite Hfr in Hn. rewrite Hns, Hs. auto.
  - intros n Hn. rewrite Hlst in Hn. rewrite Hs. auto.
  - intros x Hxin. rewrite Htk in Hxin. specialize (Itok x Hxin). unfold tok_ok in *. rewrite Hns, Hs. auto.
  - congruence.
  - intros x Hxin. rewrite Hlog in Hxin. specialize (Ilog x Hxin). unfold log_ok in *. rewrite Hx. destruct Ilog as [L1 L2].
    split; auto. destruct (Nat.eq_dec (fst (fst x)) i) as [e|e]; [|rewrite Hkne; auto]. rewrite e in *. rewrite Hki. auto.
  - rewrite Hlog; auto.
Qed.
