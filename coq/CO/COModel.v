(* Executable interleaving model of babylon::coroutine::Futex (src/babylon/coroutine/futex.h, futex.cpp) over an
   abstract DepositBox (src/babylon/concurrent/deposit_box.h: emplace returns a versioned id, take succeeds for
   exactly one caller per id, finish returns the slot; the allocator behind it is property C14), with the coroutine
   side of BasicPromise::resume (src/babylon/coroutine/promise.h: the continuation is handed to the executor the
   awaiting coroutine is bound to) and, at the end, the take-race of BasicCancellable (cancelable.h).
   One step = one atomic operation / mutex acquisition / executor hand-off of the C++ code plus the local
   computation up to the next one (mutex release is not a step of its own: nothing can be observed between the last
   operation inside a critical section and the release).  No proofs here.

   Threads : ids [0, nc) are client threads running wake_one / wake_all / cancel / value store programs;
             ids [nc, nc + nk) are coroutines, each a list of waits (expected value, publish token?), bound to an
             executor.  A coroutine is "scheduled" like a thread: executors are modelled as always having a free worker
             (the driver runs them on a small pool; fewer workers give a subset of these interleavings).
   The code paths that the three repairs of futex.h / futex.cpp touch are taken from the regenerated definitions
   (Gen_coroutine.v) through the record [cfg]:
   (which pointer the loops of wake_one / wake_all follow, when the slot of a wait is returned, when the token is
   published, when add_awaiter / remove_awaiter touch the list).
   Pointers are Z: 0 = nullptr, n + 1 = the Node stored in deposit slot n.
   Ghost: sst (ownership state of every slot), bad (resumptions of a coroutine that is not suspended + nodes queued
   while the word did not match the expected value + writes into the link fields of a node that is not in the list), rlog
   (resumption log: coroutine, wait index, executor the continuation was handed to). *)
From Coq Require Import ZArith List Bool Arith.
Require Import Verif.Gen.Gen_coroutine.
Import ListNotations.
Local Open Scope Z_scope.

Record cfg := {
  w1_adv : Z -> Z -> Z;        (* wake_one: node = <advance>(node->next, _awaiter_head.next) after a failed take *)
  w1_stop_ok : bool;           (* wake_one leaves its loop when the take succeeded / failed *)
  w1_stop_fail : bool;
  wa_adv : Z -> Z -> Z;        (* wake_all resume loop: node = <advance>(node->next re-read after finish, saved) *)
  wa_saved : Z -> Z;           (* what the loop saves before the resumption (as a function of node->next then) *)
  rel_fail : bool;             (* await_suspend returns the slot when add_awaiter failed / succeeded *)
  rel_succ : bool;
  cb_tok : bool;               (* ... else: on_suspend callback invoked when one is registered / is not *)
  cb_notok : bool;
  add_when : Z -> Z -> bool;   (* add_awaiter: the first condition on (expected_value, word) ... *)
  add_rejects : bool;          (* ... guards `return false` (true) or the enqueue (false) *)
  cmp_locked : bool;           (* the comparison is made after _mutex was taken (one critical section with the enqueue) *)
  unlink_linked : bool;        (* remove_awaiter unlinks a node whose prev is set / is nullptr *)
  unlink_unlinked : bool;
  fix2_nested : bool;          (* remove_awaiter: `node->next->prev = node->prev` sits inside the `if (node->prev)` block *)
  fix2_nonnull : bool;         (* ... and is executed when node->next is set / is nullptr *)
  fix2_null : bool
}.

(* the code as regenerated from /repo *)
Definition gen_cfg : cfg :=
  {| w1_adv := wake_one_advance; w1_stop_ok := wake_one_stop_when 1; w1_stop_fail := wake_one_stop_when 0;
     wa_adv := wake_all_advance; wa_saved := wake_all_saved;
     rel_fail := release_when 0; rel_succ := release_when 1; cb_tok := callback_when 1; cb_notok := callback_when 0;
     add_when := Gen_coroutine.add_when; add_rejects := negb (add_cond_rejects =? 0);
     cmp_locked := (add_compare_under_lock =? 1); unlink_linked := unlink_when 1; unlink_unlinked := unlink_when 0;
     fix2_nested := (next_fixup_nested =? 1); fix2_nonnull := next_fixup_when 1; fix2_null := next_fixup_when 0 |}.
(* the repaired code (commits 3220185, 0534791, 78434ce) and the code before the three repairs (DESIGN.md F3a-c) *)
Definition cfg_fixed : cfg :=
  {| w1_adv := fun _ hn => hn; w1_stop_ok := true; w1_stop_fail := false; wa_adv := fun _ ns => ns; wa_saved := fun x => x;
     rel_fail := true; rel_succ := false; cb_tok := true; cb_notok := false; add_when := Z.eqb; add_rejects := false; cmp_locked := true;
     unlink_linked := true; unlink_unlinked := false;
     fix2_nested := true; fix2_nonnull := true; fix2_null := false |}.
Definition cfg_asis : cfg :=
  {| w1_adv := fun nn _ => nn; w1_stop_ok := true; w1_stop_fail := false; wa_adv := fun na _ => na; wa_saved := fun x => x;
     rel_fail := false; rel_succ := false; cb_tok := true; cb_notok := false; add_when := Z.eqb; add_rejects := false; cmp_locked := true;
     unlink_linked := true; unlink_unlinked := false;
     fix2_nested := true; fix2_nonnull := true; fix2_null := false |}.

Definition enc (o : option nat) : Z := match o with None => 0 | Some n => Z.of_nat n + 1 end.
Definition dec (z : Z) : option nat := if z <=? 0 then None else Some (Z.to_nat (z - 1)).

(* ---------------------------------------------------------------- deposit box + nodes *)
Inductive sstate :=
| SFree                  (* in the free list *)
| SEmp                   (* emplaced, the awaiting coroutine has not reached add_awaiter yet *)
| SQueued                (* in the waiter list, not taken *)
| SCan (t : nat)         (* taken by canceller t, remove_awaiter not done yet *)
| SHeld (t : nat)        (* taken by t and unlinked, resumption pending *)
| SFin (t : nat).        (* resumed by t, finish_released pending *)

Record slot := {
  ver : Z;               (* Slot::version *)
  nidv : Z;              (* node->id.version *)
  nco : nat;             (* node->promise / node->handle : the awaiting coroutine *)
  nwi : nat;             (* ghost: index of the wait *)
  nex : nat;             (* node->promise->_executor *)
  linked : bool;         (* node->prev != nullptr *)
  sst : sstate           (* ghost *)
}.

Definition upd_slot (sl : slot) (v : Z) (lk : bool) (g : sstate) : slot :=
  {| ver := v; nidv := nidv sl; nco := nco sl; nwi := nwi sl; nex := nex sl; linked := lk; sst := g |}.

(* ---------------------------------------------------------------- programs *)
Inductive op :=
| OWake1 | OWakeAll
| OCancel (i j : nat)    (* token of wait j of coroutine i *)
| OSetV (x : Z)          (* futex.value() = x *)
| OWaitTok (n : nat).    (* test driver: block until n tokens have been published *)

Inductive res := RW1 (r : Z) | RWA (r : Z) | RK (r : option bool) | RV | RQ.

Inductive cpc :=
| CIdle
| W1Take (n : nat)                         (* mutex held, n unlinked, take CAS pending *)
| W1Resume (n : nat) | W1Finish (n : nat)
| WATake (pend taken : list nat)           (* mutex held, list detached, take CAS of hd pend pending *)
| WAResume (cur : nat) (todo : list nat) (cnt : Z)
| WAFinish (cur : nat) (todo : list nat) (cnt : Z)
| WANext (cur : nat) (todo : list nat) (cnt : Z)   (* after finish_released: node = <advance> *)
| CKLock (n : nat) | CKResume (n : nat) | CKFinish (n : nat).

Record client := { cprog : list op; copi : nat; cpcv : cpc; cres : list res }.

Inductive kst :=
| KReady (j : nat)                         (* running / runnable: wait j starts with DepositBox::emplace *)
| KLock (j n : nat)                        (* node n initialised, add_awaiter pending *)
| KEnq (j n : nat)                         (* add_awaiter compared the word outside the mutex and goes on to enqueue *)
| KSusp (j n : nat)                        (* suspended in wait j on node n *)
| KResumed (j : nat)                       (* continuation handed to the executor *)
| KDone.

Record coro := { kprog : list (Z * bool); kexec : nat; kstv : kst }.

Record st := {
  fv : Z;                                  (* futex word *)
  mtx : option nat;                        (* _mutex owner *)
  lst : list nat;                          (* _awaiter_head.next chain, front first *)
  slots : list slot;
  nxt : list Z;                            (* node->next of the node in slot n (0 = nullptr, m + 1 = node m) *)
  freel : list nat;                        (* deposit box free list (LIFO) *)
  nver : Z;                                (* next fresh id version *)
  tokens : list ((nat * nat) * (nat * Z)); (* published cancellation tokens: (coroutine, wait) -> id *)
  bad : nat;                               (* ghost: protocol violations, see above *)
  rlog : list (nat * nat * nat);           (* ghost *)
  clients : list client;
  coros : list coro
}.

Definition mk_client (p : list op) : client := {| cprog := p; copi := 0; cpcv := CIdle; cres := [] |}.
Definition mk_coro (p : nat * list (Z * bool)) : coro := {| kprog := snd p; kexec := fst p; kstv := KReady 0 |}.
Definition init (v0 : Z) (cps : list (list op)) (kps : list (nat * list (Z * bool))) : st :=
  {| fv := v0; mtx := None; lst := []; slots := []; nxt := []; freel := []; nver := 0; tokens := []; bad := 0%nat; rlog := [];
     clients := map mk_client cps; coros := map mk_coro kps |}.

Fixpoint set_nth {A} (n : nat) (x : A) (l : list A) : list A :=
  match l, n with
  | [], _ => []
  | _ :: r, O => x :: r
  | y :: r, S n' => y :: set_nth n' x r
  end.

Definition set_fv (s : st) (x : Z) : st :=
  {| fv := x; mtx := mtx s; lst := lst s; slots := slots s; nxt := nxt s; freel := freel s; nver := nver s; tokens := tokens s;
     bad := bad s; rlog := rlog s; clients := clients s; coros := coros s |}.
Definition set_mtx (s : st) (m : option nat) : st :=
  {| fv := fv s; mtx := m; lst := lst s; slots := slots s; nxt := nxt s; freel := freel s; nver := nver s; tokens := tokens s;
     bad := bad s; rlog := rlog s; clients := clients s; coros := coros s |}.
Definition set_lst (s : st) (l : list nat) : st :=
  {| fv := fv s; mtx := mtx s; lst := l; slots := slots s; nxt := nxt s; freel := freel s; nver := nver s; tokens := tokens s;
     bad := bad s; rlog := rlog s; clients := clients s; coros := coros s |}.
Definition set_slots (s : st) (l : list slot) : st :=
  {| fv := fv s; mtx := mtx s; lst := lst s; slots := l; nxt := nxt s; freel := freel s; nver := nver s; tokens := tokens s;
     bad := bad s; rlog := rlog s; clients := clients s; coros := coros s |}.
Definition set_nxt (s : st) (l : list Z) : st :=
  {| fv := fv s; mtx := mtx s; lst := lst s; slots := slots s; nxt := l; freel := freel s; nver := nver s;
     tokens := tokens s; bad := bad s; rlog := rlog s; clients := clients s; coros := coros s |}.
Definition set_freel (s : st) (l : list nat) : st :=
  {| fv := fv s; mtx := mtx s; lst := lst s; slots := slots s; nxt := nxt s; freel := l; nver := nver s; tokens := tokens s;
     bad := bad s; rlog := rlog s; clients := clients s; coros := coros s |}.
Definition set_nver (s : st) (v : Z) : st :=
  {| fv := fv s; mtx := mtx s; lst := lst s; slots := slots s; nxt := nxt s; freel := freel s; nver := v; tokens := tokens s;
     bad := bad s; rlog := rlog s; clients := clients s; coros := coros s |}.
Definition set_tokens (s : st) (l : list ((nat * nat) * (nat * Z))) : st :=
  {| fv := fv s; mtx := mtx s; lst := lst s; slots := slots s; nxt := nxt s; freel := freel s; nver := nver s; tokens := l;
     bad := bad s; rlog := rlog s; clients := clients s; coros := coros s |}.
Definition set_ghost (s : st) (b : nat) (r : list (nat * nat * nat)) : st :=
  {| fv := fv s; mtx := mtx s; lst := lst s; slots := slots s; nxt := nxt s; freel := freel s; nver := nver s; tokens := tokens s;
     bad := b; rlog := r; clients := clients s; coros := coros s |}.
Definition set_clients (s : st) (l : list client) : st :=
  {| fv := fv s; mtx := mtx s; lst := lst s; slots := slots s; nxt := nxt s; freel := freel s; nver := nver s; tokens := tokens s;
     bad := bad s; rlog := rlog s; clients := l; coros := coros s |}.
Definition set_coros (s : st) (l : list coro) : st :=
  {| fv := fv s; mtx := mtx s; lst := lst s; slots := slots s; nxt := nxt s; freel := freel s; nver := nver s; tokens := tokens s;
     bad := bad s; rlog := rlog s; clients := clients s; coros := l |}.

Definition goto (c : client) (p : cpc) : client := {| cprog := cprog c; copi := copi c; cpcv := p; cres := cres c |}.
Definition finish_op (c : client) (r : res) : client :=
  {| cprog := cprog c; copi := S (copi c); cpcv := CIdle; cres := cres c ++ [r] |}.
Definition set_client (s : st) (t : nat) (c : client) : st := set_clients s (set_nth t c (clients s)).
Definition set_kst (k : coro) (x : kst) : coro := {| kprog := kprog k; kexec := kexec k; kstv := x |}.
Definition set_coro (s : st) (i : nat) (k : coro) : st := set_coros s (set_nth i k (coros s)).

Definition dummy_slot : slot :=
  {| ver := 0; nidv := 0; nco := 0; nwi := 0; nex := 0; linked := false; sst := SFree |}.
Definition slot_at (s : st) (n : nat) : slot := nth n (slots s) dummy_slot.
Definition put_slot (s : st) (n : nat) (sl : slot) : st := set_slots s (set_nth n sl (slots s)).
Definition nnext (s : st) (n : nat) : Z := nth n (nxt s) 0.
Definition set_nnext (s : st) (n : nat) (z : Z) : st := set_nxt s (set_nth n z (nxt s)).

(* DepositBox::emplace + the initialisation of the node in Futex::Awaitable::await_suspend *)
Definition emplace (s : st) (i j e : nat) : st * nat :=
  let fresh := {| ver := nver s; nidv := nver s; nco := i; nwi := j; nex := e; linked := false; sst := SEmp |} in
  match freel s with
  | n :: r => (set_nver (set_freel (set_nnext (put_slot s n fresh) n 0) r) (nver s + 2), n)
  | [] => (set_nver (set_nxt (set_slots s (slots s ++ [fresh])) (nxt s ++ [0])) (nver s + 2), length (slots s))
  end.

(* DepositBox::take_released(id) : CAS(version: id.version -> id.version + 1) *)
Definition take_ok (s : st) (n : nat) (v : Z) : bool := (n <? length (slots s))%nat && (ver (slot_at s n) =? v).
Definition take (s : st) (n : nat) (g : sstate) : st :=
  let sl := slot_at s n in put_slot s n (upd_slot sl (ver sl + 1) (linked sl) g).
(* DepositBox::finish_released(id) *)
Definition release (s : st) (n : nat) : st :=
  let sl := slot_at s n in set_freel (put_slot s n (upd_slot sl (ver sl) (linked sl) SFree)) (n :: freel s).

(* BasicPromise::resume(handle) of the coroutine stored in node n: hands the continuation to the executor the
   coroutine is bound to *)
Definition resume_node (s : st) (n : nat) : st :=
  let sl := slot_at s n in
  let i := nco sl in
  match nth_error (coros s) i with
  | Some k =>
    match kstv k with
    | KSusp j _ => set_ghost (set_coro s i (set_kst k (KResumed j))) (bad s) (rlog s ++ [(i, j, nex sl)])
    | _ => set_ghost s (S (bad s)) (rlog s)          (* resumption of a coroutine that is not suspended *)
    end
  | None => set_ghost s (S (bad s)) (rlog s)
  end.

Definition mark (s : st) (n : nat) (g : sstate) : st :=
  let sl := slot_at s n in put_slot s n (upd_slot sl (ver sl) (linked sl) g).
(* node->prev = nullptr *)
Definition unlink_mark (s : st) (n : nat) : st :=
  let sl := slot_at s n in put_slot s n (upd_slot sl (ver sl) false (sst sl)).

Fixpoint remove_nat (n : nat) (l : list nat) : list nat :=
  match l with
  | [] => []
  | x :: r => if Nat.eqb x n then remove_nat n r else x :: remove_nat n r
  end.

(* the nodes wake_all took, chained through node->next (the splice `*tail = node->next`) *)
Fixpoint chain_next (s : st) (l : list nat) : st :=
  match l with
  | [] => s
  | a :: r => chain_next (set_nnext s a (enc (hd_error r))) r
  end.

Fixpoint find_token (l : list ((nat * nat) * (nat * Z))) (i j : nat) : option (nat * Z) :=
  match l with
  | [] => None
  | ((a, b), id) :: r => if Nat.eqb a i && Nat.eqb b j then Some id else find_token r i j
  end.

(* predecessor of n in the list (None: n is the first node, its prev is the list head, or n is not there) *)
Fixpoint pred_of (l : list nat) (n : nat) : option nat :=
  match l with
  | a :: r => match r with b :: _ => if Nat.eqb b n then Some a else pred_of r n | [] => None end
  | [] => None
  end.
Definition fix_pred (s : st) (l : list nat) (n : nat) (nx : Z) : st :=
  match pred_of l n with Some p => set_nnext s p nx | None => s end.
Definition memb (n : nat) (l : list nat) : bool := existsb (Nat.eqb n) l.
(* node m->prev = <prev of the node being removed> : m->prev becomes non-null iff [lk].  Ghost: a write into a node
   that is not a member of the list whose mutex the writer holds counts as a violation ([bad]) *)
Definition fix_next (s : st) (m : nat) (lk inlist : bool) : st :=
  let sl := slot_at s m in
  let s1 := put_slot s m (upd_slot sl (ver sl) lk (sst sl)) in
  if inlist then s1 else set_ghost s1 (S (bad s1)) (rlog s1).

Section Step.
Variable c : cfg.

(* ---- wake_one: after the lock / after a failed take: unlink the head node or leave *)
Definition w1_pop (s : st) (t : nat) (cl : client) (follow : bool) : st :=
  match lst s with
  | n :: r =>
    if follow then set_client (set_mtx (set_nnext (unlink_mark (set_lst s r) n) n 0) (Some t)) t (goto cl (W1Take n))
    else set_client (set_mtx s None) t (finish_op cl (RW1 0))
  | [] => set_client (set_mtx s None) t (finish_op cl (RW1 0))
  end.

Definition step_client (s : st) (t : nat) (cl : client) : option st :=
  match cpcv cl with
  | CIdle =>
    match nth_error (cprog cl) (copi cl) with
    | None => None
    | Some OWake1 =>                                   (* lock_guard *)
      match mtx s with Some _ => None | None => Some (w1_pop s t cl true) end
    | Some OWakeAll =>                                 (* lock_guard; head = _awaiter_head.next; ... = nullptr *)
      match mtx s with
      | Some _ => None
      | None =>
        match lst s with
        | [] => Some (set_client s t (finish_op cl (RWA 0)))
        | l => Some (set_client (set_mtx (set_lst s []) (Some t)) t (goto cl (WATake l [])))
        end
      end
    | Some (OCancel i j) =>                            (* Awaitable::cancel: take_released(id) *)
      match find_token (tokens s) i j with
      | None => Some (set_client s t (finish_op cl (RK None)))
      | Some (n, v) =>
        if take_ok s n v then Some (set_client (take s n (SCan t)) t (goto cl (CKLock n)))
        else Some (set_client s t (finish_op cl (RK (Some false))))
      end
    | Some (OSetV x) => Some (set_client (set_fv s x) t (finish_op cl RV))
    | Some (OWaitTok n) =>
      if (n <=? length (tokens s))%nat then Some (set_client s t (finish_op cl RQ)) else None
    end
  | W1Take n =>                                        (* box.take_released(node->id) *)
    let ok := take_ok s n (nidv (slot_at s n)) in
    let s1 := if ok then take s n (SHeld t) else s in
    if (if ok then w1_stop_ok c else w1_stop_fail c) then         (* break; unlock *)
      Some (set_client (set_mtx s1 None) t (goto cl (W1Resume n)))
    else                                               (* node = <advance>; node->next was cleared above *)
      Some (w1_pop s1 t cl (negb (w1_adv c 0 (enc (hd_error (lst s1))) =? 0)))
  | W1Resume n => Some (set_client (mark (resume_node s n) n (SFin t)) t (goto cl (W1Finish n)))
  | W1Finish n => Some (set_client (release s n) t (finish_op cl (RW1 1)))
  | WATake pend taken =>
    match pend with
    | [] => None
    | n :: r =>
      let s0 := unlink_mark s n in                              (* node->prev = nullptr *)
      let ok := take_ok s0 n (nidv (slot_at s0 n)) in
      let s1 := if ok then take s0 n (SHeld t) else s0 in
      let taken' := if ok then taken ++ [n] else taken in
      match r with
      | _ :: _ => Some (set_client s1 t (goto cl (WATake r taken')))
      | [] =>                                          (* end of the list: unlock *)
        let s2 := set_mtx (chain_next s1 taken') None in
        match taken' with
        | [] => Some (set_client s2 t (finish_op cl (RWA 0)))
        | a :: todo => Some (set_client s2 t (goto cl (WAResume a todo 0)))
        end
      end
    end
  | WAResume cur todo cnt => Some (set_client (mark (resume_node s cur) cur (SFin t)) t (goto cl (WAFinish cur todo cnt)))
  | WAFinish cur todo cnt => Some (set_client (release s cur) t (goto cl (WANext cur todo cnt)))
  | WANext cur todo cnt =>
    let z := wa_adv c (nnext s cur) (wa_saved c (enc (hd_error todo))) in
    match dec z with
    | None => Some (set_client s t (finish_op cl (RWA (cnt + 1))))
    | Some n => Some (set_client s t (goto cl (WAResume n (tl todo) (cnt + 1))))
    end
  | CKLock n =>                      (* remove_awaiter: lock; the two fix-ups of the neighbours under their guards; unlock *)
    match mtx s with
    | Some _ => None
    | None =>
      let lk := linked (slot_at s n) in                (* node->prev != nullptr *)
      let nx := nnext s n in                           (* node->next, possibly stale: wake_all keeps it in a detached node *)
      let do1 := if lk then unlink_linked c else unlink_unlinked c in
      let do2 := (if fix2_nested c then do1 else true) && (if nx =? 0 then fix2_null c else fix2_nonnull c) in
      let s1 := if do1 then fix_pred (set_lst s (remove_nat n (lst s))) (lst s) n nx else s in   (* node->prev->next = node->next *)
      let s2 := if do2 then match dec nx with Some m => fix_next s1 m lk (memb m (lst s)) | None => s1 end
                else s1 in                                                                    (* node->next->prev = node->prev *)
      Some (set_client (mark s2 n (SHeld t)) t (goto cl (CKResume n)))
    end
  | CKResume n => Some (set_client (mark (resume_node s n) n (SFin t)) t (goto cl (CKFinish n)))
  | CKFinish n => Some (set_client (release s n) t (finish_op cl (RK (Some true))))
  end.

(* add_awaiter's decision on (expected_value, word) *)
Definition enq_ok (x v : Z) : bool := if add_rejects c then negb (add_when c x v) else add_when c x v.

(* the critical section of add_awaiter once the decision [ok] is made, and the rest of await_suspend.
   Ghost: a node queued while the word does not match the expected value counts as a violation ([bad]) *)
Definition finish_add (s : st) (i : nat) (k : coro) (j n : nat) (x : Z) (tok ok : bool) : st :=
  let sl := slot_at s n in
  let s1 := if ok then set_nnext (put_slot (set_lst s (n :: lst s)) n (upd_slot sl (ver sl) true SQueued))
                                 n (enc (hd_error (lst s)))
            else s in
  let s2 := if (if ok then rel_succ c else rel_fail c) then release (take s1 n SFree) n
            else if (if tok then cb_tok c else cb_notok c)
                 then set_tokens s1 (tokens s1 ++ [((i, j), (n, nidv sl))]) else s1 in
  let s3 := if ok && negb (x =? fv s) then set_ghost s2 (S (bad s2)) (rlog s2) else s2 in
  if ok then set_coro s3 i (set_kst k (KSusp j n)) else set_coro s3 i (set_kst k (KReady (S j))).

Definition step_coro (s : st) (i : nat) (k : coro) : option st :=
  match kstv k with
  | KReady j =>
    match nth_error (kprog k) j with
    | None => Some (set_coro s i (set_kst k KDone))
    | Some _ => let '(s1, n) := emplace s i j (kexec k) in Some (set_coro s1 i (set_kst k (KLock j n)))
    end
  | KLock j n =>                                       (* add_awaiter, then the rest of await_suspend *)
    if cmp_locked c then                               (* lock; compare; enqueue; unlock: one critical section *)
      match mtx s with
      | Some _ => None
      | None =>
        match nth_error (kprog k) j with
        | None => None
        | Some (x, tok) => Some (finish_add s i k j n x tok (enq_ok x (fv s)))
        end
      end
    else                                               (* the word is compared before the mutex is taken *)
      match nth_error (kprog k) j with
      | None => None
      | Some (x, tok) =>
        if enq_ok x (fv s) then Some (set_coro s i (set_kst k (KEnq j n)))
        else Some (finish_add s i k j n x tok false)
      end
  | KEnq j n =>                                        (* lock; enqueue unconditionally; unlock *)
    match mtx s with
    | Some _ => None
    | None =>
      match nth_error (kprog k) j with
      | None => None
      | Some (x, tok) => Some (finish_add s i k j n x tok true)
      end
    end
  | KSusp _ _ => None
  | KResumed j => Some (set_coro s i (set_kst k (KReady (S j))))
  | KDone => None
  end.

Definition step (s : st) (t : nat) : option st :=
  let nc := length (clients s) in
  if (t <? nc)%nat then
    match nth_error (clients s) t with Some cl => step_client s t cl | None => None end
  else
    match nth_error (coros s) (t - nc) with Some k => step_coro s (t - nc) k | None => None end.
End Step.

(* ---------------------------------------------------------------- observations *)
Definition client_idle (cl : client) : bool :=
  match cpcv cl with CIdle => true | _ => false end.
Definition client_done (cl : client) : bool :=
  client_idle cl && match nth_error (cprog cl) (copi cl) with None => true | Some _ => false end.
Definition coro_quiet (k : coro) : bool :=
  match kstv k with KSusp _ _ | KDone => true | _ => false end.
(* nothing in flight: every client between operations, every coroutine suspended or finished *)
Definition quiescent (s : st) : bool :=
  forallb client_idle (clients s) && forallb coro_quiet (coros s) && match mtx s with None => true | _ => false end.

Definition progress (k : coro) : nat * bool :=
  match kstv k with
  | KReady j | KLock j _ | KEnq j _ | KSusp j _ | KResumed j => (j, false)
  | KDone => (length (kprog k), true)
  end.
Definition outcome (s : st) : list (list res) * list (nat * bool) :=
  (map cres (clients s), map progress (coros s)).
Definition all_clients_done (s : st) : bool := forallb client_done (clients s).
Definition in_use (s : st) : nat := (length (slots s) - length (freel s))%nat.

(* ---------------------------------------------------------------- BasicCancellable: resume(id) vs cancel(id)
   Both call DepositBox::take(id); the winner either sets _canceled and resumes the awaiter (cancel) or registers the
   awaiter on the proxy promise, whose final_suspend resumes it (resume).  The awaiter's await_resume returns an
   empty optional iff canceled().  [who] lists the calls in the order of their take CAS. *)
Inductive cwho := CCancel | CResume.
Record cbox := { cver : Z; ccanceled : bool; cresumed : nat; cwins : list cwho }.
Definition cinit (v : Z) : cbox := {| cver := v; ccanceled := false; cresumed := 0; cwins := [] |}.
Definition ccall (idv : Z) (b : cbox) (w : cwho) : cbox :=
  if cver b =? idv then
    {| cver := cver b + 1; ccanceled := match w with CCancel => true | CResume => ccanceled b end;
       cresumed := S (cresumed b); cwins := cwins b ++ [w] |}
  else b.
Definition crun (idv : Z) (calls : list cwho) : cbox := fold_left (ccall idv) calls (cinit idv).
Definition cresult_empty (b : cbox) : bool := ccanceled b.
