(* C14 - Id allocator / deposit box: live ids unique, one taker wins, stale ids never match.
   Only statements; proofs are `exact <lemma of ID/IDProofs.v, ID/IDWrap.v, ID/IDLitmus.v>`.

   Executions.  `run st (step c) (init c progs) sch` is the execution of the client programs `progs` (one list of
   allocate / deallocate / emplace / take_released / finish_released calls per thread) under the schedule `sch`, one
   step = one atomic operation of id_allocator.hpp / deposit_box.h - every theorem is quantified over all programs, all
   thread counts and all schedules, including a pop racing with pop-push-pop of the same value.  Thread ids: a thread is
   born by its first allocate (thread_local constructor) and dies by its deallocate (destructor); all birth/death orders
   are schedules of programs [OAlloc; ...; OFree 0].
   c = (tail, vmod): tail = FREE_LIST_TAIL, vmod = modulus of the version arithmetic: 2^16 for IdAllocator<uint16_t>
   (ThreadId), 2^32 for IdAllocator<uint32_t> / the deposit slots; vmod = 0 stands for unbounded versions.

   Hypotheses.
     nv <= ACTIVE_FLAG         fewer values were minted than the value type can name besides its two sentinels (65534
                               for ThreadId - the documented limit).
     no_wrap_in_window c progs sch   (ID/IDWrap.v) either vmod = 0, or along the execution (a) whenever a CAS on the
                               free-list head is pending, fewer than vmod pushes (successful deallocate CASes) happened
                               since the head load it compares against, and (b) whenever take_released is about to run on
                               an id, the slot's version is fewer than vmod ahead of the id's version.  Both are read off
                               the ghost execution `ghost_run c progs sch`: the same programs and schedule with unbounded
                               versions, whose head version IS the number of pushes so far and whose slot / id versions
                               are the unwrapped ones (windowedb evaluates the predicate; it is decidable).
                               (a) is asked for the CAS of deallocate too - only the proof technique (step-for-step
                               simulation) needs that: a push that succeeds after a full wrap installs a correct link.
                               (b) in the property's words: fewer than 2^32 deallocations of the box's allocator between
                               the pop that issued the id and the take (slot versions are copies of the allocator's
                               head version, so it is the allocator's push count that matters, not the slot's own).
   Under these hypotheses the real-width execution is step for step the image of the ghost execution
   (c14_wrapped_run_is_image) and all statements hold for vmod = 2^16 / 2^32.  The boundary is sharp:
   c14_unique_owner_refuted is the execution with EXACTLY vmod = 65536 pushes inside one allocate window
   (c14_refuted_witness_is_outside_the_window), with 65535 the hypothesis holds (c14_window_example); the harness replays
   the witness on the real IdAllocator<uint16_t> on every run (known finding version-wrap-aba-u16).
   Publication (release/acquire half, view machine of coq/WM/RA.v, orders regenerated from the source): see the end.
   Not modelled: for_each's grouping into ranges, ConcurrentVector growth, _next_value overflow. *)
From Coq Require Import ZArith List Bool.
Require Import Verif.Gen.Gen_id_allocator Verif.Conc.Machine Verif.ID.IDModel Verif.ID.IDProofs Verif.ID.IDWrap Verif.ID.IDAcc.
Import ListNotations.
Local Open Scope Z_scope.

(* the real-width execution is the image (every version reduced mod vmod) of the ghost execution *)
Theorem c14_wrapped_run_is_image : forall c progs sch, no_wrap_in_window c progs sch ->
  let sw := run st (step c) (init c progs) sch in
  nv (sh sw) <= ACTc c ->
  let su := ghost_run c progs sch in
  Reach (unb c) progs su /\ nv (sh su) <= ACTc (unb c) /\ sw = Wst c su /\ (0 < vmod c -> win_stb c su = true).
Proof. exact wrapped_run_is_image. Qed.
Print Assumptions c14_wrapped_run_is_image.

(* No value has two owners: the values on the free list, kept by a thread, taken from the box, sitting in the box or
   in transit inside an allocate/deallocate/emplace call are pairwise distinct. *)
Theorem c14_unique_owner : forall c progs sch, no_wrap_in_window c progs sch ->
  let s := run st (step c) (init c progs) sch in
  nv (sh s) <= ACTc c -> NoDup (fl (sh s) ++ owners s).
Proof. exact idw_unique_owner. Qed.
Print Assumptions c14_unique_owner.

(* ... in particular the ids clients hold at any moment are distinct and none of them is on the free list *)
Theorem c14_held_ids_unique : forall c progs sch, no_wrap_in_window c progs sch ->
  let s := run st (step c) (init c progs) sch in
  nv (sh s) <= ACTc c -> NoDup (held_values s) /\ (forall v, In v (held_values s) -> ~ In v (fl (sh s))).
Proof. exact idw_held_unique. Qed.
Print Assumptions c14_held_ids_unique.

(* ABA: whenever a thread's pop CAS is about to succeed (head value AND version equal what it loaded), the link it
   loaded earlier is the current link of the current top - whatever pops and pushes happened in between *)
Theorem c14_pop_cas_never_stale : forall c progs sch, no_wrap_in_window c progs sch ->
  let s := run st (step c) (init c progs) sch in
  nv (sh s) <= ACTc c ->
  forall t th cv ck nx, nth_error (threads s) t = Some th -> tpc th = ACas cv ck nx ->
  hv (sh s) = cv -> hk (sh s) = ck -> getz (nxt (sh s)) cv = nx /\ exists r, fl (sh s) = cv :: r.
Proof. exact idw_pop_cas_current. Qed.
Print Assumptions c14_pop_cas_never_stale.

(* without the window hypothesis the statement is false for the real 16-bit version ... *)
Theorem c14_unique_owner_refuted :
  exists progs sch, let s := run st (step c16) (init c16 progs) sch in
    nv (sh s) <= ACTc c16 /\ ~ NoDup (held_values s).
Proof. exact id_unique_owner_refuted. Qed.
Print Assumptions c14_unique_owner_refuted.
(* ... and the witness is exactly the boundary: 65536 pushes inside one window violate the hypothesis, 65535 do not *)
Theorem c14_refuted_witness_is_outside_the_window :
  windowedb c16 (init (unb c16) (wrap_progs (Z.to_nat 65535))) (wrap_sched (Z.to_nat 65535)) = false.
Proof. exact wrap_witness_outside_window. Qed.
Print Assumptions c14_refuted_witness_is_outside_the_window.
Example c14_window_example : no_wrap_in_window c16 (wrap_progs (Z.to_nat 65534)) (wrap_sched (Z.to_nat 65534)).
Proof. exact wrap_control_inside_window. Qed.

(* "version bumped on every push": for unbounded versions the head version is a push counter - every step either keeps it
   (free list unchanged or popped) or is a successful push and adds exactly one, so it never decreases and no two pushes
   publish the same version.  Relies on `id.version = current_head.version + 1` sitting INSIDE the CAS retry loop of
   deallocate (regenerated: push_bump_in_loop); hoisted out of the loop the version is relative to the first head loaded
   and the model (like the code) lets the head version fall back after a retry.  The ABA argument
   (c14_pop_cas_never_stale), uniqueness and c14_stale_never_matches are proved on top of this step behaviour. *)
Theorem c14_push_bumps_version : forall c s t s', vmod c = 0 -> step c s t = Some s' ->
  (hk (sh s') = hk (sh s) /\ (fl (sh s') = fl (sh s) \/ fl (sh s') = tl (fl (sh s)))) \/
  (hk (sh s') = hk (sh s) + 1 /\ exists v, fl (sh s') = v :: fl (sh s)).
Proof. exact id_push_bumps_version. Qed.
Print Assumptions c14_push_bumps_version.
Theorem c14_head_version_monotone : forall c sch s, vmod c = 0 -> hk (sh s) <= hk (sh (run st (step c) s sch)).
Proof. exact id_head_version_monotone. Qed.
Print Assumptions c14_head_version_monotone.
Theorem c14_version_bump_inside_retry_loop : push_bump_in_loop = 1.
Proof. reflexivity. Qed.
Print Assumptions c14_version_bump_inside_retry_loop.

(* an allocate that runs alone while the free list is not empty returns its top and mints nothing *)
Theorem c14_reuse_when_quiet : forall c progs sch, no_wrap_in_window c progs sch ->
  let s := run st (step c) (init c progs) sch in
  nv (sh s) <= ACTc c ->
  forall t th x rest r, nth_error (threads s) t = Some th -> tpc th = Idle -> prog th = OAlloc :: r ->
  fl (sh s) = x :: rest ->
  let s' := run st (step c) s [t; t; t; t] in
  nv (sh s') = nv (sh s) /\ fl (sh s') = rest /\
  exists th', nth_error (threads s') t = Some th' /\ tpc th' = Idle /\ prog th' = r /\
              held th' = (x, hk (sh s)) :: held th /\ results th' = RId x (hk (sh s)) :: results th.
Proof. exact idw_reuse_when_quiet. Qed.
Print Assumptions c14_reuse_when_quiet.

(* for_each at quiescence (no call in progress) reports exactly the values clients hold *)
Theorem c14_for_each_exact : forall c progs sch, no_wrap_in_window c progs sch ->
  let s := run st (step c) (init c progs) sch in
  nv (sh s) <= ACTc c -> quiescent s = true -> forall v, In v (live c (sh s)) <-> In v (held_values s).
Proof. exact idw_for_each_exact. Qed.
Print Assumptions c14_for_each_exact.

(* the scan bound of for_each as the source computes it, min(capacity of the link table, _next_value), is _next_value at
   quiescence for EVERY configuration - in particular for 16-bit ids with up to the documented 65534 live values, where
   the capacity (whole blocks of FREE_BLOCK = 128 cells) reaches 65536 = 2^16: a bound computed in the id type would
   wrap to 0 there (c14_for_each_bound_in_id_type_refuted) *)
Theorem c14_for_each_scans_all_minted : forall c progs s, Reach c progs s -> quiescent s = true ->
  foreach_bound c (sh s) = nv (sh s).
Proof. exact quiescent_bound. Qed.
Print Assumptions c14_for_each_scans_all_minted.
Theorem c14_for_each_bound_in_id_type_refuted :
  exists capacity next, 0 < next <= 65534 /\ next <= capacity /\ capacity mod FREE_BLOCK = 0 /\
                        Z.min (capacity mod (65535 + 1)) next = 0.
Proof. exists 65536, 65534. repeat split; try reflexivity; discriminate. Qed.
Print Assumptions c14_for_each_bound_in_id_type_refuted.

(* thread ids: two different threads never own the same value, whatever the order of births and deaths *)
Theorem c14_thread_ids : forall c progs sch, no_wrap_in_window c progs sch ->
  let s := run st (step c) (init c progs) sch in
  nv (sh s) <= ACTc c ->
  forall t1 t2 th1 th2 v, t1 <> t2 -> nth_error (threads s) t1 = Some th1 -> nth_error (threads s) t2 = Some th2 ->
  In v (owned_thread th1) -> In v (owned_thread th2) -> False.
Proof. exact idw_threads_disjoint. Qed.
Print Assumptions c14_thread_ids.

(* deposit box: read with their unwrapped versions (one per emplace round) the won ids are pairwise distinct - no
   emplace round has two winners - and no take of an issued id ever failed while nobody had won it (miss): among any
   number of takes of one id exactly one obtains the item *)
Theorem c14_one_taker : forall c progs sch, no_wrap_in_window c progs sch ->
  let s := run st (step c) (init c progs) sch in
  nv (sh s) <= ACTc c ->
  exists wu, wu = wins (sh (ghost_run c progs sch)) /\ wins (sh s) = map (Wid c) wu /\ NoDup wu /\ miss (sh s) = false.
Proof. exact idw_one_taker. Qed.
Print Assumptions c14_one_taker.

(* every id handed out by emplace is either already won or still in the box with its slot version matching *)
Theorem c14_issued_id_matches_until_taken : forall c progs sch, no_wrap_in_window c progs sch ->
  let s := run st (step c) (init c progs) sch in
  nv (sh s) <= ACTc c ->
  forall i, In i (ids (sh s)) -> In i (wins (sh s)) \/ (In i (boxed (sh s)) /\ getz (sver (sh s)) (fst i) = snd i).
Proof. exact idw_issued_won_or_boxed. Qed.
Print Assumptions c14_issued_id_matches_until_taken.

(* an id whose item was taken (unwrapped version ku) does not match its slot - in any execution, however long it
   continues after the take and however often the slot is reused - as long as the slot's unwrapped version is fewer than
   vmod = 2^32 ahead of ku; for unbounded versions: never *)
Theorem c14_stale_never_matches : forall c progs sch, no_wrap_in_window c progs sch ->
  let s := run st (step c) (init c progs) sch in
  nv (sh s) <= ACTc c ->
  forall v ku, In (v, ku) (wins (sh (ghost_run c progs sch))) ->
  (vmod c = 0 \/ getz (sver (sh (ghost_run c progs sch))) v - ku < vmod c) ->
  getz (sver (sh s)) v <> wrapk c ku.
Proof. exact idw_stale_never_matches. Qed.
Print Assumptions c14_stale_never_matches.
(* the unbounded statement along every continuation (the slot version only grows) *)
Theorem c14_stale_never_matches_unbounded : forall c progs s v k sch, vmod c = 0 -> Reach c progs s ->
  In (v, k) (wins (sh s)) ->
  let s2 := run st (step c) s sch in nv (sh s2) <= ACTc c -> k < getz (sver (sh s2)) v.
Proof. exact id_stale_never_matches. Qed.
Print Assumptions c14_stale_never_matches_unbounded.

(* ---- the RAII layer: DepositBox::Accessor.  Every thread has accessor objects ("holders"); take() into a holder is a
   move assignment from a temporary followed by the temporary's destructor; holders are move-assigned, move-constructed
   and destroyed.  The special members of the model are interpreted from the regenerated source (the three std::swap
   calls of operator=, the std::exchange of the move constructor, the destructor's test). ---- *)
(* every successful take is finished exactly once:  #successful takes = #finish_released calls + #ids currently held
   (raw taken ids + armed accessors) in every reachable state of every program, for every version width.  Hence
   finish_released is never called more often than takes succeeded, and once nobody holds an id any more each won id has
   been finished.  (That the calls hit distinct slots - no double finish of one slot while another leaks - is
   c14_unique_owner, whose owners include the values held through armed accessors.) *)
Theorem c14_accessor_balance : forall c progs s, Reach c progs s ->
  Z.of_nat (length (wins (sh s))) = nfin (sh s) + Z.of_nat (held_count s).
Proof. exact id_accessor_balance. Qed.
Print Assumptions c14_accessor_balance.
Theorem c14_accessor_releases_once : forall c progs s, Reach c progs s ->
  nfin (sh s) <= Z.of_nat (length (wins (sh s))) /\
  ((forall th, In th (threads s) -> taken th = [] /\ filter fst (accs th) = []) ->
   nfin (sh s) = Z.of_nat (length (wins (sh s)))).
Proof. exact id_accessor_releases_once. Qed.
Print Assumptions c14_accessor_releases_once.
(* what the proofs use of the source: move assignment exchanges the two accessors, the move constructor disarms its source *)
Theorem c14_accessor_move_assign_is_swap : forall a b, acc_assign (a, b) = (b, a).
Proof. exact id_accessor_assign_is_swap. Qed.
Print Assumptions c14_accessor_move_assign_is_swap.
Theorem c14_accessor_move_ctor_disarms_source : forall o, acc_ctor o = (o, (false, snd o)).
Proof. exact id_accessor_move_ctor_disarms_source. Qed.
Print Assumptions c14_accessor_move_ctor_disarms_source.

(* the memory orders the argument relies on are the ones in the source (regenerated site tables): head loads
   acquire, pop CAS acq_rel, push CAS release/acquire, take is a strong CAS *)
Theorem c14_memory_order_obligations : orders_ok = true.
Proof. exact id_orders_ok. Qed.
Print Assumptions c14_memory_order_obligations.

(* non-vacuity *)
Example c14_cas_pending_example : exists s th, Reach cU ex_progs s /\ nv (sh s) <= ACTc cU /\
  nth_error (threads s) 1 = Some th /\ tpc th = ACas 0 2 1 /\ hv (sh s) = 0 /\ hk (sh s) = 2 /\ fl (sh s) = [0; 1].
Proof. exact id_example_cas_pending. Qed.
Example c14_aba_example : exists s th, Reach cU ex_progs s /\
  nth_error (threads s) 1 = Some th /\ tpc th = ACas 0 2 1 /\ hv (sh s) = 0 /\ hk (sh s) = 3 /\
  getz (nxt (sh s)) 0 = 65535 /\ held_values s = [1].
Proof. exact id_example_aba. Qed.
Example c14_reused_slot_example : exists s, Reach cU ex_box s /\ nv (sh s) <= ACTc cU /\ quiescent s = true /\
  ids (sh s) = [(0, 0); (0, 1)] /\ wins (sh s) = [(0, 0)] /\ boxed (sh s) = [(0, 1)] /\ live cU (sh s) = [0].
Proof. exact id_example_box. Qed.
Example c14_wrap_needs_exactly_65536 : nodupb (held_values (wrap_final (Z.to_nat 65534))) = true.
Proof. exact id_wrap_control. Qed.

(* ---- publication: the release/acquire half on the explicit view machine of coq/WM/RA.v, memory orders regenerated
   from id_allocator.hpp / deposit_box.h (ID/IDLitmusDefs.v has the skeletons).  For EVERY execution of the view machine
   (any schedule, any message a relaxed/acquire load may legally read): *)
Require Import Verif.Base.Atomics Verif.WM.RA Verif.WM.RALitmus Verif.ID.IDLitmusDefs Verif.ID.IDLitmus.

(* an allocate that sees a value on top through its (acquire) head load reads the link that value's deallocate stored
   (relaxed store, published by the release CAS) *)
Theorem c14_link_publication : forall sch, RA.final (RA.run (RA.init id_link_src) sch) = true ->
  id_link_bad (RA.result (RA.run (RA.init id_link_src) sch)) = false.
Proof. exact id_link_all. Qed.
Print Assumptions c14_link_publication.
(* ... also when it learns the head through the reload of a failed pop CAS *)
Theorem c14_link_publication_after_failed_cas : forall sch, RA.final (RA.run (RA.init id_link_casfail_src) sch) = true ->
  id_link_bad (RA.result (RA.run (RA.init id_link_casfail_src) sch)) = false.
Proof. exact id_link_casfail_all. Qed.
Print Assumptions c14_link_publication_after_failed_cas.
(* ... and through a second push and a pop in between (release sequence through the read-modify-writes on the head) *)
Theorem c14_link_publication_chain : forall sch, RA.final (RA.run (RA.init id_chain_src) sch) = true ->
  id_chain_bad (RA.result (RA.run (RA.init id_chain_src) sch)) = false.
Proof. exact id_chain_all. Qed.
Print Assumptions c14_link_publication_chain.
(* whatever the previous owner of a value did to the resource it names happens-before what the next owner does: no
   data race across a reuse (thread-local slots, deposit items between finish_released and the next emplace) *)
Theorem c14_handover_publication : forall sch, RA.final (RA.run (RA.init id_handover_src) sch) = true ->
  id_handover_bad (RA.result (RA.run (RA.init id_handover_src) sch)) = false.
Proof. exact id_handover_all. Qed.
Print Assumptions c14_handover_publication.
Theorem c14_handover_publication_after_failed_cas : forall sch,
  RA.final (RA.run (RA.init id_handover_casfail_src) sch) = true ->
  id_handover_bad (RA.result (RA.run (RA.init id_handover_casfail_src) sch)) = false.
Proof. exact id_handover_casfail_all. Qed.
Print Assumptions c14_handover_publication_after_failed_cas.
(* deposit box: emplace's version store and take's CAS are relaxed in the source - the item is published by the channel
   through which the client hands the id to the takers; if that channel is release/acquire, exactly one of two takers
   gets the item emplaced, without a data race *)
Theorem c14_deposit_item_publication : forall sch, RA.final (RA.run (RA.init box_take_src) sch) = true ->
  box_take_bad (RA.result (RA.run (RA.init box_take_src) sch)) = false.
Proof. exact box_take_all. Qed.
Print Assumptions c14_deposit_item_publication.

(* which orders carry the obligations, and what goes wrong without them (the execution is printed by the check's search) *)
Theorem c14_link_publication_orders : forall o_push o_head,
  id_link_safe Relaxed o_push o_head Relaxed = has_release o_push && has_acquire o_head.
Proof. exact id_link_safe_iff. Qed.
Print Assumptions c14_link_publication_orders.
Theorem c14_link_publication_relaxed_push_refuted :
  exists sch, RA.final (RA.run (RA.init (id_link_prog Relaxed Relaxed Acquire Relaxed)) sch) = true /\
              id_link_bad (RA.result (RA.run (RA.init (id_link_prog Relaxed Relaxed Acquire Relaxed)) sch)) = true.
Proof. exact id_link_relaxed_push_witness. Qed.
Print Assumptions c14_link_publication_relaxed_push_refuted.
Theorem c14_handover_relaxed_head_load_refuted :
  exists sch, RA.final (RA.run (RA.init (id_handover_prog Relaxed Release Relaxed)) sch) = true /\
              id_handover_bad (RA.result (RA.run (RA.init (id_handover_prog Relaxed Release Relaxed)) sch)) = true.
Proof. exact id_handover_relaxed_load_witness. Qed.
Print Assumptions c14_handover_relaxed_head_load_refuted.
Theorem c14_deposit_item_needs_client_channel : forall o_cst o_cld,
  box_take_safe o_emplace_version o_take_cas o_cst o_cld = has_release o_cst && has_acquire o_cld.
Proof. exact box_take_safe_iff. Qed.
Print Assumptions c14_deposit_item_needs_client_channel.
Theorem c14_deposit_item_relaxed_channel_refuted :
  exists sch, RA.final (RA.run (RA.init (box_take_prog Relaxed Relaxed Relaxed Relaxed)) sch) = true /\
              box_take_bad (RA.result (RA.run (RA.init (box_take_prog Relaxed Relaxed Relaxed Relaxed)) sch)) = true.
Proof. exact box_take_relaxed_channel_witness. Qed.
Print Assumptions c14_deposit_item_relaxed_channel_refuted.

(* special members: IdAllocator(IdAllocator&&) and operator=(IdAllocator&&) are `= default` in id_allocator.h and no
   special member is defined by hand in id_allocator.hpp (regenerated counts) - a move carries the whole abstract state
   (head value and version, free list, _next_value, link table) to the new object, so every statement above about
   `sh s` (c14_reuse_when_quiet in particular: the next solo allocate reuses the top of the free list and mints
   nothing) continues to hold for the moved-to allocator.  A hand-written special member makes move_defaulted false and
   the model's move drops the free list: these proofs then fail. *)
Require Import Verif.ID.IDMove.
Theorem c14_move_transfers_free_list : forall c s, move_shared c s = s.
Proof. exact move_shared_id. Qed.
Print Assumptions c14_move_transfers_free_list.
Theorem c14_move_keeps_head_and_links : forall c s,
  hv (move_shared c s) = hv s /\ hk (move_shared c s) = hk s /\ fl (move_shared c s) = fl s /\
  nv (move_shared c s) = nv s /\ nxt (move_shared c s) = nxt s.
Proof. exact move_keeps_free_list. Qed.
Print Assumptions c14_move_keeps_head_and_links.
