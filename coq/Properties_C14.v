From Coq Require Import ZArith List Bool.
Require Import Verif.Gen.Gen_id_allocator Verif.Conc.Machine Verif.ID.IDModel Verif.ID.IDProofs.
Import ListNotations.
Local Open Scope Z_scope.

Theorem c14_memory_order_obligations : orders_ok = true.
Proof. exact id_orders_ok. Qed.
Print Assumptions c14_memory_order_obligations.
