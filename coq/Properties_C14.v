(* C14 - Id allocator / deposit box: live ids unique, one taker wins, stale ids never match.
   Only statements; proofs are `exact <lemma of ID/IDProofs.v>`.

   Reach c progs s = "s is reachable from the initial state of the client programs `progs` (one list of
   allocate / deallocate / emplace / take_released / finish_released calls per thread) under SOME schedule", one
   step = one atomic operation of id_allocator.hpp / deposit_box.h - so every theorem below is quantified over all
   programs, all thread counts and all interleavings, including a pop racing with pop-push-pop of the same value.
   Thread ids: a thread is born by its first allocate (thread_local constructor) and dies by its deallocate
   (destructor); all birth/death orders are schedules of programs [OAlloc; ...; OFree 0].

   Hypotheses, and what `_partial` means here.  c = (tail, vmod): tail = FREE_LIST_TAIL, vmod = modulus of the
   version arithmetic.  Every `_partial` theorem assumes
     vmod c = 0          versions do not wrap, and
     nv <= ACTIVE_FLAG   fewer values were minted than the value type can name besides its two sentinels
                         (65534 for ThreadId - the documented limit).
   With the real 16-bit version the FULL statement (no value has two owners, for all interleavings) is FALSE:
   c14_unique_owner_refuted gives the programs and the schedule (an allocate stalled between its loads and its CAS
   across exactly 65536 pushes); the harness replays exactly this schedule on the real IdAllocator<uint16_t> on every
   run (known finding version-wrap-aba-u16).  What is missing between the two: the conditional theorem for the wrapped
   model ("if fewer than vmod pushes happen between any allocate's head load and its CAS then ...") is not proved; the
   unbounded-version theorems are its instance for windows that never wrap.  For the deposit box (32-bit slot
   versions, 2^32 reuses of one slot needed) the wrap is likewise excluded by vmod c = 0 and not refuted by witness.
   Not modelled: for_each's grouping into ranges, ConcurrentVector growth, _next_value overflow. *)
From Coq Require Import ZArith List Bool.
Require Import Verif.Gen.Gen_id_allocator Verif.Conc.Machine Verif.ID.IDModel Verif.ID.IDProofs.
Import ListNotations.
Local Open Scope Z_scope.

(* No value has two owners: the values on the free list, kept by a thread, taken from the box, sitting in the box or
   in transit inside an allocate/deallocate/emplace call are pairwise distinct - in every reachable state. *)
Theorem c14_unique_owner_partial : forall c progs s, vmod c = 0 -> Reach c progs s -> nv (sh s) <= ACTc c ->
  NoDup (fl (sh s) ++ owners s).
Proof. exact id_unique_owner. Qed.
Print Assumptions c14_unique_owner_partial.

(* ... in particular the ids clients hold at any moment are distinct and none of them is on the free list *)
Theorem c14_held_ids_unique_partial : forall c progs s, vmod c = 0 -> Reach c progs s -> nv (sh s) <= ACTc c ->
  NoDup (held_values s) /\ (forall v, In v (held_values s) -> ~ In v (fl (sh s))).
Proof. exact id_held_unique. Qed.
Print Assumptions c14_held_ids_unique_partial.

(* ABA: whenever a thread's pop CAS is about to succeed (head value AND version equal what it loaded), the link it
   loaded earlier is the current link of the current top - whatever pops and pushes happened in between *)
Theorem c14_pop_cas_never_stale_partial : forall c progs s t th cv ck nx, vmod c = 0 -> Reach c progs s ->
  nv (sh s) <= ACTc c -> nth_error (threads s) t = Some th -> tpc th = ACas cv ck nx ->
  hv (sh s) = cv -> hk (sh s) = ck -> getz (nxt (sh s)) cv = nx /\ exists r, fl (sh s) = cv :: r.
Proof. exact id_pop_cas_current. Qed.
Print Assumptions c14_pop_cas_never_stale_partial.

(* the same statement for the real 16-bit version is false *)
Theorem c14_unique_owner_refuted :
  exists progs sch, let s := run st (step c16) (init c16 progs) sch in
    nv (sh s) <= ACTc c16 /\ ~ NoDup (held_values s).
Proof. exact id_unique_owner_refuted. Qed.
Print Assumptions c14_unique_owner_refuted.

(* an allocate that runs alone while the free list is not empty returns its top and mints nothing *)
Theorem c14_reuse_when_quiet_partial : forall c progs s t th x rest r, vmod c = 0 -> Reach c progs s ->
  nv (sh s) <= ACTc c -> nth_error (threads s) t = Some th -> tpc th = Idle -> prog th = OAlloc :: r ->
  fl (sh s) = x :: rest ->
  let s' := run st (step c) s [t; t; t; t] in
  nv (sh s') = nv (sh s) /\ fl (sh s') = rest /\
  exists th', nth_error (threads s') t = Some th' /\ tpc th' = Idle /\ prog th' = r /\
              held th' = (x, hk (sh s)) :: held th /\ results th' = RId x (hk (sh s)) :: results th.
Proof. exact id_reuse_when_quiet. Qed.
Print Assumptions c14_reuse_when_quiet_partial.

(* for_each at quiescence (no call in progress) reports exactly the values clients hold *)
Theorem c14_for_each_exact_partial : forall c progs s, vmod c = 0 -> Reach c progs s -> nv (sh s) <= ACTc c ->
  quiescent s = true -> forall v, In v (live c (sh s)) <-> In v (held_values s).
Proof. exact id_for_each_exact. Qed.
Print Assumptions c14_for_each_exact_partial.

(* thread ids: two different threads never own the same value, whatever the order of births and deaths *)
Theorem c14_thread_ids_partial : forall c progs s t1 t2 th1 th2 v, vmod c = 0 -> Reach c progs s ->
  nv (sh s) <= ACTc c -> t1 <> t2 -> nth_error (threads s) t1 = Some th1 -> nth_error (threads s) t2 = Some th2 ->
  In v (owned_thread th1) -> In v (owned_thread th2) -> False.
Proof. exact id_threads_disjoint. Qed.
Print Assumptions c14_thread_ids_partial.

(* deposit box: no id is won twice (wins records every successful take), and no take of an issued id ever failed
   while nobody had won it (miss) - so among any number of takes of one id exactly one obtains the item *)
Theorem c14_one_taker_partial : forall c progs s, vmod c = 0 -> Reach c progs s -> nv (sh s) <= ACTc c ->
  NoDup (wins (sh s)) /\ miss (sh s) = false.
Proof. exact id_one_taker. Qed.
Print Assumptions c14_one_taker_partial.

(* every id handed out by emplace is either already won or still in the box with its slot version matching *)
Theorem c14_issued_id_matches_until_taken_partial : forall c progs s i, vmod c = 0 -> Reach c progs s ->
  nv (sh s) <= ACTc c -> In i (ids (sh s)) ->
  In i (wins (sh s)) \/ (In i (boxed (sh s)) /\ getz (sver (sh s)) (fst i) = snd i).
Proof. exact id_issued_won_or_boxed. Qed.
Print Assumptions c14_issued_id_matches_until_taken_partial.

(* an id whose item was taken never matches its slot again, however the execution continues and however often the
   slot is reused: the slot version stays strictly above the id's version *)
Theorem c14_stale_never_matches_partial : forall c progs s v k sch, vmod c = 0 -> Reach c progs s ->
  In (v, k) (wins (sh s)) ->
  let s2 := run st (step c) s sch in nv (sh s2) <= ACTc c -> k < getz (sver (sh s2)) v.
Proof. exact id_stale_never_matches. Qed.
Print Assumptions c14_stale_never_matches_partial.

(* the memory orders the argument relies on are the ones in the source (regenerated site tables): head loads
   acquire, pop CAS acq_rel, push CAS release/acquire, take is a strong CAS *)
Theorem c14_memory_order_obligations : orders_ok = true.
Proof. exact id_orders_ok. Qed.
Print Assumptions c14_memory_order_obligations.

(* non-vacuity *)
Example c14_cas_pending_example : exists s th, Reach cU ex_progs s /\ nv (sh s) <= ACTc cU /\
  nth_error (threads s) 1 = Some th /\ tpc th = ACas 0 2 1 /\ hv (sh s) = 0 /\ hk (sh s) = 2 /\ fl (sh s) = [0; 1].
Proof. exact id_example_cas_pending. Qed.
Example c14_aba_example : exists s th, Reach cU ex_progs s /\
  nth_error (threads s) 1 = Some th /\ tpc th = ACas 0 2 1 /\ hv (sh s) = 0 /\ hk (sh s) = 3 /\
  getz (nxt (sh s)) 0 = 65535 /\ held_values s = [1].
Proof. exact id_example_aba. Qed.
Example c14_reused_slot_example : exists s, Reach cU ex_box s /\ nv (sh s) <= ACTc cU /\ quiescent s = true /\
  ids (sh s) = [(0, 0); (0, 1)] /\ wins (sh s) = [(0, 0)] /\ boxed (sh s) = [(0, 1)] /\ live cU (sh s) = [0].
Proof. exact id_example_box. Qed.
Example c14_wrap_needs_exactly_65536 : nodupb (held_values (wrap_final (Z.to_nat 65534))) = true.
Proof. exact id_wrap_control. Qed.
