(* Executable interleaving model of babylon::ConcurrentExecutionQueue<T, S>
   (src/babylon/concurrent/execution_queue.h) on top of an abstract ticketed FIFO standing for
   ConcurrentBoundedQueue (src/babylon/concurrent/bounded_queue.hpp).  No proofs here.

   One step = one atomic operation of execution_queue.h plus the local computation up to the next one.
   The inner queue is abstract but NOT atomic: exactly as in bounded_queue.hpp a push is
     (1) take a ticket       (fetch_add on _next_push_index)                      -> pc PPublish tk
     (2) publish the slot    (wait until slot tk - capacity was released, write, set_version)
   and the consumer's try_pop_n<false,false>(f, capacity) pops the maximal prefix of PUBLISHED tickets starting at
   _next_pop_index - it stops at the first ticket that is taken but not yet published, even when later tickets
   are published.  Coarsenings (each justified by commutation, see FRAMEWORK "one step = ..."):
     * the version loads of one try_pop_n scan are one step (slot versions of unpopped tickets only move from
       "not ready" to "ready", so the scan result equals an atomic snapshot taken at its last load);
     * try_pop_n wrapping around the ring calls the consume function twice; the model delivers one batch;
     * the set_version stores releasing a consumed batch are one step (they commute with everything a producer
       waiting for one of the slots does);
     * wait + payload write + set_version of a push are one step at the set_version;
     * _queue.size() (relaxed loads of _next_pop_index, which only this consumer writes, then of _next_push_index) is
       one step at the second load; the S::yield() that follows a non-zero size has no effect on the state.
   The queue's own correctness (each ticket's value is delivered to the pop of the same ticket, exclusively) is
   property C01 and is assumed here: `cells` is the list of tickets in ticket order.

   Executor: `async s = true` - every accepted launch creates a new thread running consume_until_empty;
   `async s = false` - inline: the launching producer runs it inside submit().  `faults s` : one bool per submit
   attempt in global order, true = refused (universally quantified in the theorems; exhausted list = accepted).

   Ghost: csig (the producer of the ticket has done its fetch_add on _events), stale (the last reset of _events to
   zero was the roll-back of a refused launch, not a consumer's exit). *)
From Coq Require Import ZArith List Bool.
Require Import Verif.Base.Atomics Verif.Gen.Gen_execution_queue Verif.Gen.Gen_execution_queue_sites.
Import ListNotations.
Local Open Scope Z_scope.

Inductive op :=
| OExec      (* queue.execute(T&&)      ; item = (thread, op index) *)
| OExecL     (* queue.execute(const T&) - the copying overload, same item encoding *)
| OSignal    (* queue.signal_push_event() *)
| OJoin.     (* queue.join() *)

(* RJoin k: when join() returned, k items whose execute() had already returned were not yet consumed *)
Inductive res := RExec (rc : Z) | RSignal (rc : Z) | RJoin (missing : nat).

Record cell := { cown : nat; cseq : nat; cpub : bool; csig : bool }.

Inductive pc :=
| Idle
| PTicket (idx : nat)            (* push<CONCURRENT=false> only: _next_push_index loaded (= idx); next: store(idx + 1) *)
| PPublish (tk : nat)            (* ticket tk taken; next: publish slot *)
| PSignal (tk : option nat)      (* pushed; next: _events.fetch_add *)
| PSubmit (e : Z)                (* start_consumer: next: _executor->submit(...)  (e = local `events`) *)
| PRollback (e : Z)              (* submit refused; next: CAS(_events: e -> 0) *)
| CStart                         (* consume_until_empty: next: events = _events.load *)
| CPoll (seen : Z)               (* next: try_pop_n scan *)
| CConsume                       (* inside the consume function; next: leave it and release the slots *)
| CReload                        (* next: events = _events.load *)
| CSize (seen : Z)               (* empty poll; next: _queue.size() - the load of _next_push_index *)
| CCas (seen : Z).               (* empty poll, no ticket outstanding; next: CAS(_events: seen -> 0) *)

Record thread := { prog : list op; opi : nat; tpc : pc; results : list res }.

Record st := {
  cap : nat; async : bool; faults : list bool;
  events : Z;
  cells : list cell;        (* tickets in ticket order; length = _next_push_index *)
  npop : nat;               (* _next_pop_index *)
  ndel : nat;               (* tickets whose consumption finished and whose slot was released *)
  stale : bool;
  threads : list thread
}.

Definition mk_thread (p : list op) : thread := {| prog := p; opi := 0; tpc := Idle; results := [] |}.
Definition init (capacity : nat) (asy : bool) (flt : list bool) (progs : list (list op)) : st :=
  {| cap := capacity; async := asy; faults := flt; events := 0; cells := []; npop := 0; ndel := 0; stale := false;
     threads := map mk_thread progs |}.

Fixpoint upd_nth {A} (f : A -> A) (n : nat) (l : list A) : list A :=
  match l, n with
  | [], _ => []
  | x :: r, O => f x :: r
  | x :: r, S n' => x :: upd_nth f n' r
  end.

Definition with_glob (s : st) (f : list bool) (e : Z) (c : list cell) (np nd : nat) (sl : bool) : st :=
  {| cap := cap s; async := async s; faults := f; events := e; cells := c; npop := np; ndel := nd; stale := sl;
     threads := threads s |}.
Definition set_events (s : st) (e : Z) (sl : bool) : st := with_glob s (faults s) e (cells s) (npop s) (ndel s) sl.
Definition set_cells (s : st) (c : list cell) : st := with_glob s (faults s) (events s) c (npop s) (ndel s) (stale s).

Definition goto (th : thread) (p : pc) : thread :=
  {| prog := prog th; opi := opi th; tpc := p; results := results th |}.
Definition finish_op (th : thread) (r : res) : thread :=
  {| prog := prog th; opi := S (opi th); tpc := Idle; results := results th ++ [r] |}.

(* result of the execute()/signal_push_event() call the thread is in *)
Definition call_res (th : thread) (rc : Z) : res :=
  match nth_error (prog th) (opi th) with Some OSignal => RSignal rc | _ => RExec rc end.
Definition is_exec (o : op) : bool := match o with OExec | OExecL => true | _ => false end.
(* op i of the thread's program is an execute() call (either overload) *)
Definition exec_at (th : thread) (i : nat) : bool :=
  match nth_error (prog th) i with Some o => is_exec o | None => false end.

Definition mark_pub (c : cell) : cell := {| cown := cown c; cseq := cseq c; cpub := true; csig := csig c |}.
Definition mark_sig (c : cell) : cell := {| cown := cown c; cseq := cseq c; cpub := cpub c; csig := true |}.

Fixpoint ready_prefix (l : list cell) : nat :=
  match l with
  | c :: r => if cpub c then S (ready_prefix r) else O
  | [] => O
  end.

(* execute() of ticket c has returned *)
Definition returned (ths : list thread) (c : cell) : bool :=
  match nth_error ths (cown c) with Some th => Nat.ltb (cseq c) (opi th) | None => false end.
Definition missing (s : st) : nat := length (filter (returned (threads s)) (skipn (ndel s) (cells s))).

(* the thread a consumer activation returns into: inline -> back in start_consumer with ret = 0; own thread -> done *)
Definition consumer_exit (th : thread) : thread :=
  match nth_error (prog th) (opi th) with
  | Some OJoin | None => goto th Idle
  | Some _ => if launch_accepted 0 then finish_op th (call_res th 0) else goto th (PRollback launch_events_init)
  end.

Definition consumer_thread : thread := {| prog := []; opi := 0; tpc := CStart; results := [] |}.

(* Structure of the roll-back in start_consumer, read off the regenerated site table: the shipped code retries the
   launch in a CAS loop (one compare_exchange_strong site).  A variant that retracts the launcher's own event with a
   single fetch_sub is followed by the model as such, and re-opens the proofs (EQProofs.g_rb_kind). *)
Definition rollback_is_fetch_sub : bool :=
  match sites_start_consumer with [(KFsub, _, _)] => true | _ => false end.

(* _events.fetch_add in signal_push_event *)
Definition do_signal (s : st) (th : thread) (tk : option nat) : st * thread * list thread :=
  let prev := events s in
  let c := match tk with Some k => upd_nth mark_sig k (cells s) | None => cells s end in
  let s1 := with_glob s (faults s) (prev + signal_amount) c (npop s) (ndel s) (stale s) in
  if signal_returns_early prev then (s1, finish_op th (call_res th 0), [])
  else (s1, goto th (PSubmit launch_events_init), []).

(* Which ConcurrentBoundedQueue::push the execute() overload of the current op calls: the CONCURRENT template flag
   is regenerated from both overloads.  true: the ticket is one atomic fetch_add; false: a relaxed load and a
   separate store(index + 1) - two steps, between which another producer can take the same ticket.  From the first
   duplicate ticket on the model only aims at exhibiting the failure (lost item / producer stuck for ever), it does
   not track _next_push_index moving backwards. *)
Definition push_concurrent_of (th : thread) : bool :=
  match nth_error (prog th) (opi th) with
  | Some OExecL => execute_copy_push_concurrent
  | _ => execute_move_push_concurrent
  end.

Definition take_ticket (s : st) (t : nat) (th : thread) (concurrent : bool) : option (st * thread * list thread) :=
  if concurrent then        (* _next_push_index.fetch_add(1) *)
    Some (set_cells s (cells s ++ [{| cown := t; cseq := opi th; cpub := false; csig := false |}]),
          goto th (PPublish (length (cells s))), [])
  else                      (* _next_push_index.load() *)
    Some (s, goto th (PTicket (length (cells s))), []).

(* (new globals, new own thread, threads created) *)
Definition step_thread (s : st) (t : nat) (th : thread) : option (st * thread * list thread) :=
  match tpc th with
  | Idle =>
    match nth_error (prog th) (opi th) with
    | None => None
    | Some OExec => take_ticket s t th execute_move_push_concurrent
    | Some OExecL => take_ticket s t th execute_copy_push_concurrent
    | Some OSignal => Some (do_signal s th None)
    | Some OJoin =>          (* while (_events.load(acquire)) usleep: blocked until the load reads zero *)
      if join_waits (events s) then None else Some (s, finish_op th (RJoin (missing s)), [])
    end
  | PTicket idx =>           (* _next_push_index.store(idx + 1) of a push<CONCURRENT=false> *)
    if push_concurrent_of th then None   (* no such program point in an overload that takes its ticket atomically *)
    else if Nat.eqb idx (length (cells s)) then
      Some (set_cells s (cells s ++ [{| cown := t; cseq := opi th; cpub := false; csig := false |}]),
            goto th (PPublish idx), [])
    else                     (* DUPLICATE TICKET: another push took ticket idx between the load and this store *)
      match nth_error (cells s) idx with
      | Some c => if cpub c then None     (* the slot version has moved on: this push waits for it for ever *)
                  else Some (set_cells s (upd_nth (fun _ => {| cown := t; cseq := opi th; cpub := false; csig := false |})
                                                  idx (cells s)), goto th (PPublish idx), [])
                                          (* both write the same slot: the other producer's item is overwritten *)
      | None => None
      end
  | PPublish tk =>           (* blocked while slot tk - capacity is not released *)
    if Nat.ltb tk (ndel s + cap s) then Some (set_cells s (upd_nth mark_pub tk (cells s)), goto th (PSignal (Some tk)), [])
    else None
  | PSignal tk => Some (do_signal s th tk)
  | PSubmit e =>
    let refused := match faults s with b :: _ => b | [] => false end in
    let s1 := with_glob s (tl (faults s)) (events s) (cells s) (npop s) (ndel s) (stale s) in
    if refused then
      if launch_accepted (-1) then Some (s1, finish_op th (call_res th 0), [])
      else Some (s1, goto th (PRollback e), [])
    else if async s then
      if launch_accepted 0 then Some (s1, finish_op th (call_res th 0), [consumer_thread])
      else Some (s1, goto th (PRollback e), [consumer_thread])
    else Some (s1, goto th CStart, [])
  | PRollback e =>           (* while (!_events.compare_exchange_strong(events, 0)) *)
    if rollback_is_fetch_sub then   (* not the shipped code: a launcher that only takes back its own event, no retry *)
      Some (set_events s (events s - signal_amount) true, finish_op th (call_res th (-1)), [])
    else if Z.eqb (events s) (rollback_expected e) then
      let s1 := set_events s rollback_desired true in
      if rollback_retries 1 then Some (s1, goto th (PSubmit e), []) else Some (s1, finish_op th (call_res th (-1)), [])
    else
      if rollback_retries 0 then Some (s, goto th (PSubmit (events s)), []) else Some (s, finish_op th (call_res th (-1)), [])
  | CStart => Some (s, goto th (CPoll (events s)), [])
  | CPoll seen =>            (* try_pop_n<false,false>(consume, capacity): scan + advance _next_pop_index + enter consume *)
    let n := Nat.min (ready_prefix (skipn (npop s) (cells s))) (Z.to_nat (poll_limit (Z.of_nat (cap s)))) in
    if poll_nonempty (Z.of_nat n)
    then Some (with_glob s (faults s) (events s) (cells s) (npop s + n)%nat (ndel s) (stale s), goto th CConsume, [])
    else Some (s, goto th (CSize seen), [])
  | CSize seen =>            (* _queue.size() != 0 ? yield and poll again : go on to the exit CAS *)
    if keep_role_while_tickets_out (queue_size (Z.of_nat (npop s)) (Z.of_nat (length (cells s))))
    then Some (s, goto th (CPoll seen), [])
    else Some (s, goto th (CCas seen), [])
  | CConsume =>              (* leave the consume function, release the slots *)
    Some (with_glob s (faults s) (events s) (cells s) (npop s) (npop s) (stale s), goto th CReload, [])
  | CReload => Some (s, goto th (CPoll (events s)), [])
  | CCas seen =>             (* _events.compare_exchange_strong(events, 0) *)
    if Z.eqb (events s) (exit_expected seen) then Some (set_events s exit_desired false, consumer_exit th, [])
    else Some (s, goto th (CPoll (events s)), [])
  end.

Definition install (s1 : st) (t : nat) (th' : thread) (sp : list thread) : st :=
  {| cap := cap s1; async := async s1; faults := faults s1; events := events s1; cells := cells s1; npop := npop s1;
     ndel := ndel s1; stale := stale s1; threads := upd_nth (fun _ => th') t (threads s1) ++ sp |}.

Definition step (s : st) (t : nat) : option st :=
  match nth_error (threads s) t with
  | Some th =>
    match step_thread s t th with
    | Some (s1, th', sp) => Some (install s1 t th' sp)
    | None => None
    end
  | None => None
  end.

Definition thread_done (th : thread) : bool :=
  match tpc th, nth_error (prog th) (opi th) with Idle, None => true | _, _ => false end.
Definition all_done (s : st) : bool := forallb thread_done (threads s).

Definition in_consume (th : thread) : bool := match tpc th with CConsume => true | _ => false end.
(* consumer activations currently inside the consume function *)
Definition inside (s : st) : nat := length (filter in_consume (threads s)).

(* what the implementation driver prints: per-op results of the client threads, delivery order, leftovers *)
Definition delivered (s : st) : list (nat * nat) := map (fun c => (cown c, cseq c)) (firstn (ndel s) (cells s)).
Definition outcome (nclients : nat) (s : st) : list (list res) * list (nat * nat) :=
  (map results (firstn nclients (threads s)), delivered s).
