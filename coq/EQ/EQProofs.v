(* Proofs about EQModel.  Statements are fixed by Properties_C16.v. *)
From Coq Require Import ZArith List Bool Lia Arith.
Require Import Verif.Base.Atomics Verif.Gen.Gen_execution_queue Verif.Conc.Machine Verif.EQ.EQModel.
Import ListNotations.
Local Open Scope Z_scope.

(* ---- vocabulary used by the statements ---- *)
Definition Reach (capacity : nat) (asy : bool) (flt : list bool) (progs : list (list op)) (s : st) : Prop :=
  reachable st step (init capacity asy flt progs) s.

(* owner of the event counter: a producer inside start_consumer or a launched / running consumer *)
Definition is_owner (th : thread) : bool :=
  match tpc th with
  | PSubmit _ | PRollback _ | CStart | CPoll _ | CConsume | CReload | CCas _ => true
  | _ => false
  end.
Definition owners (l : list thread) : nat := length (filter is_owner l).

(* a consumer activation: launched (CStart) or running *)
Definition is_consumer (th : thread) : bool :=
  match tpc th with CStart | CPoll _ | CConsume | CReload | CCas _ => true | _ => false end.

(* the producer is between taking its ticket and its fetch_add on _events *)
Definition in_flight (th : thread) : bool :=
  match tpc th with PPublish _ | PSignal (Some _) => true | _ => false end.

(* the head ticket of the queue (if there is one) belongs to a producer that has not signalled yet *)
Definition hu (cs : list cell) (np : nat) : Prop := forall c, nth_error cs np = Some c -> csig c = false.
Definition head_unsig (s : st) : Prop := hu (cells s) (npop s).

(* published tickets not yet popped *)
Definition pending_published (s : st) : list cell := filter cpub (skipn (npop s) (cells s)).

(* ---- facts about the regenerated expressions (the only place where they are unfolded) ---- *)
Lemma g_amount : 0 < signal_amount. Proof. reflexivity. Qed.
Lemma g_early : forall p, signal_returns_early p = negb (p =? 0).
Proof. intro p. unfold signal_returns_early. rewrite (Z.eqb_sym 0 p). reflexivity. Qed.
Lemma g_accept0 : launch_accepted 0 = true. Proof. reflexivity. Qed.
Lemma g_accept_m1 : launch_accepted (-1) = false. Proof. reflexivity. Qed.
Lemma g_rb_desired : rollback_desired = 0. Proof. reflexivity. Qed.
Lemma g_retry1 : rollback_retries 1 = false. Proof. reflexivity. Qed.
Lemma g_retry0 : rollback_retries 0 = true. Proof. reflexivity. Qed.
Lemma g_nonempty : forall n, poll_nonempty n = negb (n =? 0). Proof. reflexivity. Qed.
Lemma g_limit : forall c, poll_limit c = c. Proof. reflexivity. Qed.
Lemma g_exit_expected : forall e, exit_expected e = e. Proof. reflexivity. Qed.
Lemma g_exit_desired : exit_desired = 0. Proof. reflexivity. Qed.
Lemma g_join : forall e, join_waits e = negb (e =? 0). Proof. reflexivity. Qed.
Lemma g_rb_expected : forall e, rollback_expected e = e. Proof. reflexivity. Qed.

(* memory-order obligations on the regenerated site tables *)
Definition orders_ok : bool :=
  match sites_join, sites_signal, sites_start_consumer, sites_consume with
  | [(KLoad, o_join, _)], [(KFadd, o_sig, _)], [(KCasS, o_rb, _)],
    [(KLoad, o_c1, _); (KLoad, o_c2, _); (KCasS, o_exit, _)] =>
    has_acquire o_join && has_release o_sig && has_acquire o_sig && has_release o_rb && has_acquire o_rb &&
    has_acquire o_c1 && has_acquire o_c2 && has_release o_exit && has_acquire o_exit
  | _, _, _, _ => false
  end.
Lemma eq_orders_ok : orders_ok = true. Proof. reflexivity. Qed.
(* the push takes its ticket with a fetch_add before publishing (the ticket-then-publish structure the model uses) *)
Definition push_is_ticketed : bool :=
  match sites_bq_push with (KFadd, _, _) :: _ => true | _ => false end.
Lemma eq_push_is_ticketed : push_is_ticketed = true. Proof. reflexivity. Qed.

Global Opaque signal_amount signal_returns_early launch_accepted rollback_desired rollback_retries poll_nonempty
  poll_limit exit_expected exit_desired join_waits rollback_expected launch_events_init.

(* ---- lists ---- *)
Lemma nth_error_upd_nth : forall A (f : A -> A) n l m,
  nth_error (upd_nth f n l) m = if Nat.eqb n m then option_map f (nth_error l n) else nth_error l m.
Proof.
  intros A f n l; revert n; induction l as [|x l IH]; intros n m.
  - destruct n, m; simpl; try reflexivity; destruct (Nat.eqb _ _); reflexivity.
  - destruct n, m; simpl; try reflexivity. apply IH.
Qed.

Lemma length_upd_nth : forall A (f : A -> A) n l, length (upd_nth f n l) = length l.
Proof. intros A f n l; revert n; induction l; intros [|n]; simpl; auto. Qed.

Definition b2n (b : bool) : nat := if b then 1%nat else 0%nat.

Lemma owners_upd : forall l t th th', nth_error l t = Some th ->
  (owners (upd_nth (fun _ => th') t l) + b2n (is_owner th) = owners l + b2n (is_owner th'))%nat.
Proof.
  unfold owners. induction l as [|x l IH]; intros [|t] th th' H; simpl in *; try discriminate.
  - inversion H; subst. destruct (is_owner th), (is_owner th'); simpl; lia.
  - specialize (IH t th th' H). destruct (is_owner x); simpl; lia.
Qed.

Lemma owners_app : forall a b, owners (a ++ b) = (owners a + owners b)%nat.
Proof. intros. unfold owners. rewrite filter_app, app_length. reflexivity. Qed.

Lemma owners_pos : forall l t th, nth_error l t = Some th -> is_owner th = true -> (1 <= owners l)%nat.
Proof.
  unfold owners. induction l as [|x l IH]; intros [|t] th H Ho; simpl in *; try discriminate.
  - inversion H; subst. rewrite Ho. simpl. lia.
  - specialize (IH t th H Ho). destruct (is_owner x); simpl; lia.
Qed.

Lemma owners_unique : forall l t1 t2 th1 th2, owners l = 1%nat ->
  nth_error l t1 = Some th1 -> is_owner th1 = true -> nth_error l t2 = Some th2 -> is_owner th2 = true -> t1 = t2.
Proof.
  unfold owners. induction l as [|x l IH]; intros t1 t2 th1 th2 H1 Ha Hoa Hb Hob.
  - destruct t1; discriminate.
  - destruct t1, t2; simpl in *; auto.
    + inversion Ha; subst. rewrite Hoa in H1. simpl in H1.
      pose proof (owners_pos l t2 th2 Hb Hob) as P. unfold owners in P. lia.
    + inversion Hb; subst. rewrite Hob in H1. simpl in H1.
      pose proof (owners_pos l t1 th1 Ha Hoa) as P. unfold owners in P. lia.
    + f_equal. destruct (is_owner x); simpl in H1.
      * pose proof (owners_pos l t1 th1 Ha Hoa) as P. unfold owners in P. lia.
      * eapply IH; eauto.
Qed.

(* threads of the successor state *)
Lemma install_threads : forall s1 t th' sp t0 x, nth_error (threads (install s1 t th' sp)) t0 = Some x ->
  forall th, nth_error (threads s1) t = Some th ->
  (t0 = t /\ x = th') \/ (t0 <> t /\ nth_error (threads s1) t0 = Some x) \/ (In x sp /\ t0 <> t).
Proof.
  intros s1 t th' sp t0 x H th Hth. unfold install in H. simpl in H.
  assert (Hlt : (t < length (threads s1))%nat) by (apply nth_error_Some; congruence).
  destruct (Nat.lt_ge_cases t0 (length (threads s1))) as [L|L].
  - rewrite nth_error_app1 in H by (rewrite length_upd_nth; exact L).
    rewrite nth_error_upd_nth in H. destruct (Nat.eqb t t0) eqn:E.
    + apply Nat.eqb_eq in E; subst. rewrite Hth in H. simpl in H. inversion H. auto.
    + apply Nat.eqb_neq in E. right; left. split; [congruence | exact H].
  - rewrite nth_error_app2 in H by (rewrite length_upd_nth; exact L).
    right; right. split; [eapply nth_error_In; eauto | lia].
Qed.

Lemma install_self : forall s1 t th' sp th, nth_error (threads s1) t = Some th ->
  nth_error (threads (install s1 t th' sp)) t = Some th'.
Proof.
  intros. unfold install; simpl.
  assert (Hlt : (t < length (threads s1))%nat) by (apply nth_error_Some; congruence).
  rewrite nth_error_app1 by (rewrite length_upd_nth; exact Hlt).
  rewrite nth_error_upd_nth, Nat.eqb_refl, H. reflexivity.
Qed.

Lemma install_owners : forall s1 t th th' sp, nth_error (threads s1) t = Some th ->
  (owners (threads (install s1 t th' sp)) + b2n (is_owner th) = owners (threads s1) + b2n (is_owner th') + owners sp)%nat.
Proof.
  intros. unfold install; simpl. rewrite owners_app. pose proof (owners_upd _ _ _ th' H). lia.
Qed.

(* ---- case analysis of one step ---- *)
Ltac gen_norm H :=
  repeat first [ rewrite g_early in H | rewrite g_accept0 in H | rewrite g_accept_m1 in H | rewrite g_retry1 in H
               | rewrite g_retry0 in H | rewrite g_nonempty in H | rewrite g_exit_expected in H | rewrite g_join in H
               | rewrite g_rb_expected in H | rewrite g_rb_desired in H | rewrite g_exit_desired in H
               | rewrite g_limit in H ].

Ltac step_cases H :=
  unfold step_thread, do_signal, consumer_exit in H; cbv zeta in H; gen_norm H;
  repeat match type of H with
         | context [match ?x with _ => _ end] => destruct x eqn:?
         end;
  try discriminate; inversion H; subst; clear H.

Lemma step_unfold : forall s t s', step s t = Some s' ->
  exists th s1 th' sp, nth_error (threads s) t = Some th /\ step_thread s t th = Some (s1, th', sp) /\
                       s' = install s1 t th' sp.
Proof.
  intros s t s' H. unfold step in H. destruct (nth_error (threads s) t) as [th|] eqn:E; [|discriminate].
  destruct (step_thread s t th) as [[[s1 th'] sp]|] eqn:E2; [|discriminate]. inversion H; subst.
  exists th, s1, th', sp. auto.
Qed.

(* globals-only updates keep the thread list *)
Lemma step_thread_threads : forall s t th s1 th' sp, step_thread s t th = Some (s1, th', sp) -> threads s1 = threads s.
Proof. intros s t th s1 th' sp H. step_cases H; reflexivity. Qed.

(* ---- ownership of the event counter ---- *)
Record OwnInv (s : st) : Prop := {
  o_nonneg : 0 <= events s;
  o_zero : events s = 0 -> owners (threads s) = 0%nat;
  o_pos : 0 < events s -> owners (threads s) = 1%nat
}.

Lemma own_pos_of_owner : forall s t th, OwnInv s -> nth_error (threads s) t = Some th -> is_owner th = true ->
  0 < events s /\ owners (threads s) = 1%nat.
Proof.
  intros s t th [A B C] H Ho. pose proof (owners_pos _ _ _ H Ho).
  assert (events s <> 0) by (intro E; specialize (B E); lia).
  assert (0 < events s) by lia. auto.
Qed.

Lemma own_step : forall s t s', OwnInv s -> step s t = Some s' -> OwnInv s'.
Proof.
  intros s t s' HI Hs. destruct (step_unfold _ _ _ Hs) as (th & s1 & th' & sp & Hth & Hst & ->).
  pose proof (step_thread_threads _ _ _ _ _ _ Hst) as Hthr.
  assert (Hth1 : nth_error (threads s1) t = Some th) by (rewrite Hthr; exact Hth).
  pose proof (install_owners s1 t th th' sp Hth1) as HO. rewrite Hthr in HO.
  assert (Hown : is_owner th = true -> 0 < events s /\ owners (threads s) = 1%nat) by (eapply own_pos_of_owner; eauto).
  destruct HI as [A B C].
  pose proof g_amount as GA.
  step_cases Hst; unfold is_owner in *; simpl in *;
    repeat match goal with H : tpc ?x = _ |- _ => rewrite H in * end; simpl in *;
    repeat match goal with
           | H : negb (_ =? _) = true |- _ => apply negb_true_iff, Z.eqb_neq in H
           | H : negb (_ =? _) = false |- _ => apply negb_false_iff, Z.eqb_eq in H
           | H : (_ =? _) = true |- _ => apply Z.eqb_eq in H
           | H : (_ =? _) = false |- _ => apply Z.eqb_neq in H
           end;
    try (destruct Hown as [Hp H1]; [reflexivity|]);
    (split; simpl; intros; unfold owners in *; simpl in *; try lia).
Qed.

(* ---- the head ticket is unsignalled whenever the counter was reset by a consumer ---- *)
Lemma hu_app : forall cs np c, hu cs np -> csig c = false -> hu (cs ++ [c]) np.
Proof.
  unfold hu. intros cs np c H Hc c0 Hn. destruct (Nat.lt_ge_cases np (length cs)) as [L|L].
  - rewrite nth_error_app1 in Hn by exact L. auto.
  - rewrite nth_error_app2 in Hn by exact L. destruct (np - length cs)%nat as [|k]; simpl in Hn.
    + inversion Hn; subst; exact Hc.
    + destruct k; discriminate.
Qed.

Lemma hu_pub : forall cs np k, hu cs np -> hu (upd_nth mark_pub k cs) np.
Proof.
  unfold hu. intros cs np k H c Hn. rewrite nth_error_upd_nth in Hn. destruct (Nat.eqb k np) eqn:E.
  - apply Nat.eqb_eq in E; subst. destruct (nth_error cs np) as [c0|] eqn:E0; simpl in Hn; [|discriminate].
    inversion Hn; subst. simpl. auto.
  - auto.
Qed.

Lemma skipn_nth : forall A (l : list A) n c, nth_error l n = Some c -> skipn n l = c :: skipn (S n) l.
Proof. induction l as [|x l IH]; intros [|n] c H; simpl in *; try discriminate; [inversion H; reflexivity | apply IH; exact H]. Qed.

Record CovInv (s : st) : Prop := {
  c_cap : (1 <= cap s)%nat;
  c_seen : forall t th seen, nth_error (threads s) t = Some th -> (tpc th = CPoll seen \/ tpc th = CCas seen) -> seen <= events s;
  c_cas : forall t th seen, nth_error (threads s) t = Some th -> tpc th = CCas seen -> events s = seen -> head_unsig s;
  c_sigpub : forall k c, nth_error (cells s) k = Some c -> csig c = true -> cpub c = true;
  c_psig : forall t th k, nth_error (threads s) t = Some th -> tpc th = PSignal (Some k) ->
                          exists c, nth_error (cells s) k = Some c /\ cpub c = true;
  c_ppub : forall t th k, nth_error (threads s) t = Some th -> tpc th = PPublish k -> (k < length (cells s))%nat;
  c_cover : events s = 0 -> stale s = false -> head_unsig s
}.

Ltac zb :=
  repeat match goal with
         | H : negb (_ =? _) = true |- _ => apply negb_true_iff, Z.eqb_neq in H
         | H : negb (_ =? _) = false |- _ => apply negb_false_iff, Z.eqb_eq in H
         | H : (_ =? _) = true |- _ => apply Z.eqb_eq in H
         | H : (_ =? _) = false |- _ => apply Z.eqb_neq in H
         end.

(* two distinct owners cannot exist *)
Lemma two_owners_absurd : forall s t th t0 th0, OwnInv s -> nth_error (threads s) t = Some th -> is_owner th = true ->
  nth_error (threads s) t0 = Some th0 -> is_owner th0 = true -> t0 <> t -> False.
Proof.
  intros s t th t0 th0 HO H1 O1 H2 O2 N. destruct (own_pos_of_owner _ _ _ HO H1 O1) as [_ U].
  apply N. eapply owners_unique; eauto.
Qed.

Lemma sigpub_head : forall s, (forall k c, nth_error (cells s) k = Some c -> csig c = true -> cpub c = true) ->
  ready_prefix (skipn (npop s) (cells s)) = 0%nat -> head_unsig s.
Proof.
  intros s H R c Hn. unfold head_unsig, hu in *. rewrite (skipn_nth _ _ _ _ Hn) in R. simpl in R.
  destruct (cpub c) eqn:P; [discriminate|]. destruct (csig c) eqn:S; [|reflexivity].
  rewrite (H _ _ Hn S) in P. discriminate.
Qed.

Ltac step_setup Hs s t :=
  let th := fresh "th" in let s1 := fresh "s1" in let th' := fresh "th'" in let sp := fresh "sp" in
  destruct (step_unfold _ _ _ Hs) as (th & s1 & th' & sp & Hth & Hst & ->);
  pose proof (step_thread_threads _ _ _ _ _ _ Hst) as Hthr;
  assert (Hth1 : nth_error (threads s1) t = Some th) by (rewrite Hthr; exact Hth).

Ltac spawned_case Hin := simpl in Hin; repeat (destruct Hin as [Hin|Hin]; [subst|]); try contradiction.

Ltac owner_of H := unfold is_owner; rewrite H; reflexivity.

Lemma seen_step : forall s t s', OwnInv s -> CovInv s -> step s t = Some s' ->
  forall t0 th0 seen, nth_error (threads s') t0 = Some th0 -> (tpc th0 = CPoll seen \/ tpc th0 = CCas seen) -> seen <= events s'.
Proof.
  intros s t s' HO HC Hs t0 th0 seen Hn Hpc. step_setup Hs s t. pose proof g_amount as GA.
  destruct (install_threads _ _ _ _ _ _ Hn _ Hth1) as [[-> ->]|[[Hne Hold]|[Hin Hne]]].
  - step_cases Hst; simpl in *; destruct Hpc as [Hpc|Hpc]; try discriminate; inversion Hpc; subst; try lia.
    eapply (c_seen _ HC); eauto.
  - rewrite Hthr in Hold. pose proof (c_seen _ HC _ _ _ Hold Hpc) as Hle.
    assert (Hown0 : is_owner th0 = true) by (unfold is_owner; destruct Hpc as [-> | ->]; reflexivity).
    step_cases Hst; simpl; try lia;
      exfalso; eapply (two_owners_absurd _ t _ t0 th0); eauto;
      match goal with H : tpc _ = _ |- _ => owner_of H end.
  - step_cases Hst; spawned_case Hin; simpl in Hpc; destruct Hpc; discriminate.
Qed.

Lemma hu_sig_other : forall cs np k, hu cs np -> k <> np -> hu (upd_nth mark_sig k cs) np.
Proof.
  unfold hu. intros cs np k H N c Hn. rewrite nth_error_upd_nth in Hn.
  destruct (Nat.eqb k np) eqn:E; [apply Nat.eqb_eq in E; contradiction | auto].
Qed.

Lemma cas_step : forall s t s', OwnInv s -> CovInv s -> step s t = Some s' ->
  forall t0 th0 seen, nth_error (threads s') t0 = Some th0 -> tpc th0 = CCas seen -> events s' = seen -> head_unsig s'.
Proof.
  intros s t s' HO HC Hs t0 th0 seen Hn Hpc Hev. step_setup Hs s t. pose proof g_amount as GA.
  destruct (install_threads _ _ _ _ _ _ Hn _ Hth1) as [[-> ->]|[[Hne Hold]|[Hin Hne]]].
  - step_cases Hst; simpl in *; try discriminate.
    (* CPoll found nothing *)
    zb. unfold head_unsig; simpl.
    match goal with HC : CovInv ?x |- _ => apply (sigpub_head x (c_sigpub _ HC)); pose proof (c_cap _ HC) end.
    rewrite Nat2Z.id in *. lia.
  - rewrite Hthr in Hold.
    assert (Hown0 : is_owner th0 = true) by (unfold is_owner; rewrite Hpc; reflexivity).
    pose proof (c_seen _ HC _ _ _ Hold (or_intror Hpc)) as Hle.
    pose proof (c_cas _ HC _ _ _ Hold Hpc) as Hcas.
    assert (Hcas' : events s = seen -> hu (cells s) (npop s)) by exact Hcas.
    step_cases Hst; unfold head_unsig in *; simpl in *; try (apply Hcas'; reflexivity); try lia;
      try (apply hu_app; [apply Hcas'; reflexivity | reflexivity]);
      try (apply hu_pub; apply Hcas'; reflexivity);
      exfalso; eapply (two_owners_absurd _ t _ t0 th0); eauto;
      match goal with H : tpc _ = _ |- _ => owner_of H end.
  - step_cases Hst; spawned_case Hin; simpl in Hpc; discriminate.
Qed.

Lemma nth_error_snoc : forall A (l : list A) x k c, nth_error (l ++ [x]) k = Some c ->
  nth_error l k = Some c \/ (k = length l /\ c = x).
Proof.
  intros A l x k c H. destruct (Nat.lt_ge_cases k (length l)) as [L|L].
  - rewrite nth_error_app1 in H by exact L. auto.
  - rewrite nth_error_app2 in H by exact L. destruct (k - length l)%nat as [|j] eqn:E; simpl in H.
    + inversion H; subst. right. split; [lia | reflexivity].
    + destruct j; discriminate.
Qed.

Lemma sigpub_step : forall s t s', OwnInv s -> CovInv s -> step s t = Some s' ->
  forall k c, nth_error (cells s') k = Some c -> csig c = true -> cpub c = true.
Proof.
  intros s t s' HO HC Hs k c Hn Hsig. step_setup Hs s t.
  pose proof (c_sigpub _ HC) as SP.
  step_cases Hst; simpl in *; eauto.
  - (* ticket *) apply nth_error_snoc in Hn. destruct Hn as [Hn|[_ ->]]; [eauto | simpl in Hsig; discriminate].
  - (* publish *) rewrite nth_error_upd_nth in Hn. destruct (Nat.eqb tk k); [|eauto].
    destruct (nth_error (cells s) tk) eqn:E; simpl in Hn; [|discriminate]. inversion Hn; subst. reflexivity.
  - (* signal, early *) rewrite nth_error_upd_nth in Hn. destruct (Nat.eqb n k); [|eauto].
    destruct (c_psig _ HC _ _ _ Hth Heqp) as (c0 & E0 & P0). rewrite E0 in Hn. simpl in Hn. inversion Hn; subst. exact P0.
  - rewrite nth_error_upd_nth in Hn. destruct (Nat.eqb n k); [|eauto].
    destruct (c_psig _ HC _ _ _ Hth Heqp) as (c0 & E0 & P0). rewrite E0 in Hn. simpl in Hn. inversion Hn; subst. exact P0.
Qed.

Lemma cell_pub_mono : forall s t s1 th th' sp, step_thread s t th = Some (s1, th', sp) ->
  forall k c, nth_error (cells s) k = Some c -> cpub c = true ->
  exists c', nth_error (cells s1) k = Some c' /\ cpub c' = true.
Proof.
  intros s t s1 th th' sp Hst k c Hn Hp.
  step_cases Hst; simpl; eauto.
  - exists c. split; [|exact Hp]. rewrite nth_error_app1; [exact Hn | apply nth_error_Some; congruence].
  - rewrite nth_error_upd_nth. destruct (Nat.eqb tk k) eqn:E; [|eauto].
    apply Nat.eqb_eq in E; subst. rewrite Hn. simpl. eauto.
  - rewrite nth_error_upd_nth. destruct (Nat.eqb n k) eqn:E; [|eauto].
    apply Nat.eqb_eq in E; subst. rewrite Hn. simpl. eauto.
  - rewrite nth_error_upd_nth. destruct (Nat.eqb n k) eqn:E; [|eauto].
    apply Nat.eqb_eq in E; subst. rewrite Hn. simpl. eauto.
Qed.

Lemma cells_length_mono : forall s t s1 th th' sp, step_thread s t th = Some (s1, th', sp) ->
  (length (cells s) <= length (cells s1))%nat.
Proof.
  intros s t s1 th th' sp Hst. step_cases Hst; simpl; rewrite ?app_length, ?length_upd_nth; simpl; lia.
Qed.

Lemma ppub_step : forall s t s', OwnInv s -> CovInv s -> step s t = Some s' ->
  forall t0 th0 k, nth_error (threads s') t0 = Some th0 -> tpc th0 = PPublish k -> (k < length (cells s'))%nat.
Proof.
  intros s t s' HO HC Hs t0 th0 k Hn Hpc. step_setup Hs s t.
  destruct (install_threads _ _ _ _ _ _ Hn _ Hth1) as [[-> ->]|[[Hne Hold]|[Hin Hne]]].
  - step_cases Hst; simpl in *; try discriminate. inversion Hpc; subst. rewrite app_length; simpl; lia.
  - rewrite Hthr in Hold. pose proof (c_ppub _ HC _ _ _ Hold Hpc). pose proof (cells_length_mono _ _ _ _ _ _ Hst).
    unfold install; simpl. lia.
  - step_cases Hst; spawned_case Hin; simpl in Hpc; discriminate.
Qed.

Lemma psig_step : forall s t s', OwnInv s -> CovInv s -> step s t = Some s' ->
  forall t0 th0 k, nth_error (threads s') t0 = Some th0 -> tpc th0 = PSignal (Some k) ->
  exists c, nth_error (cells s') k = Some c /\ cpub c = true.
Proof.
  intros s t s' HO HC Hs t0 th0 k Hn Hpc. step_setup Hs s t.
  destruct (install_threads _ _ _ _ _ _ Hn _ Hth1) as [[-> ->]|[[Hne Hold]|[Hin Hne]]].
  - pose proof (fun k => c_ppub _ HC _ _ k Hth) as PP.
    step_cases Hst; simpl in *; try discriminate.
    inversion Hpc; subst. rewrite nth_error_upd_nth, Nat.eqb_refl.
    destruct (nth_error (cells s) k) as [c|] eqn:E; simpl; [eauto|].
    exfalso. apply nth_error_None in E. specialize (PP _ eq_refl). lia.
  - rewrite Hthr in Hold. destruct (c_psig _ HC _ _ _ Hold Hpc) as (c & E & P).
    unfold install; simpl. eapply cell_pub_mono; eauto.
  - step_cases Hst; spawned_case Hin; simpl in Hpc; discriminate.
Qed.

Lemma cover_step : forall s t s', OwnInv s -> CovInv s -> step s t = Some s' ->
  events s' = 0 -> stale s' = false -> head_unsig s'.
Proof.
  intros s t s' HO HC Hs Hev Hst0. step_setup Hs s t. pose proof g_amount as GA.
  pose proof (c_cover _ HC) as CV. pose proof (o_nonneg _ HO) as NN.
  assert (Hown : is_owner th = true -> 0 < events s) by (intro; eapply own_pos_of_owner; eauto).
  unfold head_unsig in *.
  step_cases Hst; simpl in *; try discriminate; try lia;
    try (apply CV; assumption);
    try (apply hu_app; [apply CV; assumption | reflexivity]);
    try (apply hu_pub; apply CV; assumption);
    try (exfalso; assert (0 < events s) by (apply Hown; match goal with H : tpc _ = _ |- _ => owner_of H end); lia).
  (* consumer exit *)
  all: zb; eapply (c_cas _ HC); eauto.
Qed.

Lemma cov_step : forall s t s', OwnInv s -> CovInv s -> step s t = Some s' -> CovInv s'.
Proof.
  intros s t s' HO HC Hs. constructor.
  - step_setup Hs s t. pose proof (c_cap _ HC). step_cases Hst; simpl; assumption.
  - eapply seen_step; eauto.
  - eapply cas_step; eauto.
  - eapply sigpub_step; eauto.
  - eapply psig_step; eauto.
  - eapply ppub_step; eauto.
  - eapply cover_step; eauto.
Qed.

(* ---- initial state, reachability ---- *)
Lemma init_thread : forall progs t th, nth_error (map mk_thread progs) t = Some th -> tpc th = Idle /\ opi th = 0%nat.
Proof.
  intros progs t th H. rewrite nth_error_map in H. destruct (nth_error progs t); simpl in H; [|discriminate].
  inversion H; subst. split; reflexivity.
Qed.

Lemma owners_init : forall progs, owners (map mk_thread progs) = 0%nat.
Proof. induction progs; simpl; auto. Qed.

Lemma own_init : forall c a f progs, OwnInv (init c a f progs).
Proof. intros. constructor; simpl; intros; try lia; apply owners_init. Qed.

Lemma cov_init : forall c a f progs, (1 <= c)%nat -> CovInv (init c a f progs).
Proof.
  intros c a f progs Hc. constructor; simpl; try assumption.
  - intros t th seen H [E|E]; apply init_thread in H; destruct H as [P _]; congruence.
  - intros t th seen H E; apply init_thread in H; destruct H as [P _]; congruence.
  - intros k c0 H; destruct k; discriminate.
  - intros t th k H E; apply init_thread in H; destruct H as [P _]; congruence.
  - intros t th k H E; apply init_thread in H; destruct H as [P _]; congruence.
  - intros _ _ c0 H. destruct (npop _); discriminate.
Qed.

Lemma reach_inv : forall c a f progs s, (1 <= c)%nat -> Reach c a f progs s -> OwnInv s /\ CovInv s.
Proof.
  intros c a f progs s Hc HR.
  apply (inv_reachable st step (fun s => OwnInv s /\ CovInv s) (init c a f progs)); auto.
  - split; [apply own_init | apply cov_init; exact Hc].
  - intros s0 t s' [A B] Hs. split; [eapply own_step; eauto | eapply cov_step; eauto].
Qed.

(* ---- single consumer ---- *)
Lemma consumer_is_owner : forall th, is_consumer th = true -> is_owner th = true.
Proof. intros th. unfold is_consumer, is_owner. destruct (tpc th); auto. Qed.

Theorem eq_single_consumer : forall c a f progs s t1 t2 th1 th2, (1 <= c)%nat -> Reach c a f progs s ->
  nth_error (threads s) t1 = Some th1 -> nth_error (threads s) t2 = Some th2 ->
  is_consumer th1 = true -> is_consumer th2 = true -> t1 = t2.
Proof.
  intros c a f progs s t1 t2 th1 th2 Hc HR H1 H2 C1 C2. destruct (reach_inv _ _ _ _ _ Hc HR) as [HO _].
  apply consumer_is_owner in C1. apply consumer_is_owner in C2.
  destruct (own_pos_of_owner _ _ _ HO H1 C1) as [_ U]. eapply owners_unique; eauto.
Qed.

Lemma filter_le_owners : forall l, (length (filter in_consume l) <= owners l)%nat.
Proof.
  unfold owners. induction l as [|x l IH]; simpl; [lia|].
  unfold in_consume at 1, is_owner at 1. destruct (tpc x); simpl; lia.
Qed.

Theorem eq_inside_le_1 : forall c a f progs s, (1 <= c)%nat -> Reach c a f progs s -> (inside s <= 1)%nat.
Proof.
  intros c a f progs s Hc HR. destruct (reach_inv _ _ _ _ _ Hc HR) as [[A B C] _].
  unfold inside. pose proof (filter_le_owners (threads s)).
  destruct (Z.eq_dec (events s) 0) as [E|E]; [rewrite (B E) in *; lia | rewrite C in * by lia; lia].
Qed.

(* the counter is non-zero exactly when there is an owner, and then exactly one *)
Theorem eq_events_iff_owner : forall c a f progs s, (1 <= c)%nat -> Reach c a f progs s ->
  (events s = 0 -> owners (threads s) = 0%nat) /\ (events s <> 0 -> owners (threads s) = 1%nat) /\ 0 <= events s.
Proof.
  intros c a f progs s Hc HR. destruct (reach_inv _ _ _ _ _ Hc HR) as [[A B C] _].
  split; [exact B | split; [intro; apply C; lia | exact A]].
Qed.

(* never stranded, proved part: with the counter at zero after a consumer's exit the head ticket is unsignalled *)
Theorem eq_cover : forall c a f progs s, (1 <= c)%nat -> Reach c a f progs s ->
  events s = 0 -> stale s = false -> head_unsig s.
Proof. intros c a f progs s Hc HR. destruct (reach_inv _ _ _ _ _ Hc HR) as [_ HC]. apply (c_cover _ HC). Qed.

(* liveness, proved part: while join() has to wait there is exactly one owner and it can always take a step *)
Lemma owner_enabled : forall s t th, nth_error (threads s) t = Some th -> is_owner th = true -> step s t <> None.
Proof.
  intros s t th H Ho. unfold step. rewrite H. unfold is_owner in Ho.
  unfold step_thread. destruct (tpc th); try discriminate;
    repeat match goal with |- context [if ?b then _ else _] => destruct b end; discriminate.
Qed.

Lemma owners_exists : forall l, (1 <= owners l)%nat -> exists t th, nth_error l t = Some th /\ is_owner th = true.
Proof.
  unfold owners. induction l as [|x l IH]; simpl; intro H; [lia|].
  destruct (is_owner x) eqn:E.
  - exists 0%nat, x. auto.
  - destruct (IH H) as (t & th & A & B). exists (S t), th. auto.
Qed.

Theorem eq_waiting_join_has_enabled_owner : forall c a f progs s, (1 <= c)%nat -> Reach c a f progs s ->
  events s <> 0 -> exists t th, nth_error (threads s) t = Some th /\ is_owner th = true /\ step s t <> None.
Proof.
  intros c a f progs s Hc HR E. destruct (reach_inv _ _ _ _ _ Hc HR) as [[A B C] _].
  destruct (owners_exists (threads s)) as (t & th & H & Ho); [rewrite C; lia|].
  exists t, th. split; [exact H | split; [exact Ho | eapply owner_enabled; eauto]].
Qed.

(* ---- the full-strength statements are false of the faithful model: witness ---- *)
Definition gap_progs : list (list op) := [[OExec; OJoin]; [OExec]].
Definition gap_sched : list nat := [1; 0; 0; 0; 0; 2; 2; 2; 0]%nat.
Definition gap_state : st := run st step (init 4 true [] gap_progs) gap_sched.

Lemma gap_reach : Reach 4 true [] gap_progs gap_state.
Proof. exists gap_sched. reflexivity. Qed.

(* thread 1 holds ticket 0 unpublished; thread 0's item (ticket 1) is published, signalled, its execute() returned 0,
   the consumer launched for it has polled (nothing: ticket 0 not ready), reset the counter and exited *)
Theorem eq_never_stranded_refuted : exists progs s k c,
  Reach 4 true [] progs s /\ nth_error (cells s) k = Some c /\ (npop s <= k)%nat /\ cpub c = true /\ csig c = true /\
  returned (threads s) c = true /\ owners (threads s) = 0%nat /\ events s = 0 /\ stale s = false.
Proof.
  exists gap_progs, gap_state, 1%nat, {| cown := 0; cseq := 0; cpub := true; csig := true |}.
  split; [exact gap_reach | vm_compute; repeat split; try reflexivity; lia].
Qed.

Theorem eq_join_returns_after_refuted : exists progs s th m,
  Reach 4 true [] progs s /\ nth_error (threads s) 0 = Some th /\ nth_error (prog th) 0 = Some OExec /\
  results th = [RExec 0; RJoin m] /\ m <> 0%nat.
Proof.
  exists gap_progs, gap_state. eexists. exists 1%nat.
  split; [exact gap_reach | vm_compute; repeat split; try reflexivity; lia].
Qed.

(* non-vacuity: a refused launch, a later accepted signal, everything consumed *)
Definition resume_progs : list (list op) := [[OExec; OSignal; OJoin]].
Definition resume_sched : list nat := [0; 0; 0; 0; 0; 0; 0; 1; 1; 1; 1; 1; 1; 0]%nat.
Definition resume_state : st := run st step (init 2 true [true] resume_progs) resume_sched.
Lemma resume_example : Reach 2 true [true] resume_progs resume_state /\ all_done resume_state = true /\
  stale resume_state = false /\ delivered resume_state = [(0, 0)]%nat /\
  (exists th, nth_error (threads resume_state) 0 = Some th /\ results th = [RExec (-1); RSignal 0; RJoin 0]).
Proof. split; [exists resume_sched; reflexivity | vm_compute; repeat split; eauto]. Qed.
