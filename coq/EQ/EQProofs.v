(* Proofs about EQModel.  Statements are fixed by Properties_C16.v. *)
From Coq Require Import ZArith List Bool Lia Arith.
Require Import Verif.Base.Atomics Verif.Gen.Gen_execution_queue Verif.Gen.Gen_execution_queue_sites
  Verif.Conc.Machine Verif.EQ.EQModel.
Import ListNotations.
Local Open Scope Z_scope.

(* ---- vocabulary used by the statements ---- *)
Definition Reach (capacity : nat) (asy : bool) (flt : list bool) (progs : list (list op)) (s : st) : Prop :=
  reachable st step (init capacity asy flt progs) s.

(* owner of the event counter: a producer inside start_consumer or a launched / running consumer *)
Definition is_owner (th : thread) : bool :=
  match tpc th with
  | PSubmit _ | PRollback _ | CStart | CPoll _ | CConsume | CReload | CSize _ | CCas _ => true
  | _ => false
  end.
Definition owners (l : list thread) : nat := length (filter is_owner l).

(* a consumer activation: launched (CStart) or running *)
Definition is_consumer (th : thread) : bool :=
  match tpc th with CStart | CPoll _ | CConsume | CReload | CSize _ | CCas _ => true | _ => false end.

(* the producer is between taking its ticket and its fetch_add on _events *)
Definition in_flight (th : thread) : bool :=
  match tpc th with PPublish _ | PSignal (Some _) => true | _ => false end.

(* no ticket that is still in the queue (not yet popped) has been signalled by its producer *)
Definition tu (cs : list cell) (np : nat) : Prop :=
  forall k c, (np <= k)%nat -> nth_error cs k = Some c -> csig c = false.
Definition tail_unsig (s : st) : Prop := tu (cells s) (npop s).

(* published tickets not yet popped *)
Definition pending_published (s : st) : list cell := filter cpub (skipn (npop s) (cells s)).

(* ---- facts about the regenerated expressions (the only place where they are unfolded) ---- *)
Lemma g_amount : 0 < signal_amount. Proof. reflexivity. Qed.
Lemma g_early : forall p, signal_returns_early p = negb (p =? 0).
Proof. intro p. unfold signal_returns_early. rewrite (Z.eqb_sym 0 p). reflexivity. Qed.
Lemma g_accept0 : launch_accepted 0 = true. Proof. reflexivity. Qed.
Lemma g_accept_m1 : launch_accepted (-1) = false. Proof. reflexivity. Qed.
Lemma g_rb_desired : rollback_desired = 0. Proof. reflexivity. Qed.
Lemma g_retry1 : rollback_retries 1 = false. Proof. reflexivity. Qed.
Lemma g_retry0 : rollback_retries 0 = true. Proof. reflexivity. Qed.
Lemma g_nonempty : forall n, poll_nonempty n = negb (n =? 0). Proof. reflexivity. Qed.
Lemma g_limit : forall c, poll_limit c = c. Proof. reflexivity. Qed.
Lemma g_exit_expected : forall e, exit_expected e = e. Proof. reflexivity. Qed.
Lemma g_exit_desired : exit_desired = 0. Proof. reflexivity. Qed.
Lemma g_join : forall e, join_waits e = negb (e =? 0). Proof. reflexivity. Qed.
Lemma g_rb_expected : forall e, rollback_expected e = e. Proof. reflexivity. Qed.
(* the roll-back of a refused launch is the CAS loop (exactly one compare_exchange_strong site in start_consumer) *)
Lemma g_rb_kind : rollback_is_fetch_sub = false. Proof. reflexivity. Qed.
Lemma g_rb_is_cas_loop : match sites_start_consumer with [(KCasS, _, _)] => True | _ => False end. Proof. exact I. Qed.
(* both execute() overloads push with CONCURRENT = true: the ring ticket is one atomic fetch_add *)
Lemma g_move_conc : execute_move_push_concurrent = true. Proof. reflexivity. Qed.
Lemma g_copy_conc : execute_copy_push_concurrent = true. Proof. reflexivity. Qed.
Lemma g_push_conc : forall th, push_concurrent_of th = true.
Proof. intro th. unfold push_concurrent_of. destruct (nth_error (prog th) (opi th)) as [[| | |]|]; reflexivity. Qed.
Lemma g_keep : forall z, keep_role_while_tickets_out z = negb (z =? 0). Proof. reflexivity. Qed.
Lemma g_qsize : forall a b, queue_size a b = if b >? a then b - a else 0. Proof. reflexivity. Qed.

(* memory-order obligations on the regenerated site tables *)
Definition orders_ok : bool :=
  match sites_join, sites_signal, sites_start_consumer, sites_consume with
  | [(KLoad, o_join, _)], [(KFadd, o_sig, _)], [(KCasS, o_rb, _)],
    [(KLoad, o_c1, _); (KLoad, o_c2, _); (KCasS, o_exit, _)] =>
    has_acquire o_join && has_release o_sig && has_acquire o_sig && has_release o_rb && has_acquire o_rb &&
    has_acquire o_c1 && has_acquire o_c2 && has_release o_exit && has_acquire o_exit
  | _, _, _, _ => false
  end.
Lemma eq_orders_ok : orders_ok = true. Proof. reflexivity. Qed.
(* the push takes its ticket with a fetch_add before publishing (the ticket-then-publish structure the model uses) *)
Definition push_is_ticketed : bool :=
  match sites_bq_push with (KFadd, _, _) :: _ => true | _ => false end.
Lemma eq_push_is_ticketed : push_is_ticketed = true. Proof. reflexivity. Qed.
(* size() reads both queue indices *)
Definition size_is_two_loads : bool :=
  match sites_bq_size with [(KLoad, _, _); (KLoad, _, _)] => true | _ => false end.
Lemma eq_size_is_two_loads : size_is_two_loads = true. Proof. reflexivity. Qed.

Global Opaque signal_amount signal_returns_early launch_accepted rollback_desired rollback_retries poll_nonempty
  poll_limit exit_expected exit_desired join_waits rollback_expected launch_events_init keep_role_while_tickets_out
  queue_size rollback_is_fetch_sub execute_move_push_concurrent execute_copy_push_concurrent push_concurrent_of.

(* ---- lists ---- *)
Lemma nth_error_upd_nth : forall A (f : A -> A) n l m,
  nth_error (upd_nth f n l) m = if Nat.eqb n m then option_map f (nth_error l n) else nth_error l m.
Proof.
  intros A f n l; revert n; induction l as [|x l IH]; intros n m.
  - destruct n, m; simpl; try reflexivity; destruct (Nat.eqb _ _); reflexivity.
  - destruct n, m; simpl; try reflexivity. apply IH.
Qed.

Lemma length_upd_nth : forall A (f : A -> A) n l, length (upd_nth f n l) = length l.
Proof. intros A f n l; revert n; induction l; intros [|n]; simpl; auto. Qed.

Definition b2n (b : bool) : nat := if b then 1%nat else 0%nat.

Lemma owners_upd : forall l t th th', nth_error l t = Some th ->
  (owners (upd_nth (fun _ => th') t l) + b2n (is_owner th) = owners l + b2n (is_owner th'))%nat.
Proof.
  unfold owners. induction l as [|x l IH]; intros [|t] th th' H; simpl in *; try discriminate.
  - inversion H; subst. destruct (is_owner th), (is_owner th'); simpl; lia.
  - specialize (IH t th th' H). destruct (is_owner x); simpl; lia.
Qed.

Lemma owners_app : forall a b, owners (a ++ b) = (owners a + owners b)%nat.
Proof. intros. unfold owners. rewrite filter_app, app_length. reflexivity. Qed.

Lemma owners_pos : forall l t th, nth_error l t = Some th -> is_owner th = true -> (1 <= owners l)%nat.
Proof.
  unfold owners. induction l as [|x l IH]; intros [|t] th H Ho; simpl in *; try discriminate.
  - inversion H; subst. rewrite Ho. simpl. lia.
  - specialize (IH t th H Ho). destruct (is_owner x); simpl; lia.
Qed.

Lemma owners_unique : forall l t1 t2 th1 th2, owners l = 1%nat ->
  nth_error l t1 = Some th1 -> is_owner th1 = true -> nth_error l t2 = Some th2 -> is_owner th2 = true -> t1 = t2.
Proof.
  unfold owners. induction l as [|x l IH]; intros t1 t2 th1 th2 H1 Ha Hoa Hb Hob.
  - destruct t1; discriminate.
  - destruct t1, t2; simpl in *; auto.
    + inversion Ha; subst. rewrite Hoa in H1. simpl in H1.
      pose proof (owners_pos l t2 th2 Hb Hob) as P. unfold owners in P. lia.
    + inversion Hb; subst. rewrite Hob in H1. simpl in H1.
      pose proof (owners_pos l t1 th1 Ha Hoa) as P. unfold owners in P. lia.
    + f_equal. destruct (is_owner x); simpl in H1.
      * pose proof (owners_pos l t1 th1 Ha Hoa) as P. unfold owners in P. lia.
      * eapply IH; eauto.
Qed.

(* threads of the successor state *)
Lemma install_threads : forall s1 t th' sp t0 x, nth_error (threads (install s1 t th' sp)) t0 = Some x ->
  forall th, nth_error (threads s1) t = Some th ->
  (t0 = t /\ x = th') \/ (t0 <> t /\ nth_error (threads s1) t0 = Some x) \/ (In x sp /\ t0 <> t).
Proof.
  intros s1 t th' sp t0 x H th Hth. unfold install in H. simpl in H.
  assert (Hlt : (t < length (threads s1))%nat) by (apply nth_error_Some; congruence).
  destruct (Nat.lt_ge_cases t0 (length (threads s1))) as [L|L].
  - rewrite nth_error_app1 in H by (rewrite length_upd_nth; exact L).
    rewrite nth_error_upd_nth in H. destruct (Nat.eqb t t0) eqn:E.
    + apply Nat.eqb_eq in E; subst. rewrite Hth in H. simpl in H. inversion H. auto.
    + apply Nat.eqb_neq in E. right; left. split; [congruence | exact H].
  - rewrite nth_error_app2 in H by (rewrite length_upd_nth; exact L).
    right; right. split; [eapply nth_error_In; eauto | lia].
Qed.

Lemma install_self : forall s1 t th' sp th, nth_error (threads s1) t = Some th ->
  nth_error (threads (install s1 t th' sp)) t = Some th'.
Proof.
  intros. unfold install; simpl.
  assert (Hlt : (t < length (threads s1))%nat) by (apply nth_error_Some; congruence).
  rewrite nth_error_app1 by (rewrite length_upd_nth; exact Hlt).
  rewrite nth_error_upd_nth, Nat.eqb_refl, H. reflexivity.
Qed.

Lemma install_owners : forall s1 t th th' sp, nth_error (threads s1) t = Some th ->
  (owners (threads (install s1 t th' sp)) + b2n (is_owner th) = owners (threads s1) + b2n (is_owner th') + owners sp)%nat.
Proof.
  intros. unfold install; simpl. rewrite owners_app. pose proof (owners_upd _ _ _ th' H). lia.
Qed.

(* ---- case analysis of one step ---- *)
Ltac gen_norm H :=
  repeat first [ rewrite g_early in H | rewrite g_accept0 in H | rewrite g_accept_m1 in H | rewrite g_retry1 in H
               | rewrite g_retry0 in H | rewrite g_nonempty in H | rewrite g_exit_expected in H | rewrite g_join in H
               | rewrite g_rb_expected in H | rewrite g_rb_desired in H | rewrite g_exit_desired in H
               | rewrite g_limit in H | rewrite g_keep in H | rewrite g_qsize in H | rewrite g_rb_kind in H | rewrite g_move_conc in H
               | rewrite g_copy_conc in H | rewrite g_push_conc in H ].

Ltac step_cases H :=
  unfold step_thread, do_signal, consumer_exit, take_ticket in H; cbv zeta in H; gen_norm H;
  repeat match type of H with
         | context [match ?x with _ => _ end] => destruct x eqn:?
         end;
  try discriminate; inversion H; subst; clear H.

Lemma step_unfold : forall s t s', step s t = Some s' ->
  exists th s1 th' sp, nth_error (threads s) t = Some th /\ step_thread s t th = Some (s1, th', sp) /\
                       s' = install s1 t th' sp.
Proof.
  intros s t s' H. unfold step in H. destruct (nth_error (threads s) t) as [th|] eqn:E; [|discriminate].
  destruct (step_thread s t th) as [[[s1 th'] sp]|] eqn:E2; [|discriminate]. inversion H; subst.
  exists th, s1, th', sp. auto.
Qed.

(* globals-only updates keep the thread list *)
Lemma step_thread_threads : forall s t th s1 th' sp, step_thread s t th = Some (s1, th', sp) -> threads s1 = threads s.
Proof. intros s t th s1 th' sp H. step_cases H; reflexivity. Qed.

(* ---- ownership of the event counter ---- *)
Record OwnInv (s : st) : Prop := {
  o_nonneg : 0 <= events s;
  o_zero : events s = 0 -> owners (threads s) = 0%nat;
  o_pos : 0 < events s -> owners (threads s) = 1%nat
}.

Lemma own_pos_of_owner : forall s t th, OwnInv s -> nth_error (threads s) t = Some th -> is_owner th = true ->
  0 < events s /\ owners (threads s) = 1%nat.
Proof.
  intros s t th [A B C] H Ho. pose proof (owners_pos _ _ _ H Ho).
  assert (events s <> 0) by (intro E; specialize (B E); lia).
  assert (0 < events s) by lia. auto.
Qed.

Lemma own_step : forall s t s', OwnInv s -> step s t = Some s' -> OwnInv s'.
Proof.
  intros s t s' HI Hs. destruct (step_unfold _ _ _ Hs) as (th & s1 & th' & sp & Hth & Hst & ->).
  pose proof (step_thread_threads _ _ _ _ _ _ Hst) as Hthr.
  assert (Hth1 : nth_error (threads s1) t = Some th) by (rewrite Hthr; exact Hth).
  pose proof (install_owners s1 t th th' sp Hth1) as HO. rewrite Hthr in HO.
  assert (Hown : is_owner th = true -> 0 < events s /\ owners (threads s) = 1%nat) by (eapply own_pos_of_owner; eauto).
  destruct HI as [A B C].
  pose proof g_amount as GA.
  step_cases Hst; unfold is_owner in *; simpl in *;
    repeat match goal with H : tpc ?x = _ |- _ => rewrite H in * end; simpl in *;
    repeat match goal with
           | H : negb (_ =? _) = true |- _ => apply negb_true_iff, Z.eqb_neq in H
           | H : negb (_ =? _) = false |- _ => apply negb_false_iff, Z.eqb_eq in H
           | H : (_ =? _) = true |- _ => apply Z.eqb_eq in H
           | H : (_ =? _) = false |- _ => apply Z.eqb_neq in H
           end;
    try (destruct Hown as [Hp H1]; [reflexivity|]);
    (split; simpl; intros; unfold owners in *; simpl in *; try lia).
Qed.

(* ---- nothing in the queue is signalled whenever the counter was reset by a consumer ---- *)
Lemma tu_app : forall cs np c, tu cs np -> csig c = false -> tu (cs ++ [c]) np.
Proof.
  unfold tu. intros cs np c H Hc k c0 Hk Hn. destruct (Nat.lt_ge_cases k (length cs)) as [L|L].
  - rewrite nth_error_app1 in Hn by exact L. eauto.
  - rewrite nth_error_app2 in Hn by exact L. destruct (k - length cs)%nat as [|j]; simpl in Hn.
    + inversion Hn; subst; exact Hc.
    + destruct j; discriminate.
Qed.

Lemma tu_pub : forall cs np j, tu cs np -> tu (upd_nth mark_pub j cs) np.
Proof.
  unfold tu. intros cs np j H k c Hk Hn. rewrite nth_error_upd_nth in Hn. destruct (Nat.eqb j k) eqn:E.
  - apply Nat.eqb_eq in E; subst. destruct (nth_error cs k) as [c0|] eqn:E0; simpl in Hn; [|discriminate].
    inversion Hn; subst. simpl. eauto.
  - eauto.
Qed.

Lemma tu_empty : forall cs np, (length cs <= np)%nat -> tu cs np.
Proof.
  unfold tu. intros cs np L k c Hk Hn. assert (k < length cs)%nat by (apply nth_error_Some; congruence). lia.
Qed.

Record CovInv (s : st) : Prop := {
  c_cap : (1 <= cap s)%nat;
  c_seen : forall t th seen, nth_error (threads s) t = Some th -> (tpc th = CPoll seen \/ tpc th = CSize seen \/ tpc th = CCas seen) -> seen <= events s;
  c_cas : forall t th seen, nth_error (threads s) t = Some th -> tpc th = CCas seen -> events s = seen -> tail_unsig s;
  c_sigpub : forall k c, nth_error (cells s) k = Some c -> csig c = true -> cpub c = true;
  c_psig : forall t th k, nth_error (threads s) t = Some th -> tpc th = PSignal (Some k) ->
                          exists c, nth_error (cells s) k = Some c /\ cpub c = true;
  c_ppub : forall t th k, nth_error (threads s) t = Some th -> tpc th = PPublish k -> (k < length (cells s))%nat;
  c_cover : events s = 0 -> stale s = false -> tail_unsig s
}.

Ltac zb :=
  repeat match goal with
         | H : negb (_ =? _) = true |- _ => apply negb_true_iff, Z.eqb_neq in H
         | H : negb (_ =? _) = false |- _ => apply negb_false_iff, Z.eqb_eq in H
         | H : (_ =? _) = true |- _ => apply Z.eqb_eq in H
         | H : (_ =? _) = false |- _ => apply Z.eqb_neq in H
         end.

(* two distinct owners cannot exist *)
Lemma two_owners_absurd : forall s t th t0 th0, OwnInv s -> nth_error (threads s) t = Some th -> is_owner th = true ->
  nth_error (threads s) t0 = Some th0 -> is_owner th0 = true -> t0 <> t -> False.
Proof.
  intros s t th t0 th0 HO H1 O1 H2 O2 N. destruct (own_pos_of_owner _ _ _ HO H1 O1) as [_ U].
  apply N. eapply owners_unique; eauto.
Qed.

Ltac step_setup Hs s t :=
  let th := fresh "th" in let s1 := fresh "s1" in let th' := fresh "th'" in let sp := fresh "sp" in
  destruct (step_unfold _ _ _ Hs) as (th & s1 & th' & sp & Hth & Hst & ->);
  pose proof (step_thread_threads _ _ _ _ _ _ Hst) as Hthr;
  assert (Hth1 : nth_error (threads s1) t = Some th) by (rewrite Hthr; exact Hth).

Ltac spawned_case Hin := simpl in Hin; repeat (destruct Hin as [Hin|Hin]; [subst|]); try contradiction.

Ltac owner_of H := unfold is_owner; rewrite H; reflexivity.

Lemma seen_step : forall s t s', OwnInv s -> CovInv s -> step s t = Some s' ->
  forall t0 th0 seen, nth_error (threads s') t0 = Some th0 ->
  (tpc th0 = CPoll seen \/ tpc th0 = CSize seen \/ tpc th0 = CCas seen) -> seen <= events s'.
Proof.
  intros s t s' HO HC Hs t0 th0 seen Hn Hpc. step_setup Hs s t. pose proof g_amount as GA.
  destruct (install_threads _ _ _ _ _ _ Hn _ Hth1) as [[-> ->]|[[Hne Hold]|[Hin Hne]]].
  - pose proof (fun sn => c_seen _ HC t th sn Hth) as CS.
    step_cases Hst; simpl in *; destruct Hpc as [Hpc|[Hpc|Hpc]]; try discriminate; inversion Hpc; subst; try lia;
      apply CS; try (match goal with H : tpc _ = _ |- _ => rewrite H end); auto.
  - rewrite Hthr in Hold. pose proof (c_seen _ HC _ _ _ Hold Hpc) as Hle.
    assert (Hown0 : is_owner th0 = true) by (unfold is_owner; destruct Hpc as [-> | [-> | ->]]; reflexivity).
    step_cases Hst; simpl; try lia;
      exfalso; eapply (two_owners_absurd _ t _ t0 th0); eauto;
      match goal with H : tpc _ = _ |- _ => owner_of H end.
  - step_cases Hst; spawned_case Hin; simpl in Hpc; destruct Hpc as [Hpc|[Hpc|Hpc]]; discriminate.
Qed.

Lemma cas_step : forall s t s', OwnInv s -> CovInv s -> step s t = Some s' ->
  forall t0 th0 seen, nth_error (threads s') t0 = Some th0 -> tpc th0 = CCas seen -> events s' = seen -> tail_unsig s'.
Proof.
  intros s t s' HO HC Hs t0 th0 seen Hn Hpc Hev. step_setup Hs s t. pose proof g_amount as GA.
  destruct (install_threads _ _ _ _ _ _ Hn _ Hth1) as [[-> ->]|[[Hne Hold]|[Hin Hne]]].
  - step_cases Hst; simpl in *; try discriminate.
    (* _queue.size() = 0: every ticket ever taken has been popped *)
    zb. unfold tail_unsig; simpl. apply tu_empty.
    match goal with H : (if ?b then _ else _) = 0 |- _ => destruct b eqn:Eb; [apply Z.gtb_lt in Eb; lia|] end.
    rewrite Z.gtb_ltb in Eb. apply Z.ltb_ge in Eb. lia.
  - rewrite Hthr in Hold.
    assert (Hown0 : is_owner th0 = true) by (unfold is_owner; rewrite Hpc; reflexivity).
    pose proof (c_seen _ HC _ _ _ Hold (or_intror (or_intror Hpc))) as Hle.
    pose proof (c_cas _ HC _ _ _ Hold Hpc) as Hcas.
    assert (Hcas' : events s = seen -> tu (cells s) (npop s)) by exact Hcas.
    step_cases Hst; unfold tail_unsig in *; simpl in *; try (apply Hcas'; reflexivity); try lia;
      try (apply tu_app; [apply Hcas'; reflexivity | reflexivity]);
      try (apply tu_pub; apply Hcas'; reflexivity);
      exfalso; eapply (two_owners_absurd _ t _ t0 th0); eauto;
      match goal with H : tpc _ = _ |- _ => owner_of H end.
  - step_cases Hst; spawned_case Hin; simpl in Hpc; discriminate.
Qed.

Lemma nth_error_snoc : forall A (l : list A) x k c, nth_error (l ++ [x]) k = Some c ->
  nth_error l k = Some c \/ (k = length l /\ c = x).
Proof.
  intros A l x k c H. destruct (Nat.lt_ge_cases k (length l)) as [L|L].
  - rewrite nth_error_app1 in H by exact L. auto.
  - rewrite nth_error_app2 in H by exact L. destruct (k - length l)%nat as [|j] eqn:E; simpl in H.
    + inversion H; subst. right. split; [lia | reflexivity].
    + destruct j; discriminate.
Qed.

Lemma sigpub_step : forall s t s', OwnInv s -> CovInv s -> step s t = Some s' ->
  forall k c, nth_error (cells s') k = Some c -> csig c = true -> cpub c = true.
Proof.
  intros s t s' HO HC Hs k c Hn Hsig. step_setup Hs s t.
  pose proof (c_sigpub _ HC) as SP.
  step_cases Hst; simpl in *; eauto.
  - (* ticket *) apply nth_error_snoc in Hn. destruct Hn as [Hn|[_ ->]]; [eauto | simpl in Hsig; discriminate].
  - (* ticket, copying overload *) apply nth_error_snoc in Hn. destruct Hn as [Hn|[_ ->]]; [eauto | simpl in Hsig; discriminate].
  - (* publish *) rewrite nth_error_upd_nth in Hn. destruct (Nat.eqb tk k); [|eauto].
    destruct (nth_error (cells s) tk) eqn:E; simpl in Hn; [|discriminate]. inversion Hn; subst. reflexivity.
  - (* signal, early *) rewrite nth_error_upd_nth in Hn. destruct (Nat.eqb n k); [|eauto].
    destruct (c_psig _ HC _ _ _ Hth Heqp) as (c0 & E0 & P0). rewrite E0 in Hn. simpl in Hn. inversion Hn; subst. exact P0.
  - rewrite nth_error_upd_nth in Hn. destruct (Nat.eqb n k); [|eauto].
    destruct (c_psig _ HC _ _ _ Hth Heqp) as (c0 & E0 & P0). rewrite E0 in Hn. simpl in Hn. inversion Hn; subst. exact P0.
Qed.

Lemma cell_pub_mono : forall s t s1 th th' sp, step_thread s t th = Some (s1, th', sp) ->
  forall k c, nth_error (cells s) k = Some c -> cpub c = true ->
  exists c', nth_error (cells s1) k = Some c' /\ cpub c' = true.
Proof.
  intros s t s1 th th' sp Hst k c Hn Hp.
  step_cases Hst; simpl; eauto.
  - exists c. split; [|exact Hp]. rewrite nth_error_app1; [exact Hn | apply nth_error_Some; congruence].
  - exists c. split; [|exact Hp]. rewrite nth_error_app1; [exact Hn | apply nth_error_Some; congruence].
  - rewrite nth_error_upd_nth. destruct (Nat.eqb tk k) eqn:E; [|eauto].
    apply Nat.eqb_eq in E; subst. rewrite Hn. simpl. eauto.
  - rewrite nth_error_upd_nth. destruct (Nat.eqb n k) eqn:E; [|eauto].
    apply Nat.eqb_eq in E; subst. rewrite Hn. simpl. eauto.
  - rewrite nth_error_upd_nth. destruct (Nat.eqb n k) eqn:E; [|eauto].
    apply Nat.eqb_eq in E; subst. rewrite Hn. simpl. eauto.
Qed.

Lemma cells_length_mono : forall s t s1 th th' sp, step_thread s t th = Some (s1, th', sp) ->
  (length (cells s) <= length (cells s1))%nat.
Proof.
  intros s t s1 th th' sp Hst. step_cases Hst; simpl; rewrite ?app_length, ?length_upd_nth; simpl; lia.
Qed.

Lemma ppub_step : forall s t s', OwnInv s -> CovInv s -> step s t = Some s' ->
  forall t0 th0 k, nth_error (threads s') t0 = Some th0 -> tpc th0 = PPublish k -> (k < length (cells s'))%nat.
Proof.
  intros s t s' HO HC Hs t0 th0 k Hn Hpc. step_setup Hs s t.
  destruct (install_threads _ _ _ _ _ _ Hn _ Hth1) as [[-> ->]|[[Hne Hold]|[Hin Hne]]].
  - step_cases Hst; simpl in *; try discriminate; inversion Hpc; subst; rewrite app_length; simpl; lia.
  - rewrite Hthr in Hold. pose proof (c_ppub _ HC _ _ _ Hold Hpc). pose proof (cells_length_mono _ _ _ _ _ _ Hst).
    unfold install; simpl. lia.
  - step_cases Hst; spawned_case Hin; simpl in Hpc; discriminate.
Qed.

Lemma psig_step : forall s t s', OwnInv s -> CovInv s -> step s t = Some s' ->
  forall t0 th0 k, nth_error (threads s') t0 = Some th0 -> tpc th0 = PSignal (Some k) ->
  exists c, nth_error (cells s') k = Some c /\ cpub c = true.
Proof.
  intros s t s' HO HC Hs t0 th0 k Hn Hpc. step_setup Hs s t.
  destruct (install_threads _ _ _ _ _ _ Hn _ Hth1) as [[-> ->]|[[Hne Hold]|[Hin Hne]]].
  - pose proof (fun k => c_ppub _ HC _ _ k Hth) as PP.
    step_cases Hst; simpl in *; try discriminate.
    inversion Hpc; subst. rewrite nth_error_upd_nth, Nat.eqb_refl.
    destruct (nth_error (cells s) k) as [c|] eqn:E; simpl; [eauto|].
    exfalso. apply nth_error_None in E. specialize (PP _ eq_refl). lia.
  - rewrite Hthr in Hold. destruct (c_psig _ HC _ _ _ Hold Hpc) as (c & E & P).
    unfold install; simpl. eapply cell_pub_mono; eauto.
  - step_cases Hst; spawned_case Hin; simpl in Hpc; discriminate.
Qed.

Lemma cover_step : forall s t s', OwnInv s -> CovInv s -> step s t = Some s' ->
  events s' = 0 -> stale s' = false -> tail_unsig s'.
Proof.
  intros s t s' HO HC Hs Hev Hst0. step_setup Hs s t. pose proof g_amount as GA.
  pose proof (c_cover _ HC) as CV. pose proof (o_nonneg _ HO) as NN.
  assert (Hown : is_owner th = true -> 0 < events s) by (intro; eapply own_pos_of_owner; eauto).
  unfold tail_unsig in *.
  step_cases Hst; simpl in *; try discriminate; try lia;
    try (apply CV; assumption);
    try (apply tu_app; [apply CV; assumption | reflexivity]);
    try (apply tu_pub; apply CV; assumption);
    try (exfalso; assert (0 < events s) by (apply Hown; match goal with H : tpc _ = _ |- _ => owner_of H end); lia).
  (* consumer exit *)
  all: zb; eapply (c_cas _ HC); eauto.
Qed.

Lemma cov_step : forall s t s', OwnInv s -> CovInv s -> step s t = Some s' -> CovInv s'.
Proof.
  intros s t s' HO HC Hs. constructor.
  - step_setup Hs s t. pose proof (c_cap _ HC). step_cases Hst; simpl; assumption.
  - eapply seen_step; eauto.
  - eapply cas_step; eauto.
  - eapply sigpub_step; eauto.
  - eapply psig_step; eauto.
  - eapply ppub_step; eauto.
  - eapply cover_step; eauto.
Qed.

(* ---- initial state, reachability ---- *)
Lemma init_thread : forall progs t th, nth_error (map mk_thread progs) t = Some th -> tpc th = Idle /\ opi th = 0%nat.
Proof.
  intros progs t th H. rewrite nth_error_map in H. destruct (nth_error progs t); simpl in H; [|discriminate].
  inversion H; subst. split; reflexivity.
Qed.

Lemma owners_init : forall progs, owners (map mk_thread progs) = 0%nat.
Proof. induction progs; simpl; auto. Qed.

Lemma own_init : forall c a f progs, OwnInv (init c a f progs).
Proof. intros. constructor; simpl; intros; try lia; apply owners_init. Qed.

Lemma cov_init : forall c a f progs, (1 <= c)%nat -> CovInv (init c a f progs).
Proof.
  intros c a f progs Hc. constructor; simpl; try assumption.
  - intros t th seen H [E|[E|E]]; apply init_thread in H; destruct H as [P _]; congruence.
  - intros t th seen H E; apply init_thread in H; destruct H as [P _]; congruence.
  - intros k c0 H; destruct k; discriminate.
  - intros t th k H E; apply init_thread in H; destruct H as [P _]; congruence.
  - intros t th k H E; apply init_thread in H; destruct H as [P _]; congruence.
  - intros _ _ k c0 _ H. destruct k; discriminate.
Qed.

Lemma reach_inv : forall c a f progs s, (1 <= c)%nat -> Reach c a f progs s -> OwnInv s /\ CovInv s.
Proof.
  intros c a f progs s Hc HR.
  apply (inv_reachable st step (fun s => OwnInv s /\ CovInv s) (init c a f progs)); auto.
  - split; [apply own_init | apply cov_init; exact Hc].
  - intros s0 t s' [A B] Hs. split; [eapply own_step; eauto | eapply cov_step; eauto].
Qed.

(* ---- single consumer ---- *)
Lemma consumer_is_owner : forall th, is_consumer th = true -> is_owner th = true.
Proof. intros th. unfold is_consumer, is_owner. destruct (tpc th); auto. Qed.

Theorem eq_single_consumer : forall c a f progs s t1 t2 th1 th2, (1 <= c)%nat -> Reach c a f progs s ->
  nth_error (threads s) t1 = Some th1 -> nth_error (threads s) t2 = Some th2 ->
  is_consumer th1 = true -> is_consumer th2 = true -> t1 = t2.
Proof.
  intros c a f progs s t1 t2 th1 th2 Hc HR H1 H2 C1 C2. destruct (reach_inv _ _ _ _ _ Hc HR) as [HO _].
  apply consumer_is_owner in C1. apply consumer_is_owner in C2.
  destruct (own_pos_of_owner _ _ _ HO H1 C1) as [_ U]. eapply owners_unique; eauto.
Qed.

Lemma filter_le_owners : forall l, (length (filter in_consume l) <= owners l)%nat.
Proof.
  unfold owners. induction l as [|x l IH]; simpl; [lia|].
  unfold in_consume at 1, is_owner at 1. destruct (tpc x); simpl; lia.
Qed.

Theorem eq_inside_le_1 : forall c a f progs s, (1 <= c)%nat -> Reach c a f progs s -> (inside s <= 1)%nat.
Proof.
  intros c a f progs s Hc HR. destruct (reach_inv _ _ _ _ _ Hc HR) as [[A B C] _].
  unfold inside. pose proof (filter_le_owners (threads s)).
  destruct (Z.eq_dec (events s) 0) as [E|E]; [rewrite (B E) in *; lia | rewrite C in * by lia; lia].
Qed.

(* the counter is non-zero exactly when there is an owner, and then exactly one *)
Theorem eq_events_iff_owner : forall c a f progs s, (1 <= c)%nat -> Reach c a f progs s ->
  (events s = 0 -> owners (threads s) = 0%nat) /\ (events s <> 0 -> owners (threads s) = 1%nat) /\ 0 <= events s.
Proof.
  intros c a f progs s Hc HR. destruct (reach_inv _ _ _ _ _ Hc HR) as [[A B C] _].
  split; [exact B | split; [intro; apply C; lia | exact A]].
Qed.

(* liveness, proved part: while join() has to wait there is exactly one owner and it can always take a step *)
Lemma owner_enabled : forall s t th, nth_error (threads s) t = Some th -> is_owner th = true -> step s t <> None.
Proof.
  intros s t th H Ho. unfold step. rewrite H. unfold is_owner in Ho.
  unfold step_thread. destruct (tpc th); try discriminate;
    repeat match goal with |- context [if ?b then _ else _] => destruct b end; discriminate.
Qed.

Lemma owners_exists : forall l, (1 <= owners l)%nat -> exists t th, nth_error l t = Some th /\ is_owner th = true.
Proof.
  unfold owners. induction l as [|x l IH]; simpl; intro H; [lia|].
  destruct (is_owner x) eqn:E.
  - exists 0%nat, x. auto.
  - destruct (IH H) as (t & th & A & B). exists (S t), th. auto.
Qed.

Theorem eq_waiting_join_has_enabled_owner : forall c a f progs s, (1 <= c)%nat -> Reach c a f progs s ->
  events s <> 0 -> exists t th, nth_error (threads s) t = Some th /\ is_owner th = true /\ step s t <> None.
Proof.
  intros c a f progs s Hc HR E. destruct (reach_inv _ _ _ _ _ Hc HR) as [[A B C] _].
  destruct (owners_exists (threads s)) as (t & th & H & Ho); [rewrite C; lia|].
  exists t, th. split; [exact H | split; [exact Ho | eapply owner_enabled; eauto]].
Qed.

(* ---- tickets and their producers ---- *)
Lemma install_other : forall s1 t th' sp t0 x, t0 <> t -> nth_error (threads s1) t0 = Some x ->
  nth_error (threads (install s1 t th' sp)) t0 = Some x.
Proof.
  intros. unfold install; simpl.
  assert (L : (t0 < length (threads s1))%nat) by (apply nth_error_Some; congruence).
  rewrite nth_error_app1 by (rewrite length_upd_nth; exact L).
  rewrite nth_error_upd_nth. destruct (Nat.eqb t t0) eqn:E; [apply Nat.eqb_eq in E; congruence | assumption].
Qed.

(* an unsignalled ticket is held by its producer, which is publishing or about to signal exactly that ticket *)
Definition UnsigInv (s : st) : Prop := forall k c, nth_error (cells s) k = Some c -> csig c = false ->
  exists th, nth_error (threads s) (cown c) = Some th /\ (tpc th = PPublish k \/ tpc th = PSignal (Some k)) /\
             cseq c = opi th.

Ltac keep_witness IH Hn Hsig Hth t :=
  let th0 := fresh "th0" in let H0 := fresh "H0" in let Hp0 := fresh "Hp0" in let Hq0 := fresh "Hq0" in let E := fresh "E" in
  destruct (IH _ _ Hn Hsig) as (th0 & H0 & Hp0 & Hq0);
  match type of H0 with nth_error _ ?o = _ =>
    destruct (Nat.eq_dec o t) as [E|E];
    [ rewrite E in H0; rewrite Hth in H0; inversion H0; subst th0; destruct Hp0; congruence
    | exists th0; split; [apply install_other; auto | split; [exact Hp0 | exact Hq0]] ]
  end.

Lemma unsig_step : forall s t s', UnsigInv s -> step s t = Some s' -> UnsigInv s'.
Proof.
  intros s t s' IH Hs k c Hn Hsig. step_setup Hs s t.
  step_cases Hst; simpl in Hn; try (keep_witness IH Hn Hsig Hth t).
  - (* ticket *)
    apply nth_error_snoc in Hn. destruct Hn as [Hn|[-> ->]].
    + keep_witness IH Hn Hsig Hth t.
    + simpl. eexists. split; [eapply install_self; eauto | split; [left; reflexivity | reflexivity]].
  - (* ticket, copying overload *)
    apply nth_error_snoc in Hn. destruct Hn as [Hn|[-> ->]].
    + keep_witness IH Hn Hsig Hth t.
    + simpl. eexists. split; [eapply install_self; eauto | split; [left; reflexivity | reflexivity]].
  - (* publish *)
    rewrite nth_error_upd_nth in Hn. destruct (Nat.eqb tk k) eqn:E.
    + apply Nat.eqb_eq in E; subst. destruct (nth_error (cells s) k) as [c0|] eqn:E0; simpl in Hn; [|discriminate].
      inversion Hn; subst; simpl in *. destruct (IH _ _ E0 Hsig) as (th0 & H0 & Hp0 & Hq0).
      destruct (Nat.eq_dec (cown c0) t) as [E|E].
      * rewrite E in H0. rewrite Hth in H0. inversion H0; subst th0.
        rewrite E. eexists. split; [eapply install_self; eauto | split; [right; reflexivity | exact Hq0]].
      * exists th0. split; [apply install_other; auto|]. split; [exact Hp0 | exact Hq0].
    + destruct (IH _ _ Hn Hsig) as (th0 & H0 & Hp0 & Hq0). destruct (Nat.eq_dec (cown c) t) as [E1|E1].
      * rewrite E1 in H0. rewrite Hth in H0. inversion H0; subst th0.
        destruct Hp0 as [P|P]; rewrite P in Heqp; inversion Heqp; subst. rewrite Nat.eqb_refl in E. discriminate.
      * exists th0. split; [apply install_other; auto | split; [exact Hp0 | exact Hq0]].
  - (* signal early *)
    rewrite nth_error_upd_nth in Hn. destruct (Nat.eqb n k) eqn:E.
    + destruct (nth_error (cells s) n); simpl in Hn; [|discriminate]. inversion Hn; subst. simpl in Hsig. discriminate.
    + destruct (IH _ _ Hn Hsig) as (th0 & H0 & Hp0 & Hq0). destruct (Nat.eq_dec (cown c) t) as [E1|E1].
      * rewrite E1 in H0. rewrite Hth in H0. inversion H0; subst th0.
        destruct Hp0 as [P|P]; rewrite P in Heqp; inversion Heqp; subst. rewrite Nat.eqb_refl in E. discriminate.
      * exists th0. split; [apply install_other; auto | split; [exact Hp0 | exact Hq0]].
  - (* signal, launches *)
    rewrite nth_error_upd_nth in Hn. destruct (Nat.eqb n k) eqn:E.
    + destruct (nth_error (cells s) n); simpl in Hn; [|discriminate]. inversion Hn; subst. simpl in Hsig. discriminate.
    + destruct (IH _ _ Hn Hsig) as (th0 & H0 & Hp0 & Hq0). destruct (Nat.eq_dec (cown c) t) as [E1|E1].
      * rewrite E1 in H0. rewrite Hth in H0. inversion H0; subst th0.
        destruct Hp0 as [P|P]; rewrite P in Heqp; inversion Heqp; subst. rewrite Nat.eqb_refl in E. discriminate.
      * exists th0. split; [apply install_other; auto | split; [exact Hp0 | exact Hq0]].
Qed.

(* tickets popped but not yet released are in the hands of a consumer inside the consume function *)
Definition ConsInv (s : st) : Prop :=
  ndel s = npop s \/ exists t th, nth_error (threads s) t = Some th /\ tpc th = CConsume.

Lemma cons_step : forall s t s', ConsInv s -> step s t = Some s' -> ConsInv s'.
Proof.
  intros s t s' IH Hs. step_setup Hs s t. unfold ConsInv in *.
  destruct IH as [E|(t1 & th1 & H1 & P1)].
  - step_cases Hst; simpl; auto.
    right. exists t. eexists. split; [eapply install_self; eauto | reflexivity].
  - destruct (Nat.eq_dec t1 t) as [->|N].
    + rewrite Hth in H1. inversion H1; subst th1. step_cases Hst; try congruence. simpl. auto.
    + right. exists t1, th1. split; [|exact P1]. apply install_other; auto. rewrite Hthr. exact H1.
Qed.

(* every ticket was issued to an execute() op of its producer, which has reached or passed that op *)
Definition CellInv (s : st) : Prop := forall k c, nth_error (cells s) k = Some c ->
  exists th, nth_error (threads s) (cown c) = Some th /\ exec_at th (cseq c) = true /\
             (cseq c <= opi th)%nat /\ (cseq c = opi th -> tpc th <> Idle).

Ltac ea := unfold exec_at; match goal with H : nth_error (prog _) (opi _) = _ |- _ => rewrite H end; reflexivity.

Lemma cell_origin : forall s t th s1 th' sp, step_thread s t th = Some (s1, th', sp) ->
  forall k c, nth_error (cells s1) k = Some c ->
  (exists c0, nth_error (cells s) k = Some c0 /\ cown c0 = cown c /\ cseq c0 = cseq c) \/
  (k = length (cells s) /\ tpc th = Idle /\ exec_at th (opi th) = true /\ cown c = t /\ cseq c = opi th).
Proof.
  intros s t th s1 th' sp Hst k c Hn.
  step_cases Hst; simpl in Hn; eauto;
    try (rewrite nth_error_upd_nth in Hn;
         match type of Hn with (if ?b then _ else _) = _ => destruct b eqn:Eb end;
         [ apply Nat.eqb_eq in Eb; subst;
           match type of Hn with option_map _ ?o = _ => destruct o as [c0|] eqn:E0 end; simpl in Hn; [|discriminate];
           inversion Hn; subst; left; exists c0; simpl; auto
         | eauto ]).
  all: apply nth_error_snoc in Hn; destruct Hn as [Hn|[-> ->]]; [eauto | right; simpl; repeat split; auto; ea].
Qed.

(* what a step does to the stepping thread's op index and pc *)
Lemma step_thread_progress : forall s t th s1 th' sp, step_thread s t th = Some (s1, th', sp) ->
  prog th' = prog th /\
  ((opi th' = opi th /\ (tpc th' <> Idle \/ exec_at th (opi th) = false)) \/
   (opi th' = S (opi th) /\ tpc th' = Idle /\ (tpc th <> Idle \/ exec_at th (opi th) = false))).
Proof.
  intros s t th s1 th' sp Hst.
  step_cases Hst; simpl; split; try reflexivity;
    try (left; split; [reflexivity | left; discriminate]);
    try (right; split; [reflexivity | split; [reflexivity | left; congruence]]);
    try (right; split; [reflexivity | split; [reflexivity | right; ea]]);
    try (left; split; [reflexivity | right; ea]).
Qed.

Lemma spawned_threads : forall s t th s1 th' sp, step_thread s t th = Some (s1, th', sp) ->
  sp = [] \/ sp = [consumer_thread].
Proof. intros s t th s1 th' sp Hst. step_cases Hst; auto. Qed.

Lemma cell_step : forall s t s', CellInv s -> step s t = Some s' -> CellInv s'.
Proof.
  intros s t s' IH Hs k c Hn. step_setup Hs s t. unfold install in Hn; simpl in Hn.
  destruct (step_thread_progress _ _ _ _ _ _ Hst) as [Pp Po].
  destruct (cell_origin _ _ _ _ _ _ Hst _ _ Hn) as [(c0 & E0 & Eo & Es)|(-> & Pi & Px & Eo & Es)].
  - destruct (IH _ _ E0) as (th0 & H0 & Hx & Hle & Hid). rewrite Eo, Es in *.
    destruct (Nat.eq_dec (cown c) t) as [E|E].
    + rewrite E in *. rewrite Hth in H0. inversion H0; subst th0.
      exists th'. split; [eapply install_self; eauto|]. split; [unfold exec_at in *; rewrite Pp; exact Hx|].
      destruct Po as [[Q1 Q2]|[Q1 [_ Q2]]]; rewrite Q1.
      * split; [exact Hle|]. intro Ec. destruct Q2 as [Q2|Q2]; [exact Q2 | rewrite Ec in Hx; congruence].
      * split; [lia | intro; lia].
    + exists th0. split; [apply install_other; auto; rewrite Hthr; exact H0 | auto].
  - rewrite Eo, Es. exists th'. split; [eapply install_self; eauto|]. split; [unfold exec_at in *; rewrite Pp; exact Px|].
    destruct Po as [[Q1 Q2]|[Q1 [_ Q2]]]; rewrite Q1.
    + split; [lia|]. intros _. destruct Q2 as [Q2|Q2]; [exact Q2 | congruence].
    + destruct Q2 as [Q2|Q2]; congruence.
Qed.

(* tickets of one producer carry increasing op indices (submission order = ticket order) *)
Definition SortedInv (s : st) : Prop := forall i j ci cj, (i < j)%nat ->
  nth_error (cells s) i = Some ci -> nth_error (cells s) j = Some cj -> cown ci = cown cj -> (cseq ci < cseq cj)%nat.

Lemma sorted_step : forall s t s', CellInv s -> SortedInv s -> step s t = Some s' -> SortedInv s'.
Proof.
  intros s t s' HC IH Hs i j ci cj Hij Hi Hj Ho. step_setup Hs s t. unfold install in Hi, Hj; simpl in Hi, Hj.
  destruct (cell_origin _ _ _ _ _ _ Hst _ _ Hi) as [(c0 & E0 & Eo & Es)|(-> & Pi & Px & Eo & Es)];
  destruct (cell_origin _ _ _ _ _ _ Hst _ _ Hj) as [(c1 & E1 & Eo1 & Es1)|(-> & Pi1 & Px1 & Eo1 & Es1)].
  - rewrite <- Es, <- Es1. eapply IH; eauto. congruence.
  - destruct (HC _ _ E0) as (th0 & H0 & Hx & Hle & Hid).
    assert (cown c0 = t) by congruence. rewrite H in H0. rewrite Hth in H0. inversion H0; subst th0.
    rewrite <- Es, Es1. destruct (Nat.eq_dec (cseq c0) (opi th)) as [E|E]; [exfalso; apply (Hid E); exact Pi1 | lia].
  - exfalso. assert (j < length (cells s))%nat by (apply nth_error_Some; congruence). lia.
  - lia.
Qed.

(* every execute() op that was started has its ticket *)
Definition ExecInv (s : st) : Prop := forall t th i, nth_error (threads s) t = Some th ->
  exec_at th i = true -> ((i < opi th)%nat \/ (i = opi th /\ tpc th <> Idle)) ->
  exists k c, nth_error (cells s) k = Some c /\ cown c = t /\ cseq c = i.

Lemma cell_persist : forall s t th s1 th' sp, step_thread s t th = Some (s1, th', sp) ->
  forall k c, nth_error (cells s) k = Some c ->
  exists c', nth_error (cells s1) k = Some c' /\ cown c' = cown c /\ cseq c' = cseq c.
Proof.
  intros s t th s1 th' sp Hst k c Hn.
  step_cases Hst; simpl; eauto;
    try (rewrite nth_error_upd_nth;
         match goal with |- context [if ?b then _ else _] => destruct b eqn:Eb end;
         [ apply Nat.eqb_eq in Eb; subst; rewrite Hn; simpl; eexists; split; [reflexivity | simpl; auto] | eauto ]).
  all: exists c; (split; [|auto]); rewrite nth_error_app1; [exact Hn | apply nth_error_Some; congruence].
Qed.

Lemma exec_step : forall s t s', ExecInv s -> step s t = Some s' -> ExecInv s'.
Proof.
  intros s t s' IH Hs t0 th0 i Hn Hx Hc. step_setup Hs s t.
  assert (KEEP : forall tt thh, nth_error (threads s) tt = Some thh -> exec_at thh i = true ->
                 ((i < opi thh)%nat \/ (i = opi thh /\ tpc thh <> Idle)) ->
                 exists k c, nth_error (cells (install s1 t th' sp)) k = Some c /\ cown c = tt /\ cseq c = i).
  { intros tt thh A B C. destruct (IH _ _ _ A B C) as (k & c & E & Eo & Es).
    destruct (cell_persist _ _ _ _ _ _ Hst _ _ E) as (c' & E' & Eo' & Es'). exists k, c'. unfold install; simpl.
    split; [exact E' | split; congruence]. }
  destruct (install_threads _ _ _ _ _ _ Hn _ Hth1) as [[-> ->]|[[Hne Hold]|[Hin Hne]]].
  - destruct (step_thread_progress _ _ _ _ _ _ Hst) as [Pp Po].
    assert (Hx' : exec_at th i = true) by (unfold exec_at in *; rewrite <- Pp; exact Hx). clear Hx. rename Hx' into Hx.
    destruct (Nat.eq_dec i (opi th)) as [Ei|Ei].
    + (* the op the thread is at *)
      destruct (tpc th) eqn:Epc;
        try (apply (KEEP t th Hth Hx); right; split; [exact Ei | rewrite Epc; discriminate]).
      (* Idle: this step takes the ticket *)
      subst i. clear KEEP. step_cases Hst; try congruence;
        try (unfold exec_at in Hx; match goal with H : nth_error (prog _) (opi _) = _ |- _ => rewrite H in Hx end;
             discriminate Hx).
      all: exists (length (cells s)), {| cown := t; cseq := opi th; cpub := false; csig := false |};
        unfold install; simpl; split; [|split; reflexivity];
        rewrite nth_error_app2 by lia; rewrite Nat.sub_diag; reflexivity.
    + apply (KEEP t th Hth Hx). left.
      destruct Po as [[Q1 Q2]|[Q1 [Q3 Q2]]]; rewrite Q1 in Hc; destruct Hc as [L|[E N]]; try lia.
      exfalso; apply N; exact Q3.
  - rewrite Hthr in Hold. eapply KEEP; eauto.
  - destruct (spawned_threads _ _ _ _ _ _ Hst) as [->| ->]; simpl in Hin; [contradiction|].
    destruct Hin as [<-|[]]. unfold exec_at in Hx. simpl in Hx. destruct i; discriminate.
Qed.

(* a producer about to publish holds its own, still unpublished ticket *)
Definition PPubInv (s : st) : Prop := forall t th k, nth_error (threads s) t = Some th -> tpc th = PPublish k ->
  exists c, nth_error (cells s) k = Some c /\ cpub c = false /\ cown c = t.

Lemma unpub_persist : forall s t th s1 th' sp, step_thread s t th = Some (s1, th', sp) ->
  forall k c, nth_error (cells s) k = Some c -> cpub c = false ->
  (exists c', nth_error (cells s1) k = Some c' /\ cpub c' = false /\ cown c' = cown c) \/ tpc th = PPublish k.
Proof.
  intros s t th s1 th' sp Hst k c Hn Hp.
  step_cases Hst; simpl; eauto.
  - left. exists c. split; [|auto]. rewrite nth_error_app1; [exact Hn | apply nth_error_Some; congruence].
  - left. exists c. split; [|auto]. rewrite nth_error_app1; [exact Hn | apply nth_error_Some; congruence].
  - destruct (Nat.eq_dec tk k) as [->|N]; [right; reflexivity|].
    left. rewrite nth_error_upd_nth. destruct (Nat.eqb tk k) eqn:E; [apply Nat.eqb_eq in E; contradiction | eauto].
  - left. rewrite nth_error_upd_nth. destruct (Nat.eqb n k) eqn:E; [|eauto].
    apply Nat.eqb_eq in E; subst. rewrite Hn. simpl. eexists. split; [reflexivity | simpl; auto].
  - left. rewrite nth_error_upd_nth. destruct (Nat.eqb n k) eqn:E; [|eauto].
    apply Nat.eqb_eq in E; subst. rewrite Hn. simpl. eexists. split; [reflexivity | simpl; auto].
Qed.

Lemma ppubinv_step : forall s t s', PPubInv s -> step s t = Some s' -> PPubInv s'.
Proof.
  intros s t s' IH Hs t0 th0 k Hn Hpc. step_setup Hs s t.
  destruct (install_threads _ _ _ _ _ _ Hn _ Hth1) as [[-> ->]|[[Hne Hold]|[Hin Hne]]].
  - step_cases Hst; simpl in *; try discriminate; inversion Hpc; subst;
      eexists; (split; [rewrite nth_error_app2 by lia; rewrite Nat.sub_diag; reflexivity | simpl; auto]).
  - rewrite Hthr in Hold. destruct (IH _ _ _ Hold Hpc) as (c & E & P & O).
    destruct (unpub_persist _ _ _ _ _ _ Hst _ _ E P) as [(c' & E' & P' & O')|Hsame].
    + exists c'. unfold install; simpl. split; [exact E' | split; [exact P' | congruence]].
    + destruct (IH _ _ _ Hth Hsame) as (c1 & E1 & _ & O1). congruence.
  - step_cases Hst; spawned_case Hin; simpl in Hpc; discriminate.
Qed.

(* popped tickets were published *)
Definition PopInv (s : st) : Prop :=
  (npop s <= length (cells s))%nat /\
  forall k c, (k < npop s)%nat -> nth_error (cells s) k = Some c -> cpub c = true.

Lemma ready_prefix_pub : forall l j c, (j < ready_prefix l)%nat -> nth_error l j = Some c -> cpub c = true.
Proof.
  induction l as [|x l IH]; intros j c Hj Hn; simpl in *; [lia|].
  destruct (cpub x) eqn:P; [|lia]. destruct j; simpl in Hn; [inversion Hn; subst; exact P | eapply IH; eauto; lia].
Qed.

Lemma ready_prefix_le : forall l, (ready_prefix l <= length l)%nat.
Proof. induction l as [|x l IH]; simpl; [lia|]. destruct (cpub x); lia. Qed.

Lemma nth_error_skipn_add : forall A (l : list A) n j, nth_error (skipn n l) j = nth_error l (n + j).
Proof. induction l as [|x l IH]; intros [|n] j; simpl; auto. destruct j; reflexivity. Qed.

Lemma cell_back_pub : forall s t th s1 th' sp, step_thread s t th = Some (s1, th', sp) ->
  forall k c, nth_error (cells s1) k = Some c -> (k < length (cells s))%nat ->
  exists c0, nth_error (cells s) k = Some c0 /\ (cpub c0 = true -> cpub c = true).
Proof.
  intros s t th s1 th' sp Hst k c Hn Hk.
  step_cases Hst; simpl in Hn; eauto;
    try (rewrite nth_error_upd_nth in Hn;
         match type of Hn with (if ?b then _ else _) = _ => destruct b eqn:Eb end;
         [ apply Nat.eqb_eq in Eb; subst;
           match type of Hn with option_map _ ?o = _ => destruct o as [c0|] eqn:E0 end; simpl in Hn; [|discriminate];
           inversion Hn; subst; exists c0; simpl; auto
         | eauto ]).
  all: rewrite nth_error_app1 in Hn by exact Hk; eauto.
Qed.

Lemma npop_step : forall s t th s1 th' sp, step_thread s t th = Some (s1, th', sp) ->
  npop s1 = npop s \/
  (exists n, npop s1 = (npop s + n)%nat /\ (n <= ready_prefix (skipn (npop s) (cells s)))%nat /\ cells s1 = cells s).
Proof.
  intros s t th s1 th' sp Hst. step_cases Hst; simpl; auto.
  right. eexists. split; [reflexivity | split; [apply Nat.le_min_l | reflexivity]].
Qed.

Lemma popinv_step : forall s t s', PopInv s -> step s t = Some s' -> PopInv s'.
Proof.
  intros s t s' [IL IH] Hs. step_setup Hs s t. unfold PopInv, install; simpl.
  pose proof (cells_length_mono _ _ _ _ _ _ Hst) as LM.
  destruct (npop_step _ _ _ _ _ _ Hst) as [E|(n & E & Ln & Ec)].
  - rewrite E. split; [lia|]. intros k c Hk Hn.
    assert (L : (k < length (cells s))%nat) by lia.
    destruct (cell_back_pub _ _ _ _ _ _ Hst _ _ Hn L) as (c0 & E0 & M). apply M. eapply IH; eauto.
  - rewrite Ec, E. pose proof (ready_prefix_le (skipn (npop s) (cells s))) as RL. rewrite skipn_length in RL.
    split; [lia|]. intros k c Hk Hn. destruct (Nat.lt_ge_cases k (npop s)) as [L|L]; [eapply IH; eauto|].
    apply (ready_prefix_pub (skipn (npop s) (cells s)) (k - npop s)); [lia|].
    rewrite nth_error_skipn_add. replace (npop s + (k - npop s))%nat with k by lia. exact Hn.
Qed.

(* no thread is ever between the load and the store of a non-atomic ticket acquisition: both execute() overloads
   push with CONCURRENT = true (g_move_conc, g_copy_conc) *)
Definition NoTkInv (s : st) : Prop := forall t th i, nth_error (threads s) t = Some th -> tpc th <> PTicket i.

Lemma notk_step : forall s t s', NoTkInv s -> step s t = Some s' -> NoTkInv s'.
Proof.
  intros s t s' IH Hs t0 th0 i Hn Hpc. step_setup Hs s t.
  destruct (install_threads _ _ _ _ _ _ Hn _ Hth1) as [[-> ->]|[[Hne Hold]|[Hin Hne]]].
  - step_cases Hst; simpl in Hpc; try discriminate;
      repeat match goal with H : context [match ?x with _ => _ end] |- _ => destruct x; simpl in H end; discriminate.
  - rewrite Hthr in Hold. eapply IH; eauto.
  - step_cases Hst; spawned_case Hin; simpl in Hpc; discriminate.
Qed.

(* ---- all invariants together ---- *)
Record AllInv (s : st) : Prop := {
  a_own : OwnInv s; a_cov : CovInv s; a_unsig : UnsigInv s; a_cons : ConsInv s; a_cell : CellInv s;
  a_sorted : SortedInv s; a_exec : ExecInv s; a_ppub : PPubInv s; a_pop : PopInv s; a_notk : NoTkInv s
}.

Lemma all_init : forall c a f progs, (1 <= c)%nat -> AllInv (init c a f progs).
Proof.
  intros c a f progs Hc. constructor.
  - apply own_init.
  - apply cov_init; exact Hc.
  - intros k c0 H; destruct k; discriminate.
  - left; reflexivity.
  - intros k c0 H; destruct k; discriminate.
  - intros i j ci cj _ H; destruct i; discriminate.
  - intros t th i H Hx Hc0. simpl in H. apply init_thread in H. destruct H as [P O]. rewrite P, O in Hc0.
    destruct Hc0 as [L|[_ N]]; [lia | congruence].
  - intros t th k H E. simpl in H. apply init_thread in H. destruct H as [P _]. congruence.
  - split; [simpl; lia | intros k c0 Hk; simpl in Hk; lia].
  - intros t th i H E. simpl in H. apply init_thread in H. destruct H as [P _]. congruence.
Qed.

Lemma all_step : forall s t s', AllInv s -> step s t = Some s' -> AllInv s'.
Proof.
  intros s0 t s' [A B C D E F G H I J] Hs. constructor.
  - eapply own_step; eauto.
  - eapply cov_step; eauto.
  - eapply unsig_step; eauto.
  - eapply cons_step; eauto.
  - eapply cell_step; eauto.
  - eapply sorted_step; eauto.
  - eapply exec_step; eauto.
  - eapply ppubinv_step; eauto.
  - eapply popinv_step; eauto.
  - eapply notk_step; eauto.
Qed.

Lemma reach_all : forall c a f progs s, (1 <= c)%nat -> Reach c a f progs s -> AllInv s.
Proof.
  intros c a f progs s Hc HR.
  apply (inv_reachable st step AllInv (init c a f progs)); auto.
  - apply all_init; exact Hc.
  - intros; eapply all_step; eauto.
Qed.

Theorem eq_tickets_atomic : execute_move_push_concurrent = true /\ execute_copy_push_concurrent = true /\
  (forall c a f progs s t th i, (1 <= c)%nat -> Reach c a f progs s ->
     nth_error (threads s) t = Some th -> tpc th <> PTicket i).
Proof.
  split; [exact g_move_conc | split; [exact g_copy_conc|]].
  intros c a f progs s t th i Hc HR. apply (a_notk _ (reach_all _ _ _ _ _ Hc HR)).
Qed.

(* ---- exactly once, in order ---- *)
Definition key (c : cell) : nat * nat := (cown c, cseq c).

Lemma sorted_nodup : forall s, SortedInv s -> NoDup (map key (cells s)).
Proof.
  intros s HS. apply NoDup_nth_error. intros i j Hi E. rewrite map_length in Hi.
  rewrite !nth_error_map in E.
  destruct (nth_error (cells s) i) as [ci|] eqn:Ei; [|apply nth_error_None in Ei; lia].
  destruct (nth_error (cells s) j) as [cj|] eqn:Ej; simpl in E; [|discriminate].
  inversion E as [[Eo Es]].
  destruct (Nat.lt_trichotomy i j) as [L|[L|L]]; [|exact L|].
  - pose proof (HS _ _ _ _ L Ei Ej Eo). lia.
  - pose proof (HS _ _ _ _ L Ej Ei (eq_sym Eo)). lia.
Qed.

Lemma nth_error_firstn_some : forall A (l : list A) n i x, nth_error (firstn n l) i = Some x -> nth_error l i = Some x.
Proof.
  induction l as [|y l IH]; intros [|n] [|i] x H; simpl in *; try discriminate; auto. eapply IH; eauto.
Qed.

Lemma nodup_app_l : forall A (a b : list A), NoDup (a ++ b) -> NoDup a.
Proof.
  induction a as [|x a IH]; intros b H; [constructor|]. simpl in H. inversion H; subst.
  constructor; [intro Hin; apply H2; apply in_or_app; auto | eapply IH; eauto].
Qed.

Theorem eq_consumed_at_most_once : forall c a f progs s, (1 <= c)%nat -> Reach c a f progs s ->
  NoDup (delivered s) /\
  (forall t i, In (t, i) (delivered s) -> exists th, nth_error (threads s) t = Some th /\ exec_at th i = true).
Proof.
  intros c a f progs s Hc HR. pose proof (reach_all _ _ _ _ _ Hc HR) as [A B C D E F G PP PO NT]. split.
  - unfold delivered. fold key. pose proof (sorted_nodup s F) as ND.
    rewrite <- (firstn_skipn (ndel s) (cells s)) in ND. rewrite map_app in ND.
    eapply nodup_app_l; eauto.
  - intros t i Hin. unfold delivered in Hin. apply in_map_iff in Hin. destruct Hin as (c0 & Ek & Hin).
    inversion Ek; subst. apply In_nth_error in Hin. destruct Hin as [k Hk]. apply nth_error_firstn_some in Hk.
    destruct (E _ _ Hk) as (th & H0 & Hx & _). eauto.
Qed.

Theorem eq_producer_order : forall c a f progs s i j p x y, (1 <= c)%nat -> Reach c a f progs s ->
  (i < j)%nat -> nth_error (delivered s) i = Some (p, x) -> nth_error (delivered s) j = Some (p, y) -> (x < y)%nat.
Proof.
  intros c a f progs s i j p x y Hc HR L Hi Hj. pose proof (reach_all _ _ _ _ _ Hc HR) as [A B C D E F G PP PO NT].
  unfold delivered in *. rewrite nth_error_map in Hi, Hj.
  destruct (nth_error (firstn (ndel s) (cells s)) i) as [ci|] eqn:Ei; simpl in Hi; [|discriminate].
  destruct (nth_error (firstn (ndel s) (cells s)) j) as [cj|] eqn:Ej; simpl in Hj; [|discriminate].
  inversion Hi; inversion Hj; subst.
  apply nth_error_firstn_some in Ei. apply nth_error_firstn_some in Ej. eapply F; eauto; congruence.
Qed.

(* ---- never stranded, join, the end of a run, no deadlock ---- *)
Lemma not_owner_of_zero : forall s t th, OwnInv s -> events s = 0 -> nth_error (threads s) t = Some th ->
  is_owner th = false.
Proof.
  intros s t th A Hev H. destruct (is_owner th) eqn:O; [|reflexivity].
  destruct (own_pos_of_owner _ _ _ A H O). lia.
Qed.

Lemma idle_ndel : forall s, AllInv s -> events s = 0 -> ndel s = npop s.
Proof.
  intros s HA Hev. destruct (a_cons _ HA) as [D|(t1 & th1 & H1 & P1)]; [exact D|].
  pose proof (not_owner_of_zero _ _ _ (a_own _ HA) Hev H1) as O. unfold is_owner in O. rewrite P1 in O. discriminate.
Qed.

(* an item whose producer has signalled and that is not yet delivered has an owner of the counter working for it:
   a running or launched consumer, or the producer that is launching one *)
Theorem eq_never_stranded : forall c a f progs s k x, (1 <= c)%nat -> Reach c a f progs s -> stale s = false ->
  nth_error (cells s) k = Some x -> csig x = true -> (ndel s <= k)%nat ->
  0 < events s /\ owners (threads s) = 1%nat.
Proof.
  intros c a f progs s k x Hc HR Hst Hn Hsig Hk. pose proof (reach_all _ _ _ _ _ Hc HR) as HA.
  destruct (Z.eq_dec (events s) 0) as [E|E].
  - exfalso. pose proof (c_cover _ (a_cov _ HA) E Hst) as TU. rewrite (idle_ndel _ HA E) in Hk.
    rewrite (TU _ _ Hk Hn) in Hsig. discriminate.
  - destruct (a_own _ HA) as [A0 A1 A2]. split; [lia | apply A2; lia].
Qed.

Lemma returned_signalled : forall s k x, AllInv s -> nth_error (cells s) k = Some x ->
  returned (threads s) x = true -> csig x = true.
Proof.
  intros s k x HA Hn Hr. destruct (csig x) eqn:S; [reflexivity|].
  destruct (a_unsig _ HA _ _ Hn S) as (th & H0 & _ & Eq). unfold returned in Hr. rewrite H0, Eq, Nat.ltb_irrefl in Hr.
  discriminate.
Qed.

Lemma in_skipn_nth : forall A (l : list A) n x, In x (skipn n l) -> exists k, (n <= k)%nat /\ nth_error l k = Some x.
Proof.
  intros A l n x Hin. apply In_nth_error in Hin. destruct Hin as [j Hj]. rewrite nth_error_skipn_add in Hj.
  exists (n + j)%nat. split; [lia | exact Hj].
Qed.

Lemma filter_nil : forall A (f : A -> bool) l, (forall x, In x l -> f x = false) -> filter f l = [].
Proof.
  induction l as [|x l IH]; intro H; simpl; [reflexivity|].
  rewrite (H x (or_introl eq_refl)). apply IH. intros y Hy. apply H. right; exact Hy.
Qed.

(* with the counter at zero after a consumer's exit, every item whose execute() has returned is delivered *)
Lemma idle_returned_delivered : forall s, AllInv s -> events s = 0 -> stale s = false ->
  missing s = 0%nat /\
  (forall k x, nth_error (cells s) k = Some x -> returned (threads s) x = true -> (k < ndel s)%nat).
Proof.
  intros s HA Hev Hst.
  assert (Q : forall k x, nth_error (cells s) k = Some x -> returned (threads s) x = true -> (k < ndel s)%nat).
  { intros k x Hn Hr. destruct (Nat.lt_ge_cases k (ndel s)) as [L|L]; [exact L|]. exfalso.
    pose proof (returned_signalled _ _ _ HA Hn Hr) as S. rewrite (idle_ndel _ HA Hev) in L.
    rewrite (c_cover _ (a_cov _ HA) Hev Hst _ _ L Hn) in S. discriminate. }
  split; [|exact Q]. unfold missing. rewrite filter_nil; [reflexivity|].
  intros x Hin. apply in_skipn_nth in Hin. destruct Hin as (k & Lk & Hn).
  destruct (returned (threads s) x) eqn:R; [|reflexivity]. specialize (Q _ _ Hn R). lia.
Qed.

(* a join() that returns (its load reads zero), the last reset of the counter not being a refused launch, finds
   every item whose execute() has returned - a fortiori returned before the join began - delivered *)
Theorem eq_join_returns_after : forall c a f progs s t th s', (1 <= c)%nat -> Reach c a f progs s ->
  nth_error (threads s) t = Some th -> tpc th = Idle -> nth_error (prog th) (opi th) = Some OJoin ->
  step s t = Some s' -> stale s = false ->
  (forall k x, nth_error (cells s) k = Some x -> returned (threads s) x = true -> (k < ndel s)%nat) /\
  exists th', nth_error (threads s') t = Some th' /\ results th' = results th ++ [RJoin 0].
Proof.
  intros c a f progs s t th s' Hc HR Hth Hpc Hop Hs Hst. pose proof (reach_all _ _ _ _ _ Hc HR) as HA.
  unfold step in Hs. rewrite Hth in Hs. unfold step_thread in Hs. rewrite Hpc, Hop, g_join in Hs.
  destruct (events s =? 0) eqn:E; simpl in Hs; [|discriminate]. apply Z.eqb_eq in E.
  destruct (idle_returned_delivered s HA E Hst) as [M Q]. split; [exact Q|].
  inversion Hs; subst. eexists. split; [eapply install_self; eauto|]. simpl. rewrite M. reflexivity.
Qed.

(* history form, executor that never refuses: every join() that ever returned did so with nothing missing *)
Record QuietInv (s : st) : Prop := {
  q_faults : faults s = [];
  q_stale : stale s = false;
  q_norb : forall t th e, nth_error (threads s) t = Some th -> tpc th <> PRollback e;
  q_join : forall t th m, nth_error (threads s) t = Some th -> In (RJoin m) (results th) -> m = 0%nat
}.

Lemma call_res_not_join : forall th rc m, call_res th rc <> RJoin m.
Proof. intros th rc m. unfold call_res. destruct (nth_error (prog th) (opi th)) as [[| | |]|]; discriminate. Qed.

Lemma quiet_step : forall s t s', AllInv s -> QuietInv s -> step s t = Some s' -> QuietInv s'.
Proof.
  intros s t s' HA [QF QS QR QJ] Hs. step_setup Hs s t.
  assert (NR : forall e, tpc th <> PRollback e) by (intro e; eapply QR; eauto).
  assert (JM : tpc th = Idle -> nth_error (prog th) (opi th) = Some OJoin -> join_waits (events s) = false ->
               missing s = 0%nat).
  { intros _ _ Hj. rewrite g_join in Hj. apply negb_false_iff, Z.eqb_eq in Hj.
    apply (idle_returned_delivered s HA Hj QS). }
  constructor.
  - step_cases Hst; simpl; try assumption; try (rewrite QF; reflexivity); try (exfalso; eapply NR; eauto; fail); try congruence.
  - step_cases Hst; simpl; try assumption; try reflexivity; try (exfalso; eapply NR; eauto; fail).
  - intros t0 th0 e Hn Hpc.
    destruct (install_threads _ _ _ _ _ _ Hn _ Hth1) as [[-> ->]|[[Hne Hold]|[Hin Hne]]].
    + step_cases Hst; simpl in Hpc; try discriminate; try congruence; try (eapply NR; eauto; fail).
      rewrite QF in Heqb. discriminate.
    + rewrite Hthr in Hold. eapply QR; eauto.
    + step_cases Hst; spawned_case Hin; simpl in Hpc; discriminate.
  - intros t0 th0 m Hn Hin.
    destruct (install_threads _ _ _ _ _ _ Hn _ Hth1) as [[-> ->]|[[Hne Hold]|[Hin2 Hne]]].
    + pose proof (QJ _ _ m Hth) as OLD.
      step_cases Hst; simpl in Hin; try (apply OLD; exact Hin);
        try (apply in_app_or in Hin; destruct Hin as [Hin|[Hin|[]]];
             [apply OLD; exact Hin | try (exfalso; eapply call_res_not_join; eauto; fail)]);
        try (exfalso; eapply NR; eauto; fail).
      inversion Hin; subst. apply JM; auto; rewrite g_join; assumption.
    + rewrite Hthr in Hold. eapply QJ; eauto.
    + step_cases Hst; spawned_case Hin2; simpl in Hin; contradiction.
Qed.

Lemma quiet_init : forall c a progs, QuietInv (init c a [] progs).
Proof.
  intros. constructor; simpl; auto.
  - intros t th e H. apply init_thread in H. destruct H as [P _]. congruence.
  - intros t th m H Hin. rewrite nth_error_map in H. destruct (nth_error progs t); simpl in H; [|discriminate].
    inversion H; subst. simpl in Hin. contradiction.
Qed.

Theorem eq_join_results_zero : forall c a progs s t th m, (1 <= c)%nat -> Reach c a [] progs s ->
  nth_error (threads s) t = Some th -> In (RJoin m) (results th) -> m = 0%nat.
Proof.
  intros c a progs s t th m Hc HR.
  assert (P : AllInv s /\ QuietInv s).
  { apply (inv_reachable st step (fun s => AllInv s /\ QuietInv s) (init c a [] progs)); auto.
    - split; [apply all_init; exact Hc | apply quiet_init].
    - intros s0 t0 s' [A Q] Hs. split; [eapply all_step; eauto | eapply quiet_step; eauto]. }
  destruct P as [_ Q]. apply (q_join _ Q).
Qed.

Lemma all_done_thread : forall s t th, all_done s = true -> nth_error (threads s) t = Some th ->
  tpc th = Idle /\ nth_error (prog th) (opi th) = None.
Proof.
  intros s t th H Hn. unfold all_done in H. rewrite forallb_forall in H. specialize (H th (nth_error_In _ _ Hn)).
  unfold thread_done in H. destruct (tpc th); try discriminate. destruct (nth_error (prog th) (opi th)); [discriminate|auto].
Qed.

(* at the end of every run, unless the last reset of the counter was a refused launch, every item passed to execute()
   has been delivered (exactly once by eq_consumed_at_most_once) *)
Theorem eq_none_stranded_at_end : forall c a f progs s, (1 <= c)%nat -> Reach c a f progs s ->
  all_done s = true -> stale s = false ->
  events s = 0 /\ delivered s = map key (cells s) /\
  (forall t th i, nth_error (threads s) t = Some th -> exec_at th i = true -> In (t, i) (delivered s)).
Proof.
  intros c a f progs s Hc HR Hd Hst. pose proof (reach_all _ _ _ _ _ Hc HR) as HA.
  assert (Hev : events s = 0).
  { destruct (a_own _ HA) as [A0 A1 A2]. destruct (Z.eq_dec (events s) 0) as [E|E]; [exact E|].
    destruct (owners_exists (threads s)) as (t & th & H & Ho); [rewrite A2; lia|].
    destruct (all_done_thread _ _ _ Hd H) as [P _]. unfold is_owner in Ho. rewrite P in Ho. discriminate. }
  assert (L : (length (cells s) <= ndel s)%nat).
  { destruct (Nat.lt_ge_cases (ndel s) (length (cells s))) as [L|L]; [|exact L]. exfalso.
    destruct (nth_error (cells s) (ndel s)) as [x|] eqn:Ex; [|apply nth_error_None in Ex; lia].
    pose proof (c_cover _ (a_cov _ HA) Hev Hst) as TU. rewrite (idle_ndel _ HA Hev) in Ex.
    pose proof (TU _ _ (Nat.le_refl _) Ex) as S. destruct (a_unsig _ HA _ _ Ex S) as (th & H0 & P & _).
    destruct (all_done_thread _ _ _ Hd H0) as [Pi _]. destruct P as [P|P]; congruence. }
  assert (Hdel : delivered s = map key (cells s)) by (unfold delivered; rewrite firstn_all2 by exact L; reflexivity).
  split; [exact Hev | split; [exact Hdel|]].
  intros t th i H Hx. rewrite Hdel. destruct (all_done_thread _ _ _ Hd H) as [P N].
  apply nth_error_None in N.
  assert (i < length (prog th))%nat
    by (apply nth_error_Some; unfold exec_at in Hx; destruct (nth_error (prog th) i); [discriminate | discriminate Hx]).
  destruct (a_exec _ HA _ _ _ H Hx) as (k & c0 & E & Eo & Es); [left; lia|].
  apply in_map_iff. exists c0. split; [unfold key; congruence | eapply nth_error_In; eauto].
Qed.

(* no reachable state is a trap: unless the last reset of the counter was a refused launch, some thread can step
   as long as some thread is unfinished (in particular a waiting join() is never stuck for ever) *)
Lemma forallb_false_ex : forall A (f : A -> bool) l, forallb f l = false -> exists t x, nth_error l t = Some x /\ f x = false.
Proof.
  induction l as [|y l IH]; simpl; intro H; [discriminate|].
  destruct (f y) eqn:E.
  - destruct (IH H) as (t & x & A1 & A2). exists (S t), x. auto.
  - exists 0%nat, y. auto.
Qed.

Theorem eq_no_deadlock : forall c a f progs s, (1 <= c)%nat -> Reach c a f progs s ->
  stale s = false -> all_done s = false -> exists t, step s t <> None.
Proof.
  intros c a f progs s Hc HR Hst Hnd. pose proof (reach_all _ _ _ _ _ Hc HR) as HA.
  destruct (Z.eq_dec (events s) 0) as [Hev|Hev].
  2:{ destruct (a_own _ HA) as [A0 A1 A2]. destruct (owners_exists (threads s)) as (t & th & H & Ho); [rewrite A2; lia|].
      exists t. eapply owner_enabled; eauto. }
  unfold all_done in Hnd. apply forallb_false_ex in Hnd. destruct Hnd as (t & th & Hth & Hd).
  pose proof (not_owner_of_zero _ _ _ (a_own _ HA) Hev Hth) as NO.
  unfold thread_done in Hd. unfold is_owner in NO.
  destruct (tpc th) eqn:Epc; try discriminate.
  - (* Idle with an op left *)
    exists t. unfold step. rewrite Hth. unfold step_thread. rewrite Epc.
    destruct (nth_error (prog th) (opi th)) as [[| | |]|]; [| | | | discriminate Hd].
    + unfold take_ticket. rewrite g_move_conc. discriminate.
    + unfold take_ticket. rewrite g_copy_conc. discriminate.
    + unfold do_signal. destruct (signal_returns_early (events s)); discriminate.
    + rewrite g_join, Hev. simpl. discriminate.
  - exfalso. eapply (a_notk _ HA); eauto.
  - (* PPublish: the producer holding the head ticket can move *)
    destruct (a_ppub _ HA _ _ _ Hth Epc) as (x & Ex & Px & _).
    destruct (a_pop _ HA) as [PL PP].
    assert (Lk : (npop s <= tk)%nat).
    { destruct (Nat.lt_ge_cases tk (npop s)) as [L|L]; [|exact L]. rewrite (PP _ _ L Ex) in Px. discriminate. }
    assert (Lh : (npop s < length (cells s))%nat).
    { assert (tk < length (cells s))%nat by (apply nth_error_Some; congruence). lia. }
    destruct (nth_error (cells s) (npop s)) as [h|] eqn:Eh; [|apply nth_error_None in Eh; lia].
    pose proof (c_cover _ (a_cov _ HA) Hev Hst _ _ (Nat.le_refl _) Eh) as Sh.
    destruct (a_unsig _ HA _ _ Eh Sh) as (th1 & H1 & P1 & _).
    exists (cown h). unfold step. rewrite H1. unfold step_thread.
    destruct P1 as [P1|P1]; rewrite P1.
    + rewrite (idle_ndel _ HA Hev). pose proof (c_cap _ (a_cov _ HA)).
      assert (E : Nat.ltb (npop s) (npop s + cap s) = true) by (apply Nat.ltb_lt; lia). rewrite E. discriminate.
    + unfold do_signal. destruct (signal_returns_early (events s)); discriminate.
  - (* PSignal *)
    exists t. unfold step. rewrite Hth. unfold step_thread. rewrite Epc.
    unfold do_signal. destruct (signal_returns_early (events s)); discriminate.
Qed.

(* resumption after refused launches, step level: whatever happened before (any number of refused launches, the
   stale flag set or not), when a consumer activation performs its successful exit CAS every signalled item has been
   delivered - by this activation or earlier - and the counter is back to "reset by a consumer" *)
Theorem eq_exit_leaves_nothing_signalled : forall c a f progs s t th seen s', (1 <= c)%nat -> Reach c a f progs s ->
  nth_error (threads s) t = Some th -> tpc th = CCas seen -> step s t = Some s' -> events s' = 0 ->
  stale s' = false /\
  (forall k x, nth_error (cells s') k = Some x -> csig x = true -> (k < ndel s')%nat).
Proof.
  intros c a f progs s t th seen s' Hc HR Hth Hpc Hs Hev'. pose proof (reach_all _ _ _ _ _ Hc HR) as HA.
  assert (Ho : is_owner th = true) by (unfold is_owner; rewrite Hpc; reflexivity).
  destruct (own_pos_of_owner _ _ _ (a_own _ HA) Hth Ho) as [Hpos _].
  unfold step in Hs. rewrite Hth in Hs. unfold step_thread in Hs. rewrite Hpc, g_exit_expected, g_exit_desired in Hs.
  destruct (events s =? seen) eqn:E; inversion Hs; subst; clear Hs; simpl in *; [|lia].
  apply Z.eqb_eq in E. split; [reflexivity|].
  pose proof (c_cas _ (a_cov _ HA) _ _ _ Hth Hpc E) as TU.
  assert (Hnd : ndel s = npop s).
  { destruct (a_cons _ HA) as [D|(t1 & th1 & H1 & P1)]; [exact D|]. exfalso.
    assert (O1 : is_owner th1 = true) by (unfold is_owner; rewrite P1; reflexivity).
    destruct (Nat.eq_dec t1 t) as [->|N]; [rewrite Hth in H1; inversion H1; subst; congruence|].
    eapply (two_owners_absurd s t th t1 th1); eauto. apply (a_own _ HA). }
  intros k x Hn Hsig. destruct (Nat.lt_ge_cases k (ndel s)) as [L|L]; [exact L|]. exfalso.
  rewrite Hnd in L. rewrite (TU _ _ L Hn) in Hsig. discriminate.
Qed.

(* ... and an accepted launch does create that activation: the launcher hands its ownership to exactly one consumer *)
Theorem eq_accepted_launch_creates_consumer : forall c a f progs s t th e s', (1 <= c)%nat -> Reach c a f progs s ->
  nth_error (threads s) t = Some th -> tpc th = PSubmit e ->
  match faults s with b :: _ => b = false | [] => True end ->
  step s t = Some s' ->
  exists t' th', nth_error (threads s') t' = Some th' /\ tpc th' = CStart /\ 0 < events s' /\
                 owners (threads s') = 1%nat.
Proof.
  intros c a f progs s t th e s' Hc HR Hth0 Hpc Hf Hs.
  assert (HR' : Reach c a f progs s') by (eapply reachable_step; eauto).
  pose proof (reach_all _ _ _ _ _ Hc HR') as HA'.
  assert (W : exists t' th', nth_error (threads s') t' = Some th' /\ tpc th' = CStart).
  { step_setup Hs s t. rewrite Hth0 in Hth. inversion Hth; subst th0. clear Hth. rename Hth0 into Hth.
    step_cases Hst; try congruence;
      try (destruct (faults s) as [|b l]; simpl in *; [discriminate | subst; discriminate]).
    all: try (exists t; eexists; split; [eapply install_self; eauto | reflexivity]).
    all: exists (length (threads s)); exists consumer_thread; split; [|reflexivity];
      unfold install; simpl; rewrite nth_error_app2 by (rewrite length_upd_nth; lia);
      rewrite length_upd_nth, Nat.sub_diag; reflexivity. }
  destruct W as (t' & th' & H' & P'). exists t', th'. split; [exact H'|]. split; [exact P'|].
  assert (O : is_owner th' = true) by (unfold is_owner; rewrite P'; reflexivity).
  apply (own_pos_of_owner _ _ _ (a_own _ HA') H' O).
Qed.

(* ---- termination once the producers are through ("join() does return") ---- *)
(* pquiet ("producers quiet"): no thread is between taking a ticket and its fetch_add, and no execute()/signal_push_event() call is still
   to come - every remaining client op is a join().  (A producer may still be inside start_consumer.) *)
Definition producer_pc (th : thread) : bool :=
  match tpc th with PTicket _ | PPublish _ | PSignal _ => true | _ => false end.
Definition is_join (o : op) : bool := match o with OJoin => true | _ => false end.
Definition rest (th : thread) : list op :=
  match tpc th with Idle => skipn (opi th) (prog th) | _ => skipn (S (opi th)) (prog th) end.
Definition pquiet_thread (th : thread) : bool := negb (producer_pc th) && forallb is_join (rest th).
Definition pquiet (s : st) : bool := forallb pquiet_thread (threads s).

Lemma skipn_nth : forall A (l : list A) n c, nth_error l n = Some c -> skipn n l = c :: skipn (S n) l.
Proof. induction l as [|x l IH]; intros [|n] c H; simpl in *; try discriminate; [inversion H; reflexivity | apply IH; exact H]. Qed.

Lemma forallb_nth : forall A (f : A -> bool) l t x, forallb f l = true -> nth_error l t = Some x -> f x = true.
Proof. intros A f l t x H Hn. rewrite forallb_forall in H. apply H. eapply nth_error_In; eauto. Qed.

Lemma forallb_upd : forall A (f : A -> bool) l t y, forallb f l = true -> f y = true ->
  forallb f (upd_nth (fun _ => y) t l) = true.
Proof.
  induction l as [|x l IH]; intros [|t] y H Hy; simpl in *; auto;
    apply andb_true_iff in H; destruct H as [H1 H2]; apply andb_true_iff; split; auto.
Qed.

Lemma pquiet_idle_op : forall th o, pquiet_thread th = true -> tpc th = Idle -> nth_error (prog th) (opi th) = Some o ->
  o = OJoin /\ forallb is_join (skipn (S (opi th)) (prog th)) = true.
Proof.
  intros th o Q P Hn. unfold pquiet_thread, rest in Q. rewrite P in Q. apply andb_true_iff in Q. destruct Q as [_ Q].
  rewrite (skipn_nth _ _ _ _ Hn) in Q. simpl in Q. apply andb_true_iff in Q. destruct Q as [Q1 Q2].
  split; [destruct o; simpl in Q1; try discriminate; reflexivity | exact Q2].
Qed.

Lemma pquiet_busy_rest : forall th, pquiet_thread th = true -> tpc th <> Idle ->
  forallb is_join (skipn (S (opi th)) (prog th)) = true.
Proof.
  intros th Q P. unfold pquiet_thread, rest in Q. apply andb_true_iff in Q. destruct Q as [_ Q].
  destruct (tpc th); try exact Q. congruence.
Qed.

Lemma pquiet_step : forall s t s', pquiet s = true -> step s t = Some s' -> pquiet s' = true.
Proof.
  intros s t s' Q Hs. step_setup Hs s t. unfold pquiet, install; simpl. rewrite Hthr.
  pose proof (forallb_nth _ _ _ _ _ Q Hth) as Qt.
  assert (NP : producer_pc th = false).
  { unfold pquiet_thread in Qt. apply andb_true_iff in Qt. destruct Qt as [Qt _]. apply negb_true_iff in Qt. exact Qt. }
  rewrite forallb_app. apply andb_true_iff. split.
  - apply forallb_upd; [exact Q|].
    destruct (tpc th) eqn:Epc; unfold producer_pc in NP; rewrite Epc in NP; try discriminate;
    [ (* Idle *)
      step_cases Hst; try congruence;
        match goal with Hp : tpc th = Idle, H : nth_error (prog th) (opi th) = Some _ |- _ =>
          destruct (pquiet_idle_op _ _ Qt Hp H) as [Eo Qr]; try discriminate Eo end;
      unfold pquiet_thread, rest, producer_pc; simpl; exact Qr
    | (* busy, not a producer pc *)
      assert (Qr : forallb is_join (skipn (S (opi th)) (prog th)) = true)
        by (apply pquiet_busy_rest; [exact Qt | rewrite Epc; discriminate]);
      step_cases Hst; try congruence; unfold pquiet_thread, rest, producer_pc; simpl; try exact Qr;
        try (rewrite Qr; reflexivity);
        try (match goal with H : nth_error (prog th) (opi th) = Some OJoin |- _ =>
               rewrite (skipn_nth _ _ _ _ H); simpl; exact Qr end);
        try (match goal with H : nth_error (prog th) (opi th) = None |- _ =>
               apply nth_error_None in H; rewrite skipn_all2 by exact H; reflexivity end) .. ].
  - destruct (spawned_threads _ _ _ _ _ _ Hst) as [-> | ->]; reflexivity.
Qed.

(* the measure: 3 per remaining fault-list entry, 6 per ticket not yet popped, and per thread its remaining ops plus a
   weight of its pc; `cas_late x ev` charges 3 for a CAS that is going to fail because its expected value is out of date *)
Definition cas_late (x ev : Z) : nat := if x =? ev then 0%nat else 3%nat.
Definition pcw (ev : Z) (sz : bool) (p : pc) : nat :=
  match p with
  | Idle | PTicket _ | PPublish _ | PSignal _ => 0
  | PSubmit e => 14 + cas_late e ev
  | PRollback e => 15 + cas_late e ev
  | CStart => 11
  | CPoll seen => 8 + cas_late seen ev
  | CSize seen => (if sz then 9 else 7) + cas_late seen ev
  | CCas seen => 6 + cas_late seen ev
  | CConsume => 10
  | CReload => 9
  end%nat.
Definition mth (ev : Z) (sz : bool) (th : thread) : nat :=
  match tpc th with
  | Idle => length (prog th) - opi th
  | p => (length (prog th) - S (opi th)) + pcw ev sz p
  end%nat.
Definition msum (ev : Z) (sz : bool) (l : list thread) : nat := fold_right (fun th a => (mth ev sz th + a)%nat) 0%nat l.
Definition has_tickets (s : st) : bool := Nat.ltb (npop s) (length (cells s)).
Definition mu (s : st) : nat :=
  (3 * length (faults s) + 6 * (length (cells s) - npop s) + msum (events s) (has_tickets s) (threads s))%nat.

Lemma mth_nonowner : forall ev sz ev' sz' th, is_owner th = false -> mth ev sz th = mth ev' sz' th.
Proof. intros ev sz ev' sz' th H. unfold mth, is_owner in *. destruct (tpc th); try discriminate; reflexivity. Qed.

Lemma msum_app : forall ev sz a b, msum ev sz (a ++ b) = (msum ev sz a + msum ev sz b)%nat.
Proof. induction a as [|x a IH]; intro b; simpl; [reflexivity | rewrite IH; lia]. Qed.

Lemma msum_ext : forall ev sz ev' sz' l, (forall t0 x, nth_error l t0 = Some x -> mth ev sz x = mth ev' sz' x) ->
  msum ev sz l = msum ev' sz' l.
Proof.
  induction l as [|y l IH]; intro H; simpl; [reflexivity|].
  rewrite (H 0%nat y eq_refl). rewrite IH; [reflexivity|]. intros t0 x Hx. apply (H (S t0) x Hx).
Qed.

Lemma msum_install : forall ev sz ev' sz' l t th th' sp, nth_error l t = Some th ->
  (forall t0 x, t0 <> t -> nth_error l t0 = Some x -> mth ev sz x = mth ev' sz' x) ->
  (msum ev' sz' (upd_nth (fun _ => th') t l ++ sp) + mth ev sz th =
   msum ev sz l + mth ev' sz' th' + msum ev' sz' sp)%nat.
Proof.
  intros ev sz ev' sz' l t th th' sp. rewrite msum_app. revert t.
  induction l as [|y l IH]; intros [|t] H Hoth; simpl in *; try discriminate.
  - inversion H; subst. rewrite (msum_ext ev sz ev' sz' l); [lia|].
    intros t0 x Hx. apply (Hoth (S t0) x); [lia | exact Hx].
  - rewrite (Hoth 0%nat y); [|lia|reflexivity].
    assert (E := IH t H (fun t0 x N Hx => Hoth (S t0) x (fun Q => N (eq_add_S _ _ Q)) Hx)). lia.
Qed.

Lemma pquiet_all_published : forall s, AllInv s -> pquiet s = true ->
  forall k x, nth_error (cells s) k = Some x -> cpub x = true.
Proof.
  intros s HA Q k x Hn. destruct (cpub x) eqn:P; [reflexivity|]. exfalso.
  assert (S : csig x = false).
  { destruct (csig x) eqn:S; [|reflexivity]. rewrite (c_sigpub _ (a_cov _ HA) _ _ Hn S) in P. discriminate. }
  destruct (a_unsig _ HA _ _ Hn S) as (th & H0 & Pc & _).
  pose proof (forallb_nth _ _ _ _ _ Q H0) as Qt. unfold pquiet_thread, producer_pc in Qt.
  destruct Pc as [Pc|Pc]; rewrite Pc in Qt; discriminate.
Qed.

Lemma empty_poll_no_tickets : forall s, (forall k x, nth_error (cells s) k = Some x -> cpub x = true) ->
  ready_prefix (skipn (npop s) (cells s)) = 0%nat -> has_tickets s = false.
Proof.
  intros s AP R. unfold has_tickets. apply Nat.ltb_ge.
  destruct (Nat.lt_ge_cases (npop s) (length (cells s))) as [L|L]; [|exact L]. exfalso.
  destruct (nth_error (cells s) (npop s)) as [x|] eqn:E; [|apply nth_error_None in E; lia].
  rewrite (skipn_nth _ _ _ _ E) in R. simpl in R. rewrite (AP _ _ E) in R. discriminate.
Qed.

Ltac others_same HO Hth :=
  let t0 := fresh "t0" in let x := fresh "x" in let N := fresh "N" in let Hx := fresh "Hx" in
  intros t0 x N Hx;
  first [ reflexivity
        | apply mth_nonowner; destruct (is_owner x) eqn:?; [exfalso|reflexivity];
          eapply (two_owners_absurd _ _ _ t0 x HO Hth); eauto;
          match goal with H : tpc _ = _ |- _ => owner_of H end ].

Lemma pquiet_decrease : forall s t s', AllInv s -> pquiet s = true -> step s t = Some s' -> (mu s' < mu s)%nat.
Proof.
  intros s t s' HA Q Hs. step_setup Hs s t. pose proof (a_own _ HA) as HO.
  pose proof (forallb_nth _ _ _ _ _ Q Hth) as Qt.
  pose proof (pquiet_all_published s HA Q) as AP.
  pose proof (ready_prefix_le (skipn (npop s) (cells s))) as RL. rewrite skipn_length in RL.
  assert (NP : producer_pc th = false).
  { unfold pquiet_thread in Qt. apply andb_true_iff in Qt. destruct Qt as [Qt' _]. apply negb_true_iff in Qt'. exact Qt'. }
  unfold mu.
  step_cases Hst; unfold producer_pc in NP;
    try (match goal with H : tpc _ = _ |- _ => rewrite H in NP; discriminate NP end);
    try (match goal with Hp : tpc ?th0 = Idle, H : nth_error (prog ?th0) (opi ?th0) = Some _ |- _ =>
           destruct (pquiet_idle_op _ _ Qt Hp H) as [Eo _]; discriminate Eo end).
  all: match type of Hth with nth_error (threads ?s0) ?tt = Some ?th0 =>
         match goal with |- context [install ?s1 tt ?th' ?sp] =>
           pose proof (msum_install (events s0) (has_tickets s0) (events s1) (has_tickets s1) (threads s0) tt th0 th' sp
                         Hth) as MS
         end end.
  all: unfold install in *; simpl in *.
  all: match type of MS with ?A -> _ => assert (OT : A) by (unfold has_tickets; simpl; others_same HO Hth) end;
       specialize (MS OT); clear OT.
  all: pose proof (c_cap _ (a_cov _ HA)) as CAP.
  all: unfold has_tickets in *; simpl in *; rewrite ?Nat2Z.id in *.
  all: try match goal with H : nth_error (prog ?th0) (opi ?th0) = Some _ |- _ =>
             assert (opi th0 < length (prog th0))%nat by (apply nth_error_Some; congruence) end.
  all: try match goal with |- context [tl (faults ?s0)] => destruct (faults s0) eqn:?; simpl in * end.
  all: unfold mth in MS; simpl in MS; repeat match goal with H : tpc _ = _ |- _ => rewrite H in MS end; simpl in MS.
  all: rewrite ?g_exit_expected, ?g_rb_expected in *.
  all: unfold cas_late in *;
       repeat match type of MS with context [?a =? ?b] => destruct (a =? b) eqn:? end; zb; try lia.
  all: match goal with |- context [(npop ?s0 <? length (cells ?s0))%nat] =>
         destruct (npop s0 <? length (cells s0))%nat eqn:LT; [apply Nat.ltb_lt in LT | apply Nat.ltb_ge in LT] end;
       try lia.
  all: try (match goal with H : context [if ?b then _ else _] |- _ =>
              destruct b eqn:G; [apply Z.gtb_lt in G | rewrite Z.gtb_ltb in G; apply Z.ltb_ge in G] end; lia).
  all: exfalso; match goal with AP : forall k x, nth_error (cells ?s0) k = Some x -> cpub x = true |- _ =>
         pose proof (empty_poll_no_tickets s0 AP) as NT end;
       unfold has_tickets in NT; rewrite Nat.ltb_ge in NT; assert (length (cells _) <= npop _)%nat by (apply NT; lia); lia.
Qed.

(* in a producers-quiet state an unfinished thread never leaves everybody blocked - whatever the fault history *)
Lemma pquiet_enabled : forall s, AllInv s -> pquiet s = true -> all_done s = false -> exists t, step s t <> None.
Proof.
  intros s HA Q Hnd.
  destruct (Z.eq_dec (events s) 0) as [Hev|Hev].
  2:{ destruct (a_own _ HA) as [A0 A1 A2]. destruct (owners_exists (threads s)) as (t & th & H & Ho); [rewrite A2; lia|].
      exists t. eapply owner_enabled; eauto. }
  unfold all_done in Hnd. apply forallb_false_ex in Hnd. destruct Hnd as (t & th & Hth & Hd).
  pose proof (not_owner_of_zero _ _ _ (a_own _ HA) Hev Hth) as NO.
  pose proof (forallb_nth _ _ _ _ _ Q Hth) as Qt.
  unfold thread_done in Hd. unfold is_owner in NO.
  destruct (tpc th) eqn:Epc; try discriminate.
  - exists t. unfold step. rewrite Hth. unfold step_thread. rewrite Epc.
    destruct (nth_error (prog th) (opi th)) as [o|] eqn:Eo; [|discriminate Hd].
    destruct (pquiet_idle_op _ _ Qt Epc Eo) as [-> _]. rewrite g_join, Hev. simpl. discriminate.
  - unfold pquiet_thread, producer_pc in Qt. rewrite Epc in Qt. discriminate.
  - unfold pquiet_thread, producer_pc in Qt. rewrite Epc in Qt. discriminate.
  - unfold pquiet_thread, producer_pc in Qt. rewrite Epc in Qt. discriminate.
Qed.

(* number of picks of a schedule that are actual steps (a pick of a disabled thread is skipped) *)
Fixpoint taken (s : st) (sch : list nat) : nat :=
  match sch with
  | [] => 0%nat
  | t :: r => match step s t with Some s' => S (taken s' r) | None => taken s r end
  end.

Lemma run_keeps : forall sch s, AllInv s -> pquiet s = true ->
  AllInv (run st step s sch) /\ pquiet (run st step s sch) = true.
Proof.
  induction sch as [|t r IH]; intros s HA Q; simpl; [auto|].
  unfold step_or_stay. destruct (step s t) as [s'|] eqn:E; [|apply IH; auto].
  apply IH; [eapply all_step; eauto | eapply pquiet_step; eauto].
Qed.

(* from a producers-quiet state at most mu(s) further steps can be taken at all, under any schedule *)
Theorem eq_quiet_steps_bounded : forall sch s, AllInv s -> pquiet s = true ->
  (taken s sch + mu (run st step s sch) <= mu s)%nat.
Proof.
  induction sch as [|t r IH]; intros s HA Q; simpl; [lia|].
  unfold step_or_stay. destruct (step s t) as [s'|] eqn:E; [|apply IH; auto].
  pose proof (pquiet_decrease _ _ _ HA Q E). 
  assert (taken s' r + mu (run st step s' r) <= mu s')%nat by (apply IH; [eapply all_step; eauto | eapply pquiet_step; eauto]).
  lia.
Qed.

(* infinite schedules and weak fairness: every thread is, again and again, either picked or not enabled
   (equivalently: a thread that stays enabled for ever from some point on is eventually picked) *)
Definition state_at (s : st) (f : nat -> nat) (n : nat) : st := run st step s (map f (seq 0 n)).
Definition weakly_fair (s : st) (f : nat -> nat) : Prop :=
  forall n t, exists m, (n <= m)%nat /\ (f m = t \/ step (state_at s f m) t = None).

Lemma state_at_S : forall s f n, state_at s f (S n) = step_or_stay st step (state_at s f n) (f n).
Proof. intros. unfold state_at. rewrite seq_S, map_app, run_app. reflexivity. Qed.

Lemma state_at_keeps : forall s f n, AllInv s -> pquiet s = true ->
  AllInv (state_at s f n) /\ pquiet (state_at s f n) = true.
Proof. intros. apply run_keeps; auto. Qed.

Lemma mu_state_at_S : forall s f n, AllInv s -> pquiet s = true ->
  (mu (state_at s f (S n)) <= mu (state_at s f n))%nat /\
  (step (state_at s f n) (f n) <> None -> mu (state_at s f (S n)) < mu (state_at s f n))%nat.
Proof.
  intros s f n HA Q. destruct (state_at_keeps s f n HA Q) as [HA' Q']. rewrite state_at_S. unfold step_or_stay.
  destruct (step (state_at s f n) (f n)) as [s'|] eqn:E.
  - pose proof (pquiet_decrease _ _ _ HA' Q' E). split; [lia | intros _; lia].
  - split; [lia | congruence].
Qed.

(* between index n, where t is enabled, and an index m >= n at which t is picked or disabled, some pick is a step *)
Lemma effective_step_between : forall s f d n m t, (m = n + d)%nat ->
  step (state_at s f n) t <> None -> (f m = t \/ step (state_at s f m) t = None) ->
  exists j, (n <= j <= m)%nat /\ step (state_at s f j) (f j) <> None.
Proof.
  intros s f d. induction d as [|d IH]; intros n m t Hm En Hfm.
  - replace m with n in * by lia. destruct Hfm as [<-|N]; [|contradiction]. exists n. split; [lia | exact En].
  - destruct (step (state_at s f n) (f n)) as [s'|] eqn:E.
    + exists n. split; [lia | congruence].
    + assert (Same : state_at s f (S n) = state_at s f n) by (rewrite state_at_S; unfold step_or_stay; rewrite E; reflexivity).
      destruct (IH (S n) m t) as (j & Lj & Ej); [lia | rewrite Same; exact En | exact Hfm|].
      exists j. split; [lia | exact Ej].
Qed.

(* "join() does return": from a producers-quiet reachable state, every weakly fair schedule brings every thread to
   its end - every pending and every later join() has returned - within finitely many picks *)
Theorem eq_fair_termination : forall c a fl progs s f, (1 <= c)%nat -> Reach c a fl progs s -> pquiet s = true ->
  weakly_fair s f -> exists n, all_done (state_at s f n) = true.
Proof.
  intros c a fl progs s f Hc HR Q WF. pose proof (reach_all _ _ _ _ _ Hc HR) as HA.
  assert (G : forall k n, (mu (state_at s f n) <= k)%nat -> exists n', all_done (state_at s f n') = true).
  { induction k as [|k IH]; intros n Hk.
    - destruct (all_done (state_at s f n)) eqn:D; [eauto|]. exfalso.
      destruct (state_at_keeps s f n HA Q) as [HA' Q'].
      destruct (pquiet_enabled _ HA' Q' D) as [t Et].
      destruct (step (state_at s f n) t) as [s'|] eqn:E; [|congruence].
      pose proof (pquiet_decrease _ _ _ HA' Q' E). lia.
    - destruct (all_done (state_at s f n)) eqn:D; [eauto|].
      destruct (state_at_keeps s f n HA Q) as [HA' Q'].
      destruct (pquiet_enabled _ HA' Q' D) as [t Et].
      destruct (WF n t) as (m & Lm & Hm).
      destruct (effective_step_between s f (m - n) n m t) as (j & Lj & Ej); [lia | exact Et | exact Hm|].
      assert (Mono : forall d, (mu (state_at s f (n + d)) <= mu (state_at s f n))%nat).
      { induction d as [|d IHd]; [rewrite Nat.add_0_r; lia|].
        replace (n + S d)%nat with (S (n + d)) by lia. pose proof (proj1 (mu_state_at_S s f (n + d) HA Q)). lia. }
      pose proof (Mono (j - n)%nat) as Mj. replace (n + (j - n))%nat with j in Mj by lia.
      pose proof (proj2 (mu_state_at_S s f j HA Q) Ej).
      apply (IH (S j)). lia. }
  apply (G (mu s) 0%nat). unfold state_at. simpl. lia.
Qed.

Theorem eq_quiet_steps_bounded_reach : forall c a fl progs s sch, (1 <= c)%nat -> Reach c a fl progs s ->
  pquiet s = true -> (taken s sch + mu (run st step s sch) <= mu s)%nat.
Proof. intros. apply eq_quiet_steps_bounded; [eapply reach_all; eauto | assumption]. Qed.

Theorem eq_quiet_enabled_reach : forall c a fl progs s, (1 <= c)%nat -> Reach c a fl progs s ->
  pquiet s = true -> all_done s = false -> exists t, step s t <> None.
Proof. intros. apply pquiet_enabled; [eapply reach_all; eauto | assumption | assumption]. Qed.

(* non-vacuity: the producer is through, its consumer is launched but has not run, join() is waiting *)
Definition waiting_progs : list (list op) := [[OExec; OJoin]].
Definition waiting_state : st := run st step (init 2 true [] waiting_progs) [0; 0; 0; 0]%nat.
Lemma waiting_example : Reach 2 true [] waiting_progs waiting_state /\ pquiet waiting_state = true /\
  all_done waiting_state = false /\ events waiting_state = 1 /\ step waiting_state 0 = None /\ mu waiting_state = 18%nat.
Proof. split; [exists [0; 0; 0; 0]%nat; unfold waiting_state; reflexivity | vm_compute; repeat split; eauto]. Qed.

(* non-vacuity: a refused launch, a later accepted signal, everything consumed *)
Definition resume_progs : list (list op) := [[OExec; OSignal; OJoin]].
Definition resume_sched : list nat := [0; 0; 0; 0; 0; 0; 0; 1; 1; 1; 1; 1; 1; 1; 1; 0]%nat.
Definition resume_state : st := run st step (init 2 true [true] resume_progs) resume_sched.
Lemma resume_example : Reach 2 true [true] resume_progs resume_state /\ all_done resume_state = true /\
  stale resume_state = false /\ delivered resume_state = [(0, 0)]%nat /\
  (exists th, nth_error (threads resume_state) 0 = Some th /\ results th = [RExec (-1); RSignal 0; RJoin 0]).
Proof. split; [exists resume_sched; unfold resume_state; reflexivity | vm_compute; repeat split; eauto]. Qed.

(* non-vacuity of the former counter-example: the slower producer holds ticket 0, the consumer launched for ticket 1
   now keeps its role (it sits in the size()/poll loop) and join() is still waiting *)
Definition gap_progs : list (list op) := [[OExec; OJoin]; [OExec]].
Definition gap_sched : list nat := [1; 0; 0; 0; 0; 2; 2; 2; 2; 2; 0]%nat.
Definition gap_state : st := run st step (init 4 true [] gap_progs) gap_sched.
Lemma gap_example : Reach 4 true [] gap_progs gap_state /\ events gap_state = 1 /\ stale gap_state = false /\
  (exists x, nth_error (cells gap_state) 1 = Some x /\ csig x = true /\ returned (threads gap_state) x = true) /\
  ndel gap_state = 0%nat /\
  (exists th, nth_error (threads gap_state) 0 = Some th /\ results th = [RExec 0]) /\
  (exists th, nth_error (threads gap_state) 2 = Some th /\ is_consumer th = true).
Proof. split; [exists gap_sched; unfold gap_state; reflexivity | vm_compute; repeat split; eauto]. Qed.
