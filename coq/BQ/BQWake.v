(* No lost wakeup for BQModel (C02): a sleeper whose slot shows the version it waits for has a waker on its way. *)
From Coq Require Import ZArith List Bool Lia.
Require Import Verif.Base.Atomics Verif.Gen.Gen_bounded_queue Verif.Conc.Machine Verif.BQ.BQModel Verif.BQ.BQProofs.
Require Import Verif.BQ.BQInvDefs Verif.BQ.BQInvStep Verif.BQ.BQInvMain Verif.BQ.BQInvThm.
Import ListNotations.
Local Open Scope Z_scope.

Definition gver (s : st) (sl : nat) : Z := ver (get_slot s sl).
Definition gwf (s : st) (sl : nat) : bool := wf (get_slot s sl).

(* ---------------- versions only grow ---------------- *)
Lemma cb_push_ver : forall vs t sls base i ps e sl, ver (nth sl (fst (fst (cb_push t sls base i vs ps e))) slot0) = ver (nth sl sls slot0).
Proof.
  induction vs as [|v vs IH]; intros; cbn [cb_push]; auto. rewrite IH.
  destruct (Nat.eq_dec base sl) as [->|N]; [|rewrite nth_set_nth_neq; auto].
  destruct (Nat.lt_ge_cases sl (length sls)). rewrite nth_set_nth_eq; auto.
  rewrite !nth_overflow; auto. rewrite length_set_nth. lia.
Qed.
Lemma cb_pop_ver : forall n t sls base i ds g e sl, ver (nth sl (fst (fst (fst (cb_pop t sls base i n ds g e)))) slot0) = ver (nth sl sls slot0).
Proof.
  induction n as [|n IH]; intros; cbn [cb_pop]; auto. rewrite IH.
  destruct (Nat.eq_dec base sl) as [->|N]; [|rewrite nth_set_nth_neq; auto].
  destruct (Nat.lt_ge_cases sl (length sls)). rewrite nth_set_nth_eq; auto.
  rewrite !nth_overflow; auto. rewrite length_set_nth. lia.
Qed.

Lemma ver_mono : forall k progs s t s', usage_ok k progs = true -> FInv k progs s -> step s t = Some s' ->
  forall sl, gver s sl <= gver s' sl.
Proof.
  intros k progs s t s' U (I & PR & KB) H sl. unfold gver, get_slot.
  apply step_inv in H as [(th & o & HT & HO & HS)|[HN ->]]; [|cbn; lia].
  assert (HO' : cur th = Some o) by exact HO.
  set (v := {| v_op := o; v_ph := phase_of o (tpc th) (lc th); v_l := lc th |}).
  assert (TT : thv s t v) by (exists th; split; auto; unfold tv; rewrite HO'; reflexivity).
  assert (Pth : nth_error progs t = Some (prog th)) by (rewrite <- PR, nth_error_map, HT; reflexivity).
  assert (HSZ : Z.of_nat (onum o) <= C s).
  { unfold C. rewrite KB, <- pow_nat_Z. apply inj_le. eapply usage_size; eauto. eapply nth_error_In; eauto. eapply nth_error_In; eauto. }
  pose proof (step_sum s t th o HT HO' (i_len _ I) HSZ (i_nn _ I) (i_tf _ I _ _ TT) s' HS) as SM.
  destruct SM as [th' HT' OT FR SC LO | th' n v' HT' OT FR NR NO PS DS ER SL NH NOW E' RO' TF' IH' NOW'
                 | th' v' HT' OT FR N1 N2 PH E' OP PH' SI SN SE L' CB | th' j HT' OT FR N1 N2 PS DS ER PH CS0 CSO PO].
  - destruct SC as (_ & _ & _ & _ & _ & SL). specialize (SL sl). unfold cs in SL. inversion SL. lia.
  - specialize (SL sl). unfold cs in SL. inversion SL. lia.
  - destruct (is_push o).
    + destruct CB as (CB & _). pose proof (cb_push_ver (firstn (seg_n (lc th)) (vals (lc th))) t (slots s) (tsl (C s) (seg_i (lc th))) (seg_i (lc th)) (pushed s) (err s) sl) as V.
      rewrite CB in V. cbn [fst] in V. lia.
    + destruct CB as (g & CB & _). pose proof (cb_pop_ver (seg_n (lc th)) t (slots s) (tsl (C s) (seg_i (lc th))) (seg_i (lc th)) (delivered s) (got (lc th)) (err s) sl) as V.
      rewrite CB in V. cbn [fst] in V. lia.
  - destruct (Nat.eq_dec sl (tsl (C s) (seg_i (lc th) + Z.of_nat j))) as [->|N].
    + unfold cs in CS0. inversion CS0. rewrite H0.
      pose proof (i_tf _ I _ _ TT) as (L & KN & _). unfold linv, vknown, vrole, v in L, KN. cbn [v_ph v_l v_op] in L, KN, PH. rewrite PH in L, KN.
      destruct L as (_ & LT & _). specialize (KN (seg_i (lc th) + Z.of_nat j)). unfold sslot in KN. rewrite KN by lia. lia.
    + specialize (CSO sl N). unfold cs in CSO. inversion CSO. lia.
Qed.

(* ---------------- vocabulary ---------------- *)
Definition cert (th : thread) (sl : nat) : Prop := tpc th = PubWake sl \/ exists j, tpc th = WkWake j sl.
Definition win (s : st) (th : thread) (sl : nat) (x : Z) : Prop :=
  exists o j, cur th = Some o /\ fwake (oflags o) = true /\ is_single o = false /\ (j < seg_n (lc th))%nat /\
    seg_slot s o (lc th) j = sl /\ wake_ver (okind o) (seg_ever s o (lc th)) = x /\
    (tpc th = FenceSC \/ (exists j', tpc th = Pub j' /\ (j < j')%nat) \/ (exists j', tpc th = WkLoad j' /\ (j' <= j)%nat) \/
     (exists j' c, tpc th = WkCas j' c /\ (j' <= j)%nat /\ (j' = j -> c = x)) \/
     (exists j' sl', tpc th = WkWake j' sl' /\ (j' < j)%nat)).
Definition parkedOn (s : st) (th : thread) (sl : nat) (x : Z) : Prop :=
  exists o j, cur th = Some o /\ tpc th = WParked j sl /\ wait_target s o (lc th) j = (sl, x).
Definition Q (s : st) : Prop := forall t th sl x, nth_error (threads s) t = Some th -> parkedOn s th sl x -> gver s sl = x ->
  exists u thu, nth_error (threads s) u = Some thu /\ (cert thu sl \/ win s thu sl x).
Definition R2 (s : st) : Prop := forall u thu o j c, nth_error (threads s) u = Some thu -> cur thu = Some o ->
  (tpc thu = WCas j c \/ tpc thu = WFutex j c) ->
  c <> snd (wait_target s o (lc thu) j) /\ 0 <= c <= gver s (fst (wait_target s o (lc thu) j)).
Definition S4 (p : pc) : Prop := match p with WCas _ _ | WFutex _ _ | WParked _ _ | WReload _ => True | _ => False end.
Definition R4 (s : st) : Prop := forall u thu o, nth_error (threads s) u = Some thu -> cur thu = Some o -> S4 (tpc thu) ->
  ofwait o = true /\ (forall j sl, tpc thu = WParked j sl -> fst (wait_target s o (lc thu) j) = sl).
Definition small (s : st) : Prop := forall sl, gver s sl < 65536.
Definition V0 (s : st) : Prop := forall sl, 0 <= gver s sl.

Definition calm (p : pc) : Prop :=
  match p with
  | WCas _ _ | WFutex _ _ | WParked _ _ | WReload _ | PubWake _ | WkWake _ _ | FenceSC | Pub _ | WkLoad _ | WkCas _ _ => False
  | _ => True
  end.
Ltac calmt := cbn; repeat (match goal with |- context [match ?x with _ => _ end] => destruct x end; cbn); exact I.

Lemma calm_after_wait : forall o l j, calm (after_wait o l j).
Proof. intros. unfold after_wait. calmt. Qed.
Lemma calm_first_wait : forall o l, calm (first_wait o l).
Proof. intros. unfold first_wait. calmt. Qed.
Lemma end_segment_calm : forall s t th o, exists th', end_segment s t th o = upd s t th' /\ calm (tpc th') /\ prog th' = prog th.
Proof.
  intros. unfold end_segment.
  destruct (rest (add_cnt (lc th))) as [[i2 n2]|]; destruct (okind o);
    try (eexists; split; [reflexivity| split; [exact I | reflexivity]]).
  - eexists; split; [reflexivity| split; [apply calm_first_wait | reflexivity]].
  - destruct (try_short _ _ _); eexists; (split; [reflexivity| split; [|reflexivity]]); calmt.
  - destruct (try_short _ _ _); eexists; (split; [reflexivity| split; [|reflexivity]]); calmt.
Qed.
Lemma got_ticket_calm : forall s t th o i, exists th', got_ticket s t th o i = upd s t th' /\ calm (tpc th') /\ prog th' = prog th.
Proof.
  intros. unfold got_ticket. destruct (split _ _ _ _) as [[i1 n1] r]. eexists. split. reflexivity. split. apply calm_first_wait. reflexivity.
Qed.

(* other threads: unchanged or woken *)
Definition oth (s s' : st) (w : nat) : Prop :=
  length (threads s') = length (threads s) /\
  forall u thu', u <> w -> nth_error (threads s') u = Some thu' ->
    exists thu, nth_error (threads s) u = Some thu /\ (thu' = thu \/ exists sl, thu' = wake_thread sl thu).
Lemma oth_upd : forall s X w th', threads X = threads s -> oth s (upd X w th') w.
Proof.
  intros s X w th' E. split; cbn; rewrite E. apply length_set_nth. intros u thu' N H. rewrite nth_error_set_nth_neq in H; auto. eauto.
Qed.
Lemma oth_upd_wake : forall s X w th' sl, threads X = map (wake_thread sl) (threads s) -> oth s (upd X w th') w.
Proof.
  intros s X w th' sl E. split; cbn; rewrite E. rewrite length_set_nth, map_length; auto.
  intros u thu' N H. rewrite nth_error_set_nth_neq in H; auto. rewrite nth_error_map in H.
  destruct (nth_error (threads s) u) as [x|]; [|discriminate]. inversion H. eauto.
Qed.

Lemma wake_cur : forall sl th, cur (wake_thread sl th) = cur th /\ lc (wake_thread sl th) = lc th.
Proof. intros. unfold wake_thread. destruct (tpc th); auto. destruct (Nat.eqb _ _); auto. Qed.
Lemma wake_pc : forall sl th, tpc (wake_thread sl th) = tpc th \/ exists j sl', tpc th = WParked j sl' /\ tpc (wake_thread sl th) = WReload j.
Proof. intros. unfold wake_thread. destruct (tpc th) eqn:E; auto. destruct (Nat.eqb _ _); cbn; eauto. Qed.

Lemma wait_target_ext : forall s X o l j, kbits X = kbits s -> wait_target X o l j = wait_target s o l j.
Proof.
  intros s X o l j K. unfold wait_target, seg_slot, seg_ever, ever, kb, mask, capacity. rewrite K. reflexivity.
Qed.
Lemma win_ext : forall s X th sl x, kbits X = kbits s -> win s th sl x -> win X th sl x.
Proof.
  intros s X th sl x K (o & j & A). exists o, j. unfold seg_slot, seg_ever, ever, kb, mask, capacity in *. rewrite K. exact A.
Qed.
Lemma witness_wake : forall s sl0 thu sl x, cert thu sl \/ win s thu sl x ->
  cert (wake_thread sl0 thu) sl \/ win s (wake_thread sl0 thu) sl x.
Proof.
  intros s sl0 thu sl x W. destruct (wake_cur sl0 thu) as [CU LC].
  destruct (wake_pc sl0 thu) as [E|(j & sl' & E & _)].
  - destruct W as [W|(o & j & A)]. left. unfold cert in *. rewrite E. exact W.
    right. exists o, j. rewrite CU, LC, E. exact A.
  - exfalso. destruct W as [[W|[j0 W]]|(o & j0 & _ & _ & _ & _ & _ & _ & W)]; try congruence.
    destruct W as [W|[(j' & W & _)|[(j' & W & _)|[(j' & c & W & _)|(j' & sl1 & W & _)]]]]; congruence.
Qed.
Lemma target_form : forall s o l j, exists a, snd (wait_target s o l j) = xver (C s) (is_push o) a.
Proof.
  intros. unfold wait_target. destruct o; cbn [snd]; try (exists (seg_i l); unfold seg_ever; apply ever_xver).
  exists (uidx l). change (pop_ver (kb s) (uidx l)) with (ever s false (uidx l)). apply ever_xver.
Qed.

Definition wake_sides (progs : list (list op)) : Prop :=
  forall p q o o', In p progs -> In q progs -> In o p -> In o' q -> ofwait o = true -> is_push o' = negb (is_push o) ->
  fwake (oflags o') = true.
Lemma usage_wake : forall k progs, usage_ok k progs = true -> wake_sides progs.
Proof.
  intros k progs U p q o o' Ip Iq Io Io' OW RO. unfold usage_ok in U.
  apply andb_true_iff in U as [U _]. apply andb_true_iff in U as [U W2]. apply andb_true_iff in U as [_ W1].
  assert (WK : wake_ok (is_push o) progs = true) by (destruct (is_push o); auto).
  unfold wake_ok in WK. apply orb_true_iff in WK as [WK|WK].
  - apply negb_true_iff in WK. assert (existsb ofwait (side_ops (is_push o) (all_ops progs)) = true); [|congruence].
    apply existsb_exists. exists o. split; auto. unfold side_ops. apply filter_In. split. unfold all_ops. apply in_concat. eauto. apply eqb_reflx.
  - rewrite forallb_forall in WK. apply WK. unfold side_ops. apply filter_In. split. unfold all_ops. apply in_concat. eauto.
    rewrite RO. apply eqb_reflx.
Qed.

Section WS.
Variables (k : nat) (progs : list (list op)) (s : st) (w : nat) (th : thread) (o : op).
Hypothesis HT : nth_error (threads s) w = Some th.
Hypothesis HO : cur th = Some o.
Hypothesis RS : Reach k progs s.
Hypothesis R2s : R2 s.
Hypothesis R4s : R4 s.
Hypothesis Qs : Q s.

Definition thr_ok2 (X : st) : Prop := threads X = threads s \/ exists sl0, threads X = map (wake_thread sl0) (threads s).

Lemma w_lt : (w < length (threads s))%nat.
Proof. eapply nth_error_lt; eauto. Qed.
Lemma nth_w : forall X th', thr_ok2 X -> nth_error (threads (upd X w th')) w = Some th'.
Proof. intros X th' [E|[sl0 E]]; cbn; rewrite E; apply nth_error_set_nth_eq; rewrite ?map_length; apply w_lt. Qed.
Lemma nth_bw : forall X th' u thu', thr_ok2 X -> u <> w -> nth_error (threads (upd X w th')) u = Some thu' ->
  exists thu, nth_error (threads s) u = Some thu /\ (thu' = thu \/ exists sl0, threads X = map (wake_thread sl0) (threads s) /\ thu' = wake_thread sl0 thu).
Proof.
  intros X th' u thu' [E|[sl0 E]] N H; cbn in H; rewrite E in H; rewrite nth_error_set_nth_neq in H; auto.
  - eauto.
  - rewrite nth_error_map in H. destruct (nth_error (threads s) u) as [x|]; [|discriminate]. inversion H. exists x. split; auto. right. eauto.
Qed.
Lemma nth_fw : forall X th' u thu, thr_ok2 X -> u <> w -> nth_error (threads s) u = Some thu ->
  exists thu', nth_error (threads (upd X w th')) u = Some thu' /\ (thu' = thu \/ exists sl0, thu' = wake_thread sl0 thu).
Proof.
  intros X th' u thu [E|[sl0 E]] N H; cbn; rewrite E; rewrite nth_error_set_nth_neq; auto.
  - eauto.
  - rewrite nth_error_map, H. cbn. eauto.
Qed.

Lemma R24_frame : forall X th', thr_ok2 X -> kbits X = kbits s -> (forall sl, gver s sl <= gver X sl) ->
  (forall o' j c, cur th' = Some o' -> (tpc th' = WCas j c \/ tpc th' = WFutex j c) ->
     c <> snd (wait_target X o' (lc th') j) /\ 0 <= c <= gver X (fst (wait_target X o' (lc th') j))) ->
  (forall o', cur th' = Some o' -> S4 (tpc th') ->
     ofwait o' = true /\ (forall j sl, tpc th' = WParked j sl -> fst (wait_target X o' (lc th') j) = sl)) ->
  R2 (upd X w th') /\ R4 (upd X w th').
Proof.
  intros X th' TH K MO OB1 OB2. split.
  - intros u thu' o' j c H CU PC. destruct (Nat.eq_dec u w) as [->|N].
    + rewrite nth_w in H by auto. inversion H; subst thu'. apply (OB1 o' j c); auto.
    + destruct (nth_bw _ _ _ _ TH N H) as (thu & H0 & [->|(sl0 & _ & ->)]).
      * change (wait_target (upd X w th') o' (lc thu) j) with (wait_target X o' (lc thu) j).
        rewrite (wait_target_ext s X) by auto. destruct (R2s u thu o' j c H0 CU PC) as [A B]. split; auto.
        change (gver (upd X w th')) with (gver X). specialize (MO (fst (wait_target s o' (lc thu) j))). lia.
      * destruct (wake_cur sl0 thu) as [CU' LC']. rewrite CU' in CU. rewrite LC'.
        assert (PC' : tpc thu = WCas j c \/ tpc thu = WFutex j c).
        { destruct (wake_pc sl0 thu) as [E|(j1 & sl1 & _ & E)]. rewrite E in PC. auto. destruct PC; congruence. }
        change (wait_target (upd X w th') o' (lc thu) j) with (wait_target X o' (lc thu) j).
        rewrite (wait_target_ext s X) by auto. destruct (R2s u thu o' j c H0 CU PC') as [A B]. split; auto.
        change (gver (upd X w th')) with (gver X). specialize (MO (fst (wait_target s o' (lc thu) j))). lia.
  - intros u thu' o' H CU PC. destruct (Nat.eq_dec u w) as [->|N].
    + rewrite nth_w in H by auto. inversion H; subst thu'. apply OB2; auto.
    + destruct (nth_bw _ _ _ _ TH N H) as (thu & H0 & [->|(sl0 & _ & ->)]).
      * destruct (R4s u thu o' H0 CU PC) as [A B]. split; auto. intros j sl P.
        change (wait_target (upd X w th') o' (lc thu) j) with (wait_target X o' (lc thu) j). rewrite (wait_target_ext s X) by auto. auto.
      * destruct (wake_cur sl0 thu) as [CU' LC']. rewrite CU' in CU.
        assert (PC0 : S4 (tpc thu)) by (destruct (wake_pc sl0 thu) as [E|(j1 & sl1 & E & E')]; [rewrite E in PC; auto | rewrite E; exact I]).
        destruct (R4s u thu o' H0 CU PC0) as [A B]. split; auto. intros j sl P. rewrite LC'.
        change (wait_target (upd X w th') o' (lc thu) j) with (wait_target X o' (lc thu) j). rewrite (wait_target_ext s X) by auto.
        apply B. destruct (wake_pc sl0 thu) as [E|(j1 & sl1 & E & E')]; congruence.
Qed.

Lemma Q_frame : forall X th', thr_ok2 X -> kbits X = kbits s ->
  (* a new sleeper does not sleep on a ready slot *)
  (forall sl x, parkedOn X th' sl x -> gver X sl <> x) ->
  (* a pending wake_all is executed by this step *)
  (forall sl, cert th sl -> threads X = map (wake_thread sl) (threads s)) ->
  (* a waker that was on its way still is (or the bit was clear, or it wakes now) *)
  (forall sl x, cert th sl \/ win s th sl x -> gver s sl = x -> gver X sl = x ->
     cert th' sl \/ win X th' sl x \/ gwf s sl = false \/ threads X = map (wake_thread sl) (threads s)) ->
  (* a version published by this step has its waker *)
  (forall sl x t tht, gver s sl <> x -> gver X sl = x -> t <> w -> nth_error (threads s) t = Some tht -> parkedOn s tht sl x ->
     cert th' sl \/ win X th' sl x \/ gwf s sl = false) ->
  (* versions of other slots are untouched unless stated above *)
  Q (upd X w th').
Proof.
  intros X th' TH K PK CW WT VC t tht' sl x H PKD GV. change (gver (upd X w th') sl) with (gver X sl) in GV.
  destruct (Nat.eq_dec t w) as [->|N].
  { rewrite nth_w in H by auto. inversion H; subst tht'. exfalso. apply (PK sl x); auto. }
  destruct (nth_bw _ _ _ _ TH N H) as (tht & H0 & EQ).
  assert (PK0 : parkedOn s tht sl x /\ (forall sl0, threads X = map (wake_thread sl0) (threads s) -> sl0 <> sl)).
  { destruct PKD as (o' & j & A & B & D). change (wait_target (upd X w th') o' (lc tht') j) with (wait_target X o' (lc tht') j) in D.
    rewrite (wait_target_ext s X) in D by auto. destruct EQ as [->|(sl0 & E0 & ->)].
    - split. exists o', j. auto. intros sl0 E0 ->. 
      assert (nth_error (threads (upd X w th')) t = Some (wake_thread sl tht)) by (cbn; rewrite E0, nth_error_set_nth_neq by auto; rewrite nth_error_map, H0; reflexivity).
      rewrite H in H1. inversion H1. unfold wake_thread in H3. rewrite B in H3. rewrite Nat.eqb_refl in H3.
      assert (tpc tht = tpc (goto tht (WReload j))) by congruence. cbn in H2. congruence.
    - destruct (wake_cur sl0 tht) as [CU' LC']. rewrite CU' in A. rewrite LC' in D.
      assert (PC' : tpc tht = WParked j sl /\ sl0 <> sl).
      { unfold wake_thread in B. destruct (tpc tht) eqn:E; try (rewrite E in B; discriminate). destruct (Nat.eqb sl0 sl1) eqn:EB.
        cbn in B. discriminate. rewrite E in B. inversion B; subst. split; auto. apply Nat.eqb_neq in EB. auto. }
      destruct PC' as [PC' NE]. split. exists o', j. auto.
      intros sl1 E1. rewrite E0 in E1. intros ->.
      assert (wake_thread sl0 tht = wake_thread sl tht).
      { assert (nth_error (map (wake_thread sl0) (threads s)) t = nth_error (map (wake_thread sl) (threads s)) t) by (rewrite E1; auto).
        rewrite !nth_error_map, H0 in H1. cbn in H1. congruence. }
      assert (tpc (wake_thread sl tht) = WReload j) by (unfold wake_thread; rewrite PC', Nat.eqb_refl; reflexivity).
      rewrite <- H1 in H2. congruence. }
  destruct PK0 as [PK0 NW].
  (* a witness among the other threads survives *)
  assert (KEEP : forall u thu, u <> w -> nth_error (threads s) u = Some thu -> cert thu sl \/ win s thu sl x ->
                 exists u' thu', nth_error (threads (upd X w th')) u' = Some thu' /\ (cert thu' sl \/ win (upd X w th') thu' sl x)).
  { intros u thu NU HU W. destruct (nth_fw X th' u thu TH NU HU) as (thu' & HU' & [->|(sl0 & ->)]).
    - exists u, thu. split; auto. destruct W as [W|W]; auto. right. apply (win_ext s); auto.
    - exists u, (wake_thread sl0 thu). split; auto. destruct (witness_wake s sl0 thu sl x W) as [W'|W']; auto. right. apply (win_ext s); auto. }
  assert (MINE : cert th' sl \/ win X th' sl x -> exists u' thu', nth_error (threads (upd X w th')) u' = Some thu' /\ (cert thu' sl \/ win (upd X w th') thu' sl x)).
  { intros W. exists w, th'. split. apply nth_w; auto. destruct W; auto. }
  assert (FROMP : gwf s sl = false -> exists u' thu', nth_error (threads (upd X w th')) u' = Some thu' /\ (cert thu' sl \/ win (upd X w th') thu' sl x)).
  { intros GW. destruct PK0 as (o' & j & A & B & D).
    destruct (bq_sleeper_not_forgotten k progs s RS t tht j sl H0 B) as [F|(v & thv & HV & CV)]. unfold gwf in GW. congruence.
    destruct (Nat.eq_dec v w) as [->|NV].
    - rewrite HT in HV. inversion HV; subst thv. exfalso. apply (NW sl); auto.
    - apply (KEEP v thv); auto. }
  destruct (Z.eq_dec (gver s sl) x) as [E|NE].
  - destruct (Qs t tht sl x H0 PK0 E) as (u & thu & HU & W). destruct (Nat.eq_dec u w) as [->|NU].
    + rewrite HT in HU. inversion HU; subst thu. destruct (WT sl x W E GV) as [A|[A|[A|A]]]; auto.
      exfalso. apply (NW sl); auto.
    + apply (KEEP u thu); auto.
  - destruct (VC sl x t tht NE GV N H0 PK0) as [A|[A|A]]; auto.
Qed.

Definition witpc (p : pc) : Prop :=
  match p with PubWake _ | WkWake _ _ | FenceSC | Pub _ | WkLoad _ | WkCas _ _ => True | _ => False end.
Lemma not_witness : ~ witpc (tpc th) -> forall sl x, ~ (cert th sl \/ win s th sl x).
Proof.
  intros NW sl x [[C|[j C]]|(o' & j0 & _ & _ & _ & _ & _ & _ & W)]; try (rewrite C in NW; apply NW; exact I).
  destruct W as [W|[(j' & W & _)|[(j' & W & _)|[(j' & c & W & _)|(j' & sl1 & W & _)]]]]; rewrite W in NW; apply NW; exact I.
Qed.

(* a step that does not touch versions, is not made by a waker and does not put the thread to sleep *)
Lemma W_quiet : forall X th', thr_ok2 X -> kbits X = kbits s -> (forall sl, gver X sl = gver s sl) ->
  ~ witpc (tpc th) -> (forall j sl, tpc th' <> WParked j sl) ->
  (forall o' j c, cur th' = Some o' -> (tpc th' = WCas j c \/ tpc th' = WFutex j c) ->
     c <> snd (wait_target X o' (lc th') j) /\ 0 <= c <= gver X (fst (wait_target X o' (lc th') j))) ->
  (forall o', cur th' = Some o' -> S4 (tpc th') -> ofwait o' = true) ->
  R2 (upd X w th') /\ R4 (upd X w th') /\ Q (upd X w th').
Proof.
  intros X th' TH K GV NW NP OB1 OB2.
  destruct (R24_frame X th' TH K ltac:(intros; rewrite GV; lia) OB1
              (fun o' CU S => conj (OB2 o' CU S) (fun j sl P => match NP j sl P with end))) as [A B]. split; auto. split; auto.
  pose proof (not_witness NW) as NWT.
  apply Q_frame; auto.
  - intros sl x (o' & j & _ & P & _). destruct (NP j sl P).
  - intros sl C. destruct (NWT sl 0). auto.
  - intros sl x W. destruct (NWT sl x W).
  - intros sl x t tht NE E. rewrite GV in E. congruence.
Qed.
Lemma W_calm : forall X th', thr_ok2 X -> kbits X = kbits s -> (forall sl, gver X sl = gver s sl) ->
  ~ witpc (tpc th) -> calm (tpc th') -> R2 (upd X w th') /\ R4 (upd X w th') /\ Q (upd X w th').
Proof.
  intros X th' TH K GV NW CA. apply W_quiet; auto.
  - intros j sl E. rewrite E in CA. exact CA.
  - intros o' j c _ [E|E]; rewrite E in CA; destruct CA.
  - intros o' _ S. destruct (tpc th'); try destruct S; destruct CA.
Qed.
End WS.

Lemma pub_known : forall k progs s w th o j, FInv k progs s -> nth_error (threads s) w = Some th -> cur th = Some o ->
  tpc th = Pub j ->
  (j < seg_n (lc th))%nat /\ gver s (seg_slot s o (lc th) j) = seg_ever s o (lc th) /\ (seg_slot s o (lc th) j < length (slots s))%nat.
Proof.
  intros k progs s w th o j (I & _ & _) HT HO E. pose proof (thv_t s w th o HT HO) as TT.
  destruct (i_tf _ I _ _ TT) as (L & KN & _). unfold linv, vknown, vrole in L, KN. cbn [v_ph v_l v_op] in L, KN. rewrite E in L, KN.
  cbn [phase_of] in L, KN. destruct L as (HC & LT & _). destruct (seg_slot_j s th o (i_len _ I) j (proj1 HC) LT) as [SS SE].
  split; auto. rewrite SS, SE. split. apply (KN (seg_i (lc th) + Z.of_nat j)). lia.
  rewrite (i_len _ I). apply tsl_lt. apply C_pos.
Qed.

Lemma gver_setwf : forall s sl wv sl', gver (set_slot s sl {| ver := ver (get_slot s sl); wf := wv; pay := pay (get_slot s sl); own := own (get_slot s sl) |}) sl' = gver s sl'.
Proof.
  intros. unfold gver, get_slot, set_slot. cbn. destruct (Nat.eq_dec sl sl') as [->|N]; [|rewrite nth_set_nth_neq; auto].
  destruct (Nat.lt_ge_cases sl' (length (slots s))). rewrite nth_set_nth_eq; auto.
  rewrite !nth_overflow; auto. rewrite length_set_nth. lia.
Qed.
Lemma wait_target_time : forall s o l j u b r d, u = uidx l -> wait_target s o (set_time l u b r d) j = wait_target s o l j.
Proof. intros. subst. destruct o; reflexivity. Qed.
Lemma word16_small : forall a b wa wb, 0 <= a < 65536 -> 0 <= b < 65536 -> word16 a wa = word16 b wb -> a = b.
Proof.
  intros a b wa wb Ha Hb H. pose proof (word16_eq_flag _ _ _ _ H). subst wb. unfold word16 in H.
  rewrite !Z.mod_small in H by lia. lia.
Qed.

Lemma W_step : forall k progs s w th o s', usage_ok k progs = true -> FInv k progs s -> Reach k progs s ->
  R2 s -> R4 s -> V0 s -> small s -> Q s ->
  nth_error (threads s) w = Some th -> cur th = Some o -> step_thread s w th o = Some s' ->
  R2 s' /\ R4 s' /\ Q s'.
Proof.
  intros k progs s w th o s' U FI RS R2s R4s V0s SM Qs HT HO H.
  pose proof (usage_wake _ _ U) as WS. pose proof FI as FI0. destruct FI as (IV & PR & KB).
  assert (R4a : forall u0 thu0 ou0, nth_error (threads s) u0 = Some thu0 -> cur thu0 = Some ou0 -> S4 (tpc thu0) -> ofwait ou0 = true)
    by (intros u0 thu0 ou0 A0 B0 D0; exact (proj1 (R4s u0 thu0 ou0 A0 B0 D0))).
  unfold step_thread in H. cbv zeta in H.
  remember (tpc th) as p0 eqn:E in H. symmetry in E.
  assert (CALM : forall X th', thr_ok2 s X -> kbits X = kbits s -> (forall sl, gver X sl = gver s sl) -> ~ witpc (tpc th) -> calm (tpc th') ->
                 R2 (upd X w th') /\ R4 (upd X w th') /\ Q (upd X w th')) by (intros; eapply W_calm; eauto).
  assert (QUIET : forall X th', thr_ok2 s X -> kbits X = kbits s -> (forall sl, gver X sl = gver s sl) ->
    ~ witpc (tpc th) -> (forall j sl, tpc th' <> WParked j sl) ->
    (forall o' j c, cur th' = Some o' -> (tpc th' = WCas j c \/ tpc th' = WFutex j c) ->
       c <> snd (wait_target X o' (lc th') j) /\ 0 <= c <= gver X (fst (wait_target X o' (lc th') j))) ->
    (forall o', cur th' = Some o' -> S4 (tpc th') -> ofwait o' = true) ->
    R2 (upd X w th') /\ R4 (upd X w th') /\ Q (upd X w th')) by (intros; eapply W_quiet; eauto).
  assert (ES : forall X th1, thr_ok2 s X -> kbits X = kbits s -> (forall sl, gver X sl = gver s sl) -> ~ witpc (tpc th) ->
               R2 (end_segment X w th1 o) /\ R4 (end_segment X w th1 o) /\ Q (end_segment X w th1 o)).
  { intros X th1 A B D F. destruct (end_segment_calm X w th1 o) as (th' & -> & CA & _). apply CALM; auto. }
  assert (GT : forall X i, thr_ok2 s X -> kbits X = kbits s -> (forall sl, gver X sl = gver s sl) -> ~ witpc (tpc th) ->
               R2 (got_ticket X w th o i) /\ R4 (got_ticket X w th o i) /\ Q (got_ticket X w th o i)).
  { intros X i A B D F. destruct (got_ticket_calm X w th o i) as (th' & -> & CA & _). apply CALM; auto. }
  assert (TS : thr_ok2 s s) by (left; reflexivity).
  assert (GS : forall sl, gver s sl = gver s sl) by reflexivity.
  (* entering / staying in the slow path of a wait with a freshly read version *)
  assert (SLOW : forall j sl e p l, wait_target s o (lc th) j = (sl, e) -> wait_target s o l j = wait_target s o (lc th) j ->
     Z.eqb (gver s sl) e = false -> (p = WCas j (gver s sl) \/ p = WFutex j (gver s sl) \/ p = WSleep j) ->
     ((exists c, p = WCas j c \/ p = WFutex j c) -> ofwait o = true) -> ~ witpc (tpc th) ->
     R2 (upd s w (goto_lc th p l)) /\ R4 (upd s w (goto_lc th p l)) /\ Q (upd s w (goto_lc th p l))).
  { intros j sl e p l WT WL NE PP OW NW. apply Z.eqb_neq in NE. apply QUIET; auto.
    - intros j0 sl0. cbn. destruct PP as [->|[->| ->]]; discriminate.
    - intros o' j0 c CU PC. cbn in CU, PC. unfold BQInvDefs.cur in *. cbn in CU. rewrite HO in CU. inversion CU; subst o'. cbn [lc goto_lc].
      assert (j0 = j /\ c = gver s sl) as [-> ->] by (destruct PP as [->|[->| ->]]; destruct PC as [PC|PC]; inversion PC; auto).
      rewrite WL, WT. cbn [fst snd]. split; auto. specialize (V0s sl). lia.
    - intros o' CU S. unfold BQInvDefs.cur in *. cbn in CU. rewrite HO in CU. inversion CU; subst o'. apply OW.
      cbn in S. destruct PP as [->|[->| ->]]; eauto. destruct S. }
  assert (WINK : forall X p j0 x, kbits X = kbits s -> fwake (oflags o) = true -> is_single o = false -> (j0 < seg_n (lc th))%nat ->
     wake_ver (okind o) (seg_ever s o (lc th)) = x ->
     (p = FenceSC \/ (exists j', p = Pub j' /\ (j0 < j')%nat) \/ (exists j', p = WkLoad j' /\ (j' <= j0)%nat) \/
      (exists j' c, p = WkCas j' c /\ (j' <= j0)%nat /\ (j' = j0 -> c = x)) \/ (exists j' sl', p = WkWake j' sl' /\ (j' < j0)%nat)) ->
     win X (goto th p) (seg_slot s o (lc th) j0) x).
  { intros X p j0 x K FW SI LJ WVx PP. exists o, j0. split; [exact HO|]. split; auto. split; auto. split; auto. split.
    unfold seg_slot, mask, capacity. rewrite K. reflexivity. split. cbn [lc goto]. rewrite <- WVx. unfold seg_ever, ever, kb. rewrite K. reflexivity.
    cbn [tpc goto]. exact PP. }
  assert (WK : forall X th', thr_ok2 s X -> kbits X = kbits s -> (forall sl, gver X sl = gver s sl) ->
     (forall j0 sl0, tpc th' <> WParked j0 sl0) -> (forall j0 c, tpc th' <> WCas j0 c /\ tpc th' <> WFutex j0 c) -> ~ S4 (tpc th') ->
     (forall sl, cert th sl -> threads X = map (wake_thread sl) (threads s)) ->
     (forall sl x, cert th sl \/ win s th sl x -> gver s sl = x ->
        cert th' sl \/ win X th' sl x \/ gwf s sl = false \/ threads X = map (wake_thread sl) (threads s)) ->
     R2 (upd X w th') /\ R4 (upd X w th') /\ Q (upd X w th')).
  { intros X th' TX K GV NP NC NS CW WT.
    destruct (R24_frame s w th HT R2s R4s X th' TX K ltac:(intros; rewrite GV; lia)) as [A B].
    - intros o' j0 c _ [PC|PC]; destruct (NC j0 c); congruence.
    - intros o' _ S. destruct (NS S).
    - split; auto. split; auto. apply (Q_frame _ _ s w th HT RS Qs); auto.
      + intros sl0 x (o' & j0 & _ & PC & _). destruct (NP j0 sl0 PC).
      + intros sl0 x t tht N1 N2. rewrite GV in N2. congruence. }
  assert (CALMF : forall th', calm (tpc th') -> (forall j0 sl0, tpc th' <> WParked j0 sl0) /\ (forall j0 c, tpc th' <> WCas j0 c /\ tpc th' <> WFutex j0 c) /\ ~ S4 (tpc th')).
  { intros th' CA. split; [|split]. intros j0 sl0 PC; rewrite PC in CA; exact CA.
    intros j0 c; split; intros PC; rewrite PC in CA; exact CA. intros S. destruct (tpc th'); try destruct S; destruct CA. }
  assert (NWS : forall X j, exists th', next_wk X w th o j = upd X w th' /\
            (((S j < seg_n (lc th))%nat /\ th' = goto th (WkLoad (S j))) \/ ((seg_n (lc th) <= S j)%nat /\ calm (tpc th')))).
  { intros X j. unfold next_wk. destruct (Nat.ltb (S j) (seg_n (lc th))) eqn:LT.
    - apply Nat.ltb_lt in LT. eexists. split. reflexivity. left. auto.
    - apply Nat.ltb_ge in LT. destruct (end_segment_calm X w th o) as (th' & -> & CA & _). exists th'. split; auto. }
  (* what it means for the stepping thread to be a waker on its way *)
  assert (WINV : forall sl x, win s th sl x -> exists j0, fwake (oflags o) = true /\ is_single o = false /\ (j0 < seg_n (lc th))%nat /\
             seg_slot s o (lc th) j0 = sl /\ wake_ver (okind o) (seg_ever s o (lc th)) = x /\
             (tpc th = FenceSC \/ (exists j', tpc th = Pub j' /\ (j0 < j')%nat) \/ (exists j', tpc th = WkLoad j' /\ (j' <= j0)%nat) \/
              (exists j' c, tpc th = WkCas j' c /\ (j' <= j0)%nat /\ (j' = j0 -> c = x)) \/ (exists j' sl', tpc th = WkWake j' sl' /\ (j' < j0)%nat))).
  { intros sl x (o' & j0 & CU & A). rewrite HO in CU. inversion CU; subst o'. exists j0. exact A. }
  destruct p0.
  - (* Idle *)
    assert (NW : ~ witpc (tpc th)) by (rewrite E; exact (fun x => x)).
    destruct (okind o).
    + destruct (oconc o); inv H. apply GT; [left; reflexivity | reflexivity | intros; reflexivity | exact NW]. apply CALM; [exact TS | reflexivity | intros; reflexivity | exact NW | exact I].
    + destruct (oconc o); inv H. apply GT; [left; reflexivity | reflexivity | intros; reflexivity | exact NW]. apply CALM; [exact TS | reflexivity | intros; reflexivity | exact NW | exact I].
    + inv H. apply CALM; [exact TS | reflexivity | intros; reflexivity | exact NW | exact I].
    + destruct (split _ _ _ _) as [[i1 n1] r]. inv H. apply CALM; [exact TS | reflexivity | intros; reflexivity | exact NW | destruct (Nat.ltb 0 n1); exact I].
    + inv H. apply CALM; [exact TS | reflexivity | intros; reflexivity | exact NW | exact I].
  - (* TkStore *)
    assert (NW : ~ witpc (tpc th)) by (rewrite E; exact (fun x => x)). inv H. apply GT; [left; reflexivity | reflexivity | intros; reflexivity | exact NW].
  - (* WLoad *)
    assert (NW : ~ witpc (tpc th)) by (rewrite E; exact (fun x => x)).
    destruct (wait_target s o (lc th) j) as [sl e] eqn:WT. destruct (wait_ready _ _) eqn:RD; inv H.
    + apply CALM; [exact TS | reflexivity | intros; reflexivity | exact NW | apply calm_after_wait].
    + apply (SLOW j sl e _ _ WT).
      * destruct (is_timed o); [apply wait_target_time; auto | reflexivity].
      * exact RD.
      * unfold slow_path. destruct (ofwait o); [destruct (block_no_waiter _)|]; auto.
      * intros (c & PC). unfold slow_path in PC. destruct (ofwait o); auto. destruct PC; discriminate.
      * exact NW.
  - (* WCas *)
    assert (NW : ~ witpc (tpc th)) by (rewrite E; exact (fun x => x)).
    destruct (wait_target s o (lc th) j) as [sl e] eqn:WT. destruct (Z.eqb _ _) eqn:EQ; [|destruct (block_cas_ready _ _) eqn:RD]; inv H.
    + apply QUIET; [left; reflexivity | reflexivity | intros; apply gver_setwf | exact NW | | | ].
      * intros; discriminate.
      * intros o' j0 c CU PC. unfold BQInvDefs.cur in *. cbn in CU. rewrite HO in CU. inversion CU; subst o'. cbn [lc goto].
        destruct PC as [PC|PC]; inversion PC; subst j0 c.
        change (wait_target (set_slot s sl _) o (lc th) j) with (wait_target s o (lc th) j). rewrite gver_setwf.
        apply (R2s w th o j cur); auto.
      * intros o' CU S. unfold BQInvDefs.cur in *. cbn in CU. rewrite HO in CU. inversion CU; subst o'. apply (R4a w th o); auto. rewrite E. exact I.
    + apply CALM; [exact TS | reflexivity | intros; reflexivity | exact NW | apply calm_after_wait].
    + apply (SLOW j sl e (if block_no_waiter (slot_word (get_slot s sl)) then WCas j (ver (get_slot s sl)) else WFutex j (ver (get_slot s sl))) (lc th) WT eq_refl).
      * exact RD.
      * destruct (block_no_waiter _); auto.
      * intros _. apply (R4a w th o); auto. rewrite E. exact I.
      * exact NW.
  - (* WFutex *)
    assert (NW : ~ witpc (tpc th)) by (rewrite E; exact (fun x => x)).
    destruct (wait_target s o (lc th) j) as [sl e] eqn:WT. destruct (Z.eqb _ _) eqn:EQ; inv H.
    + (* goes to sleep *)
      apply Z.eqb_eq in EQ.
      assert (OF : ofwait o = true) by (apply (R4a w th o); auto; rewrite E; exact I).
      destruct (R2s w th o j cur HT HO (or_intror E)) as [NE BD]. rewrite WT in NE, BD. cbn [fst snd] in NE, BD.
      assert (VC : gver s sl = cur).
      { unfold slot_word in EQ. pose proof (V0s sl) as V1. pose proof (SM sl) as V2. unfold gver in *.
        apply (word16_small (ver (get_slot s sl)) cur (wf (get_slot s sl)) true); auto; lia. }
      set (l' := set_time (lc th) (uidx (lc th)) (tbegin (lc th)) (trem (lc th)) (clock s + trem (lc th))).
      destruct (R24_frame s w th HT R2s R4s s (goto_lc th (WParked j sl) l') TS eq_refl ltac:(intros; lia)) as [A B].
      * intros o' j0 c _ [PC|PC]; discriminate.
      * intros o' CU _. unfold BQInvDefs.cur in *. cbn in CU. rewrite HO in CU. inversion CU; subst o'. split; auto.
        intros j1 sl1 PC. cbn in PC. inversion PC; subst j1 sl1. cbn [lc goto_lc]. unfold l'. rewrite wait_target_time by auto. rewrite WT. reflexivity.
      * split; auto. split; auto. apply (Q_frame _ _ s w th HT RS Qs); auto.
        -- intros sl0 x (o' & j0 & CU & PC & WT'). unfold BQInvDefs.cur in *. cbn in CU, PC, WT'. rewrite HO in CU. inversion CU; subst o'. inversion PC; subst j0 sl0.
           unfold l' in WT'. rewrite wait_target_time in WT' by auto. rewrite WT in WT'. inversion WT'; subst x. congruence.
        -- intros sl0 C. destruct (not_witness s th NW sl0 0). auto.
        -- intros sl0 x W. destruct (not_witness s th NW sl0 x W).
        -- intros sl0 x t tht N1 N2. congruence.
    + apply QUIET; [exact TS | reflexivity | intros; reflexivity | exact NW | | | ].
      * intros; discriminate.
      * intros o' j0 c _ [PC|PC]; discriminate.
      * intros o' CU S. unfold BQInvDefs.cur in *. cbn in CU. rewrite HO in CU. inversion CU; subst o'. apply (R4a w th o); auto. rewrite E. exact I.
  - (* WParked *)
    assert (NW : ~ witpc (tpc th)) by (rewrite E; exact (fun x => x)).
    destruct (is_timed o && (dl (lc th) <=? clock s)); inv H. apply CALM; [exact TS | reflexivity | intros; reflexivity | exact NW | apply calm_after_wait].
  - (* WReload *)
    assert (NW : ~ witpc (tpc th)) by (rewrite E; exact (fun x => x)).
    assert (OF : ofwait o = true) by (apply (R4a w th o); auto; rewrite E; exact I).
    destruct (wait_target s o (lc th) j) as [sl e] eqn:WT.
    destruct (block_reload_ready _ _) eqn:RD; [|destruct (is_timed o) eqn:TM; [destruct (block_expired _)|]]; inv H.
    + apply CALM; [exact TS | reflexivity | intros; reflexivity | exact NW | apply calm_after_wait].
    + apply CALM; [exact TS | reflexivity | intros; reflexivity | exact NW | apply calm_after_wait].
    + apply (SLOW j sl e _ _ WT).
      * apply wait_target_time; auto.
      * exact RD.
      * destruct (block_no_waiter _); auto.
      * intros _; exact OF.
      * exact NW.
    + apply (SLOW j sl e (if block_no_waiter (slot_word (get_slot s sl)) then WCas j (ver (get_slot s sl)) else WFutex j (ver (get_slot s sl))) (lc th) WT eq_refl).
      * exact RD.
      * destruct (block_no_waiter _); auto.
      * intros _; exact OF.
      * exact NW.
  - (* WSleep *)
    assert (NW : ~ witpc (tpc th)) by (rewrite E; exact (fun x => x)). inv H. apply CALM; [exact TS | reflexivity | intros; reflexivity | exact NW | exact I].
  - (* WSpin *)
    assert (NW : ~ witpc (tpc th)) by (rewrite E; exact (fun x => x)).
    destruct (wait_target s o (lc th) j) as [sl e]. destruct (spin_ready _ _); inv H; (apply CALM; [exact TS | reflexivity | intros; reflexivity | exact NW | try apply calm_after_wait; try exact I]).
  - (* FenceA *)
    assert (NW : ~ witpc (tpc th)) by (rewrite E; exact (fun x => x)). inv H. apply CALM; [exact TS | reflexivity | intros; reflexivity | exact NW | exact I].
  - (* Callback *)
    assert (NW : ~ witpc (tpc th)) by (rewrite E; exact (fun x => x)).
    destruct (is_push o).
    + destruct (cb_push _ _ _ _ _ _ _) as [[sls ps] e] eqn:CB. inv H. apply QUIET; [left; reflexivity | reflexivity | | exact NW | | | ].
      * intros sl. unfold gver, get_slot. cbn. pose proof (cb_push_ver (firstn (seg_n (lc th)) (vals (lc th))) w (slots s) (seg_slot s o (lc th) 0) (seg_i (lc th)) (pushed s) (err s) sl) as V.
        rewrite CB in V. exact V.
      * intros j sl. cbn. destruct (is_single o); discriminate.
      * intros o' j c _ [PC|PC]; cbn in PC; destruct (is_single o); discriminate.
      * intros o' _ S. cbn in S. destruct (is_single o); destruct S.
    + destruct (cb_pop _ _ _ _ _ _ _ _) as [[[sls ds] g] e] eqn:CB. inv H. apply QUIET; [left; reflexivity | reflexivity | | exact NW | | | ].
      * intros sl. unfold gver, get_slot. cbn. pose proof (cb_pop_ver (seg_n (lc th)) w (slots s) (seg_slot s o (lc th) 0) (seg_i (lc th)) (delivered s) (got (lc th)) (err s) sl) as V.
        rewrite CB in V. exact V.
      * intros j sl. cbn. destruct (is_single o); discriminate.
      * intros o' j c _ [PC|PC]; cbn in PC; destruct (is_single o); discriminate.
      * intros o' _ S. cbn in S. destruct (is_single o); destruct S.
  - (* FenceR *)
    assert (NW : ~ witpc (tpc th)) by (rewrite E; exact (fun x => x)).
    destruct (Nat.ltb 0 (seg_n (lc th))); inv H.
    + apply QUIET; [exact TS | reflexivity | intros; reflexivity | exact NW | intros; discriminate | intros o' j c _ [PC|PC]; discriminate | intros o' _ S; destruct S].
    + unfold after_pubs. destruct (fwake (oflags o)).
      * apply QUIET; [exact TS | reflexivity | intros; reflexivity | exact NW | intros; discriminate | intros o' j c _ [PC|PC]; discriminate | intros o' _ S; destruct S].
      * apply ES; [exact TS | reflexivity | intros; reflexivity | exact NW].
  - (* Pub *)
    destruct (pub_known _ _ s w th o j FI0 HT HO E) as (LT & GV & INR).
    rewrite !(proj1 (bq_next_version _ _ _)) in H.
    set (sl := seg_slot s o (lc th) j) in *. set (e := seg_ever s o (lc th)) in *.
    assert (WV : wake_ver (okind o) e = e + 1) by exact (proj2 (bq_next_version (okind o) true e)).
    assert (PUBV : forall wv sl', gver (set_slot s sl {| ver := e + 1; wf := wv; pay := pay (get_slot s sl); own := None |}) sl' =
                                  if Nat.eqb sl' sl then e + 1 else gver s sl').
    { intros wv sl'. unfold gver, get_slot, set_slot. cbn. destruct (Nat.eqb sl' sl) eqn:B.
      apply Nat.eqb_eq in B; subst sl'. rewrite nth_set_nth_eq; auto. apply Nat.eqb_neq in B. rewrite nth_set_nth_neq; auto. }
    assert (USAGE : forall t tht, nth_error (threads s) t = Some tht -> parkedOn s tht sl (e + 1) -> fwake (oflags o) = true).
    { intros t tht HTt (ot & jt & CUt & PCt & WTt).
      assert (OFt : ofwait ot = true) by (apply (R4a t tht ot); auto; rewrite PCt; exact I).
      destruct (target_form s ot (lc tht) jt) as (a & TF). rewrite WTt in TF. cbn [snd] in TF.
      assert (EE : e = xver (C s) (is_push o) (seg_i (lc th))) by (unfold e, seg_ever; apply ever_xver).
      assert (RO : is_push o = negb (is_push ot)) by (rewrite EE in TF; unfold xver in TF; destruct (is_push o), (is_push ot); auto; lia).
      apply (WS (prog tht) (prog th) ot o); auto.
      - rewrite <- PR. apply in_map. eapply nth_error_In; eauto.
      - rewrite <- PR. apply in_map. eapply nth_error_In; eauto.
      - eapply nth_error_In; eauto.
      - eapply nth_error_In; eauto. }
    assert (WIN : forall X p j0, kbits X = kbits s -> fwake (oflags o) = true -> is_single o = false -> (j0 < seg_n (lc th))%nat ->
              (p = FenceSC \/ (exists j', p = Pub j' /\ (j0 < j')%nat)) -> win X (goto th p) (seg_slot s o (lc th) j0) (e + 1)).
    { intros X p j0 K FW SI LJ PP. exists o, j0. split; [exact HO|]. split; auto. split; auto. split; auto. split.
      unfold seg_slot, mask, capacity. rewrite K. reflexivity. split. cbn [lc goto]. rewrite <- WV. unfold e, seg_ever, ever, kb. rewrite K. reflexivity.
      cbn [tpc goto]. destruct PP as [->|(j' & -> & LJ')]; eauto. }
    assert (PUB : forall wv th',
      (forall j0 sl0, tpc th' <> WParked j0 sl0) -> (forall j0 c, tpc th' <> WCas j0 c /\ tpc th' <> WFutex j0 c) -> ~ S4 (tpc th') ->
      (is_single o = false -> fwake (oflags o) = true -> forall j0, (j0 < j)%nat ->
         win (set_slot s sl {| ver := e + 1; wf := wv; pay := pay (get_slot s sl); own := None |}) th' (seg_slot s o (lc th) j0) (e + 1)) ->
      (forall t tht, t <> w -> nth_error (threads s) t = Some tht -> parkedOn s tht sl (e + 1) ->
         cert th' sl \/ win (set_slot s sl {| ver := e + 1; wf := wv; pay := pay (get_slot s sl); own := None |}) th' sl (e + 1) \/ gwf s sl = false) ->
      R2 (upd (set_slot s sl {| ver := e + 1; wf := wv; pay := pay (get_slot s sl); own := None |}) w th') /\
      R4 (upd (set_slot s sl {| ver := e + 1; wf := wv; pay := pay (get_slot s sl); own := None |}) w th') /\
      Q (upd (set_slot s sl {| ver := e + 1; wf := wv; pay := pay (get_slot s sl); own := None |}) w th')).
    { intros wv th' NP NC NS WTk VCk. set (X := set_slot s sl {| ver := e + 1; wf := wv; pay := pay (get_slot s sl); own := None |}) in *.
      assert (TX : thr_ok2 s X) by (left; reflexivity).
      assert (MO : forall sl', gver s sl' <= gver X sl') by (intros sl'; unfold X; rewrite PUBV; destruct (Nat.eqb sl' sl) eqn:B; [apply Nat.eqb_eq in B; subst; lia|lia]).
      destruct (R24_frame s w th HT R2s R4s X th' TX eq_refl MO) as [A B].
      - intros o' j0 c _ [PC|PC]; destruct (NC j0 c); congruence.
      - intros o' _ S. destruct (NS S).
      - split; auto. split; auto. apply (Q_frame _ _ s w th HT RS Qs); auto.
        + intros sl0 x (o' & j0 & _ & PC & _). destruct (NP j0 sl0 PC).
        + intros sl0 [C|[j0 C]]; congruence.
        + intros sl0 x [[C|[j0 C]]|(o' & j0 & CU & FW & SI & LJ & SS & WVx & PP)] G1 G2; try congruence.
          rewrite HO in CU. inversion CU; subst o'. fold e in WVx. rewrite WV in WVx. subst x sl0.
          destruct PP as [PP|[(j' & PP & LJ')|[(j' & PP & _)|[(j' & c & PP & _)|(j' & sl1 & PP & _)]]]]; try congruence.
          rewrite E in PP. inversion PP; subst j'. right. left. apply WTk; auto.
        + intros sl0 x t tht N1 N2 NT HTt PKt. unfold X in N2. rewrite PUBV in N2. destruct (Nat.eqb sl0 sl) eqn:BQ; [|congruence].
          apply Nat.eqb_eq in BQ. subst sl0 x. apply (VCk t tht); auto. }
    destruct (is_single o) eqn:SI.
    + destruct (fwake (oflags o)) eqn:FW; [destruct (xchg_no_waiter _) eqn:XN|]; inv H.
      * destruct (end_segment_calm (set_slot s sl {| ver := e + 1; wf := false; pay := pay (get_slot s sl); own := None |}) w th o) as (th' & -> & CA & _).
        destruct (CALMF th' CA) as (A1 & A2 & A3). apply PUB; auto. intros; discriminate.
        intros t tht _ _ _. right. right. unfold slot_word in XN. rewrite word16_flag_x in XN. unfold gwf. fold sl in XN. destruct (wf (get_slot s sl)); auto; discriminate.
      * apply PUB; try (intros; discriminate). intros j0 c; split; discriminate. intros S; destruct S.
        intros t tht _ _ _. left. left. reflexivity.
      * destruct (end_segment_calm (set_slot s sl {| ver := e + 1; wf := wf (get_slot s sl); pay := pay (get_slot s sl); own := None |}) w th o) as (th' & -> & CA & _).
        destruct (CALMF th' CA) as (A1 & A2 & A3). apply PUB; auto. intros; discriminate.
        intros t tht _ HTt PKt. pose proof (USAGE t tht HTt PKt). congruence.
    + destruct (Nat.ltb (S j) (seg_n (lc th))) eqn:LT2; inv H.
      * apply PUB; try (intros; discriminate). intros j0 c; split; discriminate. intros S; destruct S.
        -- intros _ FW j0 LJ. apply WIN; auto. lia. right. exists (S j). split; auto.
        -- intros t tht _ HTt PKt. pose proof (USAGE t tht HTt PKt) as FW. right. left. apply WIN; auto. right. exists (S j). split; auto.
      * unfold after_pubs. destruct (fwake (oflags o)) eqn:FW.
        -- apply PUB; try (intros; discriminate). intros j0 c; split; discriminate. intros S; destruct S.
           ++ intros _ _ j0 LJ. apply WIN; auto. lia.
           ++ intros t tht _ HTt PKt. right. left. apply WIN; auto.
        -- destruct (end_segment_calm (set_slot s sl {| ver := e + 1; wf := wf (get_slot s sl); pay := pay (get_slot s sl); own := None |}) w th o) as (th' & -> & CA & _).
           destruct (CALMF th' CA) as (A1 & A2 & A3). apply PUB; auto. intros _ F; discriminate.
           intros t tht _ HTt PKt. pose proof (USAGE t tht HTt PKt). congruence.
  - (* PubWake *)
    inv H. destruct (end_segment_calm (wake_all s sl) w th o) as (th' & -> & CA & _). destruct (CALMF th' CA) as (A1 & A2 & A3).
    apply WK; [right; exists sl; reflexivity | reflexivity | intros; reflexivity | exact A1 | exact A2 | exact A3 | | ].
    + intros sl0 [C|[j0 C]]; try congruence. rewrite E in C. inversion C; subst. reflexivity.
    + intros sl0 x [[C|[j0 C]]|W] _; try congruence.
      * rewrite E in C. inversion C; subst. right; right; right. reflexivity.
      * destruct (WINV _ _ W) as (j0 & _ & _ & _ & _ & _ & PP).
        destruct PP as [PP|[(j' & PP & _)|[(j' & PP & _)|[(j' & c & PP & _)|(j' & sl1 & PP & _)]]]]; congruence.
  - (* FenceSC *)
    destruct (Nat.ltb 0 (seg_n (lc th))) eqn:LT0; inv H.
    + apply WK; [exact TS | reflexivity | intros; reflexivity | intros; discriminate | intros j00 c00; split; discriminate | intros S; destruct S | | ].
      * intros sl0 [C|[j0 C]]; congruence.
      * intros sl0 x [[C|[j0 C]]|W] _; try congruence. destruct (WINV _ _ W) as (j0 & FW & SI & LJ & SS & WVx & _). subst sl0.
        right. left. apply WINK; auto. right; right; left. exists 0%nat. split; auto. lia.
    + apply Nat.ltb_ge in LT0. destruct (end_segment_calm s w th o) as (th' & -> & CA & _). destruct (CALMF th' CA) as (A1 & A2 & A3).
      apply WK; [exact TS | reflexivity | intros; reflexivity | exact A1 | exact A2 | exact A3 | | ].
      * intros sl0 [C|[j0 C]]; congruence.
      * intros sl0 x [[C|[j0 C]]|W] _; try congruence. destruct (WINV _ _ W) as (j0 & _ & _ & LJ & _). lia.
  - (* WkLoad *)
    set (sl := seg_slot s o (lc th) j) in *.
    assert (NCERT : forall sl0, cert th sl0 -> threads s = map (wake_thread sl0) (threads s)) by (intros sl0 [C|[j0 C]]; congruence).
    assert (NEXT : forall X, X = s -> forall sl0 x, cert th sl0 \/ win s th sl0 x -> gver s sl0 = x ->
              (sl0 = sl -> gwf s sl = false \/ False) -> 
              forall th', (((S j < seg_n (lc th))%nat /\ th' = goto th (WkLoad (S j))) \/ ((seg_n (lc th) <= S j)%nat /\ calm (tpc th'))) ->
              cert th' sl0 \/ win X th' sl0 x \/ gwf s sl0 = false \/ threads X = map (wake_thread sl0) (threads s)).
    { intros X -> sl0 x [[C|[j0 C]]|W] GV0 SAME th' SH; try congruence.
      destruct (WINV _ _ W) as (j0 & FW & SI & LJ & SS & WVx & PP).
      destruct PP as [PP|[(j' & PP & _)|[(j' & PP & LE)|[(j' & c & PP & _)|(j' & sl1 & PP & _)]]]]; try congruence.
      rewrite E in PP. inversion PP; subst j'. destruct (Nat.eq_dec j j0) as [->|NJ].
      - subst sl0. destruct (SAME eq_refl) as [G|[]]. auto.
      - destruct SH as [[LT1 ->]|[LT1 _]]; [|lia]. subst sl0. right. left. apply WINK; auto. right; right; left. exists (S j). split; auto. lia. }
    destruct (wakeup_no_waiter _) eqn:NWB; [|destruct (wakeup_moved_on _ _) eqn:MV]; inv H.
    + destruct (NWS s j) as (th' & -> & SH).
      assert (TP : (forall j0 sl0, tpc th' <> WParked j0 sl0) /\ (forall j0 c, tpc th' <> WCas j0 c /\ tpc th' <> WFutex j0 c) /\ ~ S4 (tpc th')).
      { destruct SH as [[_ ->]|[_ CA]]; [|apply CALMF; auto]. split; [|split]; try (intros; discriminate). intros; split; discriminate. intros S; destruct S. }
      destruct TP as (A1 & A2 & A3). apply WK; [exact TS | reflexivity | intros; reflexivity | exact A1 | exact A2 | exact A3 | exact NCERT | ].
      intros sl0 x W GV0. apply (NEXT s eq_refl sl0 x W GV0); auto. intros _. left. unfold slot_word in NWB. rewrite word16_flag_w in NWB.
      unfold gwf. fold sl in NWB. destruct (wf (get_slot s sl)); auto; discriminate.
    + destruct (NWS s j) as (th' & -> & SH).
      assert (TP : (forall j0 sl0, tpc th' <> WParked j0 sl0) /\ (forall j0 c, tpc th' <> WCas j0 c /\ tpc th' <> WFutex j0 c) /\ ~ S4 (tpc th')).
      { destruct SH as [[_ ->]|[_ CA]]; [|apply CALMF; auto]. split; [|split]; try (intros; discriminate). intros; split; discriminate. intros S; destruct S. }
      destruct TP as (A1 & A2 & A3). apply WK; [exact TS | reflexivity | intros; reflexivity | exact A1 | exact A2 | exact A3 | exact NCERT | ].
      intros sl0 x W GV0. destruct W as [[C|[j0 C]]|W]; try congruence.
      destruct (WINV _ _ W) as (j0 & FW & SI & LJ & SS & WVx & PP).
      destruct PP as [PP|[(j' & PP & _)|[(j' & PP & LE)|[(j' & c & PP & _)|(j' & sl1 & PP & _)]]]]; try congruence.
      rewrite E in PP. inversion PP; subst j'. destruct (Nat.eq_dec j j0) as [->|NJ].
      * exfalso. subst sl0. unfold wakeup_moved_on in MV. fold sl in GV0. unfold gver in GV0. rewrite GV0, WVx, Z.eqb_refl in MV. discriminate.
      * destruct SH as [[LT1 ->]|[LT1 _]]; [|lia]. subst sl0. right. left. apply WINK; auto. right; right; left. exists (S j). split; auto. lia.
    + apply WK; [exact TS | reflexivity | intros; reflexivity | intros; discriminate | intros j00 c00; split; discriminate | intros S; destruct S | exact NCERT | ].
      intros sl0 x W GV0. destruct W as [[C|[j0 C]]|W]; try congruence.
      destruct (WINV _ _ W) as (j0 & FW & SI & LJ & SS & WVx & PP).
      destruct PP as [PP|[(j' & PP & _)|[(j' & PP & LE)|[(j' & c & PP & _)|(j' & sl1 & PP & _)]]]]; try congruence.
      rewrite E in PP. inversion PP; subst j'. subst sl0. right. left. apply WINK; auto.
      right; right; right; left. exists j, (ver (get_slot s sl)). split; auto. split; auto. intros ->. exact GV0.
  - (* WkCas *)
    set (sl := seg_slot s o (lc th) j) in *.
    destruct (Z.eqb _ _) eqn:EQ; inv H.
    + apply WK; [left; reflexivity | reflexivity | intros; apply gver_setwf | intros; discriminate | intros j00 c00; split; discriminate | intros S; destruct S | | ].
      * intros sl0 [C|[j0 C]]; congruence.
      * intros sl0 x W GV0. destruct W as [[C|[j0 C]]|W]; try congruence.
        destruct (WINV _ _ W) as (j0 & FW & SI & LJ & SS & WVx & PP).
        destruct PP as [PP|[(j' & PP & _)|[(j' & PP & _)|[(j' & c0 & PP & LE & TIE)|(j' & sl1 & PP & _)]]]]; try congruence.
        rewrite E in PP. inversion PP; subst j' c0. destruct (Nat.eq_dec j j0) as [->|NJ].
        -- left. right. exists j0. subst sl0. reflexivity.
        -- subst sl0. right. left. apply WINK; auto. right; right; right; right. exists j, sl. split; auto. lia.
    + destruct (NWS s j) as (th' & -> & SH).
      assert (TP : (forall j0 sl0, tpc th' <> WParked j0 sl0) /\ (forall j0 c, tpc th' <> WCas j0 c /\ tpc th' <> WFutex j0 c) /\ ~ S4 (tpc th')).
      { destruct SH as [[_ ->]|[_ CA]]; [|apply CALMF; auto]. split; [|split]; try (intros; discriminate). intros; split; discriminate. intros S; destruct S. }
      destruct TP as (A1 & A2 & A3). apply WK; [exact TS | reflexivity | intros; reflexivity | exact A1 | exact A2 | exact A3 | | ].
      * intros sl0 [C|[j0 C]]; congruence.
      * intros sl0 x W GV0. destruct W as [[C|[j0 C]]|W]; try congruence.
        destruct (WINV _ _ W) as (j0 & FW & SI & LJ & SS & WVx & PP).
        destruct PP as [PP|[(j' & PP & _)|[(j' & PP & _)|[(j' & c0 & PP & LE & TIE)|(j' & sl1 & PP & _)]]]]; try congruence.
        rewrite E in PP. inversion PP; subst j' c0. destruct (Nat.eq_dec j j0) as [->|NJ].
        -- right; right; left. subst sl0. specialize (TIE eq_refl). apply Z.eqb_neq in EQ. unfold gwf. fold sl. fold sl in GV0. unfold gver in GV0.
           destruct (wf (get_slot s sl)) eqn:WF; auto. exfalso. apply EQ. unfold slot_word. rewrite WF, GV0, TIE. reflexivity.
        -- destruct SH as [[LT1 ->]|[LT1 _]]; [|lia]. subst sl0. right. left. apply WINK; auto. right; right; left. exists (S j). split; auto. lia.
  - (* WkWake *)
    inv H. destruct (NWS (wake_all s sl) j) as (th' & -> & SH).
    assert (TP : (forall j0 sl0, tpc th' <> WParked j0 sl0) /\ (forall j0 c, tpc th' <> WCas j0 c /\ tpc th' <> WFutex j0 c) /\ ~ S4 (tpc th')).
    { destruct SH as [[_ ->]|[_ CA]]; [|apply CALMF; auto]. split; [|split]; try (intros; discriminate). intros; split; discriminate. intros S; destruct S. }
    destruct TP as (A1 & A2 & A3). apply WK; [right; exists sl; reflexivity | reflexivity | intros; reflexivity | exact A1 | exact A2 | exact A3 | | ].
    + intros sl0 [C|[j0 C]]; try congruence. rewrite E in C. inversion C; subst. reflexivity.
    + intros sl0 x [[C|[j0 C]]|W] _; try congruence.
      * rewrite E in C. inversion C; subst. right; right; right. reflexivity.
      * destruct (WINV _ _ W) as (j0 & FW & SI & LJ & SS & WVx & PP).
        destruct PP as [PP|[(j' & PP & _)|[(j' & PP & _)|[(j' & c0 & PP & _)|(j' & sl1 & PP & LE)]]]]; try congruence.
        rewrite E in PP. inversion PP; subst j' sl1. destruct SH as [[LT1 ->]|[LT1 _]]; [|lia]. subst sl0. right. left. apply WINK; auto.
        right; right; left. exists (S j). split; auto.
  - (* TryVer *)
    assert (NW : ~ witpc (tpc th)) by (rewrite E; exact (fun x => x)).
    destruct (try_deal_not_ready _ _); inv H; (apply CALM; [exact TS | reflexivity | intros; reflexivity | exact NW | exact I]).
  - (* TryReidx *)
    assert (NW : ~ witpc (tpc th)) by (rewrite E; exact (fun x => x)).
    destruct (try_deal_same_index _ _); inv H; (apply CALM; [exact TS | reflexivity | intros; reflexivity | exact NW | exact I]).
  - (* TryCas *)
    assert (NW : ~ witpc (tpc th)) by (rewrite E; exact (fun x => x)).
    destruct (oconc o && negb (next_of s (is_push o) =? i)); inv H.
    + apply CALM; [exact TS | reflexivity | intros; reflexivity | exact NW | exact I].
    + apply CALM; [left; reflexivity | reflexivity | intros; reflexivity | exact NW | exact I].
  - (* TnVer *)
    assert (NW : ~ witpc (tpc th)) by (rewrite E; exact (fun x => x)).
    destruct (try_deal_n_not_ready _ _); [destruct (try_deal_n_none _)|destruct (Nat.ltb (S j) (seg_n (lc th)))]; inv H.
    + unfold end_segment_zero. apply ES; [exact TS | reflexivity | intros; reflexivity | exact NW].
    + apply CALM; [exact TS | reflexivity | intros; reflexivity | exact NW | exact I].
    + apply CALM; [exact TS | reflexivity | intros; reflexivity | exact NW | exact I].
    + apply CALM; [exact TS | reflexivity | intros; reflexivity | exact NW | exact I].
  - (* TnCas *)
    assert (NW : ~ witpc (tpc th)) by (rewrite E; exact (fun x => x)).
    destruct (try_deal_n_none _); [|destruct (match o with OPopUntil _ _ _ => false | _ => conc (oflags o) end); [destruct (Z.eqb _ _)|]]; inv H.
    + unfold end_segment_zero. apply ES; [exact TS | reflexivity | intros; reflexivity | exact NW].
    + apply CALM; [left; reflexivity | reflexivity | intros; reflexivity | exact NW | exact I].
    + unfold end_segment_zero. apply ES; [exact TS | reflexivity | intros; reflexivity | exact NW].
    + apply CALM; [left; reflexivity | reflexivity | intros; reflexivity | exact NW | exact I].
  - (* TnIdx *)
    assert (NW : ~ witpc (tpc th)) by (rewrite E; exact (fun x => x)).
    destruct (split _ _ _ _) as [[i1 n1] r]. inv H. apply CALM; [exact TS | reflexivity | intros; reflexivity | exact NW | destruct (Nat.ltb 0 n1); exact I].
Qed.

(* ---------------- the reachability theorem ---------------- *)
Definition WInv (s : st) : Prop := small s -> R2 s /\ R4 s /\ V0 s /\ Q s.

Lemma WInv_init : forall k progs, WInv (init k progs).
Proof.
  intros k progs _.
  assert (PC : forall u thu, nth_error (threads (init k progs)) u = Some thu -> tpc thu = Idle).
  { intros u thu H. cbn in H. rewrite nth_error_map in H. destruct (nth_error progs u); inversion H. reflexivity. }
  split; [|split; [|split]].
  - intros u thu o j c H _ [E|E]; rewrite (PC _ _ H) in E; discriminate.
  - intros u thu o H _ S. rewrite (PC _ _ H) in S. destruct S.
  - intros sl. unfold gver, get_slot. cbn. rewrite nth_repeat_slot. cbn. lia.
  - intros t th sl x H (o & j & _ & E & _). rewrite (PC _ _ H) in E. discriminate.
Qed.

Lemma WInv_step : forall k progs s t s', usage_ok k progs = true -> FInv k progs s -> Reach k progs s -> WInv s ->
  step s t = Some s' -> WInv s'.
Proof.
  intros k progs s t s' U FI RS WI H SM'.
  pose proof (ver_mono k progs s t s' U FI H) as MO.
  assert (SM : small s) by (intros sl; specialize (MO sl); specialize (SM' sl); lia).
  destruct (WI SM) as (R2s & R4s & V0s & Qs).
  assert (V0' : V0 s') by (intros sl; specialize (MO sl); specialize (V0s sl); lia).
  pose proof H as H0. apply step_inv in H0 as [(th & o & HT & HO & HS)|[HN ->]].
  - destruct (W_step k progs s t th o s' U FI RS R2s R4s V0s SM Qs HT HO HS) as (A & B & D). auto.
  - split; [|split; [|split]]; auto.
Qed.

Definition waker_on_its_way (s : st) (sl : nat) (x : Z) : Prop :=
  exists u thu, nth_error (threads s) u = Some thu /\ (cert thu sl \/ win s thu sl x).

Theorem bq_no_lost_wakeup : forall k progs s, usage_ok k progs = true -> Reach k progs s -> small s ->
  forall t th sl x, nth_error (threads s) t = Some th -> parkedOn s th sl x -> ver (get_slot s sl) = x ->
  waker_on_its_way s sl x.
Proof.
  intros k progs s U R SM.
  assert (J : FInv k progs s /\ Reach k progs s /\ WInv s).
  { eapply inv_reachable with (Inv := fun s0 => FInv k progs s0 /\ Reach k progs s0 /\ WInv s0); eauto.
    - split. apply FInv_init. split. exists []. reflexivity. apply WInv_init.
    - intros s0 t0 s1 (F0 & R0 & W0) ST. split. eapply FInv_step; eauto. split. eapply reachable_step; eauto.
      eapply WInv_step; eauto. }
  destruct J as (_ & _ & WI). destruct (WI SM) as (_ & _ & _ & Qs). intros t th sl x HT PK GV. apply (Qs t th sl x HT PK GV).
Qed.

(* a sleeper sleeps on the slot it waits for *)
Theorem bq_parked_slot : forall k progs s, usage_ok k progs = true -> Reach k progs s -> small s ->
  forall u thu o j sl, nth_error (threads s) u = Some thu -> cur thu = Some o -> tpc thu = WParked j sl ->
  ofwait o = true /\ parkedOn s thu sl (snd (wait_target s o (lc thu) j)) /\ (forall sl0, 0 <= gver s sl0).
Proof.
  intros k progs s U R SM.
  assert (J : FInv k progs s /\ Reach k progs s /\ WInv s).
  { eapply inv_reachable with (Inv := fun s0 => FInv k progs s0 /\ Reach k progs s0 /\ WInv s0); eauto.
    - split. apply FInv_init. split. exists []. reflexivity. apply WInv_init.
    - intros s0 t0 s1 (F0 & R0 & W0) ST. split. eapply FInv_step; eauto. split. eapply reachable_step; eauto.
      eapply WInv_step; eauto. }
  destruct J as (_ & _ & WI). destruct (WI SM) as (_ & R4s & V0s & _). intros u thu o j sl HU CU PC.
  destruct (R4s u thu o HU CU) as [A B]. rewrite PC. exact I. split; auto. split; auto.
  exists o, j. split; auto. split; auto. specialize (B j sl PC). destruct (wait_target s o (lc thu) j) as [a b]. cbn in *. congruence.
Qed.
