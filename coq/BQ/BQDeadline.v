(* Deadline theorems over BQDeadlineModel: whatever the kernel and the other threads do (any number of spurious or
   genuine wake-ups at any times), a timed SlotFutex wait leaves no later than begin + timeout + one scheduling delay
   (futex flavour) resp. begin + timeout + one sleep quantum + one scheduling delay (spin flavour). *)
From Coq Require Import ZArith List Bool Lia.
Require Import Verif.Gen.Gen_bounded_queue Verif.BQ.BQDeadlineModel.
Import ListNotations.
Local Open Scope Z_scope.

(* what the proofs need from the source (each breaks when the corresponding statement is edited) *)
Lemma gen_refresh_from_current : block_refresh_from_current = 1.  Proof. reflexivity. Qed.
Lemma gen_refresh_stored : block_refresh_stored = 1.  Proof. reflexivity. Qed.
Lemma gen_begin_samples : block_begin_samples = 1.  Proof. reflexivity. Qed.
Lemma gen_timedout_leaves : block_timedout_leaves = 1.  Proof. reflexivity. Qed.
Lemma gen_elapsed : forall b e, block_elapsed b e = e - b.  Proof. reflexivity. Qed.
Lemma gen_expired : forall d, block_expired d = (d <=? 0).  Proof. reflexivity. Qed.
Lemma gen_spin_deadline : forall b t, spin_deadline b t = b + t.  Proof. reflexivity. Qed.
Lemma gen_spin_expired : forall t e, spin_expired t e = (t >? e).  Proof. reflexivity. Qed.
Lemma gen_spin_quantum : 0 <= spin_quantum_us.  Proof. unfold spin_quantum_us. lia. Qed.

Lemma block_step_cases : forall orig begin cur w,
  block_step orig begin cur w =
  match w with
  | TimedOut e => inl e
  | Woken e true => inl e
  | Woken e false => if cur - (e - begin) <=? 0 then inl e else inr (begin, cur - (e - begin))
  end.
Proof.
  (* every regenerated flag / formula is unfolded by conversion: an edit of the source makes this fail *)
  intros. destruct w as [e | e [|]]; reflexivity.
Qed.

(* invariant of the loop: the current timeout is positive, never longer than the original one, and the wait that is
   about to be entered ends (without delay) no later than the original deadline *)
Lemma block_loop_deadline : forall delay orig begin evs cur start x,
  0 <= delay -> begin <= start -> 0 < cur <= orig -> start + cur <= begin + orig ->
  block_env delay orig begin cur start evs ->
  block_loop orig begin cur evs = Some x ->
  start <= x <= begin + orig + delay.
Proof.
  intros delay orig begin evs. induction evs as [|w rest IH]; intros cur start x Hd Hb Hc Hs Henv Hrun.
  - discriminate.
  - cbn [block_loop block_env] in *. destruct Henv as [[Hev Hto] Hrest].
    rewrite block_step_cases in *. rewrite Z.max_l in Hev by lia.
    destruct w as [e | e [|]]; cbn [wake_time] in *.
    + inversion Hrun; subst. lia.
    + inversion Hrun; subst. lia.
    + destruct (cur - (e - begin) <=? 0) eqn:E.
      * inversion Hrun; subst. lia.
      * apply Z.leb_gt in E.
        assert (e <= x <= begin + orig + delay) as Hx by (apply (IH (cur - (e - begin)) e x); auto; lia).
        lia.
Qed.

Theorem block_deadline : forall delay begin timeout evs x,
  0 <= delay -> 0 < timeout ->
  block_env delay timeout begin timeout begin evs ->
  block_loop timeout begin timeout evs = Some x ->
  begin <= x <= begin + timeout + delay.
Proof. intros. eapply block_loop_deadline; eauto; lia. Qed.

(* a timeout that is already zero or negative: the kernel reports ETIMEDOUT at once (at most `delay` later) or, if
   the version has moved on / a wake-up arrives first, the refresh finds nothing left *)
Theorem block_deadline_nonpositive : forall delay begin timeout evs x,
  0 <= delay -> timeout <= 0 ->
  block_env delay timeout begin timeout begin evs ->
  block_loop timeout begin timeout evs = Some x ->
  begin <= x <= begin + delay.
Proof.
  intros delay begin timeout evs x Hd Ht Henv Hrun. destruct evs as [|w rest]; [discriminate|].
  cbn [block_loop block_env] in *. destruct Henv as [[Hev _] _]. rewrite block_step_cases in *.
  rewrite Z.max_r in Hev by lia.
  destruct w as [e | e [|]]; cbn [wake_time] in *; try (inversion Hrun; subst; lia).
  destruct (timeout - (e - begin) <=? 0) eqn:E; [inversion Hrun; subst; lia | apply Z.leb_gt in E; lia].
Qed.

(* the wait cannot go on for ever either: once the events cover the deadline the call has left *)
Lemma block_loop_leaves : forall delay orig begin evs cur start,
  0 <= delay -> begin <= start -> 0 < cur <= orig -> start + cur <= begin + orig ->
  block_env delay orig begin cur start evs ->
  block_loop orig begin cur evs = None ->
  forall w, In w evs -> wake_time w < begin + orig.
Proof.
  intros delay orig begin evs. induction evs as [|w rest IH]; intros cur start Hd Hb Hc Hs Henv Hrun w' Hin.
  - destruct Hin.
  - cbn [block_loop block_env] in *. destruct Henv as [[Hev Hto] Hrest]. rewrite block_step_cases in *.
    destruct w as [e | e [|]]; cbn [wake_time] in *; try discriminate.
    destruct (cur - (e - begin) <=? 0) eqn:E; [discriminate|]. apply Z.leb_gt in E.
    destruct Hin as [<- | Hin]; [cbn [wake_time]; lia|].
    apply (IH (cur - (e - begin)) e); auto; lia.
Qed.

Theorem block_still_waiting_before_deadline : forall delay begin timeout evs w,
  0 <= delay -> 0 < timeout ->
  block_env delay timeout begin timeout begin evs ->
  block_loop timeout begin timeout evs = None ->
  In w evs -> wake_time w < begin + timeout.
Proof. intros. eapply block_loop_leaves; eauto; lia. Qed.

(* ---- spin flavour ---- *)
Lemma spin_loop_deadline : forall delay endt evs start x,
  0 <= delay -> start <= endt ->
  spin_env delay start evs -> spin_loop endt evs = Some x ->
  start <= x <= endt + spin_quantum_us * 1000 + delay.
Proof.
  intros delay endt evs. induction evs as [|[t r] rest IH]; intros start x Hd Hs Henv Hrun.
  - discriminate.
  - cbn [spin_loop spin_env] in *. destruct Henv as [Ht Hrest]. destruct r.
    + inversion Hrun; subst. lia.
    + rewrite gen_spin_expired in Hrun. destruct (t >? endt) eqn:E.
      * inversion Hrun; subst. lia.
      * assert (t <= endt) by (destruct (Z.gtb_spec t endt); [discriminate | lia]).
        assert (t <= x <= endt + spin_quantum_us * 1000 + delay) by (apply (IH t x); auto). lia.
Qed.

Theorem spin_deadline_bound : forall delay begin timeout evs x,
  0 <= delay -> 0 <= timeout ->
  spin_env delay begin evs -> spin_loop (spin_deadline begin timeout) evs = Some x ->
  begin <= x <= begin + timeout + spin_quantum_us * 1000 + delay.
Proof.
  intros delay begin timeout evs x Hd Ht Henv Hrun. rewrite gen_spin_deadline in Hrun.
  pose proof (spin_loop_deadline delay (begin + timeout) evs begin x Hd ltac:(lia) Henv Hrun). lia.
Qed.

(* ---- observations on concrete event lists (not findings: the property only bounds the return from above) ---- *)
(* the refresh subtracts the time since `begin` from the ALREADY shortened timeout, so after two wake-ups that did not
   bring the version the call can leave before its deadline: timeout 100, woken at 40 and 70 -> leaves at 70 *)
Example block_early_after_two_wakeups :
  block_env 0 100 0 100 0 [Woken 40 false; Woken 70 false] /\
  block_loop 100 0 100 [Woken 40 false; Woken 70 false] = Some 70.
Proof. vm_compute. repeat split; discriminate. Qed.
(* the hypotheses of block_deadline are satisfiable with a run that does wait again and does end *)
Example block_deadline_nonvacuous :
  block_env 5 100 0 100 0 [Woken 40 false; TimedOut 103] /\
  block_loop 100 0 100 [Woken 40 false; TimedOut 103] = Some 103.
Proof. vm_compute. repeat split; discriminate. Qed.
Example spin_deadline_nonvacuous :
  spin_env 5 0 [(1000002, false); (2000004, false); (3000009, true)] /\
  spin_loop (spin_deadline 0 2000000) [(1000002, false); (2000004, false); (3000009, true)] = Some 2000004.
Proof. vm_compute. repeat split; discriminate. Qed.
