(* Justified try_ failures for BQModel (C01). *)
From Coq Require Import ZArith List Bool Lia.
Require Import Verif.Base.Atomics Verif.Gen.Gen_bounded_queue Verif.Conc.Machine Verif.BQ.BQModel Verif.BQ.BQProofs.
Require Import Verif.BQ.BQInvDefs Verif.BQ.BQInvStep Verif.BQ.BQInvMain Verif.BQ.BQInvThm Verif.BQ.BQWake Verif.BQ.BQFifo.
Import ListNotations.
Local Open Scope Z_scope.

(* a finished try_ call that dealt fewer elements than requested carries a justification *)
Definition J (o : op) (r : res) : Prop :=
  (okind o = KTry \/ okind o = KTryN) -> (r_cnt r < onum o)%nat -> r_full r = true \/ r_over r = true.
(* what a try_ call in progress knows *)
Definition K (s : st) (th : thread) (o : op) : Prop :=
  match okind o with
  | KTry => cnt (lc th) = 0%nat /\ (forall i, tpc th = TryReidx i -> next_of s (is_push o) = i -> jfull (lc th) = true)
  | KTryN => tpc th = Idle \/ jfull (lc th) = true \/ jover (lc th) = true \/
             (seg_n (lc th) = seg_req (lc th) /\ (cnt (lc th) + seg_n (lc th) + restn (lc th) = onum o)%nat)
  | _ => True
  end.
Definition TJ (s : st) (th : thread) : Prop :=
  length (results th) = opi th /\ (tpc th = Idle -> lc th = loc0) /\
  (forall i o r, nth_error (prog th) i = Some o -> nth_error (results th) i = Some r -> J o r) /\
  (forall o, cur th = Some o -> K s th o) /\ (cur th = None -> tpc th = Idle).

Lemma TJ_wake : forall s sl th, TJ s th -> TJ s (wake_thread sl th).
Proof.
  intros s sl th T. unfold wake_thread. destruct (tpc th) eqn:E; auto. destruct (Nat.eqb sl sl0); auto.
  destruct T as (A & B & D & F & G). split; [exact A|split; [intros; discriminate|split; [exact D|split]]].
  - intros o CU. specialize (F o CU). unfold K in *. cbn. destruct (okind o); auto.
    + destruct F as (F1 & F2). split; auto. intros; discriminate.
    + destruct F as [F|F]; auto. congruence.
  - intros CU. specialize (G CU). congruence.
Qed.

(* K only looks at the ticket counter of the call's side *)
Lemma TJ_next : forall s X th, (forall r, next_of s r <= next_of X r) ->
  (forall o i, cur th = Some o -> tpc th = TryReidx i -> i <= next_of s (is_push o)) -> TJ s th -> TJ X th.
Proof.
  intros s X th MO LE (A & B & D & F & G). split; [exact A|split; [exact B|split; [exact D|split; [|exact G]]]].
  intros o CU. specialize (F o CU). unfold K in *. destruct (okind o); auto. destruct F as (F1 & F2). split; auto.
  intros i PC NX. apply (F2 i PC). specialize (LE o i CU PC). specialize (MO (is_push o)). lia.
Qed.

Section TS.
Variables (s : st) (t : nat) (th : thread) (o : op).
Hypothesis HT : nth_error (threads s) t = Some th.
Hypothesis HO : cur th = Some o.
Hypothesis TJs : forall u thu, nth_error (threads s) u = Some thu -> TJ s thu.
Hypothesis LEs : forall u thu ou i, nth_error (threads s) u = Some thu -> cur thu = Some ou -> tpc thu = TryReidx i -> i <= next_of s (is_push ou).

Lemma TJ_frame : forall X th', thr_ok2 s X -> (forall r, next_of s r <= next_of X r) -> TJ X th' ->
  forall u thu', nth_error (threads (upd X t th')) u = Some thu' -> TJ (upd X t th') thu'.
Proof.
  intros X th' TH MO T' u thu' H. destruct (Nat.eq_dec u t) as [->|N].
  - rewrite (nth_w s t th HT X th' TH) in H. inversion H; subst. exact T'.
  - destruct (nth_bw s t X th' u thu' TH N H) as (thu & H0 & [->|(sl0 & _ & ->)]).
    + apply (TJ_next s). exact MO. intros; eapply LEs; eauto. apply TJs with u; auto.
    + apply TJ_wake. apply (TJ_next s). exact MO. intros; eapply LEs; eauto. apply TJs with u; auto.
Qed.

(* the stepping thread stays in the same call *)
Definition keepK (l l' : loc) : Prop :=
  cnt l' = cnt l /\ seg_n l' = seg_n l /\ seg_req l' = seg_req l /\ rest l' = rest l /\
  (jfull l = true -> jfull l' = true) /\ (jover l = true -> jover l' = true).
Lemma keepK_refl : forall l, keepK l l.
Proof. intros. repeat split; auto. Qed.

Lemma TJ_goto : forall X p l, p <> Idle -> tpc th <> Idle -> keepK (lc th) l ->
  (okind o = KTry -> forall i, p = TryReidx i -> next_of X (is_push o) = i -> jfull l = true) ->
  TJ X (goto_lc th p l).
Proof.
  intros X p l NI NI0 (E1 & E2 & E3 & E4 & E5 & E6) RE. destruct (TJs t th HT) as (A & B & D & F & G).
  split; [exact A|split; [intros PC; cbn in PC; congruence|split; [exact D|split; [|intros CU; unfold cur in *; cbn in CU; congruence]]]].
  intros o' CU. unfold cur in *. cbn in CU. rewrite HO in CU. inversion CU; subst o'. specialize (F o HO). unfold K, restn in *. cbn.
  destruct (okind o) eqn:KO; auto.
  - destruct F as (F1 & F2). split. congruence. intros i PC. apply RE; auto.
  - right. destruct F as [F|[F|[F|F]]]; [congruence | auto | auto | rewrite E1, E2, E3, E4; auto].
Qed.

Lemma TJ_finish : forall X th1 r, prog th1 = prog th -> opi th1 = opi th -> results th1 = results th -> J o r ->
  TJ X (finish_op th1 r).
Proof.
  intros X th1 r P1 P2 P3 JR. destruct (TJs t th HT) as (A & B & D & F & G).
  split; [|split; [|split; [|split; [|intros; reflexivity]]]].
  - cbn. rewrite app_length, P3, A, P2. cbn. lia.
  - intros _. reflexivity.
  - intros i o' r' Hp Hr. cbn in Hp, Hr. rewrite P1 in Hp. rewrite P3 in Hr.
    destruct (Nat.lt_ge_cases i (length (results th))) as [LT|GE].
    + rewrite nth_error_app1 in Hr by auto. eapply D; eauto.
    + rewrite nth_error_app2 in Hr by auto. destruct (i - length (results th))%nat eqn:EI; [|destruct n; discriminate].
      cbn in Hr. inversion Hr; subst r'. assert (i = opi th) by lia. subst i. unfold cur in HO. rewrite HO in Hp. inversion Hp; subst. exact JR.
  - intros o' CU. unfold K. cbn. destruct (okind o'); auto. split; auto. intros; discriminate.
Qed.

Definition Kloc (l : loc) : Prop :=
  match okind o with
  | KTry => cnt l = 0%nat /\ seg_n l = 1%nat
  | KTryN => jfull l = true \/ jover l = true \/ (seg_n l = seg_req l /\ (cnt l + seg_n l + restn l = onum o)%nat)
  | _ => True
  end.

Lemma TJ_mk : forall X th', prog th' = prog th -> opi th' = opi th -> results th' = results th -> tpc th' <> Idle ->
  (okind o = KTry -> cnt (lc th') = 0%nat /\ (forall i, tpc th' = TryReidx i -> next_of X (is_push o) = i -> jfull (lc th') = true)) ->
  (okind o = KTryN -> jfull (lc th') = true \/ jover (lc th') = true \/
       (seg_n (lc th') = seg_req (lc th') /\ (cnt (lc th') + seg_n (lc th') + restn (lc th') = onum o)%nat)) ->
  TJ X th'.
Proof.
  intros X th' P1 P2 P3 NI KT KN. destruct (TJs t th HT) as (A & B & D & F & G).
  split; [rewrite P3, P2; exact A|split; [intros PC; congruence|split; [rewrite P1, P3; exact D|split; [|intros CU; unfold cur in *; rewrite P1, P2 in CU; congruence]]]].
  intros o' CU. unfold cur in *. rewrite P1, P2, HO in CU. inversion CU; subst o'. unfold K.
  destruct (okind o) eqn:KO; auto.
Qed.

Lemma onum_try : okind o = KTry -> onum o = 1%nat.
Proof. destruct o; cbn; intros; try discriminate; auto. Qed.

Lemma TJ_end_segment : forall X th1, prog th1 = prog th -> opi th1 = opi th -> results th1 = results th -> Kloc (lc th1) ->
  exists th', end_segment X t th1 o = upd X t th' /\ TJ X th'.
Proof.
  intros X th1 P1 P2 P3 KL. unfold end_segment. set (l := add_cnt (lc th1)).
  assert (F : cnt l = (cnt (lc th1) + seg_n (lc th1))%nat /\ seg_n l = seg_n (lc th1) /\ seg_req l = seg_req (lc th1) /\ rest l = rest (lc th1) /\
              jfull l = jfull (lc th1) /\ jover l = jover (lc th1)) by (repeat split).
  destruct F as (F1 & F2 & F3 & F4 & F5 & F6).
  assert (FIN : TJ X (finish_op th1 (mk_res l (cnt l))) \/ (okind o = KTryN /\ exists i2 n2, rest (lc th1) = Some (i2, n2) /\ try_short o (seg_n l) (seg_req l) = false)).
  { destruct (okind o) eqn:KO.
    - left. apply TJ_finish; auto. intros [K1|K1]; congruence.
    - left. apply TJ_finish; auto. intros [K1|K1]; congruence.
    - left. apply TJ_finish; auto. intros _ LT. unfold Kloc in KL. rewrite KO in KL. destruct KL as (K1 & K2). pose proof (onum_try KO) as ON. cbn in LT. rewrite ?F1 in LT. lia.
    - unfold Kloc in KL. rewrite KO in KL. destruct (rest (lc th1)) as [[i2 n2]|] eqn:ER.
      + destruct (try_short o (seg_n l) (seg_req l)) eqn:SH.
        * left. apply TJ_finish; auto. intros _ LT. cbn. rewrite ?F5, ?F6. destruct KL as [K1|[K1|(K1 & K2)]]; auto.
          rewrite bq_try_n_short in SH. apply Nat.ltb_lt in SH. rewrite F2, F3 in SH. lia.
        * right. split; auto. exists i2, n2. auto.
      + left. apply TJ_finish; auto. intros _ LT. cbn. cbn in LT. rewrite ?F5, ?F6. destruct KL as [K1|[K1|(K1 & K2)]]; auto.
        unfold restn in K2. rewrite ER in K2. rewrite ?F1 in LT. lia.
    - left. apply TJ_finish; auto. intros [K1|K1]; congruence. }
  rewrite F4. destruct (rest (lc th1)) as [[i2 n2]|] eqn:ER.
  - destruct (okind o) eqn:KO.
    + eexists. split. reflexivity. destruct FIN as [FIN|(K1 & _)]; [exact FIN|discriminate].
    + eexists. split. reflexivity. apply TJ_mk; auto.
      * cbn. unfold first_wait. destruct (Nat.ltb _ _); [discriminate|destruct (is_single o); discriminate].
      * intros K1; congruence.
      * intros K1; congruence.
    + eexists. split. reflexivity. destruct FIN as [FIN|(K1 & _)]; [exact FIN|discriminate].
    + destruct (try_short o (seg_n l) (seg_req l)) eqn:SH.
      * eexists. split. reflexivity. destruct FIN as [FIN|(_ & i3 & n3 & _ & SH')]; [exact FIN|congruence].
      * eexists. split. reflexivity. apply TJ_mk; auto.
        -- cbn [tpc goto_lc]. destruct (Nat.ltb 0 n2); discriminate.
        -- intros K1; congruence.
        -- intros _. cbn. unfold Kloc in KL. rewrite KO in KL. rewrite ?F5, ?F6. destruct KL as [K1|[K1|(K1 & K2)]]; auto.
           right; right. split; auto. unfold restn in K2. rewrite ER in K2. cbn. rewrite ?F1. lia.
    + destruct (try_short o (seg_n l) (seg_req l)) eqn:SH.
      * eexists. split. reflexivity. destruct FIN as [FIN|(K1 & _)]; [exact FIN|discriminate].
      * eexists. split. reflexivity. apply TJ_mk; auto.
        -- cbn [tpc goto_lc]. destruct (Nat.ltb 0 n2); discriminate.
        -- intros K1; congruence.
        -- intros K1; congruence.
  - assert (E : (match okind o with KBatch | KTryN | KUntil | _ => upd X t (finish_op th1 (mk_res l (cnt l))) end) = upd X t (finish_op th1 (mk_res l (cnt l)))) by (destruct (okind o); reflexivity).
    exists (finish_op th1 (mk_res l (cnt l))). split. destruct (okind o); reflexivity.
    destruct FIN as [FIN|(_ & i3 & n3 & C & _)]; [exact FIN|discriminate].
Qed.
End TS.

Lemma set_just_flags : forall l a b, (a = true \/ b = true) -> jfull (set_just l a b) = true \/ jover (set_just l a b) = true.
Proof. intros l a b [-> | ->]; cbn; [left|right]; apply orb_true_r. Qed.

Lemma aw_ne : forall o l j, after_wait o l j <> Idle /\ forall i, after_wait o l j <> TryReidx i.
Proof. intros. unfold after_wait. destruct (is_timed o); [|destruct (Nat.ltb _ _); [|destruct (is_single o)]]; split; intros; discriminate. Qed.
Lemma sp_ne : forall o j x w, slow_path o j x w <> Idle /\ forall i, slow_path o j x w <> TryReidx i.
Proof. intros. unfold slow_path. destruct (ofwait o); [destruct (block_no_waiter _)|]; split; intros; discriminate. Qed.
Lemma keepK_time : forall l u b r d, keepK l (set_time l u b r d).
Proof. intros. repeat split; auto. Qed.
Lemma keepK_io : forall l a b, keepK l (set_io l a b).
Proof. intros. repeat split; auto. Qed.
Lemma keepK_tk : forall l, keepK l (add_tk l).
Proof. intros. repeat split; auto. Qed.
Lemma keepK_just : forall l a b, keepK l (set_just l a b).
Proof. intros. repeat split; auto; cbn; intros ->; reflexivity. Qed.

Lemma TJ_step : forall k progs s t s', usage_ok k progs = true -> FInv k progs s ->
  (forall u thu, nth_error (threads s) u = Some thu -> TJ s thu) -> step s t = Some s' ->
  forall u thu', nth_error (threads s') u = Some thu' -> TJ s' thu'.
Proof.
  intros k progs s t s' U FI TJs H.
  destruct (fifo_step k progs s t s' U FI H) as (MO & _).
  destruct FI as (IV & PR & KB).
  assert (LEs : forall u thu ou i, nth_error (threads s) u = Some thu -> cur thu = Some ou -> tpc thu = TryReidx i -> i <= next_of s (is_push ou)).
  { intros u thu ou i HU CU PC. pose proof (thv_t s u thu ou HU CU) as TT. destruct (i_tf _ IV _ _ TT) as (L & _).
    unfold linv in L. cbn [v_ph v_op v_l] in L. rewrite PC in L. cbn [phase_of] in L. lia. }
  apply step_inv in H as [(th & o & HT & HO & HS)|[HN ->]].
  2: { intros u thu' HU. exact (TJs u thu' HU). }
  assert (HO' : cur th = Some o) by exact HO.
  assert (HSZ : Z.of_nat (onum o) <= C s).
  { unfold C. rewrite KB, <- pow_nat_Z. apply inj_le. eapply usage_size; eauto. rewrite <- PR. apply in_map. eapply nth_error_In; eauto. eapply nth_error_In; eauto. }
  pose proof (thv_t s t th o HT HO') as TT. destruct (i_tf _ IV _ _ TT) as (LV & _). unfold linv in LV. cbn [v_ph v_op v_l] in LV.
  destruct (TJs t th HT) as (TA & TB & TD & TF & TG). specialize (TF o HO'). unfold K in TF.
  unfold step_thread in HS. cbv zeta in HS.
  remember (tpc th) as p0 eqn:E in HS. symmetry in E.
  assert (FR : forall X th', thr_ok2 s X -> (forall r, next_of s r <= next_of X r) -> TJ X th' ->
               forall u thu', nth_error (threads (upd X t th')) u = Some thu' -> TJ (upd X t th') thu') by (intros; eapply TJ_frame; eauto).
  assert (TS : thr_ok2 s s) by (left; reflexivity).
  assert (GO : forall X p l, p <> Idle -> tpc th <> Idle -> keepK (lc th) l ->
     (okind o = KTry -> forall i, p = TryReidx i -> next_of X (is_push o) = i -> jfull l = true) -> TJ X (goto_lc th p l)) by (intros; eapply TJ_goto; eauto).
  assert (ESG : forall X th1, thr_ok2 s X -> (forall r, next_of s r <= next_of X r) -> prog th1 = prog th -> opi th1 = opi th ->
     results th1 = results th -> Kloc o (lc th1) ->
     forall u thu', nth_error (threads (end_segment X t th1 o)) u = Some thu' -> TJ (end_segment X t th1 o) thu').
  { intros X th1 TX MX P1 P2 P3 KL. destruct (TJ_end_segment s t th o HT HO' TJs X th1 P1 P2 P3 KL) as (th' & -> & T). apply FR; auto. }
  (* Kloc from K when the call is past its setup *)
  assert (KLOC : tpc th <> Idle -> (is_single o = true -> seg_n (lc th) = 1%nat) -> Kloc o (lc th)).
  { intros NI SG. unfold Kloc. destruct (okind o) eqn:KO; auto.
    - destruct TF as (T1 & _). split; auto. apply SG. destruct o; cbn in KO; try discriminate; reflexivity.
    - destruct TF as [T1|T1]; [congruence|auto]. }
  assert (SGL : forall hc, hcommon s o (lc th) -> hc = true -> is_single o = true -> seg_n (lc th) = 1%nat) by (intros hc (_ & _ & _ & SG) _ SI; apply SG; auto).
  destruct p0; rewrite E in LV; cbn [phase_of] in LV.
  - (* Idle *)
    assert (L0 : lc th = loc0) by auto.
    destruct (okind o) eqn:KO.
    + destruct (oconc o); inv HS.
      * revert MO. unfold got_ticket. destruct (split _ _ _ _) as [[i1 n1] r]. intros MO. apply FR; [left; reflexivity | exact MO | ].
        apply (TJ_mk s t th o HT HO' TJs); [reflexivity | reflexivity | reflexivity | | intros; congruence | intros; congruence].
        unfold first_wait. cbn [tpc goto_lc]. destruct (Nat.ltb _ _); [discriminate|destruct (is_single o); discriminate].
      * apply FR; [exact TS | exact MO | ]. apply (TJ_mk s t th o HT HO' TJs); [reflexivity | reflexivity | reflexivity | discriminate | intros; congruence | intros; congruence].
    + destruct (oconc o); inv HS.
      * revert MO. unfold got_ticket. destruct (split _ _ _ _) as [[i1 n1] r]. intros MO. apply FR; [left; reflexivity | exact MO | ].
        apply (TJ_mk s t th o HT HO' TJs); [reflexivity | reflexivity | reflexivity | | intros; congruence | intros; congruence].
        unfold first_wait. cbn [tpc goto_lc]. destruct (Nat.ltb _ _); [discriminate|destruct (is_single o); discriminate].
      * apply FR; [exact TS | exact MO | ]. apply (TJ_mk s t th o HT HO' TJs); [reflexivity | reflexivity | reflexivity | discriminate | intros; congruence | intros; congruence].
    + inv HS. apply FR; [exact TS | exact MO | ]. apply (TJ_mk s t th o HT HO' TJs); [reflexivity | reflexivity | reflexivity | discriminate | | intros; congruence].
      intros _. cbn. rewrite L0. cbn. split; auto. intros; discriminate.
    + destruct (split o (mask s) (next_of s (is_push o)) (Z.of_nat (onum o))) as [[i1 n1] r] eqn:SP. inv HS. apply FR; [exact TS | exact MO | ].
      apply (TJ_mk s t th o HT HO' TJs); [reflexivity | reflexivity | reflexivity | | intros; congruence | ].
      * cbn [tpc goto_lc]. destruct (Nat.ltb 0 n1); discriminate.
      * intros _. right; right. cbn. rewrite L0. cbn. split; auto.
        destruct (split_facts s th o HO' (i_len _ IV) HSZ (i_tf _ IV _ _ TT) _ i1 n1 r (i_nn _ IV (is_push o)) SP) as (_ & _ & D).
        unfold restn. cbn. destruct r as [[i2 n2]|]; lia.
    + inv HS. apply FR; [exact TS | exact MO | ]. apply (TJ_mk s t th o HT HO' TJs); [reflexivity | reflexivity | reflexivity | discriminate | intros; congruence | intros; congruence].
  - (* TkStore *)
    destruct LV as (_ & _ & _ & KO). inv HS. revert MO. unfold got_ticket. destruct (split _ _ _ _) as [[i1 n1] r]. intros MO.
    apply FR; [left; reflexivity | exact MO | ].
    apply (TJ_mk s t th o HT HO' TJs); [reflexivity | reflexivity | reflexivity | | intros K1; destruct KO; congruence | intros K1; destruct KO; congruence].
    unfold first_wait. cbn [tpc goto_lc]. destruct (Nat.ltb _ _); [discriminate|destruct (is_single o); discriminate].
  - (* WLoad *)
    assert (NI0 : tpc th <> Idle) by (rewrite E; discriminate).
    destruct (wait_target s o (lc th) j) as [sl e]. destruct (wait_ready _ _); inv HS; (apply FR; [exact TS | exact MO | ]).
    + apply GO; [apply aw_ne | exact NI0 | apply keepK_refl | intros _ i PE; destruct (proj2 (aw_ne o (lc th) j) i PE)].
    + apply GO; [apply sp_ne | exact NI0 | destruct (is_timed o); [apply keepK_time|apply keepK_refl] | intros _ i PE; destruct (proj2 (sp_ne _ _ _ _) i PE)].
  - (* WCas *)
    assert (NI0 : tpc th <> Idle) by (rewrite E; discriminate).
    destruct (wait_target s o (lc th) j) as [sl e]. destruct (Z.eqb _ _); [|destruct (block_cas_ready _ _)]; inv HS.
    + apply FR; [left; reflexivity | exact MO | ]. apply GO; [discriminate | exact NI0 | apply keepK_refl | intros; discriminate].
    + apply FR; [exact TS | exact MO | ]. apply GO; [apply aw_ne | exact NI0 | apply keepK_refl | intros _ i PE; destruct (proj2 (aw_ne o (lc th) j) i PE)].
    + apply FR; [exact TS | exact MO | ]. apply GO; [destruct (block_no_waiter _); discriminate | exact NI0 | apply keepK_refl | intros _ i PE; destruct (block_no_waiter _); discriminate].
  - (* WFutex *)
    assert (NI0 : tpc th <> Idle) by (rewrite E; discriminate).
    destruct (wait_target s o (lc th) j) as [sl e]. destruct (Z.eqb _ _); inv HS; (apply FR; [exact TS | exact MO | ]).
    + apply GO; [discriminate | exact NI0 | apply keepK_time | intros; discriminate].
    + apply GO; [discriminate | exact NI0 | apply keepK_refl | intros; discriminate].
  - (* WParked *)
    assert (NI0 : tpc th <> Idle) by (rewrite E; discriminate).
    destruct (is_timed o && (dl (lc th) <=? clock s)); inv HS. apply FR; [exact TS | exact MO | ].
    apply GO; [apply aw_ne | exact NI0 | apply keepK_refl | intros _ i PE; destruct (proj2 (aw_ne o (lc th) j) i PE)].
  - (* WReload *)
    assert (NI0 : tpc th <> Idle) by (rewrite E; discriminate).
    destruct (wait_target s o (lc th) j) as [sl e].
    destruct (block_reload_ready _ _); [|destruct (is_timed o); [destruct (block_expired _)|]]; inv HS; (apply FR; [exact TS | exact MO | ]).
    + apply GO; [apply aw_ne | exact NI0 | apply keepK_refl | intros _ i PE; destruct (proj2 (aw_ne o (lc th) j) i PE)].
    + apply GO; [apply aw_ne | exact NI0 | apply keepK_refl | intros _ i PE; destruct (proj2 (aw_ne o (lc th) j) i PE)].
    + apply GO; [destruct (block_no_waiter _); discriminate | exact NI0 | apply keepK_time | intros _ i PE; destruct (block_no_waiter _); discriminate].
    + apply GO; [destruct (block_no_waiter _); discriminate | exact NI0 | apply keepK_refl | intros _ i PE; destruct (block_no_waiter _); discriminate].
  - (* WSleep *)
    assert (NI0 : tpc th <> Idle) by (rewrite E; discriminate). inv HS. apply FR; [exact TS | exact MO | ].
    apply GO; [discriminate | exact NI0 | apply keepK_refl | intros; discriminate].
  - (* WSpin *)
    assert (NI0 : tpc th <> Idle) by (rewrite E; discriminate).
    destruct (wait_target s o (lc th) j) as [sl e]. destruct (spin_ready _ _); inv HS; (apply FR; [exact TS | exact MO | ]).
    + apply GO; [apply aw_ne | exact NI0 | apply keepK_refl | intros _ i PE; destruct (proj2 (aw_ne o (lc th) j) i PE)].
    + apply GO; [discriminate | exact NI0 | apply keepK_refl | intros; discriminate].
  - (* FenceA *)
    assert (NI0 : tpc th <> Idle) by (rewrite E; discriminate). inv HS. apply FR; [exact TS | exact MO | ].
    apply GO; [discriminate | exact NI0 | apply keepK_refl | intros; discriminate].
  - (* Callback *)
    assert (NI0 : tpc th <> Idle) by (rewrite E; discriminate).
    destruct (is_push o).
    + destruct (cb_push _ _ _ _ _ _ _) as [[sls ps] e]. inv HS. apply FR; [left; reflexivity | exact MO | ].
      apply GO; [destruct (is_single o); discriminate | exact NI0 | apply keepK_io | intros _ i PE; destruct (is_single o); discriminate].
    + destruct (cb_pop _ _ _ _ _ _ _ _) as [[[sls ds] g] e]. inv HS. apply FR; [left; reflexivity | exact MO | ].
      apply GO; [destruct (is_single o); discriminate | exact NI0 | apply keepK_io | intros _ i PE; destruct (is_single o); discriminate].
  - (* FenceR *)
    assert (NI0 : tpc th <> Idle) by (rewrite E; discriminate). destruct LV as ((_ & _ & _ & SG) & _).
    destruct (Nat.ltb 0 (seg_n (lc th))); inv HS.
    + apply FR; [exact TS | exact MO | ]. apply GO; [discriminate | exact NI0 | apply keepK_refl | intros; discriminate].
    + revert MO. unfold after_pubs. destruct (fwake (oflags o)); intros MO.
      * apply FR; [exact TS | exact MO | ]. apply GO; [discriminate | exact NI0 | apply keepK_refl | intros; discriminate].
      * apply ESG; [exact TS | intros; apply Z.le_refl | reflexivity | reflexivity | reflexivity | apply KLOC; auto; intros SI; apply SG; auto].
  - (* Pub *)
    assert (NI0 : tpc th <> Idle) by (rewrite E; discriminate). destruct LV as ((_ & _ & _ & SG) & _).
    assert (KL : Kloc o (lc th)) by (apply KLOC; auto; intros SI; apply SG; auto).
    destruct (is_single o).
    + destruct (fwake (oflags o)); [destruct (xchg_no_waiter _)|]; inv HS.
      * apply ESG; [left; reflexivity | intros; apply Z.le_refl | reflexivity | reflexivity | reflexivity | exact KL].
      * apply FR; [left; reflexivity | exact MO | ]. apply GO; [discriminate | exact NI0 | apply keepK_refl | intros; discriminate].
      * apply ESG; [left; reflexivity | intros; apply Z.le_refl | reflexivity | reflexivity | reflexivity | exact KL].
    + destruct (Nat.ltb (S j) (seg_n (lc th))); inv HS.
      * apply FR; [left; reflexivity | exact MO | ]. apply GO; [discriminate | exact NI0 | apply keepK_refl | intros; discriminate].
      * revert MO. unfold after_pubs. destruct (fwake (oflags o)); intros MO.
        -- apply FR; [left; reflexivity | exact MO | ]. apply GO; [discriminate | exact NI0 | apply keepK_refl | intros; discriminate].
        -- apply ESG; [left; reflexivity | intros; apply Z.le_refl | reflexivity | reflexivity | reflexivity | exact KL].
  - (* PubWake *)
    assert (NI0 : tpc th <> Idle) by (rewrite E; discriminate). destruct LV as ((_ & _ & _ & SG) & _).
    inv HS. apply ESG; [right; exists sl; reflexivity | intros; apply Z.le_refl | reflexivity | reflexivity | reflexivity | apply KLOC; auto; intros SI; apply SG; auto].
  - (* FenceSC *)
    assert (NI0 : tpc th <> Idle) by (rewrite E; discriminate). destruct LV as ((_ & _ & _ & SG) & _).
    destruct (Nat.ltb 0 (seg_n (lc th))); inv HS.
    + apply FR; [exact TS | exact MO | ]. apply GO; [discriminate | exact NI0 | apply keepK_refl | intros; discriminate].
    + apply ESG; [exact TS | intros; apply Z.le_refl | reflexivity | reflexivity | reflexivity | apply KLOC; auto; intros SI; apply SG; auto].
  - (* WkLoad *)
    assert (NI0 : tpc th <> Idle) by (rewrite E; discriminate). destruct LV as ((_ & _ & _ & SG) & _).
    assert (KL : Kloc o (lc th)) by (apply KLOC; auto; intros SI; apply SG; auto).
    assert (NWK : forall X, thr_ok2 s X -> (forall r, next_of s r <= next_of X r) ->
              forall u thu', nth_error (threads (next_wk X t th o j)) u = Some thu' -> TJ (next_wk X t th o j) thu').
    { intros X TX MX. unfold next_wk. destruct (Nat.ltb _ _). apply FR; [exact TX | exact MX | ]. apply GO; [discriminate | exact NI0 | apply keepK_refl | intros; discriminate].
      apply ESG; [exact TX | exact MX | reflexivity | reflexivity | reflexivity | exact KL]. }
    destruct (wakeup_no_waiter _); [|destruct (wakeup_moved_on _ _)]; inv HS.
    + apply NWK; [exact TS | intros; apply Z.le_refl].
    + apply NWK; [exact TS | intros; apply Z.le_refl].
    + apply FR; [exact TS | exact MO | ]. apply GO; [discriminate | exact NI0 | apply keepK_refl | intros; discriminate].
  - (* WkCas *)
    assert (NI0 : tpc th <> Idle) by (rewrite E; discriminate). destruct LV as ((_ & _ & _ & SG) & _).
    assert (KL : Kloc o (lc th)) by (apply KLOC; auto; intros SI; apply SG; auto).
    destruct (Z.eqb _ _); inv HS.
    + apply FR; [left; reflexivity | exact MO | ]. apply GO; [discriminate | exact NI0 | apply keepK_refl | intros; discriminate].
    + revert MO. unfold next_wk. destruct (Nat.ltb _ _); intros MO. apply FR; [exact TS | exact MO | ]. apply GO; [discriminate | exact NI0 | apply keepK_refl | intros; discriminate].
      apply ESG; [exact TS | intros; apply Z.le_refl | reflexivity | reflexivity | reflexivity | exact KL].
  - (* WkWake *)
    assert (NI0 : tpc th <> Idle) by (rewrite E; discriminate). destruct LV as ((_ & _ & _ & SG) & _).
    assert (KL : Kloc o (lc th)) by (apply KLOC; auto; intros SI; apply SG; auto).
    inv HS. revert MO. unfold next_wk. destruct (Nat.ltb _ _); intros MO.
    + apply FR; [right; exists sl; reflexivity | exact MO | ]. apply GO; [discriminate | exact NI0 | apply keepK_refl | intros; discriminate].
    + apply ESG; [right; exists sl; reflexivity | intros; apply Z.le_refl | reflexivity | reflexivity | reflexivity | exact KL].
  - (* TryVer *)
    assert (NI0 : tpc th <> Idle) by (rewrite E; discriminate).
    destruct (try_deal_not_ready _ _); inv HS; (apply FR; [exact TS | exact MO | ]).
    + apply GO; [discriminate | exact NI0 | apply keepK_just | ]. intros _ i0 PE NX. assert (EI : i0 = i) by congruence. cbn. apply orb_true_iff. right. apply Z.eqb_eq. congruence.
    + apply GO; [discriminate | exact NI0 | apply keepK_refl | intros; discriminate].
  - (* TryReidx *)
    assert (NI0 : tpc th <> Idle) by (rewrite E; discriminate). destruct LV as (_ & _ & KO & _).
    destruct (try_deal_same_index _ _) eqn:SI; inv HS; (apply FR; [exact TS | exact MO | ]).
    + apply (TJ_finish s t th o HT HO' TJs); auto. intros _ _. left. cbn. rewrite KO in TF. destruct TF as (_ & T2). apply (T2 i); auto.
      unfold try_deal_same_index in SI. apply Z.eqb_eq in SI. exact SI.
    + apply GO; [discriminate | exact NI0 | apply keepK_refl | intros; discriminate].
  - (* TryCas *)
    assert (NI0 : tpc th <> Idle) by (rewrite E; discriminate). destruct LV as (_ & _ & KO & _).
    destruct (oconc o && negb (next_of s (is_push o) =? i)); inv HS.
    + apply FR; [exact TS | exact MO | ]. apply GO; [discriminate | exact NI0 | apply keepK_refl | intros; discriminate].
    + apply FR; [left; reflexivity | exact MO | ].
      apply (TJ_mk s t th o HT HO' TJs); [reflexivity | reflexivity | reflexivity | discriminate | | intros; congruence].
      intros _. rewrite KO in TF. destruct TF as (T1 & _). split; auto. intros; discriminate.
  - (* TnVer *)
    assert (NI0 : tpc th <> Idle) by (rewrite E; discriminate). destruct LV as (_ & _ & KO & _).
    assert (NKT : okind o <> KTry) by (destruct KO as [-> | ->]; discriminate).
    assert (FLG : forall b, jfull (set_just (set_n (lc th) j) b (negb b)) = true \/ jover (set_just (set_n (lc th) j) b (negb b)) = true).
    { intros b. apply set_just_flags. destruct b; auto. }
    destruct (try_deal_n_not_ready _ _); [destruct (try_deal_n_none _)|destruct (Nat.ltb (S j) (seg_n (lc th)))]; inv HS.
    + unfold end_segment_zero. apply ESG; [exact TS | intros; apply Z.le_refl | reflexivity | reflexivity | reflexivity | ]. unfold Kloc. destruct (okind o); auto; try congruence.
      cbn [lc goto_lc set_n jfull jover]. destruct (FLG (next_of s (is_push o) =? seg_i (lc th))) as [F|F]; auto.
    + apply FR; [exact TS | exact MO | ].
      apply (TJ_mk s t th o HT HO' TJs); [reflexivity | reflexivity | reflexivity | discriminate | intros; congruence | ].
      intros _. cbn [lc goto_lc]. destruct (FLG (next_of s (is_push o) =? seg_i (lc th))) as [F|F]; auto.
    + apply FR; [exact TS | exact MO | ]. apply GO; [discriminate | exact NI0 | apply keepK_refl | intros; discriminate].
    + apply FR; [exact TS | exact MO | ]. apply GO; [discriminate | exact NI0 | apply keepK_refl | intros; discriminate].
  - (* TnCas *)
    assert (NI0 : tpc th <> Idle) by (rewrite E; discriminate). destruct LV as (_ & _ & KO & _).
    assert (NKT : okind o <> KTry) by (destruct KO as [-> | ->]; discriminate).
    destruct (try_deal_n_none _) eqn:NONE; [|destruct (match o with OPopUntil _ _ _ => false | _ => conc (oflags o) end); [destruct (Z.eqb _ _)|]]; inv HS.
    + unfold end_segment_zero. apply ESG; [exact TS | intros; apply Z.le_refl | reflexivity | reflexivity | reflexivity | ]. unfold Kloc. destruct (okind o) eqn:K1; auto; try congruence.
      cbn [lc goto_lc set_n jfull jover seg_n seg_req cnt rest]. unfold restn. cbn [rest set_n].
      unfold try_deal_n_none in NONE. apply Z.eqb_eq in NONE. destruct TF as [T|[T|[T|(T1 & T2)]]]; auto; try congruence.
      right; right. unfold restn in T2. split; lia.
    + apply FR; [left; reflexivity | exact MO | ]. apply GO; [discriminate | exact NI0 | apply keepK_tk | intros; discriminate].
    + unfold end_segment_zero. apply ESG; [exact TS | intros; apply Z.le_refl | reflexivity | reflexivity | reflexivity | ]. unfold Kloc. destruct (okind o); auto; try congruence.
      cbn. right; left. apply orb_true_r.
    + apply FR; [left; reflexivity | exact MO | ]. apply GO; [discriminate | exact NI0 | apply keepK_tk | intros; discriminate].
  - (* TnIdx *)
    assert (KU : okind o = KUntil) by (destruct o; cbn in LV; try discriminate; reflexivity).
    destruct (split _ _ _ _) as [[i1 n1] r]. inv HS. apply FR; [exact TS | exact MO | ].
    apply (TJ_mk s t th o HT HO' TJs); [reflexivity | reflexivity | reflexivity | | intros; congruence | intros; congruence].
    cbn [tpc goto_lc]. destruct (Nat.ltb 0 n1); discriminate.
Qed.

Theorem bq_try_fail_justified : forall k progs s th i o r, usage_ok k progs = true -> Reach k progs s ->
  In th (threads s) -> nth_error (prog th) i = Some o -> nth_error (results th) i = Some r ->
  (okind o = KTry \/ okind o = KTryN) -> (r_cnt r < onum o)%nat -> r_full r = true \/ r_over r = true.
Proof.
  intros k progs s th i o r U R IN HP HR KO LT.
  assert (J0 : FInv k progs s /\ forall u thu, nth_error (threads s) u = Some thu -> TJ s thu).
  { eapply inv_reachable with (Inv := fun s0 => FInv k progs s0 /\ forall u thu, nth_error (threads s0) u = Some thu -> TJ s0 thu); eauto.
    - split. apply FInv_init. intros u thu H. cbn in H. rewrite nth_error_map in H. destruct (nth_error progs u) as [p|]; [|discriminate].
      inversion H; subst thu. split; [reflexivity|split; [reflexivity|split; [|split; [|intros; reflexivity]]]].
      + intros i0 o0 r0 _ H0. cbn in H0. destruct i0; discriminate.
      + intros o0 _. unfold K. cbn. destruct (okind o0); auto. split; auto. intros; discriminate.
    - intros s0 t0 s1 (F0 & T0) ST. split. eapply FInv_step; eauto. eapply TJ_step; eauto. }
  destruct J0 as (_ & T). apply In_nth_error in IN as (u & HU). destruct (T u th HU) as (_ & _ & D & _ & _). exact (D i o r HP HR KO LT).
Qed.

Lemma TJ_reach : forall k progs s, usage_ok k progs = true -> Reach k progs s ->
  forall u thu, nth_error (threads s) u = Some thu -> TJ s thu.
Proof.
  intros k progs s U R.
  assert (J0 : FInv k progs s /\ forall u thu, nth_error (threads s) u = Some thu -> TJ s thu).
  { eapply inv_reachable with (Inv := fun s0 => FInv k progs s0 /\ forall u thu, nth_error (threads s0) u = Some thu -> TJ s0 thu); eauto.
    - split. apply FInv_init. intros u thu H. cbn in H. rewrite nth_error_map in H. destruct (nth_error progs u) as [p|]; [|discriminate].
      inversion H; subst thu. split; [reflexivity|split; [reflexivity|split; [|split; [|intros; reflexivity]]]].
      + intros i0 o0 r0 _ H0. cbn in H0. destruct i0; discriminate.
      + intros o0 _. unfold K. cbn. destruct (okind o0); auto. split; auto. intros; discriminate.
    - intros s0 t0 s1 (F0 & T0) ST. split. eapply FInv_step; eauto. eapply TJ_step; eauto. }
  apply J0.
Qed.

(* a thread whose program is exhausted sits in Idle *)
Theorem bq_finished_idle : forall k progs s u thu, usage_ok k progs = true -> Reach k progs s ->
  nth_error (threads s) u = Some thu -> thread_done thu = true -> tpc thu = Idle.
Proof.
  intros k progs s u thu U R HU TD. destruct (TJ_reach k progs s U R u thu HU) as (_ & _ & _ & _ & G). apply G.
  unfold thread_done in TD. unfold cur. destruct (nth_error (prog thu) (opi thu)); [discriminate|reflexivity].
Qed.

(* the waker of a ready sleeper can run: a state in which a sleeper's version is reached is never a deadlock *)
Theorem bq_ready_sleeper_waker_enabled : forall k progs s, usage_ok k progs = true -> Reach k progs s -> small s ->
  forall t th sl x, nth_error (threads s) t = Some th -> parkedOn s th sl x -> ver (get_slot s sl) = x ->
  exists u thu, nth_error (threads s) u = Some thu /\ (cert thu sl \/ win s thu sl x) /\ step s u <> None.
Proof.
  intros k progs s U R SM t th sl x HT PK GV.
  destruct (bq_no_lost_wakeup k progs s U R SM t th sl x HT PK GV) as (u & thu & HU & W).
  exists u, thu. split; auto. split; auto. apply (bq_unparked_enabled s u thu HU).
  - destruct (thread_done thu) eqn:TD; auto. pose proof (bq_finished_idle k progs s u thu U R HU TD) as PI.
    destruct W as [[C|[j C]]|(o & j & CU & _ & _ & _ & _ & _ & PP)]; try congruence.
    unfold thread_done in TD. unfold cur in CU. rewrite CU in TD. discriminate.
  - intros j0 sl0 PC. destruct W as [[C|[j C]]|(o & j & _ & _ & _ & _ & _ & _ & PP)]; try congruence.
    destruct PP as [PP|[(j' & PP & _)|[(j' & PP & _)|[(j' & c & PP & _)|(j' & sl1 & PP & _)]]]]; congruence.
Qed.

Theorem bq_deadlock_not_lost_wakeup : forall k progs s, usage_ok k progs = true -> Reach k progs s -> small s ->
  (forall u, (u < length (threads s))%nat -> step s u = None) ->
  forall t th sl x, nth_error (threads s) t = Some th -> parkedOn s th sl x -> ver (get_slot s sl) <> x.
Proof.
  intros k progs s U R SM DL t th sl x HT PK GV.
  destruct (bq_ready_sleeper_waker_enabled k progs s U R SM t th sl x HT PK GV) as (u & thu & HU & _ & EN).
  apply EN. apply DL. eapply nth_error_lt; eauto.
Qed.
