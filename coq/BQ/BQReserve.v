(* reserve_and_clear(min_capacity) of ConcurrentBoundedQueue (bounded_queue.hpp) on a quiescent, empty queue.

   State: the two indexes, the geometry (slot_bits, slot_mask) and the version of every slot.  The protocol state the
   next push relies on: the slot of _next_push_index carries exactly push_version_for_index(_next_push_index).
   The function has two branches:
     capacity changed : new geometry, [index stores], [every futex reset to 0]
     same capacity    : clear() - on an empty queue try_pop fails at once, nothing changes
   and, possibly, index stores outside of both.  Where the index stores and the slot reset loop stand is regenerated
   from the source (Gen_bounded_queue: rc_push_store_total, rc_pop_store_total, rc_push_store_in_resize,
   rc_pop_store_in_resize, rc_slot_reset_in_resize, rc_same_branch_is_clear): rewinding the indexes is only sound
   together with rewinding the slot versions. *)
From Coq Require Import ZArith Bool Lia.
Require Import Verif.Gen.Gen_bounded_queue.
Local Open Scope Z_scope.

Record rq := { r_push : Z; r_pop : Z; r_bits : Z; r_mask : Z; r_ver : Z -> Z }.

(* the slot the next push will use has the version that push waits for *)
Definition push_slot_ready (q : rq) : Prop :=
  r_ver q (slot_index (r_push q) (r_mask q)) = push_ver (r_bits q) (r_push q).
Definition rq_empty (q : rq) : Prop := r_pop q = r_push q.

(* regenerated shape of the function *)
Definition idx_reset_in_resize : bool := (rc_push_store_in_resize =? 1) && (rc_pop_store_in_resize =? 1).
Definition idx_reset_elsewhere : bool :=
  negb ((rc_push_store_total - rc_push_store_in_resize =? 0) && (rc_pop_store_total - rc_pop_store_in_resize =? 0)).
Definition slots_reset_in_resize : bool := rc_slot_reset_in_resize =? 1.
Definition same_branch_is_clear : bool := rc_same_branch_is_clear =? 1.

Definition rewind (q : rq) : rq :=
  {| r_push := 0; r_pop := 0; r_bits := r_bits q; r_mask := r_mask q; r_ver := r_ver q |}.

(* clear(): pops until try_pop fails; on an empty queue that is at once *)
Definition clear_empty (q : rq) : rq := q.

Definition resize_branch (q : rq) (bits : Z) : rq :=
  let q1 := {| r_push := r_push q; r_pop := r_pop q; r_bits := bits; r_mask := Z.shiftl 1 bits - 1;
               r_ver := if slots_reset_in_resize then (fun _ => 0) else r_ver q |} in
  if idx_reset_in_resize then rewind q1 else q1.

(* same = bit_ceil(min_capacity) equals capacity(); bits = ctz of the new capacity *)
Definition reserve_and_clear (q : rq) (same : bool) (bits : Z) : rq :=
  let q1 := if same then clear_empty q else resize_branch q bits in
  if idx_reset_elsewhere then rewind q1 else q1.

(* the same-capacity branch is `clear();` and nothing but `return capacity();` follows the if/else *)
Lemma same_branch_is_clear_holds : same_branch_is_clear = true.
Proof. reflexivity. Qed.

Lemma push_ver_0 : forall bits, push_ver bits 0 = 0.
Proof. intros; unfold push_ver; rewrite Z.shiftr_0_l; reflexivity. Qed.

Lemma reserve_and_clear_keeps_push_slot_ready : forall q same bits,
  rq_empty q -> push_slot_ready q ->
  let q' := reserve_and_clear q same bits in
  rq_empty q' /\ push_slot_ready q' /\ (same = true -> q' = q) /\ (same = false -> r_push q' = 0 /\ r_bits q' = bits).
Proof.
  intros q same bits He Hr.
  unfold reserve_and_clear, resize_branch, clear_empty.
  change idx_reset_elsewhere with false.
  change idx_reset_in_resize with true.
  change slots_reset_in_resize with true.
  cbv beta iota zeta.
  destruct same.
  - repeat split; auto; discriminate.
  - unfold rq_empty, push_slot_ready, rewind; cbn [r_push r_pop r_bits r_mask r_ver].
    rewrite push_ver_0. repeat split; auto; discriminate.
Qed.
