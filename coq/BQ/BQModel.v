(* Executable interleaving model of babylon::ConcurrentBoundedQueue (src/babylon/concurrent/bounded_queue.hpp).
   One step = one atomic operation (ticket fetch_add/load/store/CAS, slot word load/CAS/exchange/16-bit store,
   fence, futex_wait, futex_wake, usleep) of the C++ code plus the local computation up to the next one; the
   user callback is a step of its own (it is where payload cells are read/written and where exclusivity is
   observable).  No proofs here.

   Shared : slot_bits k (capacity 2^k), tickets npush/npop, per slot (version : Z unbounded, waiter flag,
            payload cell, ghost owner), virtual clock (advanced by pseudo-thread `length threads`).
   Ghost  : pushed / delivered = (ticket, value) pairs written / read by callbacks (kept sorted by ticket),
            err = a callback entered a slot that was owned or whose payload was in the wrong state.
   Every integer formula / comparison of the code comes from Gen_bounded_queue (regenerated on every run).
   The compensating push_n/pop_n(callback, reverse_callback, n) variants are not modelled. *)
From Coq Require Import ZArith List Bool.
Require Import Verif.Gen.Gen_bounded_queue.
Import ListNotations.
Local Open Scope Z_scope.

Record flags := { conc : bool; fwait : bool; fwake : bool }.

Inductive op :=
| OPush (f : flags) (v : Z)
| OPop (f : flags)
| OTryPush (f : flags) (v : Z)
| OTryPop (f : flags)
| OPushN (f : flags) (vs : list Z)
| OPopN (f : flags) (n : nat)
| OTryPushN (f : flags) (vs : list Z)
| OTryPopN (f : flags) (n : nat)
| OPopUntil (f : flags) (n : nat) (tmo : Z).     (* try_pop_n_exclusively_until<fwake> *)

Inductive kind := KSingle | KBatch | KTry | KTryN | KUntil.

Definition okind (o : op) : kind :=
  match o with
  | OPush _ _ | OPop _ => KSingle
  | OPushN _ _ | OPopN _ _ => KBatch
  | OTryPush _ _ | OTryPop _ => KTry
  | OTryPushN _ _ | OTryPopN _ _ => KTryN
  | OPopUntil _ _ _ => KUntil
  end.
Definition is_push (o : op) : bool :=
  match o with OPush _ _ | OTryPush _ _ | OPushN _ _ | OTryPushN _ _ => true | _ => false end.
Definition oflags (o : op) : flags :=
  match o with
  | OPush f _ | OPop f | OTryPush f _ | OTryPop f | OPushN f _ | OPopN f _ | OTryPushN f _ | OTryPopN f _
  | OPopUntil f _ _ => f
  end.
Definition ovals (o : op) : list Z :=
  match o with OPush _ v | OTryPush _ v => [v] | OPushN _ vs | OTryPushN _ vs => vs | _ => [] end.
Definition onum (o : op) : nat :=
  match o with
  | OPush _ _ | OPop _ | OTryPush _ _ | OTryPop _ => 1%nat
  | OPushN _ vs | OTryPushN _ vs => length vs
  | OPopN _ n | OTryPopN _ n | OPopUntil _ n _ => n
  end.
(* does the op advance its ticket with an atomic read-modify-write (CONCURRENT) *)
Definition oconc (o : op) : bool := match o with OPopUntil _ _ _ => false | _ => conc (oflags o) end.
(* does the op sleep in futex_wait (USE_FUTEX_WAIT; the timed pop always does) *)
Definition ofwait (o : op) : bool :=
  match okind o with KSingle | KBatch => fwait (oflags o) | KUntil => true | _ => false end.
Definition is_single (o : op) : bool := match okind o with KSingle | KTry => true | _ => false end.
Definition is_timed (o : op) : bool := match o with OPopUntil _ _ _ => true | _ => false end.

(* result of a finished call: elements dealt, values popped, ghost: ticket ranges obtained, justification *)
Record res := { r_cnt : nat; r_vals : list Z; r_tks : list (Z * nat); r_full : bool; r_over : bool }.

Inductive pc :=
| Idle
| TkStore (i : Z)                    (* !CONCURRENT: ticket loaded, store pending *)
| WLoad (j : nat)                    (* wait_until_reach_expected_version: first load, element j of the segment *)
| WCas (j : nat) (cur : Z)           (* block_slow: CAS (cur,no waiter) -> (cur,waiter) pending *)
| WFutex (j : nat) (cur : Z)         (* futex_wait on word (cur, waiter) about to be issued *)
| WParked (j : nat) (sl : nat)       (* asleep in the kernel on slot sl *)
| WReload (j : nat)                  (* woken / EAGAIN: reload the word *)
| WSleep (j : nat)                   (* spin_slow: usleep pending *)
| WSpin (j : nat)                    (* spin_slow: reload *)
| FenceA                             (* batch: acquire fence *)
| Callback
| FenceR                             (* batch: release fence *)
| Pub (j : nat)                      (* exchange (single, wake) / 16-bit store of the next version *)
| PubWake (sl : nat)                 (* exchange saw the waiter bit: wake_all pending *)
| FenceSC                            (* batch, wake: seq_cst fence *)
| WkLoad (j : nat)                   (* wakeup_waiters: load *)
| WkCas (j : nat) (cur : Z)          (* wakeup_waiters: CAS clear waiter bit *)
| WkWake (j : nat) (sl : nat)        (* wakeup_waiters: wake_all *)
| TryVer (i : Z)                     (* try_deal: version load for index i *)
| TryReidx (i : Z)                   (* try_deal: reload of the index after a mismatch *)
| TryCas (i : Z)                     (* try_deal: CAS weak i -> i+1 (or plain store) *)
| TnVer (j : nat)                    (* try_deal_n_continuously: relaxed version check of element j *)
| TnCas                              (* try_deal_n_continuously: CAS strong index -> index+num (or store) *)
| TnIdx.                             (* timed pop: index load of the inner try_pop_n<false> *)

Record loc := {
  seg_i : Z; seg_n : nat; seg_req : nat; rest : option (Z * nat);
  vals : list Z; got : list Z; cnt : nat; tks : list (Z * nat);
  jfull : bool; jover : bool; uidx : Z; tbegin : Z; trem : Z; dl : Z }.
Definition loc0 : loc :=
  {| seg_i := 0; seg_n := 0; seg_req := 0; rest := None; vals := []; got := []; cnt := 0; tks := [];
     jfull := false; jover := false; uidx := 0; tbegin := 0; trem := 0; dl := 0 |}.

Record thread := { prog : list op; opi : nat; tpc : pc; results : list res; lc : loc }.

Record slot := { ver : Z; wf : bool; pay : option Z; own : option nat }.
Definition slot0 : slot := {| ver := 0; wf := false; pay := None; own := None |}.

Record st := {
  kbits : nat; npush : Z; npop : Z; slots : list slot; threads : list thread; clock : Z;
  pushed : list (Z * Z); delivered : list (Z * Z); err : bool }.

Definition capacity (s : st) : Z := 2 ^ Z.of_nat (kbits s).
Definition mask (s : st) : Z := capacity s - 1.

Definition mk_thread (p : list op) : thread := {| prog := p; opi := 0; tpc := Idle; results := []; lc := loc0 |}.
Definition init (k : nat) (progs : list (list op)) : st :=
  {| kbits := k; npush := 0; npop := 0; slots := repeat slot0 (Nat.pow 2 k); threads := map mk_thread progs;
     clock := 0; pushed := []; delivered := []; err := false |}.

Fixpoint set_nth {A} (n : nat) (x : A) (l : list A) : list A :=
  match l, n with
  | [], _ => []
  | _ :: r, O => x :: r
  | y :: r, S n' => y :: set_nth n' x r
  end.

(* ---- state updates ---- *)
Definition with_threads (s : st) (ths : list thread) : st :=
  {| kbits := kbits s; npush := npush s; npop := npop s; slots := slots s; threads := ths; clock := clock s;
     pushed := pushed s; delivered := delivered s; err := err s |}.
Definition with_slots (s : st) (sls : list slot) : st :=
  {| kbits := kbits s; npush := npush s; npop := npop s; slots := sls; threads := threads s; clock := clock s;
     pushed := pushed s; delivered := delivered s; err := err s |}.
Definition with_next (s : st) (role : bool) (v : Z) : st :=
  {| kbits := kbits s; npush := if role then v else npush s; npop := if role then npop s else v; slots := slots s;
     threads := threads s; clock := clock s; pushed := pushed s; delivered := delivered s; err := err s |}.
Definition with_ghost (s : st) (sls : list slot) (ps ds : list (Z * Z)) (e : bool) : st :=
  {| kbits := kbits s; npush := npush s; npop := npop s; slots := sls; threads := threads s; clock := clock s;
     pushed := ps; delivered := ds; err := e |}.
Definition upd (s : st) (t : nat) (th : thread) : st := with_threads s (set_nth t th (threads s)).
Definition next_of (s : st) (role : bool) : Z := if role then npush s else npop s.

Definition goto (th : thread) (p : pc) : thread :=
  {| prog := prog th; opi := opi th; tpc := p; results := results th; lc := lc th |}.
Definition goto_lc (th : thread) (p : pc) (l : loc) : thread :=
  {| prog := prog th; opi := opi th; tpc := p; results := results th; lc := l |}.
Definition finish_op (th : thread) (r : res) : thread :=
  {| prog := prog th; opi := S (opi th); tpc := Idle; results := results th ++ [r]; lc := loc0 |}.

Definition get_slot (s : st) (sl : nat) : slot := nth sl (slots s) slot0.
Definition set_slot (s : st) (sl : nat) (x : slot) : st := with_slots s (set_nth sl x (slots s)).

(* the futex word as the code sees it: low 16 bits version, bit 16 = "a sleeper may exist" *)
Definition word16 (v : Z) (w : bool) : Z := v mod 65536 + (if w then 65536 else 0).
Definition slot_word (x : slot) : Z := word16 (ver x) (wf x).

(* ---- ticket / version / slot arithmetic (all from the generated file) ---- *)
Definition kb (s : st) : Z := Z.of_nat (kbits s).
Definition ever (s : st) (role : bool) (i : Z) : Z := if role then push_ver (kb s) i else pop_ver (kb s) i.
Definition slot_z (k : kind) (i m : Z) : Z :=
  match k with
  | KSingle => slot_index i m | KTry => slot_index_try i m | KBatch => slot_index_n i m
  | KTryN => slot_index_tryn i m | KUntil => slot_index_tryn i m
  end.
Definition next_ver (k : kind) (wake : bool) (e : Z) : Z :=
  match k, wake with
  | KSingle, true => deal_next_version e | KSingle, false => deal_next_version_nowake e
  | KTry, true => try_deal_next_version e | KTry, false => try_deal_next_version_nowake e
  | KBatch, _ => deal_n_next_version e
  | _, _ => try_deal_n_next_version e
  end.
Definition wake_ver (k : kind) (e : Z) : Z :=
  match k with KBatch => deal_n_wake_version e | _ => try_deal_n_wake_version e end.

(* [index, index+num) split at the end of the ring, as push_n / pop_n / try_push_n / try_pop_n do *)
Definition split (o : op) (m i n : Z) : (Z * nat) * option (Z * nat) :=
  match okind o, is_push o with
  | KBatch, true =>
    let r := push_n_round i m in
    if push_n_fits i n r then ((i, Z.to_nat n), None)
    else ((i, Z.to_nat (push_n_first i n r)), Some (r, Z.to_nat (push_n_second i n r)))
  | KBatch, false =>
    let r := pop_n_round i m in
    if pop_n_fits i n r then ((i, Z.to_nat n), None)
    else ((i, Z.to_nat (pop_n_first i n r)), Some (r, Z.to_nat (pop_n_second i n r)))
  | (KTryN | KUntil), true =>
    let e := try_push_n_end i n in let r := try_push_n_round i m in
    if try_push_n_fits e r then ((i, Z.to_nat (try_push_n_whole i e)), None)
    else ((i, Z.to_nat (try_push_n_first i r)), Some (r, Z.to_nat (try_push_n_second e r)))
  | (KTryN | KUntil), false =>
    let e := try_pop_n_end i n in let r := try_pop_n_round i m in
    if try_pop_n_fits e r then ((i, Z.to_nat (try_pop_n_whole i e)), None)
    else ((i, Z.to_nat (try_pop_n_first i r)), Some (r, Z.to_nat (try_pop_n_second e r)))
  | _, _ => ((i, Z.to_nat n), None)
  end.
Definition try_short (o : op) (done req : nat) : bool :=
  if is_push o then try_push_n_short (Z.of_nat done) (Z.of_nat req)
  else try_pop_n_short (Z.of_nat done) (Z.of_nat req).

(* slot number of element j of the current segment *)
Definition seg_slot (s : st) (o : op) (l : loc) (j : nat) : nat :=
  (Z.to_nat (slot_z (okind o) (seg_i l) (mask s)) + j)%nat.
Definition seg_ever (s : st) (o : op) (l : loc) : Z := ever s (is_push o) (seg_i l).

(* what a wait_until_reach_expected_version call of this thread is waiting for: (slot, expected version) *)
Definition wait_target (s : st) (o : op) (l : loc) (j : nat) : nat * Z :=
  match o with
  | OPopUntil _ _ _ => (Z.to_nat (slot_index_until (uidx l) (mask s)), pop_ver (kb s) (uidx l))
  | _ => (seg_slot s o l j, seg_ever s o l)
  end.

(* ---- ghost bookkeeping of callbacks ---- *)
Fixpoint ins (x : Z * Z) (l : list (Z * Z)) : list (Z * Z) :=
  match l with
  | [] => [x]
  | y :: r => if fst x <=? fst y then x :: l else y :: ins x r
  end.
Definition is_some {A} (o : option A) : bool := match o with Some _ => true | None => false end.

Fixpoint cb_push (t : nat) (sls : list slot) (base : nat) (i : Z) (vs : list Z) (ps : list (Z * Z)) (e : bool)
  : list slot * list (Z * Z) * bool :=
  match vs with
  | [] => (sls, ps, e)
  | v :: r =>
    let x := nth base sls slot0 in
    let bad := is_some (own x) || is_some (pay x) || negb (Nat.ltb base (length sls)) in
    cb_push t (set_nth base {| ver := ver x; wf := wf x; pay := Some v; own := Some t |} sls) (S base) (i + 1) r
            (ins (i, v) ps) (e || bad)
  end.
Fixpoint cb_pop (t : nat) (sls : list slot) (base : nat) (i : Z) (n : nat) (ds : list (Z * Z)) (g : list Z) (e : bool)
  : list slot * list (Z * Z) * list Z * bool :=
  match n with
  | O => (sls, ds, g, e)
  | S n' =>
    let x := nth base sls slot0 in
    let bad := is_some (own x) || negb (is_some (pay x)) || negb (Nat.ltb base (length sls)) in
    let v := match pay x with Some v => v | None => 0 end in
    cb_pop t (set_nth base {| ver := ver x; wf := wf x; pay := None; own := Some t |} sls) (S base) (i + 1) n'
           (ins (i, v) ds) (g ++ [v]) (e || bad)
  end.

(* futex wake_all on slot sl: every thread asleep on it resumes after its futex_wait *)
Definition wake_thread (sl : nat) (th : thread) : thread :=
  match tpc th with
  | WParked j sl' => if Nat.eqb sl sl' then goto th (WReload j) else th
  | _ => th
  end.
Definition wake_all (s : st) (sl : nat) : st := with_threads s (map (wake_thread sl) (threads s)).

(* ---- control flow helpers ---- *)
Definition mk_res (l : loc) (c : nat) : res :=
  {| r_cnt := c; r_vals := got l; r_tks := tks l; r_full := jfull l; r_over := jover l |}.

Definition set_seg (l : loc) (i : Z) (n : nat) (r : option (Z * nat)) : loc :=
  {| seg_i := i; seg_n := n; seg_req := n; rest := r; vals := vals l; got := got l; cnt := cnt l; tks := tks l;
     jfull := jfull l; jover := jover l; uidx := uidx l; tbegin := tbegin l; trem := trem l; dl := dl l |}.
Definition add_tk (l : loc) : loc :=
  {| seg_i := seg_i l; seg_n := seg_n l; seg_req := seg_req l; rest := rest l; vals := vals l; got := got l;
     cnt := cnt l; tks := tks l ++ [(seg_i l, seg_n l)];
     jfull := jfull l; jover := jover l; uidx := uidx l; tbegin := tbegin l; trem := trem l; dl := dl l |}.
Definition set_n (l : loc) (n : nat) : loc :=
  {| seg_i := seg_i l; seg_n := n; seg_req := seg_req l; rest := rest l; vals := vals l; got := got l; cnt := cnt l;
     tks := tks l; jfull := jfull l; jover := jover l; uidx := uidx l; tbegin := tbegin l; trem := trem l; dl := dl l |}.
Definition set_just (l : loc) (f o : bool) : loc :=
  {| seg_i := seg_i l; seg_n := seg_n l; seg_req := seg_req l; rest := rest l; vals := vals l; got := got l;
     cnt := cnt l; tks := tks l; jfull := jfull l || f; jover := jover l || o; uidx := uidx l; tbegin := tbegin l;
     trem := trem l; dl := dl l |}.
Definition set_io (l : loc) (vs g : list Z) : loc :=
  {| seg_i := seg_i l; seg_n := seg_n l; seg_req := seg_req l; rest := rest l; vals := vs; got := g; cnt := cnt l;
     tks := tks l; jfull := jfull l; jover := jover l; uidx := uidx l; tbegin := tbegin l; trem := trem l; dl := dl l |}.
Definition set_time (l : loc) (u b r d : Z) : loc :=
  {| seg_i := seg_i l; seg_n := seg_n l; seg_req := seg_req l; rest := rest l; vals := vals l; got := got l;
     cnt := cnt l; tks := tks l; jfull := jfull l; jover := jover l; uidx := u; tbegin := b; trem := r; dl := d |}.
Definition add_cnt (l : loc) : loc :=
  {| seg_i := seg_i l; seg_n := seg_n l; seg_req := seg_req l; rest := rest l; vals := vals l; got := got l;
     cnt := (cnt l + seg_n l)%nat; tks := tks l; jfull := jfull l; jover := jover l; uidx := uidx l;
     tbegin := tbegin l; trem := trem l; dl := dl l |}.

(* pc after the wait for element j succeeded (or, timed, gave up) *)
Definition after_wait (o : op) (l : loc) (j : nat) : pc :=
  if is_timed o then TnIdx
  else if Nat.ltb (S j) (seg_n l) then WLoad (S j)
  else if is_single o then Callback else FenceA.
Definition first_wait (o : op) (l : loc) : pc :=
  if Nat.ltb 0 (seg_n l) then WLoad 0 else if is_single o then Callback else FenceA.
(* enter the slow path of wait_until_reach_expected_version having read (v, w) *)
Definition slow_path (o : op) (j : nat) (v : Z) (w : bool) : pc :=
  if ofwait o then (if block_no_waiter (word16 v w) then WCas j v else WFutex j v) else WSleep j.

(* the current segment is over with `done` elements dealt: next segment or return *)
Definition end_segment (s : st) (t : nat) (th : thread) (o : op) : st :=
  let l := add_cnt (lc th) in
  match rest l, okind o with
  | Some (i2, n2), KBatch => upd s t (goto_lc th (first_wait o (set_seg l i2 n2 None)) (add_tk (set_seg l i2 n2 None)))
  | Some (i2, n2), (KTryN | KUntil) =>
    if try_short o (seg_n l) (seg_req l) then upd s t (finish_op th (mk_res l (cnt l)))
    else upd s t (goto_lc th (if Nat.ltb 0 n2 then TnVer 0 else TnCas) (set_seg l i2 n2 None))
  | _, _ => upd s t (finish_op th (mk_res l (cnt l)))
  end.
(* try_deal_n_continuously returned 0 for the current segment *)
Definition end_segment_zero (s : st) (t : nat) (th : thread) (o : op) : st :=
  end_segment s t (goto_lc th (tpc th) (set_n (lc th) 0)) o.

Definition after_pubs (s : st) (t : nat) (th : thread) (o : op) : st :=
  if fwake (oflags o) then upd s t (goto th FenceSC) else end_segment s t th o.
Definition next_wk (s : st) (t : nat) (th : thread) (o : op) (j : nat) : st :=
  if Nat.ltb (S j) (seg_n (lc th)) then upd s t (goto th (WkLoad (S j))) else end_segment s t th o.

(* ticket obtained: index i for n elements *)
Definition got_ticket (s : st) (t : nat) (th : thread) (o : op) (i : Z) : st :=
  let '((i1, n1), r) := split o (mask s) i (Z.of_nat (onum o)) in
  let l := add_tk (set_seg (set_io (lc th) (ovals o) []) i1 n1 r) in
  upd s t (goto_lc th (first_wait o l) l).

Definition step_thread (s : st) (t : nat) (th : thread) (o : op) : option st :=
  let l := lc th in
  let role := is_push o in
  match tpc th with
  | Idle =>
    match okind o with
    | KSingle | KBatch =>
      let i := next_of s role in
      if oconc o then Some (got_ticket (with_next s role (i + Z.of_nat (onum o))) t th o i)   (* fetch_add *)
      else Some (upd s t (goto th (TkStore i)))                                               (* load *)
    | KTry => Some (upd s t (goto_lc th (TryVer (next_of s role)) (set_io l (ovals o) [])))   (* load index *)
    | KTryN =>
      let i := next_of s role in                                                              (* load index *)
      let '((i1, n1), r) := split o (mask s) i (Z.of_nat (onum o)) in
      let l1 := set_seg (set_io l (ovals o) []) i1 n1 r in
      Some (upd s t (goto_lc th (if Nat.ltb 0 n1 then TnVer 0 else TnCas) l1))
    | KUntil =>                                                                               (* load index *)
      let tmo := match o with OPopUntil _ _ d => d | _ => 0 end in
      Some (upd s t (goto_lc th (WLoad 0) (set_time l (until_index (npop s) (Z.of_nat (onum o))) 0 tmo 0)))
    end
  | TkStore i =>                                                                              (* store index+num *)
    Some (got_ticket (with_next s role (i + Z.of_nat (onum o))) t th o i)
  | WLoad j =>
    let '(sl, e) := wait_target s o l j in
    let x := get_slot s sl in
    if wait_ready (ver x) e then Some (upd s t (goto th (after_wait o l j)))
    else Some (upd s t (goto_lc th (slow_path o j (ver x) (wf x))
                            (if is_timed o then set_time l (uidx l) (clock s) (trem l) 0 else l)))
  | WCas j cur =>
    let '(sl, e) := wait_target s o l j in
    let x := get_slot s sl in
    if Z.eqb (slot_word x) (word16 cur false) then
      let w' := negb (block_no_waiter (block_wait_word (slot_word x))) in
      Some (upd (set_slot s sl {| ver := ver x; wf := w'; pay := pay x; own := own x |}) t (goto th (WFutex j cur)))
    else if block_cas_ready (ver x) e then Some (upd s t (goto th (after_wait o l j)))
    else Some (upd s t (goto th (if block_no_waiter (slot_word x) then WCas j (ver x) else WFutex j (ver x))))
  | WFutex j cur =>
    let '(sl, e) := wait_target s o l j in
    let x := get_slot s sl in
    if Z.eqb (slot_word x) (word16 cur true) then
      Some (upd s t (goto_lc th (WParked j sl) (set_time l (uidx l) (tbegin l) (trem l) (clock s + trem l))))
    else Some (upd s t (goto th (WReload j)))
  | WParked j sl =>
    if is_timed o && (dl l <=? clock s) then Some (upd s t (goto th (after_wait o l j)))      (* ETIMEDOUT *)
    else None
  | WReload j =>
    let '(sl, e) := wait_target s o l j in
    let x := get_slot s sl in
    if block_reload_ready (ver x) e then Some (upd s t (goto th (after_wait o l j)))
    else
      let nxt := if block_no_waiter (slot_word x) then WCas j (ver x) else WFutex j (ver x) in
      if is_timed o then
        let d := trem l - block_elapsed (tbegin l) (clock s) in
        if block_expired d then Some (upd s t (goto th (after_wait o l j)))
        else Some (upd s t (goto_lc th nxt (set_time l (uidx l) (tbegin l) d (dl l))))
      else Some (upd s t (goto th nxt))
  | WSleep j => Some (upd s t (goto th (WSpin j)))
  | WSpin j =>
    let '(sl, e) := wait_target s o l j in
    let x := get_slot s sl in
    if spin_ready (ver x) e then Some (upd s t (goto th (after_wait o l j)))
    else Some (upd s t (goto th (WSleep j)))
  | FenceA => Some (upd s t (goto th Callback))
  | Callback =>
    let base := seg_slot s o l 0 in
    let nxt := if is_single o then Pub 0 else FenceR in
    if role then
      let '(sls, ps, e) := cb_push t (slots s) base (seg_i l) (firstn (seg_n l) (vals l)) (pushed s) (err s) in
      Some (upd (with_ghost s sls ps (delivered s) e) t (goto_lc th nxt (set_io l (skipn (seg_n l) (vals l)) (got l))))
    else
      let '(sls, ds, g, e) := cb_pop t (slots s) base (seg_i l) (seg_n l) (delivered s) (got l) (err s) in
      Some (upd (with_ghost s sls (pushed s) ds e) t (goto_lc th nxt (set_io l (vals l) g)))
  | FenceR => if Nat.ltb 0 (seg_n l) then Some (upd s t (goto th (Pub 0))) else Some (after_pubs s t th o)
  | Pub j =>
    let sl := seg_slot s o l j in
    let x := get_slot s sl in
    let e := seg_ever s o l in
    if is_single o then
      if fwake (oflags o) then                                                                (* exchange *)
        let s1 := set_slot s sl {| ver := next_ver (okind o) true e; wf := false; pay := pay x; own := None |} in
        if xchg_no_waiter (slot_word x) then Some (end_segment s1 t th o)
        else Some (upd s1 t (goto th (PubWake sl)))
      else                                                                                    (* 16-bit store *)
        Some (end_segment (set_slot s sl {| ver := next_ver (okind o) false e; wf := wf x; pay := pay x; own := None |})
                          t th o)
    else
      let s1 := set_slot s sl {| ver := next_ver (okind o) true e; wf := wf x; pay := pay x; own := None |} in
      if Nat.ltb (S j) (seg_n l) then Some (upd s1 t (goto th (Pub (S j)))) else Some (after_pubs s1 t th o)
  | PubWake sl => Some (end_segment (wake_all s sl) t th o)
  | FenceSC => if Nat.ltb 0 (seg_n l) then Some (upd s t (goto th (WkLoad 0))) else Some (end_segment s t th o)
  | WkLoad j =>
    let sl := seg_slot s o l j in
    let x := get_slot s sl in
    if wakeup_no_waiter (slot_word x) then Some (next_wk s t th o j)
    else if wakeup_moved_on (ver x) (wake_ver (okind o) (seg_ever s o l)) then Some (next_wk s t th o j)
    else Some (upd s t (goto th (WkCas j (ver x))))
  | WkCas j cur =>
    let sl := seg_slot s o l j in
    let x := get_slot s sl in
    if Z.eqb (slot_word x) (word16 cur true) then
      Some (upd (set_slot s sl {| ver := ver x; wf := false; pay := pay x; own := own x |}) t (goto th (WkWake j sl)))
    else Some (next_wk s t th o j)
  | WkWake j sl => Some (next_wk (wake_all s sl) t th o j)
  | TryVer i =>
    let sl := Z.to_nat (slot_z KTry i (mask s)) in
    let x := get_slot s sl in
    if try_deal_not_ready (ever s role i) (ver x) then
      Some (upd s t (goto_lc th (TryReidx i) (set_just l (Z.eqb (next_of s role) i) false)))
    else Some (upd s t (goto th (TryCas i)))
  | TryReidx i =>
    let c := next_of s role in
    if try_deal_same_index c i then Some (upd s t (finish_op th (mk_res l 0)))
    else Some (upd s t (goto th (TryVer c)))
  | TryCas i =>
    if oconc o && negb (Z.eqb (next_of s role) i) then Some (upd s t (goto th (TryVer (next_of s role))))
    else
      let l1 := add_tk (set_seg l i 1 None) in
      Some (upd (with_next s role (try_deal_next_index i)) t (goto_lc th Callback l1))
  | TnVer j =>
    let sl := seg_slot s o l j in
    let x := get_slot s sl in
    if try_deal_n_not_ready (seg_ever s o l) (ver x) then
      let l1 := set_just (set_n l j) (Z.eqb (next_of s role) (seg_i l)) (negb (Z.eqb (next_of s role) (seg_i l))) in
      if try_deal_n_none (Z.of_nat j) then Some (end_segment_zero s t (goto_lc th (tpc th) l1) o)
      else Some (upd s t (goto_lc th TnCas l1))
    else if Nat.ltb (S j) (seg_n l) then Some (upd s t (goto th (TnVer (S j))))
    else Some (upd s t (goto th TnCas))
  | TnCas =>
    if try_deal_n_none (Z.of_nat (seg_n l)) then Some (end_segment_zero s t th o)
    else if match o with OPopUntil _ _ _ => false | _ => conc (oflags o) end then
      if Z.eqb (next_of s role) (seg_i l) then
        Some (upd (with_next s role (try_deal_n_next_index (seg_i l) (Z.of_nat (seg_n l)))) t (goto_lc th FenceA (add_tk l)))
      else Some (end_segment_zero s t (goto_lc th (tpc th) (set_just l false true)) o)
    else Some (upd (with_next s role (try_deal_n_next_index_excl (seg_i l) (Z.of_nat (seg_n l)))) t
                   (goto_lc th FenceA (add_tk l)))
  | TnIdx =>
    (* the tail of try_pop_n_exclusively_until: nothing but "return try_pop_n<false,...>(callback, num)" -
       until_try_num is regenerated from that tail, and no blocking pop_n may appear there *)
    let i := next_of s role in
    let '((i1, n1), r) := split o (mask s) i (until_try_num (Z.of_nat (onum o))) in
    let l1 := set_seg l i1 n1 r in
    Some (upd s t (goto_lc th (if Nat.ltb 0 n1 then TnVer 0 else TnCas) l1))
  end.

Definition step (s : st) (t : nat) : option st :=
  match nth_error (threads s) t with
  | Some th =>
    match nth_error (prog th) (opi th) with
    | Some o => step_thread s t th o
    | None => None
    end
  | None =>
    if Nat.eqb t (length (threads s)) then        (* the clock advances one unit *)
      Some {| kbits := kbits s; npush := npush s; npop := npop s; slots := slots s; threads := threads s;
              clock := clock s + 1; pushed := pushed s; delivered := delivered s; err := err s |}
    else None
  end.

(* a spin waiter whose slot is not ready only loops usleep/load without effect: explorers may skip it *)
Definition spin_idle (s : st) (t : nat) : bool :=
  match nth_error (threads s) t with
  | Some th =>
    match tpc th, nth_error (prog th) (opi th) with
    | WSleep j, Some o => let '(sl, e) := wait_target s o (lc th) j in negb (spin_ready (ver (get_slot s sl)) e)
    | _, _ => false
    end
  | None => false
  end.

(* ---- observables ---- *)
Definition thread_done (th : thread) : bool :=
  match nth_error (prog th) (opi th) with None => true | Some _ => false end.
Definition all_done (s : st) : bool := forallb thread_done (threads s).
Definition timed_parked (th : thread) : bool :=
  match tpc th, nth_error (prog th) (opi th) with WParked _ _, Some o => is_timed o | _, _ => false end.
Definition has_timed_parked (s : st) : bool := existsb timed_parked (threads s).
Definition outcome (s : st) : list (list res) := map results (threads s).

(* ---- documented usage rules, as a boolean on client programs ---- *)
Definition all_ops (progs : list (list op)) : list op := concat progs.
Definition side_ops (role : bool) (p : list op) : list op := filter (fun o => Bool.eqb (is_push o) role) p.
Definition threads_on_side (role : bool) (progs : list (list op)) : nat :=
  length (filter (fun p => negb (match side_ops role p with [] => true | _ => false end)) progs).
(* (1) a !CONCURRENT op on a side only if a single thread issues all ops of that side *)
Definition excl_ok (role : bool) (progs : list (list op)) : bool :=
  forallb oconc (side_ops role (all_ops progs)) || Nat.leb (threads_on_side role progs) 1.
(* (2) a futex waiter on one side requires USE_FUTEX_WAKE on every op of the opposite side *)
Definition wake_ok (role : bool) (progs : list (list op)) : bool :=
  negb (existsb ofwait (side_ops role (all_ops progs))) ||
  forallb (fun o => fwake (oflags o)) (side_ops (negb role) (all_ops progs)).
(* (3) batch sizes up to the capacity *)
Definition size_ok (k : nat) (progs : list (list op)) : bool :=
  forallb (fun o => Nat.leb (onum o) (Nat.pow 2 k)) (all_ops progs).
Definition usage_ok (k : nat) (progs : list (list op)) : bool :=
  excl_ok true progs && excl_ok false progs && wake_ok true progs && wake_ok false progs && size_ok k progs.

(* ---- public entry points ----
   Every public overload only forwards: value / pointer / iterator overloads to the callback overload of the same name, the
   overloads without template arguments to the ones with <true, true, true> (<true, true> for try_), and the callback
   overloads hand <USE_FUTEX_WAIT, USE_FUTEX_WAKE, PUSH_OR_POP> to deal / deal_n_continuously resp.
   <CONCURRENT, USE_FUTEX_WAKE, PUSH_OR_POP> to try_deal / try_deal_n_continuously.  Each forwarded template-argument list
   is regenerated from the source as an integer code (Gen.fw_*: a * 4 + b * 2 + c for three arguments, a * 2 + b for two),
   so a call written by the client through entry point e with flags f runs the core operation with the flags the
   wrappers really pass on (`lower`).  try_push(value) / try_push(callback) without template arguments cannot be
   instantiated (they name try_push<true, true, true>) and are no entry points here. *)
Inductive entry := EnCb | EnVal | EnPtr | EnIt | EnDefCb | EnDefVal | EnDefPtr | EnDefIt.
Record call := { c_entry : entry; c_op : op }.

Definition bz (b : bool) : Z := if b then 1 else 0.
Definition f3 (z : Z) : flags := {| conc := Z.testbit z 2; fwait := Z.testbit z 1; fwake := Z.testbit z 0 |}.
Definition f2 (z : Z) (f : flags) : flags := {| conc := Z.testbit z 1; fwait := fwait f; fwake := Z.testbit z 0 |}.
Definition via3 (g : Z -> Z -> Z -> Z) (f : flags) : flags := f3 (g (bz (conc f)) (bz (fwait f)) (bz (fwake f))).
Definition via2 (g : Z -> Z -> Z) (f : flags) : flags := f2 (g (bz (conc f)) (bz (fwake f))) f.
(* callback overload -> deal / deal_n_continuously <WAIT, WAKE, PUSH_OR_POP> *)
Definition core_wk (g : Z -> Z -> Z) (f : flags) : flags :=
  let z := g (bz (fwait f)) (bz (fwake f)) in {| conc := conc f; fwait := Z.testbit z 2; fwake := Z.testbit z 1 |}.
(* callback overload -> try_deal / try_deal_n_continuously <CONCURRENT, WAKE, PUSH_OR_POP> *)
Definition core_ck (g : Z -> Z -> Z) (f : flags) : flags :=
  let z := g (bz (conc f)) (bz (fwake f)) in {| conc := Z.testbit z 2; fwait := fwait f; fwake := Z.testbit z 1 |}.
(* try_pop_n_exclusively_until<WAKE> -> try_pop_n<false, WAKE>: the client's CONCURRENT is meaningless and kept *)
Definition until_flags (f : flags) : flags :=
  let z := fw_until_core (bz (fwake f)) in {| conc := conc f; fwait := fwait f; fwake := Z.testbit z 0 |}.

Definition lower_flags (o : op) (e : entry) : option flags :=
  let f := oflags o in
  match o, e with
  | OPush _ _, EnCb => Some (core_wk fw_push_core f)
  | OPush _ _, EnVal => Some (core_wk fw_push_core (via3 fw_push_value f))
  | OPush _ _, EnDefCb => Some (core_wk fw_push_core (f3 fw_push_default_cb))
  | OPush _ _, EnDefVal => Some (core_wk fw_push_core (via3 fw_push_value (f3 fw_push_default_value)))
  | OPop _, EnCb => Some (core_wk fw_pop_core f)
  | OPop _, EnVal => Some (core_wk fw_pop_core (via3 fw_pop_ref f))
  | OPop _, EnPtr => Some (core_wk fw_pop_core (via3 fw_pop_ref (via3 fw_pop_ptr f)))
  | OPop _, EnDefCb => Some (core_wk fw_pop_core (f3 fw_pop_default_cb))
  | OPop _, EnDefVal => Some (core_wk fw_pop_core (via3 fw_pop_ref (f3 fw_pop_default_ref)))
  | OPop _, EnDefPtr => Some (core_wk fw_pop_core (via3 fw_pop_ref (via3 fw_pop_ptr (f3 fw_pop_default_ptr))))
  | OTryPush _ _, EnCb => Some (core_ck fw_try_push_core f)
  | OTryPush _ _, EnVal => Some (core_ck fw_try_push_core (via2 fw_try_push_value f))
  | OTryPop _, EnCb => Some (core_ck fw_try_pop_core f)
  | OTryPop _, EnVal => Some (core_ck fw_try_pop_core (via2 fw_try_pop_ref f))
  | OTryPop _, EnDefCb => Some (core_ck fw_try_pop_core (f2 fw_try_pop_default_cb f))
  | OTryPop _, EnDefVal => Some (core_ck fw_try_pop_core (via2 fw_try_pop_ref (f2 fw_try_pop_default_ref f)))
  | OPushN _ _, EnCb => Some (core_wk fw_push_n_core_whole f)
  | OPushN _ _, EnIt => Some (core_wk fw_push_n_core_whole (via3 fw_push_n_it f))
  | OPushN _ _, EnDefCb => Some (core_wk fw_push_n_core_whole (f3 fw_push_n_default_cb))
  | OPushN _ _, EnDefIt => Some (core_wk fw_push_n_core_whole (via3 fw_push_n_it (f3 fw_push_n_default_it)))
  | OPopN _ _, EnCb => Some (core_wk fw_pop_n_core_whole f)
  | OPopN _ _, EnIt => Some (core_wk fw_pop_n_core_whole (via3 fw_pop_n_it f))
  | OPopN _ _, EnDefCb => Some (core_wk fw_pop_n_core_whole (f3 fw_pop_n_default_cb))
  | OPopN _ _, EnDefIt => Some (core_wk fw_pop_n_core_whole (via3 fw_pop_n_it (f3 fw_pop_n_default_it)))
  | OTryPushN _ _, EnCb => Some (core_ck fw_try_push_n_core_whole f)
  | OTryPopN _ _, EnCb => Some (core_ck fw_try_pop_n_core_whole f)
  | OPopUntil _ _ _, EnCb => Some (core_ck fw_try_pop_n_core_whole (until_flags f))
  | _, _ => None
  end.
Definition with_flags (o : op) (f : flags) : op :=
  match o with
  | OPush _ v => OPush f v | OPop _ => OPop f | OTryPush _ v => OTryPush f v | OTryPop _ => OTryPop f
  | OPushN _ vs => OPushN f vs | OPopN _ n => OPopN f n | OTryPushN _ vs => OTryPushN f vs | OTryPopN _ n => OTryPopN f n
  | OPopUntil _ n t => OPopUntil f n t
  end.
(* the core operation a client call really runs *)
Definition lower (c : call) : op :=
  match lower_flags (c_op c) (c_entry c) with Some f => with_flags (c_op c) f | None => c_op c end.
Definition lower_progs (cp : list (list call)) : list (list op) := map (map lower) cp.
Definition declared (cp : list (list call)) : list (list op) := map (map c_op) cp.

Definition eqf (a b : flags) : bool := Bool.eqb (conc a) (conc b) && Bool.eqb (fwait a) (fwait b) && Bool.eqb (fwake a) (fwake b).
Definition fdefault : flags := {| conc := true; fwait := true; fwake := true |}.
(* the overload exists, and the overloads without template arguments are "written" with their documented defaults *)
Definition entry_ok (c : call) : bool :=
  match lower_flags (c_op c) (c_entry c) with
  | None => false
  | Some _ =>
    match c_entry c with
    | EnDefCb | EnDefVal | EnDefPtr | EnDefIt =>
      match okind (c_op c) with
      | KTry => conc (oflags (c_op c)) && fwake (oflags (c_op c))
      | _ => eqf (oflags (c_op c)) fdefault
      end
    | _ => true
    end
  end.
Definition calls_ok (cp : list (list call)) : bool := forallb (forallb entry_ok) cp.

(* the three deal_n_continuously / try_deal_n_continuously calls of a batch overload pass the same list, every core passes
   PUSH_OR_POP = true on the push side and false on the pop side, the timed pop names try_pop_n<false, ...> *)
Definition all2 (p : Z -> Z -> bool) : bool := p 0 0 && p 0 1 && p 1 0 && p 1 1.
Definition same2 (g h : Z -> Z -> Z) : bool := all2 (fun a b => Z.eqb (g a b) (h a b)).
Definition role2 (g : Z -> Z -> Z) (push : bool) : bool := all2 (fun a b => Bool.eqb (Z.testbit (g a b) 0) push).
Definition cores_ok : bool :=
  role2 fw_push_core true && role2 fw_pop_core false && role2 fw_try_push_core true && role2 fw_try_pop_core false &&
  role2 fw_push_n_core_whole true && same2 fw_push_n_core_whole fw_push_n_core_first && same2 fw_push_n_core_whole fw_push_n_core_second &&
  role2 fw_pop_n_core_whole false && same2 fw_pop_n_core_whole fw_pop_n_core_first && same2 fw_pop_n_core_whole fw_pop_n_core_second &&
  role2 fw_try_push_n_core_whole true && same2 fw_try_push_n_core_whole fw_try_push_n_core_first &&
  same2 fw_try_push_n_core_whole fw_try_push_n_core_second &&
  role2 fw_try_pop_n_core_whole false && same2 fw_try_pop_n_core_whole fw_try_pop_n_core_first &&
  same2 fw_try_pop_n_core_whole fw_try_pop_n_core_second &&
  negb (Z.testbit (fw_until_core 0) 1) && negb (Z.testbit (fw_until_core 1) 1).

(* ---- swap (the move constructor and move assignment are swap) ----
   Which member of `other` each member of `this` is exchanged with is regenerated from the body of swap as a member code
   (1 _slots, 2 _slot_mask, 3 _slot_bits, 4 _next_push_index, 5 _next_pop_index; for the two indices: the member
   `this` stores from, the local `other` is assigned from and the member that local was read from). *)
Record aq := { a_slots : Z; a_mask : Z; a_bits : Z; a_push : Z; a_pop : Z }.
Definition getm (code : Z) (q : aq) : Z :=
  match code with 1 => a_slots q | 2 => a_mask q | 3 => a_bits q | 4 => a_push q | 5 => a_pop q | _ => -1 end.
Definition swap_local (code : Z) (this : aq) : Z :=
  match code with 4 => getm sw_local_push_src this | 5 => getm sw_local_pop_src this | _ => -1 end.
(* std::swap(m, other.x): other.x receives m; it is other's member m only if x = m *)
Definition swapped_back (own code : Z) (this : aq) : Z := if Z.eqb own code then getm own this else -1.
Definition swap_this (this other : aq) : aq :=
  {| a_slots := getm sw_slots other; a_mask := getm sw_mask other; a_bits := getm sw_bits other;
     a_push := getm sw_this_push other; a_pop := getm sw_this_pop other |}.
Definition swap_other (this other : aq) : aq :=
  {| a_slots := swapped_back 1 sw_slots this; a_mask := swapped_back 2 sw_mask this; a_bits := swapped_back 3 sw_bits this;
     a_push := swap_local sw_other_push_local this; a_pop := swap_local sw_other_pop_local this |}.
