(* Proofs about BQModel.  Statements are fixed by Properties_C01.v / Properties_C02.v. *)
From Coq Require Import ZArith List Bool Lia.
Require Import Verif.Base.Atomics Verif.Gen.Gen_bounded_queue Verif.Conc.Machine Verif.BQ.BQModel.
Import ListNotations.
Local Open Scope Z_scope.

Lemma length_set_nth : forall A (l : list A) n x, length (set_nth n x l) = length l.
Proof. induction l as [|y l IH]; intros [|n] x; cbn; auto. Qed.
Lemma nth_error_set_nth_eq : forall A (l : list A) n x, (n < length l)%nat -> nth_error (set_nth n x l) n = Some x.
Proof. induction l as [|y l IH]; intros [|n] x H; cbn in *; try lia; auto. apply IH. lia. Qed.
Lemma nth_error_set_nth_neq : forall A (l : list A) n m x, n <> m -> nth_error (set_nth n x l) m = nth_error l m.
Proof. induction l as [|y l IH]; intros [|n] [|m] x H; cbn in *; try congruence; auto. Qed.
Lemma nth_set_nth_neq : forall A (l : list A) n m x d, n <> m -> nth m (set_nth n x l) d = nth m l d.
Proof. induction l as [|y l IH]; intros [|n] [|m] x d H; cbn in *; try congruence; auto. Qed.
Lemma nth_set_nth_eq : forall A (l : list A) n x d, (n < length l)%nat -> nth n (set_nth n x l) d = x.
Proof. induction l as [|y l IH]; intros [|n] x d H; cbn in *; try lia; auto. apply IH. lia. Qed.
Lemma nth_error_set_nth_some : forall A (l : list A) n m x y, nth_error (set_nth n x l) m = Some y ->
  (n = m /\ y = x) \/ (n <> m /\ nth_error l m = Some y).
Proof.
  intros A l n m x y H. destruct (Nat.eq_dec n m) as [->|N].
  - left. split; auto. destruct (Nat.lt_ge_cases m (length l)) as [L|L].
    + rewrite nth_error_set_nth_eq in H by auto. congruence.
    + assert (nth_error (set_nth m x l) m = None) by (apply nth_error_None; rewrite length_set_nth; lia). congruence.
  - right. split; auto. rewrite nth_error_set_nth_neq in H; auto.
Qed.

(* the wf field of a slot fetched with default *)
Definition wfs (sls : list slot) (sl : nat) : bool := wf (nth sl sls slot0).
Lemma wfs_set_same : forall sls n x sl, wf x = wfs sls n -> wfs (set_nth n x sls) sl = wfs sls sl.
Proof.
  intros sls n x sl H. unfold wfs in *. destruct (Nat.eq_dec n sl) as [->|N].
  - destruct (Nat.lt_ge_cases sl (length sls)).
    + rewrite nth_set_nth_eq; auto.
    + rewrite !nth_overflow; auto. rewrite length_set_nth. lia.
  - rewrite nth_set_nth_neq; auto.
Qed.
Lemma cb_push_wf : forall vs t sls base i ps e sl, wfs (fst (fst (cb_push t sls base i vs ps e))) sl = wfs sls sl.
Proof.
  induction vs as [|v vs IH]; intros; cbn [cb_push]; auto.
  rewrite IH. apply wfs_set_same. reflexivity.
Qed.
Lemma cb_pop_wf : forall n t sls base i ds g e sl, wfs (fst (fst (fst (cb_pop t sls base i n ds g e)))) sl = wfs sls sl.
Proof.
  induction n as [|n IH]; intros; cbn [cb_pop]; auto.
  rewrite IH. apply wfs_set_same. reflexivity.
Qed.

Definition benign (p : pc) : Prop := match p with WParked _ _ | PubWake _ | WkWake _ _ => False | _ => True end.

Lemma benign_after_wait : forall o l j, benign (after_wait o l j).
Proof. intros. unfold after_wait. repeat destruct (_ : bool); exact I. Qed.
Lemma benign_first_wait : forall o l, benign (first_wait o l).
Proof. intros. unfold first_wait. repeat destruct (_ : bool); exact I. Qed.
Lemma benign_slow_path : forall o j v w, benign (slow_path o j v w).
Proof. intros. unfold slow_path. repeat destruct (_ : bool); exact I. Qed.

Ltac ben := cbn; repeat (match goal with |- context [match ?x with _ => _ end] => destruct x end; cbn); exact I.

Lemma end_segment_shape : forall s t th o, exists th', end_segment s t th o = upd s t th' /\ benign (tpc th') /\ prog th' = prog th.
Proof.
  intros. unfold end_segment.
  destruct (rest (add_cnt (lc th))) as [[i2 n2]|]; destruct (okind o);
    try (eexists; split; [reflexivity| split; [exact I | reflexivity]]).
  - eexists; split; [reflexivity| split; [apply benign_first_wait | reflexivity]].
  - destruct (try_short _ _ _); eexists; (split; [reflexivity| split; [|reflexivity]]); ben.
  - destruct (try_short _ _ _); eexists; (split; [reflexivity| split; [|reflexivity]]); ben.
Qed.

Definition wfS (s : st) (sl : nat) : bool := wfs (slots s) sl.
Definition iscertain (p : pc) (sl : nat) : Prop :=
  match p with PubWake sl' => sl' = sl | WkWake _ sl' => sl' = sl | _ => False end.
Definition notcertain (p : pc) : Prop := forall sl, ~ iscertain p sl.

Inductive effect (s : st) (t : nat) (th : thread) (s' : st) : Prop :=
| EQuiet th' : threads s' = set_nth t th' (threads s) -> benign (tpc th') -> (forall sl, wfS s' sl = wfS s sl) ->
               notcertain (tpc th) -> effect s t th s'
| ESetW th' : threads s' = set_nth t th' (threads s) -> benign (tpc th') ->
               (forall sl, wfS s sl = true -> wfS s' sl = true) -> notcertain (tpc th) -> effect s t th s'
| EPark th' j sl0 : threads s' = set_nth t th' (threads s) -> tpc th' = WParked j sl0 -> wfS s sl0 = true ->
               (forall sl, wfS s' sl = wfS s sl) -> notcertain (tpc th) -> effect s t th s'
| EClear th' sl0 : threads s' = set_nth t th' (threads s) -> (forall sl, sl <> sl0 -> wfS s' sl = wfS s sl) ->
               (tpc th' = PubWake sl0 \/ (exists j, tpc th' = WkWake j sl0) \/ (benign (tpc th') /\ wfS s sl0 = false)) ->
               notcertain (tpc th) -> effect s t th s'
| EWake th' sl0 : threads s' = set_nth t th' (map (wake_thread sl0) (threads s)) -> benign (tpc th') ->
               (forall sl, wfS s' sl = wfS s sl) -> (forall sl, iscertain (tpc th) sl -> sl = sl0) -> effect s t th s'.

Section Eff.
Variables (s : st) (t : nat) (th : thread).

Lemma quiet_upd : forall X th', threads X = threads s -> (forall sl, wfS X sl = wfS s sl) -> benign (tpc th') ->
  notcertain (tpc th) -> effect s t th (upd X t th').
Proof. intros X th' HT HW B N. eapply EQuiet with (th' := th'); auto. cbn. now rewrite HT. Qed.

Lemma quiet_end_segment : forall X th1 o, threads X = threads s -> (forall sl, wfS X sl = wfS s sl) ->
  notcertain (tpc th) -> effect s t th (end_segment X t th1 o).
Proof. intros X th1 o HT HW N. destruct (end_segment_shape X t th1 o) as (th' & -> & B & _). apply quiet_upd; auto. Qed.

Lemma quiet_end_segment_zero : forall X th1 o, threads X = threads s -> (forall sl, wfS X sl = wfS s sl) ->
  notcertain (tpc th) -> effect s t th (end_segment_zero X t th1 o).
Proof. intros. unfold end_segment_zero. apply quiet_end_segment; auto. Qed.

Lemma quiet_after_pubs : forall X th1 o, threads X = threads s -> (forall sl, wfS X sl = wfS s sl) ->
  notcertain (tpc th) -> effect s t th (after_pubs X t th1 o).
Proof. intros. unfold after_pubs. destruct (fwake _). apply quiet_upd; auto. exact I. apply quiet_end_segment; auto. Qed.

Lemma quiet_next_wk : forall X th1 o j, threads X = threads s -> (forall sl, wfS X sl = wfS s sl) ->
  notcertain (tpc th) -> effect s t th (next_wk X t th1 o j).
Proof. intros. unfold next_wk. destruct (Nat.ltb _ _). apply quiet_upd; auto. exact I. apply quiet_end_segment; auto. Qed.

Lemma quiet_got_ticket : forall X th1 o i, threads X = threads s -> (forall sl, wfS X sl = wfS s sl) ->
  notcertain (tpc th) -> effect s t th (got_ticket X t th1 o i).
Proof.
  intros. unfold got_ticket. destruct (split _ _ _ _) as [[i1 n1] r]. apply quiet_upd; auto. apply benign_first_wait.
Qed.
End Eff.

Lemma wfS_set_slot_same : forall s sl x sl', wf x = wfS s sl -> wfS (set_slot s sl x) sl' = wfS s sl'.
Proof. intros. unfold wfS, set_slot. cbn. apply wfs_set_same. exact H. Qed.
Lemma wfS_set_slot_other : forall s sl x sl', sl' <> sl -> wfS (set_slot s sl x) sl' = wfS s sl'.
Proof. intros. unfold wfS, set_slot, wfs. cbn. rewrite nth_set_nth_neq; auto. Qed.

(* facts about the futex word *)
Lemma word16_flag : forall v w, block_no_waiter (word16 v w) = negb w.
Proof.
  intros. unfold block_no_waiter, word16. pose proof (Z.mod_pos_bound v 65536 ltac:(lia)).
  destruct w; cbn; [apply Z.leb_gt | apply Z.leb_le]; lia.
Qed.
Lemma word16_flag_x : forall v w, xchg_no_waiter (word16 v w) = negb w.
Proof.
  intros. unfold xchg_no_waiter, word16. pose proof (Z.mod_pos_bound v 65536 ltac:(lia)).
  destruct w; cbn; [apply Z.leb_gt | apply Z.leb_le]; lia.
Qed.
Lemma word16_flag_w : forall v w, wakeup_no_waiter (word16 v w) = negb w.
Proof.
  intros. unfold wakeup_no_waiter, word16. pose proof (Z.mod_pos_bound v 65536 ltac:(lia)).
  destruct w; cbn; [apply Z.leb_gt | apply Z.leb_le]; lia.
Qed.
Lemma word16_set_waiter : forall v, block_no_waiter (block_wait_word (word16 v false)) = false.
Proof.
  intros. unfold block_no_waiter, block_wait_word, word16. pose proof (Z.mod_pos_bound v 65536 ltac:(lia)).
  apply Z.leb_gt. lia.
Qed.
Lemma word16_eq_flag : forall v w c w', word16 v w = word16 c w' -> w = w'.
Proof.
  intros v w c w'. unfold word16. pose proof (Z.mod_pos_bound v 65536 ltac:(lia)). pose proof (Z.mod_pos_bound c 65536 ltac:(lia)).
  destruct w, w'; intros; auto; lia.
Qed.

Lemma wfS_set_slot_mono : forall s sl x sl', wf x = true -> wfS s sl' = true -> wfS (set_slot s sl x) sl' = true.
Proof.
  intros s sl x sl' Hx H. unfold wfS, set_slot, wfs in *. cbn. destruct (Nat.eq_dec sl sl') as [->|N].
  - destruct (Nat.lt_ge_cases sl' (length (slots s))).
    + rewrite nth_set_nth_eq; auto.
    + rewrite nth_overflow in H; [discriminate | lia].
  - rewrite nth_set_nth_neq; auto.
Qed.

Ltac inv H := inversion H; subst; clear H.
Ltac brk H := repeat match type of H with context [if ?b then _ else _] => destruct b eqn:? end.

Lemma step_effect : forall s t th o s', nth_error (threads s) t = Some th ->
  step_thread s t th o = Some s' -> effect s t th s'.
Proof.
  intros s t th o s' HT H. unfold step_thread in H. cbv zeta in H.
  destruct (tpc th) eqn:E.
  all: try (assert (N : notcertain (tpc th)) by (intros ?sl ?C; rewrite E in C; exact C)).
  Ltac q := first [ apply quiet_upd | apply quiet_end_segment_zero | apply quiet_end_segment | apply quiet_after_pubs
                  | apply quiet_next_wk | apply quiet_got_ticket ]; auto;
            try apply benign_after_wait; try apply benign_slow_path; try apply benign_first_wait; try ben.
  - (* Idle *)
    destruct (okind o).
    + destruct (oconc o); inv H; q.
    + destruct (oconc o); inv H; q.
    + inv H; q.
    + destruct (split _ _ _ _) as [[i1 n1] r]. inv H; q.
    + inv H; q.
  - (* TkStore *) inv H; q.
  - (* WLoad *) destruct (wait_target _ _ _ _) as [sl e]. brk H; inv H; q.
  - (* WCas *)
    destruct (wait_target _ _ _ _) as [sl e].
    destruct (Z.eqb _ _) eqn:EQ.
    + inv H. apply Z.eqb_eq in EQ. unfold slot_word in EQ. unfold slot_word. rewrite EQ. rewrite word16_set_waiter. cbn [negb].
      eapply ESetW; [cbn; reflexivity | exact I | intros; apply wfS_set_slot_mono; auto | exact N].
    + brk H; inv H; q.
  - (* WFutex *)
    destruct (wait_target _ _ _ _) as [sl e].
    destruct (Z.eqb _ _) eqn:EQ.
    + inv H. apply Z.eqb_eq in EQ. unfold slot_word in EQ. apply word16_eq_flag in EQ.
      eapply EPark with (sl0 := sl); [cbn; reflexivity | cbn; reflexivity | exact EQ | intros; reflexivity | exact N].
    + inv H; q.
  - (* WParked *) brk H; inv H; q.
  - (* WReload *) destruct (wait_target _ _ _ _) as [sl e]. brk H; inv H; q.
  - (* WSleep *) inv H; q.
  - (* WSpin *) destruct (wait_target _ _ _ _) as [sl e]. brk H; inv H; q.
  - (* FenceA *) inv H; q.
  - (* Callback *)
    destruct (is_push o).
    + destruct (cb_push _ _ _ _ _ _ _) as [[sls ps] e] eqn:C. inv H. q.
      intros sl. pose proof (cb_push_wf (firstn (seg_n (lc th)) (vals (lc th))) t (slots s) (seg_slot s o (lc th) 0) (seg_i (lc th)) (pushed s) (err s) sl) as W.
      rewrite C in W. exact W.
    + destruct (cb_pop _ _ _ _ _ _ _ _) as [[[sls ds] g] e] eqn:C. inv H. q.
      intros sl. pose proof (cb_pop_wf (seg_n (lc th)) t (slots s) (seg_slot s o (lc th) 0) (seg_i (lc th)) (delivered s) (got (lc th)) (err s) sl) as W.
      rewrite C in W. exact W.
  - (* FenceR *) brk H; inv H; q.
  - (* Pub *)
    destruct (is_single o).
    + destruct (fwake (oflags o)).
      * destruct (xchg_no_waiter _) eqn:XN; inv H.
        -- unfold slot_word in XN. rewrite word16_flag_x in XN.
           match goal with |- effect _ _ _ (end_segment ?X _ _ _) => destruct (end_segment_shape X t th o) as (th' & -> & B & _) end.
           eapply EClear with (sl0 := seg_slot s o (lc th) j);
             [cbn; reflexivity | intros; cbn; apply wfS_set_slot_other; auto | | exact N].
           right; right. split; auto. unfold wfS, wfs. unfold get_slot in XN. destruct (wf _); auto; discriminate.
        -- eapply EClear with (sl0 := seg_slot s o (lc th) j);
             [cbn; reflexivity | intros; cbn; apply wfS_set_slot_other; auto | left; reflexivity | exact N].
      * inv H. q. intros. apply wfS_set_slot_same. reflexivity.
    + brk H; inv H; q; intros; apply wfS_set_slot_same; reflexivity.
  - (* PubWake *)
    inv H. destruct (end_segment_shape (wake_all s sl) t th o) as (th' & -> & B & _).
    eapply EWake with (sl0 := sl); [cbn; reflexivity | exact B | intros; reflexivity | intros sl' C; rewrite E in C; cbn in C; congruence].
  - (* FenceSC *) brk H; inv H; q.
  - (* WkLoad *) brk H; inv H; q.
  - (* WkCas *)
    destruct (Z.eqb _ _) eqn:EQ; inv H.
    + eapply EClear with (sl0 := seg_slot s o (lc th) j);
        [cbn; reflexivity | intros; cbn; apply wfS_set_slot_other; auto | right; left; eexists; reflexivity | exact N].
    + q.
  - (* WkWake *)
    inv H. unfold next_wk. destruct (Nat.ltb _ _).
    + eapply EWake with (sl0 := sl); [cbn; reflexivity | exact I | intros; reflexivity | intros sl' C; rewrite E in C; cbn in C; congruence].
    + destruct (end_segment_shape (wake_all s sl) t th o) as (th' & -> & B & _).
      eapply EWake with (sl0 := sl); [cbn; reflexivity | exact B | intros; reflexivity | intros sl' C; rewrite E in C; cbn in C; congruence].
  - (* TryVer *) brk H; inv H; q.
  - (* TryReidx *) brk H; inv H; q.
  - (* TryCas *) brk H; inv H; q.
  - (* TnVer *) brk H; inv H; q.
  - (* TnCas *) brk H; inv H; q.
  - (* TnIdx *) destruct (split _ _ _ _) as [[i1 n1] r]. inv H; q.
Qed.

Definition Reach (k : nat) (progs : list (list op)) (s : st) : Prop :=
  reachable st step (init k progs) s.

Definition tick (s : st) : st :=
  {| kbits := kbits s; npush := npush s; npop := npop s; slots := slots s; threads := threads s;
     clock := clock s + 1; pushed := pushed s; delivered := delivered s; err := err s |}.

Lemma step_inv : forall s t s', step s t = Some s' ->
  (exists th o, nth_error (threads s) t = Some th /\ nth_error (prog th) (opi th) = Some o /\ step_thread s t th o = Some s')
  \/ (nth_error (threads s) t = None /\ s' = tick s).
Proof.
  intros s t s' H. unfold step in H. destruct (nth_error (threads s) t) as [th|] eqn:E.
  - destruct (nth_error (prog th) (opi th)) as [o|] eqn:F; [|discriminate]. left. eauto.
  - destruct (Nat.eqb _ _); inversion H. right. split; auto.
Qed.

(* ---------------- P: a sleeper is never forgotten ---------------- *)
Definition certain (s : st) (sl : nat) : Prop :=
  exists u thu, nth_error (threads s) u = Some thu /\ iscertain (tpc thu) sl.
Definition Pinv (s : st) : Prop :=
  forall u thu j sl, nth_error (threads s) u = Some thu -> tpc thu = WParked j sl -> wfS s sl = true \/ certain s sl.

Lemma nth_error_lt : forall A (l : list A) n x, nth_error l n = Some x -> (n < length l)%nat.
Proof. intros. apply nth_error_Some. congruence. Qed.

Lemma certain_keep : forall s s' t th th' sl, nth_error (threads s) t = Some th -> notcertain (tpc th) ->
  threads s' = set_nth t th' (threads s) -> certain s sl -> certain s' sl.
Proof.
  intros s s' t th th' sl HT N E (v & thv & Hv & C). exists v, thv. split; auto. rewrite E.
  rewrite nth_error_set_nth_neq; auto. intros ->. rewrite HT in Hv. inversion Hv; subst. exact (N _ C).
Qed.

Lemma wake_thread_certain : forall sl0 x sl, iscertain (tpc (wake_thread sl0 x)) sl <-> iscertain (tpc x) sl.
Proof. intros. unfold wake_thread. destruct (tpc x) eqn:E; try (rewrite E; tauto). destruct (Nat.eqb _ _); cbn; rewrite ?E; cbn; tauto. Qed.
Lemma wake_thread_parked : forall sl0 x j sl, tpc (wake_thread sl0 x) = WParked j sl -> tpc x = WParked j sl /\ sl <> sl0.
Proof.
  intros sl0 x j sl. unfold wake_thread. destruct (tpc x) eqn:E; try (rewrite E; discriminate).
  destruct (Nat.eqb sl0 sl1) eqn:Q; cbn; [discriminate|]. rewrite E. intros H; inversion H; subst. split; auto.
  apply Nat.eqb_neq in Q. auto.
Qed.

Lemma Pinv_effect : forall s t th s', nth_error (threads s) t = Some th -> effect s t th s' -> Pinv s -> Pinv s'.
Proof.
  intros s t th s' HT EF P u thu j sl Hu Hp. pose proof (nth_error_lt _ _ _ _ HT) as LT.
  destruct EF as [th' ET B W N | th' ET B W N | th' j0 sl0 ET TP W0 W N | th' sl0 ET W ALT N | th' sl0 ET B W C].
  - rewrite ET in Hu. apply nth_error_set_nth_some in Hu as [[-> ->]|[NE Hu]].
    + rewrite Hp in B. contradiction.
    + destruct (P _ _ _ _ Hu Hp) as [F|C]. left; rewrite W; auto. right; exact (certain_keep _ _ _ _ _ _ HT N ET C).
  - rewrite ET in Hu. apply nth_error_set_nth_some in Hu as [[-> ->]|[NE Hu]].
    + rewrite Hp in B. contradiction.
    + destruct (P _ _ _ _ Hu Hp) as [F|C]. left; auto. right; exact (certain_keep _ _ _ _ _ _ HT N ET C).
  - rewrite ET in Hu. apply nth_error_set_nth_some in Hu as [[-> ->]|[NE Hu]].
    + rewrite Hp in TP. inversion TP; subst. left. rewrite W. auto.
    + destruct (P _ _ _ _ Hu Hp) as [F|C]. left; rewrite W; auto. right; exact (certain_keep _ _ _ _ _ _ HT N ET C).
  - rewrite ET in Hu. apply nth_error_set_nth_some in Hu as [[-> ->]|[NE Hu]].
    + destruct ALT as [A|[[j1 A]|[A _]]]; rewrite Hp in A; try discriminate. contradiction.
    + destruct (Nat.eq_dec sl sl0) as [->|NS].
      * destruct ALT as [A|[[j1 A]|[A F0]]].
        -- right. exists t, th'. split. rewrite ET. apply nth_error_set_nth_eq; auto. rewrite A. reflexivity.
        -- right. exists t, th'. split. rewrite ET. apply nth_error_set_nth_eq; auto. rewrite A. reflexivity.
        -- destruct (P _ _ _ _ Hu Hp) as [F|C]. congruence. right; exact (certain_keep _ _ _ _ _ _ HT N ET C).
      * destruct (P _ _ _ _ Hu Hp) as [F|C]. left; rewrite W; auto. right; exact (certain_keep _ _ _ _ _ _ HT N ET C).
  - rewrite ET in Hu. apply nth_error_set_nth_some in Hu as [[-> ->]|[NE Hu]].
    + rewrite Hp in B. contradiction.
    + rewrite nth_error_map in Hu. destruct (nth_error (threads s) u) as [x|] eqn:Hx; [|discriminate].
      cbn in Hu. inversion Hu; subst. apply wake_thread_parked in Hp as [Hp NS].
      destruct (P _ _ _ _ Hx Hp) as [F|(v & thv & Hv & Cv)]. left; rewrite W; auto.
      right. assert (v <> t). { intros ->. rewrite HT in Hv. inversion Hv; subst. apply C in Cv. auto. }
      exists v, (wake_thread sl0 thv). split. rewrite ET. rewrite nth_error_set_nth_neq; auto. rewrite nth_error_map, Hv. reflexivity.
      apply wake_thread_certain. auto.
Qed.

Lemma Pinv_init : forall k progs, Pinv (init k progs).
Proof.
  intros k progs u thu j sl Hu Hp. cbn in Hu. rewrite nth_error_map in Hu. destruct (nth_error progs u); [|discriminate].
  inversion Hu; subst. discriminate.
Qed.

Lemma Pinv_step : forall s t s', Pinv s -> step s t = Some s' -> Pinv s'.
Proof.
  intros s t s' P H. apply step_inv in H as [(th & o & HT & HO & HS)|[HN ->]].
  - eapply Pinv_effect; eauto. eapply step_effect; eauto.
  - exact P.
Qed.

Theorem bq_sleeper_not_forgotten : forall k progs s, Reach k progs s ->
  forall u thu j sl, nth_error (threads s) u = Some thu -> tpc thu = WParked j sl ->
  wf (get_slot s sl) = true \/
  exists v thv, nth_error (threads s) v = Some thv /\ (tpc thv = PubWake sl \/ exists j', tpc thv = WkWake j' sl).
Proof.
  intros k progs s R. assert (P : Pinv s).
  { eapply inv_reachable with (Inv := Pinv); eauto. apply Pinv_init. intros; eapply Pinv_step; eauto. }
  intros u thu j sl Hu Hp. destruct (P _ _ _ _ Hu Hp) as [F|(v & thv & Hv & C)]; [left; exact F|right].
  exists v, thv. split; auto. destruct (tpc thv); cbn in C; try contradiction; subst; eauto.
Qed.

(* ---------------- wakers ---------------- *)
(* the single waker: an exchange that finds the waiter bit set goes on to wake_all *)
Lemma bq_xchg_waker : forall s t th o j s', nth_error (threads s) t = Some th -> nth_error (prog th) (opi th) = Some o ->
  tpc th = Pub j -> is_single o = true -> fwake (oflags o) = true -> wf (get_slot s (seg_slot s o (lc th) j)) = true ->
  step s t = Some s' ->
  exists th', nth_error (threads s') t = Some th' /\ tpc th' = PubWake (seg_slot s o (lc th) j).
Proof.
  intros s t th o j s' HT HO E SG FW W H. unfold step in H. rewrite HT, HO in H. unfold step_thread in H. cbv zeta in H.
  rewrite E, SG, FW in H. unfold slot_word in H. rewrite word16_flag_x, W in H. cbn [negb] in H. inversion H; subst.
  eexists. split. cbn. apply nth_error_set_nth_eq. eapply nth_error_lt; eauto. reflexivity.
Qed.
(* the batch waker: the load after the seq_cst fence that finds the waiter bit set on its own version goes on to CAS;
   a CAS that succeeds goes on to wake_all *)
Lemma bq_batch_waker_load : forall s t th o j s', nth_error (threads s) t = Some th -> nth_error (prog th) (opi th) = Some o ->
  tpc th = WkLoad j -> wf (get_slot s (seg_slot s o (lc th) j)) = true ->
  ver (get_slot s (seg_slot s o (lc th) j)) = wake_ver (okind o) (seg_ever s o (lc th)) ->
  step s t = Some s' ->
  exists th', nth_error (threads s') t = Some th' /\ tpc th' = WkCas j (ver (get_slot s (seg_slot s o (lc th) j))).
Proof.
  intros s t th o j s' HT HO E W V H. unfold step in H. rewrite HT, HO in H. unfold step_thread in H. cbv zeta in H.
  rewrite E in H. unfold slot_word in H. rewrite word16_flag_w, W in H. cbn [negb] in H.
  unfold wakeup_moved_on in H. rewrite V, Z.eqb_refl in H. cbn [negb] in H. inversion H; subst.
  eexists. split. cbn. apply nth_error_set_nth_eq. eapply nth_error_lt; eauto. cbn. rewrite V. reflexivity.
Qed.
Lemma bq_batch_waker_cas : forall s t th o j cur s', nth_error (threads s) t = Some th -> nth_error (prog th) (opi th) = Some o ->
  tpc th = WkCas j cur -> wf (get_slot s (seg_slot s o (lc th) j)) = true ->
  ver (get_slot s (seg_slot s o (lc th) j)) = cur ->
  step s t = Some s' ->
  exists th', nth_error (threads s') t = Some th' /\ tpc th' = WkWake j (seg_slot s o (lc th) j).
Proof.
  intros s t th o j cur s' HT HO E W V H. unfold step in H. rewrite HT, HO in H. unfold step_thread in H. cbv zeta in H.
  rewrite E in H. unfold slot_word in H. rewrite W, V, Z.eqb_refl in H. inversion H; subst.
  eexists. split. cbn. apply nth_error_set_nth_eq. eapply nth_error_lt; eauto. reflexivity.
Qed.
(* wake_all releases every sleeper of the slot *)
Lemma bq_wake_releases : forall s t th s' sl, nth_error (threads s) t = Some th ->
  (tpc th = PubWake sl \/ exists j, tpc th = WkWake j sl) -> step s t = Some s' ->
  forall u thu j, nth_error (threads s') u = Some thu -> tpc thu <> WParked j sl.
Proof.
  intros s t th s' sl HT C H u thu j Hu Hp. apply step_inv in H as [(th0 & o & HT' & HO & HS)|[HN _]]; [|congruence].
  rewrite HT in HT'. inversion HT'; subst th0.
  assert (exists th', threads s' = set_nth t th' (map (wake_thread sl) (threads s)) /\ benign (tpc th')) as (th' & ET & B).
  { unfold step_thread in HS. cbv zeta in HS. destruct C as [E|[j0 E]]; rewrite E in HS; inversion HS; subst.
    - destruct (end_segment_shape (wake_all s sl) t th o) as (th' & -> & B & _). exists th'. split; auto.
    - unfold next_wk. destruct (Nat.ltb _ _).
      + eexists. split. cbn. reflexivity. exact I.
      + destruct (end_segment_shape (wake_all s sl) t th o) as (th' & -> & B & _). exists th'. split; auto. }
  rewrite ET in Hu. apply nth_error_set_nth_some in Hu as [[-> ->]|[NE Hu]].
  - rewrite Hp in B. contradiction.
  - rewrite nth_error_map in Hu. destruct (nth_error (threads s) u) as [x|]; [|discriminate]. inversion Hu; subst.
    apply wake_thread_parked in Hp as [_ NS]. congruence.
Qed.

(* ---------------- enabledness ---------------- *)
Lemma step_thread_enabled : forall s t th o, (forall j sl, tpc th <> WParked j sl) -> step_thread s t th o <> None.
Proof.
  intros s t th o NP. unfold step_thread. cbv zeta. destruct (tpc th) eqn:E; try (exfalso; eapply NP; reflexivity);
  repeat (match goal with |- context [match ?x with _ => _ end] => destruct x end); discriminate.
Qed.
Theorem bq_unparked_enabled : forall s t th, nth_error (threads s) t = Some th -> thread_done th = false ->
  (forall j sl, tpc th <> WParked j sl) -> step s t <> None.
Proof.
  intros s t th HT D NP. unfold step. rewrite HT. unfold thread_done in D.
  destruct (nth_error (prog th) (opi th)) as [o|]; [|discriminate]. apply step_thread_enabled; auto.
Qed.
Theorem bq_timed_released : forall s t th o j sl, nth_error (threads s) t = Some th -> nth_error (prog th) (opi th) = Some o ->
  tpc th = WParked j sl -> is_timed o = true -> dl (lc th) <= clock s -> step s t <> None.
Proof.
  intros s t th o j sl HT HO E TM D. unfold step. rewrite HT, HO. unfold step_thread. cbv zeta. rewrite E, TM.
  apply Z.leb_le in D. rewrite D. cbn. discriminate.
Qed.
(* the clock can always advance: the deadline of a timed sleeper is always eventually reached *)
Theorem bq_clock_enabled : forall s, step s (length (threads s)) <> None.
Proof.
  intros s. unfold step. assert (nth_error (threads s) (length (threads s)) = None) as -> by (apply nth_error_None; lia).
  rewrite Nat.eqb_refl. discriminate.
Qed.

(* ---------------- the regenerated arithmetic, for every capacity 2^k ---------------- *)
Lemma mask_ones : forall k, 0 <= k -> 2 ^ k - 1 = Z.ones k.
Proof. intros. rewrite Z.ones_equiv. lia. Qed.

Lemma bq_push_ver : forall k i, 0 <= k -> push_ver k i = 2 * (i / 2 ^ k).
Proof. intros. unfold push_ver. rewrite Z.shiftl_mul_pow2 by lia. rewrite Z.shiftr_div_pow2 by lia. lia. Qed.
Lemma bq_pop_ver : forall k i, 0 <= k -> pop_ver k i = 2 * (i / 2 ^ k) + 1.
Proof. intros. unfold pop_ver. rewrite bq_push_ver by lia. lia. Qed.
Lemma bq_slot_index : forall k i, 0 <= k -> slot_index i (2 ^ k - 1) = i mod 2 ^ k /\ slot_index_try i (2 ^ k - 1) = i mod 2 ^ k /\
  slot_index_n i (2 ^ k - 1) = i mod 2 ^ k /\ slot_index_tryn i (2 ^ k - 1) = i mod 2 ^ k /\ slot_index_until i (2 ^ k - 1) = i mod 2 ^ k.
Proof.
  intros. unfold slot_index, slot_index_try, slot_index_n, slot_index_tryn, slot_index_until.
  rewrite mask_ones by lia. rewrite Z.land_ones by lia. auto.
Qed.
(* a ticket is determined by its side, its slot and the version it expects: no two tickets ever compete for a
   (slot, version) pair *)
Theorem bq_ticket_injective : forall k i i', 0 <= k ->
  slot_index i (2 ^ k - 1) = slot_index i' (2 ^ k - 1) ->
  (push_ver k i = push_ver k i' \/ pop_ver k i = pop_ver k i') -> i = i'.
Proof.
  intros k i i' Hk HS HV. destruct (bq_slot_index k i Hk) as (E1 & _). destruct (bq_slot_index k i' Hk) as (E2 & _).
  rewrite E1, E2 in HS. assert (P : 0 < 2 ^ k) by (apply Z.pow_pos_nonneg; lia).
  assert (i / 2 ^ k = i' / 2 ^ k) by (destruct HV as [HV|HV]; rewrite ?bq_push_ver, ?bq_pop_ver in HV by lia; lia).
  rewrite (Z.div_mod i (2 ^ k)) by lia. rewrite (Z.div_mod i' (2 ^ k)) by lia. congruence.
Qed.
Theorem bq_push_pop_versions_differ : forall k i i', 0 <= k -> push_ver k i <> pop_ver k i'.
Proof. intros. rewrite bq_push_ver, bq_pop_ver by lia. lia. Qed.

Lemma round_formula : forall k i, 0 <= k -> Z.land (i + (2 ^ k - 1) + 1) (Z.lnot (2 ^ k - 1)) = (i / 2 ^ k + 1) * 2 ^ k.
Proof.
  intros k i Hk. rewrite mask_ones by lia. rewrite <- Z.ldiff_land. rewrite Z.ldiff_ones_r by lia.
  rewrite Z.shiftl_mul_pow2 by lia. rewrite Z.shiftr_div_pow2 by lia. rewrite <- mask_ones by lia.
  assert (P : 0 < 2 ^ k) by (apply Z.pow_pos_nonneg; lia).
  replace (i + (2 ^ k - 1) + 1) with (i + 1 * 2 ^ k) by lia. rewrite Z.div_add by lia. reflexivity.
Qed.
Theorem bq_round : forall k i, 0 <= k ->
  push_n_round i (2 ^ k - 1) = (i / 2 ^ k + 1) * 2 ^ k /\ pop_n_round i (2 ^ k - 1) = (i / 2 ^ k + 1) * 2 ^ k /\
  try_push_n_round i (2 ^ k - 1) = (i / 2 ^ k + 1) * 2 ^ k /\ try_pop_n_round i (2 ^ k - 1) = (i / 2 ^ k + 1) * 2 ^ k.
Proof. intros. unfold push_n_round, pop_n_round, try_push_n_round, try_pop_n_round. rewrite !round_formula by lia. auto. Qed.

(* a request for n <= capacity elements starting at ticket i is cut into at most two segments that are consecutive, add up
   to n, and each stay inside one round of the ring (so one expected version serves a whole segment) *)
Definition seg_in_round (k : Z) (i : Z) (n : nat) : Prop := i mod 2 ^ k + Z.of_nat n <= 2 ^ k.
Theorem bq_split_sound : forall o kb i n i1 n1 r, 0 <= kb -> 0 <= i -> 0 <= n <= 2 ^ kb ->
  (okind o = KSingle \/ okind o = KTry -> n <= 1) ->
  split o (2 ^ kb - 1) i n = ((i1, n1), r) ->
  i1 = i /\ seg_in_round kb i1 n1 /\
  match r with
  | None => Z.of_nat n1 = n
  | Some (i2, n2) => i2 = i1 + Z.of_nat n1 /\ Z.of_nat n1 + Z.of_nat n2 = n /\ seg_in_round kb i2 n2 /\ (0 < n1)%nat
  end.
Proof.
  intros o kb i n i1 n1 r Hk Hi Hn H1 H. unfold split in H. unfold seg_in_round.
  destruct (bq_round kb i Hk) as (R1 & R2 & R3 & R4).
  assert (P : 0 < 2 ^ kb) by (apply Z.pow_pos_nonneg; lia).
  pose proof (Z.mod_pos_bound i (2 ^ kb) P) as MB. pose proof (Z.div_mod i (2 ^ kb) ltac:(lia)) as DM.
  assert (RM : ((i / 2 ^ kb + 1) * 2 ^ kb) mod 2 ^ kb = 0) by (apply Z.mod_mul; lia).
  destruct (okind o) eqn:K; destruct (is_push o);
  repeat match type of H with
  | context [push_n_round] => rewrite R1 in H | context [pop_n_round] => rewrite R2 in H
  | context [try_push_n_round] => rewrite R3 in H | context [try_pop_n_round] => rewrite R4 in H end;
  unfold push_n_fits, push_n_first, push_n_second, pop_n_fits, pop_n_first, pop_n_second, try_push_n_end, try_push_n_fits,
    try_push_n_whole, try_push_n_first, try_push_n_second, try_pop_n_end, try_pop_n_fits, try_pop_n_whole, try_pop_n_first,
    try_pop_n_second in H;
  try (destruct (Z.leb _ _) eqn:L; [apply Z.leb_le in L | apply Z.leb_gt in L]); inversion H; subst; clear H;
  rewrite ?RM; rewrite ?Z2Nat.id by lia; try (repeat split; try lia; nia).
all: assert (n <= 1) by (apply H1; auto); repeat split; lia.
Qed.
Theorem bq_next_version : forall k w e, next_ver k w e = e + 1 /\ wake_ver k e = e + 1.
Proof.
  intros. unfold next_ver, wake_ver, deal_next_version, deal_next_version_nowake, try_deal_next_version,
    try_deal_next_version_nowake, deal_n_next_version, try_deal_n_next_version, deal_n_wake_version, try_deal_n_wake_version.
  destruct k, w; split; reflexivity.
Qed.
Theorem bq_next_index : forall i n, try_deal_next_index i = i + 1 /\ try_deal_n_next_index i n = i + n /\
  try_deal_n_next_index_excl i n = i + n /\ until_index i n = i + n.
Proof. intros. unfold try_deal_next_index, try_deal_n_next_index, try_deal_n_next_index_excl, until_index. repeat split; lia. Qed.
Theorem bq_ready_tests : forall v e,
  wait_ready v e = (v =? e) /\ block_cas_ready v e = (v =? e) /\ block_reload_ready v e = (v =? e) /\ spin_ready v e = (v =? e) /\
  try_deal_not_ready e v = negb (v =? e) /\ try_deal_n_not_ready e v = negb (v =? e) /\ wakeup_moved_on v e = negb (v =? e) /\
  try_deal_same_index v e = (v =? e) /\ try_deal_n_none v = (v =? 0).
Proof.
  intros. unfold wait_ready, block_cas_ready, block_reload_ready, spin_ready, try_deal_not_ready, try_deal_n_not_ready,
    wakeup_moved_on, try_deal_same_index, try_deal_n_none. rewrite (Z.eqb_sym e v). repeat split; reflexivity.
Qed.
Theorem bq_try_n_short : forall o d r, try_short o d r = Nat.ltb d r.
Proof.
  intros. unfold try_short, try_push_n_short, try_pop_n_short. destruct (is_push o);
  (destruct (Nat.ltb d r) eqn:E; [apply Nat.ltb_lt in E; apply Z.ltb_lt; lia | apply Nat.ltb_ge in E; apply Z.ltb_ge; lia]).
Qed.
Theorem bq_timeout_refresh : forall b e d, block_elapsed b e = e - b /\ block_expired d = (d <=? 0).
Proof. intros. unfold block_elapsed, block_expired. split; reflexivity. Qed.
(* 16-bit truncation of versions: two versions that agree in their low 16 bits and are less than 2^16 apart are equal, so
   comparing uint16_t versions is the same as comparing the unbounded ones as long as a waiter never lags its slot by
   2^15 rounds or more *)
Theorem bq_version16_sound : forall a b, a mod 65536 = b mod 65536 -> Z.abs (a - b) < 65536 -> a = b.
Proof.
  intros a b H D. pose proof (Z.div_mod a 65536 ltac:(lia)). pose proof (Z.div_mod b 65536 ltac:(lia)). lia.
Qed.

(* memory-order obligations on the regenerated site tables / call arguments *)
Definition orders_ok : bool :=
  (deal_wait_order =? 2) && (deal_store_order =? 3) && (try_deal_load_order =? 2) && (try_deal_store_order =? 3) &&
  match sites_xchg, sites_deal_n, sites_try_deal_n with
  | [(KXchg, o_x, _)], [(KFence, a1, _); (KFence, r1, _); (KFence, s1, _)],
    [(KCasS, _, _); (KStore, _, _); (KFence, a2, _); (KFence, r2, _); (KFence, s2, _)] =>
    has_release o_x && has_acquire a1 && has_release r1 && is_seq_cst s1 && has_acquire a2 && has_release r2 && is_seq_cst s2
  | _, _, _ => false
  end.
Lemma bq_orders_ok : orders_ok = true.
Proof. vm_compute. reflexivity. Qed.

(* ---------------- non-vacuity helpers ---------------- *)
Definition f111 : flags := {| conc := true; fwait := true; fwake := true |}.
Definition parked_b (th : thread) : bool := match tpc th with WParked _ _ => true | _ => false end.
Definition wake_pending_b (th : thread) : bool := match tpc th with PubWake _ | WkWake _ _ => true | _ => false end.
Lemma bq_usage_example : usage_ok 1 [[OPush f111 1; OPushN f111 [2; 3]]; [OPop f111; OPopN f111 2]] = true.
Proof. vm_compute. reflexivity. Qed.
Lemma bq_reach_example :
  exists s, Reach 0 [[OPush f111 1]; [OPop f111]] s /\ existsb parked_b (threads s) = true /\
            existsb wake_pending_b (threads s) = true /\ err s = false.
Proof.
  exists (run st step (init 0 [[OPush f111 1]; [OPop f111]]) [1; 1; 1; 1; 0; 0; 0; 0]%nat). split.
  - eexists. reflexivity.
  - vm_compute. auto.
Qed.
Lemma bq_finish_example :
  exists s, Reach 0 [[OPush f111 1]; [OPop f111]] s /\ all_done s = true /\ delivered s = [(0, 1)] /\ pushed s = [(0, 1)].
Proof.
  exists (run st step (init 0 [[OPush f111 1]; [OPop f111]]) [1; 1; 1; 1; 0; 0; 0; 0; 0; 1; 1; 1; 1; 1; 1]%nat). split.
  - eexists. reflexivity.
  - vm_compute. auto.
Qed.
