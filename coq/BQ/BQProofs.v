(* Proofs about BQModel.  Statements are fixed by Properties_C01.v / Properties_C02.v. *)
From Coq Require Import ZArith List Bool Lia.
Require Import Verif.Base.Atomics Verif.Gen.Gen_bounded_queue Verif.Conc.Machine Verif.BQ.BQModel.
Import ListNotations.
Local Open Scope Z_scope.

Definition Reach (k : nat) (progs : list (list op)) (s : st) : Prop :=
  reachable st step (init k progs) s.

(* memory-order obligations on the regenerated site tables / call arguments *)
Definition orders_ok : bool :=
  (deal_wait_order =? 2) && (deal_store_order =? 3) && (try_deal_load_order =? 2) && (try_deal_store_order =? 3) &&
  match sites_xchg, sites_deal_n, sites_try_deal_n with
  | [(KXchg, o_x, _)], [(KFence, a1, _); (KFence, r1, _); (KFence, s1, _)],
    [(KCasS, _, _); (KStore, _, _); (KFence, a2, _); (KFence, r2, _); (KFence, s2, _)] =>
    has_release o_x && has_acquire a1 && has_release r1 && is_seq_cst s1 && has_acquire a2 && has_release r2 && is_seq_cst s2
  | _, _, _ => false
  end.
Lemma bq_orders_ok : orders_ok = true.
Proof. vm_compute. reflexivity. Qed.
