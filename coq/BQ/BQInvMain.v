(* Ticket-interval invariant of BQModel: the invariant and its preservation. *)
From Coq Require Import ZArith List Bool Lia.
Require Import Verif.Base.Atomics Verif.Gen.Gen_bounded_queue Verif.Conc.Machine Verif.BQ.BQModel Verif.BQ.BQProofs.
Require Import Verif.BQ.BQInvDefs Verif.BQ.BQInvStep.
Import ListNotations.
Local Open Scope Z_scope.

Definition thv (s : st) (u : nat) (vu : view) : Prop := exists thu, nth_error (threads s) u = Some thu /\ tv thu = Some vu.

Record Inv (s : st) : Prop := {
  i_len : length (slots s) = Z.to_nat (C s);
  i_nn : forall r, 0 <= next_of s r;
  i_tf : forall u vu, thv s u vu -> tfacts s vu;
  i_disj : forall u u' vu vu' i, thv s u vu -> thv s u' vu' -> u <> u' -> vrole vu = vrole vu' ->
           inhold vu i -> inhold vu' i -> False;
  i_le : forall r i, 0 <= i -> (next_of s r <= i \/ exists u vu, thv s u vu /\ vrole vu = r /\ inhold vu i) ->
         ver (sslot s i) <= xver (C s) r i;
  i_own : forall u vu i, thv s u vu -> vown vu i -> own (sslot s i) = Some u /\
          (if vrole vu then exists val, pay (sslot s i) = Some val /\ In (i, val) (pushed s)
           else pay (sslot s i) = None /\ exists val, In (i, val) (delivered s));
  i_slot : forall i, 0 <= i ->
           (own (sslot s i) = None ->
              (ver (sslot s i) = xver (C s) true i -> pay (sslot s i) = None) /\
              (ver (sslot s i) = xver (C s) false i -> exists val, pay (sslot s i) = Some val /\ In (i, val) (pushed s))) /\
           (forall u, own (sslot s i) = Some u -> exists vu i', thv s u vu /\ vown vu i' /\ tsl (C s) i' = tsl (C s) i);
  i_pushed : forall i val, In (i, val) (pushed s) -> 0 <= i /\
             (xver (C s) true i < ver (sslot s i) \/ exists u vu, thv s u vu /\ vrole vu = true /\ vown vu i);
  i_pnd : NoDup (map fst (pushed s));
  i_deliv : forall i val, In (i, val) (delivered s) -> In (i, val) (pushed s) /\
            (xver (C s) false i < ver (sslot s i) \/ exists u vu, thv s u vu /\ vrole vu = false /\ vown vu i);
  i_dnd : NoDup (map fst (delivered s));
  i_cons : forall i val, In (i, val) (pushed s) -> xver (C s) false i < ver (sslot s i) -> In (i, val) (delivered s);
  i_err : err s = false }.

Lemma nodup_fst_fun : forall (l : list (Z * Z)) i v v', NoDup (map fst l) -> In (i, v) l -> In (i, v') l -> v = v'.
Proof.
  induction l as [|[a b] l IH]; intros i v v' ND H H'; [destruct H|]. cbn in ND. inversion ND as [|x l' NI ND']; subst.
  destruct H as [H|H], H' as [H'|H'].
  - congruence.
  - inversion H; subst. exfalso. apply NI. apply in_map_iff. exists (i, v'). auto.
  - inversion H'; subst. exfalso. apply NI. apply in_map_iff. exists (i, v). auto.
  - eapply IH; eauto.
Qed.

(* ---------------- views ---------------- *)
Lemma thv_fun : forall s u vu vu', thv s u vu -> thv s u vu' -> vu = vu'.
Proof. intros s u vu vu' (a & A1 & A2) (b & B1 & B2). rewrite A1 in B1. inversion B1; subst. rewrite A2 in B2. inversion B2; auto. Qed.

Lemma thv_others : forall s s' t th' u vu, others s s' t -> nth_error (threads s') t = Some th' ->
  thv s' u vu -> (u <> t /\ thv s u vu) \/ (u = t /\ tv th' = Some vu).
Proof.
  intros s s' t th' u vu (L & O) HT (thu & H1 & H2). destruct (Nat.eq_dec u t) as [->|N].
  - right. split; auto. congruence.
  - left. split; auto. specialize (O u N). rewrite H1 in O. cbn in O. destruct (nth_error (threads s) u) as [x|] eqn:EX; [|discriminate].
    exists x. split; auto. cbn in O. inversion O. congruence.
Qed.
Lemma thv_keep : forall s s' t u vu, others s s' t -> u <> t -> thv s u vu -> thv s' u vu.
Proof.
  intros s s' t u vu (L & O) N (thu & H1 & H2). specialize (O u N). rewrite H1 in O. cbn in O.
  destruct (nth_error (threads s') u) as [x|] eqn:EX; [|discriminate]. exists x. split; auto. cbn in O. inversion O. congruence.
Qed.

Lemma vknown_inhold : forall s vu i, tfacts s vu -> vknown vu i -> inhold vu i.
Proof.
  intros s vu i (L & _) H. unfold linv, hcommon, segok, vknown, inhold, seg_end in *.
  destruct (v_ph vu); try contradiction;
    destruct L as (((S1 & S2 & S3 & S4) & _) & L'); destruct (okind (v_op vu)); destruct (rest (v_l vu)) as [[i2 n2]|]; try lia;
    destruct S4 as (R1 & _); lia.
Qed.
Lemma vown_inhold : forall s vu i, tfacts s vu -> vown vu i -> inhold vu i.
Proof. intros. eapply vknown_inhold; eauto. apply vown_known; auto. Qed.

Lemma inhold_bounds : forall s vu i, tfacts s vu -> inhold vu i -> 0 <= i < next_of s (vrole vu).
Proof.
  intros s vu i (L & _) H. unfold linv, hcommon, segok, inhold, vrole in *.
  destruct (v_ph vu); try contradiction; destruct L as (((S1 & _) & SE & _) & _); lia.
Qed.

Lemma sslot_same_slot : forall s i i', tsl (C s) i = tsl (C s) i' -> sslot s i = sslot s i'.
Proof. intros. unfold sslot. rewrite H. reflexivity. Qed.

(* two tickets whose slot shows their expected version are the same ticket *)
Lemma same_ticket : forall s r r' i i', 0 <= i -> 0 <= i' -> tsl (C s) i = tsl (C s) i' ->
  ver (sslot s i) = xver (C s) r i -> ver (sslot s i') = xver (C s) r' i' -> r = r' /\ i = i'.
Proof.
  intros s r r' i i' Hi Hi' HS V1 V2. pose proof (C_pos s). rewrite (sslot_same_slot _ _ _ HS) in V1.
  apply (xver_inj (C s)); auto. apply tsl_inj; auto. congruence.
Qed.

Lemma tfacts_ext2 : forall s X v', next_of X true = next_of s true -> next_of X false = next_of s false -> kbits X = kbits s ->
  (forall i, vknown v' i \/ vtry v' i -> ver (sslot X i) = ver (sslot s i)) -> tfacts s v' -> tfacts X v'.
Proof.
  intros s X v' N1 N2 K SL (L & KN & TR).
  assert (CC : C X = C s) by (unfold C; rewrite K; reflexivity).
  assert (NX : forall r, next_of X r = next_of s r) by (intros []; auto).
  split; [|split].
  - unfold linv, hcommon in *. rewrite CC. rewrite !NX. exact L.
  - intros i Hi. rewrite SL, CC; auto.
  - intros i Hi Hc. rewrite SL, CC; auto. apply TR; auto. unfold trycond in *. rewrite NX in Hc. exact Hc.
Qed.

Section Pres.
Variables (s s' : st) (t : nat) (th : thread) (o : op).
Hypothesis HT : nth_error (threads s) t = Some th.
Hypothesis HO : cur th = Some o.
Let v := {| v_op := o; v_ph := phase_of o (tpc th) (lc th); v_l := lc th |}.
Hypothesis I : Inv s.

Lemma thv_t : thv s t v.
Proof. exists th. split; auto. unfold tv. rewrite HO. reflexivity. Qed.

Lemma C_frame : frame s s' -> C s' = C s.
Proof. intros F. unfold C. rewrite (f_k _ _ F). reflexivity. Qed.

Lemma pres_loc : forall th', nth_error (threads s') t = Some th' -> others s s' t -> frame s s' -> same_core s s' ->
  loc_ok s' v th' -> Inv s'.
Proof.
  intros th' HT' OT FR (N1 & N2 & PS & DS & ER & SL) LO.
  pose proof (C_frame FR) as CC. pose proof thv_t as TT.
  assert (NX : forall r, next_of s' r = next_of s r) by (intros []; cbn; auto).
  assert (SS : forall i, cs (sslot s' i) = cs (sslot s i)) by (intros; unfold sslot; rewrite CC; apply SL).
  assert (SV : forall i, ver (sslot s' i) = ver (sslot s i)) by (intros i; specialize (SS i); unfold cs in SS; congruence).
  assert (SP : forall i, pay (sslot s' i) = pay (sslot s i)) by (intros i; specialize (SS i); unfold cs in SS; congruence).
  assert (SO : forall i, own (sslot s' i) = own (sslot s i)) by (intros i; specialize (SS i); unfold cs in SS; congruence).
  unfold loc_ok in LO.
  (* what we know about t's new view *)
  assert (TV : forall vu, tv th' = Some vu -> tfacts s' vu /\ (forall i, inhold vu i -> inhold v i /\ vrole vu = vrole v) /\
                 (forall i, vown vu i -> vown v i /\ vrole vu = vrole v)).
  { intros vu E. rewrite E in LO. destruct LO as (A & B & D & _). auto. }
  assert (OW : forall i, vown v i -> exists v', tv th' = Some v' /\ vown v' i /\ vrole v' = vrole v).
  { intros i Hi. destruct (tv th') as [v'|] eqn:E. destruct LO as (_ & _ & D & F). exists v'. split; auto. split. apply F; auto. apply (D i). apply F; auto. destruct (LO i Hi). }
  assert (KP : forall u vu, u <> t -> thv s u vu -> thv s' u vu) by (intros; eapply thv_keep; eauto).
  assert (CA : forall u vu, thv s' u vu -> (u <> t /\ thv s u vu) \/ (u = t /\ tv th' = Some vu)) by (intros; eapply thv_others; eauto).
  assert (TT' : forall vu, tv th' = Some vu -> thv s' t vu) by (intros; exists th'; auto).
  constructor.
  - rewrite (f_len _ _ FR), CC. apply (i_len _ I).
  - intros r. rewrite NX. apply (i_nn _ I).
  - intros u vu H. destruct (CA _ _ H) as [[N H']|[-> E]].
    + apply (tfacts_ext s s' vu); [apply NX | apply NX | apply (f_k _ _ FR) | intros sl; specialize (SL sl); unfold cs in SL; congruence | apply (i_tf _ I u); auto].
    + apply (TV _ E).
  - intros u u' vu vu' i H H' NE RO IH IH'.
    destruct (CA _ _ H) as [[N A]|[-> E]]; destruct (CA _ _ H') as [[N' A']|[-> E']].
    + eapply (i_disj _ I u u'); eauto.
    + destruct (TV _ E') as (_ & B & _). destruct (B i IH') as [B1 B2]. eapply (i_disj _ I u t vu v); eauto; congruence.
    + destruct (TV _ E) as (_ & B & _). destruct (B i IH) as [B1 B2]. eapply (i_disj _ I t u' v vu'); eauto; congruence.
    + congruence.
  - intros r i Hi HC. rewrite SV, CC. apply (i_le _ I); auto. rewrite NX in HC. destruct HC as [HC|(u & vu & H & RO & IH)]; auto.
    right. destruct (CA _ _ H) as [[N A]|[-> E]].
    + exists u, vu. auto.
    + destruct (TV _ E) as (_ & B & _). destruct (B i IH) as [B1 B2]. exists t, v. split; auto. split; auto. congruence.
  - intros u vu i H OWN. rewrite SO, SP, PS, DS. destruct (CA _ _ H) as [[N A]|[-> E]].
    + apply (i_own _ I u vu); auto.
    + destruct (TV _ E) as (_ & _ & D). destruct (D i OWN) as [D1 D2]. rewrite D2. apply (i_own _ I t v); auto.
  - intros i Hi. rewrite SO, SV, SP, PS, CC. destruct (i_slot _ I i Hi) as [A B]. split; auto.
    intros u OU. destruct (B u OU) as (vu & i' & H & OWN & TS). destruct (Nat.eq_dec u t) as [->|N].
    + rewrite (thv_fun _ _ _ _ H TT) in OWN. destruct (OW i' OWN) as (v' & E & OWN' & _). exists v', i'. auto.
    + exists vu, i'. auto.
  - intros i val IN. rewrite PS in IN. rewrite SV, CC. destruct (i_pushed _ I i val IN) as [A [B|(u & vu & H & RO & OWN)]]; split; auto.
    right. destruct (Nat.eq_dec u t) as [->|N].
    + rewrite (thv_fun _ _ _ _ H TT) in OWN, RO. destruct (OW i OWN) as (v' & E & OWN' & RO'). exists t, v'. split; auto. split; auto. congruence.
    + exists u, vu. auto.
  - rewrite PS. apply (i_pnd _ I).
  - intros i val IN. rewrite DS in IN. rewrite SV, CC, PS. destruct (i_deliv _ I i val IN) as [A [B|(u & vu & H & RO & OWN)]]; split; auto.
    right. destruct (Nat.eq_dec u t) as [->|N].
    + rewrite (thv_fun _ _ _ _ H TT) in OWN, RO. destruct (OW i OWN) as (v' & E & OWN' & RO'). exists t, v'. split; auto. split; auto. congruence.
    + exists u, vu. auto.
  - rewrite DS. apply (i_dnd _ I).
  - intros i val IN LT. rewrite PS in IN. rewrite DS. rewrite SV, CC in LT. apply (i_cons _ I i val IN LT).
  - rewrite ER. apply (i_err _ I).
Qed.

Lemma tfacts_acq : forall vu, tfacts s vu -> kbits s' = kbits s ->
  next_of s (vrole vu) <= next_of s' (vrole vu) -> (oconc (v_op vu) = false -> next_of s' (vrole vu) = next_of s (vrole vu)) ->
  (forall i, ver (sslot s' i) = ver (sslot s i)) -> tfacts s' vu.
Proof.
  intros vu (L & KN & TR) K HN1 HN2 SV.
  assert (CC : C s' = C s) by (unfold C; rewrite K; reflexivity).
  unfold vrole in *. split; [|split].
  - unfold linv, hcommon in *. rewrite CC.
    remember (next_of s (is_push (v_op vu))) as N. remember (next_of s' (is_push (v_op vu))) as N'.
    destruct (v_ph vu); intuition (try lia).
  - intros i Hi. rewrite SV, CC. auto.
  - intros i Hi TC. rewrite SV, CC. apply TR; auto. unfold trycond, vtry, linv, vrole in *.
    remember (next_of s (is_push (v_op vu))) as N. remember (next_of s' (is_push (v_op vu))) as N'.
    destruct (v_ph vu); try contradiction; destruct TC as [TC|TC]; auto; right; destruct (oconc (v_op vu)); intuition (try lia).
Qed.

Lemma pres_acq : forall th' n v', nth_error (threads s') t = Some th' -> others s s' t -> frame s s' ->
  next_of s' (is_push o) = next_of s (is_push o) + Z.of_nat n -> next_of s' (negb (is_push o)) = next_of s (negb (is_push o)) ->
  pushed s' = pushed s -> delivered s' = delivered s -> err s' = err s ->
  (forall sl, cs (nth sl (slots s') slot0) = cs (nth sl (slots s) slot0)) ->
  (forall i, ~ inhold v i) -> (forall i, ~ vown v i) ->
  tv th' = Some v' -> vrole v' = is_push o -> tfacts s' v' ->
  (forall i, inhold v' i -> next_of s (is_push o) <= i < next_of s (is_push o) + Z.of_nat n) -> (forall i, ~ vown v' i) ->
  (forall u vu, thv s u vu -> u <> t -> vrole vu = is_push o -> oconc (v_op vu) = true) ->
  Inv s'.
Proof.
  intros th' n v' HT' OT FR NR NO' PS DS ER SL NH NOW E' RO' TF' IH' NOW' SIDES.
  pose proof (C_frame FR) as CC. pose proof thv_t as TT.
  assert (NX : forall r, next_of s r <= next_of s' r).
  { intros r. destruct (Bool.eqb r (is_push o)) eqn:B. apply eqb_prop in B. subst. lia.
    assert (r = negb (is_push o)) by (destruct r, (is_push o); auto; discriminate). subst. lia. }
  assert (SS : forall i, cs (sslot s' i) = cs (sslot s i)) by (intros; unfold sslot; rewrite CC; apply SL).
  assert (SV : forall i, ver (sslot s' i) = ver (sslot s i)) by (intros i; specialize (SS i); unfold cs in SS; congruence).
  assert (SP : forall i, pay (sslot s' i) = pay (sslot s i)) by (intros i; specialize (SS i); unfold cs in SS; congruence).
  assert (SO : forall i, own (sslot s' i) = own (sslot s i)) by (intros i; specialize (SS i); unfold cs in SS; congruence).
  assert (KP : forall u vu, u <> t -> thv s u vu -> thv s' u vu) by (intros; eapply thv_keep; eauto).
  assert (CA : forall u vu, thv s' u vu -> (u <> t /\ thv s u vu) \/ (u = t /\ vu = v')).
  { intros u vu H. destruct (thv_others _ _ _ _ _ _ OT HT' H) as [A|[A B]]; auto. right. split; auto. congruence. }
  assert (NOT : forall u vu i, thv s u vu -> vown vu i -> u <> t).
  { intros u vu i H OWN ->. rewrite (thv_fun _ _ _ _ H TT) in OWN. exact (NOW i OWN). }
  constructor.
  - rewrite (f_len _ _ FR), CC. apply (i_len _ I).
  - intros r. pose proof (i_nn _ I r). specialize (NX r). lia.
  - intros u vu H. destruct (CA _ _ H) as [[N H']|[-> ->]]; auto.
    apply tfacts_acq; auto. apply (i_tf _ I u); auto. apply (f_k _ _ FR).
    intros OC. destruct (Bool.eqb (vrole vu) (is_push o)) eqn:B.
    + apply eqb_prop in B. rewrite (SIDES u vu H' N B) in OC. discriminate.
    + assert (vrole vu = negb (is_push o)) as -> by (destruct (vrole vu), (is_push o); auto; discriminate). auto.
  - intros u u' vu vu' i H H' NE RO IH1 IH2.
    destruct (CA _ _ H) as [[N A]|[-> ->]]; destruct (CA _ _ H') as [[N' A']|[-> ->]].
    + eapply (i_disj _ I u u'); eauto.
    + pose proof (inhold_bounds s vu i (i_tf _ I _ _ A) IH1). specialize (IH' i IH2). rewrite RO, RO' in *. lia.
    + pose proof (inhold_bounds s vu' i (i_tf _ I _ _ A') IH2). specialize (IH' i IH1). rewrite <- RO, RO' in *. lia.
    + congruence.
  - intros r i Hi HC. rewrite SV, CC. apply (i_le _ I); auto. destruct HC as [HC|(u & vu & H & RO & IH)].
    + left. specialize (NX r). lia.
    + destruct (CA _ _ H) as [[N A]|[-> ->]].
      * right. exists u, vu. auto.
      * left. specialize (IH' i IH). rewrite <- RO, RO'. lia.
  - intros u vu i H OWN. rewrite SO, SP, PS, DS. destruct (CA _ _ H) as [[N A]|[-> ->]].
    + apply (i_own _ I u vu); auto.
    + destruct (NOW' i OWN).
  - intros i Hi. rewrite SO, SV, SP, PS, CC. destruct (i_slot _ I i Hi) as [A B]. split; auto.
    intros u OU. destruct (B u OU) as (vu & i' & H & OWN & TS). exists vu, i'. split; auto. apply KP; auto. eapply NOT; eauto.
  - intros i val IN. rewrite PS in IN. rewrite SV, CC. destruct (i_pushed _ I i val IN) as [A [B|(u & vu & H & RO & OWN)]]; split; auto.
    right. exists u, vu. split; auto. apply KP; auto. eapply NOT; eauto.
  - rewrite PS. apply (i_pnd _ I).
  - intros i val IN. rewrite DS in IN. rewrite SV, CC, PS. destruct (i_deliv _ I i val IN) as [A [B|(u & vu & H & RO & OWN)]]; split; auto.
    right. exists u, vu. split; auto. apply KP; auto. eapply NOT; eauto.
  - rewrite DS. apply (i_dnd _ I).
  - intros i val IN LT. rewrite PS in IN. rewrite DS. rewrite SV, CC in LT. apply (i_cons _ I i val IN LT).
  - rewrite ER. apply (i_err _ I).
Qed.

Lemma linv_ext : forall vu, kbits s' = kbits s -> (forall r, next_of s' r = next_of s r) -> linv s vu -> linv s' vu.
Proof.
  intros vu K NX L. assert (CC : C s' = C s) by (unfold C; rewrite K; reflexivity).
  unfold linv, hcommon in *. rewrite CC, !NX. exact L.
Qed.
Lemma try_bounds : forall vu i, tfacts s vu -> vtry vu i -> trycond s vu -> 0 <= i /\ next_of s (vrole vu) <= i.
Proof.
  intros vu i (L & _) H TC. unfold linv, vtry, trycond, vrole in *.
  destruct (v_ph vu); try contradiction; destruct L as (B1 & EX & _); destruct TC as [TC|TC]; try (specialize (EX TC)); lia.
Qed.

Lemma pres_pub : forall th' j, nth_error (threads s') t = Some th' -> others s s' t -> frame s s' ->
  npush s' = npush s -> npop s' = npop s -> pushed s' = pushed s -> delivered s' = delivered s -> err s' = err s ->
  v_ph v = POwn j ->
  cs (nth (tsl (C s) (seg_i (lc th) + Z.of_nat j)) (slots s') slot0) =
    (xver (C s) (is_push o) (seg_i (lc th) + Z.of_nat j) + 1, pay (sslot s (seg_i (lc th) + Z.of_nat j)), None) ->
  (forall sl, sl <> tsl (C s) (seg_i (lc th) + Z.of_nat j) -> cs (nth sl (slots s') slot0) = cs (nth sl (slots s) slot0)) ->
  pub_ok s' v (seg_i (lc th) + Z.of_nat j) th' -> Inv s'.
Proof.
  intros th' j HT' OT FR N1 N2 PS DS ER PH CS0 CSO PO.
  set (i0 := seg_i (lc th) + Z.of_nat j) in *. set (r := is_push o).
  pose proof (C_frame FR) as CC. pose proof thv_t as TT. pose proof (C_pos s) as CP.
  assert (NX : forall r0, next_of s' r0 = next_of s r0) by (intros []; cbn; auto).
  pose proof (i_tf _ I _ _ TT) as TFv.
  assert (OWN0 : vown v i0).
  { destruct TFv as (L & _). unfold linv, vown in *. rewrite PH in *. destruct L as (_ & LT & _). unfold i0, v in *. cbn [v_l] in *. lia. }
  pose proof (vown_inhold _ _ _ TFv OWN0) as IH0.
  pose proof (inhold_bounds _ _ _ TFv IH0) as B0. change (vrole v) with r in B0.
  assert (E0 : ver (sslot s i0) = xver (C s) r i0) by (destruct TFv as (_ & KN & _); apply KN; apply vown_known; auto).
  destruct (i_own _ I _ _ _ TT OWN0) as (O0 & P0). change (vrole v) with r in P0.
  (* slots *)
  assert (SAME : forall i, tsl (C s) i <> tsl (C s) i0 -> cs (sslot s' i) = cs (sslot s i)).
  { intros i NE. unfold sslot. rewrite CC. apply CSO. auto. }
  assert (HIT : forall i, tsl (C s) i = tsl (C s) i0 ->
                cs (sslot s' i) = (xver (C s) r i0 + 1, pay (sslot s i0), None) /\ sslot s i = sslot s i0).
  { intros i EQ. split. unfold sslot. rewrite CC, EQ. exact CS0. apply sslot_same_slot; auto. }
  assert (K1 : forall r1 i1, 0 <= i1 -> tsl (C s) i1 = tsl (C s) i0 -> ver (sslot s i1) = xver (C s) r1 i1 -> r1 = r /\ i1 = i0).
  { intros r1 i1 H1 H2 H3. apply (same_ticket s r1 r i1 i0); auto. lia. }
  assert (K2 : forall u vu, thv s u vu -> u <> t -> vrole vu = r -> inhold vu i0 -> False).
  { intros u vu H NE RO IH. eapply (i_disj _ I u t vu v i0); eauto. }
  assert (NOHIT : forall u vu i, thv s u vu -> u <> t -> vknown vu i -> tsl (C s) i <> tsl (C s) i0).
  { intros u vu i H NE KNO EQ. pose proof (i_tf _ I _ _ H) as TFu.
    pose proof (vknown_inhold _ _ _ TFu KNO) as IHu. pose proof (inhold_bounds _ _ _ TFu IHu) as Bu.
    destruct TFu as (_ & KN & _). destruct (K1 (vrole vu) i ltac:(lia) EQ (KN i KNO)) as [R1 R2]. subst i. eapply K2; eauto. }
  assert (NOHITt : forall i, vknown v i -> i <> i0 -> tsl (C s) i <> tsl (C s) i0).
  { intros i KNO NE EQ. pose proof (vknown_inhold _ _ _ TFv KNO) as IHu. pose proof (inhold_bounds _ _ _ TFv IHu) as Bu.
    destruct TFv as (_ & KN & _). destruct (K1 (vrole v) i ltac:(lia) EQ (KN i KNO)) as [R1 R2]. auto. }
  assert (KP : forall u vu, u <> t -> thv s u vu -> thv s' u vu) by (intros; eapply thv_keep; eauto).
  assert (CA : forall u vu, thv s' u vu -> (u <> t /\ thv s u vu) \/ (u = t /\ tv th' = Some vu)) by (intros; eapply thv_others; eauto).
  unfold pub_ok in PO.
  assert (TV : forall vu, tv th' = Some vu -> linv s' vu /\ (forall i, vknown vu i -> vknown v i /\ i <> i0 /\ vrole vu = vrole v) /\
     (forall i, ~ vtry vu i) /\ (forall i, inhold vu i -> inhold v i /\ i <> i0 /\ vrole vu = vrole v) /\
     (forall i, vown vu i -> vown v i /\ i <> i0 /\ vrole vu = vrole v)).
  { intros vu E. rewrite E in PO. destruct PO as (A & B & D & F & G & _). auto. }
  assert (OW : forall i, vown v i -> i = i0 \/ exists v', tv th' = Some v' /\ vown v' i /\ vrole v' = vrole v).
  { intros i Hi. destruct (tv th') as [v'|] eqn:E.
    - destruct PO as (_ & _ & _ & _ & G & F). destruct (F i Hi) as [F1|F1]; auto. right. exists v'. split; auto. split; auto. apply (G i F1).
    - left. apply PO; auto. }
  assert (VGE : forall i, ver (sslot s i) <= ver (sslot s' i)).
  { intros i. destruct (Nat.eq_dec (tsl (C s) i) (tsl (C s) i0)) as [EQ|NE].
    - destruct (HIT i EQ) as [H1 H2]. unfold cs in H1. inversion H1. rewrite H2, E0. lia.
    - specialize (SAME i NE). unfold cs in SAME. inversion SAME. lia. }
  constructor.
  - rewrite (f_len _ _ FR), CC. apply (i_len _ I).
  - intros r0. rewrite NX. apply (i_nn _ I).
  - (* i_tf *)
    intros u vu H. destruct (CA _ _ H) as [[NE H']|[-> E]].
    + pose proof (i_tf _ I _ _ H') as TFu. destruct TFu as (L & KN & TR). split; [|split].
      * apply linv_ext; auto. apply (f_k _ _ FR).
      * intros i Hi. rewrite CC. specialize (SAME i (NOHIT _ _ _ H' NE Hi)). unfold cs in SAME. inversion SAME. rewrite H1. auto.
      * intros i Hi TC. assert (TC' : trycond s vu) by (unfold trycond in *; rewrite NX in TC; exact TC).
        rewrite CC. destruct (Nat.eq_dec (tsl (C s) i) (tsl (C s) i0)) as [EQ|NEQ].
        -- exfalso. destruct (try_bounds vu i (i_tf _ I _ _ H') Hi TC') as [Bi Bn].
           destruct (K1 (vrole vu) i Bi EQ (TR i Hi TC')) as [R1 R2]. subst i. rewrite R1 in Bn. lia.
        -- specialize (SAME i NEQ). unfold cs in SAME. inversion SAME. rewrite H1. auto.
    + destruct (TV _ E) as (L & KN' & TR' & _). split; [exact L|split].
      * intros i Hi. destruct (KN' i Hi) as (A & B & D). rewrite CC, D.
        specialize (SAME i (NOHITt i A B)). unfold cs in SAME. inversion SAME. rewrite H1. destruct TFv as (_ & KN & _). auto.
      * intros i Hi. destruct (TR' i Hi).
  - (* i_disj *)
    intros u u' vu vu' i H H' NE RO IH1 IH2.
    destruct (CA _ _ H) as [[N A]|[-> E]]; destruct (CA _ _ H') as [[N' A']|[-> E']].
    + eapply (i_disj _ I u u'); eauto.
    + destruct (TV _ E') as (_ & _ & _ & B & _). destruct (B i IH2) as (B1 & B2 & B3). eapply (i_disj _ I u t vu v); eauto; congruence.
    + destruct (TV _ E) as (_ & _ & _ & B & _). destruct (B i IH1) as (B1 & B2 & B3). eapply (i_disj _ I t u' v vu'); eauto; congruence.
    + congruence.
  - (* i_le *)
    intros r0 i Hi HC. rewrite CC.
    assert (HC' : next_of s r0 <= i \/ exists u vu, thv s u vu /\ vrole vu = r0 /\ inhold vu i).
    { rewrite NX in HC. destruct HC as [HC|(u & vu & H & RO & IH)]; auto. right. destruct (CA _ _ H) as [[N A]|[-> E]].
      exists u, vu; auto. destruct (TV _ E) as (_ & _ & _ & B & _). destruct (B i IH) as (B1 & B2 & B3). exists t, v. split; auto. split; auto. congruence. }
    pose proof (i_le _ I r0 i Hi HC') as LE.
    destruct (Nat.eq_dec (tsl (C s) i) (tsl (C s) i0)) as [EQ|NEQ].
    + destruct (HIT i EQ) as [H1 H2]. unfold cs in H1. inversion H1. rewrite H0.
      assert (NE : ver (sslot s i) <> xver (C s) r0 i).
      { intros EV. destruct (K1 r0 i Hi EQ EV) as [R1 R2]. subst i r0. rewrite NX in HC.
        destruct HC as [HC|(u & vu & H & RO & IH)]. lia. destruct (CA _ _ H) as [[N A]|[-> E]].
        eapply K2; eauto. destruct (TV _ E) as (_ & _ & _ & B & _). destruct (B i0 IH) as (B1 & B2 & B3). auto. }
      rewrite H2, E0 in *. lia.
    + specialize (SAME i NEQ). unfold cs in SAME. inversion SAME. rewrite H0. auto.
  - (* i_own *)
    intros u vu i H OWN. rewrite PS, DS. destruct (CA _ _ H) as [[N A]|[-> E]].
    + specialize (SAME i (NOHIT _ _ _ A N (vown_known _ _ OWN))). unfold cs in SAME. inversion SAME. rewrite H2, H3. apply (i_own _ I u vu); auto.
    + destruct (TV _ E) as (_ & _ & _ & _ & G). destruct (G i OWN) as (G1 & G2 & G3).
      specialize (SAME i (NOHITt i (vown_known _ _ G1) G2)). unfold cs in SAME. inversion SAME. rewrite H2, H3, G3. apply (i_own _ I t v); auto.
  - (* i_slot *)
    intros i Hi. rewrite PS, CC. destruct (Nat.eq_dec (tsl (C s) i) (tsl (C s) i0)) as [EQ|NEQ].
    + destruct (HIT i EQ) as [H1 H2]. unfold cs in H1. inversion H1. rewrite H0, H3, H4. split; [|intros; discriminate].
      intros _. pose proof (tsl_inj _ _ _ CP EQ) as MEQ. unfold r in *. split.
      * intros EV. destruct (is_push o) eqn:PU; [unfold xver in EV; lia|]. apply P0.
      * intros EV. destruct (is_push o) eqn:PU; [|unfold xver in EV; lia].
        assert (i = i0). { apply (xver_inj (C s) false false); auto; try lia. unfold xver in *. lia. }
        subst i. exact P0.
    + specialize (SAME i NEQ). unfold cs in SAME. inversion SAME. rewrite H0, H1, H2. destruct (i_slot _ I i Hi) as [A B]. split; auto.
      intros u OU. destruct (B u OU) as (vu & i' & H & OWN & TS). destruct (Nat.eq_dec u t) as [->|N].
      * rewrite (thv_fun _ _ _ _ H TT) in OWN. destruct (OW i' OWN) as [->|(v' & E & OWN' & _)]. congruence. exists v', i'. split; auto. exists th'; auto.
      * exists vu, i'. auto.
  - (* i_pushed *)
    intros i val IN. rewrite PS in IN. rewrite CC. destruct (i_pushed _ I i val IN) as [A [B|(u & vu & H & RO & OWN)]]; split; auto.
    + left. specialize (VGE i). lia.
    + destruct (Nat.eq_dec u t) as [->|N].
      * rewrite (thv_fun _ _ _ _ H TT) in OWN, RO. destruct (OW i OWN) as [->|(v' & E & OWN' & RO')].
        -- left. destruct (HIT i0 eq_refl) as [H1 _]. assert (V' : ver (sslot s' i0) = xver (C s) r i0 + 1) by (unfold cs in H1; congruence).
           rewrite V'. change (vrole v) with r in RO. rewrite RO. lia.
        -- right. exists t, v'. split. exists th'; auto. split; auto. congruence.
      * right. exists u, vu. auto.
  - rewrite PS. apply (i_pnd _ I).
  - (* i_deliv *)
    intros i val IN. rewrite DS in IN. rewrite CC, PS. destruct (i_deliv _ I i val IN) as [A [B|(u & vu & H & RO & OWN)]]; split; auto.
    + left. specialize (VGE i). lia.
    + destruct (Nat.eq_dec u t) as [->|N].
      * rewrite (thv_fun _ _ _ _ H TT) in OWN, RO. destruct (OW i OWN) as [->|(v' & E & OWN' & RO')].
        -- left. destruct (HIT i0 eq_refl) as [H1 _]. assert (V' : ver (sslot s' i0) = xver (C s) r i0 + 1) by (unfold cs in H1; congruence).
           rewrite V'. change (vrole v) with r in RO. rewrite RO. lia.
        -- right. exists t, v'. split. exists th'; auto. split; auto. congruence.
      * right. exists u, vu. auto.
  - rewrite DS. apply (i_dnd _ I).
  - intros i val IN LT. rewrite PS in IN. rewrite DS. rewrite CC in LT.
    destruct (Nat.eq_dec (tsl (C s) i) (tsl (C s) i0)) as [EQ|NEQ].
    + destruct (HIT i EQ) as [H1 H2]. assert (V' : ver (sslot s' i) = xver (C s) r i0 + 1) by (unfold cs in H1; congruence). rewrite V' in LT.
      destruct (i_pushed _ I i val IN) as [Hi _].
      destruct (Z_lt_le_dec (xver (C s) false i) (ver (sslot s i))) as [LT0|GE]. apply (i_cons _ I i val IN LT0).
      assert (EV : ver (sslot s i) = xver (C s) false i) by (rewrite H2, E0 in *; lia).
      destruct (K1 false i Hi EQ EV) as [R1 R2]. subst i. rewrite <- R1 in P0. destruct P0 as (_ & val' & IND).
      destruct (i_deliv _ I _ _ IND) as [INP _]. rewrite (nodup_fst_fun _ _ _ _ (i_pnd _ I) IN INP). exact IND.
    + specialize (SAME i NEQ). assert (VS : ver (sslot s' i) = ver (sslot s i)) by (unfold cs in SAME; congruence). rewrite VS in LT. apply (i_cons _ I i val IN LT).
  - rewrite ER. apply (i_err _ I).
Qed.

(* facts shared by the two callback cases *)
Lemma ready_facts : v_ph v = PReady ->
  let b := seg_i (lc th) in let n := seg_n (lc th) in
  0 <= b /\ b mod C s + Z.of_nat n <= C s /\
  (forall k, (k < n)%nat -> tsl (C s) (b + Z.of_nat k) = (tsl (C s) b + k)%nat) /\
  (forall i, b <= i < b + Z.of_nat n -> ver (sslot s i) = xver (C s) (is_push o) i /\ inhold v i /\ own (sslot s i) = None) /\
  (forall i, ~ vown v i) /\ (tsl (C s) b + n <= length (slots s))%nat.
Proof.
  intros PH b n. pose proof thv_t as TT. pose proof (i_tf _ I _ _ TT) as TFv. pose proof (C_pos s) as CP.
  assert (KN : forall i, b <= i < b + Z.of_nat n -> vknown v i) by (intros i Hi; unfold vknown; rewrite PH; exact Hi).
  destruct TFv as (L & KNO & TR). pose proof L as L0. unfold linv in L0. rewrite PH in L0. destruct L0 as (((S1 & S2 & _) & _) & _).
  cbn [v_l v] in S1, S2. fold b n in S1, S2.
  assert (NOW : forall i, ~ vown v i) by (intros i Hi; unfold vown in Hi; rewrite PH in Hi; exact Hi).
  split; auto. split; auto. split; [|split; [|split; auto]].
  - intros k Hk. apply tsl_round; auto. lia.
  - intros i Hi. pose proof (KN i Hi) as Ki. split. apply (KNO i Ki). split. apply (vknown_inhold s); auto. split; auto.
    destruct (own (sslot s i)) as [u|] eqn:OU; auto. exfalso.
    destruct (i_slot _ I i ltac:(lia)) as [_ B]. destruct (B u OU) as (vu & i' & H & OWN & TS).
    pose proof (i_tf _ I _ _ H) as TFu. pose proof (vown_inhold _ _ _ TFu OWN) as IHu. pose proof (inhold_bounds _ _ _ TFu IHu) as Bu.
    destruct TFu as (_ & KNu & _).
    destruct (same_ticket s (vrole vu) (is_push o) i' i ltac:(lia) ltac:(lia) TS (KNu i' (vown_known _ _ OWN)) (KNO i Ki)) as [R1 R2]. subst i'.
    destruct (Nat.eq_dec u t) as [->|N].
    + rewrite (thv_fun _ _ _ _ H TT) in OWN. exact (NOW i OWN).
    + eapply (i_disj _ I u t vu v i); eauto. apply (vknown_inhold s); auto. split; auto.
  - rewrite (i_len _ I). unfold tsl. pose proof (Z.mod_pos_bound b (C s) CP). lia.
Qed.

Lemma pres_cb_push : forall th' v', nth_error (threads s') t = Some th' -> others s s' t -> frame s s' ->
  npush s' = npush s -> npop s' = npop s -> v_ph v = PReady ->
  tv th' = Some v' -> v_op v' = o -> (v_ph v' = PCb \/ v_ph v' = POwn 0) -> seg_i (v_l v') = seg_i (lc th) -> seg_n (v_l v') = seg_n (lc th) ->
  seg_end o (v_l v') = seg_end o (lc th) -> linv s' v' -> is_push o = true ->
  cb_push t (slots s) (tsl (C s) (seg_i (lc th))) (seg_i (lc th)) (firstn (seg_n (lc th)) (vals (lc th))) (pushed s) (err s)
    = (slots s', pushed s', err s') -> delivered s' = delivered s ->
  length (firstn (seg_n (lc th)) (vals (lc th))) = seg_n (lc th) -> Inv s'.
Proof.
  intros th' v' HT' OT FR N1 N2 PH E' OP PH' SI SN SE L' PU CB DS LN.
  destruct (ready_facts PH) as (B0 & RD & TSL & RF & NOW & LB). rewrite PU in RF.
  set (b := seg_i (lc th)) in *. set (n := seg_n (lc th)) in *. set (base := tsl (C s) b) in *. set (vs := firstn n (vals (lc th))) in *.
  pose proof (C_frame FR) as CC. pose proof thv_t as TT. pose proof (C_pos s) as CP.
  assert (NX : forall r0, next_of s' r0 = next_of s r0) by (intros []; cbn; auto).
  assert (FREE : forall k, (k < length vs)%nat -> own (nth (base + k) (slots s) slot0) = None /\ pay (nth (base + k) (slots s) slot0) = None).
  { intros k Hk. rewrite LN in Hk. rewrite <- (TSL k Hk). destruct (RF (b + Z.of_nat k) ltac:(lia)) as (V & IH & OW). split; auto.
    destruct (i_slot _ I (b + Z.of_nat k) ltac:(lia)) as [A _]. apply (A OW); auto. }
  destruct (cb_push_spec vs t (slots s) base b (pushed s) (err s) ltac:(rewrite LN; exact LB) FREE) as (sls' & ps' & CB' & LEN & OUT & INN & PSI).
  rewrite CB in CB'. inversion CB'. subst sls' ps'. clear CB'. rename H2 into ER. rewrite LN in OUT, INN, PSI.
  (* slots of tickets *)
  assert (VER : forall sl, ver (nth sl (slots s') slot0) = ver (nth sl (slots s) slot0)).
  { intros sl. destruct (Nat.lt_ge_cases sl base) as [A|A]. rewrite OUT; auto.
    destruct (Nat.lt_ge_cases sl (base + n)) as [A'|A']. replace sl with (base + (sl - base))%nat by lia. specialize (INN (sl - base)%nat ltac:(lia)). unfold cs in INN. congruence.
    rewrite OUT; auto. }
  assert (SVER : forall i, ver (sslot s' i) = ver (sslot s i)) by (intros; unfold sslot; rewrite CC; apply VER).
  assert (MOD : forall i, (tsl (C s) i < base \/ base + n <= tsl (C s) i)%nat -> sslot s' i = sslot s i).
  { intros i A. unfold sslot. rewrite CC. apply OUT; auto. }
  assert (HITK : forall i, (base <= tsl (C s) i < base + n)%nat -> exists k, (k < n)%nat /\ tsl (C s) i = tsl (C s) (b + Z.of_nat k) /\
             cs (sslot s' i) = (ver (sslot s i), Some (nth k vs 0), Some t)).
  { intros i A. exists (tsl (C s) i - base)%nat. split. lia. rewrite TSL by lia. split. lia. unfold sslot. rewrite CC.
    replace (tsl (C s) i) with (base + (tsl (C s) i - base))%nat at 1 2 by lia. apply INN. lia. }
  assert (KP : forall u vu, u <> t -> thv s u vu -> thv s' u vu) by (intros; eapply thv_keep; eauto).
  assert (CA : forall u vu, thv s' u vu -> (u <> t /\ thv s u vu) \/ (u = t /\ vu = v')).
  { intros u vu H. destruct (thv_others _ _ _ _ _ _ OT HT' H) as [A|[A B]]; auto. right. split; auto. congruence. }
  assert (TT' : thv s' t v') by (exists th'; auto).
  assert (RO' : vrole v' = true) by (unfold vrole; rewrite OP; auto).
  assert (RV : vrole v = true) by exact PU.
  assert (IH' : forall i, inhold v' i <-> inhold v i).
  { intros i. unfold inhold. rewrite PH. cbn [v_op v_l v]. rewrite OP. destruct PH' as [-> | ->]; rewrite SI, SE; fold b; try tauto. lia. }
  assert (OWN' : forall i, vown v' i <-> b <= i < b + Z.of_nat n).
  { intros i. unfold vown. destruct PH' as [-> | ->]; rewrite SI, SN; fold b n; lia. }
  assert (NOTt : forall u vu i, thv s u vu -> vown vu i -> u <> t).
  { intros u vu i H OWN ->. rewrite (thv_fun _ _ _ _ H TT) in OWN. exact (NOW i OWN). }
  (* a ticket known or owned by another thread does not live in a slot of the segment *)
  assert (OUTK : forall u vu i, thv s u vu -> u <> t -> vknown vu i -> (tsl (C s) i < base \/ base + n <= tsl (C s) i)%nat).
  { intros u vu i H NE KN. destruct (Nat.lt_ge_cases (tsl (C s) i) base) as [A|A]; auto.
    destruct (Nat.lt_ge_cases (tsl (C s) i) (base + n)) as [A'|A']; auto. exfalso.
    destruct (HITK i ltac:(lia)) as (k & Hk & TS & _). destruct (RF (b + Z.of_nat k) ltac:(lia)) as (V & IHt & _).
    pose proof (i_tf _ I _ _ H) as TFu. pose proof (vknown_inhold _ _ _ TFu KN) as IHu. pose proof (inhold_bounds _ _ _ TFu IHu) as Bu.
    destruct TFu as (_ & KNu & _).
    destruct (same_ticket s (vrole vu) true i (b + Z.of_nat k) ltac:(lia) ltac:(lia) TS (KNu i KN) V) as [R1 R2]. subst i.
    eapply (i_disj _ I u t vu v); eauto. }
  constructor.
  - rewrite LEN, CC. apply (i_len _ I).
  - intros r0. rewrite NX. apply (i_nn _ I).
  - intros u vu H. destruct (CA _ _ H) as [[N H']|[-> ->]].
    + apply (tfacts_ext s s' vu); [apply NX | apply NX | apply (f_k _ _ FR) | exact VER | apply (i_tf _ I u); auto].
    + split; [exact L'|split].
      * intros i Hi. rewrite SVER, CC, RO'. apply RF. apply OWN'. unfold vknown, vown in *. destruct PH' as [E1|E1]; rewrite E1 in *; exact Hi.
      * intros i Hi. unfold vtry in Hi. destruct PH' as [E1|E1]; rewrite E1 in Hi; destruct Hi.
  - intros u u' vu vu' i H H' NE RO IH1 IH2.
    destruct (CA _ _ H) as [[N A]|[-> ->]]; destruct (CA _ _ H') as [[N' A']|[-> ->]].
    + eapply (i_disj _ I u u'); eauto.
    + apply IH' in IH2. eapply (i_disj _ I u t vu v); eauto; congruence.
    + apply IH' in IH1. eapply (i_disj _ I t u' v vu'); eauto; congruence.
    + congruence.
  - intros r0 i Hi HC. rewrite SVER, CC. apply (i_le _ I); auto. rewrite NX in HC. destruct HC as [HC|(u & vu & H & RO & IH)]; auto.
    right. destruct (CA _ _ H) as [[N A]|[-> ->]].
    + exists u, vu. auto.
    + exists t, v. split; auto. split. congruence. apply IH'. auto.
  - intros u vu i H OWN. rewrite DS. destruct (CA _ _ H) as [[N A]|[-> ->]].
    + rewrite (MOD i (OUTK _ _ _ A N (vown_known _ _ OWN))). destruct (i_own _ I u vu i A OWN) as [O1 O2]. split; auto.
      destruct (vrole vu); auto. destruct O2 as (val & P1 & P2). exists val. split; auto. apply PSI. auto.
    + apply OWN' in OWN. rewrite RO'.
      assert (A : (base <= tsl (C s) i < base + n)%nat).
      { replace i with (b + Z.of_nat (Z.to_nat (i - b))) by lia. rewrite TSL by lia. lia. }
      destruct (HITK i A) as (k & Hk & TS & CSI).
      assert (i = b + Z.of_nat k).
      { destruct (RF i OWN) as (V1 & _). destruct (RF (b + Z.of_nat k) ltac:(lia)) as (V2 & _).
        apply (same_ticket s true true i (b + Z.of_nat k)); auto; lia. }
      subst i. unfold cs in CSI. inversion CSI. split; auto. exists (nth k vs 0). split; auto. apply PSI. right. exists k. auto.
  - intros i Hi. rewrite CC. destruct (Nat.lt_ge_cases (tsl (C s) i) base) as [A|A]; [|destruct (Nat.lt_ge_cases (tsl (C s) i) (base + n)) as [A'|A']].
    + rewrite (MOD i (or_introl A)). destruct (i_slot _ I i Hi) as [P Q]. split.
      * intros ON. destruct (P ON) as [P1 P2]. split; auto. intros EV. destruct (P2 EV) as (val & X1 & X2). exists val. split; auto. apply PSI; auto.
      * intros u OU. destruct (Q u OU) as (vu & i' & H & OWN & TS). exists vu, i'. split; auto. apply KP; auto. eapply NOTt; eauto.
    + destruct (HITK i ltac:(lia)) as (k & Hk & TS & CSI). unfold cs in CSI. inversion CSI. rewrite H2. split; [intros; discriminate|].
      intros u EU. inversion EU. subst u. exists v', (b + Z.of_nat k). split; auto. split. apply OWN'. lia. auto.
    + rewrite (MOD i (or_intror A')). destruct (i_slot _ I i Hi) as [P Q]. split.
      * intros ON. destruct (P ON) as [P1 P2]. split; auto. intros EV. destruct (P2 EV) as (val & X1 & X2). exists val. split; auto. apply PSI; auto.
      * intros u OU. destruct (Q u OU) as (vu & i' & H & OWN & TS). exists vu, i'. split; auto. apply KP; auto. eapply NOTt; eauto.
  - intros i val IN. rewrite SVER, CC. apply PSI in IN. destruct IN as [IN|(k & Hk & EQ)].
    + destruct (i_pushed _ I i val IN) as [A [B|(u & vu & H & RO & OWN)]]; split; auto.
      right. exists u, vu. split; auto. apply KP; auto. eapply NOTt; eauto.
    + inversion EQ. subst i val. split. lia. right. exists t, v'. split; auto. split; auto. apply OWN'. lia.
  - pose proof (cb_push_nodup vs t (slots s) base b (pushed s) (err s) (i_pnd _ I)) as ND. rewrite CB in ND. cbn [fst snd] in ND. apply ND.
    intros k Hk IN. rewrite LN in Hk. apply in_map_iff in IN as ((i & val) & E1 & IN). cbn in E1. subst i.
    destruct (RF (b + Z.of_nat k) ltac:(lia)) as (V & IHt & _).
    destruct (i_pushed _ I _ _ IN) as [A [B|(u & vu & H & RO & OWN)]]. lia.
    pose proof (NOTt _ _ _ H OWN) as NE. eapply (i_disj _ I u t vu v (b + Z.of_nat k)); eauto; try congruence.
    apply (vown_inhold s); auto. apply (i_tf _ I u); auto.
  - intros i val IN. rewrite DS in IN. rewrite SVER, CC. destruct (i_deliv _ I i val IN) as [A [B|(u & vu & H & RO & OWN)]]; (split; [apply PSI; auto|]); auto.
    right. exists u, vu. split; auto. apply KP; auto. eapply NOTt; eauto.
  - rewrite DS. apply (i_dnd _ I).
  - intros i val IN LT. rewrite DS. rewrite SVER, CC in LT. apply PSI in IN. destruct IN as [IN|(k & Hk & EQ)].
    + apply (i_cons _ I i val IN LT).
    + inversion EQ. subst i val. destruct (RF (b + Z.of_nat k) ltac:(lia)) as (V & _). rewrite V in LT. unfold xver in LT. lia.
  - pose proof (i_err _ I). congruence.
Qed.

Lemma pres_cb_pop : forall th' v' g, nth_error (threads s') t = Some th' -> others s s' t -> frame s s' ->
  npush s' = npush s -> npop s' = npop s -> v_ph v = PReady ->
  tv th' = Some v' -> v_op v' = o -> (v_ph v' = PCb \/ v_ph v' = POwn 0) -> seg_i (v_l v') = seg_i (lc th) -> seg_n (v_l v') = seg_n (lc th) ->
  seg_end o (v_l v') = seg_end o (lc th) -> linv s' v' -> is_push o = false ->
  cb_pop t (slots s) (tsl (C s) (seg_i (lc th))) (seg_i (lc th)) (seg_n (lc th)) (delivered s) (got (lc th)) (err s)
    = (slots s', delivered s', g, err s') -> pushed s' = pushed s -> Inv s'.
Proof.
  intros th' v' g HT' OT FR N1 N2 PH E' OP PH' SI SN SE L' PU CB PS.
  destruct (ready_facts PH) as (B0 & RD & TSL & RF & NOW & LB). rewrite PU in RF.
  set (b := seg_i (lc th)) in *. set (n := seg_n (lc th)) in *. set (base := tsl (C s) b) in *.
  pose proof (C_frame FR) as CC. pose proof thv_t as TT. pose proof (C_pos s) as CP.
  assert (NX : forall r0, next_of s' r0 = next_of s r0) by (intros []; cbn; auto).
  assert (FULL : forall k, (k < n)%nat -> own (sslot s (b + Z.of_nat k)) = None /\
            exists val, pay (sslot s (b + Z.of_nat k)) = Some val /\ In (b + Z.of_nat k, val) (pushed s)).
  { intros k Hk. destruct (RF (b + Z.of_nat k) ltac:(lia)) as (V & IH & OW). split; auto.
    destruct (i_slot _ I (b + Z.of_nat k) ltac:(lia)) as [A _]. apply (A OW); auto. }
  assert (FREE : forall k, (k < n)%nat -> own (nth (base + k) (slots s) slot0) = None /\ exists val, pay (nth (base + k) (slots s) slot0) = Some val).
  { intros k Hk. rewrite <- (TSL k Hk). destruct (FULL k Hk) as (A & val & B & _). split; auto. exists val; auto. }
  destruct (cb_pop_spec n t (slots s) base b (delivered s) (got (lc th)) (err s) LB FREE) as (sls' & ds' & g' & CB' & LEN & OUT & INN & DSI).
  rewrite CB in CB'. inversion CB'. subst sls' ds' g'. clear CB'. rename H3 into ER.
  assert (VER : forall sl, ver (nth sl (slots s') slot0) = ver (nth sl (slots s) slot0)).
  { intros sl. destruct (Nat.lt_ge_cases sl base) as [A|A]. rewrite OUT; auto.
    destruct (Nat.lt_ge_cases sl (base + n)) as [A'|A']. replace sl with (base + (sl - base))%nat by lia. specialize (INN (sl - base)%nat ltac:(lia)). unfold cs in INN. congruence.
    rewrite OUT; auto. }
  assert (SVER : forall i, ver (sslot s' i) = ver (sslot s i)) by (intros; unfold sslot; rewrite CC; apply VER).
  assert (MOD : forall i, (tsl (C s) i < base \/ base + n <= tsl (C s) i)%nat -> sslot s' i = sslot s i).
  { intros i A. unfold sslot. rewrite CC. apply OUT; auto. }
  assert (HITK : forall i, (base <= tsl (C s) i < base + n)%nat -> exists k, (k < n)%nat /\ tsl (C s) i = tsl (C s) (b + Z.of_nat k) /\
             cs (sslot s' i) = (ver (sslot s i), None, Some t)).
  { intros i A. exists (tsl (C s) i - base)%nat. split. lia. rewrite TSL by lia. split. lia. unfold sslot. rewrite CC.
    replace (tsl (C s) i) with (base + (tsl (C s) i - base))%nat at 1 2 by lia. apply INN. lia. }
  assert (KP : forall u vu, u <> t -> thv s u vu -> thv s' u vu) by (intros; eapply thv_keep; eauto).
  assert (CA : forall u vu, thv s' u vu -> (u <> t /\ thv s u vu) \/ (u = t /\ vu = v')).
  { intros u vu H. destruct (thv_others _ _ _ _ _ _ OT HT' H) as [A|[A B]]; auto. right. split; auto. congruence. }
  assert (TT' : thv s' t v') by (exists th'; auto).
  assert (RO' : vrole v' = false) by (unfold vrole; rewrite OP; auto).
  assert (RV : vrole v = false) by exact PU.
  assert (IH' : forall i, inhold v' i <-> inhold v i).
  { intros i. unfold inhold. rewrite PH. cbn [v_op v_l v]. rewrite OP. destruct PH' as [-> | ->]; rewrite SI, SE; fold b; try tauto. lia. }
  assert (OWN' : forall i, vown v' i <-> b <= i < b + Z.of_nat n).
  { intros i. unfold vown. destruct PH' as [-> | ->]; rewrite SI, SN; fold b n; lia. }
  assert (NOTt : forall u vu i, thv s u vu -> vown vu i -> u <> t).
  { intros u vu i H OWN ->. rewrite (thv_fun _ _ _ _ H TT) in OWN. exact (NOW i OWN). }
  assert (OUTK : forall u vu i, thv s u vu -> u <> t -> vknown vu i -> (tsl (C s) i < base \/ base + n <= tsl (C s) i)%nat).
  { intros u vu i H NE KN. destruct (Nat.lt_ge_cases (tsl (C s) i) base) as [A|A]; auto.
    destruct (Nat.lt_ge_cases (tsl (C s) i) (base + n)) as [A'|A']; auto. exfalso.
    destruct (HITK i ltac:(lia)) as (k & Hk & TS & _). destruct (RF (b + Z.of_nat k) ltac:(lia)) as (V & IHt & _).
    pose proof (i_tf _ I _ _ H) as TFu. pose proof (vknown_inhold _ _ _ TFu KN) as IHu. pose proof (inhold_bounds _ _ _ TFu IHu) as Bu.
    destruct TFu as (_ & KNu & _).
    destruct (same_ticket s (vrole vu) false i (b + Z.of_nat k) ltac:(lia) ltac:(lia) TS (KNu i KN) V) as [R1 R2]. subst i.
    eapply (i_disj _ I u t vu v); eauto; congruence. }
  constructor.
  - rewrite LEN, CC. apply (i_len _ I).
  - intros r0. rewrite NX. apply (i_nn _ I).
  - intros u vu H. destruct (CA _ _ H) as [[N H']|[-> ->]].
    + apply (tfacts_ext s s' vu); [apply NX | apply NX | apply (f_k _ _ FR) | exact VER | apply (i_tf _ I u); auto].
    + split; [exact L'|split].
      * intros i Hi. rewrite SVER, CC, RO'. apply RF. apply OWN'. unfold vknown, vown in *. destruct PH' as [E1|E1]; rewrite E1 in *; exact Hi.
      * intros i Hi. unfold vtry in Hi. destruct PH' as [E1|E1]; rewrite E1 in Hi; destruct Hi.
  - intros u u' vu vu' i H H' NE RO IH1 IH2.
    destruct (CA _ _ H) as [[N A]|[-> ->]]; destruct (CA _ _ H') as [[N' A']|[-> ->]].
    + eapply (i_disj _ I u u'); eauto.
    + apply IH' in IH2. eapply (i_disj _ I u t vu v); eauto; congruence.
    + apply IH' in IH1. eapply (i_disj _ I t u' v vu'); eauto; congruence.
    + congruence.
  - intros r0 i Hi HC. rewrite SVER, CC. apply (i_le _ I); auto. rewrite NX in HC. destruct HC as [HC|(u & vu & H & RO & IH)]; auto.
    right. destruct (CA _ _ H) as [[N A]|[-> ->]].
    + exists u, vu. auto.
    + exists t, v. split; auto. split. congruence. apply IH'. auto.
  - intros u vu i H OWN. rewrite PS. destruct (CA _ _ H) as [[N A]|[-> ->]].
    + rewrite (MOD i (OUTK _ _ _ A N (vown_known _ _ OWN))). destruct (i_own _ I u vu i A OWN) as [O1 O2]. split; auto.
      destruct (vrole vu); auto. destruct O2 as (P1 & val & P2). split; auto. exists val. apply DSI. auto.
    + apply OWN' in OWN. rewrite RO'.
      assert (A : (base <= tsl (C s) i < base + n)%nat).
      { replace i with (b + Z.of_nat (Z.to_nat (i - b))) by lia. rewrite TSL by lia. lia. }
      destruct (HITK i A) as (k & Hk & TS & CSI).
      assert (i = b + Z.of_nat k).
      { destruct (RF i OWN) as (V1 & _). destruct (RF (b + Z.of_nat k) ltac:(lia)) as (V2 & _).
        apply (same_ticket s false false i (b + Z.of_nat k)); auto; lia. }
      subst i. unfold cs in CSI. inversion CSI. split; auto. split; auto.
      destruct (FULL k Hk) as (_ & val & PV & _). exists val. apply DSI. right. exists k, val. split; auto. split; auto.
      rewrite <- (TSL k Hk). exact PV.
  - intros i Hi. rewrite CC, PS. destruct (Nat.lt_ge_cases (tsl (C s) i) base) as [A|A]; [|destruct (Nat.lt_ge_cases (tsl (C s) i) (base + n)) as [A'|A']].
    + rewrite (MOD i (or_introl A)). destruct (i_slot _ I i Hi) as [P Q]. split; auto.
      intros u OU. destruct (Q u OU) as (vu & i' & H & OWN & TS). exists vu, i'. split; auto. apply KP; auto. eapply NOTt; eauto.
    + destruct (HITK i ltac:(lia)) as (k & Hk & TS & CSI). unfold cs in CSI. inversion CSI. rewrite H2. split; [intros; discriminate|].
      intros u EU. inversion EU. subst u. exists v', (b + Z.of_nat k). split; auto. split. apply OWN'. lia. auto.
    + rewrite (MOD i (or_intror A')). destruct (i_slot _ I i Hi) as [P Q]. split; auto.
      intros u OU. destruct (Q u OU) as (vu & i' & H & OWN & TS). exists vu, i'. split; auto. apply KP; auto. eapply NOTt; eauto.
  - intros i val IN. rewrite PS in IN. rewrite SVER, CC.
    destruct (i_pushed _ I i val IN) as [A [B|(u & vu & H & RO & OWN)]]; split; auto.
    right. exists u, vu. split; auto. apply KP; auto. eapply NOTt; eauto.
  - rewrite PS. apply (i_pnd _ I).
  - intros i val IN. rewrite SVER, CC, PS. apply DSI in IN. destruct IN as [IN|(k & val' & Hk & PV & EQ)].
    + destruct (i_deliv _ I i val IN) as [A [B|(u & vu & H & RO & OWN)]]; split; auto.
      right. exists u, vu. split; auto. apply KP; auto. eapply NOTt; eauto.
    + inversion EQ. subst i val. destruct (FULL k Hk) as (_ & val & PV' & INP). rewrite <- (TSL k Hk) in PV.
      assert (val' = val) by (unfold sslot in *; congruence). subst val'. split; auto.
      right. exists t, v'. split; auto. split; auto. apply OWN'. lia.
  - pose proof (cb_pop_nodup n t (slots s) base b (delivered s) (got (lc th)) (err s) (i_dnd _ I)) as ND. rewrite CB in ND. cbn [fst snd] in ND. apply ND.
    intros k Hk IN. apply in_map_iff in IN as ((i & val) & E1 & IN). cbn in E1. subst i.
    destruct (RF (b + Z.of_nat k) ltac:(lia)) as (V & IHt & _).
    destruct (i_deliv _ I _ _ IN) as [A [B|(u & vu & H & RO & OWN)]]. lia.
    pose proof (NOTt _ _ _ H OWN) as NE. eapply (i_disj _ I u t vu v (b + Z.of_nat k)); eauto; try congruence.
    apply (vown_inhold s); auto. apply (i_tf _ I u); auto.
  - intros i val IN LT. rewrite PS in IN. rewrite SVER, CC in LT. apply DSI. left. apply (i_cons _ I i val IN LT).
  - pose proof (i_err _ I). congruence.
Qed.
End Pres.
