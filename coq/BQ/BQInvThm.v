(* Ticket-interval invariant of BQModel: reachability theorem and its corollaries. *)
From Coq Require Import ZArith List Bool Lia.
Require Import Verif.Base.Atomics Verif.Gen.Gen_bounded_queue Verif.Conc.Machine Verif.BQ.BQModel Verif.BQ.BQProofs.
Require Import Verif.BQ.BQInvDefs Verif.BQ.BQInvStep Verif.BQ.BQInvMain.
Import ListNotations.
Local Open Scope Z_scope.

(* ---------------- what usage_ok gives ---------------- *)
Definition sides_ok (progs : list (list op)) : Prop :=
  forall t u p q o o', t <> u -> nth_error progs t = Some p -> nth_error progs u = Some q -> In o p -> In o' q ->
  is_push o = is_push o' -> oconc o' = true.

Lemma filter_two : forall A (f : A -> bool) l t u a b, nth_error l t = Some a -> nth_error l u = Some b -> t <> u ->
  f a = true -> f b = true -> (2 <= length (filter f l))%nat.
Proof.
  intros A f. induction l as [|x l IH]; intros t u a b Ha Hb NE Fa Fb.
  - destruct t; discriminate.
  - destruct t as [|t], u as [|u]; cbn in Ha, Hb; try congruence.
    + inversion Ha; subst. cbn. rewrite Fa. cbn. apply nth_error_In in Hb.
      assert (In b (filter f l)) by (apply filter_In; split; auto). destruct (filter f l); [contradiction|cbn; lia].
    + inversion Hb; subst. cbn. rewrite Fb. cbn. apply nth_error_In in Ha.
      assert (In a (filter f l)) by (apply filter_In; split; auto). destruct (filter f l); [contradiction|cbn; lia].
    + cbn. assert (2 <= length (filter f l))%nat by (apply (IH t u a b); auto). destruct (f x); cbn; lia.
Qed.

Lemma usage_sides : forall k progs, usage_ok k progs = true -> sides_ok progs.
Proof.
  intros k progs U t u p q o o' NE Hp Hq Io Io' RO. unfold usage_ok in U.
  apply andb_true_iff in U as [U _]. apply andb_true_iff in U as [U _]. apply andb_true_iff in U as [U _].
  apply andb_true_iff in U as [E1 E2].
  assert (EX : excl_ok (is_push o') progs = true) by (destruct (is_push o'); auto).
  unfold excl_ok in EX. apply orb_true_iff in EX as [EX|EX].
  - rewrite forallb_forall in EX. apply EX. unfold side_ops. apply filter_In. split.
    + unfold all_ops. apply in_concat. exists q. split; auto. eapply nth_error_In; eauto.
    + apply eqb_reflx.
  - apply Nat.leb_le in EX. unfold threads_on_side in EX. exfalso.
    set (f := fun p0 : list op => negb match side_ops (is_push o') p0 with [] => true | _ :: _ => false end) in *.
    assert (Fp : f p = true).
    { unfold f. assert (In o (side_ops (is_push o') p)) by (unfold side_ops; apply filter_In; split; auto; rewrite RO; apply eqb_reflx).
      destruct (side_ops (is_push o') p); [contradiction|reflexivity]. }
    assert (Fq : f q = true).
    { unfold f. assert (In o' (side_ops (is_push o') q)) by (unfold side_ops; apply filter_In; split; auto; apply eqb_reflx).
      destruct (side_ops (is_push o') q); [contradiction|reflexivity]. }
    pose proof (filter_two _ f progs t u p q Hp Hq NE Fp Fq). lia.
Qed.

Lemma usage_size : forall k progs p o, usage_ok k progs = true -> In p progs -> In o p -> (onum o <= Nat.pow 2 k)%nat.
Proof.
  intros k progs p o U Ip Io. unfold usage_ok in U. apply andb_true_iff in U as [_ U]. unfold size_ok in U.
  rewrite forallb_forall in U. apply Nat.leb_le. apply U. unfold all_ops. apply in_concat. exists p. auto.
Qed.

Lemma pow_nat_Z : forall k, Z.of_nat (Nat.pow 2 k) = 2 ^ Z.of_nat k.
Proof. intros. rewrite Nat2Z.inj_pow. reflexivity. Qed.

(* ---------------- the full invariant ---------------- *)
Definition FInv (k : nat) (progs : list (list op)) (s : st) : Prop :=
  Inv s /\ map prog (threads s) = progs /\ kbits s = k.

Lemma nth_repeat_slot : forall n sl, nth sl (repeat slot0 n) slot0 = slot0.
Proof. induction n as [|n IH]; intros [|sl]; cbn; auto. Qed.

Lemma FInv_init : forall k progs, FInv k progs (init k progs).
Proof.
  intros k progs. split; [|split].
  2: { cbn. rewrite map_map. cbn. apply map_id. }
  2: reflexivity.
  assert (SS : forall i, sslot (init k progs) i = slot0) by (intros; unfold sslot; cbn; apply nth_repeat_slot).
  assert (CI : C (init k progs) = 2 ^ Z.of_nat k) by reflexivity.
  assert (CP : 0 < 2 ^ Z.of_nat k) by (apply Z.pow_pos_nonneg; lia).
  assert (VW : forall u vu, thv (init k progs) u vu -> v_ph vu = PIdle).
  { intros u vu (thu & H1 & H2). cbn in H1. rewrite nth_error_map in H1. destruct (nth_error progs u) as [p|]; [|discriminate].
    inversion H1; subst. unfold tv, cur in H2. cbn in H2. destruct p as [|o0 p]; inversion H2. reflexivity. }
  constructor.
  - cbn. rewrite repeat_length. rewrite CI. rewrite <- pow_nat_Z. lia.
  - intros []; cbn; lia.
  - intros u vu H. pose proof (VW _ _ H) as PH. unfold tfacts, linv, vknown, vtry. rewrite PH. repeat split; tauto.
  - intros u u' vu vu' i H H' _ _ IH _. unfold inhold in IH. rewrite (VW _ _ H) in IH. exact IH.
  - intros r i Hi _. rewrite SS, CI. cbn. apply xver_nonneg; auto.
  - intros u vu i H OWN. unfold vown in OWN. rewrite (VW _ _ H) in OWN. destruct OWN.
  - intros i Hi. rewrite SS, CI. cbn. split; [|intros; discriminate]. intros _. split; auto.
    intros EV. unfold xver in EV. assert (0 <= i / 2 ^ Z.of_nat k) by (apply Z.div_pos; lia). lia.
  - intros i val [].
  - constructor.
  - intros i val [].
  - constructor.
  - intros i val [].
  - reflexivity.
Qed.

Lemma FInv_step : forall k progs s t s', usage_ok k progs = true -> FInv k progs s -> step s t = Some s' -> FInv k progs s'.
Proof.
  intros k progs s t s' U (I & PR & KB) H.
  apply step_inv in H as [(th & o & HT & HO & HS)|[HN ->]].
  2: { split; [|split; auto]. destruct I. constructor; auto. }
  pose proof (usage_sides _ _ U) as SD.
  assert (HO' : cur th = Some o) by exact HO.
  set (v := {| v_op := o; v_ph := phase_of o (tpc th) (lc th); v_l := lc th |}).
  assert (TT : thv s t v) by (exists th; split; auto; unfold tv; rewrite HO'; reflexivity).
  assert (Pth : nth_error progs t = Some (prog th)) by (rewrite <- PR, nth_error_map, HT; reflexivity).
  assert (HSZ : Z.of_nat (onum o) <= C s).
  { unfold C. rewrite KB, <- pow_nat_Z. apply inj_le. eapply usage_size; eauto. eapply nth_error_In; eauto. eapply nth_error_In; eauto. }
  pose proof (step_sum s t th o HT HO' (i_len _ I) HSZ (i_nn _ I) (i_tf _ I _ _ TT) s' HS) as SM.
  assert (FIN : forall s'', frame s s'' -> Inv s'' -> FInv k progs s'').
  { intros s'' FR I''. split; auto. split. rewrite (f_prog _ _ FR). auto. rewrite (f_k _ _ FR). auto. }
  destruct SM as [th' HT' OT FR SC LO | th' n v' HT' OT FR NR NO PS DS ER SL NH NOW E' RO' TF' IH' NOW'
                 | th' v' HT' OT FR N1 N2 PH E' OP PH' SI SN SE L' CB | th' j HT' OT FR N1 N2 PS DS ER PH CS0 CSO PO].
  - apply FIN; auto. apply (pres_loc s s' t th o HT HO' I th'); auto.
  - apply FIN; auto. apply (pres_acq s s' t th o HT HO' I th' n v'); auto.
    intros u vu (thu & H1 & H2) NE RO. unfold tv in H2. destruct (cur thu) as [ou|] eqn:CU; [|discriminate]. inversion H2; subst vu. cbn in *.
    assert (Pu : nth_error progs u = Some (prog thu)) by (rewrite <- PR, nth_error_map, H1; reflexivity).
    eapply (SD t u (prog th) (prog thu) o ou); eauto. eapply nth_error_In; eauto. eapply nth_error_In; eauto.
  - apply FIN; auto. destruct (is_push o) eqn:PU.
    + destruct CB as (CB & DS & LN). apply (pres_cb_push s s' t th o HT HO' I th' v'); auto.
    + destruct CB as (g & CB & PS). apply (pres_cb_pop s s' t th o HT HO' I th' v' g); auto.
  - apply FIN; auto. apply (pres_pub s s' t th o HT HO' I th' j); auto.
Qed.

Theorem FInv_reach : forall k progs s, usage_ok k progs = true -> Reach k progs s -> FInv k progs s.
Proof.
  intros k progs s U R. eapply inv_reachable with (Inv := FInv k progs); eauto. apply FInv_init.
  intros; eapply FInv_step; eauto.
Qed.

(* ---------------- C01: exclusive access, exactly once ---------------- *)
Theorem bq_exclusive : forall k progs s, usage_ok k progs = true -> Reach k progs s -> err s = false.
Proof. intros k progs s U R. destruct (FInv_reach _ _ _ U R) as (I & _). apply (i_err _ I). Qed.

Theorem bq_exactly_once : forall k progs s, usage_ok k progs = true -> Reach k progs s ->
  (forall i v, In (i, v) (delivered s) -> In (i, v) (pushed s)) /\ NoDup (map fst (delivered s)) /\ NoDup (map fst (pushed s)).
Proof.
  intros k progs s U R. destruct (FInv_reach _ _ _ U R) as (I & _). split; [|split].
  - intros i v IN. apply (i_deliv _ I i v IN).
  - apply (i_dnd _ I).
  - apply (i_pnd _ I).
Qed.

(* conservation at quiescence: what was pushed has been delivered or is still in its slot *)
Theorem bq_conservation : forall k progs s, usage_ok k progs = true -> Reach k progs s -> all_done s = true ->
  forall i v, In (i, v) (pushed s) -> In (i, v) (delivered s) \/ pay (get_slot s (Z.to_nat (i mod 2 ^ Z.of_nat k))) = Some v.
Proof.
  intros k progs s U R AD i v IN. destruct (FInv_reach _ _ _ U R) as (I & _ & KB).
  assert (NV : forall u vu, ~ thv s u vu).
  { intros u vu (thu & H1 & H2). unfold all_done in AD. rewrite forallb_forall in AD. specialize (AD thu (nth_error_In _ _ H1)).
    unfold thread_done in AD. unfold tv, cur in H2. destruct (nth_error (prog thu) (opi thu)); discriminate. }
  assert (SE : get_slot s (Z.to_nat (i mod 2 ^ Z.of_nat k)) = sslot s i) by (unfold get_slot, sslot, tsl, C; rewrite KB; reflexivity).
  rewrite SE. destruct (i_pushed _ I i v IN) as [Hi [LT|(u & vu & H & _)]]; [|destruct (NV _ _ H)].
  destruct (Z_lt_le_dec (xver (C s) false i) (ver (sslot s i))) as [LT0|GE].
  - left. apply (i_cons _ I i v IN LT0).
  - right. assert (EV : ver (sslot s i) = xver (C s) false i) by (unfold xver in *; lia).
    destruct (i_slot _ I i Hi) as [A B]. destruct (own (sslot s i)) as [u|] eqn:OU.
    + destruct (B u eq_refl) as (vu & i' & H & _). destruct (NV _ _ H).
    + destruct (A eq_refl) as [_ A2]. destruct (A2 EV) as (val & PV & INV). rewrite (nodup_fst_fun _ _ _ _ (i_pnd _ I) IN INV). exact PV.
Qed.

Theorem bq_exactly_once_full : forall k progs s, usage_ok k progs = true -> Reach k progs s ->
  (forall i v, In (i, v) (delivered s) -> In (i, v) (pushed s)) /\ NoDup (map fst (delivered s)) /\ NoDup (map fst (pushed s)) /\
  (all_done s = true -> forall i v, In (i, v) (pushed s) -> In (i, v) (delivered s) \/
     pay (get_slot s (Z.to_nat (i mod 2 ^ Z.of_nat k))) = Some v).
Proof.
  intros k progs s U R. destruct (bq_exactly_once k progs s U R) as (A & B & D). repeat split; auto.
  intros AD i v IN. eapply bq_conservation; eauto.
Qed.
