(* Ticket-interval invariant of BQModel: vocabulary, arithmetic bridges and list lemmas. *)
From Coq Require Import ZArith List Bool Lia.
Require Import Verif.Base.Atomics Verif.Gen.Gen_bounded_queue Verif.Conc.Machine Verif.BQ.BQModel Verif.BQ.BQProofs.
Import ListNotations.
Local Open Scope Z_scope.

(* ---------------- capacity, slot of a ticket, expected version of a ticket ---------------- *)
Definition C (s : st) : Z := 2 ^ Z.of_nat (kbits s).
Definition xver (c : Z) (r : bool) (i : Z) : Z := 2 * (i / c) + (if r then 0 else 1).
Definition tsl (c : Z) (i : Z) : nat := Z.to_nat (i mod c).
Definition sslot (s : st) (i : Z) : slot := nth (tsl (C s) i) (slots s) slot0.

Lemma C_pos : forall s, 0 < C s.
Proof. intros. unfold C. apply Z.pow_pos_nonneg; lia. Qed.
Lemma mask_C : forall s, mask s = C s - 1.
Proof. reflexivity. Qed.
Lemma ever_xver : forall s r i, ever s r i = xver (C s) r i.
Proof.
  intros. unfold ever, xver, kb, C. destruct r.
  - rewrite bq_push_ver by lia. lia.
  - rewrite bq_pop_ver by lia. lia.
Qed.
Lemma slot_z_mod : forall s k i, slot_z k i (mask s) = i mod C s.
Proof.
  intros. rewrite mask_C. unfold C. destruct (bq_slot_index (Z.of_nat (kbits s)) i ltac:(lia)) as (A & B & D & E & F).
  destruct k; cbn [slot_z]; auto.
Qed.
Lemma slot_until_mod : forall s i, slot_index_until i (mask s) = i mod C s.
Proof. intros. rewrite mask_C. unfold C. destruct (bq_slot_index (Z.of_nat (kbits s)) i ltac:(lia)) as (A & B & D & E & F). auto. Qed.

Lemma xver_inj : forall c r r' i i', 0 < c -> 0 <= i -> 0 <= i' -> i mod c = i' mod c -> xver c r i = xver c r' i' -> r = r' /\ i = i'.
Proof.
  intros c r r' i i' Hc Hi Hi' HM HV. unfold xver in HV.
  assert (i / c = i' / c /\ r = r') as [D R] by (destruct r, r'; split; auto; lia).
  split; auto. rewrite (Z.div_mod i c) by lia. rewrite (Z.div_mod i' c) by lia. congruence.
Qed.
Lemma tsl_inj : forall c i i', 0 < c -> tsl c i = tsl c i' -> i mod c = i' mod c.
Proof.
  intros c i i' Hc H. unfold tsl in H. pose proof (Z.mod_pos_bound i c Hc). pose proof (Z.mod_pos_bound i' c Hc).
  apply Z2Nat.inj in H; lia.
Qed.
Lemma tsl_lt : forall c i, 0 < c -> (tsl c i < Z.to_nat c)%nat.
Proof. intros c i Hc. unfold tsl. pose proof (Z.mod_pos_bound i c Hc). lia. Qed.
Lemma round_add : forall c i j, 0 < c -> 0 <= j -> i mod c + j < c -> (i + j) / c = i / c /\ (i + j) mod c = i mod c + j.
Proof.
  intros c i j Hc Hj H. pose proof (Z.mod_pos_bound i c Hc) as B. pose proof (Z.div_mod i c ltac:(lia)) as D.
  assert (E : i + j = c * (i / c) + (i mod c + j)) by lia.
  split.
  - symmetry. apply (Z.div_unique_pos (i + j) c (i / c) (i mod c + j)); lia.
  - symmetry. apply (Z.mod_unique_pos (i + j) c (i / c) (i mod c + j)); lia.
Qed.
Lemma xver_round : forall c r i j, 0 < c -> 0 <= j -> i mod c + j < c -> xver c r (i + j) = xver c r i.
Proof. intros. unfold xver. destruct (round_add c i j) as [E _]; auto. rewrite E. reflexivity. Qed.
Lemma tsl_round : forall c i j, 0 < c -> i mod c + Z.of_nat j < c -> tsl c (i + Z.of_nat j) = (tsl c i + j)%nat.
Proof.
  intros c i j Hc H. unfold tsl. destruct (round_add c i (Z.of_nat j)) as [_ E]; auto; try lia. rewrite E.
  pose proof (Z.mod_pos_bound i c Hc). lia.
Qed.
Lemma xver_mono : forall c r i i', 0 < c -> i <= i' -> xver c r i <= xver c r i'.
Proof. intros. unfold xver. assert (i / c <= i' / c) by (apply Z.div_le_mono; lia). lia. Qed.
Lemma xver_nonneg : forall c r i, 0 < c -> 0 <= i -> 0 <= xver c r i.
Proof. intros. unfold xver. assert (0 <= i / c) by (apply Z.div_pos; lia). destruct r; lia. Qed.

(* ---------------- phases and views ---------------- *)
Inductive phase :=
| PIdle | PUnt | PTk (b : Z) | PWaiting (j : nat) | PReady | PCb | POwn (j : nat) | PDone | PTry (b : Z) (j : nat) | PTry1 (b : Z) (j : nat).

Definition phase_of (o : op) (p : pc) (l : loc) : phase :=
  match p with
  | Idle => PIdle
  | TryReidx i => PTry1 i 0
  | TnIdx => PUnt
  | TkStore i => PTk i
  | WLoad j | WCas j _ | WFutex j _ | WParked j _ | WReload j | WSleep j | WSpin j => if is_timed o then PIdle else PWaiting j
  | FenceA | Callback => PReady
  | FenceR => PCb
  | Pub j => POwn j
  | PubWake _ | FenceSC | WkLoad _ | WkCas _ _ | WkWake _ _ => PDone
  | TryVer i => PTry1 i 0
  | TryCas i => PTry1 i 1
  | TnVer j => PTry (seg_i l) j
  | TnCas => PTry (seg_i l) (seg_n l)
  end.

Definition cur (th : thread) : option op := nth_error (prog th) (opi th).
Record view := { v_op : op; v_ph : phase; v_l : loc }.
Definition tv (th : thread) : option view :=
  match cur th with
  | Some o => Some {| v_op := o; v_ph := phase_of o (tpc th) (lc th); v_l := lc th |}
  | None => None
  end.
Definition vrole (v : view) : bool := is_push (v_op v).

Definition restn (l : loc) : nat := match rest l with Some (_, n2) => n2 | None => 0%nat end.
Definition seg_end (o : op) (l : loc) : Z :=
  match okind o, rest l with
  | KBatch, Some (i2, n2) => i2 + Z.of_nat n2
  | _, _ => seg_i l + Z.of_nat (seg_n l)
  end.
Definition segok (c : Z) (o : op) (l : loc) : Prop :=
  0 <= seg_i l /\ seg_i l mod c + Z.of_nat (seg_n l) <= c /\ (seg_n l <= seg_req l)%nat /\
  match rest l with
  | Some (i2, n2) => i2 = seg_i l + Z.of_nat (seg_req l) /\ i2 mod c + Z.of_nat n2 <= c /\
                     (okind o = KBatch -> seg_n l = seg_req l) /\ (0 < seg_req l)%nat /\
                     (okind o = KBatch \/ okind o = KTryN \/ okind o = KUntil)
  | None => True
  end.
Definition valsok (o : op) (l : loc) (m : nat) : Prop := is_push o = true -> (m <= length (vals l))%nat.
Definition hcommon (s : st) (o : op) (l : loc) : Prop :=
  segok (C s) o l /\ seg_end o l <= next_of s (is_push o) /\
  (oconc o = false -> next_of s (is_push o) = seg_end o l) /\
  (is_single o = true -> seg_n l = 1%nat /\ rest l = None).

Definition linv (s : st) (v : view) : Prop :=
  let o := v_op v in let l := v_l v in
  match v_ph v with
  | PIdle => True
  | PUnt => is_timed o = true
  | PTk b => oconc o = false /\ b = next_of s (is_push o) /\ 0 <= b /\ (okind o = KSingle \/ okind o = KBatch)
  | PWaiting j => hcommon s o l /\ (j < seg_n l)%nat /\ valsok o l (seg_n l + restn l)
  | PReady => hcommon s o l /\ valsok o l (seg_n l + restn l)
  | PCb => hcommon s o l /\ valsok o l (restn l)
  | POwn j => hcommon s o l /\ (j < seg_n l)%nat /\ valsok o l (restn l)
  | PDone => hcommon s o l /\ valsok o l (restn l)
  | PTry b j => 0 <= b <= next_of s (is_push o) /\ (oconc o = false -> b = next_of s (is_push o)) /\
                (okind o = KTryN \/ okind o = KUntil) /\
                b = seg_i l /\ segok (C s) o l /\ (j <= seg_n l)%nat /\ valsok o l (seg_n l + restn l)
  | PTry1 b j => 0 <= b <= next_of s (is_push o) /\ (oconc o = false -> b = next_of s (is_push o)) /\
                 okind o = KTry /\ (j <= 1)%nat /\ valsok o l 1
  end.

Definition inhold (v : view) (i : Z) : Prop :=
  let o := v_op v in let l := v_l v in
  match v_ph v with
  | PWaiting _ | PReady | PCb => seg_i l <= i < seg_end o l
  | POwn j => seg_i l + Z.of_nat j <= i < seg_end o l
  | PDone => seg_i l + Z.of_nat (seg_n l) <= i < seg_end o l
  | _ => False
  end.
Definition vknown (v : view) (i : Z) : Prop :=
  let l := v_l v in
  match v_ph v with
  | PWaiting j => seg_i l <= i < seg_i l + Z.of_nat j
  | PReady | PCb => seg_i l <= i < seg_i l + Z.of_nat (seg_n l)
  | POwn j => seg_i l + Z.of_nat j <= i < seg_i l + Z.of_nat (seg_n l)
  | _ => False
  end.
Definition vown (v : view) (i : Z) : Prop :=
  let l := v_l v in
  match v_ph v with
  | PCb => seg_i l <= i < seg_i l + Z.of_nat (seg_n l)
  | POwn j => seg_i l + Z.of_nat j <= i < seg_i l + Z.of_nat (seg_n l)
  | _ => False
  end.
Definition vtry (v : view) (i : Z) : Prop :=
  match v_ph v with PTry b j | PTry1 b j => b <= i < b + Z.of_nat j | _ => False end.
Definition trycond (s : st) (v : view) : Prop :=
  match v_ph v with PTry b _ | PTry1 b _ => oconc (v_op v) = false \/ next_of s (vrole v) = b | _ => False end.

Definition tfacts (s : st) (v : view) : Prop :=
  linv s v /\
  (forall i, vknown v i -> ver (sslot s i) = xver (C s) (vrole v) i) /\
  (forall i, vtry v i -> trycond s v -> ver (sslot s i) = xver (C s) (vrole v) i).

Lemma vown_known : forall v i, vown v i -> vknown v i.
Proof. intros v i. unfold vown, vknown. cbv zeta. destruct (v_ph v); tauto. Qed.

(* waking a sleeper does not change its view *)
Lemma tv_wake : forall sl th, tv (wake_thread sl th) = tv th /\ prog (wake_thread sl th) = prog th.
Proof.
  intros. unfold wake_thread. destruct (tpc th) eqn:E; auto. destruct (Nat.eqb sl sl0); auto.
  split; auto. unfold tv, cur. cbn. destruct (nth_error (prog th) (opi th)); auto. rewrite E. cbn. reflexivity.
Qed.

(* ---------------- what a step leaves alone ---------------- *)
Definition cs (x : slot) : Z * option Z * option nat := (ver x, pay x, own x).
Definition others (s s' : st) (t : nat) : Prop :=
  length (threads s') = length (threads s) /\
  forall u, u <> t -> option_map tv (nth_error (threads s') u) = option_map tv (nth_error (threads s) u).
Record frame (s s' : st) : Prop := {
  f_k : kbits s' = kbits s;
  f_len : length (slots s') = length (slots s);
  f_prog : map prog (threads s') = map prog (threads s) }.

Lemma others_upd : forall s X t th', threads X = threads s -> others s (upd X t th') t.
Proof.
  intros s X t th' E. split; cbn; rewrite E. apply length_set_nth. intros u N. rewrite nth_error_set_nth_neq; auto.
Qed.
Lemma others_upd_wake : forall s X t th' sl, threads X = map (wake_thread sl) (threads s) -> others s (upd X t th') t.
Proof.
  intros s X t th' sl E. split; cbn; rewrite E. rewrite length_set_nth, map_length. reflexivity.
  intros u N. rewrite nth_error_set_nth_neq; auto. rewrite nth_error_map. destruct (nth_error (threads s) u); cbn; auto.
  f_equal. apply tv_wake.
Qed.
Lemma map_prog_set_nth : forall l t th th', nth_error l t = Some th -> prog th' = prog th -> map prog (set_nth t th' l) = map prog l.
Proof. induction l as [|a l IH]; intros [|t] th th' H E; cbn in *; try discriminate. inversion H; subst. congruence. f_equal. eauto. Qed.
Lemma map_prog_wake : forall sl l, map prog (map (wake_thread sl) l) = map prog l.
Proof. intros. rewrite map_map. apply map_ext. intros. apply tv_wake. Qed.

(* ---------------- ghost lists ---------------- *)
Lemma In_ins : forall x y l, In x (ins y l) <-> x = y \/ In x l.
Proof.
  intros x y l. induction l as [|z l IH]; cbn.
  - intuition.
  - destruct (fst y <=? fst z); cbn; rewrite ?IH; intuition.
Qed.
Lemma NoDup_ins : forall y l, ~ In (fst y) (map fst l) -> NoDup (map fst l) -> NoDup (map fst (ins y l)).
Proof.
  intros y l. induction l as [|z l IH]; cbn; intros N D.
  - constructor; auto.
  - destruct (fst y <=? fst z); cbn.
    + constructor; auto.
    + inversion D; subst. constructor.
      * intros H. apply in_map_iff in H as (x & E & H). apply In_ins in H as [->|H]. apply N. left. auto.
        apply H1. apply in_map_iff. eauto.
      * apply IH; auto.
Qed.

(* callbacks over a segment whose cells are free (push) / full (pop) and unowned *)
Lemma cb_push_spec : forall vs t sls base i ps e,
  (base + length vs <= length sls)%nat ->
  (forall k, (k < length vs)%nat -> own (nth (base + k) sls slot0) = None /\ pay (nth (base + k) sls slot0) = None) ->
  exists sls' ps', cb_push t sls base i vs ps e = (sls', ps', e) /\ length sls' = length sls /\
    (forall sl, (sl < base \/ base + length vs <= sl)%nat -> nth sl sls' slot0 = nth sl sls slot0) /\
    (forall k, (k < length vs)%nat -> cs (nth (base + k) sls' slot0) = (ver (nth (base + k) sls slot0), Some (nth k vs 0), Some t)) /\
    (forall x, In x ps' <-> In x ps \/ exists k, (k < length vs)%nat /\ x = (i + Z.of_nat k, nth k vs 0)).
Proof.
  induction vs as [|v vs IH]; intros t sls base i ps e HL HF.
  - exists sls, ps. cbn. repeat split; auto; try (intros; lia). intros [H|(k & H & _)]; auto; lia.
  - cbn [cb_push]. destruct (HF 0%nat ltac:(cbn; lia)) as [O0 P0]. rewrite Nat.add_0_r in O0, P0. rewrite O0, P0.
    assert (LT : Nat.ltb base (length sls) = true) by (apply Nat.ltb_lt; cbn in HL; lia). rewrite LT. cbn [is_some orb negb].
    rewrite orb_false_r.
    set (sls1 := set_nth base _ sls).
    destruct (IH t sls1 (S base) (i + 1) (ins (i, v) ps) e) as (sls' & ps' & E & L & OUT & INN & PS).
    + unfold sls1. rewrite length_set_nth. cbn in HL. lia.
    + intros k Hk. unfold sls1. rewrite nth_set_nth_neq by lia. replace (S base + k)%nat with (base + S k)%nat by lia.
      apply HF. cbn. lia.
    + exists sls', ps'. rewrite E. split; auto. split. rewrite L. unfold sls1. apply length_set_nth.
      split; [|split].
      * intros sl Hs. rewrite OUT by (cbn in Hs; lia). unfold sls1. apply nth_set_nth_neq. cbn in Hs. lia.
      * intros k Hk. destruct k as [|k].
        -- rewrite Nat.add_0_r. rewrite OUT by lia. unfold sls1. rewrite nth_set_nth_eq by (apply Nat.ltb_lt; auto). reflexivity.
        -- replace (base + S k)%nat with (S base + k)%nat by lia. rewrite INN by (cbn in Hk; lia). unfold sls1.
           rewrite nth_set_nth_neq by lia. reflexivity.
      * intros x. rewrite PS. rewrite In_ins. split.
        -- intros [[->|H]|(k & Hk & ->)]; auto.
           ++ right. exists 0%nat. split. cbn; lia. cbn. f_equal. lia.
           ++ right. exists (S k). split. cbn; lia. cbn [nth]. f_equal. lia.
        -- intros [H|(k & Hk & ->)]; auto. destruct k as [|k].
           ++ left. left. cbn. f_equal. lia.
           ++ right. exists k. split. cbn in Hk; lia. cbn [nth]. f_equal. lia.
Qed.

Lemma cb_pop_spec : forall n t sls base i ds g e,
  (base + n <= length sls)%nat ->
  (forall k, (k < n)%nat -> own (nth (base + k) sls slot0) = None /\ exists v, pay (nth (base + k) sls slot0) = Some v) ->
  exists sls' ds' g', cb_pop t sls base i n ds g e = (sls', ds', g', e) /\ length sls' = length sls /\
    (forall sl, (sl < base \/ base + n <= sl)%nat -> nth sl sls' slot0 = nth sl sls slot0) /\
    (forall k, (k < n)%nat -> cs (nth (base + k) sls' slot0) = (ver (nth (base + k) sls slot0), None, Some t)) /\
    (forall x, In x ds' <-> In x ds \/ exists k v, (k < n)%nat /\ pay (nth (base + k) sls slot0) = Some v /\ x = (i + Z.of_nat k, v)).
Proof.
  induction n as [|n IH]; intros t sls base i ds g e HL HF.
  - exists sls, ds, g. cbn. repeat split; auto; try (intros; lia). intros [H|(k & v & H & _)]; auto; lia.
  - cbn [cb_pop]. destruct (HF 0%nat ltac:(lia)) as [O0 [v0 P0]]. rewrite Nat.add_0_r in O0, P0. rewrite O0, P0.
    assert (LT : Nat.ltb base (length sls) = true) by (apply Nat.ltb_lt; lia). rewrite LT. cbn [is_some orb negb].
    rewrite orb_false_r.
    set (sls1 := set_nth base _ sls).
    destruct (IH t sls1 (S base) (i + 1) (ins (i, v0) ds) (g ++ [v0]) e) as (sls' & ds' & g' & E & L & OUT & INN & PS).
    + unfold sls1. rewrite length_set_nth. lia.
    + intros k Hk. unfold sls1. rewrite nth_set_nth_neq by lia. replace (S base + k)%nat with (base + S k)%nat by lia.
      apply HF. lia.
    + exists sls', ds', g'. rewrite E. split; auto. split. rewrite L. unfold sls1. apply length_set_nth.
      split; [|split].
      * intros sl Hs. rewrite OUT by lia. unfold sls1. apply nth_set_nth_neq. lia.
      * intros k Hk. destruct k as [|k].
        -- rewrite Nat.add_0_r. rewrite OUT by lia. unfold sls1. rewrite nth_set_nth_eq by (apply Nat.ltb_lt; auto). reflexivity.
        -- replace (base + S k)%nat with (S base + k)%nat by lia. rewrite INN by lia. unfold sls1.
           rewrite nth_set_nth_neq by lia. reflexivity.
      * intros x. rewrite PS. rewrite In_ins. split.
        -- intros [[->|H]|(k & v & Hk & Hp & ->)]; auto.
           ++ right. exists 0%nat, v0. split. lia. rewrite Nat.add_0_r. split; auto. f_equal. lia.
           ++ right. exists (S k), v. split. lia. unfold sls1 in Hp. rewrite nth_set_nth_neq in Hp by lia.
              replace (base + S k)%nat with (S base + k)%nat by lia. split; auto. f_equal. lia.
        -- intros [H|(k & v & Hk & Hp & ->)]; auto. destruct k as [|k].
           ++ left. left. rewrite Nat.add_0_r in Hp. rewrite P0 in Hp. inversion Hp. f_equal. lia.
           ++ right. exists k, v. split. lia. unfold sls1. rewrite nth_set_nth_neq by lia.
              replace (S base + k)%nat with (base + S k)%nat by lia. split; auto. f_equal. lia.
Qed.

Lemma In_fst_ins : forall x y l, In x (map fst (ins y l)) <-> x = fst y \/ In x (map fst l).
Proof.
  intros x y l. rewrite !in_map_iff. split.
  - intros (z & E & H). apply In_ins in H as [->|H]; auto. right. exists z. auto.
  - intros [->|(z & E & H)]. exists y. split; auto. apply In_ins. auto. exists z. split; auto. apply In_ins. auto.
Qed.
Lemma cb_push_nodup : forall vs t sls base i ps e, NoDup (map fst ps) ->
  (forall k, (k < length vs)%nat -> ~ In (i + Z.of_nat k) (map fst ps)) ->
  NoDup (map fst (snd (fst (cb_push t sls base i vs ps e)))).
Proof.
  induction vs as [|v vs IH]; intros t sls base i ps e ND NI; cbn [cb_push]; auto.
  apply IH.
  - apply NoDup_ins; auto. cbn. specialize (NI 0%nat ltac:(cbn; lia)). replace (i + Z.of_nat 0) with i in NI by lia. auto.
  - intros k Hk H. apply In_fst_ins in H as [H|H]. cbn in H. lia.
    apply (NI (S k)). cbn; lia. replace (i + Z.of_nat (S k)) with (i + 1 + Z.of_nat k) by lia. auto.
Qed.
Lemma cb_pop_nodup : forall n t sls base i ds g e, NoDup (map fst ds) ->
  (forall k, (k < n)%nat -> ~ In (i + Z.of_nat k) (map fst ds)) ->
  NoDup (map fst (snd (fst (fst (cb_pop t sls base i n ds g e))))).
Proof.
  induction n as [|n IH]; intros t sls base i ds g e ND NI; cbn [cb_pop]; auto.
  apply IH.
  - apply NoDup_ins; auto. cbn. specialize (NI 0%nat ltac:(lia)). replace (i + Z.of_nat 0) with i in NI by lia. auto.
  - intros k Hk H. apply In_fst_ins in H as [H|H]. cbn in H. lia.
    apply (NI (S k)). lia. replace (i + Z.of_nat (S k)) with (i + 1 + Z.of_nat k) by lia. auto.
Qed.
