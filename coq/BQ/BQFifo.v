(* Real-time order of tickets for BQModel (C01 FIFO). *)
From Coq Require Import ZArith List Bool Lia.
Require Import Verif.Base.Atomics Verif.Gen.Gen_bounded_queue Verif.Conc.Machine Verif.BQ.BQModel Verif.BQ.BQProofs.
Require Import Verif.BQ.BQInvDefs Verif.BQ.BQInvStep Verif.BQ.BQInvMain Verif.BQ.BQInvThm.
Import ListNotations.
Local Open Scope Z_scope.

(* thread u holds ticket i of side r: acquired, not yet published *)
Definition held (s : st) (r : bool) (u : nat) (i : Z) : Prop := exists vu, thv s u vu /\ vrole vu = r /\ inhold vu i.

Lemma cb_push_in : forall vs t sls base i ps e x, In x (snd (fst (cb_push t sls base i vs ps e))) ->
  In x ps \/ exists k, (k < length vs)%nat /\ fst x = i + Z.of_nat k.
Proof.
  induction vs as [|v vs IH]; intros t sls base i ps e x H; cbn [cb_push] in H; auto.
  apply IH in H as [H|(k & Hk & E)].
  - apply In_ins in H as [->|H]; auto. right. exists 0%nat. cbn. split; lia.
  - right. exists (S k). cbn. split; lia.
Qed.
Lemma cb_pop_in : forall n t sls base i ds g e x, In x (snd (fst (fst (cb_pop t sls base i n ds g e)))) ->
  In x ds \/ exists k, (k < n)%nat /\ fst x = i + Z.of_nat k.
Proof.
  induction n as [|n IH]; intros t sls base i ds g e x H; cbn [cb_pop] in H; auto.
  apply IH in H as [H|(k & Hk & E)].
  - apply In_ins in H as [->|H]; auto. right. exists 0%nat. cbn. split; lia.
  - right. exists (S k). split; lia.
Qed.

Lemma fifo_step : forall k progs s t s', usage_ok k progs = true -> FInv k progs s -> step s t = Some s' ->
  (forall r, next_of s r <= next_of s' r) /\
  (forall r u i, held s' r u i -> held s r u i \/ next_of s r <= i) /\
  (forall i v, In (i, v) (pushed s') -> In (i, v) (pushed s) \/ exists u, held s true u i) /\
  (forall i v, In (i, v) (delivered s') -> In (i, v) (delivered s) \/ exists u, held s false u i).
Proof.
  intros k progs s t s' U (I & PR & KB) H.
  apply step_inv in H as [(th & o & HT & HO & HS)|[HN ->]].
  2: { split; [intros []; cbn; lia|]. split; [intros r u i HH; left; exact HH|]. split; intros; auto. }
  assert (HO' : cur th = Some o) by exact HO.
  set (v := {| v_op := o; v_ph := phase_of o (tpc th) (lc th); v_l := lc th |}).
  assert (TT : thv s t v) by (exists th; split; auto; unfold tv; rewrite HO'; reflexivity).
  assert (Pth : nth_error progs t = Some (prog th)) by (rewrite <- PR, nth_error_map, HT; reflexivity).
  assert (HSZ : Z.of_nat (onum o) <= C s).
  { unfold C. rewrite KB, <- pow_nat_Z. apply inj_le. eapply usage_size; eauto. eapply nth_error_In; eauto. eapply nth_error_In; eauto. }
  pose proof (i_tf _ I _ _ TT) as TFv.
  pose proof (step_sum s t th o HT HO' (i_len _ I) HSZ (i_nn _ I) TFv s' HS) as SM.
  (* generic: what other threads hold is unchanged *)
  assert (OTH : forall OT : others s s' t, forall r u i, u <> t -> held s' r u i -> held s r u i).
  { intros OT r u i NE (vu & (thu & H1 & H2) & RO & IH). destruct OT as (_ & O). specialize (O u NE). rewrite H1 in O. cbn in O.
    destruct (nth_error (threads s) u) as [x|] eqn:EX; [|discriminate]. cbn in O. injection O as EQ. exists vu. split; [exists x; split; [exact EX | rewrite <- EQ; exact H2] | split; auto]. }
  destruct SM as [th' HT' OT FR SC LO | th' n v' HT' OT FR NR NO PS DS ER SL NH NOW E' RO' TF' IH' NOW'
                 | th' v' HT' OT FR N1 N2 PH E' OP PH' SI SN SE L' CB | th' j HT' OT FR N1 N2 PS DS ER PH CS0 CSO PO].
  - destruct SC as (N1 & N2 & PS & DS & _). split; [intros []; cbn; lia|]. split; [|rewrite PS, DS; split; intros; auto].
    intros r u i HH. left. destruct (Nat.eq_dec u t) as [->|NE]; [|eapply OTH; eauto].
    destruct HH as (vu & (thu & H1 & H2) & RO & IH). rewrite HT' in H1. inversion H1; subst thu. unfold loc_ok in LO. rewrite H2 in LO.
    destruct LO as (_ & B & _). destruct (B i IH) as [B1 B2]. exists v. split; auto. split; auto. unfold v in *; congruence.
  - split. { intros r. destruct (Bool.eqb r (is_push o)) eqn:B. apply eqb_prop in B. subst. lia.
             assert (r = negb (is_push o)) by (destruct r, (is_push o); auto; discriminate). subst. lia. }
    split; [|rewrite PS, DS; split; intros; auto].
    intros r u i HH. destruct (Nat.eq_dec u t) as [->|NE]; [|left; eapply OTH; eauto].
    destruct HH as (vu & (thu & H1 & H2) & RO & IH). rewrite HT' in H1. inversion H1; subst thu. rewrite E' in H2. inversion H2; subst vu.
    right. rewrite <- RO, RO'. apply IH'; auto.
  - split; [intros []; cbn; lia|]. split.
    + intros r u i HH. left. destruct (Nat.eq_dec u t) as [->|NE]; [|eapply OTH; eauto].
      destruct HH as (vu & (thu & H1 & H2) & RO & IH). rewrite HT' in H1. inversion H1; subst thu. rewrite E' in H2. inversion H2; subst vu.
      exists v. split; auto. split. unfold vrole in *. rewrite OP in RO. exact RO.
      unfold inhold in *. change (v_ph v) with (phase_of o (tpc th) (lc th)). cbn [v_ph v] in PH. rewrite PH. cbn [v_op v_l v]. rewrite OP in IH.
      destruct PH' as [E1|E1]; rewrite E1, SI, SE in IH; lia.
    + assert (KN : forall kk, (kk < seg_n (lc th))%nat -> inhold v (seg_i (lc th) + Z.of_nat kk)).
      { intros kk Hk. apply (vknown_inhold s); auto. unfold vknown. change (v_ph v) with (phase_of o (tpc th) (lc th)). cbn [v_ph v] in PH. rewrite PH. cbn [v_l v]. lia. }
      destruct (is_push o) eqn:PU.
      * destruct CB as (CB & DS & LN). rewrite DS. split; [|intros; auto]. intros i val IN.
        pose proof (cb_push_in (firstn (seg_n (lc th)) (vals (lc th))) t (slots s) (tsl (C s) (seg_i (lc th))) (seg_i (lc th)) (pushed s) (err s) (i, val)) as P.
        rewrite CB in P. cbn [fst snd] in P. destruct (P IN) as [A|(kk & Hk & EQ)]; auto. right. exists t, v. split; auto. split; auto.
        rewrite EQ. apply KN. lia.
      * destruct CB as (g & CB & PS). rewrite PS. split; [intros; auto|]. intros i val IN.
        pose proof (cb_pop_in (seg_n (lc th)) t (slots s) (tsl (C s) (seg_i (lc th))) (seg_i (lc th)) (delivered s) (got (lc th)) (err s) (i, val)) as P.
        rewrite CB in P. cbn [fst snd] in P. destruct (P IN) as [A|(kk & Hk & EQ)]; auto. right. exists t, v. split; auto. split; auto.
        rewrite EQ. apply KN. lia.
  - split; [intros []; cbn; lia|]. split; [|rewrite PS, DS; split; intros; auto].
    intros r u i HH. left. destruct (Nat.eq_dec u t) as [->|NE]; [|eapply OTH; eauto].
    destruct HH as (vu & (thu & H1 & H2) & RO & IH). rewrite HT' in H1. inversion H1; subst thu. unfold pub_ok in PO. rewrite H2 in PO.
    destruct PO as (_ & _ & _ & B & _). destruct (B i IH) as (B1 & _ & B3). exists v. split; auto. split; auto. unfold v in *; congruence.
Qed.

Lemma written_below_next : forall s, Inv s ->
  (forall i v, In (i, v) (pushed s) -> 0 <= i < npush s) /\ (forall i v, In (i, v) (delivered s) -> 0 <= i < npop s).
Proof.
  intros s I. pose proof (C_pos s) as CP. split; intros i v IN.
  - destruct (i_pushed _ I i v IN) as [Hi [LT|(u & vu & H & RO & OWN)]]; split; auto.
    + destruct (Z_lt_le_dec i (npush s)) as [A|A]; auto. pose proof (i_le _ I true i Hi (or_introl A)). lia.
    + pose proof (inhold_bounds s vu i (i_tf _ I _ _ H) (vown_inhold s vu i (i_tf _ I _ _ H) OWN)). rewrite RO in H0. cbn in H0. lia.
  - destruct (i_deliv _ I i v IN) as [INP [LT|(u & vu & H & RO & OWN)]]. destruct (i_pushed _ I i v INP) as [Hi _]. split; auto.
    + destruct (Z_lt_le_dec i (npop s)) as [A|A]; auto. pose proof (i_le _ I false i Hi (or_introl A)). lia.
    + pose proof (inhold_bounds s vu i (i_tf _ I _ _ H) (vown_inhold s vu i (i_tf _ I _ _ H) OWN)). rewrite RO in H0. cbn in H0. lia.
Qed.

(* real-time order: whatever is acquired / written / delivered after a moment s has a ticket at least next(s), unless it was
   already held at s; whatever was held / written / delivered up to s has a ticket below next(s) *)
Theorem bq_fifo_realtime : forall k progs s, usage_ok k progs = true -> Reach k progs s -> forall sch,
  let s' := run st step s sch in
  (forall r, next_of s r <= next_of s' r) /\
  (forall r u i, held s' r u i -> held s r u i \/ next_of s r <= i) /\
  (forall i v, In (i, v) (pushed s') -> In (i, v) (pushed s) \/ (exists u, held s true u i) \/ npush s <= i) /\
  (forall i v, In (i, v) (delivered s') -> In (i, v) (delivered s) \/ (exists u, held s false u i) \/ npop s <= i) /\
  (forall r u i, held s r u i -> 0 <= i < next_of s r) /\
  (forall i v, In (i, v) (pushed s) -> 0 <= i < npush s) /\ (forall i v, In (i, v) (delivered s) -> 0 <= i < npop s).
Proof.
  intros k progs s U R sch. cbn zeta.
  assert (BASE : (forall r u i, held s r u i -> 0 <= i < next_of s r) /\
                 (forall i v, In (i, v) (pushed s) -> 0 <= i < npush s) /\ (forall i v, In (i, v) (delivered s) -> 0 <= i < npop s)).
  { destruct (FInv_reach _ _ _ U R) as (I & _). split. intros r u i (vu & H & RO & IH). rewrite <- RO. apply (inhold_bounds s); auto. apply (i_tf _ I u); auto.
    apply written_below_next; auto. }
  cut ((forall r, next_of s r <= next_of (run st step s sch) r) /\
       (forall r u i, held (run st step s sch) r u i -> held s r u i \/ next_of s r <= i) /\
       (forall i v, In (i, v) (pushed (run st step s sch)) -> In (i, v) (pushed s) \/ (exists u, held s true u i) \/ npush s <= i) /\
       (forall i v, In (i, v) (delivered (run st step s sch)) -> In (i, v) (delivered s) \/ (exists u, held s false u i) \/ npop s <= i)).
  { intros (A & B & D & E). destruct BASE as (B1 & B2 & B3). split; [exact A|split; [exact B|split; [exact D|split; [exact E|split; [exact B1|split; [exact B2|exact B3]]]]]]. }
  clear BASE. revert s R. induction sch as [|t sch IH]; intros s R.
  - cbn. split; [intros; lia|]. split; [intros; auto|]. split; intros; auto.
  - cbn [run]. unfold step_or_stay. destruct (step s t) as [s1|] eqn:ST; [|apply IH; auto].
    pose proof (FInv_reach _ _ _ U R) as FI. destruct (fifo_step k progs s t s1 U FI ST) as (N & HD & PU & DE).
    destruct (IH s1 (reachable_step _ _ _ _ _ _ R ST)) as (N' & HD' & PU' & DE').
    split; [intros r; specialize (N r); specialize (N' r); lia|]. split; [|split].
    + intros r u i HH. destruct (HD' r u i HH) as [A|A]. apply HD; auto. right. specialize (N r). lia.
    + intros i v IN. destruct (PU' i v IN) as [A|[(u & A)|A]].
      * destruct (PU i v A) as [B|B]; auto.
      * destruct (HD true u i A) as [B|B]; eauto.
      * right; right. specialize (N true). cbn in N. lia.
    + intros i v IN. destruct (DE' i v IN) as [A|[(u & A)|A]].
      * destruct (DE i v A) as [B|B]; auto.
      * destruct (HD false u i A) as [B|B]; eauto.
      * right; right. specialize (N false). cbn in N. lia.
Qed.
