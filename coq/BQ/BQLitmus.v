(* Proofs about BQLitmusDefs (see there). *)
From Coq Require Import ZArith List Bool.
Require Import Verif.Base.Atomics Verif.Gen.Gen_bounded_queue_orders.
Require Import Verif.WM.RA Verif.WM.RAProofs Verif.WM.RALitmus Verif.WM.RALitmusProofs.
Require Export Verif.BQ.BQLitmusDefs.
Import ListNotations.

Theorem mp_general_all_executions : forall pf xchg o_st o_ld cf, mp_general_safe pf xchg o_st o_ld cf = true ->
  forall sch, final (run (init (mp_general pf xchg o_st o_ld cf)) sch) = true ->
  mp_bad (result (run (init (mp_general pf xchg o_st o_ld cf)) sch)) = false.
Proof. intros pf x a b cf H. apply lift_safe. exact H. Qed.

Lemma bq_all_pairs_safe : all_pairs_safe = true.
Proof. vm_compute. reflexivity. Qed.

(* every access of the wait / publish helpers uses the order its caller hands down *)
Lemma bq_param_orders_used :
  fast_load_order = 100%Z /\ spin_load_order = 100%Z /\ block_reload_order = 100%Z /\ block_cas_order = 100%Z /\
  set_version_order = 100%Z /\ version_getter_order = 100%Z.
Proof. repeat split; reflexivity. Qed.

(* weakened variants: the executions exist *)
Lemma bq_single_relaxed_store_refuted : mp_general_safe None false Relaxed Acquire None = false.
Proof. vm_compute. reflexivity. Qed.
Lemma bq_single_relaxed_load_refuted : mp_general_safe None false Release Relaxed None = false.
Proof. vm_compute. reflexivity. Qed.
Lemma bq_batch_no_acquire_fence_refuted : mp_general_safe (Some Release) false Relaxed Relaxed None = false.
Proof. vm_compute. reflexivity. Qed.
Lemma bq_batch_no_release_fence_refuted : mp_general_safe None false Relaxed Relaxed (Some Acquire) = false.
Proof. vm_compute. reflexivity. Qed.

Theorem bq_publication : forall pf x o_st o_ld cf, In (pf, x, o_st) publishers -> In (o_ld, cf) observers ->
  forall sch, final (run (init (mp_general pf x o_st o_ld cf)) sch) = true ->
  mp_bad (result (run (init (mp_general pf x o_st o_ld cf)) sch)) = false.
Proof.
  intros pf x o_st o_ld cf Hp Hc. apply mp_general_all_executions.
  pose proof bq_all_pairs_safe as H. unfold all_pairs_safe in H. rewrite forallb_forall in H.
  specialize (H _ Hp). cbn [fst snd] in H. rewrite forallb_forall in H. specialize (H _ Hc). exact H.
Qed.

