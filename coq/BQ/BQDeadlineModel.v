(* The deadline arithmetic of SlotFutex's two timed slow paths (bounded_queue.hpp):

     block_until_reach_expected_version_slow : futex wait in a loop; after a wake-up that did not bring the awaited
       version the remaining time is recomputed (wait_duration = *timeout - (now - begin)), the loop leaves when it is
       <= 0, otherwise the shortened timeout replaces `timeout`;
     spin_until_reach_expected_version_slow  : usleep(quantum) in a loop, leaves once now > begin + timeout.

   The environment (kernel, scheduler, other threads) is a list of events: when each wait returned and why.  Which
   timeout the refresh starts from, whether it is stored back, whether begin is re-sampled, whether ETIMEDOUT leaves the
   loop, the subtraction, the expiry test, the spin deadline, its test and the sleep quantum are all regenerated from
   the source (Gen_bounded_queue: block_refresh_from_current, block_refresh_stored, block_begin_samples,
   block_timedout_leaves, block_elapsed, block_expired, spin_deadline, spin_expired, spin_quantum_us). *)
From Coq Require Import ZArith List Bool.
Require Import Verif.Gen.Gen_bounded_queue.
Import ListNotations.
Local Open Scope Z_scope.

(* how one futex wait ended, and at what time *)
Inductive wake :=
| TimedOut (e : Z)                 (* errno = ETIMEDOUT *)
| Woken (e : Z) (ready : bool).    (* woken (genuinely, spuriously, EINTR, EAGAIN); ready = the reloaded version is the awaited one *)

Definition wake_time (w : wake) : Z := match w with TimedOut e => e | Woken e _ => e end.

Definition refresh_base (orig cur : Z) : Z := if block_refresh_from_current =? 1 then cur else orig.
Definition next_timeout (cur rem : Z) : Z := if block_refresh_stored =? 1 then rem else cur.
Definition next_begin (begin e : Z) : Z := if block_begin_samples =? 1 then begin else e.

(* one trip through the loop body for one way the futex wait can end: inl x = the call leaves the loop at time x,
   inr (begin', timeout') = it waits again *)
Definition block_step (orig begin cur : Z) (w : wake) : Z + (Z * Z) :=
  let again e :=
    let rem := refresh_base orig cur - block_elapsed begin e in
    if block_expired rem then inl e else inr (next_begin begin e, next_timeout cur rem) in
  match w with
  | TimedOut e => if block_timedout_leaves =? 1 then inl e else again e
  | Woken e true => inl e
  | Woken e false => again e
  end.

(* block_until_reach_expected_version_slow with timeout != nullptr: the time at which the call leaves the loop,
   None while it is still waiting when the events run out *)
Fixpoint block_loop (orig begin cur : Z) (evs : list wake) : option Z :=
  match evs with
  | [] => None
  | w :: rest => match block_step orig begin cur w with
                 | inl x => Some x
                 | inr (b, c) => block_loop orig b c rest
                 end
  end.

(* what the environment may do: a wait entered at `start` with relative timeout `cur` returns no earlier than it
   was entered and no later than `delay` after its timeout fired (delay = scheduling delay + the instructions between
   two waits); a wait reported as timed out lasted at least its timeout.  Events behind the one that ends the call
   are not constrained. *)
Definition event_ok (delay start cur : Z) (w : wake) : Prop :=
  start <= wake_time w <= start + Z.max cur 0 + delay /\
  match w with TimedOut e => start + cur <= e | _ => True end.

Fixpoint block_env (delay orig begin cur start : Z) (evs : list wake) : Prop :=
  match evs with
  | [] => True
  | w :: rest =>
      event_ok delay start cur w /\
      match block_step orig begin cur w with
      | inl _ => True
      | inr (b, c) => block_env delay orig b c (wake_time w) rest
      end
  end.

(* spin_until_reach_expected_version_slow with timeout != nullptr: events = (time after the usleep, version ready) *)
Fixpoint spin_loop (endt : Z) (evs : list (Z * bool)) : option Z :=
  match evs with
  | [] => None
  | (t, true) :: _ => Some t
  | (t, false) :: rest => if spin_expired t endt then Some t else spin_loop endt rest
  end.

Fixpoint spin_env (delay start : Z) (evs : list (Z * bool)) : Prop :=
  match evs with
  | [] => True
  | (t, _) :: rest => start <= t <= start + spin_quantum_us * 1000 + delay /\ spin_env delay t rest
  end.
