(* Deadlock freedom of balanced blocking programs for BQModel (C02). *)
From Coq Require Import ZArith List Bool Lia.
Require Import Verif.Base.Atomics Verif.Gen.Gen_bounded_queue Verif.Conc.Machine Verif.BQ.BQModel Verif.BQ.BQProofs.
Require Import Verif.BQ.BQInvDefs Verif.BQ.BQInvStep Verif.BQ.BQInvMain Verif.BQ.BQInvThm Verif.BQ.BQWake Verif.BQ.BQFifo Verif.BQ.BQTry.
Import ListNotations.
Local Open Scope Z_scope.

(* the interval of tickets a view holds *)
Definition hiv (v : view) : Z * Z :=
  let o := v_op v in let l := v_l v in
  match v_ph v with
  | PWaiting _ | PReady | PCb => (seg_i l, seg_end o l)
  | POwn j => (seg_i l + Z.of_nat j, seg_end o l)
  | PDone => (seg_i l + Z.of_nat (seg_n l), seg_end o l)
  | _ => (0, 0)
  end.
Lemma inhold_hiv : forall v i, inhold v i <-> fst (hiv v) <= i < snd (hiv v).
Proof. intros v i. unfold inhold, hiv. destruct (v_ph v); cbn; try tauto; lia. Qed.
Definition holding (v : view) : bool :=
  match v_ph v with PWaiting _ | PReady | PCb | POwn _ | PDone => true | _ => false end.

Definition vof (o : op) (p : pc) (l : loc) : view := {| v_op := o; v_ph := phase_of o p l; v_l := l |}.

(* what one step of a blocking call (push / pop / push_n / pop_n) does to tickets, versions and the caller's holdings *)
Inductive blk (s : st) (t : nat) (th : thread) (o : op) (s' : st) : Prop :=
| BLoc X p l : s' = upd X t (goto_lc th p l) -> thr_ok2 s X -> p <> Idle ->
    (forall r, next_of X r = next_of s r) -> kbits X = kbits s -> (forall sl, gver X sl = gver s sl) ->
    holding (vof o p l) = holding (vof o (tpc th) (lc th)) ->
    (hiv (vof o p l) = hiv (vof o (tpc th) (lc th)) \/
     (snd (hiv (vof o p l)) <= fst (hiv (vof o p l)) /\ snd (hiv (vof o (tpc th) (lc th))) <= fst (hiv (vof o (tpc th) (lc th))))) ->
    blk s t th o s'
| BAcq X p l : s' = upd X t (goto_lc th p l) -> thr_ok2 s X -> p <> Idle ->
    next_of X (is_push o) = next_of s (is_push o) + Z.of_nat (onum o) ->
    next_of X (negb (is_push o)) = next_of s (negb (is_push o)) -> kbits X = kbits s -> (forall sl, gver X sl = gver s sl) ->
    holding (vof o (tpc th) (lc th)) = false -> holding (vof o p l) = true ->
    hiv (vof o p l) = (next_of s (is_push o), next_of s (is_push o) + Z.of_nat (onum o)) -> blk s t th o s'
| BPub X th' i0 hi : s' = upd X t th' -> thr_ok2 s X ->
    (forall r, next_of X r = next_of s r) -> kbits X = kbits s ->
    hiv (vof o (tpc th) (lc th)) = (i0, hi) -> i0 < hi -> holding (vof o (tpc th) (lc th)) = true ->
    gver X (tsl (C s) i0) = xver (C s) (is_push o) i0 + 1 -> gver s (tsl (C s) i0) = xver (C s) (is_push o) i0 ->
    (forall sl, sl <> tsl (C s) i0 -> gver X sl = gver s sl) ->
    ((exists p l, th' = goto_lc th p l /\ p <> Idle /\ holding (vof o p l) = true /\ hiv (vof o p l) = (i0 + 1, hi)) \/
     (exists r, th' = finish_op th r /\ hi = i0 + 1)) -> blk s t th o s'
| BFin X r : s' = upd X t (finish_op th r) -> thr_ok2 s X ->
    (forall r0, next_of X r0 = next_of s r0) -> kbits X = kbits s -> (forall sl, gver X sl = gver s sl) ->
    holding (vof o (tpc th) (lc th)) = true ->
    snd (hiv (vof o (tpc th) (lc th))) <= fst (hiv (vof o (tpc th) (lc th))) -> blk s t th o s'.

Lemma blk_kind : forall o, (okind o = KSingle \/ okind o = KBatch) -> is_timed o = false /\ (okind o = KSingle -> is_single o = true) /\
  (okind o = KBatch -> is_single o = false).
Proof. intros o [K|K]; destruct o; cbn in *; try discriminate; repeat split; intros; try discriminate; auto. Qed.

Lemma es_blk : forall s X t th o, (okind o = KSingle \/ okind o = KBatch) -> hcommon s o (lc th) ->
  (exists i2 n2, rest (lc th) = Some (i2, n2) /\ okind o = KBatch /\
     end_segment X t th o = upd X t (goto_lc th (first_wait o (set_seg (add_cnt (lc th)) i2 n2 None)) (add_tk (set_seg (add_cnt (lc th)) i2 n2 None))) /\
     first_wait o (set_seg (add_cnt (lc th)) i2 n2 None) <> Idle /\
     holding (vof o (first_wait o (set_seg (add_cnt (lc th)) i2 n2 None)) (add_tk (set_seg (add_cnt (lc th)) i2 n2 None))) = true /\
     hiv (vof o (first_wait o (set_seg (add_cnt (lc th)) i2 n2 None)) (add_tk (set_seg (add_cnt (lc th)) i2 n2 None))) = (i2, i2 + Z.of_nat n2) /\
     i2 = seg_i (lc th) + Z.of_nat (seg_n (lc th)) /\ seg_end o (lc th) = i2 + Z.of_nat n2)
  \/ (exists r, end_segment X t th o = upd X t (finish_op th r) /\ seg_end o (lc th) = seg_i (lc th) + Z.of_nat (seg_n (lc th))).
Proof.
  intros s X t th o KO ((S1 & S2 & S3 & S4) & SE & EX & SG). destruct (blk_kind o KO) as (TM & KS & KB).
  unfold end_segment. change (rest (add_cnt (lc th))) with (rest (lc th)). unfold seg_end in *.
  destruct (rest (lc th)) as [[i2 n2]|] eqn:ER.
  - destruct S4 as (R1 & R2 & R3 & R4 & R5). destruct KO as [K|K].
    + destruct (SG (KS K)) as [_ C]. discriminate.
    + left. exists i2, n2. rewrite K. split; auto. split; auto. split; auto.
      assert (FW : first_wait o (set_seg (add_cnt (lc th)) i2 n2 None) = (if Nat.ltb 0 n2 then WLoad 0 else FenceA)).
      { unfold first_wait. cbn [seg_n set_seg]. rewrite (KB K). reflexivity. }
      rewrite FW. split. destruct (Nat.ltb 0 n2); discriminate.
      unfold holding, hiv, vof, seg_end. cbn [v_ph v_l v_op].
      split. destruct (Nat.ltb 0 n2); cbn [phase_of]; rewrite ?TM; reflexivity.
      split. destruct (Nat.ltb 0 n2); cbn [phase_of]; rewrite ?TM; cbn; rewrite K; reflexivity.
      rewrite (R3 K) in *. split; lia.
  - right. eexists. split. destruct (okind o); reflexivity. destruct (okind o); reflexivity.
Qed.

Ltac hv E TM := unfold holding, hiv, vof; cbn [v_ph v_l v_op]; rewrite ?E; cbn [phase_of]; rewrite ?TM; cbn [phase_of].

Lemma aw_blk : forall o l j, is_timed o = false -> phase_of o (after_wait o l j) l = PReady \/ exists j', phase_of o (after_wait o l j) l = PWaiting j'.
Proof.
  intros o l j TM. unfold after_wait. rewrite TM. destruct (Nat.ltb _ _). right. exists (S j). cbn. rewrite TM. reflexivity.
  left. destruct (is_single o); reflexivity.
Qed.

Lemma step_blk : forall k progs s t th o s', usage_ok k progs = true -> FInv k progs s -> nth_error (threads s) t = Some th -> cur th = Some o ->
  (okind o = KSingle \/ okind o = KBatch) -> step_thread s t th o = Some s' -> blk s t th o s'.
Proof.
  intros k progs s t th o s' U FI HT HO KO H. pose proof FI as FI0. destruct FI as (IV & PR & KB).
  destruct (blk_kind o KO) as (TM & KS & KBt).
  pose proof (thv_t s t th o HT HO) as TT. destruct (i_tf _ IV _ _ TT) as (LV & KN & _). unfold linv in LV. cbn [v_ph v_op v_l] in LV.
  assert (HSZ : Z.of_nat (onum o) <= C s).
  { unfold C. rewrite KB, <- pow_nat_Z. apply inj_le. eapply usage_size; eauto. rewrite <- PR. apply in_map. eapply nth_error_In; eauto. eapply nth_error_In; eauto. }
  unfold step_thread in H. cbv zeta in H.
  remember (tpc th) as p0 eqn:E in H. symmetry in E.
  assert (TS : thr_ok2 s s) by (left; reflexivity).
  (* acquisition through got_ticket *)
  assert (GT : forall i, i = next_of s (is_push o) -> holding (vof o (tpc th) (lc th)) = false ->
               blk s t th o (got_ticket (with_next s (is_push o) (i + Z.of_nat (onum o))) t th o i)).
  { intros i Ei NH. unfold got_ticket. change (mask (with_next s (is_push o) (i + Z.of_nat (onum o)))) with (mask s).
    destruct (split o (mask s) i (Z.of_nat (onum o))) as [[i1 n1] r] eqn:SP.
    destruct (split_facts s th o HO (i_len _ IV) HSZ (i_tf _ IV _ _ TT) i i1 n1 r ltac:(rewrite Ei; apply (i_nn _ IV)) SP) as (A & B & D). subst i1.
    assert (RS : okind o = KSingle -> r = None).
    { intros K. unfold split in SP. rewrite K in SP. destruct (is_push o); inversion SP; auto. }
    set (l' := add_tk (set_seg (set_io (lc th) (ovals o) []) i n1 r)).
    assert (SE : seg_end o l' = i + Z.of_nat (onum o)).
    { unfold seg_end. cbn [seg_i seg_n rest l' add_tk set_seg]. destruct r as [[i2 n2]|] eqn:ER.
      - destruct D as (D1 & D2 & D3 & D4). destruct KO as [K|K]. pose proof (RS K). congruence. rewrite K. lia.
      - destruct (okind o); lia. }
    eapply BAcq with (X := with_next s (is_push o) (i + Z.of_nat (onum o))) (p := first_wait o l') (l := l').
    - reflexivity.
    - left; reflexivity.
    - unfold first_wait. cbn [seg_n l' add_tk set_seg]. destruct (Nat.ltb 0 n1); [discriminate|destruct (is_single o); discriminate].
    - rewrite Ei. unfold next_of. cbn. destruct (is_push o); lia.
    - unfold next_of. cbn. destruct (is_push o); reflexivity.
    - reflexivity.
    - intros; reflexivity.
    - exact NH.
    - unfold holding, vof, first_wait. cbn [v_ph seg_n l' add_tk set_seg]. destruct (Nat.ltb 0 n1); [|destruct (is_single o)]; cbn [phase_of]; rewrite ?TM; reflexivity.
    - unfold hiv, vof, first_wait. cbn [v_ph v_l v_op]. rewrite <- Ei. change (seg_n l') with n1.
      destruct (Nat.ltb 0 n1); [|destruct (is_single o)]; cbn [phase_of]; rewrite ?TM; rewrite SE; reflexivity. }
  (* a move that keeps tickets, versions and holdings *)
  assert (LOC : forall X p l, thr_ok2 s X -> p <> Idle -> (forall r, next_of X r = next_of s r) -> kbits X = kbits s ->
     (forall sl, gver X sl = gver s sl) -> holding (vof o p l) = holding (vof o (tpc th) (lc th)) ->
     hiv (vof o p l) = hiv (vof o (tpc th) (lc th)) -> blk s t th o (upd X t (goto_lc th p l))).
  { intros X p l TX NI NX KX GX HD HV. eapply BLoc; [reflexivity | exact TX | exact NI | exact NX | exact KX | exact GX | exact HD | left; exact HV]. }
  (* end of a segment reached without publishing *)
  assert (ESB : forall X, thr_ok2 s X -> (forall r, next_of X r = next_of s r) -> kbits X = kbits s -> (forall sl, gver X sl = gver s sl) ->
     hcommon s o (lc th) -> holding (vof o (tpc th) (lc th)) = true ->
     hiv (vof o (tpc th) (lc th)) = (seg_i (lc th) + Z.of_nat (seg_n (lc th)), seg_end o (lc th)) ->
     blk s t th o (end_segment X t th o)).
  { intros X TX NX KX GX HC HD HV. destruct (es_blk s X t th o KO HC) as [(i2 & n2 & ER & K & -> & NI & HD' & HV' & EI & SE)|(r & -> & SE)].
    - eapply BLoc; [reflexivity | exact TX | exact NI | exact NX | exact KX | exact GX | rewrite HD', HD; reflexivity | left; rewrite HV', HV, SE, <- EI; reflexivity].
    - eapply BFin; [reflexivity | exact TX | exact NX | exact KX | exact GX | exact HD | rewrite HV, SE; cbn; lia]. }
  assert (WG : forall j0 X p l', phase_of o (tpc th) (lc th) = PWaiting j0 -> thr_ok2 s X -> (forall r, next_of X r = next_of s r) -> kbits X = kbits s ->
     (forall sl, gver X sl = gver s sl) -> p <> Idle -> (phase_of o p l' = PReady \/ exists j', phase_of o p l' = PWaiting j') ->
     seg_i l' = seg_i (lc th) -> seg_end o l' = seg_end o (lc th) -> blk s t th o (upd X t (goto_lc th p l'))).
  { intros j0 X p l' PH0 TX NX KX GX NI PH SI SE. apply LOC; auto.
    - unfold holding, vof. cbn [v_ph]. rewrite PH0. destruct PH as [-> |[j' ->]]; reflexivity.
    - unfold hiv, vof. cbn [v_ph v_l v_op]. rewrite PH0. destruct PH as [-> |[j' ->]]; rewrite SI, SE; reflexivity. }
  assert (DG : forall X p, phase_of o (tpc th) (lc th) = PDone -> thr_ok2 s X -> (forall r, next_of X r = next_of s r) -> kbits X = kbits s ->
     (forall sl, gver X sl = gver s sl) -> p <> Idle -> phase_of o p (lc th) = PDone -> blk s t th o (upd X t (goto th p))).
  { intros X p PH0 TX NX KX GX NI PH. apply (LOC X p (lc th)); auto.
    - unfold holding, vof. cbn [v_ph]. rewrite PH0, PH. reflexivity.
    - unfold hiv, vof. cbn [v_ph v_l v_op]. rewrite PH0, PH. reflexivity. }
  assert (NXS : forall r, next_of s r = next_of s r) by reflexivity.
  assert (GVS : forall sl, gver s sl = gver s sl) by reflexivity.
  destruct p0; rewrite E in LV; cbn [phase_of] in LV; rewrite ?TM in LV.
  - (* Idle *)
    destruct KO as [K|K]; rewrite K in H.
    + destruct (oconc o); inv H. apply GT; auto. hv E TM. reflexivity.
      apply LOC; auto; try discriminate; hv E TM; reflexivity.
    + destruct (oconc o); inv H. apply GT; auto. hv E TM. reflexivity.
      apply LOC; auto; try discriminate; hv E TM; reflexivity.
  - (* TkStore *)
    destruct LV as (OC & EB & _). inv H. apply GT; auto. hv E TM. reflexivity.
  - (* WLoad *)
    assert (PH0 : phase_of o (tpc th) (lc th) = PWaiting j) by (rewrite E; cbn; rewrite TM; reflexivity).
    destruct (wait_target s o (lc th) j) as [sl e]. destruct (wait_ready _ _); inv H.
    + apply (WG j); [exact PH0 | exact TS | exact NXS | reflexivity | exact GVS | apply aw_ne | apply aw_blk; auto | reflexivity | reflexivity].
    + apply (WG j); [exact PH0 | exact TS | exact NXS | reflexivity | exact GVS | apply sp_ne | right; exists j; rewrite ph_slow, TM; reflexivity | rewrite TM; reflexivity | rewrite TM; reflexivity].
  - (* WCas *)
    assert (PH0 : phase_of o (tpc th) (lc th) = PWaiting j) by (rewrite E; cbn; rewrite TM; reflexivity).
    destruct (wait_target s o (lc th) j) as [sl e]. destruct (Z.eqb _ _); [|destruct (block_cas_ready _ _)]; inv H.
    + apply (WG j); [exact PH0 | left; reflexivity | exact NXS | reflexivity | intros; apply gver_setwf | discriminate | right; exists j; cbn; rewrite TM; reflexivity | reflexivity | reflexivity].
    + apply (WG j); [exact PH0 | exact TS | exact NXS | reflexivity | exact GVS | apply aw_ne | apply aw_blk; auto | reflexivity | reflexivity].
    + apply (WG j); [exact PH0 | exact TS | exact NXS | reflexivity | exact GVS | destruct (block_no_waiter _); discriminate | right; exists j; rewrite ph_retry, TM; reflexivity | reflexivity | reflexivity].
  - (* WFutex *)
    assert (PH0 : phase_of o (tpc th) (lc th) = PWaiting j) by (rewrite E; cbn; rewrite TM; reflexivity).
    destruct (wait_target s o (lc th) j) as [sl e]. destruct (Z.eqb _ _); inv H.
    + apply (WG j); [exact PH0 | exact TS | exact NXS | reflexivity | exact GVS | discriminate | right; exists j; cbn; rewrite TM; reflexivity | reflexivity | reflexivity].
    + apply (WG j); [exact PH0 | exact TS | exact NXS | reflexivity | exact GVS | discriminate | right; exists j; cbn; rewrite TM; reflexivity | reflexivity | reflexivity].
  - (* WParked *)
    rewrite TM in H. cbn in H. discriminate.
  - (* WReload *)
    assert (PH0 : phase_of o (tpc th) (lc th) = PWaiting j) by (rewrite E; cbn; rewrite TM; reflexivity).
    destruct (wait_target s o (lc th) j) as [sl e]. rewrite TM in H. destruct (block_reload_ready _ _); inv H.
    + apply (WG j); [exact PH0 | exact TS | exact NXS | reflexivity | exact GVS | apply aw_ne | apply aw_blk; auto | reflexivity | reflexivity].
    + apply (WG j); [exact PH0 | exact TS | exact NXS | reflexivity | exact GVS | destruct (block_no_waiter _); discriminate | right; exists j; rewrite ph_retry, TM; reflexivity | reflexivity | reflexivity].
  - (* WSleep *)
    assert (PH0 : phase_of o (tpc th) (lc th) = PWaiting j) by (rewrite E; cbn; rewrite TM; reflexivity).
    inv H. apply (WG j); [exact PH0 | exact TS | exact NXS | reflexivity | exact GVS | discriminate | right; exists j; cbn; rewrite TM; reflexivity | reflexivity | reflexivity].
  - (* WSpin *)
    assert (PH0 : phase_of o (tpc th) (lc th) = PWaiting j) by (rewrite E; cbn; rewrite TM; reflexivity).
    destruct (wait_target s o (lc th) j) as [sl e]. destruct (spin_ready _ _); inv H.
    + apply (WG j); [exact PH0 | exact TS | exact NXS | reflexivity | exact GVS | apply aw_ne | apply aw_blk; auto | reflexivity | reflexivity].
    + apply (WG j); [exact PH0 | exact TS | exact NXS | reflexivity | exact GVS | discriminate | right; exists j; cbn; rewrite TM; reflexivity | reflexivity | reflexivity].
  - (* FenceA *)
    inv H. apply LOC; [exact TS | discriminate | exact NXS | reflexivity | exact GVS | hv E TM; reflexivity | hv E TM; reflexivity].
  - (* Callback *)
    destruct (is_push o).
    + destruct (cb_push _ _ _ _ _ _ _) as [[sls ps] e] eqn:CB. inv H.
      apply LOC; [left; reflexivity | destruct (is_single o); discriminate | intros; reflexivity | reflexivity | | | ].
      * intros sl. unfold gver, get_slot. cbn. pose proof (cb_push_ver (firstn (seg_n (lc th)) (vals (lc th))) t (slots s) (seg_slot s o (lc th) 0) (seg_i (lc th)) (pushed s) (err s) sl) as V.
        rewrite CB in V. exact V.
      * hv E TM. destruct (is_single o); reflexivity.
      * hv E TM. destruct (is_single o); cbn [phase_of seg_i set_io]; unfold seg_end; cbn; rewrite ?Z.add_0_r; reflexivity.
    + destruct (cb_pop _ _ _ _ _ _ _ _) as [[[sls ds] g] e] eqn:CB. inv H.
      apply LOC; [left; reflexivity | destruct (is_single o); discriminate | intros; reflexivity | reflexivity | | | ].
      * intros sl. unfold gver, get_slot. cbn. pose proof (cb_pop_ver (seg_n (lc th)) t (slots s) (seg_slot s o (lc th) 0) (seg_i (lc th)) (delivered s) (got (lc th)) (err s) sl) as V.
        rewrite CB in V. exact V.
      * hv E TM. destruct (is_single o); reflexivity.
      * hv E TM. destruct (is_single o); cbn [phase_of seg_i set_io]; unfold seg_end; cbn; rewrite ?Z.add_0_r; reflexivity.
  - (* FenceR *)
    destruct LV as (HC & _).
    destruct (Nat.ltb 0 (seg_n (lc th))) eqn:LT0; inv H.
    + apply (LOC s (Pub 0) (lc th)); [exact TS | discriminate | exact NXS | reflexivity | exact GVS | hv E TM; reflexivity | hv E TM; rewrite Z.add_0_r; reflexivity].
    + apply Nat.ltb_ge in LT0. assert (SN : seg_n (lc th) = 0%nat) by lia. unfold after_pubs. destruct (fwake (oflags o)).
      * apply (LOC s FenceSC (lc th)); [exact TS | discriminate | exact NXS | reflexivity | exact GVS | hv E TM; reflexivity | hv E TM; rewrite SN, Z.add_0_r; reflexivity].
      * apply ESB; [exact TS | exact NXS | reflexivity | exact GVS | exact HC | hv E TM; reflexivity | hv E TM; rewrite SN, Z.add_0_r; reflexivity].
  - (* Pub *)
    destruct LV as (HC & LT & _).
    destruct (pub_known _ _ s t th o j FI0 HT HO E) as (_ & GV & INR).
    destruct (seg_slot_j s th o (i_len _ IV) j (proj1 HC) LT) as [SS SEv].
    rewrite !(proj1 (bq_next_version _ _ _)) in H.
    set (i0 := seg_i (lc th) + Z.of_nat j) in *. set (sl := seg_slot s o (lc th) j) in *. set (e := seg_ever s o (lc th)) in *.
    assert (HI : i0 < seg_end o (lc th)).
    { destruct HC as ((S1 & S2 & S3 & S4) & _). unfold seg_end, i0. destruct (okind o); destruct (rest (lc th)) as [[i2 n2]|]; try lia; try (destruct S4 as (R1 & _); lia). }
    assert (PB : forall wv th',
      ((exists p l, th' = goto_lc th p l /\ p <> Idle /\ holding (vof o p l) = true /\ hiv (vof o p l) = (i0 + 1, seg_end o (lc th))) \/
       (exists r, th' = finish_op th r /\ seg_end o (lc th) = i0 + 1)) ->
      blk s t th o (upd (set_slot s sl {| ver := e + 1; wf := wv; pay := pay (get_slot s sl); own := None |}) t th')).
    { intros wv th' ALT. eapply BPub with (i0 := i0) (hi := seg_end o (lc th)); [reflexivity | left; reflexivity | intros; reflexivity | reflexivity
         | hv E TM; reflexivity | exact HI | hv E TM; reflexivity | | | | exact ALT].
      - rewrite <- SS. fold sl. unfold gver, get_slot, set_slot. cbn. rewrite nth_set_nth_eq by exact INR. cbn. rewrite SEv. reflexivity.
      - rewrite <- SS. fold sl. rewrite GV. exact SEv.
      - intros sl' NE. rewrite <- SS in NE. fold sl in NE. unfold gver, get_slot, set_slot. cbn. rewrite nth_set_nth_neq; auto. }
    assert (PE : S j = seg_n (lc th) -> forall wv, blk s t th o (end_segment (set_slot s sl {| ver := e + 1; wf := wv; pay := pay (get_slot s sl); own := None |}) t th o)).
    { intros SJ wv. destruct (es_blk s (set_slot s sl {| ver := e + 1; wf := wv; pay := pay (get_slot s sl); own := None |}) t th o KO HC)
        as [(i2 & n2 & ER & K & -> & NI & HD' & HV' & EI & SE)|(r & -> & SE)]; apply PB.
      - left. eexists; eexists. split. reflexivity. split; auto. split; auto. rewrite HV', SE. unfold i0. f_equal. lia.
      - right. exists r. split; auto. unfold i0. lia. }
    destruct (is_single o) eqn:SI.
    + assert (SJ : S j = seg_n (lc th)) by (destruct HC as (_ & _ & _ & SG); destruct (SG SI) as [SN _]; lia).
      destruct (fwake (oflags o)); [destruct (xchg_no_waiter _)|]; inv H.
      * apply PE; auto.
      * apply PB. left. exists (PubWake sl), (lc th). split; auto. split. discriminate. split. reflexivity.
        unfold hiv, vof. cbn. unfold i0. f_equal. lia.
      * apply PE; auto.
    + destruct (Nat.ltb (S j) (seg_n (lc th))) eqn:LT2; inv H.
      * apply PB. left. exists (Pub (S j)), (lc th). split; auto. split. discriminate. split. reflexivity.
        unfold hiv, vof. cbn. unfold i0. f_equal. lia.
      * apply Nat.ltb_ge in LT2. assert (SJ : S j = seg_n (lc th)) by lia. unfold after_pubs. destruct (fwake (oflags o)).
        -- apply PB. left. exists FenceSC, (lc th). split; auto. split. discriminate. split. reflexivity.
           unfold hiv, vof. cbn. unfold i0. f_equal. lia.
        -- apply PE; auto.
  - (* PubWake *)
    destruct LV as (HC & _). inv H.
    apply ESB; [right; exists sl; reflexivity | intros; reflexivity | reflexivity | intros; reflexivity | exact HC | hv E TM; reflexivity | hv E TM; reflexivity].
  - (* FenceSC *)
    destruct LV as (HC & _).
    assert (PH0 : phase_of o (tpc th) (lc th) = PDone) by (rewrite E; reflexivity).
    destruct (Nat.ltb 0 (seg_n (lc th))); inv H.
    + apply DG; [exact PH0 | exact TS | exact NXS | reflexivity | exact GVS | discriminate | reflexivity].
    + apply ESB; [exact TS | exact NXS | reflexivity | exact GVS | exact HC | hv E TM; reflexivity | hv E TM; reflexivity].
  - (* WkLoad *)
    destruct LV as (HC & _).
    assert (PH0 : phase_of o (tpc th) (lc th) = PDone) by (rewrite E; reflexivity).
    assert (NWK : blk s t th o (next_wk s t th o j)).
    { unfold next_wk. destruct (Nat.ltb _ _).
      apply DG; [exact PH0 | exact TS | exact NXS | reflexivity | exact GVS | discriminate | reflexivity].
      apply ESB; [exact TS | exact NXS | reflexivity | exact GVS | exact HC | hv E TM; reflexivity | hv E TM; reflexivity]. }
    destruct (wakeup_no_waiter _); [|destruct (wakeup_moved_on _ _)]; inv H; auto.
    apply DG; [exact PH0 | exact TS | exact NXS | reflexivity | exact GVS | discriminate | reflexivity].
  - (* WkCas *)
    destruct LV as (HC & _).
    assert (PH0 : phase_of o (tpc th) (lc th) = PDone) by (rewrite E; reflexivity).
    destruct (Z.eqb _ _); inv H.
    + apply DG; [exact PH0 | left; reflexivity | intros; reflexivity | reflexivity | intros; apply gver_setwf | discriminate | reflexivity].
    + unfold next_wk. destruct (Nat.ltb _ _).
      apply DG; [exact PH0 | exact TS | exact NXS | reflexivity | exact GVS | discriminate | reflexivity].
      apply ESB; [exact TS | exact NXS | reflexivity | exact GVS | exact HC | hv E TM; reflexivity | hv E TM; reflexivity].
  - (* WkWake *)
    destruct LV as (HC & _).
    assert (PH0 : phase_of o (tpc th) (lc th) = PDone) by (rewrite E; reflexivity).
    inv H. unfold next_wk. destruct (Nat.ltb _ _).
    + apply DG; [exact PH0 | right; exists sl; reflexivity | intros; reflexivity | reflexivity | intros; reflexivity | discriminate | reflexivity].
    + apply ESB; [right; exists sl; reflexivity | intros; reflexivity | reflexivity | intros; reflexivity | exact HC | hv E TM; reflexivity | hv E TM; reflexivity].
  - (* TryVer *) destruct LV as (_ & _ & K & _). destruct KO; congruence.
  - (* TryReidx *) destruct LV as (_ & _ & K & _). destruct KO; congruence.
  - (* TryCas *) destruct LV as (_ & _ & K & _). destruct KO; congruence.
  - (* TnVer *) destruct LV as (_ & _ & [K|K] & _); destruct KO; congruence.
  - (* TnCas *) destruct LV as (_ & _ & [K|K] & _); destruct KO; congruence.
  - (* TnIdx *) congruence.
Qed.

(* ---------------- every issued ticket is published or held ---------------- *)
Definition published (s : st) (r : bool) (i : Z) : Prop := xver (C s) r i < ver (sslot s i).
Definition NL (s : st) : Prop := forall r i, 0 <= i < next_of s r -> published s r i \/ exists u, held s r u i.

Lemma sslot_gver : forall s i, ver (sslot s i) = gver s (tsl (C s) i).
Proof. reflexivity. Qed.

Section NLS.
Variables (s : st) (t : nat) (th : thread) (o : op).
Hypothesis HT : nth_error (threads s) t = Some th.
Hypothesis HO : cur th = Some o.

Lemma thv_t_vof : thv s t (vof o (tpc th) (lc th)).
Proof. exists th. split; auto. unfold tv. rewrite HO. reflexivity. Qed.

Lemma held_other : forall X th' r u i, thr_ok2 s X -> kbits X = kbits s -> u <> t -> held s r u i -> held (upd X t th') r u i.
Proof.
  intros X th' r u i TX KX NE (vu & (thu & H1 & H2) & RO & IH).
  destruct (nth_fw s t X th' u thu TX NE H1) as (thu' & H1' & [->|(sl0 & ->)]).
  - exists vu. split; auto. exists thu. auto.
  - exists vu. split; auto. exists (wake_thread sl0 thu). split; auto. rewrite (proj1 (tv_wake sl0 thu)). auto.
Qed.
Lemma held_self : forall X p l r i, thr_ok2 s X -> vrole (vof o p l) = r -> inhold (vof o p l) i -> held (upd X t (goto_lc th p l)) r t i.
Proof.
  intros X p l r i TX RO IH. exists (vof o p l). split; auto. exists (goto_lc th p l). split. apply (nth_w s t th HT); auto.
  unfold tv, cur in *. cbn. rewrite HO. reflexivity.
Qed.
Lemma held_is_self : forall r i, held s r t i -> r = is_push o /\ inhold (vof o (tpc th) (lc th)) i.
Proof.
  intros r i (vu & H & RO & IH). rewrite (thv_fun _ _ _ _ H thv_t_vof) in RO, IH. split; auto.
Qed.
End NLS.

Lemma published_mono : forall s X r i, kbits X = kbits s -> (forall sl, gver s sl <= gver X sl) -> published s r i -> published X r i.
Proof.
  intros s X r i K MO P. unfold published in *. assert (CC : C X = C s) by (unfold C; rewrite K; reflexivity).
  rewrite sslot_gver in *. rewrite CC. specialize (MO (tsl (C s) i)). lia.
Qed.

Lemma NL_step : forall k progs s t s', usage_ok k progs = true -> FInv k progs s ->
  Forall (fun o => okind o = KSingle \/ okind o = KBatch) (all_ops progs) -> NL s -> step s t = Some s' -> NL s'.
Proof.
  intros k progs s t s' U FI BO N H. pose proof FI as (IV & PR & KB).
  apply step_inv in H as [(th & o & HT & HO & HS)|[HN ->]].
  2: { intros r i Hi. destruct (N r i Hi) as [P|(u & vu & (thu & H1 & H2) & RO & IH)]; [left; exact P|right]. exists u, vu. split; auto. exists thu. auto. }
  assert (KO : okind o = KSingle \/ okind o = KBatch).
  { rewrite Forall_forall in BO. apply BO. unfold all_ops. apply in_concat. exists (prog th). split. rewrite <- PR. apply in_map. eapply nth_error_In; eauto.
    eapply nth_error_In; eauto. }
  assert (HO' : cur th = Some o) by exact HO.
  pose proof (step_blk k progs s t th o s' U FI HT HO' KO HS) as B.
  pose proof (thv_t_vof s t th o HT HO') as TT.
  destruct B as [X p l -> TX NI NX KX GX HD HV | X p l -> TX NI NR NO KX GX HD0 HD1 HV | X th' i0 hi -> TX NX KX HV LT HD G1 G0 GO ALT | X r0 -> TX NX KX GX HD HV].
  - (* BLoc *)
    intros r i Hi. change (next_of (upd X t (goto_lc th p l)) r) with (next_of X r) in Hi. rewrite NX in Hi.
    destruct (N r i Hi) as [P|(u & HH)].
    + left. apply (published_mono s); auto. intros sl. change (gver (upd X t (goto_lc th p l)) sl) with (gver X sl). rewrite GX. lia.
    + right. destruct (Nat.eq_dec u t) as [->|NE]; [|exists u; apply (held_other s); auto].
      destruct (held_is_self s t th o HT HO' r i HH) as [-> IH]. exists t. apply (held_self s t th o HT HO'); auto.
      apply inhold_hiv. apply inhold_hiv in IH. destruct HV as [->|[E1 E2]]; auto. lia.
  - (* BAcq *)
    intros r i Hi. change (next_of (upd X t (goto_lc th p l)) r) with (next_of X r) in Hi.
    destruct (Bool.eqb r (is_push o)) eqn:BR.
    + apply eqb_prop in BR. subst r. rewrite NR in Hi. destruct (Z_lt_le_dec i (next_of s (is_push o))) as [LT|GE].
      * destruct (N (is_push o) i ltac:(lia)) as [P|(u & HH)].
        -- left. apply (published_mono s); auto. intros sl. change (gver (upd X t (goto_lc th p l)) sl) with (gver X sl). rewrite GX. lia.
        -- right. destruct (Nat.eq_dec u t) as [->|NE]; [|exists u; apply (held_other s); auto].
           destruct (held_is_self s t th o HT HO' _ i HH) as [_ IH]. apply inhold_hiv in IH. exfalso.
           unfold holding, hiv, vof in *. cbn [v_ph v_l v_op] in *. destruct (phase_of o (tpc th) (lc th)); try discriminate; cbn in IH; lia.
      * right. exists t. apply (held_self s t th o HT HO'); auto. apply inhold_hiv. rewrite HV. cbn. lia.
    + assert (r = negb (is_push o)) by (destruct r, (is_push o); auto; discriminate). subst r. rewrite NO in Hi.
      destruct (N _ i Hi) as [P|(u & HH)].
      * left. apply (published_mono s); auto. intros sl. change (gver (upd X t (goto_lc th p l)) sl) with (gver X sl). rewrite GX. lia.
      * right. destruct (Nat.eq_dec u t) as [->|NE]; [|exists u; apply (held_other s); auto].
        destruct (held_is_self s t th o HT HO' _ i HH) as [RR _]. destruct (is_push o); discriminate.
  - (* BPub *)
    assert (MO : forall sl, gver s sl <= gver (upd X t th') sl).
    { intros sl. change (gver (upd X t th') sl) with (gver X sl). destruct (Nat.eq_dec sl (tsl (C s) i0)) as [->|NE]. lia. rewrite GO; auto. lia. }
    intros r i Hi. change (next_of (upd X t th') r) with (next_of X r) in Hi. rewrite NX in Hi.
    destruct (N r i Hi) as [P|(u & HH)].
    + left. apply (published_mono s); auto.
    + destruct (Nat.eq_dec u t) as [->|NE]; [|right; exists u; apply (held_other s); auto].
      destruct (held_is_self s t th o HT HO' r i HH) as [-> IH]. apply inhold_hiv in IH. rewrite HV in IH. cbn in IH.
      destruct (Z.eq_dec i i0) as [->|NI0].
      * left. unfold published. assert (CC : C (upd X t th') = C s) by (unfold C; cbn; rewrite KX; reflexivity).
        rewrite sslot_gver, CC. change (gver (upd X t th') (tsl (C s) i0)) with (gver X (tsl (C s) i0)). lia.
      * right. destruct ALT as [(p & l & -> & NI & HD' & HV')|(r0 & -> & EH)]; [|lia].
        exists t. apply (held_self s t th o HT HO'); auto. apply inhold_hiv. rewrite HV'. cbn. lia.
  - (* BFin *)
    intros r i Hi. change (next_of (upd X t (finish_op th r0)) r) with (next_of X r) in Hi. rewrite NX in Hi.
    destruct (N r i Hi) as [P|(u & HH)].
    + left. apply (published_mono s); auto. intros sl. change (gver (upd X t (finish_op th r0)) sl) with (gver X sl). rewrite GX. lia.
    + right. destruct (Nat.eq_dec u t) as [->|NE]; [|exists u; apply (held_other s); auto].
      destruct (held_is_self s t th o HT HO' r i HH) as [_ IH]. apply inhold_hiv in IH. lia.
Qed.

(* ---------------- ticket accounting ---------------- *)
Definition wgt (r : bool) (o : op) : Z := if Bool.eqb (is_push o) r then Z.of_nat (onum o) else 0.
Definition sumw (r : bool) (l : list op) : Z := fold_right (fun o a => wgt r o + a) 0 l.
Definition curw (r : bool) (th : thread) : Z :=
  match cur th with Some o => if holding (vof o (tpc th) (lc th)) then wgt r o else 0 | None => 0 end.
Definition acq (r : bool) (th : thread) : Z := sumw r (firstn (opi th) (prog th)) + curw r th.
Fixpoint zsum (f : thread -> Z) (l : list thread) : Z := match l with [] => 0 | x :: q => f x + zsum f q end.
Definition AC (s : st) : Prop := forall r, next_of s r = zsum (acq r) (threads s).

Lemma zsum_set_nth : forall f l t th th', nth_error l t = Some th -> zsum f (set_nth t th' l) = zsum f l - f th + f th'.
Proof. induction l as [|a l IH]; intros [|t] th th' H; cbn in *; try discriminate. inversion H; subst. lia. rewrite (IH _ _ th' H). lia. Qed.
Lemma zsum_map : forall f g l, (forall x, f (g x) = f x) -> zsum f (map g l) = zsum f l.
Proof. intros f g l H. induction l; cbn; auto. rewrite H, IHl. reflexivity. Qed.
Lemma wgt_nonneg : forall r o, 0 <= wgt r o.
Proof. intros. unfold wgt. destruct (Bool.eqb _ _); lia. Qed.
Lemma sumw_nonneg : forall r l, 0 <= sumw r l.
Proof. induction l as [|a l IH]; [cbn; lia|]. change (sumw r (a :: l)) with (wgt r a + sumw r l). pose proof (wgt_nonneg r a). lia. Qed.
Lemma sumw_app : forall r a b, sumw r (a ++ b) = sumw r a + sumw r b.
Proof. induction a as [|x a IH]; intros; [reflexivity|]. change (sumw r ((x :: a) ++ b)) with (wgt r x + sumw r (a ++ b)). change (sumw r (x :: a)) with (wgt r x + sumw r a). rewrite IH. lia. Qed.
Lemma firstn_S_nth : forall A (l : list A) n x, nth_error l n = Some x -> firstn (S n) l = firstn n l ++ [x].
Proof. induction l as [|a l IH]; intros [|n] x H; cbn in *; try discriminate. inversion H; auto. f_equal. auto. Qed.

Lemma acq_wake : forall r sl th, acq r (wake_thread sl th) = acq r th.
Proof.
  intros. unfold wake_thread. destruct (tpc th) eqn:E; auto. destruct (Nat.eqb sl sl0); auto.
  unfold acq, curw, cur. cbn. destruct (nth_error (prog th) (opi th)); auto. rewrite E. reflexivity.
Qed.
Lemma acq_goto : forall r th o p l, cur th = Some o ->
  acq r (goto_lc th p l) = sumw r (firstn (opi th) (prog th)) + (if holding (vof o p l) then wgt r o else 0).
Proof. intros. unfold acq, curw, cur in *. cbn. rewrite H. reflexivity. Qed.
Lemma acq_self : forall r th o, cur th = Some o ->
  acq r th = sumw r (firstn (opi th) (prog th)) + (if holding (vof o (tpc th) (lc th)) then wgt r o else 0).
Proof. intros. unfold acq, curw. rewrite H. reflexivity. Qed.
Lemma acq_finish : forall r th o r0, cur th = Some o -> acq r (finish_op th r0) = sumw r (firstn (opi th) (prog th)) + wgt r o.
Proof.
  intros r th o r0 H. unfold acq, curw, cur in *. cbn [prog opi tpc lc finish_op]. rewrite (firstn_S_nth _ _ _ _ H), sumw_app. cbn [sumw fold_right].
  destruct (nth_error (prog th) (S (opi th))); unfold holding, vof; cbn [v_ph phase_of]; lia.
Qed.

Lemma AC_step : forall k progs s t s', usage_ok k progs = true -> FInv k progs s ->
  Forall (fun o => okind o = KSingle \/ okind o = KBatch) (all_ops progs) -> AC s -> step s t = Some s' -> AC s'.
Proof.
  intros k progs s t s' U FI BO A H. pose proof FI as (IV & PR & KB).
  apply step_inv in H as [(th & o & HT & HO & HS)|[HN ->]]; [|exact A].
  assert (KO : okind o = KSingle \/ okind o = KBatch).
  { rewrite Forall_forall in BO. apply BO. unfold all_ops. apply in_concat. exists (prog th). split. rewrite <- PR. apply in_map. eapply nth_error_In; eauto.
    eapply nth_error_In; eauto. }
  assert (HO' : cur th = Some o) by exact HO.
  pose proof (step_blk k progs s t th o s' U FI HT HO' KO HS) as B.
  assert (ZS : forall X th' r, thr_ok2 s X -> zsum (acq r) (threads (upd X t th')) = zsum (acq r) (threads s) - acq r th + acq r th').
  { intros X th' r [E|[sl0 E]]; cbn; rewrite E.
    - apply zsum_set_nth; auto.
    - rewrite (zsum_set_nth _ _ t (wake_thread sl0 th)). rewrite zsum_map, acq_wake. reflexivity. intros; apply acq_wake.
      rewrite nth_error_map, HT. reflexivity. }
  destruct B as [X p l -> TX NI NX KX GX HD HV | X p l -> TX NI NR NO KX GX HD0 HD1 HV | X th' i0 hi -> TX NX KX HV LT HD G1 G0 GO ALT | X r0 -> TX NX KX GX HD HV];
    intros r; rewrite ZS by auto; rewrite (acq_self r th o HO').
  - change (next_of (upd X t (goto_lc th p l)) r) with (next_of X r). rewrite NX, (A r), (acq_goto r th o p l HO'), HD. lia.
  - change (next_of (upd X t (goto_lc th p l)) r) with (next_of X r). rewrite (acq_goto r th o p l HO'), HD0, HD1.
    unfold wgt. destruct (Bool.eqb (is_push o) r) eqn:BR.
    + apply eqb_prop in BR. subst r. rewrite NR, (A (is_push o)). lia.
    + assert (r = negb (is_push o)) by (destruct r, (is_push o); auto; discriminate). subst r. rewrite NO, (A _). lia.
  - change (next_of (upd X t th') r) with (next_of X r). rewrite NX, (A r), HD.
    destruct ALT as [(p & l & -> & NI & HD' & HV')|(r0 & -> & EH)].
    + rewrite (acq_goto r th o p l HO'), HD'. lia.
    + rewrite (acq_finish r th o r0 HO'). lia.
  - change (next_of (upd X t (finish_op th r0)) r) with (next_of X r). rewrite NX, (A r), HD, (acq_finish r th o r0 HO'). lia.
Qed.

(* consequences *)
Lemma acq_le_total : forall r th, acq r th <= sumw r (prog th) /\ (acq r th < sumw r (prog th) -> thread_done th = false /\ exists o, In o (prog th) /\ is_push o = r).
Proof.
  intros r th. unfold acq, curw, cur, thread_done.
  assert (TOT : sumw r (prog th) = sumw r (firstn (opi th) (prog th)) + sumw r (skipn (opi th) (prog th))) by (rewrite <- sumw_app, firstn_skipn; reflexivity).
  rewrite TOT. destruct (nth_error (prog th) (opi th)) as [o|] eqn:E.
  - assert (SK : skipn (opi th) (prog th) = o :: skipn (S (opi th)) (prog th)).
    { clear -E. revert E. generalize (opi th). induction (prog th) as [|a l IH]; intros [|n] E; cbn in *; try discriminate. inversion E; auto. auto. }
    rewrite SK. change (sumw r (o :: skipn (S (opi th)) (prog th))) with (wgt r o + sumw r (skipn (S (opi th)) (prog th))).
    pose proof (sumw_nonneg r (skipn (S (opi th)) (prog th))). pose proof (wgt_nonneg r o).
    split. destruct (holding (vof o (tpc th) (lc th))); lia.
    intros LT. split; auto.
    assert (NZ : 0 < sumw r (o :: skipn (S (opi th)) (prog th))).
    { change (sumw r (o :: skipn (S (opi th)) (prog th))) with (wgt r o + sumw r (skipn (S (opi th)) (prog th))). destruct (holding (vof o (tpc th) (lc th))); lia. }
    assert (EX : forall l, 0 < sumw r l -> exists o', In o' l /\ is_push o' = r).
    { induction l as [|a l IH]; intros P. cbn in P; lia. change (sumw r (a :: l)) with (wgt r a + sumw r l) in P. unfold wgt in P at 1.
      destruct (Bool.eqb (is_push a) r) eqn:B. exists a. split. left; auto. apply eqb_prop; auto.
      destruct (IH ltac:(lia)) as (o' & I1 & I2). exists o'. split; auto. right; auto. }
    destruct (EX _ NZ) as (o' & I1 & I2). exists o'. split; auto.
    rewrite <- (firstn_skipn (opi th) (prog th)). apply in_or_app. right. rewrite SK. exact I1.
  - assert (SK : skipn (opi th) (prog th) = []) by (apply skipn_all2; apply nth_error_None; auto). rewrite SK. cbn. split; lia.
Qed.

(* ---------------- reachability of the two invariants ---------------- *)
Definition blocking_only (progs : list (list op)) : Prop :=
  Forall (fun o => okind o = KSingle \/ okind o = KBatch) (all_ops progs).
Definition one_sided_threads (progs : list (list op)) : Prop :=
  Forall (fun p => side_ops true p = [] \/ side_ops false p = []) progs.
Definition balanced (progs : list (list op)) : Prop :=
  fold_right Nat.add 0%nat (map onum (side_ops true (all_ops progs))) =
  fold_right Nat.add 0%nat (map onum (side_ops false (all_ops progs))).

Lemma NLAC_reach : forall k progs s, usage_ok k progs = true -> blocking_only progs -> Reach k progs s ->
  FInv k progs s /\ NL s /\ AC s.
Proof.
  intros k progs s U BO R.
  eapply inv_reachable with (Inv := fun s0 => FInv k progs s0 /\ NL s0 /\ AC s0); eauto.
  - split. apply FInv_init. split.
    + intros r i Hi. destruct r; cbn in Hi; lia.
    + intros r. cbn [threads init]. assert (Z0 : forall l, zsum (acq r) (map mk_thread l) = 0).
      { induction l as [|p l IH]; cbn [map zsum]; auto. rewrite IH. unfold acq, curw, cur. cbn. destruct p; cbn; lia. }
      rewrite Z0. destruct r; reflexivity.
  - intros s0 t0 s1 (F0 & N0 & A0) ST. split. eapply FInv_step; eauto. split. eapply NL_step; eauto. eapply AC_step; eauto.
Qed.

(* ---------------- totals ---------------- *)
Lemma sumw_side : forall r p, sumw r p = Z.of_nat (fold_right Nat.add 0%nat (map onum (side_ops r p))).
Proof.
  intros r p. induction p as [|a p IH]; [reflexivity|]. change (sumw r (a :: p)) with (wgt r a + sumw r p). rewrite IH.
  unfold side_ops, wgt. cbn [filter]. destruct (Bool.eqb (is_push a) r); cbn [map fold_right]; lia.
Qed.
Lemma total_side : forall r l, zsum (fun th => sumw r (prog th)) l =
  Z.of_nat (fold_right Nat.add 0%nat (map onum (side_ops r (all_ops (map prog l))))).
Proof.
  intros r l. induction l as [|a l IH]; [reflexivity|]. cbn [zsum map]. rewrite IH, sumw_side. unfold all_ops. cbn [concat].
  unfold side_ops. rewrite filter_app, map_app. rewrite fold_right_app.
  assert (F : forall x y, fold_right Nat.add y x = (fold_right Nat.add 0 x + y)%nat) by (induction x; intros; cbn; auto; rewrite IHx; lia).
  rewrite (F _ (fold_right Nat.add 0%nat _)). lia.
Qed.
Lemma zsum_le : forall f g l, (forall x, In x l -> f x <= g x) -> zsum f l <= zsum g l.
Proof. induction l as [|a l IH]; intros H; cbn. lia. pose proof (H a (or_introl eq_refl)). assert (zsum f l <= zsum g l) by (apply IH; intros; apply H; right; auto). lia. Qed.
Lemma zsum_lt_exists : forall f g l, zsum f l < zsum g l -> exists x, In x l /\ f x < g x.
Proof.
  induction l as [|a l IH]; cbn; intros H. lia. destruct (Z_lt_le_dec (f a) (g a)) as [L|L]. exists a. auto.
  destruct (IH ltac:(lia)) as (x & I1 & I2). exists x. auto.
Qed.

(* ---------------- the argument ---------------- *)
Definition Awaited (s : st) (r : bool) (b : Z) : Prop :=
  exists u thu o j sl, nth_error (threads s) u = Some thu /\ cur thu = Some o /\ is_push o = r /\ tpc thu = WParked j sl /\
    b = seg_i (lc thu) + Z.of_nat j.

Section DL.
Variables (k : nat) (progs : list (list op)) (s : st).
Hypothesis U : usage_ok k progs = true.
Hypothesis BO : blocking_only progs.
Hypothesis OS : one_sided_threads progs.
Hypothesis BAL : balanced progs.
Hypothesis R : Reach k progs s.
Hypothesis SM : small s.
Hypothesis DLK : forall u, (u < length (threads s))%nat -> step s u = None.

Lemma dl_inv : FInv k progs s /\ NL s /\ AC s.
Proof. apply NLAC_reach; auto. Qed.

Lemma dl_parked : forall u thu, nth_error (threads s) u = Some thu -> thread_done thu = false -> exists j sl, tpc thu = WParked j sl.
Proof.
  intros u thu HU TD. destruct (tpc thu) eqn:E; eauto; exfalso;
    (apply (bq_unparked_enabled s u thu HU TD); [intros j0 sl0 PC; congruence | apply DLK; eapply nth_error_lt; eauto]).
Qed.

Lemma dl_blocking : forall u thu o, nth_error (threads s) u = Some thu -> cur thu = Some o -> okind o = KSingle \/ okind o = KBatch.
Proof.
  intros u thu o HU CU. destruct dl_inv as ((_ & PR & _) & _). unfold blocking_only in BO. rewrite Forall_forall in BO. apply BO.
  unfold all_ops. apply in_concat. exists (prog thu). split. rewrite <- PR. apply in_map. eapply nth_error_In; eauto. eapply nth_error_In; eauto.
Qed.

(* what a sleeper of a deadlocked state looks like *)
Lemma dl_awaited : forall u thu o j sl, nth_error (threads s) u = Some thu -> cur thu = Some o -> tpc thu = WParked j sl ->
  let b := seg_i (lc thu) + Z.of_nat j in let r := is_push o in
  0 <= b < next_of s r /\ ver (sslot s b) < xver (C s) r b /\ 0 <= ver (sslot s b) /\
  (forall d, held s r u d -> b / C s <= d / C s) /\ held s r u b.
Proof.
  intros u thu o j sl HU CU PC b r. destruct dl_inv as (FI & _). pose proof FI as (IV & PR & KB).
  pose proof (dl_blocking u thu o HU CU) as KO. destruct (blk_kind o KO) as (TM & _).
  pose proof (thv_t s u thu o HU CU) as TT. pose proof (i_tf _ IV _ _ TT) as TFu. pose proof TFu as (LV & _).
  unfold linv in LV. cbn [v_ph v_op v_l] in LV. rewrite PC in LV. cbn [phase_of] in LV. rewrite TM in LV. destruct LV as (HC & LT & _).
  pose proof (C_pos s) as CP. pose proof HC as ((S1 & S2 & S3 & S4) & _).
  set (v := {| v_op := o; v_ph := phase_of o (tpc thu) (lc thu); v_l := lc thu |}) in *.
  assert (IHf : forall d, inhold v d <-> seg_i (lc thu) <= d < seg_end o (lc thu)).
  { intros d. unfold inhold, v. cbn [v_ph v_l v_op]. rewrite PC. cbn [phase_of]. rewrite TM. tauto. }
  assert (SEG : seg_i (lc thu) + Z.of_nat (seg_n (lc thu)) <= seg_end o (lc thu)).
  { unfold seg_end. destruct (okind o); destruct (rest (lc thu)) as [[i2 n2]|]; try lia; try (destruct S4 as (R1 & _); lia). }
  assert (IH : inhold v b) by (apply IHf; unfold b; lia).
  assert (HB : held s r u b) by (exists v; split; auto).
  pose proof (inhold_bounds s v b TFu IH) as BD. change (vrole v) with r in BD.
  destruct (seg_slot_j s thu o (i_len _ IV) j (proj1 HC) LT) as [SS SE].
  assert (WT : wait_target s o (lc thu) j = (tsl (C s) b, xver (C s) r b)).
  { assert (wait_target s o (lc thu) j = (seg_slot s o (lc thu) j, seg_ever s o (lc thu))) as -> by (destruct o; try reflexivity; discriminate).
    rewrite SS, SE. reflexivity. }
  destruct (bq_parked_slot k progs s U R SM u thu o j sl HU CU PC) as (_ & PK & V0s). rewrite WT in PK. cbn [snd] in PK.
  assert (ESL : sl = tsl (C s) b).
  { destruct PK as (o' & j' & CU' & PC' & WT'). rewrite CU in CU'. inversion CU'; subst o'. rewrite PC in PC'. inversion PC'; subst j'.
    rewrite WT in WT'. inversion WT'. auto. }
  pose proof (bq_deadlock_not_lost_wakeup k progs s U R SM DLK u thu sl (xver (C s) r b) HU PK) as NE. rewrite ESL in NE.
  change (ver (get_slot s (tsl (C s) b))) with (ver (sslot s b)) in NE.
  pose proof (i_le _ IV r b ltac:(lia) (or_intror (ex_intro _ u (ex_intro _ v (conj TT (conj eq_refl IH)))))) as LE.
  split; auto. split. lia. split. apply (V0s (tsl (C s) b)). split; auto.
  intros d (vd & Hd & _ & IHd). rewrite (thv_fun _ _ _ _ Hd TT) in IHd. apply IHf in IHd.
  destruct (round_add (C s) (seg_i (lc thu)) (Z.of_nat j) CP ltac:(lia) ltac:(lia)) as [E1 _]. unfold b. rewrite E1.
  apply Z.div_le_mono; lia.
Qed.

Lemma dl_unfinished_awaits : forall u thu, nth_error (threads s) u = Some thu -> thread_done thu = false ->
  exists o j sl, cur thu = Some o /\ tpc thu = WParked j sl.
Proof.
  intros u thu HU TD. destruct (dl_parked u thu HU TD) as (j & sl & PC). unfold thread_done in TD.
  destruct (nth_error (prog thu) (opi thu)) as [o|] eqn:E; [|discriminate]. exists o, j, sl. split; auto.
Qed.

Lemma xver_div_le : forall c r a b, 0 < c -> a / c <= b / c -> xver c r a <= xver c r b.
Proof. intros. unfold xver. lia. Qed.

Lemma totals : forall r, next_of s r <= zsum (fun th => sumw r (prog th)) (threads s) /\
  zsum (fun th => sumw true (prog th)) (threads s) = zsum (fun th => sumw false (prog th)) (threads s).
Proof.
  intros r. destruct dl_inv as ((_ & PR & _) & _ & A). split.
  - rewrite (A r). apply zsum_le. intros x _. apply acq_le_total.
  - rewrite !total_side, PR. unfold balanced in BAL. rewrite BAL. reflexivity.
Qed.

Lemma dl_main : forall n r b, Awaited s r b -> Z.to_nat (xver (C s) r b) = n -> False.
Proof.
  induction n as [n IHn] using lt_wf_ind. intros r b (u & thu & o & j & sl & HU & CU & RO & PC & EB) EN. subst r b.
  destruct (dl_awaited u thu o j sl HU CU PC) as (BD & LT & V0b & _ & HB). cbn zeta in *.
  set (b := seg_i (lc thu) + Z.of_nat j) in *. set (r := is_push o) in *. set (m := xver (C s) r b) in *.
  destruct dl_inv as (FI & N & A). pose proof FI as (IV & PR & KB). pose proof (C_pos s) as CP.
  (* the ticket the sleeper depends on *)
  set (d := if r then b - C s else b). set (r' := negb r).
  assert (DF : 0 <= d /\ tsl (C s) d = tsl (C s) b /\ xver (C s) r' d = m - 1).
  { unfold d, r', m, xver in *. destruct r; cbn [negb].
    - assert (1 <= b / C s) by lia. assert (C s <= b) by (rewrite (Z.div_mod b (C s)) by lia; pose proof (Z.mod_pos_bound b (C s) CP); nia).
      split. lia. split. unfold tsl. f_equal. replace (b - C s) with (b + (-1) * C s) by lia. apply Z.mod_add. lia.
      replace (b - C s) with (b + (-1) * C s) by lia. rewrite Z.div_add by lia. lia.
    - split. lia. split; auto. lia. }
  destruct DF as (D0 & DS & DX).
  assert (NP : ~ published s r' d).
  { unfold published. rewrite (sslot_same_slot s d b DS). lia. }
  (* some sleeper awaits a ticket of side r' that is not later than d *)
  assert (EXW : exists bw, Awaited s r' bw /\ 0 <= bw /\ xver (C s) r' bw <= xver (C s) r' d).
  { destruct (Z_lt_le_dec d (next_of s r')) as [ISS|UNI].
    - destruct (N r' d (conj D0 ISS)) as [P|(w & HW)]; [contradiction|].
      pose proof HW as (vw & (thw & HW1 & HW2) & ROw & IHw).
      assert (TDw : thread_done thw = false) by (unfold tv, cur in HW2; unfold thread_done; destruct (nth_error (prog thw) (opi thw)); [reflexivity|discriminate]).
      destruct (dl_unfinished_awaits w thw HW1 TDw) as (ow & jw & slw & CUw & PCw).
      assert (ROo : is_push ow = r') by (unfold tv in HW2; rewrite CUw in HW2; inversion HW2; subst vw; exact ROw).
      destruct (dl_awaited w thw ow jw slw HW1 CUw PCw) as (BDw & _ & _ & DIV & _). cbn zeta in *. rewrite ROo in *.
      exists (seg_i (lc thw) + Z.of_nat jw). split. exists w, thw, ow, jw, slw. auto. split. lia. apply xver_div_le; auto.
    - (* d has not been issued: some thread of side r' still has a call to make *)
      destruct (totals r) as [T1 TB]. destruct (totals r') as [T1' _].
      assert (LTt : next_of s r' < zsum (fun th => sumw r' (prog th)) (threads s)).
      { assert (d < zsum (fun th => sumw r (prog th)) (threads s)) by (unfold d; destruct r; lia).
        unfold r' in *. destruct r; cbn [negb] in *; lia. }
      rewrite (A r') in LTt. destruct (zsum_lt_exists _ _ _ LTt) as (thw & INw & LTw).
      destruct (proj2 (acq_le_total r' thw) LTw) as (TDw & o' & INo & ROo').
      apply In_nth_error in INw as (w & HW1).
      destruct (dl_unfinished_awaits w thw HW1 TDw) as (ow & jw & slw & CUw & PCw).
      assert (ROo : is_push ow = r').
      { unfold one_sided_threads in OS. rewrite Forall_forall in OS. specialize (OS (prog thw) ltac:(rewrite <- PR; apply in_map; eapply nth_error_In; eauto)).
        assert (INow : In ow (prog thw)) by (eapply nth_error_In; eauto).
        destruct (Bool.eqb (is_push ow) r') eqn:B. apply eqb_prop; auto. exfalso.
        assert (I1 : In o' (side_ops r' (prog thw))) by (unfold side_ops; apply filter_In; split; auto; rewrite ROo'; apply eqb_reflx).
        assert (I2 : In ow (side_ops (negb r') (prog thw))).
        { unfold side_ops. apply filter_In. split; auto. destruct (is_push ow), r'; cbn in *; auto; discriminate. }
        destruct OS as [E0|E0]; destruct r'; cbn [negb] in *; rewrite E0 in *; try destruct I1; try destruct I2. }
      destruct (dl_awaited w thw ow jw slw HW1 CUw PCw) as (BDw & _ & _ & _ & _). cbn zeta in *. rewrite ROo in *.
      exists (seg_i (lc thw) + Z.of_nat jw). split. exists w, thw, ow, jw, slw. auto. split. lia. apply xver_mono; auto. lia. }
  destruct EXW as (bw & AW & BW0 & LEw).
  pose proof (xver_nonneg (C s) r' bw CP BW0) as NNw.
  apply (IHn (Z.to_nat (xver (C s) r' bw))) with (r := r') (b := bw); auto. lia.
Qed.

Theorem dl_contradiction : all_done s = false -> False.
Proof.
  intros AD. unfold all_done in AD.
  assert (EX : exists thu, In thu (threads s) /\ thread_done thu = false).
  { clear -AD. induction (threads s) as [|a l IH]; cbn in AD. discriminate. destruct (thread_done a) eqn:E. destruct (IH AD) as (x & I1 & I2). exists x. split; auto. right; auto.
    exists a. split; auto. left; auto. }
  destruct EX as (thu & IN & TD). apply In_nth_error in IN as (u & HU).
  destruct (dl_unfinished_awaits u thu HU TD) as (o & j & sl & CU & PC).
  apply (dl_main (Z.to_nat (xver (C s) (is_push o) (seg_i (lc thu) + Z.of_nat j))) (is_push o) (seg_i (lc thu) + Z.of_nat j)); auto.
  exists u, thu, o, j, sl. auto.
Qed.
End DL.

Theorem bq_no_deadlock : forall k progs s, usage_ok k progs = true -> balanced progs -> blocking_only progs -> one_sided_threads progs ->
  Reach k progs s -> small s -> all_done s = false -> exists t, (t < length (threads s))%nat /\ step s t <> None.
Proof.
  intros k progs s U BAL BO OS R SM AD.
  destruct (existsb (fun t => match step s t with Some _ => true | None => false end) (seq 0 (length (threads s)))) eqn:EX.
  - apply existsb_exists in EX as (t & IN & ST). apply in_seq in IN. exists t. split. lia. destruct (step s t); [discriminate|discriminate ST].
  - exfalso. apply (dl_contradiction k progs s U BO OS BAL R SM); auto.
    intros u LT. destruct (step s u) eqn:ST; auto. exfalso.
    assert (existsb (fun t => match step s t with Some _ => true | None => false end) (seq 0 (length (threads s))) = true).
    { apply existsb_exists. exists u. split. apply in_seq. lia. rewrite ST. reflexivity. }
    congruence.
Qed.

Lemma bq_balanced_example :
  balanced [[OPush f111 1; OPushN f111 [2; 3]]; [OPop f111; OPopN f111 2]] /\
  blocking_only [[OPush f111 1; OPushN f111 [2; 3]]; [OPop f111; OPopN f111 2]] /\
  one_sided_threads [[OPush f111 1; OPushN f111 [2; 3]]; [OPop f111; OPopN f111 2]].
Proof.
  split. reflexivity. split.
  - unfold blocking_only, all_ops. cbn. repeat (apply Forall_cons; [cbn; auto|]). apply Forall_nil.
  - unfold one_sided_threads. repeat (apply Forall_cons; [cbn; auto|]). apply Forall_nil.
Qed.
