(* The timed exclusive batch pop (try_pop_n_exclusively_until): after its single timed wait the call is nothing but
   try_pop_n<false,...>(callback, num) - it never enters a wait again, so it can never sleep without a deadline.
   The tail of the function is regenerated from the source (Gen.until_try_num: the statement right after the timed
   wait must be "return try_pop_n<false, USE_FUTEX_WAKE>(callback, num);" and the last one of the body). *)
From Coq Require Import ZArith List Bool Lia.
Require Import Verif.Base.Atomics Verif.Gen.Gen_bounded_queue Verif.BQ.BQModel Verif.BQ.BQProofs.
Import ListNotations.
Local Open Scope Z_scope.

(* pcs of the wait (and the not-yet-started call) *)
Definition until_tail (p : pc) : Prop :=
  match p with
  | Idle | TkStore _ | WLoad _ | WCas _ _ | WFutex _ _ | WParked _ _ | WReload _ | WSleep _ | WSpin _ => False
  | _ => True
  end.

Definition tail_or_done (th th' : thread) : Prop :=
  (opi th' = opi th /\ until_tail (tpc th')) \/ (opi th' = S (opi th) /\ tpc th' = Idle).

(* the stepping thread is replaced by th' (other threads may have been woken, the list keeps its length) *)
Definition lands (s : st) (t : nat) (th : thread) (s' : st) : Prop :=
  exists X th', s' = upd X t th' /\ length (threads X) = length (threads s) /\ tail_or_done th th'.

Lemma lands_upd : forall s t th X th', length (threads X) = length (threads s) -> tail_or_done th th' ->
  lands s t th (upd X t th').
Proof. intros. exists X, th'. auto. Qed.

Lemma tod_goto : forall th p, until_tail p -> tail_or_done th (goto th p).
Proof. intros. left. split; [reflexivity | exact H]. Qed.
Lemma tod_goto_lc : forall th p l, until_tail p -> tail_or_done th (goto_lc th p l).
Proof. intros. left. split; [reflexivity | exact H]. Qed.
Lemma tod_finish : forall th r, tail_or_done th (finish_op th r).
Proof. intros. right. split; reflexivity. Qed.

Lemma lands_end_segment : forall s t th o X thx, okind o = KUntil -> length (threads X) = length (threads s) ->
  opi thx = opi th -> lands s t th (end_segment X t thx o).
Proof.
  intros s t th o X thx KU L OP. unfold end_segment. rewrite KU.
  destruct (rest (add_cnt (lc thx))) as [[i2 n2]|].
  - destruct (try_short _ _ _).
    + apply lands_upd; auto. right. split; [cbn; congruence | reflexivity].
    + apply lands_upd; auto. left. split; [cbn; congruence | ]. cbn [tpc goto_lc]. destruct (Nat.ltb 0 n2); exact I.
  - apply lands_upd; auto. right. split; [cbn; congruence | reflexivity].
Qed.

Lemma wake_all_length : forall s sl, length (threads (wake_all s sl)) = length (threads s).
Proof. intros. unfold wake_all. cbn. apply map_length. Qed.

Lemma timed_kind : forall o, is_timed o = true -> okind o = KUntil /\ is_single o = false /\ oconc o = false.
Proof. intros o H. destruct o; cbn in H; try discriminate. repeat split. Qed.

Lemma step_thread_tail : forall s t th o s', is_timed o = true -> until_tail (tpc th) ->
  step_thread s t th o = Some s' -> lands s t th s'.
Proof.
  intros s t th o s' TM TL H. destruct (timed_kind o TM) as (KU & SG & CC).
  unfold step_thread in H. cbv zeta in H. rewrite ?SG in H.
  destruct (tpc th) eqn:E; try (exfalso; exact TL).
  Ltac fin := first [ apply lands_upd; [ try reflexivity; cbn; try rewrite length_set_nth; auto
                                       | first [ apply tod_goto; cbn; auto | apply tod_goto_lc; cbn; auto | apply tod_finish ] ] ].
  - (* FenceA *) inv H. fin.
  - (* Callback *)
    destruct (is_push o).
    + destruct (cb_push _ _ _ _ _ _ _) as [[sls ps] e]. inv H. fin.
    + destruct (cb_pop _ _ _ _ _ _ _ _) as [[[sls ds] g] e]. inv H. fin.
  - (* FenceR *)
    brk H; inv H; try fin. unfold after_pubs. destruct (fwake (oflags o)); [fin | apply lands_end_segment; auto].
  - (* Pub *)
    destruct (Nat.ltb (S j) (seg_n (lc th))); inv H.
    + fin.
    + unfold after_pubs. destruct (fwake (oflags o)).
      * fin.
      * apply lands_end_segment; auto.
  - (* PubWake *) inv H. apply lands_end_segment; auto. apply wake_all_length.
  - (* FenceSC *) brk H; inv H; try fin. apply lands_end_segment; auto.
  - (* WkLoad *)
    brk H; inv H; try fin; unfold next_wk; destruct (Nat.ltb _ _); try fin; apply lands_end_segment; auto.
  - (* WkCas *)
    destruct (Z.eqb _ _); inv H; try fin. unfold next_wk; destruct (Nat.ltb _ _); try fin; apply lands_end_segment; auto.
  - (* WkWake *)
    inv H. unfold next_wk; destruct (Nat.ltb _ _).
    + apply lands_upd; [apply wake_all_length | apply tod_goto; exact I].
    + apply lands_end_segment; auto. apply wake_all_length.
  - (* TryVer *) brk H; inv H; fin.
  - (* TryReidx *) brk H; inv H; fin.
  - (* TryCas *) brk H; inv H; fin.
  - (* TnVer *)
    brk H; inv H; try fin. unfold end_segment_zero. apply lands_end_segment; auto.
  - (* TnCas *)
    brk H; inv H; try fin; unfold end_segment_zero; apply lands_end_segment; auto.
  - (* TnIdx *)
    destruct (split _ _ _ _) as [[i1 n1] r]. inv H. apply lands_upd; auto. apply tod_goto_lc. destruct (Nat.ltb 0 n1); exact I.
Qed.

(* once the timed wait is over the call runs to its return without ever waiting again *)
Theorem bq_timed_pop_tail : forall s t s' th o th', step s t = Some s' -> nth_error (threads s) t = Some th ->
  nth_error (prog th) (opi th) = Some o -> is_timed o = true -> until_tail (tpc th) ->
  nth_error (threads s') t = Some th' -> tail_or_done th th'.
Proof.
  intros s t s' th o th' ST HT HO TM TL HT'. unfold step in ST. rewrite HT, HO in ST.
  destruct (step_thread_tail s t th o s' TM TL ST) as (X & thx & -> & L & TD).
  cbn in HT'. rewrite nth_error_set_nth_eq in HT'.
  - inv HT'. exact TD.
  - rewrite L. eapply nth_error_lt; eauto.
Qed.

(* and the wait itself hands over to that tail: the timed wait is one slot, then the index load of try_pop_n<false> *)
Theorem bq_timed_wait_then_tail : forall o l j, is_timed o = true -> after_wait o l j = TnIdx.
Proof. intros o l j H. unfold after_wait. rewrite H. reflexivity. Qed.

(* the inner call gets the caller's num *)
Theorem bq_until_try_num : forall n, until_try_num n = n.
Proof. reflexivity. Qed.
