(* Store-buffer (TSO) half of "no lost wakeup" for the bounded queue: the waker / waiter skeletons of coq/WM/Litmus.v
   instantiated with the fences regenerated from bounded_queue.hpp. *)
From Coq Require Import ZArith List Bool.
Require Import Verif.Base.Atomics Verif.Gen.Gen_bounded_queue Verif.WM.TSO Verif.WM.Litmus Verif.WM.LitmusProofs.
Import ListNotations.

(* the fence between the 16-bit version stores and the wakeup_waiters loads: present in the skeleton iff it is seq_cst *)
Definition deal_n_fence_is_seq_cst : bool :=
  match sites_deal_n with [_; _; (KFence, o, _)] => is_seq_cst o | _ => false end.
Definition try_deal_n_fence_is_seq_cst : bool :=
  match sites_try_deal_n with [_; _; _; _; (KFence, o, _)] => is_seq_cst o | _ => false end.
(* the single-element waker is one read-modify-write of the whole word *)
Definition xchg_waker_is_rmw : bool :=
  match sites_xchg with [(KXchg, _, _)] => true | _ => false end.

Lemma bq_wake_batch_tso : forall sch,
  (final (run (init [waker deal_n_fence_is_seq_cst; waiter]) sch) = true ->
   lost_wakeup (result (run (init [waker deal_n_fence_is_seq_cst; waiter]) sch)) = false) /\
  (final (run (init [waker try_deal_n_fence_is_seq_cst; waiter]) sch) = true ->
   lost_wakeup (result (run (init [waker try_deal_n_fence_is_seq_cst; waiter]) sch)) = false).
Proof.
  intros sch. split; apply batch_wake_all_executions; vm_compute; reflexivity.
Qed.

Lemma bq_wake_single_tso : xchg_waker_is_rmw = true /\
  forall sch, final (run (init [xchg_waker; waiter]) sch) = true ->
              xchg_lost (result (run (init [xchg_waker; waiter]) sch)) = false.
Proof. split. vm_compute. reflexivity. exact xchg_wake_all_executions. Qed.
