(* DEFINITIONS ONLY (always compiles, also when the source orders were weakened).
   Publication of a queue slot ("the consumer sees every write the producer made", no data race on the
   payload) on the release/acquire view machine (coq/WM/RA.v), for every pairing of the queue's publish paths
   (single: release store / release exchange of the version; batch: release fence + relaxed version stores)
   with its observe paths (single: acquire version load; batch / try_n: relaxed loads + acquire fence), with the
   memory orders regenerated from bounded_queue.hpp (Gen_bounded_queue_orders). *)
From Coq Require Import ZArith List Bool.
Require Import Verif.Base.Atomics Verif.Gen.Gen_bounded_queue_orders.
Require Import Verif.WM.RA Verif.WM.RALitmus.
Import ListNotations.

Definition order_of_code (z : Z) : morder :=
  if Z.eqb z 0 then Relaxed else if Z.eqb z 1 then Acquire else if Z.eqb z 2 then Acquire
  else if Z.eqb z 3 then Release else if Z.eqb z 4 then AcqRel else SeqCst.

Definition fence_order (tbl : list (akind * morder * morder)) (want_release : bool) : option morder :=
  match filter (fun e => match e with (KFence, o, _) => if want_release then has_release o && negb (has_acquire o)
                                                     else has_acquire o && negb (has_release o)
                                    | _ => false end) tbl with
  | (_, o, _) :: _ => Some o
  | [] => None
  end.

(* producer: payload := 42; [fence pf]; version.store/exchange(1, o_st)
   consumer: r0 := version.load(o_ld); [fence cf]; if r0 = 1 then r1 := payload *)
Definition mp_general (pf : option morder) (xchg : bool) (o_st o_ld : morder) (cf : option morder) : list (list instr) :=
  [ [IWna 1 42] ++ (match pf with Some o => [IFence o] | None => [] end) ++
      [if xchg then IXchg 0 0 1 o_st else ISt 0 1 o_st];
    [ILd 0 0 o_ld] ++ (match cf with Some o => [IFence o] | None => [] end) ++ [IJmpIfNot 0 1 1; IRna 1 1] ].
Definition mp_general_safe pf xchg o_st o_ld cf : bool :=
  forallb (fun o => negb (mp_bad o)) (outcomes (mp_general pf xchg o_st o_ld cf)).

(* the paths of the queue, orders from the source.  A path's access uses either a literal order or the `order`
   parameter handed down by its caller (code 100): `eff caller site` resolves that. *)
Definition eff (caller site : Z) : morder := if Z.eqb site 100 then order_of_code caller else order_of_code site.

Definition single_store := eff deal_store_order set_version_order.
Definition single_xchg := order_of_code xchg_order.
(* single push/pop observe the version through the fast-path load, the spin slow path's polling load, and the
   futex slow path's reload and waiter-registration CAS: each must carry the caller's order *)
Definition single_load := eff deal_wait_order fast_load_order.
Definition single_spin_load := eff deal_wait_order spin_load_order.
Definition single_block_reload := eff deal_wait_order block_reload_order.
Definition single_block_cas := eff deal_wait_order block_cas_order.
Definition try_load := eff try_deal_check_order version_getter_order.
Definition try_store := eff try_deal_store_order set_version_order.
Definition batch_store := eff deal_n_store_order set_version_order.
Definition batch_load := eff deal_n_wait_order fast_load_order.
Definition batch_spin_load := eff deal_n_wait_order spin_load_order.
Definition batch_block_reload := eff deal_n_wait_order block_reload_order.
Definition batch_rel_fence := fence_order osites_deal_n true.
Definition batch_acq_fence := fence_order osites_deal_n false.
Definition tryn_store := eff try_deal_n_store_order set_version_order.
Definition tryn_load := eff try_deal_n_check_order version_getter_order.
Definition tryn_rel_fence := fence_order osites_try_deal_n true.
Definition tryn_acq_fence := fence_order osites_try_deal_n false.

(* every publish path x every observe path *)
Definition publishers : list (option morder * bool * morder) :=
  [ (None, false, single_store); (None, true, single_xchg); (None, false, try_store); (None, true, single_xchg);
    (batch_rel_fence, false, batch_store); (tryn_rel_fence, false, tryn_store) ].
Definition observers : list (morder * option morder) :=
  [ (single_load, None); (single_spin_load, None); (single_block_reload, None); (single_block_cas, None);
    (try_load, None);
    (batch_load, batch_acq_fence); (batch_spin_load, batch_acq_fence); (batch_block_reload, batch_acq_fence);
    (tryn_load, tryn_acq_fence) ].
Definition all_pairs_safe : bool :=
  forallb (fun p => forallb (fun c => mp_general_safe (fst (fst p)) (snd (fst p)) (snd p) (fst c) (snd c)) observers) publishers.

(* for the search of the check: the program of the first publish/observe pairing that is not safe *)
Definition bad_pair_prog : list (list instr) :=
  match filter (fun pc => negb (mp_general_safe (fst (fst (fst pc))) (snd (fst (fst pc))) (snd (fst pc)) (fst (snd pc)) (snd (snd pc))))
               (list_prod publishers observers) with
  | (p, c) :: _ => mp_general (fst (fst p)) (snd (fst p)) (snd p) (fst c) (snd c)
  | [] => []
  end.
