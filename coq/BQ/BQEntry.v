(* Public entry points of the bounded queue: every overload, called with flags satisfying entry_ok, runs exactly the core
   operation the client wrote (the forwarded template-argument lists are regenerated from the source: the fw_ definitions of Gen), so the
   theorems about usage_ok programs hold for programs written against any mix of the public overloads. *)
From Coq Require Import ZArith List Bool Lia.
Require Import Verif.Base.Atomics Verif.Gen.Gen_bounded_queue Verif.Conc.Machine Verif.BQ.BQModel Verif.BQ.BQProofs.
Import ListNotations.
Local Open Scope Z_scope.

Lemma bq_cores_ok : cores_ok = true.
Proof. vm_compute. reflexivity. Qed.

Lemma bq_lower_faithful : forall c, entry_ok c = true -> lower c = c_op c.
Proof.
  intros [e o] H. unfold lower. unfold entry_ok in H. cbn [c_op c_entry] in *.
  destruct e; destruct o as [f v|f|f v|f|f vs|f n|f vs|f n|f n tm]; destruct f as [[] [] []];
    try discriminate H; reflexivity.
Qed.

Lemma bq_lower_progs : forall cp, calls_ok cp = true -> lower_progs cp = declared cp.
Proof.
  intros cp H. unfold lower_progs, declared, calls_ok in *. rewrite forallb_forall in H.
  apply map_ext_in. intros th IN. specialize (H th IN). rewrite forallb_forall in H.
  apply map_ext_in. intros c IC. apply bq_lower_faithful. apply H. exact IC.
Qed.

(* what the machine runs for a client program is the program as written *)
Theorem bq_client_reach : forall k cp s, calls_ok cp = true -> Reach k (lower_progs cp) s -> Reach k (declared cp) s.
Proof. intros k cp s H R. rewrite bq_lower_progs in R; auto. Qed.

Theorem bq_client_usage : forall k cp, calls_ok cp = true -> usage_ok k (declared cp) = true -> usage_ok k (lower_progs cp) = true.
Proof. intros k cp H U. rewrite bq_lower_progs; auto. Qed.
