(* Public entry points of the bounded queue: every overload, called with flags satisfying entry_ok, runs exactly the core
   operation the client wrote (the forwarded template-argument lists are regenerated from the source: the fw_ definitions of Gen), so the
   theorems about usage_ok programs hold for programs written against any mix of the public overloads. *)
From Coq Require Import ZArith List Bool Lia.
Require Import Verif.Base.Atomics Verif.Gen.Gen_bounded_queue Verif.Conc.Machine Verif.BQ.BQModel Verif.BQ.BQProofs.
Require Import Verif.BQ.BQInvDefs Verif.BQ.BQInvStep Verif.BQ.BQInvMain Verif.BQ.BQInvThm Verif.BQ.BQWake Verif.BQ.BQTry Verif.BQ.BQDead.
Import ListNotations.
Local Open Scope Z_scope.

Lemma bq_cores_ok : cores_ok = true.
Proof. vm_compute. reflexivity. Qed.

Lemma bq_lower_faithful : forall c, entry_ok c = true -> lower c = c_op c.
Proof.
  intros [e o] H. unfold lower. unfold entry_ok in H. cbn [c_op c_entry] in *.
  destruct e; destruct o as [f v|f|f v|f|f vs|f n|f vs|f n|f n tm]; destruct f as [[] [] []];
    try discriminate H; reflexivity.
Qed.

Lemma bq_lower_progs : forall cp, calls_ok cp = true -> lower_progs cp = declared cp.
Proof.
  intros cp H. unfold lower_progs, declared, calls_ok in *. rewrite forallb_forall in H.
  apply map_ext_in. intros th IN. specialize (H th IN). rewrite forallb_forall in H.
  apply map_ext_in. intros c IC. apply bq_lower_faithful. apply H. exact IC.
Qed.

(* what the machine runs for a client program is the program as written *)
Theorem bq_client_reach : forall k cp s, calls_ok cp = true -> Reach k (lower_progs cp) s -> Reach k (declared cp) s.
Proof. intros k cp s H R. rewrite bq_lower_progs in R; auto. Qed.

Theorem bq_client_usage : forall k cp, calls_ok cp = true -> usage_ok k (declared cp) = true -> usage_ok k (lower_progs cp) = true.
Proof. intros k cp H U. rewrite bq_lower_progs; auto. Qed.

(* the schedule-quantified theorems for client programs written against the public overloads *)
Theorem bq_client_no_lost_wakeup : forall k cp s, calls_ok cp = true -> usage_ok k (declared cp) = true ->
  Reach k (lower_progs cp) s -> small s ->
  forall t th sl x, nth_error (threads s) t = Some th -> parkedOn s th sl x -> ver (get_slot s sl) = x ->
  waker_on_its_way s sl x.
Proof. intros k cp s C U R. exact (bq_no_lost_wakeup k (declared cp) s U (bq_client_reach k cp s C R)). Qed.

Theorem bq_client_no_deadlock : forall k cp s, calls_ok cp = true -> usage_ok k (declared cp) = true ->
  balanced (declared cp) -> blocking_only (declared cp) -> one_sided_threads (declared cp) ->
  Reach k (lower_progs cp) s -> small s -> all_done s = false -> exists t, (t < length (threads s))%nat /\ step s t <> None.
Proof. intros k cp s C U B BO OS R. exact (bq_no_deadlock k (declared cp) s U B BO OS (bq_client_reach k cp s C R)). Qed.

Theorem bq_client_exclusive : forall k cp s, calls_ok cp = true -> usage_ok k (declared cp) = true ->
  Reach k (lower_progs cp) s -> err s = false.
Proof. intros k cp s C U R. exact (bq_exclusive k (declared cp) s U (bq_client_reach k cp s C R)). Qed.

Theorem bq_client_exactly_once : forall k cp s, calls_ok cp = true -> usage_ok k (declared cp) = true ->
  Reach k (lower_progs cp) s ->
  (forall i v, In (i, v) (delivered s) -> In (i, v) (pushed s)) /\ NoDup (map fst (delivered s)) /\ NoDup (map fst (pushed s)) /\
  (all_done s = true -> forall i v, In (i, v) (pushed s) -> In (i, v) (delivered s) \/
     pay (get_slot s (Z.to_nat (i mod 2 ^ Z.of_nat k))) = Some v).
Proof. intros k cp s C U R. exact (bq_exactly_once_full k (declared cp) s U (bq_client_reach k cp s C R)). Qed.

(* non-vacuity: the documented asymmetric pairing through the iterator / value overloads *)
Example bq_client_example :
  let spinwake := {| conc := true; fwait := false; fwake := true |} in
  let sleeper := {| conc := true; fwait := true; fwake := false |} in
  let cp := [[{| c_entry := EnIt; c_op := OPushN spinwake [1; 2] |}];
             [{| c_entry := EnVal; c_op := OPop sleeper |}; {| c_entry := EnPtr; c_op := OPop sleeper |}]] in
  calls_ok cp = true /\ usage_ok 1 (declared cp) = true /\ lower_progs cp = declared cp.
Proof. cbv zeta. repeat split; reflexivity. Qed.

(* swap (= move construction / move assignment) exchanges the two queues member by member: the destination becomes exactly
   the source, indices included, so it holds the elements the source held *)
Theorem bq_swap_exchanges : forall this other, swap_this this other = other /\ swap_other this other = this.
Proof. intros [s1 m1 b1 p1 q1] [s2 m2 b2 p2 q2]. split; reflexivity. Qed.
