(* Ticket-interval invariant of BQModel: what one step does, as one of five kinds of event. *)
From Coq Require Import ZArith List Bool Lia.
Require Import Verif.Base.Atomics Verif.Gen.Gen_bounded_queue Verif.Conc.Machine Verif.BQ.BQModel Verif.BQ.BQProofs.
Require Import Verif.BQ.BQInvDefs.
Import ListNotations.
Local Open Scope Z_scope.

Definition same_core (s s' : st) : Prop :=
  npush s' = npush s /\ npop s' = npop s /\ pushed s' = pushed s /\ delivered s' = delivered s /\ err s' = err s /\
  (forall sl, cs (nth sl (slots s') slot0) = cs (nth sl (slots s) slot0)).

Definition loc_ok (s' : st) (v : view) (th' : thread) : Prop :=
  match tv th' with
  | None => forall i, ~ vown v i
  | Some v' => tfacts s' v' /\ (forall i, inhold v' i -> inhold v i /\ vrole v' = vrole v) /\
               (forall i, vown v' i -> vown v i /\ vrole v' = vrole v) /\ (forall i, vown v i -> vown v' i)
  end.

Definition pub_ok (s' : st) (v : view) (i0 : Z) (th' : thread) : Prop :=
  match tv th' with
  | None => forall i, vown v i -> i = i0
  | Some v' => linv s' v' /\ (forall i, vknown v' i -> vknown v i /\ i <> i0 /\ vrole v' = vrole v) /\ (forall i, ~ vtry v' i) /\
               (forall i, inhold v' i -> inhold v i /\ i <> i0 /\ vrole v' = vrole v) /\
               (forall i, vown v' i -> vown v i /\ i <> i0 /\ vrole v' = vrole v) /\ (forall i, vown v i -> i = i0 \/ vown v' i)
  end.

Inductive sum (s : st) (t : nat) (th : thread) (o : op) (v : view) (s' : st) : Prop :=
| SLoc th' : nth_error (threads s') t = Some th' -> others s s' t -> frame s s' -> same_core s s' -> loc_ok s' v th' ->
    sum s t th o v s'
| SAcq th' n v' : nth_error (threads s') t = Some th' -> others s s' t -> frame s s' ->
    next_of s' (is_push o) = next_of s (is_push o) + Z.of_nat n -> next_of s' (negb (is_push o)) = next_of s (negb (is_push o)) ->
    pushed s' = pushed s -> delivered s' = delivered s -> err s' = err s ->
    (forall sl, cs (nth sl (slots s') slot0) = cs (nth sl (slots s) slot0)) ->
    (forall i, ~ inhold v i) -> (forall i, ~ vown v i) ->
    tv th' = Some v' -> vrole v' = is_push o -> tfacts s' v' ->
    (forall i, inhold v' i -> next_of s (is_push o) <= i < next_of s (is_push o) + Z.of_nat n) -> (forall i, ~ vown v' i) ->
    sum s t th o v s'
| SCb th' v' : nth_error (threads s') t = Some th' -> others s s' t -> frame s s' ->
    npush s' = npush s -> npop s' = npop s -> v_ph v = PReady ->
    tv th' = Some v' -> v_op v' = o -> (v_ph v' = PCb \/ v_ph v' = POwn 0) -> seg_i (v_l v') = seg_i (lc th) -> seg_n (v_l v') = seg_n (lc th) ->
    seg_end o (v_l v') = seg_end o (lc th) -> linv s' v' ->
    (if is_push o
     then cb_push t (slots s) (tsl (C s) (seg_i (lc th))) (seg_i (lc th)) (firstn (seg_n (lc th)) (vals (lc th))) (pushed s) (err s)
            = (slots s', pushed s', err s') /\ delivered s' = delivered s /\
          length (firstn (seg_n (lc th)) (vals (lc th))) = seg_n (lc th)
     else exists g, cb_pop t (slots s) (tsl (C s) (seg_i (lc th))) (seg_i (lc th)) (seg_n (lc th)) (delivered s) (got (lc th)) (err s)
            = (slots s', delivered s', g, err s') /\ pushed s' = pushed s) ->
    sum s t th o v s'
| SPub th' j : nth_error (threads s') t = Some th' -> others s s' t -> frame s s' ->
    npush s' = npush s -> npop s' = npop s -> pushed s' = pushed s -> delivered s' = delivered s -> err s' = err s ->
    v_ph v = POwn j ->
    cs (nth (tsl (C s) (seg_i (lc th) + Z.of_nat j)) (slots s') slot0) =
      (xver (C s) (is_push o) (seg_i (lc th) + Z.of_nat j) + 1, pay (sslot s (seg_i (lc th) + Z.of_nat j)), None) ->
    (forall sl, sl <> tsl (C s) (seg_i (lc th) + Z.of_nat j) -> cs (nth sl (slots s') slot0) = cs (nth sl (slots s) slot0)) ->
    pub_ok s' v (seg_i (lc th) + Z.of_nat j) th' ->
    sum s t th o v s'.

Lemma cb_push_length : forall vs t sls base i ps e, length (fst (fst (cb_push t sls base i vs ps e))) = length sls.
Proof. induction vs as [|x vs IH]; intros; cbn [cb_push]; auto. rewrite IH. apply length_set_nth. Qed.
Lemma cb_pop_length : forall n t sls base i ds g e, length (fst (fst (fst (cb_pop t sls base i n ds g e)))) = length sls.
Proof. induction n as [|n IH]; intros; cbn [cb_pop]; auto. rewrite IH. apply length_set_nth. Qed.

Lemma ovals_len : forall o, is_push o = true -> length (ovals o) = onum o.
Proof. destruct o; cbn; intros; try discriminate; auto. Qed.

Lemma seg_slot_eq : forall s o l j, 0 <= seg_i l -> seg_i l mod C s + Z.of_nat j < C s ->
  seg_slot s o l j = tsl (C s) (seg_i l + Z.of_nat j).
Proof.
  intros. unfold seg_slot. rewrite slot_z_mod. rewrite tsl_round; auto. apply C_pos.
Qed.

Section Step.
Variables (s : st) (t : nat) (th : thread) (o : op).
Hypothesis HT : nth_error (threads s) t = Some th.
Hypothesis HO : cur th = Some o.
Hypothesis HLEN : length (slots s) = Z.to_nat (C s).
Hypothesis HSZ : Z.of_nat (onum o) <= C s.
Hypothesis HNN : forall r, 0 <= next_of s r.
Let v := {| v_op := o; v_ph := phase_of o (tpc th) (lc th); v_l := lc th |}.
Hypothesis TF : tfacts s v.

Lemma t_lt : (t < length (threads s))%nat.
Proof. eapply nth_error_lt; eauto. Qed.

Lemma nth_upd : forall X th', threads X = threads s -> nth_error (threads (upd X t th')) t = Some th'.
Proof. intros X th' E. cbn. rewrite E. apply nth_error_set_nth_eq. apply t_lt. Qed.
Lemma nth_upd_wake : forall X th' sl, threads X = map (wake_thread sl) (threads s) -> nth_error (threads (upd X t th')) t = Some th'.
Proof. intros X th' sl E. cbn. rewrite E. apply nth_error_set_nth_eq. rewrite map_length. apply t_lt. Qed.
Lemma frame_upd : forall X th', threads X = threads s -> kbits X = kbits s -> length (slots X) = length (slots s) ->
  prog th' = prog th -> frame s (upd X t th').
Proof.
  intros X th' E K L P. constructor; cbn; auto. rewrite E. eapply map_prog_set_nth; eauto.
Qed.
Lemma frame_upd_wake : forall X th' sl, threads X = map (wake_thread sl) (threads s) -> kbits X = kbits s ->
  length (slots X) = length (slots s) -> prog th' = prog th -> frame s (upd X t th').
Proof.
  intros X th' sl E K L P. constructor; cbn; auto. rewrite E.
  rewrite (map_prog_set_nth _ t (wake_thread sl th) th').
  - apply map_prog_wake.
  - rewrite nth_error_map, HT. reflexivity.
  - rewrite P. symmetry. apply tv_wake.
Qed.

(* tfacts only looks at tickets, capacity and slots *)
Lemma tfacts_ext : forall X v', next_of X true = next_of s true -> next_of X false = next_of s false -> kbits X = kbits s ->
  (forall sl, ver (nth sl (slots X) slot0) = ver (nth sl (slots s) slot0)) -> tfacts s v' -> tfacts X v'.
Proof.
  intros X v' N1 N2 K SL (L & KN & TR).
  assert (CC : C X = C s) by (unfold C; rewrite K; reflexivity).
  assert (NX : forall r, next_of X r = next_of s r) by (intros []; auto).
  assert (SV : forall i, ver (sslot X i) = ver (sslot s i)) by (intros; unfold sslot; rewrite CC; apply SL).
  split; [|split].
  - unfold linv, hcommon in *. rewrite CC. rewrite !NX. exact L.
  - intros i Hi. rewrite SV, CC. auto.
  - intros i Hi Hc. rewrite SV, CC. apply TR; auto. unfold trycond in *. rewrite NX in Hc. exact Hc.
Qed.

Lemma tv_goto_lc : forall p l, tv (goto_lc th p l) = Some {| v_op := o; v_ph := phase_of o p l; v_l := l |}.
Proof. intros. unfold tv, cur in *. cbn. rewrite HO. reflexivity. Qed.
Lemma tv_goto : forall p, tv (goto th p) = Some {| v_op := o; v_ph := phase_of o p (lc th); v_l := lc th |}.
Proof. intros. unfold tv, cur in *. cbn. rewrite HO. reflexivity. Qed.
Lemma tv_finish : forall r, tv (finish_op th r) =
  match nth_error (prog th) (S (opi th)) with Some o' => Some {| v_op := o'; v_ph := PIdle; v_l := loc0 |} | None => None end.
Proof. intros. unfold tv, cur. cbn. destruct (nth_error (prog th) (S (opi th))); reflexivity. Qed.

Definition leq (l l' : loc) : Prop :=
  seg_i l' = seg_i l /\ seg_n l' = seg_n l /\ seg_req l' = seg_req l /\ rest l' = rest l /\ vals l' = vals l.
Lemma leq_refl : forall l, leq l l.
Proof. intros. repeat split. Qed.

(* X : a state with the same tickets, capacity and slot versions as s *)
Definition vsame (X : st) : Prop :=
  next_of X true = next_of s true /\ next_of X false = next_of s false /\ kbits X = kbits s /\
  (forall sl, ver (nth sl (slots X) slot0) = ver (nth sl (slots s) slot0)).
Lemma vsame_refl : vsame s.
Proof. repeat split. Qed.
Lemma vsame_upd : forall X th', vsame X -> vsame (upd X t th').
Proof. intros X th' H. exact H. Qed.

Lemma loc_ok_finish : forall X r, (forall i, ~ vown v i) -> loc_ok X v (finish_op th r).
Proof.
  intros X r NO. unfold loc_ok. rewrite tv_finish. destruct (nth_error (prog th) (S (opi th))); auto.
  unfold tfacts, linv, vknown, vtry, inhold, vown. cbn. repeat split; try tauto; try (intros i H; exact (NO i H)).
Qed.

Lemma loc_ok_idle : forall X p l, phase_of o p l = PIdle -> (forall i, ~ vown v i) -> loc_ok X v (goto_lc th p l).
Proof.
  intros X p l E NO. unfold loc_ok. rewrite tv_goto_lc. rewrite E.
  unfold tfacts, linv, vknown, vtry, inhold, vown. cbn. repeat split; try tauto; try (intros i H; exact (NO i H)).
Qed.

Lemma loc_ok_unt : forall X p l, phase_of o p l = PUnt -> is_timed o = true -> (forall i, ~ vown v i) -> loc_ok X v (goto_lc th p l).
Proof.
  intros X p l E TM NO. unfold loc_ok. rewrite tv_goto_lc. rewrite E.
  unfold tfacts, linv, vknown, vtry, inhold, vown. cbn. repeat split; try tauto; try (intros i H; exact (NO i H)).
Qed.

Lemma loc_ok_same : forall X p l, vsame X -> phase_of o p l = phase_of o (tpc th) (lc th) -> leq (lc th) l ->
  loc_ok X v (goto_lc th p l).
Proof.
  intros X p l VS E (E1 & E2 & E3 & E4 & E5). unfold loc_ok. rewrite tv_goto_lc. rewrite E.
  destruct VS as (N1 & N2 & K & SL). pose proof (tfacts_ext X v N1 N2 K SL TF) as TF'.
  set (v' := {| v_op := o; v_ph := phase_of o (tpc th) (lc th); v_l := l |}).
  assert (EQ : forall i, (inhold v' i <-> inhold v i) /\ (vknown v' i <-> vknown v i) /\ (vown v' i <-> vown v i) /\ (vtry v' i <-> vtry v i)).
  { intros i. unfold inhold, vknown, vown, vtry, seg_end. cbn. rewrite E1, E2, E4. repeat split; auto. }
  assert (LV : linv X v' <-> linv X v).
  { unfold linv, hcommon, segok, seg_end, valsok, restn. cbn. rewrite E1, E2, E3, E4, E5. tauto. }
  split; [|split; [|split]].
  - destruct TF' as (L & KN & TR). split; [|split].
    + apply LV. exact L.
    + intros i Hi. apply (KN i). apply EQ. exact Hi.
    + intros i Hi Hc. apply (TR i). apply EQ. exact Hi. exact Hc.
  - intros i Hi. split; auto. apply EQ. exact Hi.
  - intros i Hi. split; auto. apply EQ. exact Hi.
  - intros i Hi. apply EQ. exact Hi.
Qed.

Lemma loc_ok_same_pc : forall X p, vsame X -> phase_of o p (lc th) = phase_of o (tpc th) (lc th) -> loc_ok X v (goto th p).
Proof. intros. apply (loc_ok_same X p (lc th)); auto. apply leq_refl. Qed.

(* generic constructor for local moves to goto_lc th p l on a state X that differs from s only in waiter bits / threads *)
Definition csame (X : st) : Prop :=
  kbits X = kbits s /\ npush X = npush s /\ npop X = npop s /\ pushed X = pushed s /\ delivered X = delivered s /\ err X = err s /\
  length (slots X) = length (slots s) /\ (forall sl, cs (nth sl (slots X) slot0) = cs (nth sl (slots s) slot0)).
Lemma csame_refl : csame s.
Proof. repeat split. Qed.
Lemma csame_vsame : forall X, csame X -> vsame X.
Proof.
  intros X (K & N1 & N2 & _ & _ & _ & _ & SL). repeat split; auto. intros sl. specialize (SL sl). unfold cs in SL. congruence.
Qed.
Lemma csame_set_wf : forall sl x w, x = get_slot s sl ->
  csame (set_slot s sl {| ver := ver x; wf := w; pay := pay x; own := own x |}).
Proof.
  intros sl x w ->. unfold csame, set_slot. cbn. repeat split; auto. apply length_set_nth.
  intros sl'. destruct (Nat.eq_dec sl sl') as [->|N].
  - destruct (Nat.lt_ge_cases sl' (length (slots s))).
    + rewrite nth_set_nth_eq by auto. reflexivity.
    + rewrite !nth_overflow; auto. rewrite length_set_nth. lia.
  - rewrite nth_set_nth_neq; auto.
Qed.

Lemma sum_loc : forall X th', csame X -> threads X = threads s -> prog th' = prog th -> loc_ok X v th' ->
  sum s t th o v (upd X t th').
Proof.
  intros X th' (K & N1 & N2 & P & D & E & L & SL) TH PR LO. eapply SLoc with (th' := th'); auto.
  - apply nth_upd; auto.
  - apply others_upd; auto.
  - apply frame_upd; auto.
  - repeat split; auto.
Qed.
Lemma sum_loc_wake : forall X th' sl, csame X -> threads X = map (wake_thread sl) (threads s) -> prog th' = prog th ->
  loc_ok X v th' -> sum s t th o v (upd X t th').
Proof.
  intros X th' sl (K & N1 & N2 & P & D & E & L & SL) TH PR LO. eapply SLoc with (th' := th'); auto.
  - eapply nth_upd_wake; eauto.
  - eapply others_upd_wake; eauto.
  - eapply frame_upd_wake; eauto.
  - repeat split; auto.
Qed.

Ltac fin := unfold valsok in *; repeat split; intros;
  repeat match goal with H : ?a = ?b -> _, H' : ?a = ?b |- _ => specialize (H H') end;
  try tauto; try congruence; try lia.

Lemma kind_facts : (okind o = KBatch -> is_timed o = false /\ is_single o = false) /\
  (okind o = KSingle -> is_timed o = false /\ is_single o = true /\ onum o = 1%nat) /\
  (okind o = KTry -> is_timed o = false /\ is_single o = true /\ onum o = 1%nat) /\
  (okind o = KTryN -> is_timed o = false /\ is_single o = false) /\
  (okind o = KUntil -> is_timed o = true /\ is_single o = false /\ is_push o = false /\ oconc o = false).
Proof. destruct o; cbn; repeat split; intros; try discriminate; auto. Qed.

Lemma single_onum : is_single o = true -> onum o = 1%nat.
Proof. destruct o; cbn; intros; try discriminate; auto. Qed.

Lemma tv_goto_lc1 : forall th1 p l, prog th1 = prog th -> opi th1 = opi th ->
  tv (goto_lc th1 p l) = Some {| v_op := o; v_ph := phase_of o p l; v_l := l |}.
Proof. intros th1 p l P1 P2. unfold tv, cur in *. cbn. rewrite P1, P2, HO. reflexivity. Qed.
Lemma tv_finish1 : forall th1 r, prog th1 = prog th -> opi th1 = opi th -> tv (finish_op th1 r) =
  match nth_error (prog th) (S (opi th)) with Some o' => Some {| v_op := o'; v_ph := PIdle; v_l := loc0 |} | None => None end.
Proof. intros th1 r P1 P2. unfold tv, cur. cbn. rewrite P1, P2. destruct (nth_error (prog th) (S (opi th))); reflexivity. Qed.

(* the thread that comes out of end_segment: nothing known, nothing owned, holds at most what was left of the request *)
Definition es_ok (X : st) (lo hi : Z) (th' : thread) : Prop :=
  match tv th' with
  | None => True
  | Some v' => linv X v' /\ (forall i, ~ vknown v' i) /\ (forall i, ~ vtry v' i) /\ (forall i, ~ vown v' i) /\
               (forall i, inhold v' i -> lo <= i < hi /\ vrole v' = is_push o)
  end.

Lemma es_ok_finish : forall X lo hi th1 r, prog th1 = prog th -> opi th1 = opi th -> es_ok X lo hi (finish_op th1 r).
Proof.
  intros. unfold es_ok. rewrite tv_finish1 by auto. destruct (nth_error (prog th) (S (opi th))); auto.
  unfold linv, vknown, vtry, vown, inhold. cbn. repeat split; tauto.
Qed.

Lemma end_segment_es : forall X th1, next_of X true = next_of s true -> next_of X false = next_of s false -> kbits X = kbits s ->
  prog th1 = prog th -> opi th1 = opi th ->
  hcommon s o (lc th1) -> valsok o (lc th1) (restn (lc th1)) ->
  exists th', end_segment X t th1 o = upd X t th' /\ prog th' = prog th /\
              es_ok X (seg_i (lc th1) + Z.of_nat (seg_n (lc th1))) (seg_end o (lc th1)) th'.
Proof.
  intros X th1 N1 N2 K P1 P2 (SO & SE & EX & SG) VO.
  assert (CC : C X = C s) by (unfold C; rewrite K; reflexivity).
  assert (NX : forall r, next_of X r = next_of s r) by (intros []; auto).
  destruct kind_facts as (KB & KS & KT & KN & KU).
  unfold end_segment. set (l := add_cnt (lc th1)).
  assert (F1 : seg_i l = seg_i (lc th1) /\ seg_n l = seg_n (lc th1) /\ seg_req l = seg_req (lc th1) /\ rest l = rest (lc th1) /\ vals l = vals (lc th1)) by (repeat split).
  destruct F1 as (F1 & F2 & F3 & F4 & F5). rewrite F4.
  destruct SO as (S1 & S2 & S3 & S4). unfold seg_end in *. unfold restn in VO.
  destruct (rest (lc th1)) as [[i2 n2]|] eqn:ER.
  - destruct S4 as (R1 & R2 & R3 & R4 & R5).
    destruct (okind o) eqn:KO; try (destruct R5 as [R5|[R5|R5]]; discriminate).
    + (* KBatch: the second segment *)
      destruct (KB eq_refl) as (TM & SI).
      eexists. split. reflexivity. split. cbn. auto.
      unfold es_ok. rewrite tv_goto_lc1 by auto.
      unfold first_wait. cbn [seg_n set_seg]. rewrite SI.
      destruct (Nat.ltb 0 n2) eqn:LT; cbn [phase_of]; rewrite ?TM;
        unfold linv, hcommon, segok, valsok, vknown, vtry, vown, inhold, vrole, seg_end, restn; cbn; rewrite KO, CC, !NX; cbn.
      * apply Nat.ltb_lt in LT. rewrite R3 in * by auto. fin.
      * apply Nat.ltb_ge in LT. rewrite R3 in * by auto. fin.
    + (* KTryN *)
      rewrite F2, F3. rewrite bq_try_n_short. destruct (Nat.ltb _ _) eqn:LT.
      * eexists. split. reflexivity. split. cbn; auto. apply es_ok_finish; auto.
      * apply Nat.ltb_ge in LT. eexists. split. reflexivity. split. cbn; auto.
        unfold es_ok. rewrite tv_goto_lc1 by auto.
        destruct (Nat.ltb 0 n2) eqn:LT2; cbn [phase_of seg_i seg_n set_seg];
          unfold linv, hcommon, segok, valsok, vknown, vtry, vown, inhold, vrole, seg_end, restn; cbn; rewrite KO, CC, !NX; cbn.
        -- fin.
        -- apply Nat.ltb_ge in LT2. fin.
    + (* KUntil *)
      rewrite F2, F3. rewrite bq_try_n_short. destruct (Nat.ltb _ _) eqn:LT.
      * eexists. split. reflexivity. split. cbn; auto. apply es_ok_finish; auto.
      * apply Nat.ltb_ge in LT. eexists. split. reflexivity. split. cbn; auto.
        unfold es_ok. rewrite tv_goto_lc1 by auto.
        destruct (Nat.ltb 0 n2) eqn:LT2; cbn [phase_of seg_i seg_n set_seg];
          unfold linv, hcommon, segok, valsok, vknown, vtry, vown, inhold, vrole, seg_end, restn; cbn; rewrite KO, CC, !NX; cbn.
        -- fin.
        -- apply Nat.ltb_ge in LT2. fin.
  - assert (E : (match okind o with KBatch | KTryN | KUntil | _ => upd X t (finish_op th1 (mk_res l (cnt l))) end) = upd X t (finish_op th1 (mk_res l (cnt l)))) by (destruct (okind o); reflexivity).
    eexists. split. destruct (okind o); reflexivity. split. cbn; auto. apply es_ok_finish; auto.
Qed.

Lemma loc_ok_of_es : forall X lo hi th', vsame X -> es_ok X lo hi th' -> (forall i, ~ vown v i) ->
  (forall i, lo <= i < hi -> inhold v i) -> loc_ok X v th'.
Proof.
  intros X lo hi th' VS ES NO IN. unfold loc_ok, es_ok in *. destruct (tv th') as [v'|]; auto.
  destruct ES as (L & KN & TR & OW & HD). split; [|split; [|split]].
  - split; [exact L|split]. intros i Hi. destruct (KN i Hi). intros i Hi. destruct (TR i Hi).
  - intros i Hi. destruct (HD i Hi). split; auto.
  - intros i Hi. destruct (OW i Hi).
  - intros i Hi. destruct (NO i Hi).
Qed.

Lemma pub_ok_of_es : forall X lo hi th' i0, es_ok X lo hi th' -> (forall i, vown v i -> i = i0) ->
  (forall i, lo <= i < hi -> inhold v i /\ i <> i0) -> pub_ok X v i0 th'.
Proof.
  intros X lo hi th' i0 ES NO IN. unfold pub_ok, es_ok in *. destruct (tv th') as [v'|]; auto.
  destruct ES as (L & KN & TR & OW & HD). split; [exact L|]. split; [|split; [|split; [|split]]].
  - intros i Hi. destruct (KN i Hi).
  - exact TR.
  - intros i Hi. destruct (HD i Hi) as [A B]. destruct (IN i A). auto.
  - intros i Hi. destruct (OW i Hi).
  - intros i Hi. left. auto.
Qed.

Lemma obs_seg : forall j, is_timed o = false -> segok (C s) o (lc th) -> (j < seg_n (lc th))%nat ->
  wait_target s o (lc th) j = (tsl (C s) (seg_i (lc th) + Z.of_nat j), xver (C s) (is_push o) (seg_i (lc th) + Z.of_nat j)).
Proof.
  intros j TM (S1 & S2 & _) LT. pose proof (C_pos s).
  assert (wait_target s o (lc th) j = (seg_slot s o (lc th) j, seg_ever s o (lc th))) as -> by (destruct o; try reflexivity; discriminate).
  rewrite seg_slot_eq by lia. unfold seg_ever. rewrite ever_xver. rewrite xver_round; auto; lia.
Qed.
Lemma seg_slot_0 : seg_slot s o (lc th) 0 = tsl (C s) (seg_i (lc th)).
Proof. unfold seg_slot. rewrite slot_z_mod. rewrite Nat.add_0_r. reflexivity. Qed.
Lemma seg_slot_j : forall j, segok (C s) o (lc th) -> (j < seg_n (lc th))%nat ->
  seg_slot s o (lc th) j = tsl (C s) (seg_i (lc th) + Z.of_nat j) /\
  seg_ever s o (lc th) = xver (C s) (is_push o) (seg_i (lc th) + Z.of_nat j).
Proof.
  intros j (S1 & S2 & _) LT. pose proof (C_pos s). split. apply seg_slot_eq; lia.
  unfold seg_ever. rewrite ever_xver. rewrite xver_round; auto; lia.
Qed.

Lemma split_facts : forall i i1 n1 r, 0 <= i -> split o (mask s) i (Z.of_nat (onum o)) = ((i1, n1), r) ->
  i1 = i /\ i1 mod C s + Z.of_nat n1 <= C s /\
  match r with
  | None => n1 = onum o
  | Some (i2, n2) => i2 = i1 + Z.of_nat n1 /\ (n1 + n2 = onum o)%nat /\ i2 mod C s + Z.of_nat n2 <= C s /\ (0 < n1)%nat
  end.
Proof.
  intros i i1 n1 r Hi H. rewrite mask_C in H. unfold C in *.
  destruct kind_facts as (KB & KS & KT & KN & KU).
  destruct (bq_split_sound o (Z.of_nat (kbits s)) i (Z.of_nat (onum o)) i1 n1 r) as (A & B & D); auto; try lia.
  - intros [K|K]; [destruct (KS K) as (_ & _ & ->) | destruct (KT K) as (_ & _ & ->)]; lia.
  - split; auto. split. exact B. destruct r as [[i2 n2]|]; [|lia]. destruct D as (D1 & D2 & D3 & D4). repeat split; auto. lia.
Qed.

Lemma acq_got_ticket : forall i, i = next_of s (is_push o) -> (okind o = KSingle \/ okind o = KBatch) ->
  (forall j, ~ inhold v j) -> (forall j, ~ vown v j) ->
  sum s t th o v (got_ticket (with_next s (is_push o) (i + Z.of_nat (onum o))) t th o i).
Proof.
  intros i Ei KO NH NO. unfold got_ticket. change (mask (with_next s (is_push o) (i + Z.of_nat (onum o)))) with (mask s).
  destruct (split o (mask s) i (Z.of_nat (onum o))) as [[i1 n1] r] eqn:SP.
  destruct (split_facts i i1 n1 r) as (A & B & D); auto. rewrite Ei; apply HNN. subst i1.
  destruct kind_facts as (KB & KS & KT & KN & KU).
  assert (TM : is_timed o = false) by (destruct KO as [K|K]; [apply (KS K) | apply (KB K)]).
  assert (RS : okind o = KSingle -> r = None).
  { intros K. unfold split in SP. rewrite K in SP. destruct (is_push o); inversion SP; auto. }
  set (l' := add_tk (set_seg (set_io (lc th) (ovals o) []) i n1 r)).
  set (X := with_next s (is_push o) (i + Z.of_nat (onum o))).
  assert (NXr : next_of X (is_push o) = i + Z.of_nat (onum o)) by (unfold X, next_of; cbn; destruct (is_push o); reflexivity).
  assert (NXo : next_of X (negb (is_push o)) = next_of s (negb (is_push o))) by (unfold X, next_of; cbn; destruct (is_push o); reflexivity).
  pose proof (HNN (is_push o)) as NN. pose proof (C_pos s) as CP.
  eapply SAcq with (th' := goto_lc th (first_wait o l') l') (n := onum o).
  - apply nth_upd. reflexivity.
  - apply others_upd. reflexivity.
  - apply frame_upd; reflexivity.
  - change (next_of (upd X t (goto_lc th (first_wait o l') l')) (is_push o)) with (next_of X (is_push o)). rewrite NXr. lia.
  - exact NXo.
  - reflexivity.
  - reflexivity.
  - reflexivity.
  - intros; reflexivity.
  - exact NH.
  - exact NO.
  - apply tv_goto_lc.
  - reflexivity.
  - unfold tfacts. change (C (upd X t (goto_lc th (first_wait o l') l'))) with (C s).
    assert (HC : hcommon (upd X t (goto_lc th (first_wait o l') l')) o l').
    { unfold hcommon. change (C (upd X t (goto_lc th (first_wait o l') l'))) with (C s).
      change (next_of (upd X t (goto_lc th (first_wait o l') l')) (is_push o)) with (next_of X (is_push o)). rewrite NXr.
      unfold segok, seg_end. cbn [seg_i seg_n seg_req rest l' add_tk set_seg].
      destruct r as [[i2 n2]|].
      - destruct D as (D1 & D2 & D3 & D4). destruct KO as [K|K].
        + discriminate (RS K).
        + destruct (KB K) as (_ & SI). rewrite K. fin.
      - pose proof single_onum as SO1. destruct (okind o); fin. }
    unfold first_wait. cbn [seg_n l' add_tk set_seg].
    destruct (Nat.ltb 0 n1) eqn:LT; [|destruct (is_single o)]; cbn [phase_of v_ph v_op v_l linv vknown vtry]; rewrite ?TM;
      unfold vknown, vtry; cbn [v_ph v_l v_op].
    + apply Nat.ltb_lt in LT. split; [split; [exact HC|]|split; [intros; lia | intros ? []]].
      split; auto. unfold valsok, restn. subst l'. cbn. intros PU. rewrite ovals_len by auto.
      destruct r as [[i2 n2]|]; lia.
    + apply Nat.ltb_ge in LT. split; [split; [exact HC|]|split; [cbn; intros; lia | intros ? []]].
      unfold valsok, restn. subst l'. cbn. intros PU. rewrite ovals_len by auto.
      destruct r as [[i2 n2]|]; lia.
    + apply Nat.ltb_ge in LT. split; [split; [exact HC|]|split; [cbn; intros; lia | intros ? []]].
      unfold valsok, restn. subst l'. cbn. intros PU. rewrite ovals_len by auto.
      destruct r as [[i2 n2]|]; lia.
  - intros j. unfold inhold. cbn [v_ph v_l v_op]. unfold first_wait. cbn [seg_n l' add_tk set_seg].
    assert (SE : seg_end o l' = i + Z.of_nat (onum o)).
    { unfold seg_end. cbn [seg_i seg_n rest l' add_tk set_seg]. destruct r as [[i2 n2]|].
      - destruct D as (D1 & D2 & D3 & D4). destruct (okind o) eqn:K; try lia; destruct KO as [K'|K']; try discriminate.
        destruct (KS eq_refl) as (_ & _ & E1). lia.
      - destruct (okind o); lia. }
    destruct (Nat.ltb 0 n1); [|destruct (is_single o)]; cbn [phase_of]; rewrite ?TM; rewrite ?SE; cbn [seg_i l' add_tk set_seg]; lia.
  - intros j. unfold vown. cbn [v_ph v_l v_op]. unfold first_wait. cbn [seg_n l' add_tk set_seg].
    destruct (Nat.ltb 0 n1); [|destruct (is_single o)]; cbn [phase_of]; rewrite ?TM; tauto.
Qed.

Ltac vsm := repeat split.
Ltac vnone E TM := let i := fresh "i" in let Hi := fresh "Hi" in
  intros i Hi; unfold vown, inhold, v in Hi; cbn [v_ph v_l v_op] in Hi; rewrite ?E in Hi; cbn [phase_of] in Hi;
  rewrite ?TM in Hi; try exact Hi; try lia.

(* a local move that keeps the phase and the segment fields *)
Lemma sum_same : forall X p l, csame X -> threads X = threads s -> phase_of o p l = phase_of o (tpc th) (lc th) ->
  leq (lc th) l -> sum s t th o v (upd X t (goto_lc th p l)).
Proof.
  intros X p l CS TH PH LE. apply sum_loc; auto. apply loc_ok_same; auto. apply (csame_vsame _ CS).
Qed.
Lemma sum_idle : forall X p l, csame X -> threads X = threads s -> phase_of o p l = PIdle -> (forall i, ~ vown v i) ->
  sum s t th o v (upd X t (goto_lc th p l)).
Proof. intros X p l CS TH PH NO. apply sum_loc; auto. apply loc_ok_idle; auto. Qed.
Lemma sum_unt : forall X p l, csame X -> threads X = threads s -> phase_of o p l = PUnt -> is_timed o = true ->
  (forall i, ~ vown v i) -> sum s t th o v (upd X t (goto_lc th p l)).
Proof. intros X p l CS TH PH TM NO. apply sum_loc; auto. apply loc_ok_unt; auto. Qed.
Lemma sum_finish : forall X r, csame X -> threads X = threads s -> (forall i, ~ vown v i) ->
  sum s t th o v (upd X t (finish_op th r)).
Proof. intros X r CS TH NO. apply sum_loc; auto. apply loc_ok_finish; auto. Qed.

(* observing element j of the segment ready *)
Lemma sum_observe : forall j, is_timed o = false -> phase_of o (tpc th) (lc th) = PWaiting j ->
  ver (sslot s (seg_i (lc th) + Z.of_nat j)) = xver (C s) (is_push o) (seg_i (lc th) + Z.of_nat j) ->
  sum s t th o v (upd s t (goto th (after_wait o (lc th) j))).
Proof.
  intros j TM PH OBS. apply sum_loc; try reflexivity. apply csame_refl.
  unfold loc_ok. rewrite tv_goto. destruct TF as (LV & KN & TR). unfold linv, vknown, vtry, v in LV, KN, TR.
  cbn [v_ph v_l v_op] in LV, KN, TR. rewrite PH in LV, KN, TR. destruct LV as (HC & LT & VO).
  unfold after_wait. rewrite TM. unfold tfacts, linv, vknown, vtry, inhold, vown, vrole, v. cbn [v_ph v_l v_op]. rewrite PH.
  destruct (Nat.ltb (S j) (seg_n (lc th))) eqn:LT2; [|destruct (is_single o)]; cbn [phase_of]; rewrite ?TM.
  - apply Nat.ltb_lt in LT2.
    split; [split; [split; [exact HC|split; [lia|exact VO]] | split; [|intros ? []]] | split; [|split]].
    + intros i Hi. destruct (Z.eq_dec i (seg_i (lc th) + Z.of_nat j)) as [->|NE]; auto. apply KN. lia.
    + intros i Hi; split; [exact Hi|reflexivity].
    + intros i [].
    + intros i [].
  - apply Nat.ltb_ge in LT2.
    split; [split; [split; [exact HC|exact VO] | split; [|intros ? []]] | split; [|split]].
    + intros i Hi. destruct (Z.eq_dec i (seg_i (lc th) + Z.of_nat j)) as [->|NE]; auto. apply KN. lia.
    + intros i Hi; split; [exact Hi|reflexivity].
    + intros i [].
    + intros i [].
  - apply Nat.ltb_ge in LT2.
    split; [split; [split; [exact HC|exact VO] | split; [|intros ? []]] | split; [|split]].
    + intros i Hi. destruct (Z.eq_dec i (seg_i (lc th) + Z.of_nat j)) as [->|NE]; auto. apply KN. lia.
    + intros i Hi; split; [exact Hi|reflexivity].
    + intros i [].
    + intros i [].
Qed.

Lemma ph_slow : forall j x w l, phase_of o (slow_path o j x w) l = (if is_timed o then PIdle else PWaiting j).
Proof. intros. unfold slow_path. destruct (ofwait o); [destruct (block_no_waiter _)|]; reflexivity. Qed.
Lemma ph_retry : forall j (b : bool) x l, phase_of o (if b then WCas j x else WFutex j x) l = (if is_timed o then PIdle else PWaiting j).
Proof. intros. destruct b; reflexivity. Qed.

Lemma sum_try_start : forall l0 i1 n1 r, (okind o = KTryN \/ okind o = KUntil) ->
  split o (mask s) (next_of s (is_push o)) (Z.of_nat (onum o)) = ((i1, n1), r) ->
  (is_push o = true -> (onum o <= length (vals l0))%nat) -> (forall i, ~ vown v i) ->
  sum s t th o v (upd s t (goto_lc th (if Nat.ltb 0 n1 then TnVer 0 else TnCas) (set_seg l0 i1 n1 r))).
Proof.
  intros l0 i1 n1 r KO SP VL NO. pose proof (HNN (is_push o)) as NN.
  destruct (split_facts _ i1 n1 r NN SP) as (A & B & D). subst i1.
  apply sum_loc; try reflexivity. apply csame_refl.
  unfold loc_ok. rewrite tv_goto_lc.
  assert (SO : segok (C s) o (set_seg l0 (next_of s (is_push o)) n1 r)).
  { unfold segok. cbn. destruct r as [[i2 n2]|]; fin. }
  assert (VO : valsok o (set_seg l0 (next_of s (is_push o)) n1 r) (n1 + restn (set_seg l0 (next_of s (is_push o)) n1 r))).
  { unfold valsok, restn. cbn. intros PU. specialize (VL PU). destruct r as [[i2 n2]|]; lia. }
  assert (KK : match okind o with KTryN | KUntil => True | _ => False end) by (destruct KO as [->| ->]; exact I).
  unfold tfacts, linv, vknown, vtry, inhold, vown, vrole. 
  destruct (Nat.ltb 0 n1) eqn:LT; cbn [phase_of v_ph v_l v_op seg_i seg_n set_seg].
  - split; [split; [|split]|split; [|split]].
    + split; [lia|split; [auto|]]. split; [exact KO|split; [reflexivity|split; [exact SO|split; [lia|exact VO]]]].
    + intros i [].
    + intros i Hi. lia.
    + intros i [].
    + intros i [].
    + intros i Hi. destruct (NO i Hi).
  - apply Nat.ltb_ge in LT. split; [split; [|split]|split; [|split]].
    + split; [lia|split; [auto|]]. split; [exact KO|split; [reflexivity|split; [exact SO|split; [lia|exact VO]]]].
    + intros i [].
    + intros i Hi. lia.
    + intros i [].
    + intros i [].
    + intros i Hi. destruct (NO i Hi).
Qed.

Lemma sum_after_wait : forall j sl e, phase_of o (tpc th) (lc th) = (if is_timed o then PIdle else PWaiting j) ->
  wait_target s o (lc th) j = (sl, e) -> (is_timed o = true \/ ver (get_slot s sl) = e) ->
  sum s t th o v (upd s t (goto th (after_wait o (lc th) j))).
Proof.
  intros j sl e PH WT OB. destruct (is_timed o) eqn:TM.
  - apply sum_unt; try reflexivity; auto. apply csame_refl. unfold after_wait. rewrite TM. reflexivity.
    intros i Hi. unfold vown, v in Hi. cbn [v_ph v_l] in Hi. rewrite PH in Hi. exact Hi.
  - destruct OB as [OB|OB]; [discriminate|].
    destruct TF as (LV & _). unfold linv, v in LV. cbn [v_ph v_l v_op] in LV. rewrite PH in LV. destruct LV as (HC & LT & VO).
    rewrite (obs_seg j TM (proj1 HC) LT) in WT. inversion WT; subst. apply sum_observe; auto.
Qed.
Lemma sum_wait_same : forall X p l, csame X -> threads X = threads s ->
  phase_of o p l = phase_of o (tpc th) (lc th) -> leq (lc th) l -> sum s t th o v (upd X t (goto_lc th p l)).
Proof. exact sum_same. Qed.

Definition thr_ok (X : st) : Prop := threads X = threads s \/ exists sl, threads X = map (wake_thread sl) (threads s).
Lemma sum_locg : forall X th', csame X -> thr_ok X -> prog th' = prog th -> loc_ok X v th' -> sum s t th o v (upd X t th').
Proof. intros X th' CS [TH|[sl TH]] PR LO. apply sum_loc; auto. eapply sum_loc_wake; eauto. Qed.
Lemma thr_ok_wake : forall sl, thr_ok (wake_all s sl).
Proof. intros. right. exists sl. reflexivity. Qed.
Lemma csame_wake : forall sl, csame (wake_all s sl).
Proof. intros. repeat split. Qed.

Lemma ph_v : forall ph, phase_of o (tpc th) (lc th) = ph -> v_ph v = ph.
Proof. intros. exact H. Qed.

(* end of a segment reached from a phase that owns nothing *)
Lemma sum_end_segment1 : forall X th1, csame X -> thr_ok X -> prog th1 = prog th -> opi th1 = opi th ->
  hcommon s o (lc th1) -> valsok o (lc th1) (restn (lc th1)) -> (forall i, ~ vown v i) ->
  (forall i, seg_i (lc th1) + Z.of_nat (seg_n (lc th1)) <= i < seg_end o (lc th1) -> inhold v i) ->
  sum s t th o v (end_segment X t th1 o).
Proof.
  intros X th1 CS TH P1 P2 HC VO NO IN. pose proof (csame_vsame _ CS) as (N1 & N2 & K & SL).
  destruct (end_segment_es X th1 N1 N2 K P1 P2 HC VO) as (th' & -> & PR & ES).
  apply sum_locg; auto. eapply loc_ok_of_es; eauto. repeat split; auto.
Qed.
Lemma sum_end_segment : forall X, csame X -> thr_ok X -> hcommon s o (lc th) -> valsok o (lc th) (restn (lc th)) ->
  (forall i, ~ vown v i) -> (forall i, seg_i (lc th) + Z.of_nat (seg_n (lc th)) <= i < seg_end o (lc th) -> inhold v i) ->
  sum s t th o v (end_segment X t th o).
Proof. intros. apply sum_end_segment1; auto. Qed.

(* moves inside the PDone phase *)
Lemma sum_done : forall X p, csame X -> thr_ok X -> phase_of o (tpc th) (lc th) = PDone -> phase_of o p (lc th) = PDone ->
  sum s t th o v (upd X t (goto th p)).
Proof.
  intros X p CS TH PH PH'. apply sum_locg; auto. apply (loc_ok_same X p (lc th)). apply (csame_vsame _ CS).
  rewrite PH, PH'. reflexivity. apply leq_refl.
Qed.
Lemma done_facts : phase_of o (tpc th) (lc th) = PDone ->
  hcommon s o (lc th) /\ valsok o (lc th) (restn (lc th)) /\ (forall i, ~ vown v i) /\
  (forall i, seg_i (lc th) + Z.of_nat (seg_n (lc th)) <= i < seg_end o (lc th) -> inhold v i).
Proof.
  intros PH. destruct TF as (LV & _). unfold linv, v in LV. cbn [v_ph v_l v_op] in LV. rewrite PH in LV. destruct LV as (HC & VO).
  split; auto. split; auto. split.
  - intros i Hi. unfold vown, v in Hi. cbn [v_ph v_l] in Hi. rewrite PH in Hi. exact Hi.
  - intros i Hi. unfold inhold, v. cbn [v_ph v_l v_op]. rewrite PH. exact Hi.
Qed.
Lemma sum_next_wk : forall X j, csame X -> thr_ok X -> phase_of o (tpc th) (lc th) = PDone ->
  sum s t th o v (next_wk X t th o j).
Proof.
  intros X j CS TH PH. unfold next_wk. destruct (Nat.ltb _ _).
  - apply sum_done; auto.
  - destruct (done_facts PH) as (HC & VO & NO & IN). apply sum_end_segment; auto.
Qed.

(* publishing element j of the segment *)
Definition pubst (i0 : Z) (w : bool) : st :=
  set_slot s (tsl (C s) i0) {| ver := xver (C s) (is_push o) i0 + 1; wf := w; pay := pay (sslot s i0); own := None |}.
Lemma sum_pub : forall j w th', phase_of o (tpc th) (lc th) = POwn j -> prog th' = prog th ->
  pub_ok (pubst (seg_i (lc th) + Z.of_nat j) w) v (seg_i (lc th) + Z.of_nat j) th' ->
  sum s t th o v (upd (pubst (seg_i (lc th) + Z.of_nat j) w) t th').
Proof.
  intros j w th' PH PR PO. pose proof (C_pos s) as CP.
  assert (LT : (tsl (C s) (seg_i (lc th) + Z.of_nat j) < length (slots s))%nat) by (rewrite HLEN; apply tsl_lt; auto).
  eapply SPub with (j := j); try reflexivity.
  - apply nth_upd. reflexivity.
  - apply others_upd. reflexivity.
  - apply frame_upd; auto. unfold pubst, set_slot. cbn. apply length_set_nth.
  - exact PH.
  - unfold pubst, set_slot. cbn [slots upd with_threads with_slots]. rewrite nth_set_nth_eq by auto. reflexivity.
  - intros sl NE. unfold pubst, set_slot. cbn [slots upd with_threads with_slots]. rewrite nth_set_nth_neq by auto. reflexivity.
  - exact PO.
Qed.

Lemma own_facts : forall j, phase_of o (tpc th) (lc th) = POwn j ->
  hcommon s o (lc th) /\ (j < seg_n (lc th))%nat /\ valsok o (lc th) (restn (lc th)).
Proof.
  intros j PH. destruct TF as (LV & _). unfold linv, v in LV. cbn [v_ph v_l v_op] in LV. rewrite PH in LV. exact LV.
Qed.

Lemma pub_ok_next : forall X j, phase_of o (tpc th) (lc th) = POwn j -> (S j < seg_n (lc th))%nat ->
  next_of X true = next_of s true -> next_of X false = next_of s false -> kbits X = kbits s ->
  pub_ok X v (seg_i (lc th) + Z.of_nat j) (goto th (Pub (S j))).
Proof.
  intros X j PH LT N1 N2 K. destruct (own_facts j PH) as (HC & LJ & VO).
  assert (CC : C X = C s) by (unfold C; rewrite K; reflexivity).
  assert (NX : forall r, next_of X r = next_of s r) by (intros []; auto).
  unfold pub_ok. rewrite tv_goto. cbn [phase_of]. unfold linv, vknown, vtry, inhold, vown, vrole, v. cbn [v_ph v_l v_op]. rewrite PH.
  split; [|split; [|split; [|split; [|split]]]].
  - split; [|split; [lia|exact VO]]. unfold hcommon in *. rewrite CC, !NX. exact HC.
  - intros i Hi. split; [lia|split; [lia|reflexivity]].
  - intros i [].
  - intros i Hi. split; [lia|split; [lia|reflexivity]].
  - intros i Hi. split; [lia|split; [lia|reflexivity]].
  - intros i Hi. lia.
Qed.
Lemma pub_ok_done : forall X j p, phase_of o (tpc th) (lc th) = POwn j -> S j = seg_n (lc th) -> phase_of o p (lc th) = PDone ->
  next_of X true = next_of s true -> next_of X false = next_of s false -> kbits X = kbits s ->
  pub_ok X v (seg_i (lc th) + Z.of_nat j) (goto th p).
Proof.
  intros X j p PH LT PD N1 N2 K. destruct (own_facts j PH) as (HC & LJ & VO).
  assert (CC : C X = C s) by (unfold C; rewrite K; reflexivity).
  assert (NX : forall r, next_of X r = next_of s r) by (intros []; auto).
  unfold pub_ok. rewrite tv_goto. rewrite PD. unfold linv, vknown, vtry, inhold, vown, vrole, v. cbn [v_ph v_l v_op]. rewrite PH.
  split; [|split; [|split; [|split; [|split]]]].
  - split; [|exact VO]. unfold hcommon in *. rewrite CC, !NX. exact HC.
  - intros i [].
  - intros i [].
  - intros i Hi. split; [lia|split; [lia|reflexivity]].
  - intros i [].
  - intros i Hi. lia.
Qed.
Lemma pub_ok_end : forall X j, phase_of o (tpc th) (lc th) = POwn j -> S j = seg_n (lc th) ->
  next_of X true = next_of s true -> next_of X false = next_of s false -> kbits X = kbits s ->
  exists th', end_segment X t th o = upd X t th' /\ prog th' = prog th /\ pub_ok X v (seg_i (lc th) + Z.of_nat j) th'.
Proof.
  intros X j PH LT N1 N2 K. destruct (own_facts j PH) as (HC & LJ & VO).
  destruct (end_segment_es X th N1 N2 K eq_refl eq_refl HC VO) as (th' & EQ & PR & ES).
  exists th'. split; auto. split; auto. eapply pub_ok_of_es; eauto.
  - intros i Hi. unfold vown, v in Hi. cbn [v_ph v_l] in Hi. rewrite PH in Hi. lia.
  - intros i Hi. unfold inhold, v. cbn [v_ph v_l v_op]. rewrite PH. lia.
Qed.

Lemma timed_kind : is_timed o = true -> okind o = KUntil.
Proof. destruct o; cbn; intros; try discriminate; auto. Qed.

Lemma try_facts : forall j, phase_of o (tpc th) (lc th) = PTry (seg_i (lc th)) j ->
  0 <= seg_i (lc th) <= next_of s (is_push o) /\ (oconc o = false -> seg_i (lc th) = next_of s (is_push o)) /\
  (okind o = KTryN \/ okind o = KUntil) /\ segok (C s) o (lc th) /\ (j <= seg_n (lc th))%nat /\
  valsok o (lc th) (seg_n (lc th) + restn (lc th)) /\ (forall i, ~ vown v i) /\ (forall i, ~ inhold v i) /\
  (forall i, seg_i (lc th) <= i < seg_i (lc th) + Z.of_nat j -> (oconc o = false \/ next_of s (is_push o) = seg_i (lc th)) ->
             ver (sslot s i) = xver (C s) (is_push o) i).
Proof.
  intros j PH. destruct TF as (LV & _ & TR). unfold linv, vtry, trycond, vrole, v in LV, TR. cbn [v_ph v_l v_op] in LV, TR.
  rewrite PH in LV, TR. destruct LV as (B1 & EX & KO & _ & SO & JL & VO).
  repeat (split; auto).
  - intros i Hi. unfold vown, v in Hi. cbn [v_ph v_l] in Hi. rewrite PH in Hi. exact Hi.
  - intros i Hi. unfold inhold, v in Hi. cbn [v_ph v_l] in Hi. rewrite PH in Hi. exact Hi.
Qed.

(* try_deal_n_continuously returns 0 for the current segment *)
Lemma sum_es_zero : forall j th1, phase_of o (tpc th) (lc th) = PTry (seg_i (lc th)) j ->
  prog th1 = prog th -> opi th1 = opi th -> seg_i (lc th1) = seg_i (lc th) -> seg_req (lc th1) = seg_req (lc th) ->
  rest (lc th1) = rest (lc th) -> vals (lc th1) = vals (lc th) ->
  sum s t th o v (end_segment_zero s t th1 o).
Proof.
  intros j th1 PH P1 P2 F1 F3 F4 F5. destruct (try_facts j PH) as (B1 & EX & KO & SO & JL & VO & NO & NH & _).
  destruct kind_facts as (KB & KS & KT & KN & KU). pose proof (C_pos s) as CP.
  assert (NB : okind o <> KBatch) by (destruct KO as [-> | ->]; discriminate).
  assert (SI : is_single o = false) by (destruct KO as [K|K]; [apply (KN K)|apply (KU K)]).
  unfold end_segment_zero. apply sum_end_segment1; auto.
  - apply csame_refl.
  - left; reflexivity.
  - unfold hcommon, segok, seg_end. cbn [lc goto_lc set_n seg_i seg_n seg_req rest]. rewrite F1, F3, F4.
    destruct SO as (S1 & S2 & S3 & S4). pose proof (Z.mod_pos_bound (seg_i (lc th)) (C s) CP).
    split; [split; [lia|split; [lia|split; [lia|]]]|].
    + destruct (rest (lc th)) as [[i2 n2]|]; auto. destruct S4 as (R1 & R2 & R3 & R4 & R5). repeat split; auto. intros K; contradiction.
    + assert (SE : match okind o with KBatch => match rest (lc th) with Some (i2, n2) => i2 + Z.of_nat n2 | None => seg_i (lc th) + Z.of_nat 0 end | _ => seg_i (lc th) + Z.of_nat 0 end = seg_i (lc th)) by (destruct (okind o); try lia; contradiction).
      destruct (okind o); try contradiction; (split; [destruct (rest (lc th)) as [[? ?]|]; lia|split; [intros OC; rewrite (EX OC); destruct (rest (lc th)) as [[? ?]|]; lia|intros; congruence]]).
  - unfold valsok, restn in *. cbn [lc goto_lc set_n rest vals]. rewrite F4, F5. intros PU. specialize (VO PU). lia.
  - intros i Hi. unfold seg_end in Hi. cbn [lc goto_lc set_n seg_i seg_n rest] in Hi. rewrite F1, F4 in Hi.
    destruct (okind o); try contradiction; destruct (rest (lc th)) as [[? ?]|]; lia.
Qed.

Lemma loc_ok_try_grow : forall p j j', phase_of o (tpc th) (lc th) = PTry (seg_i (lc th)) j ->
  phase_of o p (lc th) = PTry (seg_i (lc th)) j' -> (j' <= seg_n (lc th))%nat ->
  ((j' <= j)%nat \/ (j' = S j /\ ver (sslot s (seg_i (lc th) + Z.of_nat j)) = xver (C s) (is_push o) (seg_i (lc th) + Z.of_nat j))) ->
  loc_ok s v (goto th p).
Proof.
  intros p j j' PH PH' JL' OB. destruct (try_facts j PH) as (B1 & EX & KO & SO & JL & VO & NO & NH & TR).
  unfold loc_ok. rewrite tv_goto. rewrite PH'.
  unfold tfacts, linv, vknown, vtry, inhold, vown, vrole, trycond. cbn [v_ph v_l v_op].
  split; [split; [|split]|split; [|split]].
  - repeat (split; auto).
  - intros i [].
  - intros i Hi TC. destruct OB as [OB|[-> OB]].
    + apply TR; auto. lia.
    + destruct (Z.eq_dec i (seg_i (lc th) + Z.of_nat j)) as [->|NE]; auto. apply TR; auto. lia.
  - intros i [].
  - intros i [].
  - intros i Hi. destruct (NO i Hi).
Qed.

Lemma acq_tryn : phase_of o (tpc th) (lc th) = PTry (seg_i (lc th)) (seg_n (lc th)) ->
  (oconc o = false \/ next_of s (is_push o) = seg_i (lc th)) ->
  sum s t th o v (upd (with_next s (is_push o) (seg_i (lc th) + Z.of_nat (seg_n (lc th)))) t (goto_lc th FenceA (add_tk (lc th)))).
Proof.
  intros PH TC. destruct (try_facts _ PH) as (B1 & EX & KO & SO & JL & VO & NO & NH & TR).
  destruct kind_facts as (KB & KS & KT & KN & KU).
  assert (NI : next_of s (is_push o) = seg_i (lc th)) by (destruct TC as [OC|]; auto; symmetry; auto).
  assert (SI : is_single o = false) by (destruct KO as [K|K]; [apply (KN K)|apply (KU K)]).
  set (l' := add_tk (lc th)).
  set (X := with_next s (is_push o) (seg_i (lc th) + Z.of_nat (seg_n (lc th)))).
  assert (NXr : next_of X (is_push o) = seg_i (lc th) + Z.of_nat (seg_n (lc th))) by (unfold X, next_of; cbn; destruct (is_push o); reflexivity).
  assert (NXo : next_of X (negb (is_push o)) = next_of s (negb (is_push o))) by (unfold X, next_of; cbn; destruct (is_push o); reflexivity).
  assert (SE : seg_end o l' = seg_i (lc th) + Z.of_nat (seg_n (lc th))) by (unfold seg_end; cbn; destruct KO as [-> | ->]; reflexivity).
  eapply SAcq with (n := seg_n (lc th)) (th' := goto_lc th FenceA l');
    [apply nth_upd; reflexivity | apply others_upd; reflexivity | apply frame_upd; reflexivity
    | change (next_of X (is_push o) = next_of s (is_push o) + Z.of_nat (seg_n (lc th))); lia | exact NXo | reflexivity | reflexivity
    | reflexivity | intros; reflexivity | exact NH | exact NO | apply tv_goto_lc | reflexivity | | | ].
  - unfold tfacts, linv, vknown, vtry, vrole, hcommon. cbn [phase_of v_ph v_l v_op].
    change (C (upd X t (goto_lc th FenceA l'))) with (C s).
    change (next_of (upd X t (goto_lc th FenceA l')) (is_push o)) with (next_of X (is_push o)). rewrite NXr, SE.
    split; [|split].
    + split; [|exact VO]. split; [exact SO|split; [lia|split; [intros; reflexivity|intros; congruence]]].
    + intros i Hi. apply TR; auto.
    + intros i [].
  - intros i. unfold inhold. cbn [phase_of v_ph v_l v_op]. rewrite SE. cbn. lia.
  - intros i. unfold vown. cbn [phase_of v_ph]. tauto.
Qed.

Lemma step_sum : forall s', step_thread s t th o = Some s' -> sum s t th o v s'.
Proof.
  intros s' H. unfold step_thread in H. cbv zeta in H.
  pose proof TF as TF0. unfold tfacts, v in TF0. destruct TF0 as (LV & KN & TR). unfold linv, vknown, vtry in LV, KN, TR.
  cbn [v_ph v_l v_op] in LV, KN, TR.
  destruct kind_facts as (KB & KS & KT & KN' & KU). pose proof (C_pos s) as CP.
  remember (tpc th) as p0 eqn:E in H. symmetry in E.
  destruct p0; rewrite E in LV, KN, TR; cbn [phase_of] in LV, KN, TR.
  - (* Idle *)
    assert (NO : forall i, ~ vown v i) by (vnone E E).
    assert (NH : forall i, ~ inhold v i) by (vnone E E).
    destruct (okind o) eqn:KO.
    + destruct (oconc o) eqn:OC; inv H.
      * apply acq_got_ticket; auto.
      * apply sum_loc; try reflexivity. apply csame_refl. unfold loc_ok. rewrite tv_goto. cbn [phase_of].
        unfold tfacts, linv, vknown, vtry, inhold, vown. cbn [v_ph v_l v_op]. pose proof (HNN (is_push o)).
        split; [split; [|split]|split; [|split]]; try (intros ? []); auto; try (intros i Hi; destruct (NO i Hi)).
    + destruct (oconc o) eqn:OC; inv H.
      * apply acq_got_ticket; auto.
      * apply sum_loc; try reflexivity. apply csame_refl. unfold loc_ok. rewrite tv_goto. cbn [phase_of].
        unfold tfacts, linv, vknown, vtry, inhold, vown. cbn [v_ph v_l v_op]. pose proof (HNN (is_push o)).
        split; [split; [|split]|split; [|split]]; try (intros ? []); auto; try (intros i Hi; destruct (NO i Hi)).
    + inv H. apply sum_loc; try reflexivity. apply csame_refl. unfold loc_ok. rewrite tv_goto_lc. cbn [phase_of].
      unfold tfacts, linv, vknown, vtry, inhold, vown. cbn [v_ph v_l v_op]. pose proof (HNN (is_push o)).
      destruct (KT eq_refl) as (_ & _ & ON).
      split; [split; [|split]|split; [|split]].
      * split; [lia|split; [auto|]]. split; [exact KO|]. split; [lia|]. unfold valsok. cbn. intros PU. rewrite ovals_len by auto. lia.
      * intros i0 [].
      * intros i0 Hi. lia.
      * intros i0 [].
      * intros i0 [].
      * intros i0 Hi. destruct (NO i0 Hi).
    + destruct (split _ _ _ _) as [[i1 n1] r] eqn:SP. inv H. apply sum_try_start; auto.
      cbn. intros PU. rewrite ovals_len by auto. lia.
    + inv H. destruct (KU eq_refl) as (TM & _). apply sum_idle; try reflexivity; auto. apply csame_refl. cbn [phase_of]. rewrite TM. reflexivity.
  - (* TkStore *)
    assert (NO : forall i, ~ vown v i) by (vnone E E).
    assert (NH : forall i, ~ inhold v i) by (vnone E E).
    destruct LV as (OC & EB & NB & KO). inv H. apply acq_got_ticket; auto.
  - (* WLoad *)
    destruct (wait_target _ _ _ _) as [sl e] eqn:WT. destruct (wait_ready _ _) eqn:RD; inv H.
    + eapply sum_after_wait; [rewrite E; reflexivity | exact WT | right; apply Z.eqb_eq; exact RD].
    + apply sum_wait_same; try reflexivity. apply csame_refl. rewrite E, ph_slow. reflexivity. destruct (is_timed o); repeat split.
  - (* WCas *)
    destruct (wait_target _ _ _ _) as [sl e] eqn:WT. destruct (Z.eqb _ _) eqn:EQ; [|destruct (block_cas_ready _ _) eqn:RD]; inv H.
    + apply sum_wait_same; try reflexivity. apply csame_set_wf; reflexivity. rewrite E. reflexivity. apply leq_refl.
    + eapply sum_after_wait; [rewrite E; reflexivity | exact WT | right; apply Z.eqb_eq; exact RD].
    + apply sum_wait_same; try reflexivity. apply csame_refl. rewrite E, ph_retry. reflexivity. apply leq_refl.
  - (* WFutex *)
    destruct (wait_target _ _ _ _) as [sl e] eqn:WT. brk H; inv H.
    + apply sum_wait_same; try reflexivity. apply csame_refl. rewrite E. reflexivity. repeat split.
    + apply sum_wait_same; try reflexivity. apply csame_refl. rewrite E. reflexivity. apply leq_refl.
  - (* WParked *)
    destruct (is_timed o && (dl (lc th) <=? clock s)) eqn:TD; inv H.
    apply andb_true_iff in TD as [TM _].
    destruct (wait_target s o (lc th) j) as [sl1 e1] eqn:WT.
    eapply sum_after_wait; [rewrite E; reflexivity | exact WT | left; exact TM].
  - (* WReload *)
    destruct (wait_target _ _ _ _) as [sl e] eqn:WT. destruct (block_reload_ready _ _) eqn:RD; [|destruct (is_timed o) eqn:TM; [destruct (block_expired _) eqn:EX|]]; inv H.
    + eapply sum_after_wait; [rewrite E; reflexivity | exact WT | right; apply Z.eqb_eq; exact RD].
    + eapply sum_after_wait; [rewrite E; reflexivity | exact WT | left; exact TM].
    + apply sum_wait_same; try reflexivity. apply csame_refl. rewrite E, ph_retry. reflexivity. repeat split.
    + apply sum_wait_same; try reflexivity. apply csame_refl. rewrite E, ph_retry. reflexivity. apply leq_refl.
  - (* WSleep *)
    inv H. apply sum_wait_same; try reflexivity. apply csame_refl. rewrite E. reflexivity. apply leq_refl.
  - (* WSpin *)
    destruct (wait_target _ _ _ _) as [sl e] eqn:WT. destruct (spin_ready _ _) eqn:RD; inv H.
    + eapply sum_after_wait; [rewrite E; reflexivity | exact WT | right; apply Z.eqb_eq; exact RD].
    + apply sum_wait_same; try reflexivity. apply csame_refl. rewrite E. reflexivity. apply leq_refl.
  - (* FenceA *)
    inv H. apply sum_wait_same; try reflexivity. apply csame_refl. rewrite E. reflexivity. apply leq_refl.
  - (* Callback *)
    destruct LV as (HC & VO). rewrite seg_slot_0 in H.
    destruct (is_push o) eqn:PU.
    + destruct (cb_push _ _ _ _ _ _ _) as [[sls ps] e] eqn:CB. inv H.
      pose proof (cb_push_length (firstn (seg_n (lc th)) (vals (lc th))) t (slots s) (tsl (C s) (seg_i (lc th))) (seg_i (lc th)) (pushed s) (err s)) as CL.
      rewrite CB in CL. cbn [fst] in CL. specialize (VO PU).
      eapply SCb; [apply nth_upd; reflexivity | apply others_upd; reflexivity | apply frame_upd; auto | reflexivity | reflexivity
                 | unfold v; cbn [v_ph]; rewrite E; reflexivity | apply tv_goto_lc | reflexivity | | reflexivity | reflexivity | reflexivity | | ].
      * cbn [v_ph]. destruct (is_single o); cbn [phase_of]; auto.
      * unfold linv. cbn [v_ph v_l v_op]. destruct (is_single o) eqn:SI; cbn [phase_of].
        -- split; [exact HC|split]. destruct HC as (_ & _ & _ & SG). destruct (SG SI) as [SN1 _]. cbn. lia.
           unfold valsok, restn in *. cbn. intros _. rewrite skipn_length. lia.
        -- split; [exact HC|]. unfold valsok, restn in *. cbn. intros _. rewrite skipn_length. lia.
      * rewrite PU. split; [exact CB|split; [reflexivity|]]. apply firstn_length_le. lia.
    + destruct (cb_pop _ _ _ _ _ _ _ _) as [[[sls ds] g] e] eqn:CB. inv H.
      pose proof (cb_pop_length (seg_n (lc th)) t (slots s) (tsl (C s) (seg_i (lc th))) (seg_i (lc th)) (delivered s) (got (lc th)) (err s)) as CL.
      rewrite CB in CL. cbn [fst] in CL.
      eapply SCb; [apply nth_upd; reflexivity | apply others_upd; reflexivity | apply frame_upd; auto | reflexivity | reflexivity
                 | unfold v; cbn [v_ph]; rewrite E; reflexivity | apply tv_goto_lc | reflexivity | | reflexivity | reflexivity | reflexivity | | ].
      * cbn [v_ph]. destruct (is_single o); cbn [phase_of]; auto.
      * unfold linv. cbn [v_ph v_l v_op]. destruct (is_single o) eqn:SI; cbn [phase_of].
        -- split; [exact HC|split]. destruct HC as (_ & _ & _ & SG). destruct (SG SI) as [SN1 _]. cbn. lia.
           unfold valsok. rewrite PU. intros; discriminate.
        -- split; [exact HC|]. unfold valsok. rewrite PU. intros; discriminate.
      * rewrite PU. exists g. split; [exact CB|reflexivity].
  - (* FenceR *)
    destruct LV as (HC & VO).
    assert (PH : phase_of o (tpc th) (lc th) = PCb) by (rewrite E; reflexivity).
    destruct (Nat.ltb 0 (seg_n (lc th))) eqn:LT; inv H.
    + apply Nat.ltb_lt in LT. apply sum_loc; try reflexivity. apply csame_refl. unfold loc_ok. rewrite tv_goto. cbn [phase_of].
      unfold tfacts, linv, vknown, vtry, inhold, vown, vrole, v. cbn [v_ph v_l v_op]. rewrite PH.
      split; [split; [|split]|split; [|split]].
      * split; [exact HC|split; [lia|exact VO]].
      * intros i Hi. apply KN. lia.
      * intros i [].
      * intros i Hi. split; [lia|reflexivity].
      * intros i Hi. split; [lia|reflexivity].
      * intros i Hi. lia.
    + apply Nat.ltb_ge in LT. unfold after_pubs. destruct (fwake (oflags o)).
      * apply sum_loc; try reflexivity. apply csame_refl. unfold loc_ok. rewrite tv_goto. cbn [phase_of].
        unfold tfacts, linv, vknown, vtry, inhold, vown, vrole, v. cbn [v_ph v_l v_op]. rewrite PH.
        split; [split; [|split]|split; [|split]].
        -- split; [exact HC|exact VO].
        -- intros i [].
        -- intros i [].
        -- intros i Hi. split; [lia|reflexivity].
        -- intros i [].
        -- intros i Hi. lia.
      * apply sum_end_segment; auto. apply csame_refl. left; reflexivity.
        intros i Hi. unfold vown, v in Hi. cbn [v_ph v_l] in Hi. rewrite PH in Hi. lia.
        intros i Hi. unfold inhold, v. cbn [v_ph v_l v_op]. rewrite PH. lia.
  - (* Pub *)
    assert (PH : phase_of o (tpc th) (lc th) = POwn j) by (rewrite E; reflexivity).
    destruct LV as (HC & LT & VO). destruct (seg_slot_j j (proj1 HC) LT) as [SS SE].
    rewrite SS, SE in H. rewrite !(proj1 (bq_next_version _ _ _)) in H.
    destruct (is_single o) eqn:SI.
    + assert (SJ : S j = seg_n (lc th)) by (destruct HC as (_ & _ & _ & SG); destruct (SG SI) as [SN _]; lia).
      destruct (fwake (oflags o)); [destruct (xchg_no_waiter _)|]; inv H.
      * destruct (pub_ok_end (pubst (seg_i (lc th) + Z.of_nat j) false) j PH SJ eq_refl eq_refl eq_refl) as (th' & EQ & PR & PO).
        change (sum s t th o v (end_segment (pubst (seg_i (lc th) + Z.of_nat j) false) t th o)). rewrite EQ. apply sum_pub; auto.
      * apply (sum_pub j false); auto. apply pub_ok_done; auto.
      * destruct (pub_ok_end (pubst (seg_i (lc th) + Z.of_nat j) (wf (sslot s (seg_i (lc th) + Z.of_nat j)))) j PH SJ eq_refl eq_refl eq_refl) as (th' & EQ & PR & PO).
        change (sum s t th o v (end_segment (pubst (seg_i (lc th) + Z.of_nat j) (wf (sslot s (seg_i (lc th) + Z.of_nat j)))) t th o)). rewrite EQ. apply sum_pub; auto.
    + destruct (Nat.ltb (S j) (seg_n (lc th))) eqn:LT2; inv H.
      * apply Nat.ltb_lt in LT2. apply (sum_pub j (wf (sslot s (seg_i (lc th) + Z.of_nat j)))); auto. apply pub_ok_next; auto.
      * apply Nat.ltb_ge in LT2. assert (SJ : S j = seg_n (lc th)) by lia. unfold after_pubs. destruct (fwake (oflags o)).
        -- apply (sum_pub j (wf (sslot s (seg_i (lc th) + Z.of_nat j)))); auto. apply pub_ok_done; auto.
        -- destruct (pub_ok_end (pubst (seg_i (lc th) + Z.of_nat j) (wf (sslot s (seg_i (lc th) + Z.of_nat j)))) j PH SJ eq_refl eq_refl eq_refl) as (th' & EQ & PR & PO).
           change (sum s t th o v (end_segment (pubst (seg_i (lc th) + Z.of_nat j) (wf (sslot s (seg_i (lc th) + Z.of_nat j)))) t th o)). rewrite EQ. apply sum_pub; auto.
  - (* PubWake *)
    assert (PH : phase_of o (tpc th) (lc th) = PDone) by (rewrite E; reflexivity).
    inv H. destruct (done_facts PH) as (HC & VO & NO & IN). apply sum_end_segment; auto. apply csame_wake. apply thr_ok_wake.
  - (* FenceSC *)
    assert (PH : phase_of o (tpc th) (lc th) = PDone) by (rewrite E; reflexivity).
    destruct (Nat.ltb 0 (seg_n (lc th))); inv H.
    + apply sum_done; auto. apply csame_refl. left; reflexivity.
    + destruct (done_facts PH) as (HC & VO & NO & IN). apply sum_end_segment; auto. apply csame_refl. left; reflexivity.
  - (* WkLoad *)
    assert (PH : phase_of o (tpc th) (lc th) = PDone) by (rewrite E; reflexivity).
    destruct (wakeup_no_waiter _); [|destruct (wakeup_moved_on _ _)]; inv H.
    + apply sum_next_wk; auto. apply csame_refl. left; reflexivity.
    + apply sum_next_wk; auto. apply csame_refl. left; reflexivity.
    + apply sum_done; auto. apply csame_refl. left; reflexivity.
  - (* WkCas *)
    assert (PH : phase_of o (tpc th) (lc th) = PDone) by (rewrite E; reflexivity).
    destruct (Z.eqb _ _); inv H.
    + apply sum_done; auto. apply csame_set_wf; reflexivity. left; reflexivity.
    + apply sum_next_wk; auto. apply csame_refl. left; reflexivity.
  - (* WkWake *)
    assert (PH : phase_of o (tpc th) (lc th) = PDone) by (rewrite E; reflexivity).
    inv H. apply sum_next_wk; auto. apply csame_wake. apply thr_ok_wake.
  - (* TryVer *)
    destruct LV as (B1 & EX & KO & JL & VO).
    assert (NO : forall i0, ~ vown v i0) by (vnone E E).
    assert (PH : phase_of o (tpc th) (lc th) = PTry1 i 0) by (rewrite E; reflexivity).
    rewrite slot_z_mod in H. destruct (try_deal_not_ready _ _) eqn:RD; inv H.
    + apply sum_same; try reflexivity. apply csame_refl. rewrite E. reflexivity. repeat split.
    + unfold try_deal_not_ready in RD. apply negb_false_iff, Z.eqb_eq in RD. rewrite ever_xver in RD.
      apply sum_loc; try reflexivity. apply csame_refl. unfold loc_ok. rewrite tv_goto. cbn [phase_of].
      unfold tfacts, linv, vknown, vtry, inhold, vown, vrole, trycond. cbn [v_ph v_l v_op].
      split; [split; [|split]|split; [|split]].
      * repeat (split; auto).
      * intros i0 [].
      * intros i0 Hi _. assert (i0 = i) by lia. subst i0. symmetry. exact RD.
      * intros i0 [].
      * intros i0 [].
      * intros i0 Hi. destruct (NO i0 Hi).
  - (* TryReidx *)
    destruct LV as (B1 & EX & KO & JL & VO).
    assert (NO : forall i0, ~ vown v i0) by (vnone E E).
    destruct (try_deal_same_index _ _); inv H.
    + apply sum_finish; auto. apply csame_refl.
    + apply sum_loc; try reflexivity. apply csame_refl. unfold loc_ok. rewrite tv_goto. cbn [phase_of].
      unfold tfacts, linv, vknown, vtry, inhold, vown, vrole, trycond. cbn [v_ph v_l v_op]. pose proof (HNN (is_push o)).
      split; [split; [|split]|split; [|split]].
      * repeat (split; auto); lia.
      * intros i0 [].
      * intros i0 Hi. lia.
      * intros i0 [].
      * intros i0 [].
      * intros i0 Hi. destruct (NO i0 Hi).
  - (* TryCas *)
    destruct LV as (B1 & EX & KO & JL & VO).
    assert (NO : forall i0, ~ vown v i0) by (vnone E E).
    assert (NH : forall i0, ~ inhold v i0) by (vnone E E).
    destruct (oconc o && negb (next_of s (is_push o) =? i)) eqn:CF; inv H.
    + apply sum_loc; try reflexivity. apply csame_refl. unfold loc_ok. rewrite tv_goto. cbn [phase_of].
      unfold tfacts, linv, vknown, vtry, inhold, vown, vrole, trycond. cbn [v_ph v_l v_op]. pose proof (HNN (is_push o)).
      split; [split; [|split]|split; [|split]].
      * repeat (split; auto); lia.
      * intros i0 [].
      * intros i0 Hi. lia.
      * intros i0 [].
      * intros i0 [].
      * intros i0 Hi. destruct (NO i0 Hi).
    + assert (NI : next_of s (is_push o) = i).
      { apply andb_false_iff in CF as [OC|NE]. symmetry; auto. apply negb_false_iff, Z.eqb_eq in NE. auto. }
      assert (TC : oconc o = false \/ next_of s (is_push o) = i) by auto.
      destruct (KT KO) as (TM & SI & ON). pose proof (Z.mod_pos_bound i (C s) CP) as MB.
      set (l' := add_tk (set_seg (lc th) i 1 None)).
      set (X := with_next s (is_push o) (try_deal_next_index i)).
      assert (NXr : next_of X (is_push o) = i + 1) by (unfold X, next_of, try_deal_next_index; cbn; destruct (is_push o); reflexivity).
      assert (NXo : next_of X (negb (is_push o)) = next_of s (negb (is_push o))) by (unfold X, next_of; cbn; destruct (is_push o); reflexivity).
      eapply SAcq with (n := 1%nat) (th' := goto_lc th Callback l');
        [apply nth_upd; reflexivity | apply others_upd; reflexivity | apply frame_upd; reflexivity
        | change (next_of X (is_push o) = next_of s (is_push o) + Z.of_nat 1); lia | exact NXo | reflexivity | reflexivity
        | reflexivity | intros; reflexivity | exact NH | exact NO | apply tv_goto_lc | reflexivity | | | ].
      * unfold tfacts, linv, vknown, vtry, vrole, hcommon, segok, seg_end, valsok, restn. cbn [phase_of v_ph v_l v_op].
        change (C (upd X t (goto_lc th Callback l'))) with (C s).
        change (next_of (upd X t (goto_lc th Callback l')) (is_push o)) with (next_of X (is_push o)). rewrite NXr.
        cbn [l' add_tk set_seg seg_i seg_n seg_req rest vals]. rewrite KO, SI.
        split; [|split].
        -- unfold valsok in VO. repeat split; auto; try lia; try (intros PU; specialize (VO PU); lia).
        -- intros i0 Hi. apply (TR i0). lia. exact TC.
        -- intros i0 [].
      * intros i0. unfold inhold, seg_end. cbn [phase_of v_ph v_l v_op l' add_tk set_seg seg_i seg_n rest]. rewrite KO. lia.
      * intros i0. unfold vown. cbn [phase_of v_ph]. tauto.
  - (* TnVer *)
    assert (PH : phase_of o (tpc th) (lc th) = PTry (seg_i (lc th)) j) by (rewrite E; reflexivity).
    destruct (try_facts j PH) as (B1 & EX & KO & SO & JL & VO & NO & NH & TRY).
    destruct (try_deal_n_not_ready _ _) eqn:RD; [destruct (try_deal_n_none _) eqn:ZE|destruct (Nat.ltb (S j) (seg_n (lc th))) eqn:LT]; inv H.
    + apply (sum_es_zero j); auto.
    + apply sum_loc; try reflexivity. apply csame_refl. unfold loc_ok. rewrite tv_goto_lc. cbn [phase_of seg_i seg_n set_just set_n].
      unfold tfacts, linv, vknown, vtry, inhold, vown, vrole, trycond. cbn [v_ph v_l v_op].
      split; [split; [|split]|split; [|split]].
      * split; [auto|split; [auto|split; [auto|split; [reflexivity|split; [|split; [cbn; lia|]]]]]].
        -- unfold segok in *. cbn. destruct SO as (S1 & S2 & S3 & S4). split; [auto|split; [lia|split; [lia|]]].
           destruct (rest (lc th)) as [[i2 n2]|]; auto. destruct S4 as (R1 & R2 & R3 & R4 & R5). repeat split; auto.
           intros K. destruct KO as [K'|K']; rewrite K' in K; discriminate.
        -- unfold valsok, restn in *. cbn. intros PU. specialize (VO PU). lia.
      * intros i [].
      * intros i Hi TC. apply TRY; auto.
      * intros i [].
      * intros i [].
      * intros i Hi. destruct (NO i Hi).
    + apply Nat.ltb_lt in LT. unfold try_deal_n_not_ready in RD. apply negb_false_iff, Z.eqb_eq in RD.
      destruct (seg_slot_j j SO ltac:(lia)) as [SS SE]. rewrite SS, SE in RD.
      apply sum_loc; try reflexivity. apply csame_refl. apply (loc_ok_try_grow _ j (S j)); auto. lia.
    + apply Nat.ltb_ge in LT. apply sum_loc; try reflexivity. apply csame_refl.
      apply (loc_ok_try_grow _ j (seg_n (lc th))); auto.
      destruct (Nat.eq_dec j (seg_n (lc th))) as [EJ|NJ]; [left; lia|right]. split; [lia|].
      unfold try_deal_n_not_ready in RD. apply negb_false_iff, Z.eqb_eq in RD.
      destruct (seg_slot_j j SO ltac:(lia)) as [SS SE]. rewrite SS, SE in RD. auto.
  - (* TnCas *)
    assert (PH : phase_of o (tpc th) (lc th) = PTry (seg_i (lc th)) (seg_n (lc th))) by (rewrite E; reflexivity).
    destruct (try_facts _ PH) as (B1 & EX & KO & SO & JL & VO & NO & NH & TRY).
    change (match o with OPopUntil _ _ _ => false | _ => conc (oflags o) end) with (oconc o) in H.
    unfold try_deal_n_next_index, try_deal_n_next_index_excl in H.
    destruct (try_deal_n_none _); [|destruct (oconc o) eqn:OC; [destruct (Z.eqb _ _) eqn:EQ|]]; inv H.
    + apply (sum_es_zero (seg_n (lc th))); auto.
    + apply Z.eqb_eq in EQ. apply acq_tryn; auto.
    + apply (sum_es_zero (seg_n (lc th))); auto.
    + apply acq_tryn; auto.
  - (* TnIdx *)
    assert (NO : forall i0, ~ vown v i0) by (vnone E E).
    destruct (split _ _ _ _) as [[i1 n1] r] eqn:SP. inv H. apply sum_try_start; auto.
    right. apply timed_kind; auto. destruct (KU (timed_kind LV)) as (_ & _ & PF & _). intros; congruence.
Qed.
End Step.
