(* C10 - Garbage collector: reclaimers run exactly once, never early, before stop returns.
   Only statements; proofs are `exact <lemma of GC/GCProofs.v>`.

   Reach kc bits progs s = "s is reachable from the initial state of the client programs `progs` (thread i owns
   accessor i; queue capacity 2^bits) under SOME schedule of the client threads and the collector thread", for the
   machine whose keep_reclaim loop condition is kc:  src_kc = the condition regenerated from the current source,
   fixed_kc = `running || index < tasks.size()` (the proposed repair).  Theorems stated for every kc hold for both.

   STATUS of the property text:
     * "invoked ... only after all critical regions that were open when it was retired have closed": c10_never_early
       (all kc, all programs, all schedules, all capacities).
     * "retiring blocks while the queue is full and resumes afterwards": c10_retire_blocks_iff_queue_full,
       c10_queue_never_over_capacity, c10_blocked_retire_resumes.
     * "no later than the return of stop()": FALSE of the current source - c10_all_before_stop_refuted (finding F2:
       stop() while a region is open; 18-step witness, replayed on the real code by checks/c10.py case d.f2), and
       c10_retire_racing_stop_refuted (a retire() overlapping stop() is discarded behind the marker).
   AFTER the fix `while (running || index < tasks.size())` is committed: c10_all_before_stop_refuted stops
   compiling (its witness no longer runs that way); delete it - see the note at the end of this file. *)
From Coq Require Import ZArith List Bool.
Require Import Verif.Gen.Gen_garbage_collector Verif.Conc.Machine Verif.GC.GCModel Verif.GC.GCProofs.
Import ListNotations.
Local Open Scope Z_scope.

(* `early` is set by the model at a reclaimer call iff some region (slot, generation) that was open at the tick of the
   task's retire() is still open at the call *)
Theorem c10_never_early : forall bits progs s, Reach src_kc bits progs s -> early s = false.
Proof. exact (gc_never_early src_kc). Qed.
Print Assumptions c10_never_early.

Theorem c10_never_early_any_loop : forall kc bits progs s, Reach kc bits progs s -> early s = false.
Proof. exact gc_never_early. Qed.
Print Assumptions c10_never_early_any_loop.

(* a thread inside retire()/stop() that holds ticket k cannot move exactly while k >= popped + capacity *)
Theorem c10_retire_blocks_iff_queue_full : forall kc s t th x b,
  nth_error (threads s) t = Some th -> tpc th = PPublish x b ->
  (gstep kc s t = None <-> (qhead s + cap s <= tk_ticket x)%nat).
Proof. exact gc_blocks_iff_full. Qed.
Print Assumptions c10_retire_blocks_iff_queue_full.

Theorem c10_queue_never_over_capacity : forall kc bits progs s, Reach kc bits progs s ->
  forall j x, nth_error (qall s) j = Some (Some x) -> (j < qhead s + cap s)%nat.
Proof. exact gc_queue_bounded. Qed.
Print Assumptions c10_queue_never_over_capacity.

(* once the collector has popped far enough the blocked retire() is enabled, and stays enabled whatever happens next *)
Theorem c10_blocked_retire_resumes : forall kc s t th x b sch,
  nth_error (threads s) t = Some th -> tpc th = PPublish x b -> (tk_ticket x < qhead s + cap s)%nat ->
  (tk_ticket x < qhead (run st (gstep kc) s sch) + cap (run st (gstep kc) s sch))%nat.
Proof. exact gc_resumes. Qed.
Print Assumptions c10_blocked_retire_resumes.

(* FINDING F2: the current source lets stop() return with an uncalled reclaimer *)
Theorem c10_all_before_stop_refuted :
  exists bits progs s, single_stop progs /\ Reach src_kc bits progs s /\ gver s < STOP_EPOCH /\ all_done s = true /\
                       ~ stop_complete s.
Proof. exact gc_all_before_stop_refuted. Qed.
Print Assumptions c10_all_before_stop_refuted.

(* FINDING: a retire() that overlaps stop() is popped together with the marker and discarded (no region involved) *)
Theorem c10_retire_racing_stop_refuted :
  exists bits progs s x, no_regions progs /\ Reach src_kc bits progs s /\ all_done s = true /\ coll_quiet s = true /\
    In (Some x) (qall s) /\ is_marker x = false /\ ~ In x (map fst (calls s)) /\ In x (gone s).
Proof. exact gc_retire_racing_stop_refuted. Qed.
Print Assumptions c10_retire_racing_stop_refuted.
