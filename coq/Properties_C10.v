(* C10 - Garbage collector: reclaimers run exactly once, never early, before stop returns.
   Only statements; proofs are `exact <lemma of GC/GCProofs.v>`.

   Reach kc bits progs s = "s is reachable from the initial state of the client programs `progs` (thread i owns
   accessor i; queue capacity 2^bits) under SOME schedule of the client threads and the collector thread" of the
   machine whose keep_reclaim loop condition is kc:
     src_kc   = the condition regenerated from the current source (Gen_garbage_collector.keep_looping),
     fixed_kc = `running || index < tasks.size()` (the form the source has since fix e0cd24e),
     orig_kc  = `running` (the loop before that fix).
   Theorems quantified over kc hold for both.  So every theorem is quantified over all programs, thread counts,
   capacities, batch boundaries and schedules (incl. every phase of the collector's poll/back-off loop).
   A reclaimer is identified by the queue ticket its retire() call took (one fetch_add per call,
   c10_ticket_identifies_the_call); calls s = reclaimer calls so far, in order.

   STATUS against the property text
     "invoked exactly once"            at most once: c10_at_most_once (+ ticket order = FIFO);  at least once is the
                                       stop clause below.
     "only after all regions open when it was retired have closed"      c10_never_early.
     "blocks while the queue is full and resumes without losing tasks"  c10_retire_blocks_iff_queue_full,
                                       c10_queue_never_over_capacity, c10_blocked_retire_resumes, c10_no_task_lost.
     "no later than the return of stop() / the destructor"
          TRUE of the current source (fix e0cd24e, `while (running || index < tasks.size())`) for every task that is
          not queued behind an earlier stop marker: c10_all_before_stop_returns; it rests on src_kc_is_fixed, which
          stops compiling if the loop condition is changed back.  Generic forms: c10_all_before_stop_returns_if_loop_waits,
          c10_all_before_stop_returns_fixed_loop.
          Regression witness of finding F2 (loop as it was, `while (running)`): c10_as_was_loop_refuted, replayed on
          the real code by checks/c10.py case d.f2 (now a plain regression case).
          STILL FALSE of the current source: a retire() overlapping stop() that lands behind the marker is discarded
          (c10_retire_racing_stop_refuted; KNOWN_FINDINGS sig retire-overlapping-stop-dropped).
   Not proved: liveness (stop() eventually returns) - only searched for by the scheduler runs / model exploration. *)
From Coq Require Import ZArith List Bool Sorted.
Require Import Verif.Gen.Gen_garbage_collector Verif.Conc.Machine Verif.GC.GCModel Verif.GC.GCProofs.
Import ListNotations.
Local Open Scope Z_scope.

(* ---- exactly once, part 1: never twice; calls happen in ticket (FIFO) order and each called task is the one
   published under its ticket *)
Theorem c10_at_most_once : forall kc bits progs s, Reach kc bits progs s ->
  StronglySorted Nat.lt (map tk_ticket (map fst (calls s))) /\
  forall x, In x (map fst (calls s)) -> nth_error (qall s) (tk_ticket x) = Some (Some x).
Proof. exact gc_at_most_once. Qed.
Print Assumptions c10_at_most_once.

Theorem c10_no_ticket_called_twice : forall kc bits progs s, Reach kc bits progs s -> NoDup (map tk_ticket (map fst (calls s))).
Proof. exact gc_calls_nodup. Qed.
Print Assumptions c10_no_ticket_called_twice.

Theorem c10_ticket_identifies_the_call : forall kc bits progs s, Reach kc bits progs s ->
  forall j x, nth_error (qall s) j = Some (Some x) -> tk_ticket x = j.
Proof. exact gc_ticket_is_position. Qed.
Print Assumptions c10_ticket_identifies_the_call.

(* ---- never early.  `early` is set by the model at a reclaimer call iff some region (slot, generation) that was open
   at the tick of the task's retire() is still open at the call; low_water_mark() is a slot-by-slot scan *)
Theorem c10_never_early : forall kc bits progs s, Reach kc bits progs s -> early s = false.
Proof. exact gc_never_early. Qed.
Print Assumptions c10_never_early.

(* ---- bounded queue.  A thread inside retire()/stop() holding ticket k cannot move exactly while k >= popped + capacity *)
Theorem c10_retire_blocks_iff_queue_full : forall kc s t th x b,
  nth_error (threads s) t = Some th -> tpc th = PPublish x b ->
  (gstep kc s t = None <-> (qhead s + cap s <= tk_ticket x)%nat).
Proof. exact gc_blocks_iff_full. Qed.
Print Assumptions c10_retire_blocks_iff_queue_full.

Theorem c10_queue_never_over_capacity : forall kc bits progs s, Reach kc bits progs s ->
  forall j x, nth_error (qall s) j = Some (Some x) -> (j < qhead s + cap s)%nat.
Proof. exact gc_queue_bounded. Qed.
Print Assumptions c10_queue_never_over_capacity.

(* once the collector has popped far enough the blocked retire() is enabled, and stays enabled whatever happens next *)
Theorem c10_blocked_retire_resumes : forall kc s t th x b sch,
  nth_error (threads s) t = Some th -> tpc th = PPublish x b -> (tk_ticket x < qhead s + cap s)%nat ->
  (tk_ticket x < qhead (run st (gstep kc) s sch) + cap (run st (gstep kc) s sch))%nat.
Proof. exact gc_resumes. Qed.
Print Assumptions c10_blocked_retire_resumes.

(* every popped ticket was published, and its task has been called, is pending in the collector's vector, or was
   discarded (gone: stop markers, tasks behind a marker in the same chunk, tasks pending when the loop exited) *)
Theorem c10_no_task_lost : forall kc bits progs s, Reach kc bits progs s ->
  forall j, (j < qhead s)%nat -> exists x, nth_error (qall s) j = Some (Some x) /\
    (In x (map fst (calls s)) \/ In x (skipn (cpos (col s)) (ctasks (col s))) \/ In x (gone s)).
Proof. exact gc_no_task_lost. Qed.
Print Assumptions c10_no_task_lost.

(* ---- stop().  stop_complete s: for every stop() that has returned after joining the collector, every task queued in
   front of its marker and not behind an earlier marker has been called *)
Theorem c10_all_before_stop_returns_if_loop_waits : forall kc, (forall r i n, kc r i n = r || Nat.ltb i n) ->
  forall bits progs s, Reach kc bits progs s -> stop_complete s.
Proof. exact gc_all_before_stop. Qed.
Print Assumptions c10_all_before_stop_returns_if_loop_waits.

Theorem c10_all_before_stop_returns_fixed_loop : forall bits progs s, Reach fixed_kc bits progs s -> stop_complete s.
Proof. exact gc_all_before_stop_fixed_loop. Qed.
Print Assumptions c10_all_before_stop_returns_fixed_loop.

(* the regenerated loop condition is one of the two forms *)
Theorem c10_source_loop_form : (forall r i n, src_kc r i n = r) \/ (forall r i n, src_kc r i n = r || Nat.ltb i n).
Proof. exact src_kc_form. Qed.
Print Assumptions c10_source_loop_form.

(* the positive theorem for the CURRENT source *)
Theorem c10_all_before_stop_returns : forall bits progs s, Reach src_kc bits progs s -> stop_complete s.
Proof. exact gc_all_before_stop_src. Qed.
Print Assumptions c10_all_before_stop_returns.

(* regression witness of finding F2 (fixed): the loop as it was lets stop() return with an uncalled reclaimer *)
Example c10_as_was_loop_refuted :
  exists bits progs s, single_stop progs /\ Reach orig_kc bits progs s /\ gver s < STOP_EPOCH /\ all_done s = true /\
                       ~ stop_complete s.
Proof. exact gc_as_was_loop_refuted. Qed.

(* KNOWN FINDING (current source): a retire() that overlaps stop() is popped together with the marker and discarded (no region involved) *)
Theorem c10_retire_racing_stop_refuted :
  exists bits progs s x, no_regions progs /\ Reach src_kc bits progs s /\ all_done s = true /\ coll_quiet s = true /\
    In (Some x) (qall s) /\ is_marker x = false /\ ~ In x (map fst (calls s)) /\ In x (gone s).
Proof. exact gc_retire_racing_stop_refuted. Qed.
Print Assumptions c10_retire_racing_stop_refuted.

(* ---- non-vacuity *)
Example c10_stop_waits_example : exists s, Reach fixed_kc 1 f2_progs s /\ all_done s = true /\ length (calls s) = 1%nat /\
  exists th, nth_error (threads s) 0 = Some th /\ In (RStop true 1 1) (results th).
Proof. exact fixed_example. Qed.
Example c10_blocked_example : exists s t th x b, Reach src_kc 0 [[ORetire; ORetire]] s /\ nth_error (threads s) t = Some th /\
  tpc th = PPublish x b /\ step s t = None.
Proof. exact blocked_example. Qed.
