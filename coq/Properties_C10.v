(* C10 - placeholder while the check is being brought up *)
From Coq Require Import ZArith List Bool.
Require Import Verif.Conc.Machine Verif.GC.GCModel Verif.GC.GCProofs.
