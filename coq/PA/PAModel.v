(* Executable model of babylon's page allocators and object pool (C17).  No proofs here.
     src/babylon/reusable/page_allocator.{h,cpp}   Cached / Batch / Counting page allocators
     src/babylon/concurrent/object_pool.{h,hpp}    ObjectPool (strict and auto-create modes)
     src/babylon/concurrent/bounded_queue.hpp      pop_n / push_n (callback, reverse_callback, num)

   PART A - interleaving machine for the clients of the compensating queue.
   The ConcurrentBoundedQueue is modelled at the level of its ticket contract (its slot/version/futex protocol is
   C01's subject): an unbounded TAPE of cells indexed by ticket; cell i is written by the owner of push ticket i
   and read by the owner of pop ticket i.  Ring slot (i mod capacity) at version 2*(i/capacity) is "cell i Free
   and cell i-capacity Consumed" (ready for push ticket i); version 2*(i/capacity)+1 is "cell i Full" (ready for
   pop ticket i).  Tickets are the two counters _next_push_index / _next_pop_index (fetch_add, load, CAS).
   One step = one atomic operation on a counter or on one cell's version, plus the local computation up to the
   next one; the user callback on a cell is executed with the publication of that cell's version (the cell is
   exclusively owned between readiness and publication, so nobody can observe the difference).
   Upstream allocator / object creator = fresh page ids 0,1,2,... in allocation order; `returned` records what
   went back upstream (or was destroyed) in order.  Ghost: err = a callback touched a cell in the wrong state
   (took a cell that was not Full, or overwrote a cell that was not Free / whose ring slot was still occupied).

   PART B - sequential model (one step = one call, calls of different threads interleave arbitrarily) of
   CountingPageAllocator over BatchPageAllocator over an upstream: the batch allocator has no shared atomics of
   its own, its per-thread prefetch buffer is thread-local. *)
From Coq Require Import ZArith List Bool Arith.
Require Import Verif.Gen.Gen_page_allocator.
Import ListNotations.

(* ------------------------------------------------------------------ tape *)
Inductive cell := Free | Full (p : nat) | Consumed.

Definition tget (tp : list cell) (i : nat) : cell := nth i tp Free.
Fixpoint tset (tp : list cell) (i : nat) (c : cell) : list cell :=
  match i, tp with
  | O, [] => [c]
  | O, _ :: r => c :: r
  | S i', [] => Free :: tset [] i' c
  | S i', x :: r => x :: tset r i' c
  end.
Definition cell_pages (c : cell) : list nat := match c with Full p => [p] | _ => [] end.
Definition tape_pages (tp : list cell) : list nat := flat_map cell_pages tp.   (* cache content, ticket order *)

Definition is_full (c : cell) : bool := match c with Full _ => true | _ => false end.
Definition is_free (c : cell) : bool := match c with Free => true | _ => false end.
Definition is_consumed (c : cell) : bool := match c with Consumed => true | _ => false end.

Definition pop_ready (tp : list cell) (i : nat) : bool := is_full (tget tp i).
Definition push_ready (qcap : nat) (tp : list cell) (i : nat) : bool :=
  (i <? qcap) || is_consumed (tget tp (i - qcap)).

(* pop_n / push_n(callback, reverse_callback, num) split the claimed tickets [index, index+num) at the end of the
   current round of the ring and invoke deal_n_continuously - hence the user callback - ONCE PER CONTIGUOUS
   SEGMENT.  The split is computed with the regenerated expressions of bounded_queue.hpp (slot mask = capacity-1):
   plan = (end of the first segment, second segment (start, length) if the claim wraps). *)
Definition seg_plan (r : bool) (qcap idx need : nat) : nat * option (nat * nat) :=
  let zi := Z.of_nat idx in let zn_ := Z.of_nat need in let mask := (Z.of_nat qcap - 1)%Z in
  if r then
    let rb := pushn_round zi mask in
    if pushn_fits zi zn_ rb then (idx + Z.to_nat (pushn_whole zn_), None)
    else (idx + Z.to_nat (pushn_first zi rb), Some (Z.to_nat (pushn_start2 rb), Z.to_nat (pushn_second zi zn_ rb)))
  else
    let rb := popn_round zi mask in
    if popn_fits zi zn_ rb then (idx + Z.to_nat (popn_whole zn_), None)
    else (idx + Z.to_nat (popn_first zi rb), Some (Z.to_nat (popn_start2 rb), Z.to_nat (popn_second zi zn_ rb))).
(* try_pop_n (the destructor) *)
Definition round_end (qcap i : nat) : nat := Z.to_nat (trypopn_round (Z.of_nat i) (Z.of_nat qcap - 1)).

(* ------------------------------------------------------------------ Gen wrappers (nat <-> Z) *)
Definition zn (n : nat) : Z := Z.of_nat n.
Definition role_z (r : bool) : Z := if r then 1%Z else 0%Z.
Definition alloc_need_n (num qcap : nat) : nat := Z.to_nat (popn_claim (alloc_claim (alloc_need (zn num) (zn qcap)))).
Definition free_need_n (num qcap : nat) : nat := Z.to_nat (pushn_claim (free_claim (free_need (zn num) (zn qcap)))).
Definition pool_pop_n : nat := Z.to_nat (popn_claim pool_pop_num).
Definition pool_push_n : nat := Z.to_nat (pushn_claim pool_push_num).
(* deal_n_continuously(callback, reverse_callback, index, num): compensate (true) or yield (false) *)
Definition comp_now (r : bool) (npop npush qcap index num : nat) : bool :=
  comp_needed (comp_need_index (role_z r) (zn npop) (zn npush) (zn qcap)) (zn index) (zn num).
Definition pool_drops (pcap npush npop : nat) : bool := pool_drop (zn pcap) (queue_size (zn npush) (zn npop)).

(* ------------------------------------------------------------------ client programs *)
Inductive op :=
| OAlloc (n : nat)   (* CachedPageAllocator::allocate(pages, n) *)
| OFree (n : nat)    (* CachedPageAllocator::deallocate(the first n pages the caller holds) *)
| OPoolPop           (* ObjectPool::pop(), auto-create mode: pop_n(cb, creator, 1) *)
| OPoolPush          (* ObjectPool::push(first held object), auto-create mode (also what the Deleter does) *)
| ONew               (* the client constructs an object itself (strict mode: injection) *)
| OSPop              (* ObjectPool::pop(), strict mode: blocks while the pool is empty *)
| OSPush             (* ObjectPool::push(first held object), strict mode *)
| OTryPop.           (* ObjectPool::try_pop() *)

Inductive res :=
| RAlloc (pages : list nat) | RFree | RPush (destroyed : bool) | RNew (p : nat) | RPop (p : nat)
| RTry (p : option nat) | RSPush | RSkip.

(* role r : true = this thread holds PUSH tickets (deallocate / push), false = POP tickets (allocate / pop);
   the compensation of role r acts in the opposite role on one ticket *)
Inductive pc :=
| Idle
| Claim (r : bool) (need : nat)   (* fetch_add(need) on the own counter pending *)
| WCheck (r : bool)               (* load version of cell `pos` of the current segment *)
| WNeed (r : bool)                (* load the opposite counter, decide compensation / yield *)
| TIdx (r : bool)                 (* try_{push,pop}_n(reverse, 1): load the opposite counter *)
| TVer (r : bool) (k : nat)       (*   version check of cell k *)
| TCas (r : bool) (k : nat)       (*   CAS k -> k+1 on the opposite counter *)
| TAct (r : bool) (k : nat)       (*   reverse callback on cell k + publish *)
| Act (r : bool)                  (* callback on cell `lo` + publish, one cell per step *)
| Extra (r : bool)                (* part beyond the capacity goes straight to / comes straight from upstream *)
| SWait (r : bool) (i : nat)      (* strict mode: ticket i taken, waiting for the cell (pop: futex, push: spin) *)
| YVer (k : nat)                  (* try_pop: version check of cell k (index loaded) *)
| YCas (k : nat)                  (* try_pop: CAS k -> k+1 *)
| YAct (k : nat)                  (* try_pop: callback + publish *)
| PSize1                          (* auto push: size(): load _next_pop_index *)
| PSize2 (a : nat).               (* auto push: size(): load _next_push_index, capacity test *)

Record thread := {
  prog : list op; opi : nat; tpc : pc;
  held : list nat;      (* pages / objects the caller owns *)
  buf : list nat;       (* the caller's page array of the running call: deallocate = the pages handed in (never
                           shrinks), allocate = the pages written so far *)
  cur : nat;            (* the `pages` cursor into that array, advanced by the callbacks *)
  lo : nat; hi : nat;   (* own tickets still to be served: [lo, hi) *)
  ss : nat; se : nat;   (* current deal_n_continuously segment [ss, se): one callback invocation *)
  pos : nat;            (* cell being awaited *)
  rest : option (nat * nat);   (* second segment (start, length) when the claim wraps the ring *)
  ex : nat;             (* allocate: num (size of the out array) *)
  results : list res }.

Record st := {
  qcap : nat;                 (* _free_pages.capacity() / _free_objects.capacity() (>= 1) *)
  pcap : nat;                 (* ObjectPool::_capacity *)
  npush : nat; npop : nat; tape : list cell;
  fresh : nat;                (* pages obtained from upstream / objects created so far = next id *)
  returned : list nat;        (* pages returned upstream / objects destroyed, in order *)
  recycled : list nat;        (* recycler invocations (object ids), in order *)
  pushes : list nat;          (* objects handed to ObjectPool::push, in order (ghost) *)
  err : bool;
  threads : list thread }.

Definition mk_thread (p : list op) : thread :=
  {| prog := p; opi := 0; tpc := Idle; held := []; buf := []; cur := 0; lo := 0; hi := 0; ss := 0; se := 0; pos := 0;
     rest := None; ex := 0; results := [] |}.
Definition init (qc pc : nat) (progs : list (list op)) : st :=
  {| qcap := qc; pcap := pc; npush := 0; npop := 0; tape := []; fresh := 0; returned := []; recycled := [];
     pushes := []; err := false; threads := map mk_thread progs |}.

Fixpoint set_nth {A} (n : nat) (x : A) (l : list A) : list A :=
  match l, n with
  | [], _ => []
  | _ :: r, O => x :: r
  | y :: r, S n' => y :: set_nth n' x r
  end.

(* ---- thread updates ---- *)
Definition goto (th : thread) (p : pc) : thread :=
  {| prog := prog th; opi := opi th; tpc := p; held := held th; buf := buf th; cur := cur th; lo := lo th; hi := hi th;
     ss := ss th; se := se th; pos := pos th; rest := rest th; ex := ex th; results := results th |}.
Definition with_pos (th : thread) (p : pc) (ps : nat) : thread :=
  {| prog := prog th; opi := opi th; tpc := p; held := held th; buf := buf th; cur := cur th; lo := lo th; hi := hi th;
     ss := ss th; se := se th; pos := ps; rest := rest th; ex := ex th; results := results th |}.
Definition with_bufs (th : thread) (p : pc) (h b : list nat) : thread :=
  {| prog := prog th; opi := opi th; tpc := p; held := h; buf := b; cur := cur th; lo := lo th; hi := hi th;
     ss := ss th; se := se th; pos := pos th; rest := rest th; ex := ex th; results := results th |}.
Definition with_seg (th : thread) (p : pc) (b : list nat) (c l h sst s ps : nat) (rs : option (nat * nat)) : thread :=
  {| prog := prog th; opi := opi th; tpc := p; held := held th; buf := b; cur := c; lo := l; hi := h;
     ss := sst; se := s; pos := ps; rest := rs; ex := ex th; results := results th |}.
Definition with_ex (th : thread) (p : pc) (e : nat) : thread :=
  {| prog := prog th; opi := opi th; tpc := p; held := held th; buf := buf th; cur := cur th; lo := lo th; hi := hi th;
     ss := ss th; se := se th; pos := pos th; rest := rest th; ex := e; results := results th |}.
Definition finish (th : thread) (h : list nat) (r : res) : thread :=
  {| prog := prog th; opi := S (opi th); tpc := Idle; held := h; buf := []; cur := cur th; lo := lo th; hi := hi th;
     ss := ss th; se := se th; pos := pos th; rest := rest th; ex := 0; results := results th ++ [r] |}.

(* ---- shared updates ---- *)
Definition with_threads (s : st) (ths : list thread) : st :=
  {| qcap := qcap s; pcap := pcap s; npush := npush s; npop := npop s; tape := tape s; fresh := fresh s;
     returned := returned s; recycled := recycled s; pushes := pushes s; err := err s; threads := ths |}.
Definition upd (s : st) (t : nat) (th : thread) : st := with_threads s (set_nth t th (threads s)).
Definition with_ctr (s : st) (r : bool) (v : nat) : st :=
  {| qcap := qcap s; pcap := pcap s; npush := if r then v else npush s; npop := if r then npop s else v;
     tape := tape s; fresh := fresh s; returned := returned s; recycled := recycled s; pushes := pushes s;
     err := err s; threads := threads s |}.
Definition with_mem (s : st) (tp : list cell) (f : nat) (ret : list nat) (e : bool) : st :=
  {| qcap := qcap s; pcap := pcap s; npush := npush s; npop := npop s; tape := tp; fresh := f;
     returned := ret; recycled := recycled s; pushes := pushes s; err := e; threads := threads s |}.
Definition with_recycled (s : st) (p : nat) : st :=
  {| qcap := qcap s; pcap := pcap s; npush := npush s; npop := npop s; tape := tape s; fresh := fresh s;
     returned := returned s; recycled := recycled s ++ [p]; pushes := pushes s ++ [p]; err := err s;
     threads := threads s |}.
Definition ctr (s : st) (r : bool) : nat := if r then npush s else npop s.

(* the callback of a POP ticket on cell k: read the page, publish "consumed" *)
Definition take (s : st) (k : nat) : st * list nat :=
  match tget (tape s) k with
  | Full p => (with_mem s (tset (tape s) k Consumed) (fresh s) (returned s) (err s), [p])
  | _ => (with_mem s (tape s) (fresh s) (returned s) true, [])
  end.
(* the callback of a PUSH ticket on cell k: write page p, publish "full" *)
Definition put (s : st) (k : nat) (p : nat) : st :=
  if is_free (tget (tape s) k) && push_ready (qcap s) (tape s) k
  then with_mem s (tset (tape s) k (Full p)) (fresh s) (returned s) (err s)
  else with_mem s (tset (tape s) k (Full p)) (fresh s) (returned s) true.
Definition upstream_alloc (s : st) (n : nat) : st * list nat :=
  (with_mem s (tape s) (fresh s + n) (returned s) (err s), seq (fresh s) n).
Definition upstream_free (s : st) (l : list nat) : st :=
  with_mem s (tape s) (fresh s) (returned s ++ l) (err s).

(* the callbacks of CachedPageAllocator: the pop callback `pages = std::copy(begin, end, pages)` writes the segment
   at the cursor and advances it, the push callback `copy_n(pages, n, begin); pages += n` reads at the cursor and
   advances it; j = offset of the cell inside the segment *)
Definition write_at (i : nat) (l b : list nat) : list nat :=
  match l with
  | p :: _ => firstn i b ++ repeat 0 (i - length b) ++ p :: skipn (S i) b
  | [] => b
  end.
Definition src_index (th : thread) (j : nat) : nat := Z.to_nat (free_copy_src (zn (cur th))) + j.
Definition dst_index (th : thread) (j : nat) : nat := Z.to_nat (alloc_copy_dst (zn (cur th))) + j.
Definition cursor_after (r : bool) (th : thread) : nat :=
  if r then cur th + Z.to_nat (free_cursor_adv (free_copy_num (free_n (zn (ss th)) (zn (se th)))))
  else Z.to_nat (alloc_cursor_next (zn (ss th)) (zn (se th)) (zn (cur th))).
Definition extra_alloc_num (th : thread) : nat := Z.to_nat (alloc_end 0 (zn (ex th))) - cur th.

Definition cur_op (th : thread) : option op := nth_error (prog th) (opi th).
Definition alloc_res (th : thread) (pages : list nat) : res :=
  match cur_op th with Some OPoolPop => match pages with p :: _ => RPop p | [] => RSkip end | _ => RAlloc pages end.
Definition free_res (th : thread) : res :=
  match cur_op th with Some OPoolPush => RPush false | _ => RFree end.

Definition step_thread (s : st) (t : nat) (th : thread) : option st :=
  match tpc th with
  | Idle =>
    match cur_op th with
    | None => None
    | Some (OAlloc n) =>
      let need := alloc_need_n n (qcap s) in
      Some (upd s t (with_ex (with_bufs th (Claim false need) (held th) []) (Claim false need) n))
    | Some OPoolPop =>
      Some (upd s t (with_ex (with_bufs th (Claim false pool_pop_n) (held th) []) (Claim false pool_pop_n) pool_pop_n))
    | Some (OFree n) =>
      let b := firstn n (held th) in
      Some (upd s t (with_bufs th (Claim true (free_need_n (length b) (qcap s))) (skipn n (held th)) b))
    | Some OPoolPush =>
      match held th with
      | [] => Some (upd s t (finish th [] RSkip))
      | p :: h => Some (upd (with_recycled s p) t (with_bufs th PSize1 h [p]))   (* the recycler runs first *)
      end
    | Some ONew => Some (upd (fst (upstream_alloc s 1)) t (finish th (held th ++ [fresh s]) (RNew (fresh s))))
    | Some OSPop =>                                                            (* fetch_add(1) *)
      Some (upd (with_ctr s false (S (npop s))) t (goto th (SWait false (npop s))))
    | Some OSPush =>
      match held th with
      | [] => Some (upd s t (finish th [] RSkip))
      | p :: h =>                                                              (* recycler, then fetch_add(1) *)
        Some (upd (with_ctr (with_recycled s p) true (S (npush s))) t (with_bufs th (SWait true (npush s)) h [p]))
      end
    | Some OTryPop => Some (upd s t (goto th (YVer (npop s))))               (* index load *)
    end
  | Claim r need =>                                                           (* fetch_add(need) *)
    let idx := ctr s r in
    let s1 := with_ctr s r (idx + need) in
    let h := idx + need in
    let (e, rs) := seg_plan r (qcap s) idx need in
    Some (upd s1 t (with_seg th (if Nat.eqb need 0 then Extra r else WCheck r) (buf th) 0 idx h idx
                             (if Nat.eqb need 0 then idx else e) idx (if Nat.eqb need 0 then None else rs)))
  | WCheck r =>
    let ready := if r then push_ready (qcap s) (tape s) (pos th) else pop_ready (tape s) (pos th) in
    if ready then
      if Nat.eqb (S (pos th)) (se th) then Some (upd s t (with_pos th (Act r) (S (pos th))))
      else Some (upd s t (with_pos th (WCheck r) (S (pos th))))
    else Some (upd s t (goto th (WNeed r)))
  | WNeed r =>
    if comp_now r (npop s) (npush s) (qcap s) (lo th) (se th - lo th)
    then Some (upd s t (goto th (TIdx r)))
    else Some (upd s t (goto th (WCheck r)))                                  (* S::yield() *)
  | TIdx r => Some (upd s t (goto th (TVer r (ctr s (negb r)))))
  | TVer r k =>
    let ready := if r then pop_ready (tape s) k else push_ready (qcap s) (tape s) k in
    if ready then Some (upd s t (goto th (TCas r k))) else Some (upd s t (goto th (WCheck r)))
  | TCas r k =>
    if Nat.eqb (ctr s (negb r)) k then Some (upd (with_ctr s (negb r) (S k)) t (goto th (TAct r k)))
    else Some (upd s t (goto th (WCheck r)))
  | TAct r k =>
    if r then                                   (* deallocate compensates: pop one page, give it upstream *)
      let (s1, l) := take s k in Some (upd (upstream_free s1 l) t (goto th (WCheck r)))
    else                                        (* allocate compensates: push one page fresh from upstream *)
      let (s1, l) := upstream_alloc s 1 in
      Some (upd (put s1 k (fresh s)) t (goto th (WCheck r)))
  | Act r =>                                 (* one cell of the segment callback + publication of its version *)
    let k := lo th in
    let j := k - ss th in
    let nxt (b : list nat) :=
      if Nat.eqb (S k) (se th) then                                        (* the callback returns: cursor advanced *)
        match rest th with
        | None => with_seg th (Extra r) b (cursor_after r th) (S k) (hi th) (S k) (se th) (pos th) None
        | Some (b2, n2) => with_seg th (WCheck r) b (cursor_after r th) (S k) (hi th) b2 (b2 + n2) b2 None
        end
      else with_seg th (Act r) b (cur th) (S k) (hi th) (ss th) (se th) (pos th) (rest th) in
    if r then Some (upd (put s k (nth (src_index th j) (buf th) 0)) t (nxt (buf th)))
    else let (s1, l) := take s k in Some (upd s1 t (nxt (write_at (dst_index th j) l (buf th))))
  | Extra r =>
    if r then Some (upd (upstream_free s (skipn (cur th) (buf th))) t (finish th (held th) (free_res th)))
    else
      let (s1, l) := upstream_alloc s (extra_alloc_num th) in
      let out := firstn (cur th) (buf th) ++ l in
      Some (upd s1 t (finish th (held th ++ out) (alloc_res th out)))
  | SWait r i =>
    if r then
      if push_ready (qcap s) (tape s) i then
        match buf th with
        | p :: _ => Some (upd (put s i p) t (finish th (held th) RSPush))
        | [] => Some (upd s t (finish th (held th) RSkip))
        end
      else None
    else
      if pop_ready (tape s) i then
        let (s1, l) := take s i in
        Some (upd s1 t (finish th (held th ++ l) (match l with p :: _ => RPop p | [] => RSkip end)))
      else None
  | YVer k =>
    if pop_ready (tape s) k then Some (upd s t (goto th (YCas k)))
    else if Nat.eqb (npop s) k then Some (upd s t (finish th (held th) (RTry None)))
    else Some (upd s t (goto th (YVer (npop s))))
  | YCas k =>
    if Nat.eqb (npop s) k then Some (upd (with_ctr s false (S k)) t (goto th (YAct k)))
    else Some (upd s t (goto th (YVer (npop s))))
  | YAct k =>
    let (s1, l) := take s k in
    Some (upd s1 t (finish th (held th ++ l) (RTry (match l with p :: _ => Some p | [] => None end))))
  | PSize1 => Some (upd s t (goto th (PSize2 (npop s))))
  | PSize2 a =>
    if pool_drops (pcap s) (npush s) a
    then Some (upd (upstream_free s (buf th)) t (finish th (held th) (RPush true)))   (* unique_ptr destroyed *)
    else Some (upd s t (goto th (Claim true pool_push_n)))
  end.

Definition step (s : st) (t : nat) : option st :=
  match nth_error (threads s) t with
  | Some th => step_thread s t th
  | None => None
  end.

Definition thread_done (th : thread) : bool :=
  match tpc th, cur_op th with Idle, None => true | _, _ => false end.
Definition all_done (s : st) : bool := forallb thread_done (threads s).
Definition is_idle (th : thread) : bool := match tpc th with Idle => true | _ => false end.
Definition quiescent (s : st) : bool := forallb is_idle (threads s).

(* ---- ~CachedPageAllocator: try_pop_n<false,false>(upstream->deallocate each, capacity()), run at quiescence ---- *)
Fixpoint count_ready (tp : list cell) (i n : nat) : nat :=
  match n with
  | O => O
  | S n' => if pop_ready tp i then S (count_ready tp (S i) n') else O
  end.
Fixpoint drop_cells (s : st) (i n : nat) : st :=
  match n with
  | O => s
  | S n' => let (s1, l) := take s i in drop_cells (upstream_free s1 l) (S i) n'
  end.
(* try_deal_n_continuously<false, false, pop>(cb, index, num) -> (state, popped) *)
Definition try_pop_cont (s : st) (i n : nat) : st * nat :=
  let c := count_ready (tape s) i n in
  if Nat.eqb c 0 then (s, 0) else (drop_cells (with_ctr s false (i + c)) i c, c).
Definition try_pop_n_seq (s : st) (num : nat) : st :=
  let i := npop s in
  let e := i + num in
  let rb := round_end (qcap s) i in
  if e <=? rb then fst (try_pop_cont s i (e - i))
  else
    let c := rb - i in
    let (s1, popped) := try_pop_cont s i c in
    if popped <? c then s1 else fst (try_pop_cont s1 rb (e - rb)).
Definition dtor (s : st) : st := try_pop_n_seq s (Z.to_nat (dtor_num (zn (qcap s)))).

(* observable outcome of an execution, as the implementation driver prints it *)
Definition outcome (s : st) : list (list res) * (list nat * list nat * nat) :=
  (map results (threads s), (tape_pages (tape s), returned s, fresh s)).
Definition all_held (s : st) : list nat := flat_map held (threads s).
Definition all_buf (s : st) : list nat := flat_map buf (threads s).

(* =========================================================================================== PART B *)
(* Counting(Batch(upstream)): per-thread prefetch buffer = (buffer content, next_page offset) *)
Record bslot := { bbuf : list nat; bnext : nat }.
Record bst := {
  batch : nat;                         (* _batch_size *)
  slots : list bslot;                  (* EnumerableThreadLocal<Slot>, index = thread *)
  bheld : list (list nat);             (* pages each thread holds *)
  bfresh : nat; breturned : list nat;  (* upstream *)
  bcount : Z;                          (* CountingPageAllocator::_allocate_page_num *)
  berr : bool }.                       (* a page was read outside the buffer *)

Inductive bop :=
| BAlloc (t : nat)            (* counting.allocate() on thread t *)
| BAllocN (t : nat) (n : nat) (* counting.allocate(pages, n) *)
| BFree (t : nat)             (* counting.deallocate(first held page) *)
| BFreeN (t : nat) (n : nat). (* counting.deallocate(first n held pages, n) *)

Definition binit (b nthreads : nat) : bst :=
  {| batch := b;
     slots := repeat {| bbuf := repeat 0 (Z.to_nat (batch_slot_size (zn b))); bnext := Z.to_nat (batch_slot_size (zn b)) |} nthreads;
     bheld := repeat [] nthreads; bfresh := 0; breturned := []; bcount := 0%Z; berr := false |}.

Definition bslot0 : bslot := {| bbuf := []; bnext := 0 |}.

(* BatchPageAllocator::allocate() on thread t: (state, page) *)
Definition batch_alloc1 (s : bst) (t : nat) : bst * nat :=
  let sl := nth t (slots s) bslot0 in
  let bend := length (bbuf sl) in
  if batch_has (zn (bnext sl)) (zn bend) then
    let p := nth (bnext sl) (bbuf sl) 0 in
    ({| batch := batch s; slots := set_nth t {| bbuf := bbuf sl; bnext := S (bnext sl) |} (slots s);
        bheld := bheld s; bfresh := bfresh s; breturned := breturned s; bcount := bcount s; berr := berr s |}, p)
  else
    let n := Z.to_nat (batch_refill_num (zn (batch s))) in
    let got := seq (bfresh s) n in                       (* _upstream->allocate(buffer.data(), _batch_size) *)
    let nb := got ++ skipn n (bbuf sl) in
    let e := berr s || negb (n <=? bend) || Nat.eqb bend 0 in   (* writes / reads beyond the buffer *)
    ({| batch := batch s; slots := set_nth t {| bbuf := nb; bnext := Z.to_nat (batch_next_after_refill 0) |} (slots s);
        bheld := bheld s; bfresh := bfresh s + n; breturned := breturned s; bcount := bcount s; berr := e |},
     nth 0 nb 0)
.
Fixpoint batch_allocn (s : bst) (t n : nat) : bst * list nat :=
  match n with
  | O => (s, [])
  | S n' => let (s1, p) := batch_alloc1 s t in let (s2, l) := batch_allocn s1 t n' in (s2, p :: l)
  end.
Definition b_give (s : bst) (t : nat) (l : list nat) (dc : Z) : bst :=
  {| batch := batch s; slots := slots s; bheld := set_nth t (nth t (bheld s) [] ++ l) (bheld s); bfresh := bfresh s;
     breturned := breturned s; bcount := (bcount s + dc)%Z; berr := berr s |}.
Definition b_return (s : bst) (t : nat) (n : nat) (dc : Z) : bst :=
  let h := nth t (bheld s) [] in
  {| batch := batch s; slots := slots s; bheld := set_nth t (skipn n h) (bheld s); bfresh := bfresh s;
     breturned := breturned s ++ firstn n h; bcount := (bcount s + dc)%Z; berr := berr s |}.

Definition bstep (s : bst) (o : bop) : bst :=
  match o with
  | BAlloc t => let (s1, p) := batch_alloc1 s t in b_give s1 t [p] count_alloc1
  | BAllocN t n => let (s1, l) := batch_allocn s t n in b_give s1 t l (count_allocn (zn n))
  | BFree t => match nth t (bheld s) [] with [] => s | _ => b_return s t 1 count_free1 end
  | BFreeN t n => let k := Nat.min n (length (nth t (bheld s) [])) in b_return s t k (count_freen (zn k))
  end.
Definition brun (s : bst) (ops : list bop) : bst := fold_left bstep ops s.

Definition slot_rest (sl : bslot) : list nat :=    (* pages still prefetched in a slot: [next_page, end) *)
  skipn (bnext sl) (bbuf sl).
(* ~BatchPageAllocator *)
Definition bdtor_slot (ret : list nat) (sl : bslot) : list nat :=
  if batch_dtor_has (zn (bnext sl)) (zn (length (bbuf sl)))
  then ret ++ firstn (Z.to_nat (batch_dtor_num (zn (bnext sl)) (zn (length (bbuf sl))))) (skipn (bnext sl) (bbuf sl))
  else ret.
Definition bdtor (s : bst) : bst :=
  {| batch := batch s; slots := map (fun sl => {| bbuf := bbuf sl; bnext := length (bbuf sl) |}) (slots s);
     bheld := bheld s; bfresh := bfresh s;
     breturned := fold_left bdtor_slot (slots s) (breturned s); bcount := bcount s; berr := berr s |}.
Definition allocated_page_num (s : bst) : Z := count_value (bcount s).
Definition boutcome (s : bst) : list (list nat) * list (list nat) * (list nat * nat * Z) :=
  (bheld s, map slot_rest (slots s), (breturned s, bfresh s, allocated_page_num s)).

(* =========================================================================================== PART C *)
(* Handle / Deleter routing between several ObjectPools.  One step = one call (calls are atomic here: the
   interleavings inside one pool are PART A's subject); a pool is its FIFO free list.  A HANDLE is a
   std::unique_ptr<T, ObjectPool<T>::Deleter>: an object plus the pool its Deleter is bound to (None: default
   constructed Deleter, e.g. a handle built around a fresh `new T`).  What push(unique_ptr<T, Deleter>&&) and
   Deleter::operator() do is regenerated from object_pool.hpp (call counts in the function bodies). *)
Record cpool := {
  cstrict : bool;            (* no creator installed *)
  ccap : nat;                (* ObjectPool::_capacity *)
  cq : list nat;             (* _free_objects, head = next pop *)
  crec : list nat }.         (* this pool's recycler invocations, in order *)
Record handle := { hobj : nat; hbind : option nat }.
Inductive cres := CGot (o : nat) | CNone | CBlocked | CPushed (destroyed : bool) | CNew (o : nat) | CDied | CMoved | CPoolMoved | CSkip.
Record cst := {
  cpools : list cpool;
  hands : list handle;       (* handles held by the client, the first one is the operand of push / die / move *)
  cfresh : nat;
  cdestroyed : list nat;     (* objects destroyed (overflow of an auto-creating pool), in order *)
  cleaked : list nat;        (* objects that ended up nowhere: neither pooled, held nor destroyed *)
  chome : list (nat * nat);  (* ghost: (object, pool it was last put into / created by), newest first *)
  clog : list cres }.
Inductive cop :=
| CPop (j : nat)       (* handle := pool j .pop() *)
| CTry (j : nat)       (* handle := pool j .try_pop() *)
| CNewH                (* handle{new T} with a default-constructed Deleter *)
| CPushH (j : nat)     (* pool j .push(std::move(handle))            - the unique_ptr<T, Deleter> overload *)
| CPushU (j : nat)     (* pool j .push(unique_ptr<T>{handle.release()}) - the unique_ptr<T> overload *)
| CDie                 (* the first handle is destroyed: Deleter::operator() *)
| CMove                (* the first handle is moved (construction + assignment) to the end of the list *)
| CMovePool (j : nat). (* pool j is moved (move construction / assignment = ConcurrentBoundedQueue::swap) into a fresh pool
                          object that takes its place: the free list, capacity, creator and recycler are transferred *)

Definition cinit (modes : list bool) (cap : nat) : cst :=
  {| cpools := map (fun m => {| cstrict := m; ccap := cap; cq := []; crec := [] |}) modes; hands := []; cfresh := 0;
     cdestroyed := []; cleaked := []; chome := []; clog := [] |}.
Definition cpool0 : cpool := {| cstrict := true; ccap := 0; cq := []; crec := [] |}.

(* ObjectPool::push(unique_ptr<T>&&) on pool j: recycler, then capacity test (auto-create mode) / enqueue *)
Definition push_raw (s : cst) (j : nat) (o : nat) : cst * bool :=
  let p := nth j (cpools s) cpool0 in
  let drop := negb (cstrict p) && pool_drop (zn (ccap p)) (zn (length (cq p))) in
  let p' := {| cstrict := cstrict p; ccap := ccap p; cq := if drop then cq p else cq p ++ [o]; crec := crec p ++ [o] |} in
  ({| cpools := set_nth j p' (cpools s); hands := hands s; cfresh := cfresh s;
      cdestroyed := if drop then cdestroyed s ++ [o] else cdestroyed s; cleaked := cleaked s;
      chome := (o, j) :: chome s; clog := clog s |}, drop).
(* Deleter::operator()(ptr): back to the pool the Deleter is bound to; a Deleter bound to no pool does nothing *)
Definition deleter_route (s : cst) (h : handle) : cst * bool :=
  match hbind h with
  | Some b => if Z.eqb deleter_pushes_to_bound_pool 0 then
                ({| cpools := cpools s; hands := hands s; cfresh := cfresh s; cdestroyed := cdestroyed s;
                    cleaked := cleaked s ++ [hobj h]; chome := chome s; clog := clog s |}, false)
              else push_raw s b (hobj h)
  | None => ({| cpools := cpools s; hands := hands s; cfresh := cfresh s; cdestroyed := cdestroyed s;
                cleaked := cleaked s ++ [hobj h]; chome := chome s; clog := clog s |}, false)
  end.
(* ObjectPool::push(unique_ptr<T, Deleter>&&) on pool j *)
Definition push_handle (s : cst) (j : nat) (h : handle) : cst * bool :=
  if negb (Z.eqb push_handle_release_calls 0) then push_raw s j (hobj h)       (* push(unique_ptr<T>{object.release()}) *)
  else if negb (Z.eqb push_handle_reset_calls 0) then deleter_route s h        (* object.reset() *)
  else deleter_route s h.                                                     (* the rvalue dies at the call site *)

Definition with_hands (s : cst) (hs : list handle) (r : cres) : cst :=
  {| cpools := cpools s; hands := hs; cfresh := cfresh s; cdestroyed := cdestroyed s; cleaked := cleaked s;
     chome := chome s; clog := clog s ++ [r] |}.
Definition take_from (s : cst) (j : nat) (o : nat) (rest : list nat) : cst :=
  let p := nth j (cpools s) cpool0 in
  {| cpools := set_nth j {| cstrict := cstrict p; ccap := ccap p; cq := rest; crec := crec p |} (cpools s);
     hands := hands s ++ [{| hobj := o; hbind := Some j |}]; cfresh := cfresh s; cdestroyed := cdestroyed s;
     cleaked := cleaked s; chome := chome s; clog := clog s ++ [CGot o] |}.

Definition cstep (s : cst) (o : cop) : cst :=
  match o with
  | CPop j =>
    let p := nth j (cpools s) cpool0 in
    match cq p with
    | x :: rest => take_from s j x rest
    | [] => if cstrict p then with_hands s (hands s) CBlocked
            else {| cpools := cpools s; hands := hands s ++ [{| hobj := cfresh s; hbind := Some j |}]; cfresh := S (cfresh s);
                    cdestroyed := cdestroyed s; cleaked := cleaked s; chome := (cfresh s, j) :: chome s;
                    clog := clog s ++ [CGot (cfresh s)] |}
    end
  | CTry j =>
    match cq (nth j (cpools s) cpool0) with
    | x :: rest => take_from s j x rest
    | [] => with_hands s (hands s) CNone
    end
  | CNewH => {| cpools := cpools s; hands := hands s ++ [{| hobj := cfresh s; hbind := None |}]; cfresh := S (cfresh s);
               cdestroyed := cdestroyed s; cleaked := cleaked s; chome := chome s; clog := clog s ++ [CNew (cfresh s)] |}
  | CPushH j =>
    match hands s with
    | h :: hs => let (s1, d) := push_handle s j h in with_hands s1 hs (CPushed d)
    | [] => with_hands s [] CSkip
    end
  | CPushU j =>
    match hands s with
    | h :: hs => let (s1, d) := push_raw s j (hobj h) in with_hands s1 hs (CPushed d)
    | [] => with_hands s [] CSkip
    end
  | CDie =>
    match hands s with
    | h :: hs => let (s1, _) := deleter_route s h in with_hands s1 hs CDied
    | [] => with_hands s [] CSkip
    end
  | CMove =>
    match hands s with
    | h :: hs => with_hands s (hs ++ [h]) CMoved
    | [] => with_hands s [] CSkip
    end
  | CMovePool j => with_hands s (hands s) CPoolMoved
  end.
Definition crun (s : cst) (ops : list cop) : cst := fold_left cstep ops s.
