(* Proofs about PA/PAModel.v (C17). *)
From Coq Require Import ZArith List Bool Arith Lia Permutation.
Require Import Verif.Gen.Gen_page_allocator Verif.Conc.Machine Verif.PA.PAModel.
Import ListNotations.

(* ------------------------------------------------------------------ regenerated formulas *)
Lemma alloc_need_spec : forall n c, alloc_need_n n c = Nat.min n c.
Proof. intros. unfold alloc_need_n, popn_claim, alloc_claim, alloc_need, zn. lia. Qed.
Lemma free_need_spec : forall n c, free_need_n n c = Nat.min n c.
Proof. intros. unfold free_need_n, pushn_claim, free_claim, free_need, zn. lia. Qed.
Lemma pool_push_n_one : pool_push_n = 1.
Proof. reflexivity. Qed.
Lemma pool_pop_n_one : pool_pop_n = 1.
Proof. reflexivity. Qed.
Lemma dtor_num_spec : forall q, Z.to_nat (dtor_num (zn q)) = q.
Proof. intros. unfold dtor_num, zn. lia. Qed.

(* a starved call compensates instead of yielding for ever: if not even the awaited ticket has been claimed by the
   opposite side, the test in deal_n_continuously selects the reverse callback *)
Lemma comp_now_pop : forall npop npush q l n p, l <= p < l + n -> npush <= p -> comp_now false npop npush q l n = true.
Proof. intros. unfold comp_now, comp_needed, comp_need_index, role_z, zn. cbn. apply Z.leb_le. lia. Qed.
Lemma comp_now_push : forall npop npush q l n p, l <= p < l + n -> npop + q <= p -> comp_now true npop npush q l n = true.
Proof. intros. unfold comp_now, comp_needed, comp_need_index, role_z, zn. cbn. apply Z.leb_le. lia. Qed.

Lemma round_end_gt : forall q i, 1 <= q -> i < round_end q i.
Proof.
  intros q i Hq. unfold round_end. pose proof (Nat.mul_succ_div_gt i q ltac:(lia)). rewrite Nat.add_1_r. lia.
Qed.

(* ------------------------------------------------------------------ counting *)
Definition cnt (l : list nat) (x : nat) : nat := count_occ Nat.eq_dec l x.
Lemma cnt_app : forall a b x, cnt (a ++ b) x = cnt a x + cnt b x.
Proof. intros. apply count_occ_app. Qed.
Lemma cnt_nil : forall x, cnt [] x = 0.
Proof. reflexivity. Qed.
Lemma cnt_one : forall p x, cnt [p] x = if Nat.eqb p x then 1 else 0.
Proof. intros. unfold cnt. simpl. destruct (Nat.eq_dec p x); destruct (Nat.eqb_spec p x); congruence. Qed.
Lemma cnt_cons : forall p l x, cnt (p :: l) x = cnt [p] x + cnt l x.
Proof. intros. change (p :: l) with ([p] ++ l). apply cnt_app. Qed.
Lemma cnt_seq : forall n a x, cnt (seq a n) x = if (a <=? x) && (x <? a + n) then 1 else 0.
Proof.
  induction n as [|n IH]; intros a x.
  - change (cnt (seq a 0) x) with 0.
    destruct (Nat.leb_spec a x); destruct (Nat.ltb_spec x (a + 0)); cbn [andb]; auto; lia.
  - cbn [seq]. rewrite cnt_cons, cnt_one, IH.
    destruct (Nat.eqb_spec a x); destruct (Nat.leb_spec a x); destruct (Nat.ltb_spec x (a + S n));
      destruct (Nat.leb_spec (S a) x); destruct (Nat.ltb_spec x (S a + n)); cbn [andb]; lia.
Qed.
Lemma cnt_seq0 : forall n x, cnt (seq 0 n) x = if x <? n then 1 else 0.
Proof. intros. rewrite cnt_seq. cbn. reflexivity. Qed.
Lemma cnt_firstn_skipn : forall n l x, cnt (firstn n l) x + cnt (skipn n l) x = cnt l x.
Proof. intros. rewrite <- cnt_app, firstn_skipn. reflexivity. Qed.

Lemma perm_of_cnt : forall l l', (forall x, cnt l x = cnt l' x) -> Permutation l l'.
Proof. intros. apply (Permutation_count_occ Nat.eq_dec). exact H. Qed.
Lemma nodup_of_cnt : forall l, (forall x, cnt l x <= 1) -> NoDup l.
Proof. intros. apply (NoDup_count_occ Nat.eq_dec). exact H. Qed.

(* ------------------------------------------------------------------ tape *)
Lemma tget_nil : forall i, tget [] i = Free.
Proof. destruct i; reflexivity. Qed.
Lemma tget_tset_same : forall i tp c, tget (tset tp i c) i = c.
Proof. induction i; intros [|x tp] c; cbn; auto. - apply (IHi []). - apply IHi. Qed.
Lemma tget_tset_other : forall i tp j c, i <> j -> tget (tset tp i c) j = tget tp j.
Proof.
  induction i; intros [|x tp] j c Hij; destruct j; cbn; try congruence; auto.
  - destruct j; reflexivity.
  - fold (tget (tset [] i c) j). rewrite (IHi [] j c) by lia. apply tget_nil.
  - apply IHi. lia.
Qed.
Lemma cnt_tape_set : forall i tp c x,
  cnt (tape_pages (tset tp i c)) x + cnt (cell_pages (tget tp i)) x = cnt (tape_pages tp) x + cnt (cell_pages c) x.
Proof.
  unfold tape_pages. induction i; intros [|y tp] c x; cbn [tset flat_map tget nth]; rewrite ?cnt_app, ?app_nil_r; cbn [cell_pages]; rewrite ?cnt_nil; try lia.
  - specialize (IHi [] c x). cbn [flat_map] in IHi. rewrite tget_nil in IHi. cbn [cell_pages] in IHi. rewrite cnt_nil in *. lia.
  - specialize (IHi tp c x). unfold tget in IHi. lia.
Qed.

(* ------------------------------------------------------------------ thread list *)
Lemma nth_set_nth_eq : forall A (l : list A) t x y, nth_error l t = Some y -> nth_error (set_nth t x l) t = Some x.
Proof. induction l; intros [|t] x y H; cbn in *; try discriminate; eauto. Qed.
Lemma nth_set_nth_ne : forall A (l : list A) t t' x, t <> t' -> nth_error (set_nth t x l) t' = nth_error l t'.
Proof. induction l; intros [|t] [|t'] x H; cbn in *; try congruence; auto. Qed.
Lemma nth_upd_cases : forall A (l : list A) t x y t2 z, nth_error l t = Some y -> nth_error (set_nth t x l) t2 = Some z ->
  (t2 = t /\ z = x) \/ (t2 <> t /\ nth_error l t2 = Some z).
Proof.
  intros. destruct (Nat.eq_dec t2 t).
  - subst. erewrite nth_set_nth_eq in H0 by eauto. left. split; congruence.
  - right. split; auto. rewrite nth_set_nth_ne in H0 by auto. auto.
Qed.
Lemma cnt_flat_set_nth : forall (f : thread -> list nat) l t th th' x, nth_error l t = Some th ->
  cnt (flat_map f (set_nth t th' l)) x + cnt (f th) x = cnt (flat_map f l) x + cnt (f th') x.
Proof.
  induction l; intros [|t] th th' x H; cbn in *; try discriminate.
  - inversion H; subst. rewrite !cnt_app. lia.
  - rewrite !cnt_app. specialize (IHl t th th' x H). lia.
Qed.

(* ------------------------------------------------------------------ ownership of tickets, local knowledge *)
Definition in_seg (th : thread) (i : nat) : Prop := lo th <= i < hi th.
(* thread th holds ticket i of role r (true: push ticket, false: pop ticket) and has not served it yet *)
Definition owns (r : bool) (th : thread) (i : nat) : Prop :=
  match tpc th with
  | WCheck r' | WNeed r' | TIdx r' | Act r' | TVer r' _ | TCas r' _ => r = r' /\ in_seg th i
  | TAct r' k => (r = r' /\ in_seg th i) \/ (r = negb r' /\ i = k)
  | SWait r' j => r = r' /\ i = j
  | YAct k => r = false /\ i = k
  | _ => False
  end.
Definition ready (s : st) (r : bool) (m : nat) : Prop :=
  if r then push_ready (qcap s) (tape s) m = true else pop_ready (tape s) m = true.
Definition seg_inv (s : st) (r : bool) (th : thread) : Prop :=
  lo th <= pos th /\ pos th < se th /\ se th <= hi th /\
  (forall m, lo th <= m < pos th -> ready s r m) /\ (r = true -> hi th - lo th <= length (buf th)).
Definition knows (s : st) (th : thread) : Prop :=
  match tpc th with
  | Idle => buf th = []
  | Claim r need => r = true -> need <= length (buf th)
  | WCheck r | WNeed r | TIdx r | TVer r _ => seg_inv s r th
  | TCas r k => seg_inv s r th /\ (ctr s (negb r) <= k -> ready s (negb r) k)
  | TAct r k => seg_inv s r th /\ ready s (negb r) k
  | Act r => lo th < se th /\ se th <= hi th /\ (forall m, lo th <= m < se th -> ready s r m) /\
             (r = true -> hi th - lo th <= length (buf th))
  | Extra r => True
  | SWait r i => if r then exists p, buf th = [p] else buf th = []
  | YVer k => buf th = []
  | YCas k => buf th = [] /\ (npop s <= k -> ready s false k)
  | YAct k => buf th = [] /\ ready s false k
  | PSize1 | PSize2 _ => length (buf th) = 1
  end.

Definition tpg (th : thread) : list nat := held th ++ buf th.
Definition all_thr (s : st) : list nat := flat_map tpg (threads s).

Record Inv (s : st) : Prop := {
  i_q : 1 <= qcap s;
  i_lt : forall t th r i, nth_error (threads s) t = Some th -> owns r th i -> i < ctr s r;
  i_dis : forall t1 t2 th1 th2 r i, t1 <> t2 -> nth_error (threads s) t1 = Some th1 ->
          nth_error (threads s) t2 = Some th2 -> owns r th1 i -> owns r th2 i -> False;
  i_c1 : forall i, npop s <= i -> tget (tape s) i <> Consumed;
  i_c2 : forall i, npush s <= i -> tget (tape s) i = Free;
  i_c3 : forall t th i, nth_error (threads s) t = Some th -> owns false th i -> tget (tape s) i <> Consumed;
  i_c4 : forall t th i, nth_error (threads s) t = Some th -> owns true th i -> tget (tape s) i = Free;
  i_d1 : forall i, i < npop s -> tget (tape s) i = Consumed \/ exists t th, nth_error (threads s) t = Some th /\ owns false th i;
  i_d2 : forall i, i < npush s -> tget (tape s) i <> Free \/ exists t th, nth_error (threads s) t = Some th /\ owns true th i;
  i_kn : forall t th, nth_error (threads s) t = Some th -> knows s th;
  i_k1 : forall i, tget (tape s) (i + qcap s) <> Free -> tget (tape s) i = Consumed;
  i_cnt : forall x, cnt (tape_pages (tape s)) x + cnt (all_thr s) x + cnt (returned s) x = (if x <? fresh s then 1 else 0);
  i_err : err s = false }.

(* what one step may do to the tape: nothing, the callback of an own POP ticket, the callback of an own PUSH ticket *)
Definition tape_step (s s1 : st) (th th' : thread) : Prop :=
  forall i, tget (tape s1) i = tget (tape s) i
    \/ (owns false th i /\ ~ owns false th' i /\ is_full (tget (tape s) i) = true /\ tget (tape s1) i = Consumed)
    \/ (owns true th i /\ ~ owns true th' i /\ tget (tape s) i = Free /\ is_full (tget (tape s1) i) = true /\
        push_ready (qcap s) (tape s) i = true).

Lemma push_ready_mono : forall q tp tp' m, (forall i, tget tp i = Consumed -> tget tp' i = Consumed) ->
  push_ready q tp m = true -> push_ready q tp' m = true.
Proof.
  unfold push_ready. intros q tp tp' m H. destruct (m <? q); cbn; auto.
  destruct (tget tp (m - q)) eqn:E; cbn; try discriminate. rewrite (H _ E). reflexivity.
Qed.

Lemma ready_frame : forall s s1 r m, qcap s1 = qcap s ->
  (forall i, tget (tape s) i = Consumed -> tget (tape s1) i = Consumed) ->
  (r = false -> is_full (tget (tape s) m) = true -> is_full (tget (tape s1) m) = true) ->
  ready s r m -> ready s1 r m.
Proof.
  intros s s1 r m Hq Hc Hf. unfold ready. destruct r.
  - rewrite Hq. apply push_ready_mono. exact Hc.
  - unfold pop_ready. auto.
Qed.

Lemma seg_inv_frame : forall s s1 r th2, qcap s1 = qcap s ->
  (forall i, tget (tape s) i = Consumed -> tget (tape s1) i = Consumed) ->
  (r = false -> forall i, is_full (tget (tape s) i) = true -> is_full (tget (tape s1) i) = true \/ (i < npop s /\ ~ in_seg th2 i)) ->
  seg_inv s r th2 -> seg_inv s1 r th2.
Proof.
  intros s s1 r th2 Hq Hc Hf (A & B & C & D & E). repeat split; auto.
  intros m Hm. eapply ready_frame; eauto. intros -> F. destruct (Hf eq_refl _ F) as [G|[_ G]]; auto.
  exfalso. apply G. unfold in_seg. lia.
Qed.

Lemma knows_frame : forall s s1 th2,
  qcap s1 = qcap s -> npush s <= npush s1 -> npop s <= npop s1 ->
  (forall i, tget (tape s) i = Consumed -> tget (tape s1) i = Consumed) ->
  (forall i, is_full (tget (tape s) i) = true -> is_full (tget (tape s1) i) = true \/ (i < npop s /\ ~ owns false th2 i)) ->
  knows s th2 -> knows s1 th2.
Proof.
  intros s s1 th2 Hq Hpu Hpo Hc Hf. unfold knows, owns in *.
  assert (RF : forall r m, (r = false -> is_full (tget (tape s) m) = true -> is_full (tget (tape s1) m) = true) ->
               ready s r m -> ready s1 r m) by (intros; eapply ready_frame; eauto).
  destruct (tpc th2) eqn:P; auto.
  - (* WCheck *) apply seg_inv_frame; auto. intros -> i F. destruct (Hf i F) as [G|[G1 G2]]; auto. right. split; auto.
  - apply seg_inv_frame; auto. intros -> i F. destruct (Hf i F) as [G|[G1 G2]]; auto. right. split; auto.
  - apply seg_inv_frame; auto. intros -> i F. destruct (Hf i F) as [G|[G1 G2]]; auto. right. split; auto.
  - apply seg_inv_frame; auto. intros -> i F. destruct (Hf i F) as [G|[G1 G2]]; auto. right. split; auto.
  - (* TCas *) intros [A B]. split.
    + revert A. apply seg_inv_frame; auto. intros -> i F. destruct (Hf i F) as [G|[G1 G2]]; auto. right. split; auto.
    + intros Hk. assert (Hk0 : ctr s (negb r) <= k) by (destruct r; cbn in *; lia).
      specialize (B Hk0). revert B. apply RF. intros Hr F. destruct r; cbn in Hr; try discriminate.
      destruct (Hf k F) as [G|[G1 G2]]; auto; cbn in *; lia.
  - (* TAct *) intros [A B]. split.
    + revert A. apply seg_inv_frame; auto. intros -> i F. destruct (Hf i F) as [G|[G1 G2]]; auto. right. split; auto.
    + revert B. apply RF. intros Hr F. destruct r; cbn in Hr; try discriminate.
      destruct (Hf k F) as [G|[G1 G2]]; auto; exfalso; apply G2; right; auto.
  - (* Act *) intros (A & B & C & D). repeat split; auto. intros m Hm. specialize (C m Hm). revert C. apply RF.
    intros -> F. destruct (Hf m F) as [G|[G1 G2]]; auto; exfalso; apply G2; split; auto; unfold in_seg; lia.
  - (* YCas *) intros [A B]. split; auto. intros Hk. assert (Hk0 : npop s <= k) by lia. specialize (B Hk0). revert B.
    apply RF. intros _ F. destruct (Hf k F) as [G|[G1 G2]]; auto; lia.
  - (* YAct *) intros [A B]. split; auto. revert B. apply RF. intros _ F. destruct (Hf k F) as [G|[G1 G2]]; auto;
    exfalso; apply G2; auto.
Qed.

Lemma is_full_not : forall c, is_full c = true -> c <> Free /\ c <> Consumed.
Proof. destruct c; cbn; intros; split; congruence. Qed.

Ltac tsfin :=
  try congruence; try (left; congruence); try (right; tauto);
  try (match goal with E : tget _ _ = _ |- _ => rewrite E in *; discriminate end);
  try (match goal with E : is_full _ = true, C : tget _ _ = _ |- _ => rewrite C in E; discriminate end).

Lemma inv_upd : forall s s1 t th th',
  Inv s -> nth_error (threads s) t = Some th ->
  threads s1 = threads s -> qcap s1 = qcap s -> npush s <= npush s1 -> npop s <= npop s1 ->
  tape_step s s1 th th' ->
  (forall r i, owns r th' i -> owns r th i \/ ctr s r <= i) ->
  (forall r i, owns r th i -> owns r th' i \/ (if r then tget (tape s1) i <> Free else tget (tape s1) i = Consumed)) ->
  (forall r i, owns r th' i -> i < ctr s1 r) ->
  (forall i, i < npop s1 -> i < npop s \/ owns false th' i) ->
  (forall i, i < npush s1 -> i < npush s \/ owns true th' i) ->
  knows s1 th' ->
  (forall x, cnt (tape_pages (tape s1)) x + cnt (tpg th') x + cnt (returned s1) x + (if x <? fresh s then 1 else 0) =
             cnt (tape_pages (tape s)) x + cnt (tpg th) x + cnt (returned s) x + (if x <? fresh s1 then 1 else 0)) ->
  err s1 = false ->
  Inv (upd s1 t th').
Proof.
  intros s s1 t th th' I Ht Hths Hq Hpu Hpo TS Osub Okeep Olt Nd1 Nd2 Kn Cn Er.
  assert (Hctr : forall r, ctr s r <= ctr s1 r) by (destruct r; cbn; auto).
  assert (TS1 : forall i, tget (tape s) i = Consumed -> tget (tape s1) i = Consumed).
  { intros i E. destruct (TS i) as [A|[(A & B & C & D)|(A & B & C & D & E2)]]; tsfin. }
  assert (TS2 : forall i, tget (tape s1) i = Consumed -> tget (tape s) i = Consumed \/ (owns false th i /\ ~ owns false th' i)).
  { intros i E. destruct (TS i) as [A|[(A & B & C & D)|(A & B & C & D & E2)]]; tsfin. }
  assert (TS3 : forall i, tget (tape s) i = Free -> tget (tape s1) i = Free \/
              (owns true th i /\ ~ owns true th' i /\ push_ready (qcap s) (tape s) i = true)).
  { intros i E. destruct (TS i) as [A|[(A & B & C & D)|(A & B & C & D & E2)]]; tsfin. }
  assert (TS4 : forall i, tget (tape s1) i = Free -> tget (tape s) i = Free).
  { intros i E. destruct (TS i) as [A|[(A & B & C & D)|(A & B & C & D & E2)]]; tsfin. }
  assert (TS5 : forall i, is_full (tget (tape s) i) = true -> is_full (tget (tape s1) i) = true \/ owns false th i).
  { intros i E. destruct (TS i) as [A|[(A & B & C & D)|(A & B & C & D & E2)]]; tsfin. }
  assert (LK : forall t2 th2, nth_error (set_nth t th' (threads s)) t2 = Some th2 ->
               (t2 = t /\ th2 = th') \/ (t2 <> t /\ nth_error (threads s) t2 = Some th2)).
  { intros. eapply nth_upd_cases; eauto. }
  constructor; cbn [upd with_threads qcap npush npop tape fresh returned err threads]; rewrite ?Hths, ?Hq.
  - apply (i_q _ I).
  - (* i_lt *) intros t2 th2 r i H2 O. change (i < ctr s1 r).
    destruct (LK _ _ H2) as [[-> ->]|[Hne H2']]; auto.
    pose proof (i_lt _ I _ _ _ _ H2' O). specialize (Hctr r). lia.
  - (* i_dis *) intros t1 t2 th1 th2 r i Hne H1 H2 O1 O2.
    destruct (LK _ _ H1) as [[-> ->]|[Hn1 H1']]; destruct (LK _ _ H2) as [[-> ->]|[Hn2 H2']]; try congruence.
    + destruct (Osub _ _ O1) as [O|O].
      * eapply (i_dis _ I t t2); eauto.
      * pose proof (i_lt _ I _ _ _ _ H2' O2). lia.
    + destruct (Osub _ _ O2) as [O|O].
      * eapply (i_dis _ I t1 t); eauto.
      * pose proof (i_lt _ I _ _ _ _ H1' O1). lia.
    + eapply (i_dis _ I t1 t2); eauto.
  - (* c1 *) intros i Hi E. destruct (TS2 _ E) as [A|[A B]].
    + apply (i_c1 _ I i); auto. lia.
    + pose proof (i_lt _ I _ _ _ _ Ht A). cbn in H. lia.
  - (* c2 *) intros i Hi. destruct (tget (tape s) i) eqn:E0.
    + destruct (TS3 _ E0) as [A|(A & B & C)]; auto. pose proof (i_lt _ I _ _ _ _ Ht A). cbn in H. lia.
    + pose proof (i_c2 _ I i ltac:(lia)). congruence.
    + pose proof (i_c2 _ I i ltac:(lia)). congruence.
  - (* c3 *) intros t2 th2 i H2 O E. destruct (LK _ _ H2) as [[-> ->]|[Hne H2']].
    + destruct (TS2 _ E) as [A|[A B]]; auto. destruct (Osub _ _ O) as [O'|O'].
      * apply (i_c3 _ I _ _ _ Ht O'); auto.
      * apply (i_c1 _ I i); auto.
    + destruct (TS2 _ E) as [A|[A B]].
      * apply (i_c3 _ I _ _ _ H2' O); auto.
      * eapply (i_dis _ I t2 t); eauto.
  - (* c4 *) intros t2 th2 i H2 O. destruct (LK _ _ H2) as [[-> ->]|[Hne H2']].
    + destruct (Osub _ _ O) as [O'|O'].
      * destruct (TS3 _ (i_c4 _ I _ _ _ Ht O')) as [A|(A & B & C)]; auto. contradiction.
      * cbn in O'. destruct (TS3 _ (i_c2 _ I i O')) as [A|(A & B & C)]; auto. contradiction.
    + destruct (TS3 _ (i_c4 _ I _ _ _ H2' O)) as [A|(A & B & C)]; auto.
      exfalso. eapply (i_dis _ I t2 t); eauto.
  - (* d1 *) intros i Hi. destruct (Nd1 i Hi) as [Hi0|O].
    + destruct (i_d1 _ I i Hi0) as [E|(t0 & th0 & H0 & O0)]; auto.
      destruct (Nat.eq_dec t0 t) as [->|Hne].
      * assert (th0 = th) by congruence. subst th0. destruct (Okeep _ _ O0) as [O'|O']; auto.
        right. exists t, th'. split; auto. eapply nth_set_nth_eq; eauto.
      * right. exists t0, th0. split; auto. rewrite nth_set_nth_ne; auto.
    + right. exists t, th'. split; auto. eapply nth_set_nth_eq; eauto.
  - (* d2 *) intros i Hi. destruct (Nd2 i Hi) as [Hi0|O].
    + destruct (i_d2 _ I i Hi0) as [E|(t0 & th0 & H0 & O0)].
      * left. intro E1. apply E. auto.
      * destruct (Nat.eq_dec t0 t) as [->|Hne].
        -- assert (th0 = th) by congruence. subst th0. destruct (Okeep _ _ O0) as [O'|O']; auto.
           right. exists t, th'. split; auto. eapply nth_set_nth_eq; eauto.
        -- right. exists t0, th0. split; auto. rewrite nth_set_nth_ne; auto.
    + right. exists t, th'. split; auto. eapply nth_set_nth_eq; eauto.
  - (* knows *) intros t2 th2 H2. destruct (LK _ _ H2) as [[-> ->]|[Hne H2']].
    + exact Kn.
    + assert (K2 : knows s1 th2).
      { eapply knows_frame; eauto. 2: apply (i_kn _ I _ _ H2').
        intros i F. destruct (TS5 _ F) as [A|A]; auto. right. split.
        - apply (i_lt _ I _ _ _ _ Ht A).
        - intro O2. eapply (i_dis _ I t2 t); eauto. }
      exact K2.
  - (* k1 *) intros i E. destruct (tget (tape s) (i + qcap s)) eqn:E0.
    + destruct (TS3 _ E0) as [A|(A & B & C)]; try congruence.
      unfold push_ready in C. replace (i + qcap s <? qcap s) with false in C.
      2:{ symmetry. apply Nat.ltb_ge. lia. } replace (i + qcap s - qcap s) with i in C by lia. cbn in C.
      apply TS1. destruct (tget (tape s) i); cbn in C; congruence.
    + apply TS1. apply (i_k1 _ I). congruence.
    + apply TS1. apply (i_k1 _ I). congruence.
  - (* cnt *) intros x. unfold all_thr. cbn [upd with_threads threads]. rewrite ?Hths.
    pose proof (cnt_flat_set_nth tpg (threads s) t th th' x Ht). pose proof (i_cnt _ I x). unfold all_thr in *.
    specialize (Cn x). destruct (x <? fresh s); destruct (x <? fresh s1); lia.
  - exact Er.
Qed.

(* ------------------------------------------------------------------ every step preserves the invariant *)
Ltac own_tac P :=
  unfold owns, in_seg in *; cbn in *; rewrite ?P in *; cbn in *;
  intuition (subst; cbn in *; try lia; try congruence; auto).
Ltac same_tape := intro; left; reflexivity.
Ltac cnt_same := intro; cbn; unfold tpg; cbn; rewrite ?cnt_app, ?cnt_nil; lia.

Section StepCases.
Variables (s : st) (t : nat) (th : thread).
Hypothesis I : Inv s.
Hypothesis Ht : nth_error (threads s) t = Some th.

(* a step that only moves the program counter (and possibly pos / buffers) without gaining or losing tickets *)
Lemma step_local : forall th',
  (forall r i, owns r th' i <-> owns r th i) -> knows s th' -> (forall x, cnt (tpg th') x = cnt (tpg th) x) ->
  Inv (upd s t th').
Proof.
  intros th' O K G.
  eapply (inv_upd s s t th th' I Ht);
    [ reflexivity | reflexivity | apply le_n | apply le_n | same_tape | | | | auto | auto | exact K | | apply (i_err _ I) ].
  - intros r i H. left. apply O. auto.
  - intros r i H. left. apply O. auto.
  - intros r i H. apply O in H. eapply (i_lt _ I); eauto.
  - intro x. rewrite G. lia.
Qed.

(* upstream only: pages obtained / returned, tape and tickets untouched *)
Lemma step_upstream : forall th' f' ret',
  (forall r i, owns r th' i <-> owns r th i) ->
  knows (with_mem s (tape s) f' ret' (err s)) th' ->
  (forall x, cnt (tpg th') x + cnt ret' x + (if x <? fresh s then 1 else 0) =
             cnt (tpg th) x + cnt (returned s) x + (if x <? f' then 1 else 0)) ->
  Inv (upd (with_mem s (tape s) f' ret' (err s)) t th').
Proof.
  intros th' f' ret' O K G.
  eapply (inv_upd s _ t th th' I Ht);
    [ reflexivity | reflexivity | apply le_n | apply le_n | same_tape | | | | auto | auto | exact K | | apply (i_err _ I) ].
  - intros r i H. left. apply O. auto.
  - intros r i H. left. apply O. auto.
  - intros r i H. apply O in H. pose proof (i_lt _ I _ _ _ _ Ht H). destruct r; exact H0.
  - intro x. cbn [with_mem with_ctr tape returned fresh]. specialize (G x). lia.
Qed.

(* fetch_add / successful CAS: n new tickets of role r0 *)
Lemma step_gain : forall r0 n th',
  (forall r i, owns r th' i <-> owns r th i \/ (r = r0 /\ ctr s r0 <= i < ctr s r0 + n)) ->
  knows (with_ctr s r0 (ctr s r0 + n)) th' -> (forall x, cnt (tpg th') x = cnt (tpg th) x) ->
  Inv (upd (with_ctr s r0 (ctr s r0 + n)) t th').
Proof.
  intros r0 n th' O K G.
  eapply (inv_upd s _ t th th' I Ht);
    [ reflexivity | reflexivity | | | same_tape | | | | | | exact K | | apply (i_err _ I) ].
  - destruct r0; cbn; lia.
  - destruct r0; cbn; lia.
  - intros r i H. apply O in H. destruct H as [H|[-> H]]; auto. right. lia.
  - intros r i H. left. apply O. auto.
  - intros r i H. apply O in H. destruct H as [H|[-> H]].
    + pose proof (i_lt _ I _ _ _ _ Ht H). destruct r, r0; cbn in *; lia.
    + destruct r0; cbn in *; lia.
  - intros i H. destruct r0; cbn in *; auto. destruct (Nat.lt_ge_cases i (npop s)); auto. right. apply O. right. split; auto.
  - intros i H. destruct r0; cbn in *; auto. destruct (Nat.lt_ge_cases i (npush s)); auto. right. apply O. right. split; auto.
  - intro x. cbn [with_mem with_ctr tape returned fresh]. rewrite G. lia.
Qed.

(* callback of the own POP ticket k: the page moves from the cell to the thread or upstream *)
Lemma step_take : forall k p th' ret',
  owns false th k -> tget (tape s) k = Full p ->
  (forall r i, owns r th' i <-> (owns r th i /\ ~ (r = false /\ i = k))) ->
  knows (with_mem s (tset (tape s) k Consumed) (fresh s) ret' (err s)) th' ->
  (forall x, cnt (tpg th') x + cnt ret' x = cnt (tpg th) x + cnt (returned s) x + cnt [p] x) ->
  Inv (upd (with_mem s (tset (tape s) k Consumed) (fresh s) ret' (err s)) t th').
Proof.
  intros k p th' ret' Ok E O K G.
  eapply (inv_upd s _ t th th' I Ht);
    [ reflexivity | reflexivity | apply le_n | apply le_n | | | | | auto | auto | exact K | | apply (i_err _ I) ].
  - intro i. cbn [with_mem tape qcap]. destruct (Nat.eq_dec i k) as [->|Hne].
    + right. left. rewrite tget_tset_same, E. repeat split; auto. intro X. apply O in X. tauto.
    + left. apply tget_tset_other. auto.
  - intros r i H. left. apply O in H. tauto.
  - intros r i H. destruct r.
    + left. apply O. split; auto. intros [? _]. discriminate.
    + destruct (Nat.eq_dec i k) as [->|Hne].
      * right. cbn [with_mem tape]. apply tget_tset_same.
      * left. apply O. split; auto. intros [_ ?]. auto.
  - intros r i H. apply O in H. destruct H as [H _]. pose proof (i_lt _ I _ _ _ _ Ht H). destruct r; exact H0.
  - intro x. cbn [with_mem with_ctr tape returned fresh]. pose proof (cnt_tape_set k (tape s) Consumed x). rewrite E in H. cbn [cell_pages] in H.
    rewrite cnt_nil in H. specialize (G x). lia.
Qed.

(* callback of the own PUSH ticket k: page p moves from the thread (or fresh from upstream) into the cell *)
Lemma step_put : forall k p th' f',
  owns true th k -> push_ready (qcap s) (tape s) k = true ->
  (forall r i, owns r th' i <-> (owns r th i /\ ~ (r = true /\ i = k))) ->
  knows (with_mem s (tset (tape s) k (Full p)) f' (returned s) (err s)) th' ->
  (forall x, cnt (tpg th') x + cnt [p] x + (if x <? fresh s then 1 else 0) = cnt (tpg th) x + (if x <? f' then 1 else 0)) ->
  Inv (upd (with_mem s (tset (tape s) k (Full p)) f' (returned s) (err s)) t th').
Proof.
  intros k p th' f' Ok R O K G. pose proof (i_c4 _ I _ _ _ Ht Ok) as E.
  eapply (inv_upd s _ t th th' I Ht);
    [ reflexivity | reflexivity | apply le_n | apply le_n | | | | | auto | auto | exact K | | apply (i_err _ I) ].
  - intro i. cbn [with_mem tape qcap]. destruct (Nat.eq_dec i k) as [->|Hne].
    + right. right. rewrite tget_tset_same. repeat split; auto. intro X. apply O in X. tauto.
    + left. apply tget_tset_other. auto.
  - intros r i H. left. apply O in H. tauto.
  - intros r i H. destruct r.
    + destruct (Nat.eq_dec i k) as [->|Hne].
      * right. cbn [with_mem tape]. rewrite tget_tset_same. discriminate.
      * left. apply O. split; auto. intros [_ ?]. auto.
    + left. apply O. split; auto. intros [? _]. discriminate.
  - intros r i H. apply O in H. destruct H as [H _]. pose proof (i_lt _ I _ _ _ _ Ht H). destruct r; exact H0.
  - intro x. cbn [with_mem with_ctr tape returned fresh]. pose proof (cnt_tape_set k (tape s) (Full p) x). rewrite E in H. cbn [cell_pages] in H.
    rewrite cnt_nil in H. specialize (G x). lia.
Qed.
End StepCases.

Lemma inv_recycled : forall s p, Inv s -> Inv (with_recycled s p).
Proof. intros s p I. destruct I. constructor; auto. Qed.
