(* Proofs about PA/PAModel.v (C17). *)
From Coq Require Import ZArith List Bool Arith Lia Permutation.
Require Import Verif.Gen.Gen_page_allocator Verif.Conc.Machine Verif.PA.PAModel.
Import ListNotations.

(* ------------------------------------------------------------------ regenerated formulas *)
Lemma alloc_need_spec : forall n c, alloc_need_n n c = Nat.min n c.
Proof. intros. unfold alloc_need_n, popn_claim, alloc_claim, alloc_need, zn. lia. Qed.
Lemma free_need_spec : forall n c, free_need_n n c = Nat.min n c.
Proof. intros. unfold free_need_n, pushn_claim, free_claim, free_need, zn. lia. Qed.
Lemma pool_push_n_one : pool_push_n = 1.
Proof. reflexivity. Qed.
Lemma pool_pop_n_one : pool_pop_n = 1.
Proof. reflexivity. Qed.
Lemma dtor_num_spec : forall q, Z.to_nat (dtor_num (zn q)) = q.
Proof. intros. unfold dtor_num, zn. lia. Qed.

(* a starved call compensates instead of yielding for ever: if not even the awaited ticket has been claimed by the
   opposite side, the test in deal_n_continuously selects the reverse callback *)
Lemma comp_now_pop : forall npop npush q l n p, l <= p < l + n -> npush <= p -> comp_now false npop npush q l n = true.
Proof. intros. unfold comp_now, comp_needed, comp_need_index, role_z, zn. cbn. apply Z.leb_le. lia. Qed.
Lemma comp_now_push : forall npop npush q l n p, l <= p < l + n -> npop + q <= p -> comp_now true npop npush q l n = true.
Proof. intros. unfold comp_now, comp_needed, comp_need_index, role_z, zn. cbn. apply Z.leb_le. lia. Qed.

(* ---- the round split of pop_n / push_n / try_pop_n for a capacity 2^k ---- *)
Definition pow2 (q : nat) : Prop := exists k, q = Nat.pow 2 k /\ k < 64.
Lemma round_z : forall k i, (0 <= k)%Z ->
  Z.land (i + (2 ^ k - 1) + 1) (Z.lnot (2 ^ k - 1)) = ((i / 2 ^ k + 1) * 2 ^ k)%Z.
Proof.
  intros k i Hk. assert (M : (2 ^ k - 1 = Z.ones k)%Z) by (rewrite Z.ones_equiv; lia).
  rewrite M. rewrite <- Z.ldiff_land. rewrite Z.ldiff_ones_r by lia.
  rewrite Z.shiftl_mul_pow2 by lia. rewrite Z.shiftr_div_pow2 by lia. rewrite <- M.
  assert (P : (0 < 2 ^ k)%Z) by (apply Z.pow_pos_nonneg; lia).
  replace (i + (2 ^ k - 1) + 1)%Z with (i + 1 * 2 ^ k)%Z by lia. rewrite Z.div_add by lia. reflexivity.
Qed.
Lemma round_gt : forall q i, pow2 q ->
  exists rb, Z.land (Z.of_nat i + (Z.of_nat q - 1) + 1) (Z.lnot (Z.of_nat q - 1)) = Z.of_nat rb /\ i < rb.
Proof.
  intros q i (k & -> & _). rewrite Nat2Z.inj_pow. change (Z.of_nat 2) with 2%Z. rewrite round_z by lia.
  assert (P : (0 < 2 ^ Z.of_nat k)%Z) by (apply Z.pow_pos_nonneg; lia).
  pose proof (Z.mul_succ_div_gt (Z.of_nat i) _ P). pose proof (Z.div_pos (Z.of_nat i) _ ltac:(lia) P).
  exists (Z.to_nat ((Z.of_nat i / 2 ^ Z.of_nat k + 1) * 2 ^ Z.of_nat k)). split; [|lia].
  rewrite Z2Nat.id; auto. apply Z.mul_nonneg_nonneg; lia.
Qed.
Lemma pow2_pos : forall q, pow2 q -> 1 <= q /\ (Z.of_nat q < 2 ^ 64)%Z.
Proof.
  intros q (k & -> & Hk). split.
  - pose proof (Nat.pow_nonzero 2 k). lia.
  - rewrite Nat2Z.inj_pow. change (Z.of_nat 2) with 2%Z. apply Z.pow_lt_mono_r; lia.
Qed.
Lemma round_end_gt : forall q i, pow2 q -> i < round_end q i.
Proof. intros q i H. unfold round_end, trypopn_round. destruct (round_gt q i H) as (rb & E & L). rewrite E. lia. Qed.

(* the plan of pop_n / push_n: a first segment, and a second one covering exactly the rest when the claim wraps *)
Lemma seg_plan_spec : forall r q idx need, pow2 q -> 1 <= need ->
  idx < fst (seg_plan r q idx need) <= idx + need /\
  ((snd (seg_plan r q idx need) = None /\ fst (seg_plan r q idx need) = idx + need) \/
   (snd (seg_plan r q idx need) = Some (fst (seg_plan r q idx need), idx + need - fst (seg_plan r q idx need)) /\
    fst (seg_plan r q idx need) < idx + need)).
Proof.
  intros r q idx need H N. destruct (round_gt q idx H) as (rb & E & L). unfold seg_plan.
  destruct r; unfold pushn_round, pushn_fits, pushn_whole, pushn_first, pushn_start2, pushn_second,
                     popn_round, popn_fits, popn_whole, popn_first, popn_start2, popn_second; rewrite E;
    destruct (Z.leb_spec (Z.of_nat idx + Z.of_nat need) (Z.of_nat rb)); cbn [fst snd];
    (split; [lia|]); [left|right|left|right]; split; try lia; f_equal; f_equal; lia.
Qed.

(* the page cursor of the allocator callbacks *)
Lemma src_index_spec : forall th j, src_index th j = cur th + j.
Proof. intros. unfold src_index, free_copy_src, zn. lia. Qed.
Lemma dst_index_spec : forall th j, dst_index th j = cur th + j.
Proof. intros. unfold dst_index, alloc_copy_dst, zn. lia. Qed.
Lemma cursor_after_spec : forall r th, ss th <= se th -> (Z.of_nat (se th - ss th) < 2 ^ 64)%Z ->
  cursor_after r th = cur th + (se th - ss th).
Proof.
  intros r th L W. unfold cursor_after, free_cursor_adv, free_copy_num, free_n, alloc_cursor_next, zn. destruct r.
  - rewrite Z.mod_small by lia. lia.
  - lia.
Qed.
Lemma extra_alloc_num_spec : forall th, extra_alloc_num th = ex th - cur th.
Proof. intros. unfold extra_alloc_num, alloc_end, zn. lia. Qed.
Lemma extra_loops_spec : forall p e, (alloc_extra_more p e = true <-> (p < e)%Z) /\ (free_extra_more p e = true <-> (p < e)%Z).
Proof. intros. unfold alloc_extra_more, free_extra_more. rewrite Z.ltb_lt. tauto. Qed.
Lemma write_at_end : forall b p l, write_at (length b) (p :: l) b = b ++ [p].
Proof. intros. unfold write_at. rewrite firstn_all, Nat.sub_diag, skipn_all2 by lia. reflexivity. Qed.

(* ------------------------------------------------------------------ counting *)
Definition cnt (l : list nat) (x : nat) : nat := count_occ Nat.eq_dec l x.
Lemma cnt_app : forall a b x, cnt (a ++ b) x = cnt a x + cnt b x.
Proof. intros. apply count_occ_app. Qed.
Lemma cnt_nil : forall x, cnt [] x = 0.
Proof. reflexivity. Qed.
Lemma cnt_one : forall p x, cnt [p] x = if Nat.eqb p x then 1 else 0.
Proof. intros. unfold cnt. simpl. destruct (Nat.eq_dec p x); destruct (Nat.eqb_spec p x); congruence. Qed.
Lemma cnt_cons : forall p l x, cnt (p :: l) x = cnt [p] x + cnt l x.
Proof. intros. change (p :: l) with ([p] ++ l). apply cnt_app. Qed.
Lemma cnt_seq : forall n a x, cnt (seq a n) x = if (a <=? x) && (x <? a + n) then 1 else 0.
Proof.
  induction n as [|n IH]; intros a x.
  - change (cnt (seq a 0) x) with 0.
    destruct (Nat.leb_spec a x); destruct (Nat.ltb_spec x (a + 0)); cbn [andb]; auto; lia.
  - cbn [seq]. rewrite cnt_cons, cnt_one, IH.
    destruct (Nat.eqb_spec a x); destruct (Nat.leb_spec a x); destruct (Nat.ltb_spec x (a + S n));
      destruct (Nat.leb_spec (S a) x); destruct (Nat.ltb_spec x (S a + n)); cbn [andb]; lia.
Qed.
Lemma cnt_seq0 : forall n x, cnt (seq 0 n) x = if x <? n then 1 else 0.
Proof. intros. rewrite cnt_seq. cbn. reflexivity. Qed.
Lemma cnt_firstn_skipn : forall n l x, cnt (firstn n l) x + cnt (skipn n l) x = cnt l x.
Proof. intros. rewrite <- cnt_app, firstn_skipn. reflexivity. Qed.

Lemma skipn_nth_cons : forall (l : list nat) n d, n < length l -> skipn n l = nth n l d :: skipn (S n) l.
Proof. induction l; intros [|n] d H; cbn in *; try lia; auto. apply IHl. lia. Qed.

Lemma perm_of_cnt : forall l l', (forall x, cnt l x = cnt l' x) -> Permutation l l'.
Proof. intros. apply (Permutation_count_occ Nat.eq_dec). exact H. Qed.
Lemma nodup_of_cnt : forall l, (forall x, cnt l x <= 1) -> NoDup l.
Proof. intros. apply (NoDup_count_occ Nat.eq_dec). exact H. Qed.

(* ------------------------------------------------------------------ tape *)
Lemma tget_nil : forall i, tget [] i = Free.
Proof. destruct i; reflexivity. Qed.
Lemma tget_tset_same : forall i tp c, tget (tset tp i c) i = c.
Proof. induction i; intros [|x tp] c; cbn; auto. - apply (IHi []). - apply IHi. Qed.
Lemma tget_tset_other : forall i tp j c, i <> j -> tget (tset tp i c) j = tget tp j.
Proof.
  induction i; intros [|x tp] j c Hij; destruct j; cbn; try congruence; auto.
  - destruct j; reflexivity.
  - fold (tget (tset [] i c) j). rewrite (IHi [] j c) by lia. apply tget_nil.
  - apply IHi. lia.
Qed.
Lemma cnt_tape_set : forall i tp c x,
  cnt (tape_pages (tset tp i c)) x + cnt (cell_pages (tget tp i)) x = cnt (tape_pages tp) x + cnt (cell_pages c) x.
Proof.
  unfold tape_pages. induction i; intros [|y tp] c x; cbn [tset flat_map tget nth]; rewrite ?cnt_app, ?app_nil_r; cbn [cell_pages]; rewrite ?cnt_nil; try lia.
  - specialize (IHi [] c x). cbn [flat_map] in IHi. rewrite tget_nil in IHi. cbn [cell_pages] in IHi. rewrite cnt_nil in *. lia.
  - specialize (IHi tp c x). unfold tget in IHi. lia.
Qed.

(* ------------------------------------------------------------------ thread list *)
Lemma nth_set_nth_eq : forall A (l : list A) t x y, nth_error l t = Some y -> nth_error (set_nth t x l) t = Some x.
Proof. induction l; intros [|t] x y H; cbn in *; try discriminate; eauto. Qed.
Lemma nth_set_nth_ne : forall A (l : list A) t t' x, t <> t' -> nth_error (set_nth t x l) t' = nth_error l t'.
Proof. induction l; intros [|t] [|t'] x H; cbn in *; try congruence; auto. Qed.
Lemma nth_upd_cases : forall A (l : list A) t x y t2 z, nth_error l t = Some y -> nth_error (set_nth t x l) t2 = Some z ->
  (t2 = t /\ z = x) \/ (t2 <> t /\ nth_error l t2 = Some z).
Proof.
  intros. destruct (Nat.eq_dec t2 t).
  - subst. erewrite nth_set_nth_eq in H0 by eauto. left. split; congruence.
  - right. split; auto. rewrite nth_set_nth_ne in H0 by auto. auto.
Qed.
Lemma cnt_flat_set_nth : forall (f : thread -> list nat) l t th th' x, nth_error l t = Some th ->
  cnt (flat_map f (set_nth t th' l)) x + cnt (f th) x = cnt (flat_map f l) x + cnt (f th') x.
Proof.
  induction l; intros [|t] th th' x H; cbn in *; try discriminate.
  - inversion H; subst. rewrite !cnt_app. lia.
  - rewrite !cnt_app. specialize (IHl t th th' x H). lia.
Qed.

(* ------------------------------------------------------------------ ownership of tickets, local knowledge *)
Definition in_seg (th : thread) (i : nat) : Prop := lo th <= i < hi th.
(* thread th holds ticket i of role r (true: push ticket, false: pop ticket) and has not served it yet *)
Definition owns (r : bool) (th : thread) (i : nat) : Prop :=
  match tpc th with
  | WCheck r' | WNeed r' | TIdx r' | Act r' | TVer r' _ | TCas r' _ => r = r' /\ in_seg th i
  | TAct r' k => (r = r' /\ in_seg th i) \/ (r = negb r' /\ i = k)
  | SWait r' j => r = r' /\ i = j
  | YAct k => r = false /\ i = k
  | _ => False
  end.
Definition ready (s : st) (r : bool) (m : nat) : Prop :=
  if r then push_ready (qcap s) (tape s) m = true else pop_ready (tape s) m = true.
Definition rest_ok (th : thread) : Prop :=
  (rest th = None /\ se th = hi th) \/ (rest th = Some (se th, hi th - se th) /\ se th < hi th).
(* the cursor is where the callbacks' progress says it is: deallocate has handed cur + (lo - ss) pages to the queue and
   still needs one page per own ticket; allocate has written exactly the pages it took *)
Definition cursor_ok (r : bool) (th : thread) : Prop :=
  if r then cur th + (lo th - ss th) + (hi th - lo th) <= length (buf th)
  else length (buf th) = cur th + (lo th - ss th).
Definition seg_inv (s : st) (r : bool) (th : thread) : Prop :=
  ss th = lo th /\ lo th <= pos th /\ pos th < se th /\ se th <= hi th /\
  (forall m, lo th <= m < pos th -> ready s r m) /\ hi th - lo th <= qcap s /\ rest_ok th /\ cursor_ok r th.
Definition knows (s : st) (th : thread) : Prop :=
  match tpc th with
  | Idle => buf th = []
  | Claim r need => need <= qcap s /\ if r then need <= length (buf th) else buf th = []
  | WCheck r | WNeed r | TIdx r | TVer r _ => seg_inv s r th
  | TCas r k => seg_inv s r th /\ (ctr s (negb r) <= k -> ready s (negb r) k)
  | TAct r k => seg_inv s r th /\ ready s (negb r) k
  | Act r => ss th <= lo th /\ lo th < se th /\ se th <= hi th /\ (forall m, lo th <= m < se th -> ready s r m) /\
             hi th - ss th <= qcap s /\ rest_ok th /\ cursor_ok r th
  | Extra r => if r then ss th = lo th else length (buf th) = cur th
  | SWait r i => if r then exists p, buf th = [p] else buf th = []
  | YVer k => buf th = []
  | YCas k => buf th = [] /\ (npop s <= k -> ready s false k)
  | YAct k => buf th = [] /\ ready s false k
  | PSize1 | PSize2 _ => length (buf th) = 1
  end.

(* pages inside a running call: deallocate keeps the whole array, only the part beyond the cursor is still its own *)
Definition push_phase (p : pc) : bool :=
  match p with
  | WCheck true | WNeed true | TIdx true | TVer true _ | TCas true _ | TAct true _ | Act true | Extra true => true
  | _ => false
  end.
Definition inflight (th : thread) : list nat :=
  if push_phase (tpc th) then skipn (cur th + (lo th - ss th)) (buf th) else buf th.
Definition tpg (th : thread) : list nat := held th ++ inflight th.
Definition all_thr (s : st) : list nat := flat_map tpg (threads s).

Record Inv (s : st) : Prop := {
  i_q : pow2 (qcap s);
  i_lt : forall t th r i, nth_error (threads s) t = Some th -> owns r th i -> i < ctr s r;
  i_dis : forall t1 t2 th1 th2 r i, t1 <> t2 -> nth_error (threads s) t1 = Some th1 ->
          nth_error (threads s) t2 = Some th2 -> owns r th1 i -> owns r th2 i -> False;
  i_c1 : forall i, npop s <= i -> tget (tape s) i <> Consumed;
  i_c2 : forall i, npush s <= i -> tget (tape s) i = Free;
  i_c3 : forall t th i, nth_error (threads s) t = Some th -> owns false th i -> tget (tape s) i <> Consumed;
  i_c4 : forall t th i, nth_error (threads s) t = Some th -> owns true th i -> tget (tape s) i = Free;
  i_d1 : forall i, i < npop s -> tget (tape s) i = Consumed \/ exists t th, nth_error (threads s) t = Some th /\ owns false th i;
  i_d2 : forall i, i < npush s -> tget (tape s) i <> Free \/ exists t th, nth_error (threads s) t = Some th /\ owns true th i;
  i_kn : forall t th, nth_error (threads s) t = Some th -> knows s th;
  i_k1 : forall i, tget (tape s) (i + qcap s) <> Free -> tget (tape s) i = Consumed;
  i_cnt : forall x, cnt (tape_pages (tape s)) x + cnt (all_thr s) x + cnt (returned s) x = (if x <? fresh s then 1 else 0);
  i_err : err s = false }.

(* what one step may do to the tape: nothing, the callback of an own POP ticket, the callback of an own PUSH ticket *)
Definition tape_step (s s1 : st) (th th' : thread) : Prop :=
  forall i, tget (tape s1) i = tget (tape s) i
    \/ (owns false th i /\ ~ owns false th' i /\ is_full (tget (tape s) i) = true /\ tget (tape s1) i = Consumed)
    \/ (owns true th i /\ ~ owns true th' i /\ tget (tape s) i = Free /\ is_full (tget (tape s1) i) = true /\
        push_ready (qcap s) (tape s) i = true).

Lemma push_ready_mono : forall q tp tp' m, (forall i, tget tp i = Consumed -> tget tp' i = Consumed) ->
  push_ready q tp m = true -> push_ready q tp' m = true.
Proof.
  unfold push_ready. intros q tp tp' m H. destruct (m <? q); cbn; auto.
  destruct (tget tp (m - q)) eqn:E; cbn; try discriminate. rewrite (H _ E). reflexivity.
Qed.

Lemma ready_frame : forall s s1 r m, qcap s1 = qcap s ->
  (forall i, tget (tape s) i = Consumed -> tget (tape s1) i = Consumed) ->
  (r = false -> is_full (tget (tape s) m) = true -> is_full (tget (tape s1) m) = true) ->
  ready s r m -> ready s1 r m.
Proof.
  intros s s1 r m Hq Hc Hf. unfold ready. destruct r.
  - rewrite Hq. apply push_ready_mono. exact Hc.
  - unfold pop_ready. auto.
Qed.

Lemma seg_inv_frame : forall s s1 r th2, qcap s1 = qcap s ->
  (forall i, tget (tape s) i = Consumed -> tget (tape s1) i = Consumed) ->
  (r = false -> forall i, is_full (tget (tape s) i) = true -> is_full (tget (tape s1) i) = true \/ (i < npop s /\ ~ in_seg th2 i)) ->
  seg_inv s r th2 -> seg_inv s1 r th2.
Proof.
  intros s s1 r th2 Hq Hc Hf (A & B & C & D & E & F0 & G0 & H0). unfold seg_inv. rewrite Hq.
  split; [auto|]. split; [auto|]. split; [auto|]. split; [auto|]. split; [|auto].
  intros m Hm. eapply ready_frame; eauto. intros -> F. destruct (Hf eq_refl _ F) as [G|[_ G]]; auto.
  exfalso. apply G. unfold in_seg. lia.
Qed.

Lemma knows_frame : forall s s1 th2,
  qcap s1 = qcap s -> npush s <= npush s1 -> npop s <= npop s1 ->
  (forall i, tget (tape s) i = Consumed -> tget (tape s1) i = Consumed) ->
  (forall i, is_full (tget (tape s) i) = true -> is_full (tget (tape s1) i) = true \/ (i < npop s /\ ~ owns false th2 i)) ->
  knows s th2 -> knows s1 th2.
Proof.
  intros s s1 th2 Hq Hpu Hpo Hc Hf. unfold knows, owns in *.
  assert (RF : forall r m, (r = false -> is_full (tget (tape s) m) = true -> is_full (tget (tape s1) m) = true) ->
               ready s r m -> ready s1 r m) by (intros; eapply ready_frame; eauto).
  destruct (tpc th2) eqn:P; rewrite ?Hq; auto.
  - (* WCheck *) apply seg_inv_frame; auto. intros -> i F. destruct (Hf i F) as [G|[G1 G2]]; auto. right. split; auto.
  - apply seg_inv_frame; auto. intros -> i F. destruct (Hf i F) as [G|[G1 G2]]; auto. right. split; auto.
  - apply seg_inv_frame; auto. intros -> i F. destruct (Hf i F) as [G|[G1 G2]]; auto. right. split; auto.
  - apply seg_inv_frame; auto. intros -> i F. destruct (Hf i F) as [G|[G1 G2]]; auto. right. split; auto.
  - (* TCas *) intros [A B]. split.
    + revert A. apply seg_inv_frame; auto. intros -> i F. destruct (Hf i F) as [G|[G1 G2]]; auto. right. split; auto.
    + intros Hk. assert (Hk0 : ctr s (negb r) <= k) by (destruct r; cbn in *; lia).
      specialize (B Hk0). revert B. apply RF. intros Hr F. destruct r; cbn in Hr; try discriminate.
      destruct (Hf k F) as [G|[G1 G2]]; auto; cbn in *; lia.
  - (* TAct *) intros [A B]. split.
    + revert A. apply seg_inv_frame; auto. intros -> i F. destruct (Hf i F) as [G|[G1 G2]]; auto. right. split; auto.
    + revert B. apply RF. intros Hr F. destruct r; cbn in Hr; try discriminate.
      destruct (Hf k F) as [G|[G1 G2]]; auto; exfalso; apply G2; right; auto.
  - (* Act *) intros (A0 & A & B & C & D & E0 & F0). split; [auto|]. split; [auto|]. split; [auto|]. split; [|auto].
    intros m Hm. specialize (C m Hm). revert C. apply RF.
    intros -> F. destruct (Hf m F) as [G|[G1 G2]]; auto; exfalso; apply G2; split; auto; unfold in_seg; lia.
  - (* YCas *) intros [A B]. split; auto. intros Hk. assert (Hk0 : npop s <= k) by lia. specialize (B Hk0). revert B.
    apply RF. intros _ F. destruct (Hf k F) as [G|[G1 G2]]; auto; lia.
  - (* YAct *) intros [A B]. split; auto. revert B. apply RF. intros _ F. destruct (Hf k F) as [G|[G1 G2]]; auto;
    exfalso; apply G2; auto.
Qed.

Lemma is_full_not : forall c, is_full c = true -> c <> Free /\ c <> Consumed.
Proof. destruct c; cbn; intros; split; congruence. Qed.

Ltac tsfin :=
  try congruence; try (left; congruence); try (right; tauto);
  try (match goal with E : tget _ _ = _ |- _ => rewrite E in *; discriminate end);
  try (match goal with E : is_full _ = true, C : tget _ _ = _ |- _ => rewrite C in E; discriminate end).

Lemma inv_upd : forall s s1 t th th',
  Inv s -> nth_error (threads s) t = Some th ->
  threads s1 = threads s -> qcap s1 = qcap s -> npush s <= npush s1 -> npop s <= npop s1 ->
  tape_step s s1 th th' ->
  (forall r i, owns r th' i -> owns r th i \/ ctr s r <= i) ->
  (forall r i, owns r th i -> owns r th' i \/ (if r then tget (tape s1) i <> Free else tget (tape s1) i = Consumed)) ->
  (forall r i, owns r th' i -> i < ctr s1 r) ->
  (forall i, i < npop s1 -> i < npop s \/ owns false th' i) ->
  (forall i, i < npush s1 -> i < npush s \/ owns true th' i) ->
  knows s1 th' ->
  (forall x, cnt (tape_pages (tape s1)) x + cnt (tpg th') x + cnt (returned s1) x + (if x <? fresh s then 1 else 0) =
             cnt (tape_pages (tape s)) x + cnt (tpg th) x + cnt (returned s) x + (if x <? fresh s1 then 1 else 0)) ->
  err s1 = false ->
  Inv (upd s1 t th').
Proof.
  intros s s1 t th th' I Ht Hths Hq Hpu Hpo TS Osub Okeep Olt Nd1 Nd2 Kn Cn Er.
  assert (Hctr : forall r, ctr s r <= ctr s1 r) by (destruct r; cbn; auto).
  assert (TS1 : forall i, tget (tape s) i = Consumed -> tget (tape s1) i = Consumed).
  { intros i E. destruct (TS i) as [A|[(A & B & C & D)|(A & B & C & D & E2)]]; tsfin. }
  assert (TS2 : forall i, tget (tape s1) i = Consumed -> tget (tape s) i = Consumed \/ (owns false th i /\ ~ owns false th' i)).
  { intros i E. destruct (TS i) as [A|[(A & B & C & D)|(A & B & C & D & E2)]]; tsfin. }
  assert (TS3 : forall i, tget (tape s) i = Free -> tget (tape s1) i = Free \/
              (owns true th i /\ ~ owns true th' i /\ push_ready (qcap s) (tape s) i = true)).
  { intros i E. destruct (TS i) as [A|[(A & B & C & D)|(A & B & C & D & E2)]]; tsfin. }
  assert (TS4 : forall i, tget (tape s1) i = Free -> tget (tape s) i = Free).
  { intros i E. destruct (TS i) as [A|[(A & B & C & D)|(A & B & C & D & E2)]]; tsfin. }
  assert (TS5 : forall i, is_full (tget (tape s) i) = true -> is_full (tget (tape s1) i) = true \/ owns false th i).
  { intros i E. destruct (TS i) as [A|[(A & B & C & D)|(A & B & C & D & E2)]]; tsfin. }
  assert (LK : forall t2 th2, nth_error (set_nth t th' (threads s)) t2 = Some th2 ->
               (t2 = t /\ th2 = th') \/ (t2 <> t /\ nth_error (threads s) t2 = Some th2)).
  { intros. eapply nth_upd_cases; eauto. }
  constructor; cbn [upd with_threads qcap npush npop tape fresh returned err threads]; rewrite ?Hths, ?Hq.
  - apply (i_q _ I).
  - (* i_lt *) intros t2 th2 r i H2 O. change (i < ctr s1 r).
    destruct (LK _ _ H2) as [[-> ->]|[Hne H2']]; auto.
    pose proof (i_lt _ I _ _ _ _ H2' O). specialize (Hctr r). lia.
  - (* i_dis *) intros t1 t2 th1 th2 r i Hne H1 H2 O1 O2.
    destruct (LK _ _ H1) as [[-> ->]|[Hn1 H1']]; destruct (LK _ _ H2) as [[-> ->]|[Hn2 H2']]; try congruence.
    + destruct (Osub _ _ O1) as [O|O].
      * eapply (i_dis _ I t t2); eauto.
      * pose proof (i_lt _ I _ _ _ _ H2' O2). lia.
    + destruct (Osub _ _ O2) as [O|O].
      * eapply (i_dis _ I t1 t); eauto.
      * pose proof (i_lt _ I _ _ _ _ H1' O1). lia.
    + eapply (i_dis _ I t1 t2); eauto.
  - (* c1 *) intros i Hi E. destruct (TS2 _ E) as [A|[A B]].
    + apply (i_c1 _ I i); auto. lia.
    + pose proof (i_lt _ I _ _ _ _ Ht A). cbn in H. lia.
  - (* c2 *) intros i Hi. destruct (tget (tape s) i) eqn:E0.
    + destruct (TS3 _ E0) as [A|(A & B & C)]; auto. pose proof (i_lt _ I _ _ _ _ Ht A). cbn in H. lia.
    + pose proof (i_c2 _ I i ltac:(lia)). congruence.
    + pose proof (i_c2 _ I i ltac:(lia)). congruence.
  - (* c3 *) intros t2 th2 i H2 O E. destruct (LK _ _ H2) as [[-> ->]|[Hne H2']].
    + destruct (TS2 _ E) as [A|[A B]]; auto. destruct (Osub _ _ O) as [O'|O'].
      * apply (i_c3 _ I _ _ _ Ht O'); auto.
      * apply (i_c1 _ I i); auto.
    + destruct (TS2 _ E) as [A|[A B]].
      * apply (i_c3 _ I _ _ _ H2' O); auto.
      * eapply (i_dis _ I t2 t); eauto.
  - (* c4 *) intros t2 th2 i H2 O. destruct (LK _ _ H2) as [[-> ->]|[Hne H2']].
    + destruct (Osub _ _ O) as [O'|O'].
      * destruct (TS3 _ (i_c4 _ I _ _ _ Ht O')) as [A|(A & B & C)]; auto. contradiction.
      * cbn in O'. destruct (TS3 _ (i_c2 _ I i O')) as [A|(A & B & C)]; auto. contradiction.
    + destruct (TS3 _ (i_c4 _ I _ _ _ H2' O)) as [A|(A & B & C)]; auto.
      exfalso. eapply (i_dis _ I t2 t); eauto.
  - (* d1 *) intros i Hi. destruct (Nd1 i Hi) as [Hi0|O].
    + destruct (i_d1 _ I i Hi0) as [E|(t0 & th0 & H0 & O0)]; auto.
      destruct (Nat.eq_dec t0 t) as [->|Hne].
      * assert (th0 = th) by congruence. subst th0. destruct (Okeep _ _ O0) as [O'|O']; auto.
        right. exists t, th'. split; auto. eapply nth_set_nth_eq; eauto.
      * right. exists t0, th0. split; auto. rewrite nth_set_nth_ne; auto.
    + right. exists t, th'. split; auto. eapply nth_set_nth_eq; eauto.
  - (* d2 *) intros i Hi. destruct (Nd2 i Hi) as [Hi0|O].
    + destruct (i_d2 _ I i Hi0) as [E|(t0 & th0 & H0 & O0)].
      * left. intro E1. apply E. auto.
      * destruct (Nat.eq_dec t0 t) as [->|Hne].
        -- assert (th0 = th) by congruence. subst th0. destruct (Okeep _ _ O0) as [O'|O']; auto.
           right. exists t, th'. split; auto. eapply nth_set_nth_eq; eauto.
        -- right. exists t0, th0. split; auto. rewrite nth_set_nth_ne; auto.
    + right. exists t, th'. split; auto. eapply nth_set_nth_eq; eauto.
  - (* knows *) intros t2 th2 H2. destruct (LK _ _ H2) as [[-> ->]|[Hne H2']].
    + exact Kn.
    + assert (K2 : knows s1 th2).
      { eapply knows_frame; eauto. 2: apply (i_kn _ I _ _ H2').
        intros i F. destruct (TS5 _ F) as [A|A]; auto. right. split.
        - apply (i_lt _ I _ _ _ _ Ht A).
        - intro O2. eapply (i_dis _ I t2 t); eauto. }
      exact K2.
  - (* k1 *) intros i E. destruct (tget (tape s) (i + qcap s)) eqn:E0.
    + destruct (TS3 _ E0) as [A|(A & B & C)]; try congruence.
      unfold push_ready in C. replace (i + qcap s <? qcap s) with false in C.
      2:{ symmetry. apply Nat.ltb_ge. lia. } replace (i + qcap s - qcap s) with i in C by lia. cbn in C.
      apply TS1. destruct (tget (tape s) i); cbn in C; congruence.
    + apply TS1. apply (i_k1 _ I). congruence.
    + apply TS1. apply (i_k1 _ I). congruence.
  - (* cnt *) intros x. unfold all_thr. cbn [upd with_threads threads]. rewrite ?Hths.
    pose proof (cnt_flat_set_nth tpg (threads s) t th th' x Ht). pose proof (i_cnt _ I x). unfold all_thr in *.
    specialize (Cn x). destruct (x <? fresh s); destruct (x <? fresh s1); lia.
  - exact Er.
Qed.

(* ------------------------------------------------------------------ every step preserves the invariant *)
Ltac own_tac P :=
  unfold owns, in_seg in *; cbn in *; rewrite ?P in *; cbn in *;
  intuition (subst; cbn in *; try lia; try congruence; auto).
Ltac same_tape := intro; left; reflexivity.
Ltac cnt_same := intro; cbn; unfold tpg; cbn; rewrite ?cnt_app, ?cnt_nil; lia.

Section StepCases.
Variables (s : st) (t : nat) (th : thread).
Hypothesis I : Inv s.
Hypothesis Ht : nth_error (threads s) t = Some th.

(* a step that only moves the program counter (and possibly pos / buffers) without gaining or losing tickets *)
Lemma step_local : forall th',
  (forall r i, owns r th' i <-> owns r th i) -> knows s th' -> (forall x, cnt (tpg th') x = cnt (tpg th) x) ->
  Inv (upd s t th').
Proof.
  intros th' O K G.
  eapply (inv_upd s s t th th' I Ht);
    [ reflexivity | reflexivity | apply le_n | apply le_n | same_tape | | | | auto | auto | exact K | | apply (i_err _ I) ].
  - intros r i H. left. apply O. auto.
  - intros r i H. left. apply O. auto.
  - intros r i H. apply O in H. eapply (i_lt _ I); eauto.
  - intro x. rewrite G. lia.
Qed.

(* upstream only: pages obtained / returned, tape and tickets untouched *)
Lemma step_upstream : forall th' f' ret',
  (forall r i, owns r th' i <-> owns r th i) ->
  knows (with_mem s (tape s) f' ret' (err s)) th' ->
  (forall x, cnt (tpg th') x + cnt ret' x + (if x <? fresh s then 1 else 0) =
             cnt (tpg th) x + cnt (returned s) x + (if x <? f' then 1 else 0)) ->
  Inv (upd (with_mem s (tape s) f' ret' (err s)) t th').
Proof.
  intros th' f' ret' O K G.
  eapply (inv_upd s _ t th th' I Ht);
    [ reflexivity | reflexivity | apply le_n | apply le_n | same_tape | | | | auto | auto | exact K | | apply (i_err _ I) ].
  - intros r i H. left. apply O. auto.
  - intros r i H. left. apply O. auto.
  - intros r i H. apply O in H. pose proof (i_lt _ I _ _ _ _ Ht H). destruct r; exact H0.
  - intro x. cbn [with_mem with_ctr tape returned fresh]. specialize (G x). lia.
Qed.

(* fetch_add / successful CAS: n new tickets of role r0 *)
Lemma step_gain : forall r0 n th',
  (forall r i, owns r th' i <-> owns r th i \/ (r = r0 /\ ctr s r0 <= i < ctr s r0 + n)) ->
  knows (with_ctr s r0 (ctr s r0 + n)) th' -> (forall x, cnt (tpg th') x = cnt (tpg th) x) ->
  Inv (upd (with_ctr s r0 (ctr s r0 + n)) t th').
Proof.
  intros r0 n th' O K G.
  eapply (inv_upd s _ t th th' I Ht);
    [ reflexivity | reflexivity | | | same_tape | | | | | | exact K | | apply (i_err _ I) ].
  - destruct r0; cbn; lia.
  - destruct r0; cbn; lia.
  - intros r i H. apply O in H. destruct H as [H|[-> H]]; auto. right. lia.
  - intros r i H. left. apply O. auto.
  - intros r i H. apply O in H. destruct H as [H|[-> H]].
    + pose proof (i_lt _ I _ _ _ _ Ht H). destruct r, r0; cbn in *; lia.
    + destruct r0; cbn in *; lia.
  - intros i H. destruct r0; cbn in *; auto. destruct (Nat.lt_ge_cases i (npop s)); auto. right. apply O. right. split; auto.
  - intros i H. destruct r0; cbn in *; auto. destruct (Nat.lt_ge_cases i (npush s)); auto. right. apply O. right. split; auto.
  - intro x. cbn [with_mem with_ctr tape returned fresh]. rewrite G. lia.
Qed.

(* callback of the own POP ticket k: the page moves from the cell to the thread or upstream *)
Lemma step_take : forall k p th' ret',
  owns false th k -> tget (tape s) k = Full p ->
  (forall r i, owns r th' i <-> (owns r th i /\ ~ (r = false /\ i = k))) ->
  knows (with_mem s (tset (tape s) k Consumed) (fresh s) ret' (err s)) th' ->
  (forall x, cnt (tpg th') x + cnt ret' x = cnt (tpg th) x + cnt (returned s) x + cnt [p] x) ->
  Inv (upd (with_mem s (tset (tape s) k Consumed) (fresh s) ret' (err s)) t th').
Proof.
  intros k p th' ret' Ok E O K G.
  eapply (inv_upd s _ t th th' I Ht);
    [ reflexivity | reflexivity | apply le_n | apply le_n | | | | | auto | auto | exact K | | apply (i_err _ I) ].
  - intro i. cbn [with_mem tape qcap]. destruct (Nat.eq_dec i k) as [->|Hne].
    + right. left. rewrite tget_tset_same, E. repeat split; auto. intro X. apply O in X. tauto.
    + left. apply tget_tset_other. auto.
  - intros r i H. left. apply O in H. tauto.
  - intros r i H. destruct r.
    + left. apply O. split; auto. intros [? _]. discriminate.
    + destruct (Nat.eq_dec i k) as [->|Hne].
      * right. cbn [with_mem tape]. apply tget_tset_same.
      * left. apply O. split; auto. intros [_ ?]. auto.
  - intros r i H. apply O in H. destruct H as [H _]. pose proof (i_lt _ I _ _ _ _ Ht H). destruct r; exact H0.
  - intro x. cbn [with_mem with_ctr tape returned fresh]. pose proof (cnt_tape_set k (tape s) Consumed x). rewrite E in H. cbn [cell_pages] in H.
    rewrite cnt_nil in H. specialize (G x). lia.
Qed.

(* callback of the own PUSH ticket k: page p moves from the thread (or fresh from upstream) into the cell *)
Lemma step_put : forall k p th' f',
  owns true th k -> push_ready (qcap s) (tape s) k = true ->
  (forall r i, owns r th' i <-> (owns r th i /\ ~ (r = true /\ i = k))) ->
  knows (with_mem s (tset (tape s) k (Full p)) f' (returned s) (err s)) th' ->
  (forall x, cnt (tpg th') x + cnt [p] x + (if x <? fresh s then 1 else 0) = cnt (tpg th) x + (if x <? f' then 1 else 0)) ->
  Inv (upd (with_mem s (tset (tape s) k (Full p)) f' (returned s) (err s)) t th').
Proof.
  intros k p th' f' Ok R O K G. pose proof (i_c4 _ I _ _ _ Ht Ok) as E.
  eapply (inv_upd s _ t th th' I Ht);
    [ reflexivity | reflexivity | apply le_n | apply le_n | | | | | auto | auto | exact K | | apply (i_err _ I) ].
  - intro i. cbn [with_mem tape qcap]. destruct (Nat.eq_dec i k) as [->|Hne].
    + right. right. rewrite tget_tset_same. repeat split; auto. intro X. apply O in X. tauto.
    + left. apply tget_tset_other. auto.
  - intros r i H. left. apply O in H. tauto.
  - intros r i H. destruct r.
    + destruct (Nat.eq_dec i k) as [->|Hne].
      * right. cbn [with_mem tape]. rewrite tget_tset_same. discriminate.
      * left. apply O. split; auto. intros [_ ?]. auto.
    + left. apply O. split; auto. intros [? _]. discriminate.
  - intros r i H. apply O in H. destruct H as [H _]. pose proof (i_lt _ I _ _ _ _ Ht H). destruct r; exact H0.
  - intro x. cbn [with_mem with_ctr tape returned fresh]. pose proof (cnt_tape_set k (tape s) (Full p) x). rewrite E in H. cbn [cell_pages] in H.
    rewrite cnt_nil in H. specialize (G x). lia.
Qed.
End StepCases.

Lemma inv_recycled : forall s p, Inv s -> Inv (with_recycled s p).
Proof. intros s p I. destruct I. constructor; auto. Qed.

Ltac prj := cbn [tpc goto with_pos with_bufs with_seg with_ex finish lo hi ss se pos cur rest buf held ex prog opi results].
Ltac owns_same P := let r := fresh "r" in let i := fresh "i" in intros r i; unfold owns, in_seg; prj; rewrite ?P; try tauto.

Lemma inflight_same : forall th th', push_phase (tpc th') = push_phase (tpc th) -> cur th' = cur th ->
  lo th' - ss th' = lo th - ss th -> buf th' = buf th -> inflight th' = inflight th.
Proof. intros th th' A B C D. unfold inflight. rewrite A, B, C, D. reflexivity. Qed.
Lemma inflight_plain : forall th, push_phase (tpc th) = false -> inflight th = buf th.
Proof. intros th H. unfold inflight. rewrite H. reflexivity. Qed.
Lemma inflight_push : forall th, push_phase (tpc th) = true -> inflight th = skipn (cur th + (lo th - ss th)) (buf th).
Proof. intros th H. unfold inflight. rewrite H. reflexivity. Qed.
(* the in-flight pages did not change (same phase class, same cursor, same array) *)
Ltac tpg_same P :=
  let x := fresh "x" in intro x; unfold tpg;
  match goal with |- cnt (held ?a ++ inflight ?a) _ = cnt (held ?b ++ inflight ?b) _ =>
    replace (inflight a) with (inflight b);
    [ prj; reflexivity
    | symmetry; apply inflight_same; prj; rewrite ?P; try reflexivity;
      repeat match goal with r : bool |- _ => destruct r end; reflexivity ] end.
(* both threads are outside the deallocate phases: in-flight = buf *)
Ltac cnt_tpg P := intro x; unfold tpg; rewrite !inflight_plain by (prj; rewrite ?P; reflexivity); prj;
                  rewrite ?cnt_app, ?cnt_nil; try lia.

Lemma inv_step : forall s t s', Inv s -> step s t = Some s' -> Inv s'.
Proof.
  intros s t s' I H. unfold step in H. destruct (nth_error (threads s) t) as [th|] eqn:Ht; [|discriminate].
  pose proof (i_kn _ I _ _ Ht) as K. unfold step_thread in H. unfold knows in K.
  destruct (pow2_pos _ (i_q _ I)) as [Q1 Q64].
  destruct (tpc th) eqn:P.
  - (* Idle *) destruct (cur_op th) as [[n|n| | | | | | ]|] eqn:Op; try discriminate.
    + (* OAlloc *) inversion H; subst s'; clear H. apply (step_local _ _ _ I Ht).
      * owns_same P.
      * unfold knows; prj. split; [rewrite alloc_need_spec; lia | reflexivity].
      * cnt_tpg P. rewrite K, cnt_nil. lia.
    + (* OFree *) inversion H; subst s'; clear H. apply (step_local _ _ _ I Ht).
      * owns_same P.
      * unfold knows; prj. rewrite free_need_spec. split; lia.
      * cnt_tpg P. rewrite K, cnt_nil. pose proof (cnt_firstn_skipn n (held th) x). lia.
    + (* OPoolPop *) inversion H; subst s'; clear H. apply (step_local _ _ _ I Ht).
      * owns_same P.
      * unfold knows; prj. rewrite pool_pop_n_one. split; [lia | reflexivity].
      * cnt_tpg P. rewrite K, cnt_nil. lia.
    + (* OPoolPush *) destruct (held th) as [|p h] eqn:Hh; inversion H; subst s'; clear H.
      * apply (step_local _ _ _ I Ht).
        -- owns_same P.
        -- unfold knows; prj. reflexivity.
        -- cnt_tpg P. rewrite Hh, K, !cnt_nil. lia.
      * apply (step_local (with_recycled s p) t th (inv_recycled _ _ I) Ht).
        -- owns_same P.
        -- unfold knows; prj. reflexivity.
        -- cnt_tpg P. rewrite Hh, K, cnt_nil, (cnt_cons p h). lia.
    + (* ONew *) inversion H; subst s'; clear H. apply (step_upstream _ _ _ I Ht).
      * owns_same P.
      * unfold knows; prj. reflexivity.
      * cnt_tpg P. rewrite K, cnt_nil, cnt_one.
        destruct (Nat.eqb_spec (fresh s) x); destruct (Nat.ltb_spec x (fresh s)); destruct (Nat.ltb_spec x (fresh s + 1)); lia.
    + (* OSPop *) inversion H; subst s'; clear H. replace (S (npop s)) with (ctr s false + 1) by (cbn; lia).
      apply (step_gain _ _ _ I Ht).
      * owns_same P. cbn. intuition lia.
      * unfold knows; prj. exact K.
      * cnt_tpg P.
    + (* OSPush *) destruct (held th) as [|p h] eqn:Hh; inversion H; subst s'; clear H.
      * apply (step_local _ _ _ I Ht).
        -- owns_same P.
        -- unfold knows; prj. reflexivity.
        -- cnt_tpg P. rewrite Hh, K, !cnt_nil. lia.
      * replace (S (npush s)) with (ctr (with_recycled s p) true + 1) by (cbn; lia).
        apply (step_gain (with_recycled s p) t th (inv_recycled _ _ I) Ht).
        -- owns_same P. cbn. intuition lia.
        -- unfold knows; prj. eauto.
        -- cnt_tpg P. rewrite Hh, K, cnt_nil, (cnt_cons p h). lia.
    + (* OTryPop *) inversion H; subst s'; clear H. apply (step_local _ _ _ I Ht).
      * owns_same P.
      * unfold knows; prj. exact K.
      * cnt_tpg P.
  - (* Claim *) destruct K as [KQ KB]. destruct (seg_plan r (qcap s) (ctr s r) need) as [e rs] eqn:SP.
    inversion H; subst s'; clear H. apply (step_gain _ _ _ I Ht).
    + owns_same P. destruct (Nat.eqb_spec need 0); cbn; intuition lia.
    + unfold knows; prj. destruct (Nat.eqb_spec need 0) as [Z0|Z0]; prj.
      * destruct r; [reflexivity | rewrite KB; reflexivity].
      * pose proof (seg_plan_spec r (qcap s) (ctr s r) need (i_q _ I) ltac:(lia)) as SS. rewrite SP in SS. cbn [fst snd] in SS.
        destruct SS as [S1 S2]. unfold seg_inv, rest_ok, cursor_ok; prj. cbn [with_ctr qcap].
        split; [reflexivity|]. split; [lia|]. split; [lia|]. split; [lia|]. split; [intros m Hm; lia|]. split; [lia|].
        split; [destruct S2 as [[-> ->]|[-> S3]]; [left|right]; split; auto; f_equal; f_equal; lia|].
        destruct r; [lia | rewrite KB; cbn; lia].
    + intro x. unfold tpg. rewrite (inflight_plain th) by (rewrite P; reflexivity). unfold inflight. prj.
      destruct (Nat.eqb_spec need 0); destruct r; cbn [push_phase]; rewrite ?Nat.sub_diag; cbn [Nat.add skipn]; reflexivity.
  - (* WCheck *) destruct K as (K0 & K1 & K2 & K3 & K4 & K5 & K6 & K7).
    destruct (if r then push_ready (qcap s) (tape s) (pos th) else pop_ready (tape s) (pos th)) eqn:R.
    + assert (RD : ready s r (pos th)) by (unfold ready; destruct r; exact R).
      assert (K4' : forall m, lo th <= m < S (pos th) -> ready s r m).
      { intros m Hm. destruct (Nat.eq_dec m (pos th)); [subst; auto | apply K4; lia]. }
      destruct (Nat.eqb_spec (S (pos th)) (se th)); inversion H; subst s'; clear H; apply (step_local _ _ _ I Ht).
      * owns_same P.
      * unfold knows; prj. split; [lia|]. split; [lia|]. split; [lia|]. split; [intros m Hm; apply K4'; lia|].
        split; [lia|]. split; auto.
      * tpg_same P.
      * owns_same P.
      * unfold knows, seg_inv; prj. split; [auto|]. split; [lia|]. split; [lia|]. split; [lia|]. split; [auto|]. auto.
      * tpg_same P.
    + inversion H; subst s'; clear H; apply (step_local _ _ _ I Ht).
      * owns_same P.
      * unfold knows, seg_inv; prj. repeat (split; [first [assumption | lia]|]). assumption.
      * tpg_same P.
  - (* WNeed *) destruct (comp_now r (npop s) (npush s) (qcap s) (lo th) (se th - lo th));
      inversion H; subst s'; clear H; apply (step_local _ _ _ I Ht); [owns_same P | unfold knows; prj; exact K | tpg_same P
                                                                      | owns_same P | unfold knows; prj; exact K | tpg_same P].
  - (* TIdx *) inversion H; subst s'; clear H; apply (step_local _ _ _ I Ht); [owns_same P | unfold knows; prj; exact K | tpg_same P].
  - (* TVer *) destruct (if r then pop_ready (tape s) k else push_ready (qcap s) (tape s) k) eqn:R;
      inversion H; subst s'; clear H; apply (step_local _ _ _ I Ht).
    + owns_same P.
    + unfold knows; prj. split; auto. intros _. unfold ready. destruct r; exact R.
    + tpg_same P.
    + owns_same P.
    + unfold knows; prj. exact K.
    + tpg_same P.
  - (* TCas *) destruct K as [KA KB]. destruct (Nat.eqb_spec (ctr s (negb r)) k) as [E|E]; inversion H; subst s'; clear H.
    + replace (S k) with (ctr s (negb r) + 1) by lia. apply (step_gain _ _ _ I Ht).
      * owns_same P. rewrite E. intuition (subst; try lia; auto).
      * unfold knows; prj. split; [exact KA | apply KB; lia].
      * tpg_same P.
    + apply (step_local _ _ _ I Ht); [owns_same P | unfold knows; prj; exact KA | tpg_same P].
  - (* TAct *) destruct K as [KA KB]. destruct r.
    + (* deallocate compensates: pop cell k, return the page upstream *)
      unfold ready in KB. cbn [negb] in KB. unfold pop_ready in KB. destruct (tget (tape s) k) as [|p|] eqn:E; try discriminate.
      unfold take in H. rewrite E in H. inversion H; subst s'; clear H.
      apply (step_take _ _ _ I Ht k p).
      * unfold owns. rewrite P. right. split; reflexivity.
      * exact E.
      * owns_same P; try (destruct r; intuition (try discriminate; try congruence)).
      * unfold knows; prj. eapply (seg_inv_frame s); [reflexivity | | discriminate | exact KA].
        intros i Hi. cbn [with_mem tape]. destruct (Nat.eq_dec i k) as [->|Hne]; [apply tget_tset_same | rewrite tget_tset_other; auto].
      * intro x. assert (TS : forall y, cnt (tpg (goto th (WCheck true))) y = cnt (tpg th) y) by (tpg_same P).
        rewrite TS. cbn [upstream_free with_mem returned]. rewrite cnt_app. lia.
    + (* allocate compensates: push a fresh page into cell k *)
      unfold ready in KB. cbn [negb] in KB.
      assert (Ok : owns true th k) by (unfold owns; rewrite P; right; split; reflexivity).
      pose proof (i_c4 _ I _ _ _ Ht Ok) as E.
      unfold upstream_alloc, put in H. cbn [with_mem tape qcap fresh returned err] in H. rewrite E, KB in H. cbn [is_free andb] in H.
      inversion H; subst s'; clear H.
      apply (step_put _ _ _ I Ht k (fresh s) _ (fresh s + 1)); auto.
      * owns_same P; try (destruct r; intuition (try discriminate; try congruence)).
      * unfold knows; prj. eapply (seg_inv_frame s); [reflexivity | | | exact KA].
        -- intros i Hi. cbn [with_mem tape]. destruct (Nat.eq_dec i k) as [->|Hne]; [congruence | rewrite tget_tset_other; auto].
        -- intros _ i Hi. left. cbn [with_mem tape]. destruct (Nat.eq_dec i k) as [->|Hne]; [rewrite tget_tset_same; reflexivity | rewrite tget_tset_other; auto].
      * intro x. assert (TS : forall y, cnt (tpg (goto th (WCheck false))) y = cnt (tpg th) y) by (tpg_same P).
        rewrite TS. rewrite cnt_one.
        destruct (Nat.eqb_spec (fresh s) x); destruct (Nat.ltb_spec x (fresh s)); destruct (Nat.ltb_spec x (fresh s + 1)); lia.
  - (* Act *) destruct K as (K0 & K1 & K2 & K3 & K4 & K5 & K6).
    assert (Ok : owns r th (lo th)) by (unfold owns, in_seg; rewrite P; split; auto; lia).
    pose proof (K3 (lo th) ltac:(lia)) as R0.
    assert (CA : cursor_after r th = cur th + (se th - ss th)) by (apply cursor_after_spec; lia).
    assert (SL : S (lo th) - ss th = S (lo th - ss th)) by lia.
    destruct r.
    + (* deallocate: the push callback copies the page at the cursor into cell lo *)
      unfold ready in R0. pose proof (i_c4 _ I _ _ _ Ht Ok) as E. unfold cursor_ok in K6.
      rewrite src_index_spec in H. set (d := cur th + (lo th - ss th)) in *. set (p := nth d (buf th) 0) in *.
      unfold put in H. rewrite E, R0 in H. cbn [is_free andb] in H.
      assert (PR : forall m, push_ready (qcap s) (tape s) m = true ->
                   push_ready (qcap s) (tset (tape s) (lo th) (Full p)) m = true).
      { intros m. apply push_ready_mono. intros i Hi. destruct (Nat.eq_dec i (lo th)) as [->|Hne]; [congruence | rewrite tget_tset_other; auto]. }
      assert (IF : inflight th = p :: skipn (S d) (buf th)).
      { rewrite inflight_push by (rewrite P; reflexivity). apply skipn_nth_cons. unfold d. lia. }
      unfold cursor_after in CA.
      assert (OW : forall th', tpc th' = Extra true \/ ((tpc th' = WCheck true \/ tpc th' = Act true) /\ lo th' = S (lo th) /\ hi th' = hi th) ->
                   (tpc th' = Extra true -> S (lo th) = hi th) ->
                   forall r i, owns r th' i <-> owns r th i /\ ~ (r = true /\ i = lo th)).
      { intros th' [X|[[X|X] [X1 X2]]] Y r i; unfold owns, in_seg; rewrite X, P, ?X1, ?X2; try specialize (Y X);
          destruct r; intuition (try discriminate; try congruence; try lia). }
      destruct (Nat.eqb_spec (S (lo th)) (se th)) as [e1|e1]; [destruct K5 as [[e2 e3]|[e2 e3]]; rewrite e2 in H|];
        inversion H; subst s'; clear H; apply (step_put _ _ _ I Ht (lo th) p _ (fresh s) Ok R0).
      * apply OW; prj; auto. intros _. lia.
      * unfold knows; prj. reflexivity.
      * intro x. unfold tpg. rewrite IF. rewrite inflight_push by (prj; reflexivity). prj. rewrite CA.
        match goal with |- context [skipn (cur th + (se th - ss th) + ?z) _] =>
          replace (cur th + (se th - ss th) + z) with (S d) by (unfold d; lia) end. rewrite !cnt_app, (cnt_cons p (skipn (S d) (buf th))). lia.
      * apply OW; prj; auto. intros X; discriminate X.
      * unfold knows, seg_inv, rest_ok, cursor_ok; prj. rewrite CA.
        split; [lia|]. split; [lia|]. split; [lia|]. split; [lia|]. split; [intros m Hm; lia|]. split; [cbn [with_mem qcap]; lia|].
        split; [left; split; [reflexivity | lia] | lia].
      * intro x. unfold tpg. rewrite IF. rewrite inflight_push by (prj; reflexivity). prj. rewrite CA.
        match goal with |- context [skipn (cur th + (se th - ss th) + ?z) _] =>
          replace (cur th + (se th - ss th) + z) with (S d) by (unfold d; lia) end. rewrite !cnt_app, (cnt_cons p (skipn (S d) (buf th))). lia.
      * apply OW; prj; auto. intros X; discriminate X.
      * unfold knows, rest_ok, cursor_ok; prj. split; [lia|]. split; [lia|]. split; [lia|].
        split; [intros m Hm; unfold ready; cbn [with_mem qcap tape]; apply PR; apply (K3 m); lia|]. split; [exact K4|]. split; [exact K5|]. lia.
      * intro x. unfold tpg. rewrite IF. rewrite inflight_push by (prj; reflexivity). prj. rewrite SL.
        replace (cur th + S (lo th - ss th)) with (S d) by (unfold d; lia). rewrite !cnt_app, (cnt_cons p (skipn (S d) (buf th))). lia.
    + (* allocate: the pop callback copies the page of cell lo to the cursor *)
      unfold ready, pop_ready in R0. destruct (tget (tape s) (lo th)) as [|p|] eqn:E; try discriminate.
      unfold take in H. rewrite E in H. unfold cursor_ok in K6.
      rewrite dst_index_spec in H. rewrite <- K6 in H. rewrite write_at_end in H.
      assert (IF : inflight th = buf th) by (apply inflight_plain; rewrite P; reflexivity).
      unfold cursor_after in CA.
      assert (OW : forall th', tpc th' = Extra false \/ ((tpc th' = WCheck false \/ tpc th' = Act false) /\ lo th' = S (lo th) /\ hi th' = hi th) ->
                   (tpc th' = Extra false -> S (lo th) = hi th) ->
                   forall r i, owns r th' i <-> owns r th i /\ ~ (r = false /\ i = lo th)).
      { intros th' [X|[[X|X] [X1 X2]]] Y r i; unfold owns, in_seg; rewrite X, P, ?X1, ?X2; try specialize (Y X);
          destruct r; intuition (try discriminate; try congruence; try lia). }
      assert (CT : forall th', push_phase (tpc th') = false -> held th' = held th -> buf th' = buf th ++ [p] ->
                   forall x, cnt (tpg th') x + cnt (returned s) x = cnt (tpg th) x + cnt (returned s) x + cnt [p] x).
      { intros th' X1 X2 X3 x. unfold tpg. rewrite IF, (inflight_plain th' X1), X2, X3, !cnt_app. lia. }
      destruct (Nat.eqb_spec (S (lo th)) (se th)) as [e1|e1]; [destruct K5 as [[e2 e3]|[e2 e3]]; rewrite e2 in H|];
        inversion H; subst s'; clear H; apply (step_take _ _ _ I Ht (lo th) p _ _ Ok E).
      * apply OW; prj; auto. intros _. lia.
      * unfold knows; prj. rewrite CA, app_length. cbn. lia.
      * apply CT; reflexivity.
      * apply OW; prj; auto. intros X; discriminate X.
      * unfold knows, seg_inv, rest_ok, cursor_ok; prj. rewrite CA, app_length. cbn [length].
        split; [lia|]. split; [lia|]. split; [lia|]. split; [lia|]. split; [intros m Hm; lia|]. split; [cbn [with_mem qcap]; lia|].
        split; [left; split; [reflexivity | lia] | lia].
      * apply CT; reflexivity.
      * apply OW; prj; auto. intros X; discriminate X.
      * unfold knows, rest_ok, cursor_ok; prj. rewrite app_length. cbn [length]. split; [lia|]. split; [lia|]. split; [lia|].
        split; [|split; [exact K4|split; [exact K5|lia]]].
        intros m Hm. unfold ready, pop_ready. cbn [with_mem tape]. rewrite tget_tset_other by lia. apply (K3 m). lia.
      * apply CT; reflexivity.
  - (* Extra *) destruct r.
    + inversion H; subst s'; clear H. unfold upstream_free. apply (step_upstream _ _ _ I Ht).
      * owns_same P.
      * unfold knows; prj. reflexivity.
      * intro x. unfold tpg. rewrite (inflight_push th) by (rewrite P; reflexivity).
        rewrite (inflight_plain (finish th (held th) (free_res th))) by (prj; reflexivity). prj.
        rewrite K, Nat.sub_diag, Nat.add_0_r. rewrite !cnt_app, cnt_nil. lia.
    + unfold upstream_alloc in H. inversion H; subst s'; clear H. apply (step_upstream _ _ _ I Ht).
      * owns_same P.
      * unfold knows; prj. reflexivity.
      * cnt_tpg P. rewrite <- K, firstn_all, cnt_seq.
        destruct (Nat.leb_spec (fresh s) x); destruct (Nat.ltb_spec x (fresh s + extra_alloc_num th)); destruct (Nat.ltb_spec x (fresh s)); cbn [andb]; lia.
  - (* SWait *) assert (Ok : owns r th i) by (unfold owns; rewrite P; auto). destruct r.
    + destruct (push_ready (qcap s) (tape s) i) eqn:R; try discriminate. destruct K as [p B]. rewrite B in H.
      pose proof (i_c4 _ I _ _ _ Ht Ok) as E. unfold put in H. rewrite E, R in H. cbn [is_free andb] in H.
      inversion H; subst s'; clear H. apply (step_put _ _ _ I Ht i p _ (fresh s)); auto.
      * owns_same P; try (destruct r; intuition (try discriminate; try congruence)).
      * unfold knows; prj. reflexivity.
      * cnt_tpg P. rewrite B. lia.
    + destruct (pop_ready (tape s) i) eqn:R; try discriminate. unfold pop_ready in R.
      destruct (tget (tape s) i) as [|p|] eqn:E; try discriminate. unfold take in H. rewrite E in H.
      inversion H; subst s'; clear H. apply (step_take _ _ _ I Ht i p); auto.
      * owns_same P; try (destruct r; intuition (try discriminate; try congruence)).
      * unfold knows; prj. reflexivity.
      * cnt_tpg P. rewrite K, cnt_nil. lia.
  - (* YVer *) destruct (pop_ready (tape s) k) eqn:R; [|destruct (Nat.eqb_spec (npop s) k)];
      inversion H; subst s'; clear H; apply (step_local _ _ _ I Ht); try (owns_same P); unfold knows; prj; auto.
    all: cnt_tpg P; rewrite ?K, ?cnt_nil; lia.
  - (* YCas *) destruct K as [KA KB]. destruct (Nat.eqb_spec (npop s) k) as [e|e]; inversion H; subst s'; clear H.
    + replace (S k) with (ctr s false + 1) by (cbn; lia). apply (step_gain _ _ _ I Ht).
      * owns_same P. cbn [ctr]. rewrite e. intuition (subst; try lia; auto).
      * unfold knows; prj. split; auto. apply KB. lia.
      * cnt_tpg P.
    + apply (step_local _ _ _ I Ht); [owns_same P | unfold knows; prj; exact KA | cnt_tpg P].
  - (* YAct *) destruct K as [KA KB]. unfold ready, pop_ready in KB.
    destruct (tget (tape s) k) as [|p|] eqn:E; try discriminate. unfold take in H. rewrite E in H.
    inversion H; subst s'; clear H. apply (step_take _ _ _ I Ht k p); auto.
    + unfold owns. rewrite P. auto.
    + owns_same P; try (destruct r; intuition (try discriminate; try congruence)).
    + unfold knows; prj. reflexivity.
    + cnt_tpg P. rewrite KA, cnt_nil. lia.
  - (* PSize1 *) inversion H; subst s'; clear H; apply (step_local _ _ _ I Ht); [owns_same P | unfold knows; prj; exact K | cnt_tpg P].
  - (* PSize2 *) destruct (pool_drops (pcap s) (npush s) a); inversion H; subst s'; clear H.
    + unfold upstream_free. apply (step_upstream _ _ _ I Ht).
      * owns_same P.
      * unfold knows; prj. reflexivity.
      * cnt_tpg P.
    + apply (step_local _ _ _ I Ht); [owns_same P | unfold knows; prj; rewrite pool_push_n_one, K; split; lia | cnt_tpg P].
Qed.

(* ------------------------------------------------------------------ initial state, reachability *)
Definition Reach (qc pc : nat) (progs : list (list op)) (s : st) : Prop := reachable st step (init qc pc progs) s.

Lemma all_thr_init : forall progs x, cnt (flat_map tpg (map mk_thread progs)) x = 0.
Proof. induction progs; intros; cbn; auto. Qed.
Lemma nth_map_mk : forall progs t th, nth_error (map mk_thread progs) t = Some th -> exists p, th = mk_thread p.
Proof. intros. rewrite nth_error_map in H. destruct (nth_error progs t); inversion H. eauto. Qed.

Lemma inv_init : forall qc pc progs, pow2 qc -> Inv (init qc pc progs).
Proof.
  intros qc pc progs Hq.
  assert (NO : forall t th r i, nth_error (threads (init qc pc progs)) t = Some th -> owns r th i -> False).
  { intros t th r i H O. apply nth_map_mk in H. destruct H as [p ->]. exact O. }
  constructor; cbn [init qcap npush npop tape fresh returned err]; auto.
  - intros. exfalso. eapply NO; eauto.
  - intros. exfalso. eapply NO; eauto.
  - intros. rewrite tget_nil. discriminate.
  - intros. apply tget_nil.
  - intros. exfalso. eapply NO; eauto.
  - intros. exfalso. eapply NO; eauto.
  - intros. lia.
  - intros. lia.
  - intros t th H. apply nth_map_mk in H. destruct H as [p ->]. reflexivity.
  - intros i H. rewrite tget_nil in H. congruence.
  - intros x. unfold all_thr. cbn [init threads]. rewrite all_thr_init. cbn. reflexivity.
Qed.

Theorem pa_inv : forall qc pc progs s, pow2 qc -> Reach qc pc progs s -> Inv s.
Proof.
  intros qc pc progs s Hq R. eapply (inv_reachable st step Inv); eauto.
  - apply inv_init; auto.
  - intros. eapply inv_step; eauto.
Qed.

(* ------------------------------------------------------------------ single owner, conservation *)
(* pages inside running calls: for a deallocate only the part of its array it has not handed over yet *)
Definition all_inflight (s : st) : list nat := flat_map inflight (threads s).
Definition pages_of (s : st) : list nat := tape_pages (tape s) ++ all_held s ++ all_inflight s ++ returned s.

Lemma cnt_all_thr : forall l x, cnt (flat_map tpg l) x = cnt (flat_map held l) x + cnt (flat_map inflight l) x.
Proof. induction l; intros; cbn; auto. unfold tpg at 1. rewrite !cnt_app, IHl. lia. Qed.

Lemma cnt_pages_of : forall s x, Inv s -> cnt (pages_of s) x = if x <? fresh s then 1 else 0.
Proof.
  intros s x I. unfold pages_of, all_held, all_inflight. rewrite !cnt_app. pose proof (i_cnt _ I x) as H.
  unfold all_thr in H. rewrite cnt_all_thr in H. lia.
Qed.

Theorem pa_conservation : forall s, Inv s -> Permutation (pages_of s) (seq 0 (fresh s)).
Proof. intros s I. apply perm_of_cnt. intro x. rewrite cnt_pages_of, cnt_seq0; auto. Qed.

Theorem pa_single_owner : forall s, Inv s -> NoDup (pages_of s) /\ err s = false.
Proof.
  intros s I. split; [|apply (i_err _ I)]. apply nodup_of_cnt. intro x. rewrite cnt_pages_of; auto.
  destruct (x <? fresh s); lia.
Qed.

Lemma quiescent_buf : forall s, Inv s -> quiescent s = true -> all_inflight s = [].
Proof.
  intros s I Q. unfold all_inflight, quiescent in *.
  assert (H : forall t th, nth_error (threads s) t = Some th -> knows s th) by (apply (i_kn _ I)).
  revert Q H. generalize (threads s). induction l as [|th l IH]; intros Q H; cbn in *; auto.
  apply andb_prop in Q. destruct Q as [Q1 Q2]. specialize (H 0 th eq_refl) as K. unfold knows in K. unfold is_idle in Q1.
  destruct (tpc th) eqn:P; try discriminate. rewrite inflight_plain by (rewrite P; reflexivity). rewrite K. cbn. apply IH; auto. intros t th' E. apply (H (S t) th' E).
Qed.

Theorem pa_conservation_quiescent : forall s, Inv s -> quiescent s = true ->
  fresh s - length (returned s) = length (all_held s) + length (tape_pages (tape s)) /\ length (returned s) <= fresh s.
Proof.
  intros s I Q. pose proof (Permutation_length (pa_conservation s I)) as L. unfold pages_of in L.
  rewrite (quiescent_buf s I Q) in L. rewrite !app_length, seq_length in L. cbn in L. lia.
Qed.

(* ------------------------------------------------------------------ shape of the tape when nobody holds a ticket *)
Definition no_owner (s : st) : Prop := forall t th r i, nth_error (threads s) t = Some th -> ~ owns r th i.

Lemma quiescent_no_owner : forall s, quiescent s = true -> no_owner s.
Proof.
  intros s Q t th r i H O. unfold quiescent in Q. rewrite forallb_forall in Q. specialize (Q th (nth_error_In _ _ H)).
  unfold is_idle in Q. unfold owns in O. destruct (tpc th); try discriminate. exact O.
Qed.

Lemma tape_shape : forall s, Inv s -> no_owner s ->
  (forall j, j < npop s -> tget (tape s) j = Consumed) /\
  (forall j, npop s <= j < npush s -> is_full (tget (tape s) j) = true) /\
  (forall j, npush s <= j -> tget (tape s) j = Free) /\
  npop s <= npush s /\ npush s - npop s <= qcap s.
Proof.
  intros s I N.
  assert (A : forall j, j < npop s -> tget (tape s) j = Consumed).
  { intros j Hj. destruct (i_d1 _ I j Hj) as [E|(t & th & H & O)]; auto. exfalso. eapply N; eauto. }
  assert (B : forall j, j < npush s -> tget (tape s) j <> Free).
  { intros j Hj. destruct (i_d2 _ I j Hj) as [E|(t & th & H & O)]; auto. exfalso. eapply N; eauto. }
  assert (C : npop s <= npush s).
  { destruct (Nat.le_gt_cases (npop s) (npush s)); auto. pose proof (A (npush s) H). pose proof (i_c2 _ I (npush s) (le_n _)). congruence. }
  repeat split; auto.
  - intros j [H1 H2]. pose proof (B j H2). pose proof (i_c1 _ I j H1). destruct (tget (tape s) j); auto; congruence.
  - apply (i_c2 _ I).
  - destruct (Nat.le_gt_cases (npush s - npop s) (qcap s)); auto. exfalso.
    pose proof (i_k1 _ I (npush s - 1 - qcap s)) as K. replace (npush s - 1 - qcap s + qcap s) with (npush s - 1) in K by lia.
    specialize (K (B (npush s - 1) ltac:(lia))). apply (i_c1 _ I (npush s - 1 - qcap s)); auto. lia.
Qed.

(* a page is cached only in Full cells: bound on the cache content *)
Lemma tape_pages_bound : forall tp a b, (forall j, is_full (tget tp j) = true -> a <= j < b) -> length (tape_pages tp) <= b - a.
Proof.
  unfold tape_pages. induction tp as [|c tp IH]; intros a b H; cbn; try lia.
  rewrite app_length. assert (T : forall j, is_full (tget tp j) = true -> a - 1 <= j < b - 1).
  { intros j F. specialize (H (S j) F). lia. }
  specialize (IH _ _ T). destruct c; cbn; try lia.
  specialize (H 0 eq_refl). lia.
Qed.
Lemma tape_pages_none : forall tp, (forall j, is_full (tget tp j) = false) -> tape_pages tp = [].
Proof.
  intros tp H. assert (L : length (tape_pages tp) <= 0 - 0).
  { apply tape_pages_bound. intros j F. rewrite H in F. discriminate. }
  destruct (tape_pages tp); auto. cbn in L. lia.
Qed.

Theorem pa_cache_bounded_quiescent : forall s, Inv s -> quiescent s = true -> length (tape_pages (tape s)) <= qcap s.
Proof.
  intros s I Q. destruct (tape_shape s I (quiescent_no_owner s Q)) as (A & B & C & D & E).
  pose proof (tape_pages_bound (tape s) (npop s) (npush s)) as H. etransitivity; [apply H|lia].
  intros j F. destruct (Nat.lt_ge_cases j (npop s)) as [X|X]; [rewrite (A j X) in F; discriminate|].
  destruct (Nat.lt_ge_cases j (npush s)) as [Y|Y]; [lia|]. rewrite (C j Y) in F. discriminate.
Qed.

(* ------------------------------------------------------------------ strict pool: a blocked pop means the pool is empty *)
Theorem pa_blocked_pop_enabled : forall s t th i, nth_error (threads s) t = Some th -> tpc th = SWait false i ->
  pop_ready (tape s) i = true -> step s t <> None.
Proof.
  intros s t th i H P R. unfold step. rewrite H. unfold step_thread. rewrite P, R. destruct (take s i). discriminate.
Qed.

Theorem pa_blocked_pop_means_empty : forall s, Inv s ->
  (forall t th, nth_error (threads s) t = Some th ->
     tpc th = Idle \/ exists i, tpc th = SWait false i /\ pop_ready (tape s) i = false) ->
  (exists t th i, nth_error (threads s) t = Some th /\ tpc th = SWait false i) ->
  tape_pages (tape s) = [].
Proof.
  intros s I All (t0 & th0 & i0 & H0 & P0). apply tape_pages_none. intro j.
  destruct (is_full (tget (tape s) j)) eqn:F; auto. exfalso.
  assert (NP : forall t th i, nth_error (threads s) t = Some th -> ~ owns true th i).
  { intros t th i H O. destruct (All t th H) as [E|(k & E & _)]; unfold owns in O; rewrite E in O; auto. destruct O; discriminate. }
  assert (BL : forall t th i, nth_error (threads s) t = Some th -> owns false th i -> pop_ready (tape s) i = false).
  { intros t th i H O. destruct (All t th H) as [E|(k & E & R)]; unfold owns in O; rewrite E in O; try contradiction.
    destruct O as [_ ->]. auto. }
  destruct (Nat.lt_ge_cases j (npop s)) as [X|X].
  - destruct (i_d1 _ I j X) as [E|(t & th & H & O)].
    + rewrite E in F. discriminate.
    + pose proof (BL _ _ _ H O) as R. unfold pop_ready in R. congruence.
  - assert (O0 : owns false th0 i0) by (unfold owns; rewrite P0; auto).
    pose proof (i_lt _ I _ _ _ _ H0 O0) as L. cbn in L.
    assert (J : j < npush s).
    { destruct (Nat.lt_ge_cases j (npush s)); auto. rewrite (i_c2 _ I j) in F; auto. discriminate. }
    destruct (i_d2 _ I i0 ltac:(lia)) as [E|(t & th & H & O)].
    + pose proof (i_c3 _ I _ _ _ H0 O0) as NC. pose proof (BL _ _ _ H0 O0) as R. unfold pop_ready in R.
      destruct (tget (tape s) i0); cbn in R; congruence.
    + eapply NP; eauto.
Qed.

(* ------------------------------------------------------------------ ~CachedPageAllocator *)
Definition defull (c : cell) : cell := match c with Full _ => Consumed | x => x end.
Definition drop1 (s : st) (i : nat) : st := let (s1, l) := take s i in upstream_free s1 l.
Definition psum (s : st) (x : nat) : nat := cnt (tape_pages (tape s)) x + cnt (returned s) x.
Definition same_rest (s s1 : st) : Prop :=
  qcap s1 = qcap s /\ threads s1 = threads s /\ fresh s1 = fresh s /\ npush s1 = npush s /\ (forall x, psum s1 x = psum s x).

Lemma drop1_spec : forall s i,
  (forall j, tget (tape (drop1 s i)) j = if Nat.eqb j i then defull (tget (tape s) i) else tget (tape s) j) /\
  same_rest s (drop1 s i) /\ npop (drop1 s i) = npop s.
Proof.
  intros s i. unfold drop1, take. destruct (tget (tape s) i) as [|p|] eqn:E; cbn [upstream_free with_mem tape returned fresh err qcap threads npush npop].
  - repeat split; auto.
    + intros j. destruct (Nat.eqb_spec j i); subst; auto.
    + intros x. unfold psum. cbn [upstream_free with_mem tape returned]. rewrite app_nil_r. reflexivity.
  - repeat split; auto.
    + intros j. destruct (Nat.eqb_spec j i); subst; cbn [defull]; [apply tget_tset_same | apply tget_tset_other; auto].
    + intros x. unfold psum. cbn [upstream_free with_mem tape returned]. rewrite cnt_app.
      pose proof (cnt_tape_set i (tape s) Consumed x) as H. rewrite E in H. cbn [cell_pages] in H. rewrite cnt_nil in H. lia.
  - repeat split; auto.
    + intros j. destruct (Nat.eqb_spec j i); subst; auto.
    + intros x. unfold psum. cbn [upstream_free with_mem tape returned]. rewrite app_nil_r. reflexivity.
Qed.

Lemma drop_cells_unfold : forall s i n, drop_cells s i (S n) = drop_cells (drop1 s i) (S i) n.
Proof. intros. cbn [drop_cells]. unfold drop1. destruct (take s i). reflexivity. Qed.

Lemma drop_cells_spec : forall c s i,
  (forall j, tget (tape (drop_cells s i c)) j = if (i <=? j) && (j <? i + c) then defull (tget (tape s) j) else tget (tape s) j) /\
  same_rest s (drop_cells s i c) /\ npop (drop_cells s i c) = npop s.
Proof.
  induction c as [|c IH]; intros s i.
  - cbn [drop_cells]. repeat split; auto. intros j. destruct (Nat.leb_spec i j); destruct (Nat.ltb_spec j (i + 0)); cbn [andb]; auto; lia.
  - rewrite drop_cells_unfold. destruct (IH (drop1 s i) (S i)) as (A & (B1 & B2 & B3 & B4 & B5) & C).
    destruct (drop1_spec s i) as (D & (E1 & E2 & E3 & E4 & E5) & F).
    repeat split; try congruence.
    + intros j. rewrite A, D.
      destruct (Nat.leb_spec (S i) j); destruct (Nat.ltb_spec j (S i + c)); destruct (Nat.leb_spec i j);
        destruct (Nat.ltb_spec j (i + S c)); destruct (Nat.eqb_spec j i); cbn [andb]; subst; auto; try lia.
Qed.

Lemma count_ready_spec : forall n tp i b, (forall j, i <= j < b -> is_full (tget tp j) = true) ->
  is_full (tget tp b) = false -> i <= b -> count_ready tp i n = Nat.min n (b - i).
Proof.
  induction n as [|n IH]; intros tp i b F N L; cbn [count_ready]; auto.
  unfold pop_ready. destruct (Nat.eq_dec i b) as [->|Hne].
  - rewrite N. lia.
  - rewrite (F i ltac:(lia)). rewrite (IH tp (S i) b); try lia; auto. intros j Hj. apply F. lia.
Qed.

Definition fullrange (tp : list cell) (a b : nat) : Prop := forall j, is_full (tget tp j) = true <-> a <= j < b.

Lemma try_pop_cont_spec : forall s a b n, fullrange (tape s) a b -> a <= b ->
  snd (try_pop_cont s a n) = Nat.min n (b - a) /\
  fullrange (tape (fst (try_pop_cont s a n))) (a + Nat.min n (b - a)) b /\
  same_rest s (fst (try_pop_cont s a n)).
Proof.
  intros s a b n FR L. unfold try_pop_cont.
  assert (C : count_ready (tape s) a n = Nat.min n (b - a)).
  { apply count_ready_spec; auto.
    - intros j Hj. apply FR. auto.
    - destruct (is_full (tget (tape s) b)) eqn:E; auto. apply FR in E. lia. }
  rewrite C. destruct (Nat.eqb_spec (Nat.min n (b - a)) 0) as [e|e]; cbn [fst snd].
  - rewrite e. rewrite Nat.add_0_r. split; [reflexivity|]. split; [exact FR|]. repeat split; auto.
  - destruct (drop_cells_spec (Nat.min n (b - a)) (with_ctr s false (a + Nat.min n (b - a))) a) as (A & (B1 & B2 & B3 & B4 & B5) & _).
    split; [reflexivity|]. split.
    + intros j. rewrite A. cbn [with_ctr tape]. pose proof (FR j) as Fj.
      destruct (Nat.leb_spec a j); destruct (Nat.ltb_spec j (a + Nat.min n (b - a))); cbn [andb].
      * split; intro X; [destruct (tget (tape s) j); discriminate | lia].
      * rewrite Fj. lia.
      * rewrite Fj. lia.
      * rewrite Fj. lia.
    + split; [exact B1|]. split; [exact B2|]. split; [exact B3|]. split; [exact B4|]. exact B5.
Qed.

Theorem pa_dtor_returns_cache : forall s, Inv s -> quiescent s = true ->
  tape_pages (tape (dtor s)) = [] /\ Permutation (returned (dtor s)) (returned s ++ tape_pages (tape s)) /\
  threads (dtor s) = threads s /\ fresh (dtor s) = fresh s.
Proof.
  intros s I Q. destruct (tape_shape s I (quiescent_no_owner s Q)) as (A & B & C & D & E).
  assert (FR : fullrange (tape s) (npop s) (npush s)).
  { intros j. split.
    - intros F. destruct (Nat.lt_ge_cases j (npop s)) as [X|X]; [rewrite (A j X) in F; discriminate|].
      destruct (Nat.lt_ge_cases j (npush s)) as [Y|Y]; [lia|]. rewrite (C j Y) in F. discriminate.
    - apply B. }
  assert (FIN : forall s1, fullrange (tape s1) (npush s) (npush s) -> same_rest s s1 ->
                tape_pages (tape s1) = [] /\ Permutation (returned s1) (returned s ++ tape_pages (tape s)) /\
                threads s1 = threads s /\ fresh s1 = fresh s).
  { intros s1 F (R1 & R2 & R3 & R4 & R5).
    assert (T : tape_pages (tape s1) = []).
    { apply tape_pages_none. intro j. destruct (is_full (tget (tape s1) j)) eqn:X; auto. apply F in X. lia. }
    repeat split; auto. apply perm_of_cnt. intro x. specialize (R5 x). unfold psum in R5. rewrite T, cnt_nil in R5.
    rewrite cnt_app. lia. }
  unfold dtor. rewrite dtor_num_spec. unfold try_pop_n_seq.
  pose proof (round_end_gt (qcap s) (npop s) (i_q _ I)) as RB. set (rb := round_end (qcap s) (npop s)) in *.
  destruct (Nat.leb_spec (npop s + qcap s) rb) as [X|X].
  - destruct (try_pop_cont_spec s (npop s) (npush s) (npop s + qcap s - npop s) FR D) as (S1 & S2 & S3).
    apply FIN; auto. replace (npop s + Nat.min (npop s + qcap s - npop s) (npush s - npop s)) with (npush s) in S2 by lia. exact S2.
  - destruct (try_pop_cont_spec s (npop s) (npush s) (rb - npop s) FR D) as (S1 & S2 & S3).
    destruct (try_pop_cont s (npop s) (rb - npop s)) as [s1 popped] eqn:TP. cbn [fst snd] in *.
    destruct (Nat.ltb_spec popped (rb - npop s)) as [Y|Y].
    + apply FIN; auto. replace (npop s + Nat.min (rb - npop s) (npush s - npop s)) with (npush s) in S2 by lia. exact S2.
    + replace (npop s + Nat.min (rb - npop s) (npush s - npop s)) with rb in S2 by lia.
      destruct (try_pop_cont_spec s1 rb (npush s) (npop s + qcap s - rb) S2 ltac:(lia)) as (U1 & U2 & U3).
      apply FIN.
      * replace (rb + Nat.min (npop s + qcap s - rb) (npush s - rb)) with (npush s) in U2 by lia. exact U2.
      * destruct S3 as (R1 & R2 & R3 & R4 & R5). destruct U3 as (V1 & V2 & V3 & V4 & V5).
        split; [congruence|]. split; [congruence|]. split; [congruence|]. split; [congruence|]. intros x. rewrite V5. auto.
Qed.

(* ------------------------------------------------------------------ strict pool never creates objects *)
Definition strict_op (o : op) : bool := match o with ONew | OSPop | OSPush | OTryPop => true | _ => false end.
Definition strict_progs (progs : list (list op)) : bool := forallb (forallb strict_op) progs.
Definition is_new (r : res) : bool := match r with RNew _ => true | _ => false end.
Definition nnew (th : thread) : nat := length (filter is_new (results th)).
Definition news (s : st) : nat := list_sum (map nnew (threads s)).
Definition strict_pc (p : pc) : bool := match p with Idle | SWait _ _ | YVer _ | YCas _ | YAct _ => true | _ => false end.
Record SInv (s : st) : Prop := {
  s_prog : forall t th, nth_error (threads s) t = Some th -> forallb strict_op (prog th) = true /\ strict_pc (tpc th) = true;
  s_news : fresh s = news s;
  s_ret : returned s = [] }.

Lemma sum_set_nth : forall (f : thread -> nat) l t th th', nth_error l t = Some th ->
  list_sum (map f (set_nth t th' l)) + f th = list_sum (map f l) + f th'.
Proof.
  induction l; intros [|t] th th' H; cbn [set_nth map nth_error] in *; try discriminate; rewrite !(list_sum_app [_]) || idtac.
  - inversion H; subst. cbn [list_sum fold_right]. unfold list_sum. cbn [fold_right]. lia.
  - specialize (IHl t th th' H). unfold list_sum in *. cbn [fold_right]. lia.
Qed.

Lemma take_same : forall s k s1 l, take s k = (s1, l) -> threads s1 = threads s /\ fresh s1 = fresh s /\ returned s1 = returned s.
Proof. intros s k s1 l H. unfold take in H. destruct (tget (tape s) k); inversion H; subst; auto. Qed.
Lemma put_same : forall s k p, threads (put s k p) = threads s /\ fresh (put s k p) = fresh s /\ returned (put s k p) = returned s.
Proof. intros. unfold put. destruct (is_free (tget (tape s) k) && push_ready (qcap s) (tape s) k); auto. Qed.

Lemma sinv_upd : forall s s1 t th th', SInv s -> nth_error (threads s) t = Some th -> threads s1 = threads s ->
  prog th' = prog th -> strict_pc (tpc th') = true -> fresh s1 + nnew th = fresh s + nnew th' ->
  returned s1 = returned s -> SInv (upd s1 t th').
Proof.
  intros s s1 t th th' S Ht Hths Hp Hpc Hf Hr. constructor; [| |cbn [upd with_threads returned]; rewrite Hr; apply (s_ret _ S)].
  - intros t2 th2 H2. cbn [upd with_threads threads] in H2. rewrite Hths in H2.
    destruct (nth_upd_cases _ _ _ _ _ _ _ Ht H2) as [[-> ->]|[Hne H2']].
    + rewrite Hp. split; auto. apply (s_prog _ S _ _ Ht).
    + apply (s_prog _ S _ _ H2').
  - unfold news. cbn [upd with_threads threads fresh]. rewrite Hths.
    pose proof (sum_set_nth nnew (threads s) t th th' Ht). pose proof (s_news _ S). unfold news in *. lia.
Qed.

Lemma nnew_finish : forall th h r, nnew (finish th h r) = nnew th + (if is_new r then 1 else 0).
Proof. intros. unfold nnew. cbn [finish results]. rewrite filter_app, app_length. cbn. destruct (is_new r); reflexivity. Qed.

Lemma sinv_step : forall s t s', SInv s -> step s t = Some s' -> SInv s'.
Proof.
  intros s t s' S H. unfold step in H. destruct (nth_error (threads s) t) as [th|] eqn:Ht; [|discriminate].
  destruct (s_prog _ S _ _ Ht) as [Pg Pc]. unfold step_thread in H.
  destruct (tpc th) eqn:P; try discriminate Pc.
  - destruct (cur_op th) as [o|] eqn:Op; [|discriminate].
    assert (So : strict_op o = true).
    { unfold cur_op in Op. apply nth_error_In in Op. rewrite forallb_forall in Pg. auto. }
    destruct o; try discriminate So.
    + inversion H; subst s'; clear H. eapply sinv_upd; eauto. rewrite nnew_finish. cbn. lia.
    + inversion H; subst s'; clear H. eapply sinv_upd; eauto.
    + destruct (held th); inversion H; subst s'; clear H; eapply sinv_upd; eauto. rewrite nnew_finish. cbn. lia.
    + inversion H; subst s'; clear H. eapply sinv_upd; eauto.
  - destruct r.
    + destruct (push_ready (qcap s) (tape s) i); try discriminate. destruct (buf th); inversion H; subst s'; clear H.
      * eapply sinv_upd; eauto. rewrite nnew_finish. cbn. lia.
      * destruct (put_same s i n) as (? & ? & ?). eapply sinv_upd; eauto. rewrite nnew_finish. cbn. lia.
    + destruct (pop_ready (tape s) i); try discriminate. destruct (take s i) as [s1 l] eqn:T.
      destruct (take_same _ _ _ _ T) as (? & ? & ?). inversion H; subst s'; clear H. eapply sinv_upd; eauto.
      rewrite nnew_finish. destruct l; cbn; lia.
  - destruct (pop_ready (tape s) k); [|destruct (npop s =? k)]; inversion H; subst s'; clear H; eapply sinv_upd; eauto.
    rewrite nnew_finish. cbn. lia.
  - destruct (npop s =? k); inversion H; subst s'; clear H; eapply sinv_upd; eauto.
  - destruct (take s k) as [s1 l] eqn:T. destruct (take_same _ _ _ _ T) as (? & ? & ?). inversion H; subst s'; clear H.
    eapply sinv_upd; eauto. rewrite nnew_finish. cbn. lia.
Qed.

Lemma sinv_init : forall qc pc progs, strict_progs progs = true -> SInv (init qc pc progs).
Proof.
  intros qc pc progs SP. constructor.
  - intros t th H. cbn [init threads] in H. rewrite nth_error_map in H. destruct (nth_error progs t) as [p|] eqn:E; inversion H; subst.
    cbn. split; auto. unfold strict_progs in SP. rewrite forallb_forall in SP. apply SP. eapply nth_error_In; eauto.
  - unfold news. cbn [init threads fresh]. induction progs; cbn; auto. apply IHprogs. cbn in SP. apply andb_prop in SP. tauto.
  - reflexivity.
Qed.

Lemma pa_sinv : forall qc pc progs s, strict_progs progs = true -> Reach qc pc progs s -> SInv s.
Proof.
  intros qc pc progs s SP R. eapply (inv_reachable st step SInv); eauto.
  - apply sinv_init; auto.
  - intros. eapply sinv_step; eauto.
Qed.
Theorem pa_strict_never_creates : forall qc pc progs s, strict_progs progs = true -> Reach qc pc progs s -> fresh s = news s.
Proof.
  intros qc pc progs s SP R. apply s_news. eapply (inv_reachable st step SInv); eauto.
  - apply sinv_init; auto.
  - intros. eapply sinv_step; eauto.
Qed.

(* objects outstanding (held by callers) never exceed the objects injected by the clients *)
Theorem pa_strict_bound : forall qc pc progs s, pow2 qc -> strict_progs progs = true -> Reach qc pc progs s ->
  length (all_held s) + length (tape_pages (tape s)) <= news s.
Proof.
  intros qc pc progs s Hq SP R. rewrite <- (pa_strict_never_creates _ _ _ _ SP R).
  pose proof (Permutation_length (pa_conservation s (pa_inv _ _ _ _ Hq R))) as L. unfold pages_of in L.
  rewrite !app_length, seq_length in L. lia.
Qed.

(* ------------------------------------------------------------------ recycler: one run per object handed to push *)
Definition rp (s : st) : list nat * list nat := (recycled s, pushes s).
Lemma rp_take : forall s k, rp (fst (take s k)) = rp s.
Proof. intros. unfold take. destruct (tget (tape s) k); reflexivity. Qed.
Lemma rp_put : forall s k p, rp (put s k p) = rp s.
Proof. intros. unfold put. destruct (is_free (tget (tape s) k) && push_ready (qcap s) (tape s) k); reflexivity. Qed.

Lemma rec_step : forall s t s', recycled s = pushes s -> step s t = Some s' -> recycled s' = pushes s'.
Proof.
  intros s t s' E H. unfold step in H. destruct (nth_error (threads s) t) as [th|]; [|discriminate].
  assert (G : forall s1, rp s1 = rp s -> recycled s1 = pushes s1) by (intros s1 X; inversion X; congruence).
  assert (T : forall k, rp (fst (take s k)) = rp s) by (apply rp_take).
  unfold step_thread, upstream_alloc, upstream_free in H.
  destruct (tpc th); try destruct (cur_op th) as [[]|]; try destruct r;
    repeat match type of H with
    | context [take s ?k] => let s1 := fresh "s1" in let l := fresh "l" in let X := fresh "X" in
                             specialize (T k); destruct (take s k) as [s1 l] eqn:X; cbn [fst] in T
    | context [if ?x then _ else _] => destruct x
    | context [match ?x with _ => _ end] => destruct x
    end; try discriminate; inversion H; subst s'; clear H;
    try (apply G; first [exact T | reflexivity]);
    try (cbn; rewrite E; reflexivity);
    try (apply G; cbn [rp recycled pushes upd with_threads with_mem]; inversion T; reflexivity);
    try (apply G; match goal with |- rp (upd (put ?s0 ?k ?p) _ _) = _ => change (rp (put s0 k p) = rp s); rewrite rp_put; reflexivity end).
Qed.

Theorem pa_recycle_once : forall qc pc progs s, Reach qc pc progs s -> recycled s = pushes s.
Proof.
  intros qc pc progs s R. eapply (inv_reachable st step (fun s => recycled s = pushes s)); eauto.
  - reflexivity.
  - intros. eapply rec_step; eauto.
Qed.

(* =========================================================================================== PART B *)
Lemma cnt_concat_set_nth : forall (l : list (list nat)) t h h' x, nth_error l t = Some h ->
  cnt (concat (set_nth t h' l)) x + cnt h x = cnt (concat l) x + cnt h' x.
Proof.
  induction l; intros [|t] h h' x H; cbn in *; try discriminate.
  - inversion H; subst. rewrite !cnt_app. lia.
  - rewrite !cnt_app. specialize (IHl t h h' x H). lia.
Qed.
Lemma len_concat_set_nth : forall (l : list (list nat)) t h h', nth_error l t = Some h ->
  length (concat (set_nth t h' l)) + length h = length (concat l) + length h'.
Proof.
  induction l; intros [|t] h h' H; cbn in *; try discriminate.
  - inversion H; subst. rewrite !app_length. lia.
  - rewrite !app_length. specialize (IHl t h h' H). lia.
Qed.
Lemma cnt_rest_set_nth : forall (l : list bslot) t sl sl' x, nth_error l t = Some sl ->
  cnt (flat_map slot_rest (set_nth t sl' l)) x + cnt (slot_rest sl) x = cnt (flat_map slot_rest l) x + cnt (slot_rest sl') x.
Proof.
  induction l; intros [|t] sl sl' x H; cbn in *; try discriminate.
  - inversion H; subst. rewrite !cnt_app. lia.
  - rewrite !cnt_app. specialize (IHl t sl sl' x H). lia.
Qed.
Lemma length_set_nth : forall A (l : list A) t x, length (set_nth t x l) = length l.
Proof. induction l; intros [|t] x; cbn; auto. Qed.

(* the slots: sized to the batch, offset inside the buffer; nothing has been read outside a buffer *)
Definition slots_ok (s : bst) : Prop :=
  1 <= batch s /\ berr s = false /\
  forall t sl, nth_error (slots s) t = Some sl -> length (bbuf sl) = batch s /\ bnext sl <= batch s.
Definition brel (s s1 : bst) (l : list nat) : Prop :=
  batch s1 = batch s /\ bheld s1 = bheld s /\ breturned s1 = breturned s /\ bcount s1 = bcount s /\
  length (slots s1) = length (slots s) /\
  forall x, cnt l x + cnt (flat_map slot_rest (slots s1)) x + (if x <? bfresh s then 1 else 0) =
            cnt (flat_map slot_rest (slots s)) x + (if x <? bfresh s1 then 1 else 0).

Lemma batch_alloc1_spec : forall s t, slots_ok s -> t < length (slots s) ->
  slots_ok (fst (batch_alloc1 s t)) /\ brel s (fst (batch_alloc1 s t)) [snd (batch_alloc1 s t)].
Proof.
  intros s t (B & E & SL) Ht. unfold batch_alloc1.
  destruct (nth_error (slots s) t) as [sl|] eqn:Hs; [|apply nth_error_None in Hs; lia].
  rewrite (nth_error_nth _ _ bslot0 Hs). destruct (SL _ _ Hs) as [L N].
  unfold batch_has, batch_refill_num, batch_next_after_refill, zn.
  destruct (Z.ltb_spec (Z.of_nat (bnext sl)) (Z.of_nat (length (bbuf sl)))) as [X|X]; cbn [fst snd].
  - (* served from the prefetch buffer *)
    split.
    + unfold slots_ok. cbn [slots batch berr]. split; [exact B|]. split; [exact E|]. intros t2 sl2 H2.
      destruct (nth_upd_cases _ _ _ _ _ _ _ Hs H2) as [[-> ->]|[_ H2']]; [cbn; lia | apply (SL _ _ H2')].
    + unfold brel. cbn [slots batch bheld breturned bcount bfresh]. repeat split; auto.
      * apply length_set_nth.
      * intros x. pose proof (cnt_rest_set_nth (slots s) t sl {| bbuf := bbuf sl; bnext := S (bnext sl) |} x Hs) as H.
        change (slot_rest sl) with (skipn (bnext sl) (bbuf sl)) in H.
        change (slot_rest {| bbuf := bbuf sl; bnext := S (bnext sl) |}) with (skipn (S (bnext sl)) (bbuf sl)) in H.
        rewrite (skipn_nth_cons (bbuf sl) (bnext sl) 0) in H by lia.
        rewrite (cnt_cons (nth (bnext sl) (bbuf sl) 0)) in H. lia.
  - (* refill from upstream *)
    assert (Nx : bnext sl = batch s) by lia.
    replace (Z.to_nat (Z.of_nat (batch s))) with (batch s) by lia. replace (Z.to_nat (0 + 1)) with 1 by lia.
    rewrite L. rewrite (skipn_all2 (bbuf sl)) by lia. rewrite app_nil_r.
    destruct (batch s) as [|b] eqn:Bs; [lia|].
    split.
    + unfold slots_ok. cbn [berr batch slots]. split; [lia|]. split.
      * rewrite E, Nat.leb_refl. reflexivity.
      * intros t2 sl2 H2. destruct (nth_upd_cases _ _ _ _ _ _ _ Hs H2) as [[-> ->]|[_ H2']].
        -- cbn [bbuf bnext]. rewrite seq_length. lia.
        -- apply (SL _ _ H2').
    + unfold brel. cbn [slots batch bheld breturned bcount bfresh]. repeat split; auto.
      * apply length_set_nth.
      * intros x. pose proof (cnt_rest_set_nth (slots s) t sl {| bbuf := seq (bfresh s) (S b); bnext := 1 |} x Hs) as H.
        change (slot_rest sl) with (skipn (bnext sl) (bbuf sl)) in H.
        change (slot_rest {| bbuf := seq (bfresh s) (S b); bnext := 1 |}) with (skipn 1 (seq (bfresh s) (S b))) in H.
        rewrite (skipn_all2 (bbuf sl)) in H by lia.
        cbn [seq skipn nth] in *. rewrite cnt_nil in H. rewrite cnt_one.
        assert (Q : cnt (seq (S (bfresh s)) b) x = (if (S (bfresh s) <=? x) && (x <? S (bfresh s) + b) then 1 else 0)) by apply cnt_seq.
        destruct (Nat.eqb_spec (bfresh s) x); destruct (Nat.ltb_spec x (bfresh s)); destruct (Nat.ltb_spec x (bfresh s + S b));
          destruct (Nat.leb_spec (S (bfresh s)) x); destruct (Nat.ltb_spec x (S (bfresh s) + b)); cbn [andb] in Q; lia.
Qed.

Lemma brel_refl : forall s, brel s s [].
Proof. intros. unfold brel. repeat split; auto; intros x; rewrite cnt_nil; lia. Qed.
Lemma brel_trans : forall s s1 s2 l1 l2, brel s s1 l1 -> brel s1 s2 l2 -> brel s s2 (l1 ++ l2).
Proof.
  intros s s1 s2 l1 l2 (A1 & A2 & A3 & A4 & A5 & A6) (B1 & B2 & B3 & B4 & B5 & B6). unfold brel.
  repeat split; try congruence. intros x. rewrite cnt_app. specialize (A6 x). specialize (B6 x). lia.
Qed.

Lemma batch_allocn_spec : forall n s t, slots_ok s -> t < length (slots s) ->
  slots_ok (fst (batch_allocn s t n)) /\ brel s (fst (batch_allocn s t n)) (snd (batch_allocn s t n)) /\
  length (snd (batch_allocn s t n)) = n.
Proof.
  induction n as [|n IH]; intros s t OK Ht; cbn [batch_allocn fst snd].
  - split; auto. split; auto. apply brel_refl.
  - destruct (batch_alloc1_spec s t OK Ht) as [OK1 R1]. destruct (batch_alloc1 s t) as [s1 p]. cbn [fst snd] in *.
    assert (Ht1 : t < length (slots s1)) by (destruct R1 as (_ & _ & _ & _ & L & _); lia).
    destruct (IH s1 t OK1 Ht1) as (OK2 & R2 & L2). destruct (batch_allocn s1 t n) as [s2 l]. cbn [fst snd] in *.
    split; auto. split; [|cbn; lia]. apply (brel_trans s s1 s2 [p] l); auto.
Qed.

Record BInv (s : bst) : Prop := {
  b_ok : slots_ok s;
  b_len : length (bheld s) = length (slots s);
  b_cnt : forall x, cnt (concat (bheld s)) x + cnt (flat_map slot_rest (slots s)) x + cnt (breturned s) x =
                    if x <? bfresh s then 1 else 0;
  b_count : bcount s = Z.of_nat (length (concat (bheld s))) }.

Definition bop_thread (o : bop) : nat := match o with BAlloc t | BAllocN t _ | BFree t | BFreeN t _ => t end.

Lemma binv_give : forall s s1 t l dc, BInv s -> slots_ok s1 -> brel s s1 l -> t < length (slots s) ->
  dc = Z.of_nat (length l) -> BInv (b_give s1 t l dc).
Proof.
  intros s s1 t l dc I OK (R1 & R2 & R3 & R4 & R5 & R6) Ht Hdc.
  destruct (nth_error (bheld s) t) as [h|] eqn:Hh; [|apply nth_error_None in Hh; rewrite (b_len _ I) in Hh; lia].
  constructor; unfold b_give; cbn [batch slots bheld bfresh breturned bcount berr]; rewrite ?R2, ?R3.
  - exact OK.
  - rewrite length_set_nth. rewrite (b_len _ I). lia.
  - intros x. rewrite (nth_error_nth _ _ [] Hh). pose proof (cnt_concat_set_nth (bheld s) t h (h ++ l) x Hh) as H.
    rewrite cnt_app in H. pose proof (b_cnt _ I x). specialize (R6 x). lia.
  - rewrite (nth_error_nth _ _ [] Hh). pose proof (len_concat_set_nth (bheld s) t h (h ++ l) Hh) as H.
    rewrite app_length in H. rewrite R4, (b_count _ I), Hdc. lia.
Qed.

Lemma binv_return : forall s t k dc, BInv s -> t < length (slots s) -> k <= length (nth t (bheld s) []) ->
  dc = (- Z.of_nat k)%Z -> BInv (b_return s t k dc).
Proof.
  intros s t k dc I Ht Hk Hdc.
  destruct (nth_error (bheld s) t) as [h|] eqn:Hh; [|apply nth_error_None in Hh; rewrite (b_len _ I) in Hh; lia].
  rewrite (nth_error_nth _ _ [] Hh) in Hk.
  constructor; unfold b_return; cbn [batch slots bheld bfresh breturned bcount berr]; rewrite (nth_error_nth _ _ [] Hh).
  - exact (b_ok _ I).
  - rewrite length_set_nth. apply (b_len _ I).
  - intros x. pose proof (cnt_concat_set_nth (bheld s) t h (skipn k h) x Hh) as H. rewrite cnt_app.
    pose proof (cnt_firstn_skipn k h x). pose proof (b_cnt _ I x). lia.
  - pose proof (len_concat_set_nth (bheld s) t h (skipn k h) Hh) as H. rewrite skipn_length in H.
    rewrite (b_count _ I), Hdc. lia.
Qed.

Lemma binv_step : forall s o, BInv s -> bop_thread o < length (slots s) -> BInv (bstep s o).
Proof.
  intros s o I Ht. destruct o as [t|t n|t|t n]; cbn [bop_thread] in Ht; cbn [bstep].
  - destruct (batch_alloc1_spec s t (b_ok _ I) Ht) as [OK R]. destruct (batch_alloc1 s t) as [s1 p]. cbn [fst snd] in *.
    eapply binv_give; eauto.
  - destruct (batch_allocn_spec n s t (b_ok _ I) Ht) as (OK & R & L). destruct (batch_allocn s t n) as [s1 l]. cbn [fst snd] in *.
    eapply binv_give; eauto. unfold count_allocn, zn. lia.
  - destruct (nth t (bheld s) []) eqn:E; auto. apply binv_return; auto. rewrite E. cbn. lia.
  - apply binv_return; auto; try lia.
Qed.

Lemma binv_init : forall b n, 1 <= b -> BInv (binit b n).
Proof.
  intros b n Hb. unfold binit, batch_slot_size, zn. replace (Z.to_nat (Z.of_nat b)) with b by lia.
  constructor; cbn [batch slots bheld bfresh breturned bcount berr].
  - split; auto. split; auto. intros t sl H. apply nth_error_In in H. apply repeat_spec in H. subst. cbn. rewrite repeat_length. lia.
  - rewrite !repeat_length. reflexivity.
  - intros x. replace (concat (repeat [] n)) with (@nil nat) by (induction n; cbn; auto).
    replace (flat_map slot_rest (repeat {| bbuf := repeat 0 b; bnext := b |} n)) with (@nil nat).
    + reflexivity.
    + induction n; cbn; auto. unfold slot_rest at 1. cbn [bbuf bnext]. rewrite skipn_all2 by (rewrite repeat_length; lia). cbn. auto.
  - replace (concat (repeat [] n)) with (@nil nat) by (induction n; cbn; auto). reflexivity.
Qed.

Definition bops_ok (n : nat) (ops : list bop) : Prop := Forall (fun o => bop_thread o < n) ops.

Lemma bstep_nslots : forall s o, BInv s -> bop_thread o < length (slots s) -> length (slots (bstep s o)) = length (slots s).
Proof.
  intros s o I Ht. destruct o as [t|t n|t|t n]; cbn [bop_thread] in Ht; cbn [bstep].
  - destruct (batch_alloc1_spec s t (b_ok _ I) Ht) as [_ (_ & _ & _ & _ & L & _)]. destruct (batch_alloc1 s t). exact L.
  - destruct (batch_allocn_spec n s t (b_ok _ I) Ht) as (_ & (_ & _ & _ & _ & L & _) & _). destruct (batch_allocn s t n). exact L.
  - destruct (nth t (bheld s) []); reflexivity.
  - reflexivity.
Qed.

Theorem pb_inv : forall ops b n, 1 <= b -> bops_ok n ops -> BInv (brun (binit b n) ops) /\ length (slots (brun (binit b n) ops)) = n.
Proof.
  intros ops b n Hb. unfold brun.
  assert (G : forall s, BInv s -> length (slots s) = n -> bops_ok n ops ->
              BInv (fold_left bstep ops s) /\ length (slots (fold_left bstep ops s)) = n).
  { induction ops as [|o ops IH]; intros s I L OK; cbn [fold_left]; auto.
    inversion OK; subst. apply IH; auto.
    - apply binv_step; auto.
    - rewrite bstep_nslots; auto. }
  intros OK. apply G; auto.
  - apply binv_init; auto.
  - unfold binit. cbn. apply repeat_length.
Qed.

Definition bpages (s : bst) : list nat := concat (bheld s) ++ flat_map slot_rest (slots s) ++ breturned s.

Theorem pb_conservation : forall s, BInv s -> Permutation (bpages s) (seq 0 (bfresh s)) /\ NoDup (bpages s) /\ berr s = false.
Proof.
  intros s I. assert (C : forall x, cnt (bpages s) x = if x <? bfresh s then 1 else 0).
  { intros x. unfold bpages. rewrite !cnt_app. pose proof (b_cnt _ I x). lia. }
  split; [|split].
  - apply perm_of_cnt. intros x. rewrite C, cnt_seq0. reflexivity.
  - apply nodup_of_cnt. intros x. rewrite C. destruct (x <? bfresh s); lia.
  - destruct (b_ok _ I) as (_ & E & _). exact E.
Qed.

Theorem pb_counting_exact : forall s, BInv s -> allocated_page_num s = Z.of_nat (length (concat (bheld s))).
Proof. intros s I. unfold allocated_page_num, count_value. rewrite (b_count _ I). lia. Qed.

Lemma bdtor_slot_spec : forall b ret sl, length (bbuf sl) = b -> bnext sl <= b -> (Z.of_nat b < 2 ^ 64)%Z ->
  bdtor_slot ret sl = ret ++ slot_rest sl.
Proof.
  intros b ret sl L N W. unfold bdtor_slot, batch_dtor_has, batch_dtor_num, slot_rest, zn. rewrite L.
  destruct (Z.ltb_spec (Z.of_nat (bnext sl)) (Z.of_nat b)) as [X|X].
  - rewrite Z.mod_small by lia. rewrite firstn_all2; auto. rewrite skipn_length. lia.
  - rewrite skipn_all2 by lia. rewrite app_nil_r. reflexivity.
Qed.

Theorem pb_dtor_returns_buffers : forall s, BInv s -> (Z.of_nat (batch s) < 2 ^ 64)%Z ->
  flat_map slot_rest (slots (bdtor s)) = [] /\ breturned (bdtor s) = breturned s ++ flat_map slot_rest (slots s) /\
  bheld (bdtor s) = bheld s.
Proof.
  intros s I W. destruct (b_ok _ I) as (_ & _ & SL). unfold bdtor. cbn [slots breturned bheld]. split; [|split; auto].
  - clear SL. induction (slots s) as [|sl l IH]; cbn; auto. rewrite IH. unfold slot_rest. cbn [bbuf bnext]. rewrite skipn_all. reflexivity.
  - assert (G : forall l ret, (forall sl, In sl l -> length (bbuf sl) = batch s /\ bnext sl <= batch s) ->
                fold_left bdtor_slot l ret = ret ++ flat_map slot_rest l).
    { induction l as [|sl l IH]; intros ret H; cbn [fold_left flat_map].
      - rewrite app_nil_r. reflexivity.
      - destruct (H sl (or_introl eq_refl)) as [L N]. rewrite (bdtor_slot_spec (batch s)); auto.
        rewrite IH; [rewrite app_assoc; reflexivity|]. intros sl' Hin. apply H. right. auto. }
    apply G. intros sl Hin. apply In_nth_error in Hin. destruct Hin as [t Ht]. apply (SL _ _ Ht).
Qed.

(* ------------------------------------------------------------------ auto-create pool: overflow is destroyed *)
Lemma pool_drops_spec : forall pcap npush npop, pool_drops pcap npush npop = true <-> pcap <= npush - npop.
Proof.
  intros. unfold pool_drops, pool_drop, queue_size, zn. destruct (Z.gtb_spec (Z.of_nat npush) (Z.of_nat npop)); rewrite Z.leb_le; lia.
Qed.

Theorem pa_overflow_destroyed : forall s t th a, nth_error (threads s) t = Some th -> tpc th = PSize2 a ->
  pcap s <= npush s - a ->
  exists s', step s t = Some s' /\ returned s' = returned s ++ buf th /\ tape s' = tape s /\
             npush s' = npush s /\ npop s' = npop s.
Proof.
  intros s t th a H P L. unfold step. rewrite H. unfold step_thread. rewrite P.
  apply pool_drops_spec in L. rewrite L. eexists. split; [reflexivity|]. cbn. auto.
Qed.

(* ------------------------------------------------------------------ non-vacuity witnesses *)
Definition ex_progs : list (list op) := [[OAlloc 3; OFree 3; OAlloc 1]; [OAlloc 1; OFree 1]].
Definition ex_sched : list nat := concat (repeat [0; 1; 1; 0] 40).
Lemma ex_reach : exists s, Reach 2 0 ex_progs s /\ quiescent s = true /\ all_done s = true /\
  tape_pages (tape s) <> [] /\ returned s <> [] /\ all_held s <> [].
Proof.
  exists (run st step (init 2 0 ex_progs) ex_sched). split; [exists ex_sched; reflexivity|].
  vm_compute. repeat split; discriminate.
Qed.
Lemma ex_blocked : exists s, Reach 2 1 [[OSPop]; [ONew; OSPush]] s /\
  (forall t th, nth_error (threads s) t = Some th ->
     tpc th = Idle \/ exists i, tpc th = SWait false i /\ pop_ready (tape s) i = false) /\
  (exists t th i, nth_error (threads s) t = Some th /\ tpc th = SWait false i).
Proof.
  exists (run st step (init 2 1 [[OSPop]; [ONew; OSPush]]) [0]). split; [exists [0]; reflexivity|]. split.
  - intros [|[|t]] th H; vm_compute in H; inversion H; subst; vm_compute; eauto. destruct t; discriminate.
  - exists 0. eexists. exists 0. vm_compute. split; reflexivity.
Qed.
Lemma ex_batch : BInv (brun (binit 2 2) [BAlloc 0; BAllocN 1 3; BFree 0; BAlloc 0]) /\
  boutcome (brun (binit 2 2) [BAlloc 0; BAllocN 1 3; BFree 0; BAlloc 0]) = ([[1]; [2; 3; 4]], [[]; [5]], ([0], 6, 4%Z)).
Proof.
  split; [|vm_compute; reflexivity]. apply pb_inv; [lia|]. repeat constructor.
Qed.

Lemma batch_alloc1_batch : forall s t, batch (fst (batch_alloc1 s t)) = batch s.
Proof. intros. unfold batch_alloc1. destruct (batch_has _ _); reflexivity. Qed.
Lemma batch_allocn_batch : forall n s t, batch (fst (batch_allocn s t n)) = batch s.
Proof.
  induction n; intros; cbn [batch_allocn]; auto. pose proof (batch_alloc1_batch s t). destruct (batch_alloc1 s t) as [s1 p].
  specialize (IHn s1 t). destruct (batch_allocn s1 t n). cbn [fst] in *. congruence.
Qed.
Lemma bstep_batch : forall s o, batch (bstep s o) = batch s.
Proof.
  intros s [t|t n|t|t n]; cbn [bstep].
  - pose proof (batch_alloc1_batch s t). destruct (batch_alloc1 s t). exact H.
  - pose proof (batch_allocn_batch n s t). destruct (batch_allocn s t n). exact H.
  - destruct (nth t (bheld s) []); reflexivity.
  - reflexivity.
Qed.
Lemma brun_batch : forall ops s, batch (brun s ops) = batch s.
Proof. unfold brun. induction ops; intros; cbn [fold_left]; auto. rewrite IHops. apply bstep_batch. Qed.

Theorem pb_dtor_run : forall ops b n, 1 <= b -> (Z.of_nat b < 2 ^ 64)%Z -> bops_ok n ops ->
  let s := brun (binit b n) ops in
  flat_map slot_rest (slots (bdtor s)) = [] /\ breturned (bdtor s) = breturned s ++ flat_map slot_rest (slots s) /\
  bheld (bdtor s) = bheld s.
Proof.
  intros ops b n Hb W Hok s. apply pb_dtor_returns_buffers.
  - apply (proj1 (pb_inv ops b n Hb Hok)).
  - unfold s. rewrite brun_batch. exact W.
Qed.

(* ------------------------------------------------------------------ cached <= capacity in EVERY reachable state *)
Fixpoint full_idx (tp : list cell) (base : nat) : list nat :=
  match tp with
  | [] => []
  | c :: r => (if is_full c then [base] else []) ++ full_idx r (S base)
  end.
Lemma full_idx_len : forall tp base, length (tape_pages tp) = length (full_idx tp base).
Proof.
  unfold tape_pages. induction tp as [|c tp IH]; intros base; cbn; auto. rewrite !app_length, (IH (S base)).
  destruct c; reflexivity.
Qed.
Lemma full_idx_in : forall tp base j, In j (full_idx tp base) -> base <= j /\ is_full (tget tp (j - base)) = true.
Proof.
  induction tp as [|c tp IH]; intros base j H; cbn in H; [contradiction|]. apply in_app_or in H. destruct H as [H|H].
  - destruct c; cbn in H; try contradiction. destruct H as [<-|[]]. rewrite Nat.sub_diag. split; auto.
  - destruct (IH _ _ H) as [A B]. split; [lia|]. replace (j - base) with (S (j - S base)) by lia. exact B.
Qed.
Lemma full_idx_nodup : forall tp base, NoDup (full_idx tp base).
Proof.
  induction tp as [|c tp IH]; intros base; cbn; [constructor|]. destruct (is_full c); cbn; auto.
  constructor; auto. intro H. apply full_idx_in in H. lia.
Qed.
Lemma nodup_map_inj : forall (f : nat -> nat) l, NoDup l -> (forall x y, In x l -> In y l -> f x = f y -> x = y) -> NoDup (map f l).
Proof.
  induction l as [|a l IH]; intros N Inj; cbn; constructor.
  - inversion N; subst. intro H. apply in_map_iff in H. destruct H as (y & E & Hy).
    assert (y = a) by (apply Inj; cbn; auto). subst. contradiction.
  - inversion N; subst. apply IH; auto. intros x y Hx Hy. apply Inj; cbn; auto.
Qed.

Lemma free_chain : forall s, Inv s -> forall m i, tget (tape s) i <> Consumed -> tget (tape s) (i + S m * qcap s) = Free.
Proof.
  intros s I. assert (ST : forall i, tget (tape s) i <> Consumed -> tget (tape s) (i + qcap s) = Free).
  { intros i H. destruct (tget (tape s) (i + qcap s)) eqn:E; auto; exfalso; apply H; apply (i_k1 _ I); congruence. }
  induction m; intros i H.
  - replace (i + 1 * qcap s) with (i + qcap s) by lia. auto.
  - replace (i + S (S m) * qcap s) with (i + S m * qcap s + qcap s) by lia. apply ST. rewrite IHm; auto. discriminate.
Qed.

Theorem pa_cache_bounded : forall s, Inv s -> length (tape_pages (tape s)) <= qcap s.
Proof.
  intros s I. destruct (pow2_pos _ (i_q _ I)) as [Q _]. rewrite (full_idx_len _ 0).
  set (l := full_idx (tape s) 0).
  assert (F : forall j, In j l -> is_full (tget (tape s) j) = true).
  { intros j H. apply full_idx_in in H. rewrite Nat.sub_0_r in H. tauto. }
  assert (INJ : forall x y, In x l -> In y l -> x mod qcap s = y mod qcap s -> x = y).
  { assert (W : forall x y, In x l -> In y l -> x mod qcap s = y mod qcap s -> x < y -> False).
    { intros x y Hx Hy E L.
      pose proof (Nat.div_mod x (qcap s) ltac:(lia)) as Dx. pose proof (Nat.div_mod y (qcap s) ltac:(lia)) as Dy.
      assert (D : x / qcap s < y / qcap s).
      { destruct (Nat.lt_ge_cases (x / qcap s) (y / qcap s)); auto. exfalso.
        assert (qcap s * (y / qcap s) <= qcap s * (x / qcap s)) by (apply Nat.mul_le_mono_l; lia). lia. }
      assert (Y : y = x + S (y / qcap s - x / qcap s - 1) * qcap s).
      { replace (S (y / qcap s - x / qcap s - 1)) with (y / qcap s - x / qcap s) by lia.
        rewrite Nat.mul_sub_distr_r. rewrite (Nat.mul_comm (y / qcap s)), (Nat.mul_comm (x / qcap s)). rewrite E in Dx.
        assert (qcap s * (x / qcap s) <= qcap s * (y / qcap s)) by (apply Nat.mul_le_mono_l; lia). lia. }
      pose proof (F x Hx) as Fx. pose proof (F y Hy) as Fy.
      assert (NC : tget (tape s) x <> Consumed) by (destruct (tget (tape s) x); try discriminate).
      pose proof (free_chain s I (y / qcap s - x / qcap s - 1) x NC) as FR. rewrite <- Y in FR. rewrite FR in Fy. discriminate. }
    intros x y Hx Hy E. destruct (Nat.lt_trichotomy x y) as [L|[L|L]]; auto; exfalso; [eapply (W x y) | eapply (W y x)]; eauto. }
  pose proof (nodup_map_inj (fun j => j mod qcap s) l (full_idx_nodup _ _) INJ) as ND.
  assert (INC : incl (map (fun j => j mod qcap s) l) (seq 0 (qcap s))).
  { intros z Hz. apply in_map_iff in Hz. destruct Hz as (j & <- & _). apply in_seq. split; [lia|]. cbn. apply Nat.mod_upper_bound. lia. }
  pose proof (NoDup_incl_length ND INC) as L. rewrite map_length, seq_length in L. exact L.
Qed.

(* ------------------------------------------------------------------ strict pool: no deadlock while objects are in the pool *)
Lemma no_inflight : forall s, (forall t th, nth_error (threads s) t = Some th -> push_phase (tpc th) = false /\ buf th = []) ->
  all_inflight s = [].
Proof.
  intros s. unfold all_inflight. induction (threads s) as [|th l IH]; intros H; cbn; auto.
  destruct (H 0 th eq_refl) as [A B]. rewrite (inflight_plain th A), B. cbn. apply IH. intros t th' E. apply (H (S t) th' E).
Qed.

(* a reachable state of a strict pool in which no thread can move although some thread has not finished (and no push
   is stuck on a full ring - excluded by the usage rule capacity >= injected objects) has every injected object
   outstanding: as long as fewer objects are held than were injected, somebody can move *)
Theorem pa_strict_no_deadlock : forall qc pc progs s, pow2 qc -> strict_progs progs = true -> Reach qc pc progs s ->
  (forall t, step s t = None) ->
  (forall t th i, nth_error (threads s) t = Some th -> tpc th = SWait true i -> push_ready (qcap s) (tape s) i = true) ->
  (exists t th, nth_error (threads s) t = Some th /\ thread_done th = false) ->
  length (all_held s) = news s /\ tape_pages (tape s) = [].
Proof.
  intros qc pc progs s Hq SP R Stuck NoFull (t0 & th0 & H0 & U0).
  pose proof (pa_inv _ _ _ _ Hq R) as I. pose proof (pa_sinv _ _ _ _ SP R) as S.
  assert (CL : forall t th, nth_error (threads s) t = Some th ->
               (tpc th = Idle /\ cur_op th = None) \/ exists i, tpc th = SWait false i /\ pop_ready (tape s) i = false).
  { intros t th H. specialize (Stuck t). unfold step in Stuck. rewrite H in Stuck. unfold step_thread in Stuck.
    destruct (s_prog _ S _ _ H) as [_ Pc]. pose proof (i_kn _ I _ _ H) as K. unfold knows in K.
    destruct (tpc th) eqn:P; try discriminate Pc.
    - left. split; auto. destruct (cur_op th) as [[]|]; try discriminate; auto; destruct (held th); discriminate.
    - destruct r.
      + rewrite (NoFull _ _ _ H P) in Stuck. destruct K as [p B]. rewrite B in Stuck. discriminate.
      + right. exists i. split; auto. destruct (pop_ready (tape s) i); auto. destruct (take s i). discriminate.
    - destruct (pop_ready (tape s) k); [|destruct (npop s =? k)]; discriminate.
    - destruct (npop s =? k); discriminate.
    - destruct (take s k). discriminate. }
  assert (E : tape_pages (tape s) = []).
  { apply (pa_blocked_pop_means_empty s I).
    - intros t th H. destruct (CL t th H) as [[A _]|B]; auto.
    - destruct (CL t0 th0 H0) as [[A B]|(i & A & _)]; [|eauto]. unfold thread_done in U0. rewrite A, B in U0. discriminate. }
  split; auto.
  assert (NI : all_inflight s = []).
  { apply no_inflight. intros t th H. pose proof (i_kn _ I _ _ H) as K. unfold knows in K.
    destruct (CL t th H) as [[A _]|(i & A & _)]; rewrite A in *; auto. }
  pose proof (Permutation_length (pa_conservation s I)) as L. unfold pages_of in L.
  rewrite E, NI, (s_ret _ S), !app_length, seq_length in L. cbn in L. rewrite <- (s_news _ S). lia.
Qed.

Lemma ex_stuck : exists s, Reach 2 1 [[OSPop]; [ONew; OSPush; OSPop; OSPop]] s /\ (forall t, step s t = None) /\
  (exists t th, nth_error (threads s) t = Some th /\ thread_done th = false) /\ all_held s <> [].
Proof.
  exists (run st step (init 2 1 [[OSPop]; [ONew; OSPush; OSPop; OSPop]]) [0; 1; 1; 1; 1; 1; 0; 1; 1]).
  split; [exists [0; 1; 1; 1; 1; 1; 0; 1; 1]; reflexivity|]. split; [|split].
  - intros [|[|t]]; [vm_compute; reflexivity | vm_compute; reflexivity | ].
    unfold step. match goal with |- match ?e with _ => _ end = _ => assert (E : e = None) by (apply nth_error_None; vm_compute; lia); rewrite E end.
    reflexivity.
  - exists 1. eexists. vm_compute. split; reflexivity.
  - vm_compute. discriminate.
Qed.

(* =========================================================================================== PART C *)
(* what the regenerated bodies of push(unique_ptr<T, Deleter>&&) and Deleter::operator() do *)
Lemma push_handle_releases_into_this_pool : forall s j h, push_handle s j h = push_raw s j (hobj h).
Proof. intros. unfold push_handle. reflexivity. Qed.
Lemma deleter_returns_to_bound_pool : forall s o b, deleter_route s {| hobj := o; hbind := Some b |} = push_raw s b o.
Proof. intros. unfold deleter_route. reflexivity. Qed.

(* push(std::move(handle)) into pool j does exactly what push(unique_ptr<T>{handle.release()}) into pool j does,
   whatever pool the handle's Deleter is bound to *)
Theorem pc_push_handle_routes_here : forall s j, cstep s (CPushH j) = cstep s (CPushU j).
Proof. intros. cbn [cstep]. destruct (hands s) as [|h hs]; auto; rewrite ?push_handle_releases_into_this_pool; reflexivity. Qed.

Definition cop_pool (o : cop) : nat := match o with CPop j | CTry j | CPushH j | CPushU j | CMovePool j => j | _ => 0 end.
Definition cq_all (s : cst) : list nat := flat_map cq (cpools s).
Definition chome_of (s : cst) (o : nat) : option nat :=
  match find (fun e => Nat.eqb (fst e) o) (chome s) with Some e => Some (snd e) | None => None end.

Lemma cnt_cq_set_nth : forall (l : list cpool) j p p' x, nth_error l j = Some p ->
  cnt (flat_map cq (set_nth j p' l)) x + cnt (cq p) x = cnt (flat_map cq l) x + cnt (cq p') x.
Proof.
  induction l; intros [|j] p p' x H; cbn in *; try discriminate.
  - inversion H; subst. rewrite !cnt_app. lia.
  - rewrite !cnt_app. specialize (IHl j p p' x H). lia.
Qed.
Lemma cnt_map_app1 : forall (l : list handle) h x, cnt (map hobj (l ++ [h])) x = cnt (map hobj l) x + cnt [hobj h] x.
Proof. intros. rewrite map_app, cnt_app. reflexivity. Qed.

Record CInv (s : cst) : Prop := {
  c_cnt : forall x, cnt (cq_all s) x + cnt (map hobj (hands s)) x + cnt (cdestroyed s) x + cnt (cleaked s) x =
                    if x <? cfresh s then 1 else 0;
  c_bind : forall h b, In h (hands s) -> hbind h = Some b -> b < length (cpools s) /\ chome_of s (hobj h) = Some b;
  c_home : forall j p o, nth_error (cpools s) j = Some p -> In o (cq p) -> chome_of s o = Some j }.

Lemma chome_cons_same : forall s o j l, chome s = (o, j) :: l -> chome_of s o = Some j.
Proof. intros s o j l H. unfold chome_of. rewrite H. cbn. rewrite Nat.eqb_refl. reflexivity. Qed.
Lemma chome_cons_other : forall s s' o o' j, chome s' = (o', j) :: chome s -> o <> o' -> chome_of s' o = chome_of s o.
Proof. intros s s' o o' j H N. unfold chome_of. rewrite H. cbn. destruct (Nat.eqb_spec o' o); [congruence | reflexivity]. Qed.

(* an object that is somewhere (pooled or held) occurs exactly once overall *)
Lemma cinv_unique : forall s x, CInv s -> cnt (cq_all s) x + cnt (map hobj (hands s)) x <= 1.
Proof. intros s x I. pose proof (c_cnt _ I x). destruct (x <? cfresh s); lia. Qed.
Lemma cnt_in : forall l x, In x l -> 1 <= cnt l x.
Proof. intros. unfold cnt. apply (count_occ_In Nat.eq_dec) in H. lia. Qed.
Lemma in_cq_all : forall s j p o, nth_error (cpools s) j = Some p -> In o (cq p) -> In o (cq_all s).
Proof. intros. unfold cq_all. apply in_flat_map. exists p. split; auto. eapply nth_error_In; eauto. Qed.

Lemma cinv_push_raw : forall s j o hs, CInv s -> j < length (cpools s) ->
  forall h r, hands s = h :: hs -> hobj h = o -> CInv (with_hands (fst (push_raw s j o)) hs r).
Proof.
  intros s j o hs I Hj h r Hh Ho.
  destruct (nth_error (cpools s) j) as [p|] eqn:Hp; [|apply nth_error_None in Hp; lia].
  assert (U : forall x, cnt (cq_all s) x + cnt (map hobj hs) x + cnt [o] x <= 1).
  { intros x. pose proof (cinv_unique s x I) as H. rewrite Hh in H. cbn [map] in H. rewrite (cnt_cons (hobj h)), Ho in H. lia. }
  assert (NOQ : forall i q, nth_error (cpools s) i = Some q -> ~ In o (cq q)).
  { intros i q Hq Hin. pose proof (cnt_in _ _ (in_cq_all _ _ _ _ Hq Hin)). specialize (U o). rewrite cnt_one, Nat.eqb_refl in U. lia. }
  assert (NOH : forall h', In h' hs -> hobj h' <> o).
  { intros h' Hin E. assert (1 <= cnt (map hobj hs) o) by (apply cnt_in; rewrite <- E; apply in_map; auto).
    specialize (U o). rewrite cnt_one, Nat.eqb_refl in U. lia. }
  unfold push_raw. rewrite (nth_error_nth _ _ cpool0 Hp). cbn [fst snd].
  set (drop := negb (cstrict p) && pool_drop (zn (ccap p)) (zn (length (cq p)))).
  constructor; unfold with_hands, cq_all, chome_of; cbn [cpools hands cfresh cdestroyed cleaked chome].
  - intros x. pose proof (c_cnt _ I x) as C. unfold cq_all in C. rewrite Hh in C. cbn [map] in C. rewrite (cnt_cons (hobj h)), Ho in C.
    pose proof (cnt_cq_set_nth (cpools s) j p {| cstrict := cstrict p; ccap := ccap p; cq := if drop then cq p else cq p ++ [o]; crec := crec p ++ [o] |} x Hp) as Q.
    cbn [cq] in Q. destruct drop; rewrite ?cnt_app in *; lia.
  - intros h' b Hin Hb. rewrite length_set_nth. assert (In h' (hands s)) by (rewrite Hh; right; auto).
    destruct (c_bind _ I h' b H Hb) as [A B]. split; auto. cbn. destruct (Nat.eqb_spec o (hobj h')) as [E|E]; [exfalso; eapply NOH; eauto | exact B].
  - intros i q x Hq Hin. cbn. destruct (Nat.eq_dec i j) as [->|Hne].
    + erewrite nth_set_nth_eq in Hq by eauto. inversion Hq; subst q. cbn [cq] in Hin.
      destruct (Nat.eqb_spec o x) as [E|E]; [reflexivity|].
      assert (In x (cq p)) by (destruct drop; auto; apply in_app_or in Hin; destruct Hin as [?|[?|[]]]; auto; congruence).
      apply (c_home _ I j p x Hp H).
    + rewrite nth_set_nth_ne in Hq by auto. destruct (Nat.eqb_spec o x) as [E|E].
      * subst. exfalso. eapply NOQ; eauto.
      * apply (c_home _ I i q x Hq Hin).
Qed.

Lemma cinv_hands : forall s hs r, CInv s -> (forall x, cnt (map hobj hs) x = cnt (map hobj (hands s)) x) ->
  (forall h, In h hs -> In h (hands s)) -> CInv (with_hands s hs r).
Proof.
  intros s hs r I C H. constructor; unfold with_hands, cq_all, chome_of; cbn [cpools hands cfresh cdestroyed cleaked chome].
  - intros x. rewrite C. apply (c_cnt _ I).
  - intros h b Hin Hb. apply (c_bind _ I h b (H _ Hin) Hb).
  - apply (c_home _ I).
Qed.

Lemma cinv_lt : forall s x, CInv s -> 1 <= cnt (cq_all s) x + cnt (map hobj (hands s)) x -> x < cfresh s.
Proof. intros s x I H. pose proof (c_cnt _ I x) as C. destruct (Nat.ltb_spec x (cfresh s)); auto. lia. Qed.

Lemma cinv_take : forall s j p x rest, CInv s -> nth_error (cpools s) j = Some p -> cq p = x :: rest -> CInv (take_from s j x rest).
Proof.
  intros s j p x rest I Hp Hq. unfold take_from. rewrite (nth_error_nth _ _ cpool0 Hp).
  assert (Hj : j < length (cpools s)) by (apply nth_error_Some; congruence).
  constructor; unfold cq_all, chome_of; cbn [cpools hands cfresh cdestroyed cleaked chome].
  - intros y. pose proof (c_cnt _ I y) as C. unfold cq_all in C.
    pose proof (cnt_cq_set_nth (cpools s) j p {| cstrict := cstrict p; ccap := ccap p; cq := rest; crec := crec p |} y Hp) as Q.
    cbn [cq] in Q. rewrite Hq, (cnt_cons x rest) in Q. rewrite cnt_map_app1. cbn [hobj]. lia.
  - intros h b Hin Hb. rewrite length_set_nth. apply in_app_or in Hin. destruct Hin as [Hin|[<-|[]]].
    + apply (c_bind _ I h b Hin Hb).
    + cbn in Hb. inversion Hb; subst b. split; auto. cbn [hobj]. apply (c_home _ I j p x Hp). rewrite Hq. left. auto.
  - intros i q y Hi Hin. destruct (Nat.eq_dec i j) as [->|Hne].
    + erewrite nth_set_nth_eq in Hi by eauto. inversion Hi; subst q. cbn [cq] in Hin. apply (c_home _ I j p y Hp). rewrite Hq. right. auto.
    + rewrite nth_set_nth_ne in Hi by auto. apply (c_home _ I i q y Hi Hin).
Qed.

Lemma cinv_step : forall s o, CInv s -> cop_pool o < length (cpools s) -> CInv (cstep s o).
Proof.
  intros s o I Hj. destruct o as [j|j| |j|j| | |j]; cbn [cop_pool] in Hj; cbn [cstep]; [| | | | | | |apply cinv_hands; auto].
  - (* pop *) destruct (nth_error (cpools s) j) as [p|] eqn:Hp; [|apply nth_error_None in Hp; lia].
    rewrite (nth_error_nth _ _ cpool0 Hp). destruct (cq p) as [|x rest] eqn:Hq.
    + destruct (cstrict p).
      * apply cinv_hands; auto.
      * (* the creator makes a fresh object, handed out bound to pool j *)
        assert (FR : forall x, 1 <= cnt (cq_all s) x + cnt (map hobj (hands s)) x -> x <> cfresh s).
        { intros x H E. pose proof (cinv_lt s x I H). lia. }
        constructor; unfold cq_all, chome_of; cbn [cpools hands cfresh cdestroyed cleaked chome].
        -- intros y. pose proof (c_cnt _ I y) as C. unfold cq_all in C. rewrite cnt_map_app1. cbn [hobj]. rewrite cnt_one.
           destruct (Nat.eqb_spec (cfresh s) y); destruct (Nat.ltb_spec y (cfresh s)); destruct (Nat.ltb_spec y (S (cfresh s))); lia.
        -- intros h b Hin Hb. apply in_app_or in Hin. destruct Hin as [Hin|[<-|[]]].
           ++ destruct (c_bind _ I h b Hin Hb) as [A B]. split; auto. cbn.
              destruct (Nat.eqb_spec (cfresh s) (hobj h)) as [E|E]; [|exact B]. exfalso. apply (FR (hobj h)); auto.
              assert (1 <= cnt (map hobj (hands s)) (hobj h)) by (apply cnt_in; apply in_map; auto). lia.
           ++ cbn in Hb. inversion Hb; subst b. split; auto. cbn. rewrite Nat.eqb_refl. reflexivity.
        -- intros i q y Hi Hin. cbn. destruct (Nat.eqb_spec (cfresh s) y) as [E|E]; [|apply (c_home _ I i q y Hi Hin)].
           exfalso. apply (FR y); auto. pose proof (cnt_in _ _ (in_cq_all _ _ _ _ Hi Hin)). lia.
    + eapply cinv_take; eauto.
  - (* try_pop *) destruct (nth_error (cpools s) j) as [p|] eqn:Hp; [|apply nth_error_None in Hp; lia].
    rewrite (nth_error_nth _ _ cpool0 Hp). destruct (cq p) as [|x rest] eqn:Hq; [apply cinv_hands; auto | eapply cinv_take; eauto].
  - (* new handle, bound to no pool *)
    constructor; unfold cq_all, chome_of; cbn [cpools hands cfresh cdestroyed cleaked chome].
    + intros y. pose proof (c_cnt _ I y) as C. unfold cq_all in C. rewrite cnt_map_app1. cbn [hobj]. rewrite cnt_one.
      destruct (Nat.eqb_spec (cfresh s) y); destruct (Nat.ltb_spec y (cfresh s)); destruct (Nat.ltb_spec y (S (cfresh s))); lia.
    + intros h b Hin Hb. apply in_app_or in Hin. destruct Hin as [Hin|[<-|[]]]; [apply (c_bind _ I h b Hin Hb) | discriminate Hb].
    + apply (c_home _ I).
  - (* push, handle overload *) destruct (hands s) as [|h hs] eqn:Hh.
    + apply cinv_hands; auto; rewrite Hh; auto.
    + rewrite push_handle_releases_into_this_pool. destruct (push_raw s j (hobj h)) as [s1 d] eqn:E.
      change s1 with (fst (s1, d)). rewrite <- E. eapply cinv_push_raw; eauto.
  - (* push, unique_ptr<T> overload *) destruct (hands s) as [|h hs] eqn:Hh.
    + apply cinv_hands; auto; rewrite Hh; auto.
    + destruct (push_raw s j (hobj h)) as [s1 d] eqn:E. change s1 with (fst (s1, d)). rewrite <- E. eapply cinv_push_raw; eauto.
  - (* the handle dies *) destruct (hands s) as [|h hs] eqn:Hh.
    + apply cinv_hands; auto; rewrite Hh; auto.
    + destruct h as [o [b|]].
      * rewrite deleter_returns_to_bound_pool. destruct (c_bind _ I {| hobj := o; hbind := Some b |} b) as [Hb _]; [rewrite Hh; left; auto | reflexivity |].
        destruct (push_raw s b o) as [s1 d] eqn:E. change s1 with (fst (s1, d)). rewrite <- E. eapply cinv_push_raw; eauto.
      * unfold deleter_route. cbn [hbind hobj].
        constructor; unfold with_hands, cq_all, chome_of; cbn [cpools hands cfresh cdestroyed cleaked chome].
        -- intros y. pose proof (c_cnt _ I y) as C. unfold cq_all in C. rewrite Hh in C. cbn [map hobj] in C. rewrite (cnt_cons o) in C. rewrite cnt_app. lia.
        -- intros h b Hin Hb. apply (c_bind _ I h b); auto. rewrite Hh. right. auto.
        -- apply (c_home _ I).
  - (* move *) destruct (hands s) as [|h hs] eqn:Hh.
    + apply cinv_hands; auto; rewrite Hh; auto.
    + apply cinv_hands; auto; rewrite Hh.
      * intros x. rewrite cnt_map_app1. cbn [map]. rewrite (cnt_cons (hobj h) (map hobj hs)). lia.
      * intros h' Hin. apply in_app_or in Hin. destruct Hin as [?|[<-|[]]]; [right|left]; auto.
Qed.

Definition cops_ok (n : nat) (ops : list cop) : Prop := Forall (fun o => cop_pool o < n) ops.
Lemma cstep_npools : forall s o, length (cpools (cstep s o)) = length (cpools s).
Proof.
  intros s o. destruct o as [j|j| |j|j| | |j]; cbn [cstep]; [| | | | | | |reflexivity].
  - destruct (cq (nth j (cpools s) cpool0)); [destruct (cstrict _)|]; cbn; rewrite ?length_set_nth; reflexivity.
  - destruct (cq (nth j (cpools s) cpool0)); cbn; rewrite ?length_set_nth; reflexivity.
  - reflexivity.
  - destruct (hands s); [reflexivity|]. rewrite push_handle_releases_into_this_pool. cbn. apply length_set_nth.
  - destruct (hands s); [reflexivity|]. cbn. apply length_set_nth.
  - destruct (hands s) as [|[o [b|]] hs]; [reflexivity| |reflexivity]. rewrite deleter_returns_to_bound_pool. cbn. apply length_set_nth.
  - destruct (hands s); reflexivity.
Qed.
Lemma cinv_init : forall modes cap, CInv (cinit modes cap).
Proof.
  intros. constructor; unfold cq_all, chome_of; cbn [cinit cpools hands cfresh cdestroyed cleaked chome].
  - intros x. replace (flat_map cq (map (fun m => {| cstrict := m; ccap := cap; cq := []; crec := [] |}) modes)) with (@nil nat)
      by (induction modes; cbn; auto). reflexivity.
  - intros h b [].
  - intros j p o H Hin. apply nth_error_In in H. apply in_map_iff in H. destruct H as (m & <- & _). destruct Hin.
Qed.
Theorem pc_inv : forall ops modes cap, cops_ok (length modes) ops -> CInv (crun (cinit modes cap) ops).
Proof.
  intros ops modes cap. unfold crun.
  assert (G : forall s, CInv s -> cops_ok (length (cpools s)) ops -> CInv (fold_left cstep ops s)).
  { induction ops as [|o ops IH]; intros s I OK; cbn [fold_left]; auto. inversion OK; subst.
    apply IH; [apply cinv_step; auto | rewrite cstep_npools; auto]. }
  intros OK. apply G; [apply cinv_init | cbn; rewrite map_length; exact OK].
Qed.

(* nothing is lost, duplicated or destroyed twice across all pools and handles *)
Theorem pc_conservation : forall s, CInv s ->
  Permutation (cq_all s ++ map hobj (hands s) ++ cdestroyed s ++ cleaked s) (seq 0 (cfresh s)).
Proof. intros s I. apply perm_of_cnt. intros x. rewrite !cnt_app, cnt_seq0. pose proof (c_cnt _ I x). lia. Qed.

(* the only way to lose an object is to let a handle that is bound to no pool die *)
Theorem pc_leak_only_by_unbound_die : forall s o, cleaked (cstep s o) = cleaked s \/
  (o = CDie /\ exists h hs, hands s = h :: hs /\ hbind h = None /\ cleaked (cstep s o) = cleaked s ++ [hobj h]).
Proof.
  intros s o. destruct o as [j|j| |j|j| | |j]; cbn [cstep]; [| | | | | | |left; reflexivity].
  - left. destruct (cq (nth j (cpools s) cpool0)); [destruct (cstrict _)|]; reflexivity.
  - left. destruct (cq (nth j (cpools s) cpool0)); reflexivity.
  - left. reflexivity.
  - left. destruct (hands s); [reflexivity|]. rewrite push_handle_releases_into_this_pool. reflexivity.
  - left. destruct (hands s); reflexivity.
  - destruct (hands s) as [|[x [b|]] hs] eqn:Hh; [left; reflexivity | left; rewrite deleter_returns_to_bound_pool; reflexivity |].
    right. split; auto. exists {| hobj := x; hbind := None |}, hs. repeat split; auto.
  - left. destruct (hands s); reflexivity.
Qed.

(* push(handle) into pool j: the object is appended to pool j's free list (or destroyed when an auto-creating pool j
   is at capacity), pool j's recycler ran on it, every other pool is untouched - whatever the handle was bound to *)
Theorem pc_push_handle_spec : forall s j p h hs, nth_error (cpools s) j = Some p -> hands s = h :: hs ->
  let drop := negb (cstrict p) && pool_drop (zn (ccap p)) (zn (length (cq p))) in
  let s' := cstep s (CPushH j) in
  nth_error (cpools s') j = Some {| cstrict := cstrict p; ccap := ccap p; cq := if drop then cq p else cq p ++ [hobj h];
                                    crec := crec p ++ [hobj h] |} /\
  (forall i, i <> j -> nth_error (cpools s') i = nth_error (cpools s) i) /\
  hands s' = hs /\ cdestroyed s' = (if drop then cdestroyed s ++ [hobj h] else cdestroyed s) /\ cleaked s' = cleaked s /\
  chome_of s' (hobj h) = Some j.
Proof.
  intros s j p h hs Hp Hh drop s'. unfold s'. cbn [cstep]. rewrite Hh, push_handle_releases_into_this_pool.
  unfold push_raw. rewrite (nth_error_nth _ _ cpool0 Hp). cbn [with_hands cpools hands cdestroyed cleaked]. fold drop.
  split; [eapply nth_set_nth_eq; eauto|]. split; [intros i Hi; apply nth_set_nth_ne; auto|].
  repeat split; auto. unfold chome_of. cbn. rewrite Nat.eqb_refl. reflexivity.
Qed.

(* per pool: an object whose home is pool j is in j's free list or in a handle bound to j *)
Theorem pc_pool_owns : forall s o j, CInv s -> chome_of s o = Some j ->
  1 <= cnt (cq_all s) o + cnt (map hobj (hands s)) o ->
  (exists p, nth_error (cpools s) j = Some p /\ In o (cq p)) \/
  (exists h, In h (hands s) /\ hobj h = o /\ (hbind h = Some j \/ hbind h = None)).
Proof.
  intros s o j I Hm L. destruct (Nat.eq_dec (cnt (cq_all s) o) 0) as [Z|NZ].
  - right. assert (In o (map hobj (hands s))) by (apply (count_occ_In Nat.eq_dec); unfold cnt in *; lia).
    apply in_map_iff in H. destruct H as (h & E & Hin). exists h. split; auto. split; auto.
    destruct (hbind h) as [b|] eqn:B; auto. left. destruct (c_bind _ I h b Hin B) as [_ Hb]. rewrite E in Hb. congruence.
  - left. assert (In o (cq_all s)) by (apply (count_occ_In Nat.eq_dec); unfold cnt in *; lia).
    unfold cq_all in H. apply in_flat_map in H. destruct H as (p & Hin & Ho). apply In_nth_error in Hin. destruct Hin as [i Hi].
    pose proof (c_home _ I i p o Hi Ho) as Hh. assert (i = j) by congruence. subst. eauto.
Qed.

Lemma ex_route : let s := crun (cinit [true; true] 2) [CNewH; CPushH 0; CPop 0; CPushH 1; CTry 0; CTry 1] in
  map cq (cpools s) = [[]; []] /\ map hobj (hands s) = [0] /\ map hbind (hands s) = [Some 1] /\ cleaked s = [] /\
  clog s = [CNew 0; CPushed false; CGot 0; CPushed false; CNone; CGot 0].
Proof. vm_compute. repeat split. Qed.
